(* C12B/Proofs_cfont.v — cff.Font's own queries against the sfnt.Font queries,
   Outlines.BBox, BuiltinEncoding, Clone. *)
From Coq Require Import List NArith ZArith QArith Qround Qabs Bool Lia Lqa.
From Common Require Import Outcome.
From Gen Require Import C12B.
From C12 Require Import Codec Util Model Model2 Model3 Proofs_hmtx Proofs_derived.
From C12B Require Import Model Spec Proofs_box Proofs_pdf Proofs_font.
Import ListNotations.

Local Open Scope Q_scope.

(* ------------------------------------------------------------------ *)
(* every box GlyphBBoxPDF returns is proper, whatever the font         *)

Lemma box_loop_result sw tr cmds : forall s,
  box_loop sw tr cmds s = Panic \/
  box_loop sw tr cmds s = Ok (acc_points (map (fun p => tr (fst p) (snd p)) (cmds_points sw cmds)) s).
Proof.
  induction cmds as [|c t IH]; intros s; [right; reflexivity|].
  cbn [box_loop cmds_points]. destruct (cmd_point sw c) as [| |x y]; [apply IH|now left|].
  cbn [map fst snd]. destruct (tr x y) as [x' y'] eqn:E.
  destruct (IH (box4_add s x' y')) as [H|H]; [now left|right].
  rewrite H. unfold acc_points. cbn [fold_left fst snd]. reflexivity.
Qed.

Lemma cff_glyph_bbox_pdf_proper f fm gid r : M_cff_glyph_bbox_pdf f fm gid = Ok r -> qproper r.
Proof.
  unfold M_cff_glyph_bbox_pdf. destruct (cf_glyph f gid) as [g| | |]; cbn [obind]; try discriminate.
  destruct (glyph_matrix f fm gid) as [M| | |]; cbn [obind]; try discriminate.
  destruct (box_loop_result c12b_bboxpdf_switch (mat_apply (mat_mul M scale1000)) (g_cmds g) box4_init) as [H|H];
    rewrite H; cbn [obind]; [discriminate|].
  intros E. injection E as <-.
  destruct (acc_points_init (map (fun p => mat_apply (mat_mul M scale1000) (fst p) (snd p))
                                 (cmds_points c12b_bboxpdf_switch (g_cmds g)))) as [Hb _].
  rewrite Hb. apply S_bbox_proper.
Qed.

Lemma omapM_Forall {A B} (f : A -> outcome B) (P : B -> Prop) l : forall bs,
  (forall a b, f a = Ok b -> P b) -> omapM f l = Ok bs -> Forall P bs.
Proof.
  induction l as [|a t IH]; intros bs HP E; cbn [omapM] in E.
  - injection E as <-. constructor.
  - destruct (f a) as [b| | |] eqn:Ea; cbn [obind] in E; try discriminate.
    destruct (omapM f t) as [r| | |] eqn:Et; cbn [obind] in E; try discriminate.
    injection E as <-. constructor; [eapply HP; eauto|eapply IH; eauto].
Qed.

(* ------------------------------------------------------------------ *)
(* the two union loops are the same function: rect.Extend itself replaces a
   zero accumulator, which is all the `first` flag of Font.FontBBoxPDF does *)

Lemma loop2_eq_gen boxes : forall acc first,
  (first = true -> qrect_is_zero acc = true) ->
  fontbbox_pdf_loop2 boxes acc = fontbbox_pdf_loop boxes first acc.
Proof.
  induction boxes as [|g t IH]; intros acc first Hf; [reflexivity|].
  cbn [fontbbox_pdf_loop2 fontbbox_pdf_loop].
  destruct (qrect_is_zero g) eqn:Eg; [now apply IH|].
  destruct first.
  - rewrite (Hf eq_refl). apply IH. discriminate.
  - unfold qrect_extend at 2. rewrite Eg.
    destruct (qrect_is_zero acc) eqn:Ea.
    + apply IH. discriminate.
    + rewrite <- (IH _ false) by discriminate. unfold qrect_extend. now rewrite Eg, Ea.
Qed.

Lemma cfont_font_bbox_pdf_eq f : M_cfont_font_bbox_pdf f = M_cff_font_bbox_pdf f.
Proof.
  unfold M_cfont_font_bbox_pdf, M_cff_font_bbox_pdf.
  destruct (omapM (M_cff_glyph_bbox_pdf f (cf_top f)) (gids (cf_numglyphs f))); cbn [obind]; try reflexivity.
  now rewrite (loop2_eq_gen _ qrect_zero true).
Qed.

(* ------------------------------------------------------------------ *)
(* WidthsPDF: glyph space (cff.Font) = 1000 x text space (sfnt.Font)   *)

Lemma omapM_rel {A B} (f g : A -> outcome B) (R : B -> B -> Prop) l :
  (forall a, In a l -> (f a = Panic /\ g a = Panic) \/ (exists x y, f a = Ok x /\ g a = Ok y /\ R x y)) ->
  (omapM f l = Panic /\ omapM g l = Panic) \/
  (exists xs ys, omapM f l = Ok xs /\ omapM g l = Ok ys /\ Forall2 R xs ys).
Proof.
  induction l as [|a t IH]; intros H.
  - right. exists [], []. repeat split. constructor.
  - cbn [omapM]. destruct (H a (or_introl eq_refl)) as [[E1 E2]|(x & y & E1 & E2 & Hr)]; rewrite E1, E2; cbn [obind].
    + now left.
    + destruct IH as [[F1 F2]|(xs & ys & F1 & F2 & HF)]; [intros b Hb; apply H; now right| |].
      * rewrite F1, F2. now left.
      * rewrite F1, F2. cbn [obind]. right. exists (x :: xs), (y :: ys). repeat split. now constructor.
Qed.

Lemma cfont_widths_pdf_rel f :
  (M_cfont_widths_pdf f = Panic /\ M_cff_widths_pdf f = Panic) \/
  (exists xs ys, M_cfont_widths_pdf f = Ok xs /\ M_cff_widths_pdf f = Ok ys /\
                 Forall2 (fun x y => x == 1000 * y) xs ys).
Proof.
  unfold M_cfont_widths_pdf, M_cff_widths_pdf. apply omapM_rel. intros gid _.
  unfold cf_glyph. destruct (nth_error (cf_glyphs f) gid) as [g|]; cbn [obind]; [|now left].
  destruct (glyph_matrix f (cf_top f) gid) as [M| | |] eqn:EM; cbn [obind].
  - right. eexists. eexists. repeat split. ring.
  - unfold glyph_matrix in EM. destruct (cf_cid f); [|discriminate].
    destruct (nth_error (cf_fdsel f) gid); [|discriminate]. destruct (nth_error (cf_fmats f) _); discriminate.
  - now left.
  - unfold glyph_matrix in EM. destruct (cf_cid f); [|discriminate].
    destruct (nth_error (cf_fdsel f) gid); [|discriminate]. destruct (nth_error (cf_fmats f) _); discriminate.
Qed.

(* ------------------------------------------------------------------ *)
(* Outlines.BBox                                                       *)

Lemma outlines_bbox_eq f : M_outlines_bbox f = M_cff_font_bbox f.
Proof. rewrite cff_font_bbox_boxes. reflexivity. Qed.

(* ------------------------------------------------------------------ *)
(* BuiltinEncoding                                                     *)

Lemma builtin_encoding_gen enc glyphs :
  ((length enc <> 256)%nat -> M_builtin_encoding enc glyphs = None) /\
  ((length enc = 256)%nat ->
     exists l, M_builtin_encoding enc glyphs = Some l /\ length l = 256%nat /\
       forall i gid, nth_error enc i = Some gid ->
         (gid = 0%nat \/ (length glyphs <= gid)%nat -> nth_error l i = Some notdef_name) /\
         (forall g, gid <> 0%nat -> nth_error glyphs gid = Some g -> nth_error l i = Some (g_name g))).
Proof.
  unfold M_builtin_encoding. split; intros H.
  - destruct (Nat.eqb_spec (length enc) 256); [contradiction|reflexivity].
  - rewrite H. cbn [Nat.eqb]. eexists. split; [reflexivity|]. split; [now rewrite map_length|].
    intros i gid Hn. rewrite nth_error_map, Hn. cbn [option_map]. split.
    + intros [->|Hge]; [reflexivity|].
      destruct (Nat.eqb gid 0); cbn [orb]; [reflexivity|].
      destruct (Nat.leb_spec (length glyphs) gid); [reflexivity|lia].
    + intros g Hz Hg. destruct (Nat.eqb_spec gid 0); [contradiction|]. cbn [orb].
      assert (gid < length glyphs)%nat by (apply nth_error_Some; congruence).
      destruct (Nat.leb_spec (length glyphs) gid); [lia|]. now rewrite Hg.
Qed.

(* ------------------------------------------------------------------ *)
(* Clone                                                               *)

Lemma list_set_length {A} (l : list A) : forall i x, length (list_set l i x) = length l.
Proof. induction l as [|a t IH]; intros [|k] x; cbn; auto. Qed.

Lemma nth_list_set_eq {A} (l : list A) : forall i x d, (i < length l)%nat -> nth i (list_set l i x) d = x.
Proof. induction l as [|a t IH]; intros [|k] x d H; cbn in *; try lia; [reflexivity|apply IH; lia]. Qed.

Lemma nth_list_set_neq {A} (l : list A) : forall i k x d, i <> k -> nth k (list_set l i x) d = nth k l d.
Proof.
  induction l as [|a t IH]; intros [|i] [|k] x d H; cbn; try reflexivity; try lia.
  apply IH. lia.
Qed.

Lemma nth_error_list_set_eq {A} (l : list A) : forall i x, (i < length l)%nat -> nth_error (list_set l i x) i = Some x.
Proof. induction l as [|a t IH]; intros [|k] x H; cbn in *; try lia; [reflexivity|apply IH; lia]. Qed.

Section Clone.
  Variable s : store.
  Variable f : cfont_ptr.
  Hypothesis Hi : (p_info f < length (st_structs s))%nat.
  Hypothesis Ho : (p_outl f < length (st_structs s))%nat.

  Let s' := fst (M_clone s f).
  Let f' := snd (M_clone s f).

  Lemma clone_struct_old loc : (loc < length (st_structs s))%nat -> st_struct s' loc = st_struct s loc.
  Proof. intros H. unfold s', M_clone, st_struct. cbn [fst st_structs]. now rewrite app_nth1. Qed.

  Lemma clone_struct_info : st_struct s' (p_info f') = st_struct s (p_info f).
  Proof.
    unfold s', f', M_clone, st_struct. cbn [fst snd st_structs p_info].
    rewrite app_nth2 by lia. now rewrite Nat.sub_diag.
  Qed.

  Lemma clone_struct_outl : st_struct s' (p_outl f') = st_struct s (p_outl f).
  Proof.
    unfold s', f', M_clone, st_struct. cbn [fst snd st_structs p_outl].
    rewrite app_nth2 by lia. replace (S (length (st_structs s)) - length (st_structs s))%nat with 1%nat by lia.
    reflexivity.
  Qed.

  Lemma clone_fresh :
    p_info f' = length (st_structs s) /\ p_outl f' = S (length (st_structs s)) /\
    p_info f' <> p_info f /\ p_info f' <> p_outl f /\ p_outl f' <> p_info f /\ p_outl f' <> p_outl f /\
    (p_outl f' < length (st_structs s'))%nat.
  Proof.
    unfold f', s', M_clone. cbn [fst snd p_info p_outl st_structs]. rewrite app_length. cbn [length].
    repeat split; lia.
  Qed.

  Lemma observe_ext (a b : store) la lb :
    st_struct a la = st_struct b lb -> st_objs a = st_objs b -> st_observe a la = st_observe b lb.
  Proof. intros E1 E2. unfold st_observe. now rewrite E1, E2. Qed.

  (* the clone shows what the original shows, and the original is untouched *)
  Lemma clone_copies : cfont_observe s' f' = cfont_observe s f /\ cfont_observe s' f = cfont_observe s f.
  Proof.
    unfold cfont_observe. split; f_equal; apply observe_ext;
      first [apply clone_struct_info | apply clone_struct_outl | now apply clone_struct_old | reflexivity].
  Qed.

  (* assigning ANY field of either struct of the clone leaves the original unchanged *)
  Lemma clone_assign_private loc field v :
    loc = p_info f' \/ loc = p_outl f' ->
    cfont_observe (st_assign s' loc field v) f = cfont_observe s f.
  Proof.
    intros Hloc. destruct clone_fresh as (A & B & C & D & E & F & _).
    destruct clone_copies as [_ <-].
    unfold cfont_observe. f_equal; apply observe_ext; try reflexivity;
      unfold st_assign, st_struct at 1; cbn [st_structs]; apply nth_list_set_neq; destruct Hloc; congruence.
  Qed.

  (* references are shared: an element written through the clone is seen
     through the original *)
  Lemma clone_shares_refs field r j x :
    nth_error (st_struct s (p_outl f)) field = Some (FRef r) -> (r < length (st_objs s))%nat ->
    nth_error (st_struct s' (p_outl f')) field = Some (FRef r) /\
    nth_error (st_observe (st_write_elem s' (p_outl f') field j x) (p_outl f)) field =
      Some (OObj r (list_set (nth r (st_objs s) []) j x)).
  Proof.
    intros Hf Hr. rewrite clone_struct_outl. split; [exact Hf|].
    unfold st_write_elem. rewrite clone_struct_outl, Hf.
    unfold st_observe, st_struct at 1. cbn [st_structs st_objs].
    fold (st_struct s' (p_outl f)). rewrite (clone_struct_old _ Ho).
    rewrite nth_error_map, Hf. cbn [option_map]. f_equal. f_equal.
    unfold s', M_clone. cbn [fst st_objs]. now apply nth_list_set_eq.
  Qed.

  (* an array-valued field (FontMatrix) is part of the struct: not shared *)
  Lemma clone_array_private field l j x :
    nth_error (st_struct s (p_info f)) field = Some (FArray l) ->
    cfont_observe (st_write_elem s' (p_info f') field j x) f = cfont_observe s f.
  Proof.
    intros Hf. unfold st_write_elem. rewrite clone_struct_info, Hf.
    apply clone_assign_private. now left.
  Qed.
End Clone.

(* ------------------------------------------------------------------ *)
(* the statements of Props.v                                           *)

Lemma cff_font_queries_agree_stmt :
  forall f : cff_font,
    M_cfont_widths f = M_cff_widths f /\
    (forall gid, M_cfont_glyph_width_pdf f gid = M_cff_glyph_width_pdf f gid) /\
    M_cfont_widths_map_pdf f = M_cff_widths_map_pdf f /\
    M_cfont_font_bbox_pdf f = M_cff_font_bbox_pdf f /\
    ((M_cfont_widths_pdf f = Panic /\ M_cff_widths_pdf f = Panic) \/
     (exists xs ys, M_cfont_widths_pdf f = Ok xs /\ M_cff_widths_pdf f = Ok ys /\
                    Forall2 (fun x y => x == 1000 * y) xs ys)).
Proof.
  intros f. split; [reflexivity|]. split; [reflexivity|]. split; [reflexivity|].
  split; [apply cfont_font_bbox_pdf_eq|apply cfont_widths_pdf_rel].
Qed.

Lemma outlines_bbox_def_stmt :
  forall f : cff_font,
    M_outlines_bbox f = M_cff_font_bbox f /\
    (cff_wf f -> glyphs_fit f ->
       M_outlines_bbox f = Ok (S_fontbbox (cff_boxes f)) /\ Forall proper (cff_boxes f)).
Proof.
  intros f. split; [apply outlines_bbox_eq|]. intros Hwf Hfit. rewrite outlines_bbox_eq.
  destruct (cff_font_bbox_gen f Hwf Hfit) as [_ E]. destruct (cff_boxes_ok f Hfit) as [P _]. now split.
Qed.

Lemma clone_is_shallow_stmt :
  forall (s : store) (f : cfont_ptr),
    (p_info f < length (st_structs s))%nat -> (p_outl f < length (st_structs s))%nat ->
    let s' := fst (M_clone s f) in
    let f' := snd (M_clone s f) in
    (p_info f' <> p_info f /\ p_info f' <> p_outl f /\ p_outl f' <> p_info f /\ p_outl f' <> p_outl f) /\
    (cfont_observe s' f' = cfont_observe s f /\ cfont_observe s' f = cfont_observe s f) /\
    (forall loc field v, loc = p_info f' \/ loc = p_outl f' ->
       cfont_observe (st_assign s' loc field v) f = cfont_observe s f) /\
    (forall field r j x,
       nth_error (st_struct s (p_outl f)) field = Some (FRef r) -> (r < length (st_objs s))%nat ->
       nth_error (st_struct s' (p_outl f')) field = Some (FRef r) /\
       nth_error (st_observe (st_write_elem s' (p_outl f') field j x) (p_outl f)) field =
         Some (OObj r (list_set (nth r (st_objs s) []) j x))) /\
    (forall field l j x,
       nth_error (st_struct s (p_info f)) field = Some (FArray l) ->
       cfont_observe (st_write_elem s' (p_info f') field j x) f = cfont_observe s f).
Proof.
  intros s f Hi Ho s' f'.
  destruct (clone_fresh s f Hi Ho) as (_ & _ & A & B & C & D & _).
  split; [repeat split; assumption|]. split; [now apply clone_copies|].
  split; [intros; now apply clone_assign_private|].
  split; [intros; now apply clone_shares_refs|intros; now eapply clone_array_private; eauto].
Qed.
