(* C12B/Tie.v — translator tie.  Gen/C12B.v is regenerated from the Go source
   on every run (translators/items/C12B.json, translators/gen/kind_c12b.go).
   The model CONSUMES the two switch tables; everything else the model was
   written from is pinned here as text / structure:
     - the op codes and which arguments of which op carry the point,
     - that commands outside the table are skipped (default: continue),
     - the `first ||` form of the four comparisons of Extent and GlyphBBoxPDF
       (an index test instead breaks this file: seed C12-h),
     - the operands of the .Mul chains in the order written - Font DICT matrix,
       then the top-level FontMatrix, then Scale(1000, 1000) (a reordering
       breaks this file: seed C12-i),
     - the formulas of the width queries and their guards,
     - funit.Int16(w) in makeHmtx, URy / -LLy in makeOS2,
     - the length guard of GlyphName.
   A changed line of the source changes the generated definition and one of
   the reflexivity proofs below fails. *)
From Coq Require Import List NArith ZArith String.
From Gen Require Import C12B.
Import ListNotations.
Local Open Scope string_scope.

(* the text of the default clause of both switch statements *)
Definition continue_cmdLoop : string := "continue cmdLoop".

Lemma c12b_opcodes_tied :
  c12b_OpMoveTo = 1%N /\ c12b_OpLineTo = 2%N /\ c12b_OpCurveTo = 3%N /\
  c12b_OpHintMask = 4%N /\ c12b_OpCntrMask = 5%N.
Proof. repeat split; reflexivity. Qed.

Lemma c12b_switch_tied :
  c12b_extent_switch = [([1%N; 2%N], [0%N; 1%N]); ([3%N], [4%N; 5%N])] /\
  c12b_bboxpdf_switch = [([1%N; 2%N], [0%N; 1%N]); ([3%N], [4%N; 5%N])] /\
  c12b_extent_switch_default = continue_cmdLoop /\
  c12b_bboxpdf_switch_default = continue_cmdLoop.
Proof. repeat split; reflexivity. Qed.

Lemma c12b_first_flag_tied :
  c12b_extent_conds = ["first || x < left"; "first || x > right"; "first || y < bottom"; "first || y > top"] /\
  c12b_bboxpdf_conds = ["o.IsCIDKeyed()"; "first || x < bbox.LLx"; "first || x > bbox.URx";
                        "first || y < bbox.LLy"; "first || y > bbox.URy"] /\
  c12b_extent_returns =
    ["funit.Rect16{ LLx: funit.Int16(math.Floor(left)), LLy: funit.Int16(math.Floor(bottom)), URx: funit.Int16(math.Ceil(right)), URy: funit.Int16(math.Ceil(top)), }"].
Proof. repeat split; reflexivity. Qed.

(* the order of the matrix products *)
Lemma c12b_matrix_order_tied :
  c12b_bboxpdf_chain =
    [("o.IsCIDKeyed()", ["o.FontMatrices[o.FDSelect(gid)]"; "fm"]);
     ("!(o.IsCIDKeyed())", ["fm"]);
     ("", ["M"; "matrix.Scale(1000, 1000)"])] /\
  c12b_glyf_bboxpdf_chain = [("", ["fm"; "matrix.Scale(1000, 1000)"])] /\
  c12b_gwpdf_chain =
    [("case *cff.Outlines && o.IsCIDKeyed()", ["o.FontMatrices[o.FDSelect(gid)]"; "f.FontMatrix"]);
     ("case *cff.Outlines && !(o.IsCIDKeyed())", ["f.FontMatrix"])] /\
  c12b_wpdf_chain =
    [("case *cff.Outlines", ["f.FontMatrix"]);
     ("case *cff.Outlines && outlines.IsCIDKeyed()",
      ["outlines.FontMatrices[outlines.FDSelect(glyph.ID(gid))]"; "f.FontMatrix"])].
Proof. repeat split; reflexivity. Qed.

Lemma c12b_width_formulas_tied :
  c12b_gwpdf_q = [":= fm[0]"; "-= fm[1] * fm[2] / fm[3]"] /\
  c12b_gwpdf_conds = ["o.IsCIDKeyed()"; "math.Abs(fm[3]) > 1e-6"; "o.Widths == nil"] /\
  c12b_gwpdf_returns = ["o.Glyphs[gid].Width * (q * 1000)"; "0";
                        "float64(o.Widths[gid]) / (float64(f.UnitsPerEm) / 1000)"] /\
  c12b_wmap_q = [":= f.FontMatrix[0]"; "-= f.FontMatrix[1] * f.FontMatrix[2] / f.FontMatrix[3]"; "*= 1000"] /\
  c12b_wmap_conds = ["!isCFF || o.IsCIDKeyed()"; "math.Abs(f.FontMatrix[3]) > 1e-6"] /\
  c12b_wmap_entry = ["= glyph.Width * q"] /\
  c12b_wpdf_entry = ["= g.Width * fm[0]"; "= float64(w) / float64(f.UnitsPerEm)"] /\
  c12b_wpdf_conds = ["outlines.IsCIDKeyed()"; "outlines.Widths == nil"] /\
  c12b_fixed_conds = ["len(ww) == 0"; "w == 0"; "width == 0"; "math.Abs(width-w) >= 0.5"].
Proof. repeat split; reflexivity. Qed.

Lemma c12b_font_loops_tied :
  c12b_fontbbox_conds = ["glyphBBox.IsZero()"; "first"] /\
  c12b_fontbboxpdf_conds = ["glyphBBox.IsZero()"; "first"] /\
  c12b_glyphname_conds = ["int(gid) >= len(f.Names)"] /\
  c12b_makehmtx_width = ["= funit.Int16(w)"] /\
  c12b_makeos2_winascent = [":= bbox.URy"] /\
  c12b_makeos2_windescent = [":= -bbox.LLy"].
Proof. repeat split; reflexivity. Qed.

(* cff.Font's own copies of the queries, Outlines.BBox / BuiltinEncoding /
   NumGlyphs, and Clone, as text *)
Lemma c12b_cfont_tied :
  c12b_cfont_wpdf_chain =
    [("", ["f.FontMatrix"]);
     ("f.IsCIDKeyed()", ["f.FontMatrices[f.FDSelect(glyph.ID(gid))]"; "f.FontMatrix"])] /\
  c12b_cfont_wpdf_entry = ["= g.Width * (fm[0] * 1000)"] /\
  c12b_cfont_widths_entry = ["= glyph.Width"] /\
  c12b_cfont_gwpdf_chain =
    [("f.IsCIDKeyed()", ["f.FontMatrices[f.FDSelect(gid)]"; "f.FontInfo.FontMatrix"]);
     ("!(f.IsCIDKeyed())", ["f.FontInfo.FontMatrix"])] /\
  c12b_cfont_gwpdf_q = [":= fm[0]"; "-= fm[1] * fm[2] / fm[3]"] /\
  c12b_cfont_gwpdf_conds = ["f.IsCIDKeyed()"; "math.Abs(fm[3]) > 1e-6"] /\
  c12b_cfont_gwpdf_returns = ["f.Glyphs[gid].Width * (q * 1000)"] /\
  c12b_cfont_wmap_q = [":= f.FontMatrix[0]"; "-= f.FontMatrix[1] * f.FontMatrix[2] / f.FontMatrix[3]"; "*= 1000"] /\
  c12b_cfont_wmap_conds = ["f.IsCIDKeyed()"; "math.Abs(f.FontMatrix[3]) > 1e-6"] /\
  c12b_cfont_wmap_entry = ["= glyph.Width * q"] /\
  c12b_cfont_fontbboxpdf_conds = ["glyphBox.IsZero()"; "bbox.IsZero()"] /\
  c12b_cfont_fontbboxpdf_box = [":= f.Outlines.GlyphBBoxPDF(f.FontInfo.FontMatrix, glyph.ID(gid))"].
Proof. repeat split; reflexivity. Qed.

Lemma c12b_outlines_tied :
  c12b_outlines_bbox_conds = ["glyphBox.IsZero()"; "first"] /\
  c12b_outlines_bbox_box = [":= glyph.Extent()"] /\
  c12b_builtin_conds = ["len(o.Encoding) != 256"; "gid <= 0 || int(gid) >= len(o.Glyphs)"] /\
  c12b_builtin_entry = ["= "".notdef"""; "= o.Glyphs[gid].Name"] /\
  c12b_builtin_returns = ["nil"; "res"] /\
  c12b_cff_numglyphs = ["len(o.Glyphs)"] /\ c12b_glyf_numglyphs = ["len(o.Glyphs)"].
Proof. repeat split; reflexivity. Qed.

Lemma c12b_clone_tied :
  c12b_clone_fontinfo = [":= *f.FontInfo"] /\ c12b_clone_outlines = [":= *f.Outlines"] /\
  c12b_clone_returns = ["&Font{ FontInfo: &fontInfo, Outlines: &outlines, }"].
Proof. repeat split; reflexivity. Qed.
