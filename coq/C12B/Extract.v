From Coq Require Import Extraction ExtrOcamlBasic.
From Common Require Import Conv.
From C12 Require Import Codec Model Model2 Model3.
From C12B Require Import Model.
Extraction "c12b_model.ml" conv_anchor
  Qltb Qis_zero Qnear go_i16
  M_extent_cmds M_extent
  mat_abs mat_mul glyph_matrix glyph_matrix_abs qfactor qfactor_mag
  cf_numglyphs M_cff_widths M_cff_glyph_width M_cff_widths_pdf M_cff_glyph_width_pdf
  M_cff_widths_map_pdf M_cff_glyph_name M_cff_fixed_pitch
  M_cff_glyph_bbox M_cff_glyph_bboxes M_cff_glyph_height M_cff_font_bbox
  M_cff_glyph_bbox_pdf M_cff_font_bbox_pdf cff_glyph_bbox_pdf_mag
  gf_numglyphs M_glyf_widths M_glyf_widths_pdf M_glyf_glyph_width M_glyf_glyph_width_pdf
  M_glyf_glyph_name M_glyf_fixed_pitch M_glyf_glyph_bbox M_glyf_glyph_bboxes M_glyf_glyph_height
  M_glyf_font_bbox M_glyf_glyph_bbox_pdf M_glyf_font_bbox_pdf glyf_glyph_bbox_pdf_mag
  M_cff_derived M_glyf_derived M_hmtx_columns M_read_height Qmaxb
  M_cfont_widths M_cfont_widths_pdf M_cfont_widths_map_pdf M_cfont_glyph_width_pdf M_cfont_font_bbox_pdf
  M_outlines_bbox M_builtin_encoding M_clone st_assign st_write_elem cfont_observe.
