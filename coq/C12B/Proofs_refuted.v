(* C12B/Proofs_refuted.v — witnesses: what the seeded variants and the code
   before the repairs get wrong, and where the hypotheses of the theorems are
   needed.  Every witness is also a case line of corpus/C12B. *)
From Coq Require Import List NArith ZArith QArith Qround Qabs Bool Lia Lqa.
From Common Require Import Outcome.
From Gen Require Import C12B.
From C12 Require Import Codec Util Model Model2 Model3 Proofs_derived.
From C12B Require Import Model Spec Proofs_box Proofs_pdf Proofs_font.
Import ListNotations.

Local Open Scope Q_scope.

Ltac wf_cmds := repeat constructor; vm_compute; discriminate.

(* a glyph that opens with a hint mask: hintmask, moveto 100 100, lineto 500 700 *)
Definition w_masked : list cmd :=
  [mkCmd 4 [128]; mkCmd 1 [100; 100]; mkCmd 2 [500; 700]].

(* Extent initialised at command index 0 (seed C12-h): the mask at index 0
   carries no point, the box keeps the origin *)
Lemma extent_idx0_refuted_w :
  exists cmds, cmds_wf c12b_extent_switch cmds /\
               M_extent_cmds cmds = Ok (mkRect 100 100 500 700) /\
               M_extent_idx0 cmds = Ok (mkRect 0 0 500 700).
Proof. exists w_masked. split; [wf_cmds|]. split; vm_compute; reflexivity. Qed.

(* coordinates beyond Int16: the conversion wraps and the "box" is improper *)
Lemma extent_wraps_refuted_w :
  exists cmds, cmds_wf c12b_extent_switch cmds /\
               M_extent_cmds cmds = Ok (mkRect 30000 0 (-5536) 10) /\
               ~ pts_fit_i16 (cmds_points c12b_extent_switch cmds).
Proof.
  exists [mkCmd 1 [30000; 0]; mkCmd 2 [60000; 10]]. split; [wf_cmds|]. split; [vm_compute; reflexivity|].
  intros H. vm_compute in H. inversion H as [|? ? _ H2]; subst. inversion H2 as [|? ? (A & _) _]; subst.
  unfold I16 in A. vm_compute in A. destruct A as [_ A]. apply A. reflexivity.
Qed.

(* only END points count: moveto 0 0, curveto (0,100) (100,100) (100,0).  The
   curve reaches y = 75 at t = 1/2, the box stops at y = 0 *)
Definition bezier_half (p0 p1 p2 p3 : Q) : Q := (p0 + 3 * p1 + 3 * p2 + p3) / 8.

Lemma extent_ignores_control_points_w :
  exists cmds, cmds_wf c12b_extent_switch cmds /\
               M_extent_cmds cmds = Ok (mkRect 0 0 100 0) /\
               bezier_half 0 100 100 0 == 75.
Proof.
  exists [mkCmd 1 [0; 0]; mkCmd 3 [0; 100; 100; 100; 100; 0]].
  split; [wf_cmds|]. split; [vm_compute; reflexivity|]. vm_compute. reflexivity.
Qed.

(* a CID-keyed font: top-level matrix = 0.001 scale, Font DICT matrix of the
   glyph = translation by 50: the two do not commute *)
Definition w_cid : cff_font :=
  mkCff [mkGlyph 0 500 [mkCmd 1 [10; 20]; mkCmd 2 [110; 220]]]
        true [0%nat] [mkMat 1 0 0 1 50 0] (mkMat (1 # 1000) 0 0 (1 # 1000) 0 0).

Lemma w_cid_wf : cff_wf w_cid.
Proof.
  split.
  - repeat constructor; vm_compute; discriminate.
  - intros _. split; [reflexivity|]. repeat constructor.
Qed.

Lemma glyph_bbox_pdf_swapped_refuted_w :
  exists f fm gid r r',
    cff_wf f /\ M_cff_glyph_bbox_pdf f fm gid = Ok r /\
    M_cff_glyph_bbox_pdf_swapped f fm gid = Ok r' /\
    qrect_eq r (mkQrect 60 20 160 220) /\ qrect_eq r' (mkQrect 50010 20 50110 220).
Proof.
  exists w_cid, (cf_top w_cid), 0%nat.
  eexists. eexists. split; [exact w_cid_wf|].
  split; [vm_compute; reflexivity|]. split; [vm_compute; reflexivity|].
  split; repeat split; vm_compute; reflexivity.
Qed.

(* WidthsPDF before the repair ignored the Font DICT matrix: a CID-keyed font
   as sfnt.Read delivers it (top-level identity, Font DICT 0.001) *)
Definition w_cid_std : cff_font :=
  mkCff [mkGlyph 0 1366 [mkCmd 1 [0; 0]; mkCmd 2 [100; 100]]]
        true [0%nat] [mkMat (1 # 1000) 0 0 (1 # 1000) 0 0] mat_id.

Lemma w_cid_std_wf : cff_wf w_cid_std.
Proof.
  split.
  - repeat constructor; vm_compute; discriminate.
  - intros _. split; [reflexivity|]. repeat constructor.
Qed.

Lemma widths_pdf_old_refuted_w :
  exists f, cff_wf f /\
    exists w wold wnew,
      M_cff_glyph_width_pdf f 0 = Ok w /\ w == 1366 /\
      nth_error (M_cff_widths_pdf_old f) 0 = Some wold /\ wold == 1366 /\
      M_cff_widths_pdf f = Ok [wnew] /\ wnew == 1366 # 1000.
Proof.
  exists w_cid_std. split; [exact w_cid_std_wf|].
  eexists. eexists. eexists.
  split; [vm_compute; reflexivity|]. split; [vm_compute; reflexivity|].
  split; [vm_compute; reflexivity|]. split; [vm_compute; reflexivity|].
  split; [vm_compute; reflexivity|]. vm_compute; reflexivity.
Qed.

(* GlyphName before the repair: a TrueType font whose post table names fewer
   glyphs than the font has *)
Definition w_short_names : glyf_font :=
  mkGlyf [None; Some (mkRect 0 0 10 10); Some (mkRect 1 1 5 5)] (Some [0; 500; 600]%Z) (Some [7%N]) 1000
         (mkMat (1 # 1000) 0 0 (1 # 1000) 0 0).

Lemma glyphname_old_refuted_w :
  exists f gid, glyf_wf f /\ (gid < gf_numglyphs f)%nat /\
                M_glyf_glyph_name_old f gid = Panic /\ M_glyf_glyph_name f gid = Ok None.
Proof. exists w_short_names, 2%nat. repeat split. cbn. lia. Qed.

(* IsFixedPitch is not "all non-zero widths equal" on fractional widths *)
Lemma fixed_pitch_fractional_w :
  M_fixedpitch_q [500; 0; 500 + (1 # 4)] = true /\ M_fixedpitch_q [500; 500 + (1 # 2)] = false.
Proof. split; vm_compute; reflexivity. Qed.

(* the checker *)
Lemma near_sound_gen got exact mag :
  Qnear got exact mag = true -> Qabs (got - exact) <= mag * (1 # 1000000000).
Proof. unfold Qnear. apply Qle_bool_iff. Qed.
