(* C12B/Props.v — the theorems of part C12B (the query side of property C12):
   "the font's own metric queries (widths in design and PDF units, glyph and
   font boxes, fixed-pitch test) are consistent with the outlines and with each
   other", and the derived header fields as functions of these queries.
   Statements only; proofs are one-line instantiations of the Proofs_* files.

   All numbers are exact rationals: the model is the real-number meaning of
   the float64 expressions of the Go code (see Model.v).  [c12b_extent_switch]
   and [c12b_bboxpdf_switch] are regenerated from the Go source on every run. *)
From Coq Require Import List NArith ZArith QArith Qround Qabs Bool Lia.
From Coq Require String.
From Common Require Import Outcome.
From Gen Require Import C12B.
From C12 Require Import Codec Util Model Model2 Model3 Proofs_hmtx Proofs_derived.
From C12 Require Props.
From C12B Require Import Model Spec Proofs_box Proofs_pdf Proofs_font Proofs_refuted Tie Proofs_props Proofs_cfont.
Import ListNotations.

Local Open Scope Q_scope.

(* ================================================================== *)
(* (1) Extent                                                          *)

(* Glyph.Extent of ANY command list the reader can deliver (every
   point-carrying command has its arguments): with pts the points of the
   commands the regenerated switch gives a point to, in order,
   - no such command (blank glyph, or masks only): the zero rectangle;
   - otherwise (floor min x, floor min y, ceil max x, ceil max y) converted
     to Int16, the minima / maxima being elements of the point list that bound
     every point; when the rounded coordinates fit Int16 the conversion is the
     identity;
   - with the table as it is today (Tie.v) pts = the END points of moveto,
     lineto and curveto: the two control points of a curveto are ignored, and
     hintmask / cntrmask / unknown op codes contribute nothing WHEREVER they
     stand, also first.
   A command whose arguments are missing makes Extent panic. *)
Theorem extent_is_bbox :
  forall cmds : list cmd,
    let pts := cmds_points c12b_extent_switch cmds in
    (cmds_wf c12b_extent_switch cmds -> M_extent_cmds cmds = Ok (S_extent cmds)) /\
    (~ cmds_wf c12b_extent_switch cmds -> M_extent_cmds cmds = Panic) /\
    (pts = [] -> S_extent cmds = zero_rect) /\
    (forall p t, pts = p :: t ->
       let b := S_bbox pts in
       is_qmin (q_llx b) (map fst pts) /\ is_qmin (q_lly b) (map snd pts) /\
       is_qmax (q_urx b) (map fst pts) /\ is_qmax (q_ury b) (map snd pts) /\
       S_extent cmds = mkRect (go_i16 (Qfloor (q_llx b))) (go_i16 (Qfloor (q_lly b)))
                              (go_i16 (Qceiling (q_urx b))) (go_i16 (Qceiling (q_ury b))) /\
       (pts_fit_i16 pts ->
          S_extent cmds = mkRect (Qfloor (q_llx b)) (Qfloor (q_lly b))
                                 (Qceiling (q_urx b)) (Qceiling (q_ury b)) /\
          proper (S_extent cmds) /\ rect_ok_i16 (S_extent cmds))) /\
    (cmds_wf c12b_extent_switch cmds -> pts = end_points cmds).
Proof. exact extent_is_bbox_stmt. Qed.
Print Assumptions extent_is_bbox.

(* initialising the box at command index 0 instead of at the first POINT is
   wrong for a glyph that opens with a hint mask *)
Theorem extent_is_bbox_idx0_refuted :
  exists cmds, cmds_wf c12b_extent_switch cmds /\
               M_extent_cmds cmds = Ok (mkRect 100 100 500 700) /\
               M_extent_idx0 cmds = Ok (mkRect 0 0 500 700).
Proof. exact extent_idx0_refuted_w. Qed.
Print Assumptions extent_is_bbox_idx0_refuted.

(* the Int16 hypothesis is needed: beyond the range the conversion wraps *)
Theorem extent_wraps_refuted :
  exists cmds, cmds_wf c12b_extent_switch cmds /\
               M_extent_cmds cmds = Ok (mkRect 30000 0 (-5536) 10) /\
               ~ pts_fit_i16 (cmds_points c12b_extent_switch cmds).
Proof. exact extent_wraps_refuted_w. Qed.
Print Assumptions extent_wraps_refuted.

(* control points are ignored: a curve can leave the box *)
Theorem extent_ignores_control_points :
  exists cmds, cmds_wf c12b_extent_switch cmds /\
               M_extent_cmds cmds = Ok (mkRect 0 0 100 0) /\
               bezier_half 0 100 100 0 == 75.
Proof. exact extent_ignores_control_points_w. Qed.
Print Assumptions extent_ignores_control_points.

(* ================================================================== *)
(* (2) GlyphBBoxPDF, FontBBoxPDF                                       *)

(* CFF: for every font, matrix argument fm, glyph id and command list, the
   result is the bounding box of the glyph's points, each mapped by the
   glyph's Font DICT matrix, THEN fm, THEN x1000 (CID-keyed), or by fm then
   x1000 (simple font) - the matrices applied one after the other, not a
   product; blank glyph = zero rectangle; the box is proper. *)
Theorem glyph_bbox_pdf_def :
  forall (f : cff_font) (fm : mat) (gid : nat) (g : glyph) (chain : list mat),
    nth_error (cf_glyphs f) gid = Some g ->
    cmds_wf c12b_bboxpdf_switch (g_cmds g) ->
    glyph_chain f fm gid = Some chain ->
    let pts := cmds_points c12b_bboxpdf_switch (g_cmds g) in
    exists r, M_cff_glyph_bbox_pdf f fm gid = Ok r /\
              qrect_eq r (S_bbox (map (apply_chain (chain ++ [scale1000])) pts)) /\
              qproper r /\
              (pts = [] -> r = qrect_zero).
Proof. exact glyph_bbox_pdf_gen. Qed.
Print Assumptions glyph_bbox_pdf_def.

(* the chain: Font DICT matrix first, top-level matrix second *)
Theorem glyph_chain_def :
  forall (f : cff_font) (fm : mat) (gid : nat),
    (cf_cid f = false -> glyph_chain f fm gid = Some [fm]) /\
    (forall fd F, cf_cid f = true -> nth_error (cf_fdsel f) gid = Some fd ->
                  nth_error (cf_fmats f) fd = Some F -> glyph_chain f fm gid = Some [F; fm]).
Proof. exact glyph_chain_def_stmt. Qed.
Print Assumptions glyph_chain_def.

(* the other order is a different function on matrices that do not commute *)
Theorem glyph_bbox_pdf_swapped_refuted :
  exists f fm gid r r',
    cff_wf f /\ M_cff_glyph_bbox_pdf f fm gid = Ok r /\
    M_cff_glyph_bbox_pdf_swapped f fm gid = Ok r' /\
    qrect_eq r (mkQrect 60 20 160 220) /\ qrect_eq r' (mkQrect 50010 20 50110 220).
Proof. exact glyph_bbox_pdf_swapped_refuted_w. Qed.
Print Assumptions glyph_bbox_pdf_swapped_refuted.

(* TrueType: the box of the four corners of the stored glyph box mapped by fm
   and x1000; nil glyph = zero rectangle *)
Theorem glyf_glyph_bbox_pdf_def :
  forall (f : glyf_font) (fm : mat) (gid : nat),
    (forall r, nth_error (gf_glyphs f) gid = Some (Some r) ->
       exists b, M_glyf_glyph_bbox_pdf f fm gid = Ok b /\
                 qrect_eq b (S_bbox (map (apply_chain [fm; scale1000]) (corners r))) /\ qproper b) /\
    (nth_error (gf_glyphs f) gid = Some None -> M_glyf_glyph_bbox_pdf f fm gid = Ok qrect_zero) /\
    (nth_error (gf_glyphs f) gid = None -> M_glyf_glyph_bbox_pdf f fm gid = Panic).
Proof. exact glyf_glyph_bbox_pdf_def_stmt. Qed.
Print Assumptions glyf_glyph_bbox_pdf_def.

(* FontBBoxPDF = union of the non-zero glyph boxes (zero when there is none),
   for both outline kinds *)
Theorem font_bbox_pdf_def :
  (forall f : cff_font, cff_wf f ->
     exists boxes,
       omapM (M_cff_glyph_bbox_pdf f (cf_top f)) (gids (cf_numglyphs f)) = Ok boxes /\
       length boxes = cf_numglyphs f /\ Forall qproper boxes /\
       M_cff_font_bbox_pdf f = Ok (S_fontbbox_pdf boxes)) /\
  (forall f : glyf_font,
     exists boxes,
       omapM (M_glyf_glyph_bbox_pdf f (gf_top f)) (gids (gf_numglyphs f)) = Ok boxes /\
       length boxes = gf_numglyphs f /\ Forall qproper boxes /\
       M_glyf_font_bbox_pdf f = Ok (S_fontbbox_pdf boxes)) /\
  (forall boxes : list qrect,
     let ne := nonzero_boxes boxes in
     (ne = [] -> S_fontbbox_pdf boxes = qrect_zero) /\
     (ne <> [] ->
        is_qmin (q_llx (S_fontbbox_pdf boxes)) (map q_llx ne) /\
        is_qmin (q_lly (S_fontbbox_pdf boxes)) (map q_lly ne) /\
        is_qmax (q_urx (S_fontbbox_pdf boxes)) (map q_urx ne) /\
        is_qmax (q_ury (S_fontbbox_pdf boxes)) (map q_ury ne))).
Proof. exact font_bbox_pdf_def_stmt. Qed.
Print Assumptions font_bbox_pdf_def.

(* ================================================================== *)
(* (3) FontBBox                                                        *)

(* both outline kinds: FontBBox() folds exactly the boxes GlyphBBoxes()
   returns; for a CFF font these are the Extents, and with coordinates in the
   Int16 range the result is C12's union of the non-empty glyph boxes - the
   value makeHead writes (dv_fontbbox of the derived fields, theorem
   derived_fields_from_queries; its encoding is C12's head_roundtrip). *)
Theorem font_bbox_def :
  (forall f : cff_font, cff_wf f -> glyphs_fit f ->
     M_cff_glyph_bboxes f = Ok (cff_boxes f) /\
     M_cff_font_bbox f = Ok (S_fontbbox (cff_boxes f)) /\
     Forall proper (cff_boxes f) /\ Forall rect_ok_i16 (cff_boxes f)) /\
  (forall f : glyf_font, Forall proper (M_glyf_glyph_bboxes f) ->
     M_glyf_font_bbox f = S_fontbbox (M_glyf_glyph_bboxes f)) /\
  (forall boxes : list rect, Forall proper boxes ->
     M_fontbbox boxes = S_fontbbox boxes /\
     (nonempty_boxes boxes = [] -> S_fontbbox boxes = zero_rect) /\
     (nonempty_boxes boxes <> [] ->
        is_min_of (llx (S_fontbbox boxes)) (map llx (nonempty_boxes boxes)) /\
        is_min_of (lly (S_fontbbox boxes)) (map lly (nonempty_boxes boxes)) /\
        is_max_of (urx (S_fontbbox boxes)) (map urx (nonempty_boxes boxes)) /\
        is_max_of (ury (S_fontbbox boxes)) (map ury (nonempty_boxes boxes)))).
Proof. exact font_bbox_def_stmt. Qed.
Print Assumptions font_bbox_def.

(* ================================================================== *)
(* (4) the width queries                                               *)

(* CFF fonts.  Widths()[gid] = GlyphWidth(gid) = the glyph's width.  With M
   the glyph's matrix (Font DICT matrix x FontMatrix for a CID-keyed font, the
   FontMatrix otherwise): WidthsPDF()[gid] = width * M[0] and
   GlyphWidthPDF(gid) = width * (q * 1000) with q = M[0] - M[1]*M[2]/M[3] if
   |M[3]| > 1e-6, else M[0]; so GlyphWidthPDF = 1000 * WidthsPDF whenever
   M[1]*M[2] = 0 or |M[3]| <= 1e-6.  WidthsMapPDF: nil for CID-keyed fonts;
   otherwise the entry of every glyph whose name no later glyph carries is
   exactly GlyphWidthPDF of that glyph. *)
Theorem width_queries_agree :
  forall f : cff_font, cff_wf f ->
    (forall gid, M_cff_glyph_width f gid =
                 match nth_error (M_cff_widths f) gid with Some w => Ok w | None => Panic end) /\
    (exists l, M_cff_widths_pdf f = Ok l /\ length l = cf_numglyphs f /\
       forall gid g chain,
         nth_error (cf_glyphs f) gid = Some g -> glyph_chain f (cf_top f) gid = Some chain ->
         exists M, glyph_matrix f (cf_top f) gid = Ok M /\
                   nth_error l gid = Some (g_width g * m0 M) /\
                   M_cff_glyph_width_pdf f gid = Ok (g_width g * (qfactor M * 1000)) /\
                   ((m1 M * m2 M == 0 \/ Qabs (m3 M) <= 1 # 1000000) ->
                      g_width g * (qfactor M * 1000) == 1000 * (g_width g * m0 M))) /\
    (cf_cid f = true -> M_cff_widths_map_pdf f = None) /\
    (cf_cid f = false ->
       exists m, M_cff_widths_map_pdf f = Some m /\ length m = cf_numglyphs f /\
         forall pre g post,
           cf_glyphs f = pre ++ g :: post ->
           ~ In (g_name g) (map g_name post) ->
           assoc_last m (g_name g) = Some (g_width g * (qfactor (cf_top f) * 1000)) /\
           M_cff_glyph_width_pdf f (length pre) = Ok (g_width g * (qfactor (cf_top f) * 1000))).
Proof. exact width_queries_agree_stmt. Qed.
Print Assumptions width_queries_agree.

(* TrueType fonts.  Widths non-nil (and as long as the glyph list, which the
   reader guarantees): Widths() = the advance widths, WidthsPDF()[gid] =
   w / unitsPerEm, GlyphWidth(gid) = w, GlyphWidthPDF(gid) =
   w / (unitsPerEm / 1000) = 1000 * WidthsPDF()[gid] (unitsPerEm <> 0); a glyph
   id beyond the widths panics.  Widths nil: Widths() is all zeros while
   WidthsPDF() is nil; GlyphWidth and GlyphWidthPDF return 0 for EVERY glyph
   id; IsFixedPitch is true (for a font with at least one glyph). *)
Theorem width_queries_agree_glyf :
  forall f : glyf_font,
    (forall w, gf_widths f = Some w -> length w = gf_numglyphs f ->
       M_glyf_widths f = Ok (int_widths w) /\
       M_glyf_widths_pdf f = Ok (Some (map (fun x => Zq x / Zq (gf_upem f)) w)) /\
       (forall gid x, nth_error w gid = Some x ->
          M_glyf_glyph_width f gid = Ok (Zq x) /\
          M_glyf_glyph_width_pdf f gid = Ok (Zq x / (Zq (gf_upem f) / 1000)) /\
          (gf_upem f <> 0%Z -> Zq x / (Zq (gf_upem f) / 1000) == 1000 * (Zq x / Zq (gf_upem f)))) /\
       (forall gid, (length w <= gid)%nat ->
          M_glyf_glyph_width f gid = Panic /\ M_glyf_glyph_width_pdf f gid = Panic) /\
       M_glyf_fixed_pitch f = Ok (M_fixedpitch w)) /\
    (gf_widths f = None ->
       M_glyf_widths f = Ok (repeat 0 (gf_numglyphs f)) /\
       M_glyf_widths_pdf f = Ok None /\
       (forall gid, M_glyf_glyph_width f gid = Ok 0 /\ M_glyf_glyph_width_pdf f gid = Ok 0) /\
       M_glyf_fixed_pitch f = Ok (negb (gf_numglyphs f =? 0)%nat)).
Proof. exact width_queries_agree_glyf_stmt. Qed.
Print Assumptions width_queries_agree_glyf.

(* WidthsPDF before the repair ignored the Font DICT matrix: on a CID-keyed
   font as sfnt.Read delivers it (FontMatrix = identity, Font DICT matrix =
   0.001) it returned 1366 "text space units" for a glyph whose GlyphWidthPDF
   is 1366 thousandths; the repaired function returns 1.366 *)
Theorem widths_pdf_cid_old_refuted :
  exists f, cff_wf f /\
    exists w wold wnew,
      M_cff_glyph_width_pdf f 0 = Ok w /\ w == 1366 /\
      nth_error (M_cff_widths_pdf_old f) 0 = Some wold /\ wold == 1366 /\
      M_cff_widths_pdf f = Ok [wnew] /\ wnew == 1366 # 1000.
Proof. exact widths_pdf_old_refuted_w. Qed.
Print Assumptions widths_pdf_cid_old_refuted.

(* IsFixedPitch.  On rational widths: true iff there is a glyph and every
   non-zero width lies within 1/2 of the first non-zero width.  On integer
   widths (TrueType always; CFF with integer widths) this is C12's
   M_fixedpitch, i.e. (C12.fixed_pitch_def) all non-zero widths are equal. *)
Theorem fixed_pitch_queries :
  (forall ws : list Q, M_fixedpitch_q ws = true <-> ws <> [] /\ all_near_first ws) /\
  (forall ws : list Z, M_fixedpitch_q (int_widths ws) = M_fixedpitch ws) /\
  (forall ws : list Z, M_fixedpitch_q (int_widths ws) = true <-> ws <> [] /\ all_equal_nonzero ws) /\
  (M_fixedpitch_q [500; 0; 500 + (1 # 4)] = true /\ M_fixedpitch_q [500; 500 + (1 # 2)] = false).
Proof. exact fixed_pitch_queries_stmt. Qed.
Print Assumptions fixed_pitch_queries.

(* ================================================================== *)
(* (5) the derived fields, from the queries                            *)

(* CFF font with 1..65535 glyphs, end points in the Int16 range, advance
   widths that are non-negative Int16 integers, representable right side
   bearings, a cmap with a code point: what Font.Write derives -
   maxp.numGlyphs, head.FontBBox, hhea advanceWidthMax / minLeftSideBearing /
   minRightSideBearing / xMaxExtent / numberOfHMetrics, OS/2 xAvgCharWidth,
   first / last character, winAscent = FontBBox.URy, winDescent =
   -FontBBox.LLy, post.isFixedPitch - equals C12's definitions evaluated on the
   boxes Extent returns and the widths Widths() returns (composition with
   C12.writer_derived_fields: the boxes are floor/ceil of the end-point
   extrema by extent_is_bbox). *)
Theorem derived_fields_from_queries :
  forall (f : cff_font) (ws : list Z) (cm : cmap_kind),
    cff_wf f -> glyphs_fit f -> M_cff_widths f = int_widths ws ->
    (1 <= length ws)%nat -> (N.of_nat (length ws) <= 65535)%N ->
    Forall (fun w => (0 <= w)%Z) ws -> Forall I16 ws ->
    Forall I16 (map rsb_of (nonempty_zip (cff_boxes f) (combine ws (map llx (cff_boxes f))))) ->
    cmap_ok cm ->
    let boxes := cff_boxes f in
    M_cff_derived f cm =
      Ok (mkDerived (Z.of_nat (length boxes)) (S_fontbbox boxes)
                    (S_advmax ws) (S_minlsb boxes (map llx boxes))
                    (S_minrsb boxes ws (map llx boxes)) (S_xmaxext boxes (map llx boxes))
                    (N.of_nat (M_numLong ws))
                    (wrap_i16 (M_avgwidth ws)) (fst (first_last_of cm)) (snd (first_last_of cm))
                    (ury (S_fontbbox boxes)) (wrap_i16 (- lly (S_fontbbox boxes)))
                    (M_fixedpitch ws)).
Proof. exact cff_derived_gen. Qed.
Print Assumptions derived_fields_from_queries.

(* the hmtx table: the advance widths as given and, as left side bearing of
   every glyph, the LLx of its box; the table reads back *)
Theorem hmtx_lsb_from_boxes :
  forall (boxes : list rect) (ws : list Z),
    length boxes = length ws -> (1 <= length ws)%nat -> (N.of_nat (length ws) <= 65535)%N ->
    Forall I16 ws -> Forall rect_ok_i16 boxes ->
    M_hmtx_columns boxes (int_widths ws) = (ws, map llx boxes) /\
    exists hhea hm,
      M_hmtx_encode (mkHinfo (Some ws) (Some boxes) None 0 0 0 0) 1 0 = Ok (hhea, Some hm) /\
      M_hmtx_decode hhea (Some hm) = Ok (mkDinfo 0 0 0 1 0 0 (Some ws) (Some (map llx boxes))).
Proof. exact hmtx_columns_roundtrip. Qed.
Print Assumptions hmtx_lsb_from_boxes.

(* widths that are Int16 integers: the float computations of makeHmtx /
   makeOS2 / IsFixedPitch are C12's integer computations *)
Theorem derived_float_is_integer_model :
  forall (boxes : list rect) (ws : list Z) (cm : cmap_kind),
    Forall I16 ws -> M_derived_q boxes (int_widths ws) true cm = M_derived boxes ws cm.
Proof. exact derived_q_int. Qed.
Print Assumptions derived_float_is_integer_model.

(* TrueType font with advance widths *)
Theorem derived_fields_from_queries_glyf :
  forall (f : glyf_font) (ws : list Z) (cm : cmap_kind),
    gf_widths f = Some ws -> length ws = gf_numglyphs f ->
    (1 <= length ws)%nat -> (N.of_nat (length ws) <= 65535)%N ->
    let boxes := M_glyf_glyph_bboxes f in
    Forall proper boxes -> Forall rect_ok_i16 boxes ->
    Forall (fun w => (0 <= w)%Z) ws -> Forall I16 ws ->
    Forall I16 (map rsb_of (nonempty_zip boxes (combine ws (map llx boxes)))) ->
    cmap_ok cm ->
    M_glyf_derived f cm =
      Ok (mkDerived (Z.of_nat (length boxes)) (S_fontbbox boxes)
                    (S_advmax ws) (S_minlsb boxes (map llx boxes))
                    (S_minrsb boxes ws (map llx boxes)) (S_xmaxext boxes (map llx boxes))
                    (N.of_nat (M_numLong ws))
                    (wrap_i16 (M_avgwidth ws)) (fst (first_last_of cm)) (snd (first_last_of cm))
                    (ury (S_fontbbox boxes)) (wrap_i16 (- lly (S_fontbbox boxes)))
                    (M_fixedpitch ws)).
Proof. exact glyf_derived_gen. Qed.
Print Assumptions derived_fields_from_queries_glyf.

(* TrueType font without advance widths (no hmtx is written): the hhea
   aggregates come from the boxes alone *)
Theorem derived_fields_from_queries_glyf_nil :
  forall (f : glyf_font) (cm : cmap_kind),
    gf_widths f = None ->
    let boxes := M_glyf_glyph_bboxes f in
    Forall rect_ok_i16 boxes ->
    exists d, M_glyf_derived f cm = Ok d /\
      dv_fontbbox d = M_fontbbox boxes /\
      dv_advmax d = 0%Z /\ dv_minrsb d = 0%Z /\ dv_numlong d = 0%N /\
      dv_minlsb d = S_minlsb boxes (map llx boxes) /\
      dv_xmaxext d = S_xmaxext boxes (map llx boxes) /\
      dv_avg d = 0%Z /\ dv_fixed d = negb (gf_numglyphs f =? 0)%nat.
Proof. exact glyf_derived_nil_gen. Qed.
Print Assumptions derived_fields_from_queries_glyf_nil.

(* cap height / x-height on reading: the OS/2 value when it is not 0;
   otherwise the URy of the box of the glyph the best cmap maps 'H' / 'x' to,
   provided that glyph is not .notdef and exists; otherwise 0 *)
Theorem read_height_def :
  forall (os2v : Z) (have : bool) (gid n : nat) (height : nat -> outcome Z),
    (os2v <> 0%Z -> M_read_height os2v have gid n height = Ok os2v) /\
    (os2v = 0%Z -> have = true -> (0 < gid < n)%nat -> M_read_height os2v have gid n height = height gid) /\
    (os2v = 0%Z -> (have = false \/ gid = 0%nat \/ (n <= gid)%nat) ->
       M_read_height os2v have gid n height = Ok 0%Z).
Proof. exact read_height_gen. Qed.
Print Assumptions read_height_def.

(* ================================================================== *)
(* (6) totality                                                        *)

(* a CFF font the reader can deliver (point commands complete; FDSelect of a
   CID-keyed font defined for every glyph and inside FontMatrices): no query
   panics for a glyph id in range, and the per-glyph answers are the glyph's
   data; a glyph id beyond the last glyph is an index-out-of-range panic in
   every per-glyph query (a caller error, not reachable through a valid id) *)
Theorem queries_total :
  forall (f : cff_font) (fm : mat), cff_wf f ->
    (forall gid, (gid < cf_numglyphs f)%nat ->
       exists g, nth_error (cf_glyphs f) gid = Some g /\
         M_cff_glyph_width f gid = Ok (g_width g) /\
         M_cff_glyph_name f gid = Ok (g_name g) /\
         M_cff_glyph_bbox f gid = Ok (S_extent (g_cmds g)) /\
         M_cff_glyph_height f gid = Ok (ury (S_extent (g_cmds g))) /\
         (exists w, M_cff_glyph_width_pdf f gid = Ok w) /\
         (exists b, M_cff_glyph_bbox_pdf f fm gid = Ok b)) /\
    ((exists l, M_cff_glyph_bboxes f = Ok l) /\ (exists r, M_cff_font_bbox f = Ok r) /\
     (exists l, M_cff_widths_pdf f = Ok l) /\ (exists b, M_cff_font_bbox_pdf f = Ok b)) /\
    (forall gid, (cf_numglyphs f <= gid)%nat ->
       M_cff_glyph_width f gid = Panic /\ M_cff_glyph_name f gid = Panic /\
       M_cff_glyph_bbox f gid = Panic /\ M_cff_glyph_height f gid = Panic /\
       M_cff_glyph_width_pdf f gid = Panic /\ M_cff_glyph_bbox_pdf f fm gid = Panic).
Proof. exact queries_total_stmt. Qed.
Print Assumptions queries_total.

(* a TrueType font the reader can deliver (Widths nil or as long as the glyph
   list): no query panics for a glyph id in range; GlyphName never panics,
   whatever the length of the name list and whatever the glyph id *)
Theorem queries_total_glyf :
  forall (f : glyf_font) (fm : mat),
    (glyf_wf f -> forall gid, (gid < gf_numglyphs f)%nat ->
       (exists r, M_glyf_glyph_bbox f gid = Ok r /\ M_glyf_glyph_height f gid = Ok (ury r)) /\
       (exists b, M_glyf_glyph_bbox_pdf f fm gid = Ok b) /\
       (exists w, M_glyf_glyph_width f gid = Ok w) /\
       (exists w, M_glyf_glyph_width_pdf f gid = Ok w) /\
       (exists l, M_glyf_widths f = Ok l) /\ (exists l, M_glyf_widths_pdf f = Ok l) /\
       (exists b, M_glyf_fixed_pitch f = Ok b) /\ (exists b, M_glyf_font_bbox_pdf f = Ok b)) /\
    (forall gid, exists nm, M_glyf_glyph_name f gid = Ok nm).
Proof. exact queries_total_glyf_stmt. Qed.
Print Assumptions queries_total_glyf.

(* GlyphName before the repair: a font file whose post table names fewer
   glyphs than maxp counts made GlyphName panic for a valid glyph id *)
Theorem glyphname_short_names_old_refuted :
  exists f gid, glyf_wf f /\ (gid < gf_numglyphs f)%nat /\
                M_glyf_glyph_name_old f gid = Panic /\ M_glyf_glyph_name f gid = Ok None.
Proof. exact glyphname_old_refuted_w. Qed.
Print Assumptions glyphname_short_names_old_refuted.

(* ================================================================== *)
(* (7) the CFF package's own queries: cff.Font, cff.Outlines           *)

(* For EVERY cff.Font value (simple or CID-keyed, well-formed or not), compared
   with the sfnt.Font that wraps the same Outlines with the same FontMatrix:
   Widths, GlyphWidthPDF, WidthsMapPDF and FontBBoxPDF are the same functions
   (FontBBoxPDF tests the accumulator instead of a `first` flag, which is what
   rect.Extend does anyway); WidthsPDF differs BY DOCUMENTED UNIT: cff.Font
   returns PDF glyph space units, sfnt.Font text space units - entry for entry
   cff = 1000 x sfnt, and one panics exactly when the other does. *)
Theorem cff_font_queries_agree :
  forall f : cff_font,
    M_cfont_widths f = M_cff_widths f /\
    (forall gid, M_cfont_glyph_width_pdf f gid = M_cff_glyph_width_pdf f gid) /\
    M_cfont_widths_map_pdf f = M_cff_widths_map_pdf f /\
    M_cfont_font_bbox_pdf f = M_cff_font_bbox_pdf f /\
    ((M_cfont_widths_pdf f = Panic /\ M_cff_widths_pdf f = Panic) \/
     (exists xs ys, M_cfont_widths_pdf f = Ok xs /\ M_cff_widths_pdf f = Ok ys /\
                    Forall2 (fun x y => x == 1000 * y) xs ys)).
Proof. exact cff_font_queries_agree_stmt. Qed.
Print Assumptions cff_font_queries_agree.

(* Outlines.BBox is Font.FontBBox of the wrapping font: the union of the
   non-zero glyph Extents (C12.fontbbox_union, through font_bbox_def) *)
Theorem outlines_bbox_def :
  forall f : cff_font,
    M_outlines_bbox f = M_cff_font_bbox f /\
    (cff_wf f -> glyphs_fit f ->
       M_outlines_bbox f = Ok (S_fontbbox (cff_boxes f)) /\ Forall proper (cff_boxes f)).
Proof. exact outlines_bbox_def_stmt. Qed.
Print Assumptions outlines_bbox_def.

(* BuiltinEncoding: nil unless the Encoding has exactly 256 entries (nil and
   short / long slices alike); otherwise 256 names, entry i = ".notdef" when
   Encoding[i] is 0 or not a glyph of the font, else that glyph's name *)
Theorem builtin_encoding_def :
  forall (enc : list nat) (glyphs : list glyph),
    ((length enc <> 256)%nat -> M_builtin_encoding enc glyphs = None) /\
    ((length enc = 256)%nat ->
       exists l, M_builtin_encoding enc glyphs = Some l /\ length l = 256%nat /\
         forall i gid, nth_error enc i = Some gid ->
           (gid = 0%nat \/ (length glyphs <= gid)%nat -> nth_error l i = Some notdef_name) /\
           (forall g, gid <> 0%nat -> nth_error glyphs gid = Some g -> nth_error l i = Some (g_name g))).
Proof. exact builtin_encoding_gen. Qed.
Print Assumptions builtin_encoding_def.

(* Clone, over a store of structs and referenced objects: the clone's two
   structs are NEW locations holding copies of the fields - the clone shows
   what the original shows, the original is untouched, and assigning any field
   of the clone (scalar, array or reference) leaves the original unchanged -
   while every reference (slice, map, pointer, func) is the SAME reference: an
   element written through the clone is seen through the original.  An
   array-valued field (FontMatrix [6]float64) is part of the struct, hence
   private. *)
Theorem clone_is_shallow :
  forall (s : store) (f : cfont_ptr),
    (p_info f < length (st_structs s))%nat -> (p_outl f < length (st_structs s))%nat ->
    let s' := fst (M_clone s f) in
    let f' := snd (M_clone s f) in
    (p_info f' <> p_info f /\ p_info f' <> p_outl f /\ p_outl f' <> p_info f /\ p_outl f' <> p_outl f) /\
    (cfont_observe s' f' = cfont_observe s f /\ cfont_observe s' f = cfont_observe s f) /\
    (forall loc field v, loc = p_info f' \/ loc = p_outl f' ->
       cfont_observe (st_assign s' loc field v) f = cfont_observe s f) /\
    (forall field r j x,
       nth_error (st_struct s (p_outl f)) field = Some (FRef r) -> (r < length (st_objs s))%nat ->
       nth_error (st_struct s' (p_outl f')) field = Some (FRef r) /\
       nth_error (st_observe (st_write_elem s' (p_outl f') field j x) (p_outl f)) field =
         Some (OObj r (list_set (nth r (st_objs s) []) j x))) /\
    (forall field l j x,
       nth_error (st_struct s (p_info f)) field = Some (FArray l) ->
       cfont_observe (st_write_elem s' (p_info f') field j x) f = cfont_observe s f).
Proof. exact clone_is_shallow_stmt. Qed.
Print Assumptions clone_is_shallow.

(* ================================================================== *)
(* the checker of the correspondence run, and the translator tie       *)

Theorem near_sound :
  forall got exact mag : Q,
    Qnear got exact mag = true -> Qabs (got - exact) <= mag * (1 # 1000000000).
Proof. exact near_sound_gen. Qed.
Print Assumptions near_sound.

Theorem model_tables_match_source :
  (c12b_OpMoveTo = 1%N /\ c12b_OpLineTo = 2%N /\ c12b_OpCurveTo = 3%N /\
   c12b_OpHintMask = 4%N /\ c12b_OpCntrMask = 5%N) /\
  (c12b_extent_switch = [([1%N; 2%N], [0%N; 1%N]); ([3%N], [4%N; 5%N])] /\
   c12b_bboxpdf_switch = [([1%N; 2%N], [0%N; 1%N]); ([3%N], [4%N; 5%N])] /\
   c12b_extent_switch_default = continue_cmdLoop /\
   c12b_bboxpdf_switch_default = continue_cmdLoop).
Proof. exact model_tables_match_source_stmt. Qed.
Print Assumptions model_tables_match_source.
