(* C12B/Examples.v — non-vacuity: concrete fonts that satisfy every hypothesis
   of every theorem of Props.v, with the models evaluated on them inside Coq
   (which also cross-checks the extraction on these cases).  The `_refuted`
   witnesses are in Proofs_refuted.v / Props.v. *)
From Coq Require Import List NArith ZArith QArith Qround Qabs Bool Lia.
From Common Require Import Outcome.
From Gen Require Import C12B.
From C12 Require Import Codec Util Model Model2 Model3 Proofs_hmtx Proofs_derived.
From C12B Require Import Model Spec Proofs_box Proofs_pdf Proofs_font Proofs_refuted Proofs_cfont.
Import ListNotations.

Local Open Scope Q_scope.

(* glyph 0: blank.  glyph 1: opens with a hintmask, another mask between two
   segments, fractional coordinates.  glyph 2: cntrmask + hintmask first, a
   curve whose control points lie outside the end-point box, a trailing mask.
   glyph 3: a single point. *)
Definition ex_g0 : glyph := mkGlyph 0 250 [].
Definition ex_g1 : glyph :=
  mkGlyph 1 600 [mkCmd 4 [240]; mkCmd 1 [100; 100]; mkCmd 2 [500; 100]; mkCmd 4 [80];
                 mkCmd 2 [500; 700]; mkCmd 2 [100 + (1 # 2); 700 + (1 # 4)]].
Definition ex_g2 : glyph :=
  mkGlyph 2 600 [mkCmd 5 [192]; mkCmd 4 [240]; mkCmd 1 [-20; -10];
                 mkCmd 3 [-300; 900; 800; 900; 400; -10 - (3 # 4)]; mkCmd 4 [80]].
Definition ex_g3 : glyph := mkGlyph 3 0 [mkCmd 1 [7; -3]].

(* CID-keyed: two Font DICTs - a translation with a shear, and an anisotropic
   scale - under a 0.001 top-level matrix *)
Definition ex_F0 : mat := mkMat 1 0 (1 # 4) 1 50 (-20).
Definition ex_F1 : mat := mkMat (1 # 2) 0 0 2 0 0.
Definition ex_top : mat := mkMat (1 # 1000) 0 0 (1 # 1000) 0 0.
Definition ex_cid : cff_font := mkCff [ex_g0; ex_g1; ex_g2; ex_g3] true [0; 0; 1; 1]%nat [ex_F0; ex_F1] ex_top.
Definition ex_simple : cff_font := mkCff [ex_g0; ex_g1; ex_g2; ex_g3] false [] [] ex_top.

Example ex_cid_wf : cff_wf ex_cid.
Proof.
  split.
  - repeat constructor; vm_compute; discriminate.
  - intros _. split; [reflexivity|]. repeat constructor.
Qed.

Example ex_simple_wf : cff_wf ex_simple.
Proof.
  split.
  - repeat constructor; vm_compute; discriminate.
  - discriminate.
Qed.

Example ex_cid_fit : glyphs_fit ex_cid.
Proof. unfold glyphs_fit. repeat constructor; vm_compute; intros; discriminate. Qed.

(* (1) Extent: masks anywhere contribute nothing; floor / ceil of fractions *)
Example ex_extent_g1 : M_extent ex_g1 = Ok (mkRect 100 100 500 701).
Proof. vm_compute. reflexivity. Qed.
Example ex_extent_g2 : M_extent ex_g2 = Ok (mkRect (-20) (-11) 400 (-10)).
Proof. vm_compute. reflexivity. Qed.
Example ex_extent_g0 : M_extent ex_g0 = Ok zero_rect.
Proof. vm_compute. reflexivity. Qed.
Example ex_extent_points :
  cmds_points c12b_extent_switch (g_cmds ex_g2) = [(-20, -10); (400, -10 - (3 # 4))] /\
  end_points (g_cmds ex_g2) = [(-20, -10); (400, -10 - (3 # 4))].
Proof. split; reflexivity. Qed.
Example ex_extent_short_args : M_extent_cmds [mkCmd 3 [1; 2; 3; 4; 5]] = Panic.
Proof. reflexivity. Qed.

(* (2) PDF-unit boxes: glyph 2 uses Font DICT 1 (x/2, 2y), then 0.001, then 1000 *)
Example ex_bbox_pdf_g2 :
  exists r, M_cff_glyph_bbox_pdf ex_cid ex_top 2 = Ok r /\ qrect_eq r (mkQrect (-10) (-43 # 2) 200 (-20)).
Proof. eexists. split; [vm_compute; reflexivity|]. repeat split; vm_compute; reflexivity. Qed.
Example ex_bbox_pdf_g1 :
  exists r, M_cff_glyph_bbox_pdf ex_cid ex_top 1 = Ok r /\
            qrect_eq r (mkQrect 175 80 725 (2721 # 4)).
Proof. eexists. split; [vm_compute; reflexivity|]. repeat split; vm_compute; reflexivity. Qed.
Example ex_chain : glyph_chain ex_cid ex_top 2 = Some [ex_F1; ex_top].
Proof. reflexivity. Qed.
Example ex_font_bbox_pdf :
  exists r, M_cff_font_bbox_pdf ex_cid = Ok r /\ qrect_eq r (mkQrect (-10) (-43 # 2) 725 (2721 # 4)).
Proof. eexists. split; [vm_compute; reflexivity|]. repeat split; vm_compute; reflexivity. Qed.

(* (3) FontBBox *)
Example ex_font_bbox : M_cff_font_bbox ex_cid = Ok (mkRect (-20) (-11) 500 701).
Proof. vm_compute. reflexivity. Qed.
Example ex_boxes : cff_boxes ex_cid = [zero_rect; mkRect 100 100 500 701; mkRect (-20) (-11) 400 (-10); mkRect 7 (-3) 7 (-3)].
Proof. vm_compute. reflexivity. Qed.

(* (4) widths *)
Example ex_widths : M_cff_widths ex_cid = int_widths [250; 600; 600; 0]%Z.
Proof. reflexivity. Qed.
Example ex_widths_pdf :
  exists l, M_cff_widths_pdf ex_cid = Ok l /\ Forall2 Qeq l [1 # 4; 3 # 5; 3 # 10; 0].
Proof. eexists. split; [vm_compute; reflexivity|]. repeat constructor; vm_compute; reflexivity. Qed.
Example ex_glyph_width_pdf :
  exists w, M_cff_glyph_width_pdf ex_cid 2 = Ok w /\ w == 300.
Proof. eexists. split; [vm_compute; reflexivity|]. vm_compute. reflexivity. Qed.
Example ex_widths_map_cid : M_cff_widths_map_pdf ex_cid = None.
Proof. reflexivity. Qed.
Example ex_widths_map_simple :
  exists m v, M_cff_widths_map_pdf ex_simple = Some m /\ assoc_last m 2 = Some v /\ v == 600.
Proof. eexists. eexists. split; [vm_compute; reflexivity|]. split; [vm_compute; reflexivity|]. vm_compute. reflexivity. Qed.
Example ex_fixed : M_cff_fixed_pitch ex_cid = false.
Proof. vm_compute. reflexivity. Qed.

(* (5) derived fields: every hypothesis of derived_fields_from_queries holds *)
Example ex_derived_hyps :
  let ws := [250; 600; 600; 0]%Z in
  let cm := Cmap4 [72; 120; 65]%Z in
  cff_wf ex_cid /\ glyphs_fit ex_cid /\ M_cff_widths ex_cid = int_widths ws /\
  (1 <= length ws)%nat /\ (N.of_nat (length ws) <= 65535)%N /\
  Forall (fun w => (0 <= w)%Z) ws /\ Forall I16 ws /\
  Forall I16 (map rsb_of (nonempty_zip (cff_boxes ex_cid) (combine ws (map llx (cff_boxes ex_cid))))) /\
  cmap_ok cm.
Proof.
  cbv zeta. split; [exact ex_cid_wf|]. split; [exact ex_cid_fit|]. split; [reflexivity|].
  split; [cbn; lia|]. split; [cbn; lia|].
  split; [repeat constructor; lia|]. split; [repeat constructor; unfold I16; lia|].
  split; [vm_compute; repeat constructor; intros; discriminate|].
  split; [discriminate|repeat constructor; lia].
Qed.

Example ex_derived :
  M_cff_derived ex_cid (Cmap4 [72; 120; 65]%Z) =
    Ok (mkDerived 4 (mkRect (-20) (-11) 500 701) 600 (-20) (-7) 500 4 483 65 120 701 11 false).
Proof. vm_compute. reflexivity. Qed.

(* TrueType: with and without advance widths *)
Definition ex_glyf : glyf_font :=
  mkGlyf [None; Some (mkRect 50 0 450 700); Some (mkRect (-30) (-200) 300 500)]
         (Some [500; 500; 500]%Z) (Some [0; 36; 88]%N) 2048
         (mkMat (1 # 2048) 0 0 (1 # 2048) 0 0).
Definition ex_glyf_nil : glyf_font :=
  mkGlyf [None; Some (mkRect 50 0 450 700)] None None 1000 (mkMat (1 # 1000) 0 0 (1 # 1000) 0 0).

Example ex_glyf_wf : glyf_wf ex_glyf /\ glyf_wf ex_glyf_nil.
Proof. split; reflexivity. Qed.
Example ex_glyf_bbox_pdf :
  exists r, M_glyf_glyph_bbox_pdf ex_glyf (gf_top ex_glyf) 2 = Ok r /\
            qrect_eq r (mkQrect (-1875 # 128) (-3125 # 32) (9375 # 64) (15625 # 64)).
Proof. eexists. split; [vm_compute; reflexivity|]. repeat split; vm_compute; reflexivity. Qed.
Example ex_glyf_widths :
  M_glyf_widths ex_glyf = Ok (int_widths [500; 500; 500]%Z) /\
  M_glyf_widths ex_glyf_nil = Ok [0; 0] /\ M_glyf_widths_pdf ex_glyf_nil = Ok None /\
  M_glyf_glyph_width_pdf ex_glyf_nil 99 = Ok 0 /\
  M_glyf_fixed_pitch ex_glyf = Ok true /\ M_glyf_fixed_pitch ex_glyf_nil = Ok true.
Proof. repeat split; vm_compute; reflexivity. Qed.
Example ex_glyf_derived :
  M_glyf_derived ex_glyf (Cmap12 [72; 70000]%Z) =
    Ok (mkDerived 3 (mkRect (-30) (-200) 450 700) 500 (-30) 50 450 1 500 72 65535 700 200 true).
Proof. vm_compute. reflexivity. Qed.
Example ex_glyf_derived_nil :
  M_glyf_derived ex_glyf_nil NoCmap =
    Ok (mkDerived 2 (mkRect 50 0 450 700) 0 50 0 450 0 0 0 0 700 0 true).
Proof. vm_compute. reflexivity. Qed.
Example ex_glyf_derived_hyps :
  let boxes := M_glyf_glyph_bboxes ex_glyf in
  let ws := [500; 500; 500]%Z in
  Forall proper boxes /\ Forall rect_ok_i16 boxes /\
  Forall I16 (map rsb_of (nonempty_zip boxes (combine ws (map llx boxes)))).
Proof.
  cbv zeta. split; [repeat constructor; cbn; lia|].
  split; [repeat constructor; cbn; lia|vm_compute; repeat constructor; intros; discriminate].
Qed.

(* names, heights, cap height on reading *)
Example ex_names :
  M_glyf_glyph_name ex_glyf 2 = Ok (Some 88%N) /\ M_glyf_glyph_name ex_glyf 7 = Ok None /\
  M_cff_glyph_name ex_cid 3 = Ok 3%N.
Proof. repeat split; reflexivity. Qed.
Example ex_read_height :
  M_read_height 0 true 1 3 (M_glyf_glyph_height ex_glyf) = Ok 700%Z /\
  M_read_height 650 true 1 3 (M_glyf_glyph_height ex_glyf) = Ok 650%Z /\
  M_read_height 0 true 5 3 (M_glyf_glyph_height ex_glyf) = Ok 0%Z.
Proof. repeat split; reflexivity. Qed.

(* totality: out-of-range glyph ids *)
Example ex_oor : M_cff_glyph_width ex_cid 4 = Panic /\ M_cff_glyph_width_pdf ex_cid 4 = Panic.
Proof. split; reflexivity. Qed.

(* the checker accepts a float within 1e-9 and rejects one outside *)
Example ex_near :
  Qnear (1 # 3) (3333333333 # 10000000000) (1 # 3) = true /\ Qnear (1 # 3) (333333 # 1000000) (1 # 3) = false.
Proof. split; vm_compute; reflexivity. Qed.

(* (7) cff.Font / cff.Outlines *)
Example ex_cfont_widths_pdf :
  exists l, M_cfont_widths_pdf ex_cid = Ok l /\ Forall2 Qeq l [250; 600; 300; 0].
Proof. eexists. split; [vm_compute; reflexivity|]. repeat constructor; vm_compute; reflexivity. Qed.
Example ex_cfont_bbox : M_outlines_bbox ex_cid = Ok (mkRect (-20) (-11) 500 701).
Proof. vm_compute. reflexivity. Qed.
Example ex_cfont_font_bbox_pdf : M_cfont_font_bbox_pdf ex_cid = M_cff_font_bbox_pdf ex_cid.
Proof. vm_compute. reflexivity. Qed.
Example ex_builtin :
  let enc := [0; 2; 9; 1]%nat ++ repeat 3%nat 252 in
  length enc = 256%nat /\
  option_map (firstn 5) (M_builtin_encoding enc (cf_glyphs ex_simple)) = Some [0; 2; 0; 1; 3]%N /\
  M_builtin_encoding [1; 2]%nat (cf_glyphs ex_simple) = None /\ M_builtin_encoding [] (cf_glyphs ex_simple) = None.
Proof. repeat split; vm_compute; reflexivity. Qed.

(* Clone: struct 0 = FontInfo (a scalar, the FontMatrix array), struct 1 =
   Outlines (Glyphs and Encoding as references to objects 0 and 1) *)
Definition ex_store : store :=
  mkStore [[FScalar 7; FArray [1; 0; 0; 1; 0; 0]%Z]; [FRef 0; FRef 1; FScalar 3]] [[500; 600]%Z; [0; 0; 2]%Z].
Definition ex_font_ptr : cfont_ptr := mkCfont 0 1.
Example ex_clone :
  let s' := fst (M_clone ex_store ex_font_ptr) in
  let f' := snd (M_clone ex_store ex_font_ptr) in
  f' = mkCfont 2 3 /\
  cfont_observe s' f' = cfont_observe ex_store ex_font_ptr /\
  cfont_observe (st_assign s' 3 0 (FRef 1)) ex_font_ptr = cfont_observe ex_store ex_font_ptr /\
  cfont_observe (st_write_elem s' 2 1 0 9%Z) ex_font_ptr = cfont_observe ex_store ex_font_ptr /\
  nth_error (st_observe (st_write_elem s' 3 0 1 999%Z) 1) 0 = Some (OObj 0 [500; 999]%Z).
Proof. repeat split; vm_compute; reflexivity. Qed.
