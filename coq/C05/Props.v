(* C05/Props.v — the theorems about the specification interpreter S_t2, stated
   against the constants and the getSubr function regenerated from
   cff/t2decode.go and cff/t2encode.go on this run.  (The property "the
   implementation yields what the specification defines" itself is decided by
   the correspondence implementation vs S_t2.) *)
From Coq Require Import List NArith ZArith Bool Arith Lia.
From Gen Require Import Consts C05.
From C05 Require Import Model Proofs.
Import ListNotations.
Local Open Scope Z_scope.

(* The limits S_t2 takes from TN5177 appendix B are the ones in the code. *)
Theorem limits_tie :
  cff_maxStack = t2_max_stack /\ cff_t2_maxCallDepth = t2_max_depth /\
  cff_t2_storageSize = Z.of_nat t2_trans_len.
Proof. repeat split; vm_compute; reflexivity. Qed.
Print Assumptions limits_tie.

(* No program loops: the interpreter is structurally recursive over the code
   of each segment, calls nest at most 10 deep, so fuel 11 (one level per
   nested segment) always suffices, for every charstring, every pair of
   subroutine tables and every fuel >= 11.  Termination is all the format
   guarantees: the amount of work is bounded only exponentially in the nesting
   depth, see t2_steps_bound below. *)
Theorem t2_terminates :
  forall (dflt nom : Z) (subrs gsubrs : subrtab) (code : list N) (fuel : nat),
    (S cff_t2_maxCallDepth <= fuel)%nat ->
    outcome_of dflt nom (exec subrs gsubrs fuel init_state code) <> T2Fuel /\
    S_t2 dflt nom subrs gsubrs code <> T2Fuel.
Proof.
  intros dflt nom subrs gsubrs code fuel Hf.
  assert (G : forall f, (S t2_max_depth <= f)%nat ->
              outcome_of dflt nom (exec subrs gsubrs f init_state code) <> T2Fuel).
  { intros f Hf'. pose proof (exec_good subrs gsubrs f init_state code inv_init) as G.
    destruct (exec subrs gsubrs f init_state code); cbn; try discriminate.
    exfalso. apply G. cbn. exact Hf'. }
  split; [apply G; exact Hf|apply G; unfold t2_fuel; lia].
Qed.
Print Assumptions t2_terminates.

(* The operand stack never holds more than maxStack entries (hw is the
   high-water mark, updated by every write to the stack), the transient array
   always has 32 slots, calls never nest deeper than 10 (dhw is the high-water
   mark of the nesting depth). *)
Theorem t2_stack_bound :
  forall (subrs gsubrs : subrtab) (code : list N) (st : state),
    final_state (S_t2_state subrs gsubrs code) = Some st ->
    (length (stk st) <= hw st)%nat /\ (hw st <= cff_maxStack)%nat /\
    Z.of_nat (length (trans st)) = cff_t2_storageSize /\
    (depth st <= dhw st)%nat /\ (dhw st <= cff_t2_maxCallDepth)%nat.
Proof.
  intros subrs gsubrs code st H. unfold S_t2_state in H.
  pose proof (exec_good subrs gsubrs t2_fuel init_state code inv_init) as G.
  assert (HI : Inv st).
  { destruct (exec subrs gsubrs t2_fuel init_state code); cbn in H; inversion H; subst;
      cbn [good] in G; apply G; unfold t2_fuel, t2_max_depth; cbn; lia. }
  destruct HI as (H1 & H2 & H3 & H4 & H5).
  repeat split; try assumption. rewrite H3. reflexivity.
Qed.
Print Assumptions t2_stack_bound.

(* The work for one glyph: the number of operands and operators executed
   (nsteps, incremented at every one of them) is at most L*(M+1)^10 for a
   charstring of L bytes and subroutines of at most M bytes.  This bound is
   exponential in the nesting depth and is attained up to a constant factor
   (Examples.ex_fanout: fan-out 2, depth 10, 51 bytes, 6139 steps; fan-out 8
   makes it 10^9 from 171 bytes).  The specification has no other limit; the
   implementation therefore enforces a budget of cff_t2_maxSteps executed
   operands and operators (fix C05-total-steps-budget), which S_t2 does not
   have: programs above the budget are outside the compared domain. *)
Theorem t2_steps_bound :
  forall (subrs gsubrs : subrtab) (code : list N),
    (final_steps (S_t2_state subrs gsubrs code) <= t2_step_bound subrs gsubrs code)%N.
Proof. exact steps_bound_lemma. Qed.
Print Assumptions t2_steps_bound.

(* put and get only ever touch slots 0..31 *)
Theorem storage_index_bound :
  forall (st st' : state) (o : oper), (o = OPut \/ o = OGet) -> do_op o st = PCont st' ->
    exists i r, stk st = i :: r /\ 0 <= to_int i < cff_t2_storageSize.
Proof.
  intros st st' o [-> | ->]; cbn [do_op]; intros H.
  - destruct (stk st) as [|i [|v r]]; try discriminate.
    destruct (negb (is_int i)); try discriminate.
    destruct ((0 <=? to_int i) && (to_int i <? Z.of_nat t2_trans_len)) eqn:E; try discriminate.
    apply andb_true_iff in E. rewrite Z.leb_le, Z.ltb_lt in E. exists i, (v :: r). split; [reflexivity|exact E].
  - destruct (stk st) as [|i r]; try discriminate.
    destruct (negb (is_int i)); try discriminate.
    destruct ((0 <=? to_int i) && (to_int i <? Z.of_nat t2_trans_len)) eqn:E; try discriminate.
    apply andb_true_iff in E. rewrite Z.leb_le, Z.ltb_lt in E. exists i, r. split; [reflexivity|exact E].
Qed.
Print Assumptions storage_index_bound.

(* The bias of getSubr (translated from the Go source on this run) is
   107 / 1131 / 32768 by the thresholds 1240 and 33900 of TN5176, and a call
   is valid exactly when the biased index lies inside the table; S_t2's lookup
   is that function. *)
Theorem bias_correct :
  forall (n biased : Z),
    (n < 1240 -> subr_bias n = 107) /\
    (1240 <= n < 33900 -> subr_bias n = 1131) /\
    (33900 <= n -> subr_bias n = 32768) /\
    cff_getSubr n biased =
      (if (0 <=? biased + subr_bias n) && (biased + subr_bias n <? n)
       then Some (biased + subr_bias n) else None) /\
    (forall t, t_size t = n ->
       ((exists body, lookup t biased = Some body) <-> 0 <= biased + subr_bias n < n) /\
       ((exists i, cff_getSubr n biased = Some i) <-> (exists body, lookup t biased = Some body))).
Proof.
  intros n biased. pose proof (subr_bias_spec n) as (B1 & B2 & B3).
  assert (HG : cff_getSubr n biased =
      (if (0 <=? biased + subr_bias n) && (biased + subr_bias n <? n)
       then Some (biased + subr_bias n) else None)).
  { unfold cff_getSubr, subr_bias.
    destruct (n <? 1240); destruct (n <? 33900);
      repeat match goal with |- context [?a <? ?b] => destruct (Z.ltb_spec a b) end;
      repeat match goal with |- context [?a >=? ?b] => destruct (Z.geb_spec a b) end;
      repeat match goal with |- context [?a <=? ?b] => destruct (Z.leb_spec a b) end;
      cbn; try reflexivity; lia. }
  split; [exact B1|]. split; [exact B2|]. split; [exact B3|]. split; [exact HG|].
  intros t Ht. split.
  - rewrite <- Ht. apply lookup_some_iff.
  - split.
    + intros [i Hi]. apply lookup_some_iff. rewrite Ht. rewrite HG in Hi.
      destruct ((0 <=? biased + subr_bias n) && (biased + subr_bias n <? n)) eqn:E; [|discriminate].
      apply andb_true_iff in E. rewrite Z.leb_le, Z.ltb_lt in E. exact E.
    + intros Hb. apply lookup_some_iff in Hb. rewrite Ht in Hb. rewrite HG.
      replace ((0 <=? biased + subr_bias n) && (biased + subr_bias n <? n)) with true; [eauto|].
      symmetry. apply andb_true_iff. rewrite Z.leb_le, Z.ltb_lt. exact Hb.
Qed.
Print Assumptions bias_correct.

(* Each single-fault class yields an error: for every prefix p of a charstring
   that executes completely (leaving state st'), deleting the endchar, pushing
   a 49th operand, cutting an operand short, a reserved operator, an operator
   with an operand count outside TN5177's table (count_legal - this is what
   dropping an operand of a path operator produces), a drawing operator before
   the first moveto, an arithmetic/storage/call operator on too few operands,
   and a subroutine index outside the table all make S_t2 return T2Err. *)
Theorem malformed_rejected :
  forall (dflt nom : Z) (subrs gsubrs : subrtab) (p : list N) (st' : state),
  S_t2_state subrs gsubrs p = RFell st' ->
  S_t2 dflt nom subrs gsubrs p = T2Err EIncomplete /\
  forall code,
  (forall v rest, lex_num code = NumOk v rest -> (cff_maxStack <= length (stk st'))%nat ->
     S_t2 dflt nom subrs gsubrs (p ++ code) = T2Err EOverflow) /\
  (lex_num code = NumTrunc -> S_t2 dflt nom subrs gsubrs (p ++ code) = T2Err EIncomplete) /\
  (lex_num code = NotNum -> lex_op code = OpBad -> S_t2 dflt nom subrs gsubrs (p ++ code) = T2Err EBadOp) /\
  (forall o rest, lex_num code = NotNum -> lex_op code = OpOk o rest ->
     (count_legal o (length (stk st')) (wset st') = false \/
      (is_draw o = true /\ moved st' = false) \/
      (length (stk st') < arity o)%nat) ->
     exists e, S_t2 dflt nom subrs gsubrs (p ++ code) = T2Err e) /\
  (forall o rest v r, lex_num code = NotNum -> lex_op code = OpOk o rest ->
     (o = OCallsubr \/ o = OCallgsubr) -> stk st' = v :: r -> is_int v = true ->
     lookup (match o with OCallgsubr => gsubrs | _ => subrs end) (to_int v) = None ->
     S_t2 dflt nom subrs gsubrs (p ++ code) = T2Err EBadSubr).
Proof. exact malformed_rejected_lemma. Qed.
Print Assumptions malformed_rejected.

(* An eleventh nested call is an error wherever it occurs. *)
Theorem call_depth_rejected :
  forall subrs gsubrs call st code o rest v r,
    pend st = O -> lex_num code = NotNum -> lex_op code = OpOk o rest ->
    (o = OCallsubr \/ o = OCallgsubr) -> stk st = v :: r -> is_int v = true ->
    (cff_t2_maxCallDepth <= depth st)%nat ->
    go subrs gsubrs call st code = RErr EDepth (with_stk r (tick st)).
Proof.
  intros subrs gsubrs call st code o rest v r Hp Hn Ho Hc Hs Hi Hd.
  exact (proj1 (bad_call_rejected subrs gsubrs call st code o rest v r Hp Hn Ho Hc Hs Hi) Hd).
Qed.
Print Assumptions call_depth_rejected.

(* Code composes: a prefix that executes completely hands its state on. *)
Theorem t2_code_composes :
  forall subrs gsubrs fuel p st st' q,
    exec subrs gsubrs fuel st p = RFell st' ->
    exec subrs gsubrs fuel st (p ++ q) = exec subrs gsubrs fuel st' q.
Proof. exact exec_app. Qed.
Print Assumptions t2_code_composes.
