(* C05/Model.v — S_t2: a strict specification interpreter for Type 2
   charstrings, written from Adobe Technical Note #5177 ("The Type 2 Charstring
   Format") and TN #5176 section 16 (subroutine bias).  It is NOT a mirror of
   cff/t2decode.go; the implementation is compared with it.

   Numbers: every operand, coordinate, stem edge and width is a 16.16
   fixed-point number represented by the integer v*65536 (type Z).  The
   specification leaves the result of an arithmetic operator undefined on
   overflow and does not fix the rounding of an inexact mul/div/sqrt; such
   programs (and `random`, `get` of an unwritten slot, division by zero, the
   deprecated seac form of endchar and dotsection) give the outcome T2Unspec
   and are outside the compared domain.

   Definitions only; proofs are in Proofs*.v. *)
From Coq Require Import List NArith ZArith Bool Arith.
Import ListNotations.
Local Open Scope Z_scope.

(* ------------------------------------------------------------------ *)
(* Limits of the format (TN5177 appendix B)                            *)

Definition t2_max_stack : nat := 48%nat.
Definition t2_max_depth : nat := 10%nat.
Definition t2_trans_len : nat := 32%nat.

(* ------------------------------------------------------------------ *)
(* Numbers                                                             *)

Definition SC : Z := 65536.
Definition FIX_MIN : Z := -2147483648.
Definition FIX_MAX : Z := 2147483647.
Definition in_range (v : Z) : bool := (FIX_MIN <=? v) && (v <=? FIX_MAX).
Definition is_int (v : Z) : bool := v mod SC =? 0.
Definition to_int (v : Z) : Z := v / SC.
Definition of_bool (b : bool) : Z := if b then SC else 0.

(* ------------------------------------------------------------------ *)
(* The glyph a charstring describes                                    *)

Inductive cmd : Type :=
| CMove (x y : Z)
| CLine (x y : Z)
| CCurve (x1 y1 x2 y2 x3 y3 : Z)
| CHint (bs : list N)
| CCntr (bs : list N).

Record glyph : Type := mkGlyph {
  g_cmds : list cmd;
  g_hstem : list Z;
  g_vstem : list Z;
  g_width : Z
}.

Inductive errc : Type :=
| ECount       (* a path / hint / moveto / endchar operator with an operand count the format does not allow *)
| EUnderflow   (* an arithmetic, storage or call operator with too few operands *)
| EOverflow    (* more than 48 operands *)
| EIncomplete  (* end of code without endchar / return, truncated operand or mask *)
| EBadSubr     (* biased subroutine index out of range *)
| EDepth       (* more than 10 nested calls *)
| ENoMove      (* drawing before the first moveto *)
| EBadOp       (* reserved operator *)
| EHint        (* stem operator after the hint section, mask without stems *)
| EIndex.      (* transient array index outside 0..31 *)

Inductive outcome : Type :=
| T2Ok (g : glyph)
| T2Err (e : errc)
| T2Unspec
| T2Fuel.

(* ------------------------------------------------------------------ *)
(* Interpreter state                                                   *)

Record state : Type := mkState {
  stk : list Z;               (* operand stack, top first *)
  trans : list (option Z);    (* transient array; None = never written *)
  wset : bool;                (* the width decision has been made *)
  width : option Z;           (* explicit width operand (difference from nominalWidthX) *)
  hopen : bool;               (* hint declarations are still allowed *)
  hs : list Z;                (* horizontal stem edges *)
  vs : list Z;                (* vertical stem edges *)
  cmds : list cmd;
  px : Z; py : Z;
  moved : bool;
  pend : nat;                 (* mask bytes still to be read *)
  pkind : bool;               (* true = cntrmask *)
  pacc : list N;
  depth : nat;                (* current subroutine nesting *)
  hw : nat;                   (* instrumentation: high-water mark of the operand stack *)
  dhw : nat;                  (* instrumentation: high-water mark of the nesting depth *)
  nsteps : N                  (* instrumentation: operands and operators executed so far *)
}.

Definition init_state : state :=
  mkState [] (repeat None t2_trans_len) false None true [] [] [] 0 0 false 0 false [] 0 0 0 0.

Definition with_stk (s : list Z) (st : state) : state :=
  mkState s (trans st) (wset st) (width st) (hopen st) (hs st) (vs st) (cmds st) (px st) (py st)
          (moved st) (pend st) (pkind st) (pacc st) (depth st) (Nat.max (hw st) (length s)) (dhw st) (nsteps st).
Definition with_trans (t : list (option Z)) (st : state) : state :=
  mkState (stk st) t (wset st) (width st) (hopen st) (hs st) (vs st) (cmds st) (px st) (py st)
          (moved st) (pend st) (pkind st) (pacc st) (depth st) (hw st) (dhw st) (nsteps st).
Definition with_width (w : option Z) (st : state) : state :=
  mkState (stk st) (trans st) true w (hopen st) (hs st) (vs st) (cmds st) (px st) (py st)
          (moved st) (pend st) (pkind st) (pacc st) (depth st) (hw st) (dhw st) (nsteps st).
Definition with_hints (o : bool) (h v : list Z) (st : state) : state :=
  mkState (stk st) (trans st) (wset st) (width st) o h v (cmds st) (px st) (py st)
          (moved st) (pend st) (pkind st) (pacc st) (depth st) (hw st) (dhw st) (nsteps st).
Definition with_path (c : list cmd) (x y : Z) (m : bool) (st : state) : state :=
  mkState (stk st) (trans st) (wset st) (width st) (hopen st) (hs st) (vs st) c x y
          m (pend st) (pkind st) (pacc st) (depth st) (hw st) (dhw st) (nsteps st).
Definition with_pend (p : nat) (k : bool) (a : list N) (st : state) : state :=
  mkState (stk st) (trans st) (wset st) (width st) (hopen st) (hs st) (vs st) (cmds st) (px st) (py st)
          (moved st) p k a (depth st) (hw st) (dhw st) (nsteps st).
Definition with_depth (d : nat) (st : state) : state :=
  mkState (stk st) (trans st) (wset st) (width st) (hopen st) (hs st) (vs st) (cmds st) (px st) (py st)
          (moved st) (pend st) (pkind st) (pacc st) d (hw st) (Nat.max (dhw st) d) (nsteps st).

Definition tick (st : state) : state :=
  mkState (stk st) (trans st) (wset st) (width st) (hopen st) (hs st) (vs st) (cmds st) (px st) (py st)
          (moved st) (pend st) (pkind st) (pacc st) (depth st) (hw st) (dhw st) (nsteps st + 1)%N.

(* operands in the order they were pushed (bottom of the stack first) *)
Definition args (st : state) : list Z := rev (stk st).
Definition clear (st : state) : state := with_stk [] st.

(* ------------------------------------------------------------------ *)
(* Operators                                                           *)

Inductive oper : Type :=
| OHstem | OVstem | OVmoveto | ORlineto | OHlineto | OVlineto | ORrcurveto
| OCallsubr | OReturn | OEndchar | OHstemhm | OHintmask | OCntrmask
| ORmoveto | OHmoveto | OVstemhm | ORcurveline | ORlinecurve | OVvcurveto
| OHhcurveto | OCallgsubr | OVhcurveto | OHvcurveto
| ODotsection | OAnd | OOr | ONot | OAbs | OAdd | OSub | ODiv | ONeg | OEq
| ODrop | OPut | OGet | OIfelse | ORandom | OMul | OSqrt | ODup | OExch
| OIndex | ORoll | OHflex | OFlex | OHflex1 | OFlex1.

(* one-byte operators (TN5177 appendix A) *)
Definition decode_op1 (b : N) : option oper :=
  match b with
  | 1%N => Some OHstem | 3%N => Some OVstem | 4%N => Some OVmoveto
  | 5%N => Some ORlineto | 6%N => Some OHlineto | 7%N => Some OVlineto
  | 8%N => Some ORrcurveto | 10%N => Some OCallsubr | 11%N => Some OReturn
  | 14%N => Some OEndchar | 18%N => Some OHstemhm | 19%N => Some OHintmask
  | 20%N => Some OCntrmask | 21%N => Some ORmoveto | 22%N => Some OHmoveto
  | 23%N => Some OVstemhm | 24%N => Some ORcurveline | 25%N => Some ORlinecurve
  | 26%N => Some OVvcurveto | 27%N => Some OHhcurveto | 29%N => Some OCallgsubr
  | 30%N => Some OVhcurveto | 31%N => Some OHvcurveto
  | _ => None
  end.

(* two-byte operators 12 b *)
Definition decode_op2 (b : N) : option oper :=
  match b with
  | 0%N => Some ODotsection | 3%N => Some OAnd | 4%N => Some OOr | 5%N => Some ONot
  | 9%N => Some OAbs | 10%N => Some OAdd | 11%N => Some OSub | 12%N => Some ODiv
  | 14%N => Some ONeg | 15%N => Some OEq | 18%N => Some ODrop | 20%N => Some OPut
  | 21%N => Some OGet | 22%N => Some OIfelse | 23%N => Some ORandom | 24%N => Some OMul
  | 26%N => Some OSqrt | 27%N => Some ODup | 28%N => Some OExch | 29%N => Some OIndex
  | 30%N => Some ORoll | 34%N => Some OHflex | 35%N => Some OFlex | 36%N => Some OHflex1
  | 37%N => Some OFlex1
  | _ => None
  end.

Inductive opres : Type :=
| PCont (st : state)
| PDone (st : state)
| PRet
| PCall (global : bool) (biased : Z) (st : state)
| PErr (e : errc)
| PUnspec.

(* ---- path construction ---- *)

Definition move (st : state) (dx dy : Z) : state :=
  let x := px st + dx in let y := py st + dy in
  with_hints false (hs st) (vs st) (with_path (cmds st ++ [CMove x y]) x y true st).

Definition line (st : state) (dx dy : Z) : state :=
  let x := px st + dx in let y := py st + dy in
  with_path (cmds st ++ [CLine x y]) x y (moved st) st.

Definition curve (st : state) (dxa dya dxb dyb dxc dyc : Z) : state :=
  let xa := px st + dxa in let ya := py st + dya in
  let xb := xa + dxb in let yb := ya + dyb in
  let xc := xb + dxc in let yc := yb + dyc in
  with_path (cmds st ++ [CCurve xa ya xb yb xc yc]) xc yc (moved st) st.

Fixpoint rlines (st : state) (a : list Z) : state :=
  match a with
  | dx :: dy :: t => rlines (line st dx dy) t
  | _ => st
  end.

Fixpoint altlines (h : bool) (st : state) (a : list Z) : state :=
  match a with
  | d :: t => altlines (negb h) (if h then line st d 0 else line st 0 d) t
  | [] => st
  end.

Fixpoint rcurves (st : state) (a : list Z) : state :=
  match a with
  | a1 :: a2 :: a3 :: a4 :: a5 :: a6 :: t => rcurves (curve st a1 a2 a3 a4 a5 a6) t
  | _ => st
  end.

(* hhcurveto: dy1? {dxa dxb dyb dxc}+ *)
Fixpoint hhcurves (st : state) (dy1 : Z) (a : list Z) : state :=
  match a with
  | dxa :: dxb :: dyb :: dxc :: t => hhcurves (curve st dxa dy1 dxb dyb dxc 0) 0 t
  | _ => st
  end.

(* vvcurveto: dx1? {dya dxb dyb dyc}+ *)
Fixpoint vvcurves (st : state) (dx1 : Z) (a : list Z) : state :=
  match a with
  | dya :: dxb :: dyb :: dyc :: t => vvcurves (curve st dx1 dya dxb dyb 0 dyc) 0 t
  | _ => st
  end.

(* hvcurveto / vhcurveto: curves alternate between starting horizontal and
   starting vertical; the last one may carry a fifth operand *)
Fixpoint altcurves (h : bool) (st : state) (a : list Z) : state :=
  match a with
  | [a1; a2; a3; a4; a5] =>
      if h then curve st a1 0 a2 a3 a5 a4 else curve st 0 a1 a2 a3 a4 a5
  | a1 :: a2 :: a3 :: a4 :: t =>
      altcurves (negb h) (if h then curve st a1 0 a2 a3 0 a4 else curve st 0 a1 a2 a3 a4 0) t
  | _ => st
  end.

Definition draw_ok (st : state) : bool := moved st.

(* a drawing operator: legal operand count, after the first moveto *)
Definition drawing (st : state) (count_ok : bool) (f : state -> list Z -> state) : opres :=
  if negb count_ok then PErr ECount
  else if negb (draw_ok st) then PErr ENoMove
  else PCont (clear (f st (args st))).

(* ---- width ---- *)

(* The first stack-clearing operator may carry one extra leading operand, the
   width.  [extra] says that the operand count shows such an operand. *)
Definition take_width (st : state) (extra : bool) (a : list Z) : option (state * list Z) :=
  if extra then
    if wset st then None
    else match a with
         | w :: a' => Some (with_width (Some w) st, a')
         | [] => None
         end
  else Some (with_width (width st) st, a).

(* ---- hints ---- *)

Fixpoint stem_edges (prev : Z) (a : list Z) : list Z :=
  match a with
  | d1 :: d2 :: t => let e1 := prev + d1 in let e2 := e1 + d2 in e1 :: e2 :: stem_edges e2 t
  | _ => []
  end.

Definition do_stem (vertical : bool) (st : state) : opres :=
  let a := args st in
  let n := length a in
  if (n <? 2)%nat then PErr ECount
  else if negb (hopen st) then PErr EHint
  else match take_width st (Nat.odd n) a with
       | None => PErr ECount
       | Some (st1, a1) =>
           let e := stem_edges 0 a1 in
           PCont (clear (if vertical then with_hints true (hs st1) (vs st1 ++ e) st1
                         else with_hints true (hs st1 ++ e) (vs st1) st1))
       end.

Definition mask_len (st : state) : nat := ((length (hs st) + length (vs st)) / 2 + 7) / 8.

Definition do_mask (cntr : bool) (st : state) : opres :=
  let a := args st in
  let n := length a in
  if (2 <=? n)%nat && negb (hopen st) then PErr EHint
  else match take_width st (Nat.odd n) a with
       | None => PErr ECount
       | Some (st1, a1) =>
           (* operands before a mask are an implicit vstem *)
           let st2 := with_hints false (hs st1) (vs st1 ++ stem_edges 0 a1) st1 in
           if (length (hs st2) + length (vs st2) <? 2)%nat then PErr EHint
           else PCont (clear (with_pend (mask_len st2) cntr [] st2))
       end.

Definition feed_mask (b : N) (p : nat) (st : state) : state :=
  let acc := pacc st ++ [b] in
  match p with
  | O => with_pend O (pkind st) []
           (with_path (cmds st ++ [if pkind st then CCntr acc else CHint acc]) (px st) (py st) (moved st) st)
  | S _ => with_pend p (pkind st) acc st
  end.

(* ---- moveto ---- *)

Definition do_moveto (st : state) (nargs : nat) (f : list Z -> option (Z * Z)) : opres :=
  let a := args st in
  let n := length a in
  if negb ((n =? nargs)%nat || (n =? S nargs)%nat) then PErr ECount
  else match take_width st (n =? S nargs)%nat a with
       | None => PErr ECount
       | Some (st1, a1) =>
           match f a1 with
           | Some (dx, dy) => PCont (clear (move st1 dx dy))
           | None => PErr ECount
           end
       end.

(* ---- arithmetic on the 16.16 grid ---- *)

Definition ranged (v : Z) (rest : list Z) (st : state) : opres :=
  if in_range v then PCont (with_stk (v :: rest) st) else PUnspec.

Definition exact_mul (a b : Z) : option Z :=
  if (a * b) mod SC =? 0 then Some (a * b / SC) else None.
Definition exact_div (a b : Z) : option Z :=
  if b =? 0 then None
  else if (a * SC) mod b =? 0 then Some (a * SC / b) else None.
Definition exact_sqrt (a : Z) : option Z :=
  if a <? 0 then None
  else let r := Z.sqrt (a * SC) in if r * r =? a * SC then Some r else None.

Fixpoint set_nth {A} (n : nat) (x : A) (l : list A) : list A :=
  match l, n with
  | [], _ => []
  | _ :: t, O => x :: t
  | h :: t, S k => h :: set_nth k x t
  end.

Definition roll_list (n : nat) (j : Z) (top_first : list Z) : list Z :=
  (* the n topmost elements, bottom first *)
  let data := rev (firstn n top_first) in
  let jj := Z.to_nat (j mod Z.of_nat n) in
  let data' := skipn (n - jj) data ++ firstn (n - jj) data in
  rev data' ++ skipn n top_first.

Definition push_checked (v : Z) (st : state) : opres :=
  if (length (stk st) <? t2_max_stack)%nat then PCont (with_stk (v :: stk st) st) else PErr EOverflow.

Definition do_op (o : oper) (st : state) : opres :=
  let a := args st in
  let n := length a in
  match o with
  (* --- hints --- *)
  | OHstem | OHstemhm => do_stem false st
  | OVstem | OVstemhm => do_stem true st
  | OHintmask => do_mask false st
  | OCntrmask => do_mask true st
  (* --- moveto --- *)
  | ORmoveto => do_moveto st 2 (fun a => match a with [dx; dy] => Some (dx, dy) | _ => None end)
  | OHmoveto => do_moveto st 1 (fun a => match a with [dx] => Some (dx, 0) | _ => None end)
  | OVmoveto => do_moveto st 1 (fun a => match a with [dy] => Some (0, dy) | _ => None end)
  (* --- lines and curves --- *)
  | ORlineto => drawing st ((2 <=? n)%nat && Nat.even n) rlines
  | OHlineto => drawing st (1 <=? n)%nat (altlines true)
  | OVlineto => drawing st (1 <=? n)%nat (altlines false)
  | ORrcurveto => drawing st ((6 <=? n)%nat && (n mod 6 =? 0)%nat) rcurves
  | OHhcurveto =>
      drawing st ((4 <=? n)%nat && (n mod 4 <? 2)%nat)
        (fun st a => if (n mod 4 =? 1)%nat then hhcurves st (hd 0 a) (tl a) else hhcurves st 0 a)
  | OVvcurveto =>
      drawing st ((4 <=? n)%nat && (n mod 4 <? 2)%nat)
        (fun st a => if (n mod 4 =? 1)%nat then vvcurves st (hd 0 a) (tl a) else vvcurves st 0 a)
  | OHvcurveto => drawing st ((4 <=? n)%nat && (n mod 4 <? 2)%nat) (altcurves true)
  | OVhcurveto => drawing st ((4 <=? n)%nat && (n mod 4 <? 2)%nat) (altcurves false)
  | ORcurveline =>
      drawing st ((8 <=? n)%nat && ((n - 2) mod 6 =? 0)%nat)
        (fun st a => rlines (rcurves st (firstn (n - 2) a)) (skipn (n - 2) a))
  | ORlinecurve =>
      drawing st ((8 <=? n)%nat && Nat.even n)
        (fun st a => rcurves (rlines st (firstn (n - 6) a)) (skipn (n - 6) a))
  | OFlex =>
      drawing st (n =? 13)%nat
        (fun st a => match a with
           | [d1; d2; d3; d4; d5; d6; d7; d8; d9; d10; d11; d12; _] =>
               curve (curve st d1 d2 d3 d4 d5 d6) d7 d8 d9 d10 d11 d12
           | _ => st end)
  | OHflex =>
      drawing st (n =? 7)%nat
        (fun st a => match a with
           | [dx1; dx2; dy2; dx3; dx4; dx5; dx6] =>
               curve (curve st dx1 0 dx2 dy2 dx3 0) dx4 0 dx5 (- dy2) dx6 0
           | _ => st end)
  | OHflex1 =>
      drawing st (n =? 9)%nat
        (fun st a => match a with
           | [dx1; dy1; dx2; dy2; dx3; dx4; dx5; dy5; dx6] =>
               curve (curve st dx1 dy1 dx2 dy2 dx3 0) dx4 0 dx5 dy5 dx6 (- (dy1 + dy2 + dy5))
           | _ => st end)
  | OFlex1 =>
      drawing st (n =? 11)%nat
        (fun st a => match a with
           | [dx1; dy1; dx2; dy2; dx3; dy3; dx4; dy4; dx5; dy5; d6] =>
               let dx := dx1 + dx2 + dx3 + dx4 + dx5 in
               let dy := dy1 + dy2 + dy3 + dy4 + dy5 in
               let st1 := curve st dx1 dy1 dx2 dy2 dx3 dy3 in
               (* the last point returns to the start in the minor direction *)
               if Z.abs dx >? Z.abs dy then curve st1 dx4 dy4 dx5 dy5 d6 (- dy)
               else curve st1 dx4 dy4 dx5 dy5 (- dx) d6
           | _ => st end)
  (* --- end --- *)
  | OEndchar =>
      if (n =? 0)%nat then PDone (with_width (width st) st)
      else if (n =? 1)%nat then
        match take_width st true a with
        | Some (st1, _) => PDone (clear st1)
        | None => PErr ECount
        end
      else if (n =? 4)%nat || ((n =? 5)%nat && negb (wset st)) then PUnspec   (* deprecated seac form *)
      else PErr ECount
  | OReturn => PRet
  | OCallsubr | OCallgsubr =>
      match stk st with
      | v :: rest =>
          if is_int v then PCall (match o with OCallgsubr => true | _ => false end) (to_int v) (with_stk rest st)
          else PUnspec
      | [] => PErr EUnderflow
      end
  (* --- arithmetic --- *)
  | OAbs => match stk st with v :: r => ranged (Z.abs v) r st | _ => PErr EUnderflow end
  | ONeg => match stk st with v :: r => ranged (- v) r st | _ => PErr EUnderflow end
  | OAdd => match stk st with b :: a :: r => ranged (a + b) r st | _ => PErr EUnderflow end
  | OSub => match stk st with b :: a :: r => ranged (a - b) r st | _ => PErr EUnderflow end
  | OMul => match stk st with
            | b :: a :: r => match exact_mul a b with Some v => ranged v r st | None => PUnspec end
            | _ => PErr EUnderflow end
  | ODiv => match stk st with
            | b :: a :: r => match exact_div a b with Some v => ranged v r st | None => PUnspec end
            | _ => PErr EUnderflow end
  | OSqrt => match stk st with
             | v :: r => match exact_sqrt v with Some x => ranged x r st | None => PUnspec end
             | _ => PErr EUnderflow end
  | ORandom => PUnspec
  | ODrop => match stk st with _ :: r => PCont (with_stk r st) | _ => PErr EUnderflow end
  | OExch => match stk st with b :: a :: r => PCont (with_stk (a :: b :: r) st) | _ => PErr EUnderflow end
  | ODup => match stk st with v :: _ => push_checked v st | _ => PErr EUnderflow end
  | OIndex =>
      match stk st with
      | i :: r =>
          if negb (is_int i) then PUnspec
          else match nth_error r (Z.to_nat (to_int i)) with   (* negative i copies the top element *)
               | Some v => PCont (with_stk (v :: r) st)
               | None => PErr EUnderflow
               end
      | _ => PErr EUnderflow
      end
  | ORoll =>
      match stk st with
      | j :: cnt :: r =>
          if negb (is_int j && is_int cnt) then PUnspec
          else if to_int cnt <? 0 then PUnspec
          else if (length r <? Z.to_nat (to_int cnt))%nat then PErr EUnderflow
          else if to_int cnt =? 0 then PCont (with_stk r st)
          else PCont (with_stk (roll_list (Z.to_nat (to_int cnt)) (to_int j) r) st)
      | _ => PErr EUnderflow
      end
  (* --- storage --- *)
  | OPut =>
      match stk st with
      | i :: v :: r =>
          if negb (is_int i) then PUnspec
          else if (0 <=? to_int i) && (to_int i <? Z.of_nat t2_trans_len)
               then PCont (with_stk r (with_trans (set_nth (Z.to_nat (to_int i)) (Some v) (trans st)) st))
               else PErr EIndex
      | _ => PErr EUnderflow
      end
  | OGet =>
      match stk st with
      | i :: r =>
          if negb (is_int i) then PUnspec
          else if (0 <=? to_int i) && (to_int i <? Z.of_nat t2_trans_len)
               then match nth_error (trans st) (Z.to_nat (to_int i)) with
                    | Some (Some v) => PCont (with_stk (v :: r) st)
                    | _ => PUnspec      (* the value of a slot that was never written is undefined *)
                    end
               else PErr EIndex
      | _ => PErr EUnderflow
      end
  (* --- conditionals --- *)
  | OAnd => match stk st with
            | b :: a :: r => PCont (with_stk (of_bool (negb (a =? 0) && negb (b =? 0)) :: r) st)
            | _ => PErr EUnderflow end
  | OOr => match stk st with
           | b :: a :: r => PCont (with_stk (of_bool (negb (a =? 0) || negb (b =? 0)) :: r) st)
           | _ => PErr EUnderflow end
  | ONot => match stk st with
            | a :: r => PCont (with_stk (of_bool (a =? 0) :: r) st)
            | _ => PErr EUnderflow end
  | OEq => match stk st with
           | b :: a :: r => PCont (with_stk (of_bool (a =? b) :: r) st)
           | _ => PErr EUnderflow end
  | OIfelse => match stk st with
               | v2 :: v1 :: s2 :: s1 :: r => PCont (with_stk ((if v1 <=? v2 then s1 else s2) :: r) st)
               | _ => PErr EUnderflow end
  | ODotsection => PUnspec
  end.

(* ------------------------------------------------------------------ *)
(* Subroutine tables                                                   *)

(* A table of [t_size] subroutines; every entry is [t_default] except the
   ones listed in [t_special].  (Tables of 40000 entries stay small.) *)
Record subrtab : Type := mkTab {
  t_size : Z;
  t_default : list N;
  t_special : list (Z * list N)
}.

Fixpoint assoc_z (k : Z) (l : list (Z * list N)) (d : list N) : list N :=
  match l with
  | [] => d
  | (k', v) :: t => if k =? k' then v else assoc_z k t d
  end.

(* TN5176 section 16: the bias added to the operand of callsubr/callgsubr *)
Definition subr_bias (count : Z) : Z :=
  if count <? 1240 then 107 else if count <? 33900 then 1131 else 32768.

Definition lookup (t : subrtab) (biased : Z) : option (list N) :=
  let idx := biased + subr_bias (t_size t) in
  if (0 <=? idx) && (idx <? t_size t) then Some (assoc_z idx (t_special t) (t_default t)) else None.

(* the longest subroutine of a table *)
Definition tab_maxlen (t : subrtab) : nat :=
  fold_right (fun p m => Nat.max (length (snd p)) m) (length (t_default t)) (t_special t).

(* ------------------------------------------------------------------ *)
(* The interpreter                                                     *)

Inductive res : Type :=
| RDone (st : state)           (* endchar *)
| RRet (st : state)            (* return *)
| RFell (st : state)           (* the code ran out at an operator boundary *)
| RErr (e : errc) (st : state)
| RUnspec (st : state)
| RFuel.

Definition enter (st : state) : state := with_depth (S (depth st)) st.
Definition leave (st : state) : state := with_depth (pred (depth st)) st.

Section GO.
  Variable subrs gsubrs : subrtab.
  Variable call : state -> list N -> res.   (* the interpreter for the body of a callee *)

  Definition pushk (v : Z) (st : state) (k : state -> res) : res :=
    if (length (stk st) <? t2_max_stack)%nat then k (with_stk (v :: stk st) st) else RErr EOverflow st.

  Definition run_op (o : oper) (st : state) (k : state -> res) : res :=
    match do_op o st with
    | PCont st' => k st'
    | PDone st' => RDone st'
    | PRet => RRet st
    | PErr e => RErr e st
    | PUnspec => RUnspec st
    | PCall g biased st' =>
        if (t2_max_depth <=? depth st')%nat then RErr EDepth st'
        else match lookup (if g then gsubrs else subrs) biased with
             | None => RErr EBadSubr st'
             | Some body =>
                 match call (enter st') body with
                 | RRet st'' => k (leave st'')
                 | RFell st'' => RErr EIncomplete st''    (* a subroutine must end with return or endchar *)
                 | other => other
                 end
             end
    end.

  Fixpoint go (st : state) (code : list N) {struct code} : res :=
    match code with
    | [] => match pend st with O => RFell st | S _ => RErr EIncomplete st end
    | b :: r =>
      match pend st with
      | S p => go (feed_mask b p st) r
      | O =>
        let st := tick st in          (* one more operand or operator executed *)
        if (32 <=? b)%N && (b <=? 246)%N then
          pushk ((Z.of_N b - 139) * SC) st (fun st' => go st' r)
        else if (247 <=? b)%N && (b <=? 250)%N then
          match r with
          | w :: r1 => pushk (((Z.of_N b - 247) * 256 + Z.of_N w + 108) * SC) st (fun st' => go st' r1)
          | [] => RErr EIncomplete st
          end
        else if (251 <=? b)%N && (b <=? 254)%N then
          match r with
          | w :: r1 => pushk ((- (Z.of_N b - 251) * 256 - Z.of_N w - 108) * SC) st (fun st' => go st' r1)
          | [] => RErr EIncomplete st
          end
        else if (b =? 28)%N then
          match r with
          | b1 :: b2 :: r2 =>
              let u := Z.of_N b1 * 256 + Z.of_N b2 in
              pushk ((if u <? 32768 then u else u - 65536) * SC) st (fun st' => go st' r2)
          | _ => RErr EIncomplete st
          end
        else if (b =? 255)%N then
          match r with
          | b1 :: b2 :: b3 :: b4 :: r4 =>
              let u := ((Z.of_N b1 * 256 + Z.of_N b2) * 256 + Z.of_N b3) * 256 + Z.of_N b4 in
              pushk (if u <? 2147483648 then u else u - 4294967296) st (fun st' => go st' r4)
          | _ => RErr EIncomplete st
          end
        else if (b =? 12)%N then
          match r with
          | b2 :: r2 =>
              match decode_op2 b2 with
              | Some o => run_op o st (fun st' => go st' r2)
              | None => RErr EBadOp st
              end
          | [] => RErr EIncomplete st
          end
        else
          match decode_op1 b with
          | Some o => run_op o st (fun st' => go st' r)
          | None => RErr EBadOp st
          end
      end
    end.
End GO.

(* The operand encodings on their own (TN5177 section 3.2): the value (scaled)
   and the remaining code; used to state properties of [go]. *)
Inductive numres : Type :=
| NumOk (v : Z) (rest : list N)
| NumTrunc                     (* an operand cut off by the end of the code *)
| NotNum.

Definition lex_num (code : list N) : numres :=
  match code with
  | [] => NotNum
  | b :: r =>
    if (32 <=? b)%N && (b <=? 246)%N then NumOk ((Z.of_N b - 139) * SC) r
    else if (247 <=? b)%N && (b <=? 250)%N then
      match r with
      | w :: r1 => NumOk (((Z.of_N b - 247) * 256 + Z.of_N w + 108) * SC) r1
      | [] => NumTrunc
      end
    else if (251 <=? b)%N && (b <=? 254)%N then
      match r with
      | w :: r1 => NumOk ((- (Z.of_N b - 251) * 256 - Z.of_N w - 108) * SC) r1
      | [] => NumTrunc
      end
    else if (b =? 28)%N then
      match r with
      | b1 :: b2 :: r2 =>
          let u := Z.of_N b1 * 256 + Z.of_N b2 in
          NumOk ((if u <? 32768 then u else u - 65536) * SC) r2
      | _ => NumTrunc
      end
    else if (b =? 255)%N then
      match r with
      | b1 :: b2 :: b3 :: b4 :: r4 =>
          let u := ((Z.of_N b1 * 256 + Z.of_N b2) * 256 + Z.of_N b3) * 256 + Z.of_N b4 in
          NumOk (if u <? 2147483648 then u else u - 4294967296) r4
      | _ => NumTrunc
      end
    else NotNum
  end.

(* an operator at the head of the code *)
Inductive opres_lex : Type :=
| OpOk (o : oper) (rest : list N)
| OpTrunc
| OpBad.

Definition lex_op (code : list N) : opres_lex :=
  match code with
  | [] => OpTrunc
  | b :: r =>
    if (b =? 12)%N then
      match r with
      | b2 :: r2 => match decode_op2 b2 with Some o => OpOk o r2 | None => OpBad end
      | [] => OpTrunc
      end
    else match decode_op1 b with Some o => OpOk o r | None => OpBad end
  end.

(* ------------------------------------------------------------------ *)
(* Tables from TN5177 section 4 used to state what "malformed" means    *)

(* operand counts an operator may be executed with; [ws] = the width has
   already been taken (the first stack-clearing operator may carry one
   additional leading operand) *)
Definition plus_w (ws : bool) (n k : nat) : bool := (n =? k)%nat || (negb ws && (n =? S k)%nat).

Definition count_legal (o : oper) (n : nat) (ws : bool) : bool :=
  match o with
  | ORmoveto => plus_w ws n 2
  | OHmoveto | OVmoveto => plus_w ws n 1
  | OHstem | OVstem | OHstemhm | OVstemhm => (2 <=? n)%nat && (Nat.even n || negb ws)
  | OHintmask | OCntrmask => Nat.even n || negb ws
  | ORlineto => (2 <=? n)%nat && Nat.even n
  | OHlineto | OVlineto => (1 <=? n)%nat
  | ORrcurveto => (6 <=? n)%nat && (n mod 6 =? 0)%nat
  | OHhcurveto | OVvcurveto | OHvcurveto | OVhcurveto => (4 <=? n)%nat && (n mod 4 <? 2)%nat
  | ORcurveline => (8 <=? n)%nat && ((n - 2) mod 6 =? 0)%nat
  | ORlinecurve => (8 <=? n)%nat && Nat.even n
  | OFlex => (n =? 13)%nat
  | OHflex => (n =? 7)%nat
  | OHflex1 => (n =? 9)%nat
  | OFlex1 => (n =? 11)%nat
  | OEndchar => plus_w ws n 0 || plus_w ws n 4
  | _ => true
  end.

Definition is_draw (o : oper) : bool :=
  match o with
  | ORlineto | OHlineto | OVlineto | ORrcurveto | OHhcurveto | OVvcurveto | OHvcurveto | OVhcurveto
  | ORcurveline | ORlinecurve | OFlex | OHflex | OHflex1 | OFlex1 => true
  | _ => false
  end.

(* operands an arithmetic, storage, conditional or call operator pops *)
Definition arity (o : oper) : nat :=
  match o with
  | OAbs | ONeg | OSqrt | ODrop | ODup | ONot | OGet | OIndex | OCallsubr | OCallgsubr => 1
  | OAdd | OSub | OMul | ODiv | OExch | OEq | OAnd | OOr | OPut | ORoll => 2
  | OIfelse => 4
  | _ => 0
  end%nat.

(* [fuel] bounds the nesting of [go] inside [go]; the format's own limit of 10
   nested calls is checked by [run_op], so 11 levels always suffice
   (theorem t2_terminates). *)
Fixpoint exec (subrs gsubrs : subrtab) (fuel : nat) (st : state) (code : list N) : res :=
  match fuel with
  | O => RFuel
  | S f => go subrs gsubrs (exec subrs gsubrs f) st code
  end.

Definition t2_fuel : nat := S t2_max_depth.

Definition glyph_of (dflt nom : Z) (st : state) : glyph :=
  mkGlyph (cmds st) (hs st) (vs st)
          (match width st with Some w => w + nom | None => dflt end).

Definition outcome_of (dflt nom : Z) (r : res) : outcome :=
  match r with
  | RDone st => T2Ok (glyph_of dflt nom st)
  | RRet st => T2Err EIncomplete       (* return outside a subroutine *)
  | RFell st => T2Err EIncomplete      (* no endchar *)
  | RErr e _ => T2Err e
  | RUnspec _ => T2Unspec
  | RFuel => T2Fuel
  end.

(* S_t2: the glyph a charstring describes, given the font's default and
   nominal widths (scaled) and the local and global subroutine tables *)
Definition S_t2 (dflt nom : Z) (subrs gsubrs : subrtab) (code : list N) : outcome :=
  outcome_of dflt nom (exec subrs gsubrs t2_fuel init_state code).

(* The only bound the format gives on the work for one glyph: every operand or
   operator of a segment may be a call, calls nest 10 deep, so a charstring of
   L bytes with subroutines of at most M bytes executes at most L*(M+1)^10
   operands and operators - exponential in the nesting depth (theorem
   t2_steps_bound; the bound is attained up to a constant, see Examples). *)
Definition t2_step_bound (subrs gsubrs : subrtab) (code : list N) : N :=
  (N.of_nat (length code) *
   (N.of_nat (Nat.max (tab_maxlen subrs) (tab_maxlen gsubrs)) + 1) ^ N.of_nat t2_max_depth)%N.

Definition final_state (r : res) : option state :=
  match r with
  | RDone st | RRet st | RFell st | RErr _ st | RUnspec st => Some st
  | RFuel => None
  end.

Definition final_steps (r : res) : N :=
  match final_state r with Some st => nsteps st | None => 0%N end.

Definition S_t2_state (subrs gsubrs : subrtab) (code : list N) : res :=
  exec subrs gsubrs t2_fuel init_state code.
