(* C05/Examples.v — non-vacuity: concrete charstrings that satisfy the
   hypotheses of the theorems in Props.v, evaluated by vm_compute. *)
From Coq Require Import List NArith ZArith Bool Arith.
From Gen Require Import Consts C05.
From C05 Require Import Model.
Import ListNotations.
Local Open Scope Z_scope.

Definition no_subrs : subrtab := mkTab 0 [] [].

(* 10 10 rmoveto  10 5 10 5 10 -3 10 2 10 1 7 flex1  endchar : the last point
   returns to the starting y (TN5177), i.e. (67,10) *)
Definition ex_flex1 : list N :=
  [149;149;21; 149;144;149;144;149;136;149;141;149;140;146;12;37; 14]%N.
Example ex_flex1_ok :
  S_t2 0 0 no_subrs no_subrs ex_flex1 =
  T2Ok (mkGlyph [CMove 655360 655360;
                 CCurve 1310720 983040 1966080 1310720 2621440 1114112;
                 CCurve 3276800 1245184 3932160 1310720 4390912 655360] [] [] 0).
Proof. vm_compute. reflexivity. Qed.

(* width, stems with an implicit vstem before hintmask, mask of ceil(3/8)=1 byte,
   arithmetic (3 4 mul = 12), a local subroutine drawing a line *)
Definition ex_subrs : subrtab := mkTab 1 [11%N] [(0, [140;141;5;11]%N)].   (* 1 2 rlineto return *)
Definition ex_prog : list N :=
  [239; 149;159; 1;          (* 100 (width) 10 20 hstem *)
   139;149; 159;149; 19;160;   (* 0 10 20 10 (implicit vstem) hintmask A0 *)
   142;143;12;24; 139; 21;     (* 3 4 mul 0 rmoveto *)
   32;10;                      (* -107 callsubr *)
   14]%N.
Example ex_prog_ok :
  S_t2 (500 * 65536) (600 * 65536) ex_subrs no_subrs ex_prog =
  T2Ok (mkGlyph [CHint [160%N]; CMove 786432 0; CLine 851968 131072]
                [655360; 1966080] [0; 655360; 1966080; 2621440] (700 * 65536)).
Proof. vm_compute. reflexivity. Qed.

(* hypotheses of malformed_rejected: a prefix that executes completely *)
Definition ex_prefix : list N := [149;149;21; 140;141;142]%N.   (* 10 10 rmoveto 1 2 3 *)
Example ex_prefix_fell :
  exists st', S_t2_state no_subrs no_subrs ex_prefix = RFell st' /\
              length (stk st') = 3%nat /\ moved st' = true /\ wset st' = true.
Proof. eexists. vm_compute. repeat split. Qed.

(* ... without endchar it is an error *)
Example ex_no_endchar : S_t2 0 0 no_subrs no_subrs ex_prefix = T2Err EIncomplete.
Proof. vm_compute. reflexivity. Qed.
(* ... rlineto with 3 operands (one operand dropped) is an error, with 4 it is not *)
Example ex_count_illegal : count_legal ORlineto 3 true = false /\ lex_op [5%N] = OpOk ORlineto [] /\
  S_t2 0 0 no_subrs no_subrs (ex_prefix ++ [5; 14]%N) = T2Err ECount.
Proof. vm_compute. repeat split. Qed.
Example ex_count_legal :
  exists g, S_t2 0 0 no_subrs no_subrs (ex_prefix ++ [143; 5; 14]%N) = T2Ok g.
Proof. eexists. vm_compute. reflexivity. Qed.
(* ... ifelse needs four operands *)
Example ex_underflow : S_t2 0 0 no_subrs no_subrs (ex_prefix ++ [12; 22; 14]%N) = T2Err EUnderflow.
Proof. vm_compute. reflexivity. Qed.
(* ... a reserved operator, a truncated operand, a call into an empty table *)
Example ex_reserved : S_t2 0 0 no_subrs no_subrs (ex_prefix ++ [2; 14]%N) = T2Err EBadOp.
Proof. vm_compute. reflexivity. Qed.
Example ex_truncated : lex_num [28; 1]%N = NumTrunc /\
  S_t2 0 0 no_subrs no_subrs (ex_prefix ++ [28; 1]%N) = T2Err EIncomplete.
Proof. vm_compute. split; reflexivity. Qed.
Example ex_bad_subr : S_t2 0 0 no_subrs no_subrs (ex_prefix ++ [10; 14]%N) = T2Err EBadSubr.
Proof. vm_compute. reflexivity. Qed.
Example ex_bad_subr_above : S_t2 0 0 ex_subrs no_subrs ([33; 10; 14]%N) = T2Err EBadSubr.
Proof. vm_compute. reflexivity. Qed.

(* drawing before the first moveto *)
Example ex_draw_first : S_t2 0 0 no_subrs no_subrs [140; 141; 5; 14]%N = T2Err ENoMove.
Proof. vm_compute. reflexivity. Qed.

(* 48 operands are accepted, the 49th is an overflow *)
Definition ex_48 : list N := [139;139;21]%N ++ repeat 140%N 48.
Example ex_stack_48 : exists g, S_t2 0 0 no_subrs no_subrs (ex_48 ++ [6; 14]%N) = T2Ok g.
Proof. eexists. vm_compute. reflexivity. Qed.
Example ex_stack_49 : S_t2 0 0 no_subrs no_subrs (ex_48 ++ [140; 6; 14]%N) = T2Err EOverflow.
Proof. vm_compute. reflexivity. Qed.
Example ex_stack_48_state :
  exists st', S_t2_state no_subrs no_subrs ex_48 = RFell st' /\ length (stk st') = cff_maxStack /\ hw st' = 48%nat.
Proof. eexists. vm_compute. repeat split. Qed.

(* nesting: subroutine i calls subroutine i+1 up to index 11; the chain started
   at index 1 is 11 deep (error), the chain started at index 2 is 10 deep
   (accepted) *)
Definition chain_body (i : Z) : list N := [N.of_nat (Z.to_nat (i + 1 - 107 + 139)); 10; 11]%N.
Definition ex_chain : subrtab :=
  mkTab 12 [11%N] ((11, [139;139;21;11]%N) :: map (fun i => (i, chain_body i)) [0;1;2;3;4;5;6;7;8;9;10]).
Example ex_depth_10 : exists g, S_t2 0 0 ex_chain no_subrs [34; 10; 14]%N = T2Ok g.   (* -105 callsubr: index 2 *)
Proof. eexists. vm_compute. reflexivity. Qed.
Example ex_depth_11 : S_t2 0 0 ex_chain no_subrs [33; 10; 14]%N = T2Err EDepth.      (* -106 callsubr: index 1 *)
Proof. vm_compute. reflexivity. Qed.
Example ex_depth_hw :
  exists st, S_t2_state ex_chain no_subrs [34; 10; 14]%N = RDone st /\ dhw st = 10%nat.
Proof. eexists. vm_compute. split; reflexivity. Qed.

(* bias at both thresholds; the regenerated getSubr agrees *)
Example ex_bias :
  subr_bias 1239 = 107 /\ subr_bias 1240 = 1131 /\ subr_bias 33899 = 1131 /\ subr_bias 33900 = 32768 /\
  cff_getSubr 1239 1131 = Some 1238 /\ cff_getSubr 1239 1132 = None /\
  cff_getSubr 1240 108 = Some 1239 /\ cff_getSubr 33900 (-32768) = Some 0 /\ cff_getSubr 0 (-107) = None.
Proof. vm_compute. repeat split. Qed.

(* storage: put then get returns the value; get of an unwritten slot is outside the specification *)
Example ex_storage :
  S_t2 0 0 no_subrs no_subrs [146; 170; 12;20; 170; 12;21; 139; 21; 14]%N =
    T2Ok (mkGlyph [CMove (7 * 65536) 0] [] [] 0) /\
  S_t2 0 0 no_subrs no_subrs [170; 12;21; 139; 21; 14]%N = T2Unspec /\
  S_t2 0 0 no_subrs no_subrs [146; 171; 12;20; 14]%N = T2Err EIndex.
Proof. vm_compute. repeat split. Qed.

(* work: subroutine i calls subroutine i+1 twice (10 levels), the charstring
   calls subroutine 0 twice: 51 bytes, 6139 executed operands and operators;
   with fan-out f the count is 2*(f + f^2 + ... + f^10) + ..., the bound
   t2_step_bound is of the same order *)
Definition fan_body (i : Z) : list N :=
  let c := N.of_nat (Z.to_nat (i + 1 - 107 + 139)) in [c; 10; c; 10; 11]%N.
Definition ex_fan : subrtab :=
  mkTab 10 [11%N] ((9, [11%N]) :: map (fun i => (i, fan_body i)) [0;1;2;3;4;5;6;7;8]).
Example ex_fanout :
  final_steps (S_t2_state ex_fan no_subrs [32; 10; 32; 10; 14]%N) = 6139%N /\
  t2_step_bound ex_fan no_subrs [32; 10; 32; 10; 14]%N = (5 * 6 ^ 10)%N /\
  (cff_t2_maxSteps < t2_step_bound ex_fan no_subrs [32; 10; 32; 10; 14]%N)%N.
Proof. vm_compute. repeat split. Qed.
