From Coq Require Import Extraction ExtrOcamlBasic.
From Common Require Import Conv.
From C05 Require Import Model.
Extraction "c05_model.ml" conv_anchor S_t2 subr_bias lookup mkTab.
