(* C05/Proofs.v — lemmas about the specification interpreter S_t2:
   invariants (stack bound, storage, nesting), termination within the fuel,
   composition of code (go_app), operand decoding. *)
From Coq Require Import List NArith ZArith Bool Arith Lia.
From C05 Require Import Model.
Import ListNotations.
Local Open Scope Z_scope.

Ltac sfields :=
  cbn [stk trans wset width hopen hs vs cmds px py moved pend pkind pacc depth hw dhw nsteps
       with_stk with_trans with_width with_hints with_path with_pend with_depth tick
       clear move line curve enter leave] in *.

(* ------------------------------------------------------------------ *)
(* Fields that the path and hint helpers never touch                   *)

Definition keep (st st' : state) : Prop :=
  stk st' = stk st /\ trans st' = trans st /\ depth st' = depth st /\
  hw st' = hw st /\ dhw st' = dhw st /\ pend st' = pend st /\ wset st' = wset st /\
  width st' = width st /\ nsteps st' = nsteps st /\
  hopen st' = hopen st /\ hs st' = hs st /\ vs st' = vs st /\ moved st' = moved st /\
  pkind st' = pkind st /\ pacc st' = pacc st.

Lemma keep_refl st : keep st st.
Proof. unfold keep; tauto. Qed.

Lemma keep_trans a b c : keep a b -> keep b c -> keep a c.
Proof. unfold keep; intros; intuition congruence. Qed.

Lemma keep_line st dx dy : keep st (line st dx dy).
Proof. unfold keep; sfields; tauto. Qed.

Lemma keep_curve st a b c d e f : keep st (curve st a b c d e f).
Proof. unfold keep; sfields; tauto. Qed.

Lemma keep_with_path st c x y : keep st (with_path c x y (moved st) st).
Proof. unfold keep; sfields; tauto. Qed.

Lemma keep_rlines : forall n a st, (length a <= n)%nat -> keep st (rlines st a).
Proof.
  induction n; intros a st H; destruct a as [|x [|y t]]; cbn [rlines]; try apply keep_refl.
  - cbn in H; lia.
  - eapply keep_trans; [apply keep_line|]. apply IHn. cbn in H; lia.
Qed.

Lemma keep_altlines : forall a h st, keep st (altlines h st a).
Proof.
  induction a; intros h st; cbn [altlines]; [apply keep_refl|].
  eapply keep_trans; [|apply IHa]. destruct h; apply keep_line.
Qed.

Lemma keep_rcurves : forall n a st, (length a <= n)%nat -> keep st (rcurves st a).
Proof.
  induction n; intros a st H;
    destruct a as [|a1 [|a2 [|a3 [|a4 [|a5 [|a6 t]]]]]]; cbn [rcurves]; try apply keep_refl.
  - cbn in H; lia.
  - eapply keep_trans; [apply keep_curve|]. apply IHn. cbn in H; lia.
Qed.

Lemma keep_hhcurves : forall n a d st, (length a <= n)%nat -> keep st (hhcurves st d a).
Proof.
  induction n; intros a d st H;
    destruct a as [|a1 [|a2 [|a3 [|a4 t]]]]; cbn [hhcurves]; try apply keep_refl.
  - cbn in H; lia.
  - eapply keep_trans; [apply keep_curve|]. apply IHn. cbn in H; lia.
Qed.

Lemma keep_vvcurves : forall n a d st, (length a <= n)%nat -> keep st (vvcurves st d a).
Proof.
  induction n; intros a d st H;
    destruct a as [|a1 [|a2 [|a3 [|a4 t]]]]; cbn [vvcurves]; try apply keep_refl.
  - cbn in H; lia.
  - eapply keep_trans; [apply keep_curve|]. apply IHn. cbn in H; lia.
Qed.

Lemma altcurves_step h st a1 a2 a3 a4 a5 a6 t :
  altcurves h st (a1 :: a2 :: a3 :: a4 :: a5 :: a6 :: t) =
  altcurves (negb h) (if h then curve st a1 0 a2 a3 0 a4 else curve st 0 a1 a2 a3 a4 0) (a5 :: a6 :: t).
Proof. reflexivity. Qed.

Lemma keep_altcurves : forall n a h st, (length a <= n)%nat -> keep st (altcurves h st a).
Proof.
  induction n; intros a h st H.
  - destruct a; [apply keep_refl|cbn in H; lia].
  - destruct a as [|a1 [|a2 [|a3 [|a4 [|a5 [|a6 t]]]]]]; try apply keep_refl.
    + cbn [altcurves]. destruct h; apply keep_curve.
    + cbn [altcurves]. destruct h; apply keep_curve.
    + rewrite altcurves_step.
      eapply keep_trans; [|apply IHn; cbn in *; lia]. destruct h; apply keep_curve.
Qed.

(* ------------------------------------------------------------------ *)
(* The invariant                                                       *)

Definition Inv (st : state) : Prop :=
  (length (stk st) <= hw st)%nat /\ (hw st <= t2_max_stack)%nat /\
  length (trans st) = t2_trans_len /\
  (depth st <= dhw st)%nat /\ (dhw st <= t2_max_depth)%nat.

Lemma inv_init : Inv init_state.
Proof. unfold Inv, init_state, t2_max_stack, t2_max_depth, t2_trans_len; cbn. lia. Qed.

Lemma inv_keep st st' : keep st st' -> Inv st -> Inv st'.
Proof. unfold keep, Inv. intros (->&->&->&->&->&_) H. exact H. Qed.

Lemma inv_with_stk st s : Inv st -> (length s <= t2_max_stack)%nat -> Inv (with_stk s st).
Proof. unfold Inv; sfields; intros; lia. Qed.

Lemma inv_clear st : Inv st -> Inv (clear st).
Proof. intros; apply inv_with_stk; [assumption|cbn; unfold t2_max_stack; lia]. Qed.

Lemma inv_with_width st w : Inv st -> Inv (with_width w st).
Proof. unfold Inv; sfields; tauto. Qed.
Lemma inv_with_hints st o h v : Inv st -> Inv (with_hints o h v st).
Proof. unfold Inv; sfields; tauto. Qed.
Lemma inv_with_path st c x y m : Inv st -> Inv (with_path c x y m st).
Proof. unfold Inv; sfields; tauto. Qed.
Lemma inv_with_pend st p k a : Inv st -> Inv (with_pend p k a st).
Proof. unfold Inv; sfields; tauto. Qed.
Lemma inv_move st dx dy : Inv st -> Inv (move st dx dy).
Proof. unfold Inv; sfields; tauto. Qed.

Lemma set_nth_length {A} : forall n (x : A) l, length (set_nth n x l) = length l.
Proof. induction n; intros x [|h t]; cbn; auto. Qed.

Lemma inv_with_trans st t : Inv st -> length t = t2_trans_len -> Inv (with_trans t st).
Proof. unfold Inv; sfields; tauto. Qed.

Lemma inv_stk_le st : Inv st -> (length (stk st) <= t2_max_stack)%nat.
Proof. unfold Inv; lia. Qed.

Lemma take_width_inv st extra a st1 a1 :
  take_width st extra a = Some (st1, a1) ->
  (Inv st -> Inv st1) /\ depth st1 = depth st /\ stk st1 = stk st /\ (length a1 <= length a)%nat /\
  nsteps st1 = nsteps st.
Proof.
  unfold take_width. destruct extra.
  - destruct (wset st); [discriminate|]. destruct a as [|w a']; [discriminate|].
    intros H; inversion H; subst. split; [apply inv_with_width|].
    split; [reflexivity|]. split; [reflexivity|]. split; [cbn [length]; lia|reflexivity].
  - intros H; inversion H; subst. split; [apply inv_with_width|].
    split; [reflexivity|]. split; [reflexivity|]. split; [lia|reflexivity].
Qed.

Lemma roll_list_length n j l : (n <= length l)%nat -> length (roll_list n j l) = length l.
Proof.
  intros H. unfold roll_list.
  rewrite app_length, rev_length, app_length, skipn_length, !firstn_length, rev_length,
    firstn_length, skipn_length. lia.
Qed.

(* every state handed on by an operator satisfies the invariant again and
   stays at the same nesting depth *)
Definition op_post (st : state) (r : opres) : Prop :=
  match r with
  | PCont st' | PDone st' | PCall _ _ st' => Inv st' /\ depth st' = depth st /\ nsteps st' = nsteps st
  | _ => True
  end.

Lemma drawing_post st ok f :
  Inv st -> (forall a, keep st (f st a)) -> op_post st (drawing st ok f).
Proof.
  intros HI Hk. unfold drawing. destruct (negb ok); cbn; auto. destruct (negb (draw_ok st)); cbn; auto.
  split; [|split].
  - apply inv_clear. eapply inv_keep; [apply Hk|assumption].
  - sfields. apply Hk.
  - sfields. apply Hk.
Qed.

Lemma do_stem_post v st : Inv st -> op_post st (do_stem v st).
Proof.
  intros HI. unfold do_stem.
  destruct (length (args st) <? 2)%nat; cbn; auto.
  destruct (negb (hopen st)); cbn; auto.
  destruct (take_width st (Nat.odd (length (args st))) (args st)) as [[st1 a1]|] eqn:E; cbn; auto.
  apply take_width_inv in E. destruct E as (Hi & Hd & _ & _ & Hn).
  destruct v; (split; [apply inv_clear, inv_with_hints; auto|sfields; auto]).
Qed.

Lemma do_mask_post c st : Inv st -> op_post st (do_mask c st).
Proof.
  intros HI. unfold do_mask.
  destruct ((2 <=? length (args st))%nat && negb (hopen st)); cbn; auto.
  destruct (take_width st (Nat.odd (length (args st))) (args st)) as [[st1 a1]|] eqn:E; cbn; auto.
  apply take_width_inv in E. destruct E as (Hi & Hd & _ & _ & Hn).
  match goal with |- context [if ?c then _ else _] => destruct c end; cbn; auto.
  split; [apply inv_clear, inv_with_pend, inv_with_hints; auto|sfields; auto].
Qed.

Lemma do_moveto_post st n f : Inv st -> op_post st (do_moveto st n f).
Proof.
  intros HI. unfold do_moveto.
  match goal with |- context [if ?c then _ else _] => destruct c end; cbn; auto.
  destruct (take_width st _ (args st)) as [[st1 a1]|] eqn:E; cbn; auto.
  apply take_width_inv in E. destruct E as (Hi & Hd & _ & _ & Hn).
  destruct (f a1) as [[dx dy]|]; cbn; auto.
  split; [apply inv_clear, inv_move; auto|sfields; auto].
Qed.

Lemma ranged_post st v r :
  Inv st -> (S (length r) <= length (stk st))%nat -> op_post st (ranged v r st).
Proof.
  intros HI Hl. unfold ranged. destruct (in_range v); cbn; auto.
  split; [|split; reflexivity]. apply inv_with_stk; auto. apply inv_stk_le in HI. cbn; lia.
Qed.

Lemma cont_post st s :
  Inv st -> (length s <= length (stk st))%nat -> op_post st (PCont (with_stk s st)).
Proof.
  intros HI Hl. cbn. split; [|split; reflexivity]. apply inv_with_stk; auto. apply inv_stk_le in HI; lia.
Qed.

Ltac post_leaf HI E :=
  cbn [op_post]; auto;
  try (apply ranged_post; [exact HI| rewrite E; cbn [length]; lia]);
  try (apply cont_post; [exact HI| rewrite E; cbn [length]; lia]).

Ltac arith_case st HI :=
  let E := fresh "E" in
  destruct (stk st) as [|? [|? [|? [|? ?]]]] eqn:E;
  post_leaf HI E;
  repeat (match goal with
          | |- op_post _ (if ?c then _ else _) => destruct c
          | |- op_post _ (match ?c with _ => _ end) => destruct c eqn:?
          end; post_leaf HI E).

Lemma draw_post_all o st :
  Inv st ->
  match o with
  | ORlineto | OHlineto | OVlineto | ORrcurveto | OHhcurveto | OVvcurveto | OHvcurveto | OVhcurveto
  | ORcurveline | ORlinecurve | OFlex | OHflex | OHflex1 | OFlex1 => op_post st (do_op o st)
  | _ => True
  end.
Proof.
  intros HI. destruct o; try exact I; cbn [do_op]; (apply drawing_post; [assumption|]); intros a.
  - apply (keep_rlines (length a)); lia.
  - apply keep_altlines.
  - apply keep_altlines.
  - apply (keep_rcurves (length a)); lia.
  - (* rcurveline *) apply keep_trans with (b := rcurves st (firstn (length (args st) - 2) a)).
    + apply (keep_rcurves (length (firstn (length (args st) - 2) a))); lia.
    + apply (keep_rlines (length (skipn (length (args st) - 2) a))); lia.
  - (* rlinecurve *) apply keep_trans with (b := rlines st (firstn (length (args st) - 6) a)).
    + apply (keep_rlines (length (firstn (length (args st) - 6) a))); lia.
    + apply (keep_rcurves (length (skipn (length (args st) - 6) a))); lia.
  - (* vvcurveto *) destruct (length (args st) mod 4 =? 1)%nat;
      [apply (keep_vvcurves (length (tl a)))|apply (keep_vvcurves (length a))]; lia.
  - (* hhcurveto *) destruct (length (args st) mod 4 =? 1)%nat;
      [apply (keep_hhcurves (length (tl a)))|apply (keep_hhcurves (length a))]; lia.
  - apply (keep_altcurves (length a)); lia.
  - apply (keep_altcurves (length a)); lia.
  - (* hflex *)
    do 7 (destruct a as [|? a]; [apply keep_refl|]). destruct a; [|apply keep_refl].
    eapply keep_trans; apply keep_curve.
  - (* flex *)
    do 13 (destruct a as [|? a]; [apply keep_refl|]). destruct a; [|apply keep_refl].
    eapply keep_trans; apply keep_curve.
  - (* hflex1 *)
    do 9 (destruct a as [|? a]; [apply keep_refl|]). destruct a; [|apply keep_refl].
    eapply keep_trans; apply keep_curve.
  - (* flex1 *)
    do 11 (destruct a as [|? a]; [apply keep_refl|]). destruct a; [|apply keep_refl].
    match goal with |- context [if ?c then _ else _] => destruct c end;
      (eapply keep_trans; apply keep_curve).
Qed.

Lemma do_op_post o st : Inv st -> op_post st (do_op o st).
Proof.
  intros HI. pose proof (draw_post_all o st HI) as HD.
  destruct o; try exact HD; clear HD; cbn [do_op];
    try apply do_stem_post; try apply do_mask_post; try apply do_moveto_post; auto;
    try (arith_case st HI; fail).
  - (* endchar *)
    destruct (length (args st) =? 0)%nat.
    { cbn. split; [apply inv_with_width; assumption|split; reflexivity]. }
    destruct (length (args st) =? 1)%nat.
    { destruct (take_width st true (args st)) as [[st1 a1]|] eqn:E; cbn; auto.
      apply take_width_inv in E. destruct E as (Hi & Hd & _ & _ & Hn).
      split; [apply inv_clear; auto|sfields; auto]. }
    match goal with |- context [if ?c then _ else _] => destruct c end; cbn; auto.
  - (* put *)
    destruct (stk st) as [|i [|v r]] eqn:E; cbn [op_post]; auto.
    destruct (negb (is_int i)); cbn [op_post]; auto.
    match goal with |- context [if ?c then _ else _] => destruct c end; cbn [op_post]; auto.
    split; [|split; reflexivity]. apply inv_with_stk.
    + apply inv_with_trans; [assumption|]. rewrite set_nth_length. apply HI.
    + apply inv_stk_le in HI. rewrite E in HI. cbn [length] in HI. lia.
  - (* dup *)
    destruct (stk st) as [|v r] eqn:E; cbn [op_post]; auto.
    unfold push_checked. destruct (length (stk st) <? t2_max_stack)%nat eqn:L; cbn [op_post]; auto.
    split; [|split; reflexivity]. apply inv_with_stk; [assumption|].
    apply Nat.ltb_lt in L. cbn [length]. lia.
  - (* roll *)
    destruct (stk st) as [|j [|cnt r]] eqn:E; cbn [op_post]; auto.
    destruct (negb (is_int j && is_int cnt)); cbn [op_post]; auto.
    destruct (to_int cnt <? 0); cbn [op_post]; auto.
    destruct (length r <? Z.to_nat (to_int cnt))%nat eqn:L; cbn [op_post]; auto.
    apply Nat.ltb_ge in L.
    destruct (to_int cnt =? 0).
    + apply cont_post; [assumption|rewrite E; cbn [length]; lia].
    + apply cont_post; [assumption|]. rewrite roll_list_length by assumption.
      rewrite E; cbn [length]; lia.
Qed.

(* ------------------------------------------------------------------ *)
(* One step of [go]                                                    *)

Section STEP.
  Variable subrs gsubrs : subrtab.
  Variable call : state -> list N -> res.
  Notation go := (go subrs gsubrs call).
  Notation run_op := (run_op subrs gsubrs call).

  Lemma lex_num_shorter code v rest : lex_num code = NumOk v rest -> (length rest < length code)%nat.
  Proof.
    destruct code as [|b r]; cbn [lex_num]; [discriminate|].
    repeat match goal with |- context [if ?c then _ else _] => destruct c end;
      try discriminate;
      repeat (match goal with |- context [match ?l with [] => _ | _ :: _ => _ end] => destruct l end;
              try discriminate);
      intros H; inversion H; subst; cbn [length]; lia.
  Qed.

  Lemma lex_op_shorter code o rest : lex_op code = OpOk o rest -> (length rest < length code)%nat.
  Proof.
    destruct code as [|b r]; cbn [lex_op]; [discriminate|].
    destruct (b =? 12)%N.
    - destruct r as [|b2 r2]; [discriminate|]. destruct (decode_op2 b2); [|discriminate].
      intros H; inversion H; subst; cbn [length]; lia.
    - destruct (decode_op1 b); [|discriminate].
      intros H; inversion H; subst; cbn [length]; lia.
  Qed.

  (* the complete case analysis of one step *)
  Lemma go_step st code :
    go st code =
    match code with
    | [] => match pend st with O => RFell st | S _ => RErr EIncomplete st end
    | b :: r =>
      match pend st with
      | S p => go (feed_mask b p st) r
      | O =>
        match lex_num code with
        | NumOk v rest => pushk v (tick st) (fun st' => go st' rest)
        | NumTrunc => RErr EIncomplete (tick st)
        | NotNum =>
          match lex_op code with
          | OpOk o rest => run_op o (tick st) (fun st' => go st' rest)
          | OpTrunc => RErr EIncomplete (tick st)
          | OpBad => RErr EBadOp (tick st)
          end
        end
      end
    end.
  Proof.
    destruct code as [|b r]; [reflexivity|].
    cbn [Model.go]. destruct (pend st); [|reflexivity].
    cbn [lex_num lex_op].
    destruct ((32 <=? b)%N && (b <=? 246)%N) eqn:E1; [reflexivity|].
    destruct ((247 <=? b)%N && (b <=? 250)%N) eqn:E2; [destruct r; reflexivity|].
    destruct ((251 <=? b)%N && (b <=? 254)%N) eqn:E3; [destruct r; reflexivity|].
    destruct (b =? 28)%N eqn:E4; [destruct r as [|? [|? ?]]; reflexivity|].
    destruct (b =? 255)%N eqn:E5; [destruct r as [|? [|? [|? [|? ?]]]]; reflexivity|].
    destruct (b =? 12)%N eqn:E6.
    - destruct r as [|b2 r2]; [reflexivity|]. destruct (decode_op2 b2); reflexivity.
    - destruct (decode_op1 b); reflexivity.
  Qed.
End STEP.

(* ------------------------------------------------------------------ *)
(* Invariant, nesting and fuel along a whole execution                 *)

Definition good (st0 : state) (r : res) : Prop :=
  match r with
  | RRet st | RFell st => Inv st /\ depth st = depth st0
  | RDone st | RErr _ st | RUnspec st => Inv st
  | RFuel => False
  end.

Lemma good_same_depth a b r : depth a = depth b -> good a r -> good b r.
Proof. intros E; destruct r; cbn; rewrite ?E; auto. Qed.

Lemma feed_mask_inv b p st : Inv st -> Inv (feed_mask b p st) /\ depth (feed_mask b p st) = depth st.
Proof.
  intros HI. unfold feed_mask. destruct p; split; try reflexivity.
  - apply inv_with_pend, inv_with_path, HI.
  - apply inv_with_pend, HI.
Qed.

Lemma inv_tick st : Inv st -> Inv (tick st).
Proof. unfold Inv; sfields; tauto. Qed.

Lemma inv_enter st : Inv st -> (depth st < t2_max_depth)%nat -> Inv (enter st).
Proof. unfold Inv, enter; sfields. lia. Qed.

Lemma inv_leave st : Inv st -> Inv (leave st).
Proof. unfold Inv, leave; sfields. lia. Qed.

Section GOOD.
  Variable subrs gsubrs : subrtab.
  Variable call : state -> list N -> res.
  Variable d0 : nat.
  Hypothesis Hcall : forall st body, Inv st -> (d0 <= depth st)%nat -> good st (call st body).

  Lemma go_good : forall n code st,
    (length code <= n)%nat -> Inv st -> (d0 <= S (depth st))%nat ->
    good st (go subrs gsubrs call st code).
  Proof.
    induction n; intros code st Hlen HI Hd; rewrite go_step.
    - destruct code; [|cbn in Hlen; lia]. destruct (pend st); cbn; auto.
    - destruct code as [|b r]; [destruct (pend st); cbn; auto|].
      destruct (pend st) as [|p].
      + pose proof (inv_tick st HI) as HIt.
        apply good_same_depth with (a := tick st); [reflexivity|].
        assert (Hdt : (d0 <= S (depth (tick st)))%nat) by exact Hd.
        clear HI Hd. set (st1 := tick st) in *. clearbody st1. clear st. rename st1 into st.
        rename HIt into HI. rename Hdt into Hd.
        destruct (lex_num (b :: r)) as [v rest| |] eqn:EN.
        * apply lex_num_shorter in EN. unfold pushk.
          destruct (length (stk st) <? t2_max_stack)%nat eqn:L; [|cbn; auto].
          apply Nat.ltb_lt in L.
          apply good_same_depth with (a := with_stk (v :: stk st) st); [reflexivity|].
          apply IHn; [cbn in *; lia| |exact Hd].
          apply inv_with_stk; [assumption|cbn [length]; lia].
        * cbn; auto.
        * destruct (lex_op (b :: r)) as [o rest| |] eqn:EO; [|cbn; auto|cbn; auto].
          apply lex_op_shorter in EO. unfold run_op.
          pose proof (do_op_post o st HI) as HP.
          destruct (do_op o st) as [st'|st'| |g v st'|e|]; cbn [op_post] in HP; try (cbn; tauto).
          -- destruct HP as (HI' & Hd' & _).
             apply good_same_depth with (a := st'); [assumption|].
             apply IHn; [cbn in *; lia|assumption|lia].
          -- destruct HP as (HI' & Hd' & _).
             destruct (t2_max_depth <=? depth st')%nat eqn:LD; [cbn; auto|].
             apply Nat.leb_gt in LD.
             destruct (lookup (if g then gsubrs else subrs) v) as [body|]; [|cbn; auto].
             pose proof (Hcall (enter st') body (inv_enter st' HI' LD)) as HC.
             assert (HD1 : (d0 <= depth (enter st'))%nat) by (unfold enter; sfields; lia).
             specialize (HC HD1).
             destruct (call (enter st') body) as [s|s|s|e s|s|]; cbn [good] in HC; try (cbn; tauto).
             ++ destruct HC as [HIs Hds].
                apply good_same_depth with (a := leave s);
                  [unfold leave, enter in *; sfields; lia|].
                apply IHn; [cbn in *; lia|apply inv_leave; assumption|].
                unfold leave, enter in *; sfields; lia.
      + destruct (feed_mask_inv b p st HI) as [HI' Hd'].
        apply good_same_depth with (a := feed_mask b p st); [assumption|].
        apply IHn; [cbn in *; lia|assumption|lia].
  Qed.
End GOOD.

Lemma exec_good subrs gsubrs : forall fuel st code,
  Inv st -> (S t2_max_depth <= depth st + fuel)%nat -> good st (exec subrs gsubrs fuel st code).
Proof.
  induction fuel; intros st code HI Hf.
  - exfalso. unfold Inv in HI. lia.
  - cbn [exec].
    apply go_good with (d0 := (S t2_max_depth - fuel)%nat) (n := length code); auto; [|lia].
    intros st' body HI' Hd'. apply IHfuel; [assumption|lia].
Qed.

(* ------------------------------------------------------------------ *)
(* Composition: code that runs to its end hands its state to what follows *)

Lemma lex_num_app code q v rest :
  lex_num code = NumOk v rest -> lex_num (code ++ q) = NumOk v (rest ++ q).
Proof.
  destruct code as [|b r]; [discriminate|].
  destruct r as [|b1 [|b2 [|b3 [|b4 r4]]]]; cbn [lex_num app];
    repeat match goal with |- context [if ?c then _ else _] => destruct c end;
    try discriminate; intros H; inversion H; subst; reflexivity.
Qed.

Lemma lex_num_app_notnum b r q :
  lex_num (b :: r) = NotNum -> lex_num (b :: r ++ q) = NotNum.
Proof.
  destruct r as [|b1 [|b2 [|b3 [|b4 r4]]]]; cbn [lex_num app];
    repeat match goal with |- context [if ?c then _ else _] => destruct c end;
    try discriminate; try reflexivity.
Qed.

Lemma lex_op_app code q o rest :
  lex_op code = OpOk o rest -> lex_op (code ++ q) = OpOk o (rest ++ q).
Proof.
  destruct code as [|b r]; cbn [lex_op app]; [discriminate|].
  destruct (b =? 12)%N.
  - destruct r as [|b2 r2]; [discriminate|]. cbn [app]. destruct (decode_op2 b2); [|discriminate].
    intros H; inversion H; subst; reflexivity.
  - destruct (decode_op1 b); [|discriminate]. intros H; inversion H; subst; reflexivity.
Qed.

Section APP.
  Variable subrs gsubrs : subrtab.
  Variable call : state -> list N -> res.
  Notation go := (go subrs gsubrs call).

  Lemma go_app : forall n p st st' q,
    (length p <= n)%nat -> go st p = RFell st' -> go st (p ++ q) = go st' q.
  Proof.
    induction n; intros p st st' q Hlen H.
    - destruct p; [|cbn in Hlen; lia]. rewrite go_step in H.
      destruct (pend st); inversion H; subst. reflexivity.
    - destruct p as [|b r].
      { rewrite go_step in H. destruct (pend st); inversion H; subst. reflexivity. }
      rewrite go_step in H. cbn [app]. rewrite go_step.
      destruct (pend st) as [|p0].
      + set (st1 := tick st) in *. clearbody st1. clear st. rename st1 into st.
        destruct (lex_num (b :: r)) as [v rest| |] eqn:EN.
        * pose proof (lex_num_shorter _ _ _ EN) as Hs.
          change (b :: r ++ q) with ((b :: r) ++ q). rewrite (lex_num_app _ q _ _ EN).
          unfold pushk in *. destruct (length (stk st) <? t2_max_stack)%nat; [|discriminate].
          apply IHn; [cbn in *; lia|assumption].
        * discriminate.
        * rewrite (lex_num_app_notnum _ _ q EN).
          destruct (lex_op (b :: r)) as [o rest| |] eqn:EO; try discriminate.
          pose proof (lex_op_shorter _ _ _ EO) as Hs.
          change (b :: r ++ q) with ((b :: r) ++ q). rewrite (lex_op_app _ q _ _ EO).
          unfold run_op in *.
          destruct (do_op o st) as [st1|st1| |g v st1|e|]; try discriminate.
          -- apply IHn; [cbn in *; lia|assumption].
          -- destruct (t2_max_depth <=? depth st1)%nat; [discriminate|].
             destruct (lookup (if g then gsubrs else subrs) v) as [body|]; [|discriminate].
             destruct (call (enter st1) body) as [s|s|s|e s|s|]; try discriminate.
             apply IHn; [cbn in *; lia|assumption].
      + apply IHn; [cbn in *; lia|assumption].
  Qed.
End APP.

Lemma exec_app subrs gsubrs fuel p st st' q :
  exec subrs gsubrs fuel st p = RFell st' ->
  exec subrs gsubrs fuel st (p ++ q) = exec subrs gsubrs fuel st' q.
Proof.
  destruct fuel; cbn [exec]; [discriminate|]. apply go_app with (n := length p). lia.
Qed.

(* ------------------------------------------------------------------ *)
(* Malformed programs                                                  *)

Lemma args_length st : length (args st) = length (stk st).
Proof. unfold args. apply rev_length. Qed.

Lemma take_width_none_extra st a : wset st = true -> take_width st true a = None.
Proof. unfold take_width. intros ->. reflexivity. Qed.

(* an operator executed with an operand count outside the table is an error *)
Lemma illegal_count_rejected o st :
  count_legal o (length (stk st)) (wset st) = false -> exists e, do_op o st = PErr e.
Proof.
  intros H. rewrite <- args_length in H.
  destruct o; cbn [count_legal] in H; try discriminate; cbn [do_op];
    unfold drawing, do_stem, do_mask, do_moveto, plus_w in *.
  all: try (rewrite H; cbn; eauto; fail).
  - (* hstem *)
    destruct (length (args st) <? 2)%nat eqn:L; [eauto|].
    destruct (negb (hopen st)); [eauto|].
    apply Nat.ltb_ge in L. replace (2 <=? length (args st))%nat with true in H by (symmetry; apply Nat.leb_le; lia).
    cbn in H. apply orb_false_iff in H. destruct H as [He Hw]. apply negb_false_iff in Hw.
    rewrite <- Nat.negb_even, He. cbn [negb]. rewrite take_width_none_extra by assumption. eauto.
  - (* vstem *)
    destruct (length (args st) <? 2)%nat eqn:L; [eauto|].
    destruct (negb (hopen st)); [eauto|].
    apply Nat.ltb_ge in L. replace (2 <=? length (args st))%nat with true in H by (symmetry; apply Nat.leb_le; lia).
    cbn in H. apply orb_false_iff in H. destruct H as [He Hw]. apply negb_false_iff in Hw.
    rewrite <- Nat.negb_even, He. cbn [negb]. rewrite take_width_none_extra by assumption. eauto.
  - (* vmoveto *)
    apply orb_false_iff in H. destruct H as [H1 H2]. rewrite H1. cbn [orb].
    destruct (length (args st) =? 2)%nat eqn:E2; [|cbn; eauto]. cbn [negb].
    rewrite andb_true_r in H2. apply negb_false_iff in H2.
    rewrite take_width_none_extra by assumption. eauto.
  - (* endchar *)
    apply orb_false_iff in H. destruct H as [Ha Hb].
    apply orb_false_iff in Ha. destruct Ha as [H0 H1]. apply orb_false_iff in Hb. destruct Hb as [H4 H5].
    rewrite H0, H4. cbn [orb].
    destruct (length (args st) =? 1)%nat eqn:E1.
    + rewrite andb_true_r in H1. apply negb_false_iff in H1.
      rewrite take_width_none_extra by assumption. eauto.
    + rewrite andb_comm in H5. rewrite H5. eauto.
  - (* hstemhm *)
    destruct (length (args st) <? 2)%nat eqn:L; [eauto|].
    destruct (negb (hopen st)); [eauto|].
    apply Nat.ltb_ge in L. replace (2 <=? length (args st))%nat with true in H by (symmetry; apply Nat.leb_le; lia).
    cbn in H. apply orb_false_iff in H. destruct H as [He Hw]. apply negb_false_iff in Hw.
    rewrite <- Nat.negb_even, He. cbn [negb]. rewrite take_width_none_extra by assumption. eauto.
  - (* hintmask *)
    destruct ((2 <=? length (args st))%nat && negb (hopen st)); [eauto|].
    apply orb_false_iff in H. destruct H as [He Hw]. apply negb_false_iff in Hw.
    rewrite <- Nat.negb_even, He. cbn [negb]. rewrite take_width_none_extra by assumption. eauto.
  - (* cntrmask *)
    destruct ((2 <=? length (args st))%nat && negb (hopen st)); [eauto|].
    apply orb_false_iff in H. destruct H as [He Hw]. apply negb_false_iff in Hw.
    rewrite <- Nat.negb_even, He. cbn [negb]. rewrite take_width_none_extra by assumption. eauto.
  - (* rmoveto *)
    apply orb_false_iff in H. destruct H as [H1 H2]. rewrite H1. cbn [orb].
    destruct (length (args st) =? 3)%nat eqn:E2; [|cbn; eauto]. cbn [negb].
    rewrite andb_true_r in H2. apply negb_false_iff in H2.
    rewrite take_width_none_extra by assumption. eauto.
  - (* hmoveto *)
    apply orb_false_iff in H. destruct H as [H1 H2]. rewrite H1. cbn [orb].
    destruct (length (args st) =? 2)%nat eqn:E2; [|cbn; eauto]. cbn [negb].
    rewrite andb_true_r in H2. apply negb_false_iff in H2.
    rewrite take_width_none_extra by assumption. eauto.
  - (* vstemhm *)
    destruct (length (args st) <? 2)%nat eqn:L; [eauto|].
    destruct (negb (hopen st)); [eauto|].
    apply Nat.ltb_ge in L. replace (2 <=? length (args st))%nat with true in H by (symmetry; apply Nat.leb_le; lia).
    cbn in H. apply orb_false_iff in H. destruct H as [He Hw]. apply negb_false_iff in Hw.
    rewrite <- Nat.negb_even, He. cbn [negb]. rewrite take_width_none_extra by assumption. eauto.
Qed.

(* drawing before the first moveto *)
Lemma draw_before_move_rejected o st :
  is_draw o = true -> moved st = false -> exists e, do_op o st = PErr e.
Proof.
  intros Hd Hm. destruct o; try discriminate; cbn [do_op]; unfold drawing, draw_ok; rewrite Hm;
    match goal with |- context [if negb ?c then _ else _] => destruct c end; cbn; eauto.
Qed.

(* too few operands for an arithmetic, storage, conditional or call operator *)
Lemma underflow_rejected o st :
  (length (stk st) < arity o)%nat -> do_op o st = PErr EUnderflow.
Proof.
  intros H. destruct o; cbn [arity] in H; try lia; cbn [do_op];
    destruct (stk st) as [|x0 [|x1 [|x2 [|x3 r]]]]; cbn [length] in H; try lia; reflexivity.
Qed.

Section FAULTS.
  Variable subrs gsubrs : subrtab.
  Variable call : state -> list N -> res.
  Notation go := (go subrs gsubrs call).
  Notation run_op := (run_op subrs gsubrs call).

  (* a 49th operand *)
  Lemma overflow_rejected st code v rest :
    pend st = O -> (t2_max_stack <= length (stk st))%nat -> lex_num code = NumOk v rest ->
    go st code = RErr EOverflow (tick st).
  Proof.
    intros Hp Hl Hn. rewrite go_step. destruct code as [|b r]; [discriminate|].
    rewrite Hp, Hn. unfold pushk.
    destruct (length (stk (tick st)) <? t2_max_stack)%nat eqn:L;
      [apply Nat.ltb_lt in L; sfields; lia|reflexivity].
  Qed.

  (* an operand cut off by the end of the code *)
  Lemma truncated_operand_rejected st code :
    pend st = O -> lex_num code = NumTrunc -> go st code = RErr EIncomplete (tick st).
  Proof.
    intros Hp Hn. rewrite go_step. destruct code as [|b r]; [discriminate|]. rewrite Hp, Hn. reflexivity.
  Qed.

  (* a reserved operator *)
  Lemma reserved_op_rejected st code :
    pend st = O -> lex_num code = NotNum -> lex_op code = OpBad -> go st code = RErr EBadOp (tick st).
  Proof.
    intros Hp Hn Ho. rewrite go_step. destruct code as [|b r]; [discriminate|]. rewrite Hp, Hn, Ho. reflexivity.
  Qed.

  (* an operator whose semantics reports an error *)
  Lemma op_error_rejected st code o rest e :
    pend st = O -> lex_num code = NotNum -> lex_op code = OpOk o rest -> do_op o (tick st) = PErr e ->
    go st code = RErr e (tick st).
  Proof.
    intros Hp Hn Ho Hd. rewrite go_step. destruct code as [|b r]; [discriminate|].
    rewrite Hp, Hn, Ho. unfold run_op. rewrite Hd. reflexivity.
  Qed.

  (* subroutine index outside the table, or an eleventh nested call *)
  Lemma bad_call_rejected st code o rest v r :
    pend st = O -> lex_num code = NotNum -> lex_op code = OpOk o rest ->
    (o = OCallsubr \/ o = OCallgsubr) -> stk st = v :: r -> is_int v = true ->
    ((t2_max_depth <= depth st)%nat ->
       go st code = RErr EDepth (with_stk r (tick st))) /\
    ((depth st < t2_max_depth)%nat ->
       lookup (match o with OCallgsubr => gsubrs | _ => subrs end) (to_int v) = None ->
       go st code = RErr EBadSubr (with_stk r (tick st))).
  Proof.
    intros Hp Hn Ho Hc Hs Hi. rewrite go_step. destruct code as [|b c]; [discriminate|].
    rewrite Hp, Hn, Ho. unfold run_op.
    assert (Hs' : stk (tick st) = v :: r) by exact Hs.
    destruct Hc as [-> | ->]; cbn [do_op]; rewrite Hs', Hi; split.
    - intros Hd. replace (t2_max_depth <=? depth (with_stk r (tick st)))%nat with true; [reflexivity|].
      symmetry. apply Nat.leb_le. exact Hd.
    - intros Hd Hl. replace (t2_max_depth <=? depth (with_stk r (tick st)))%nat with false.
      + rewrite Hl. reflexivity.
      + symmetry. apply Nat.leb_gt. exact Hd.
    - intros Hd. replace (t2_max_depth <=? depth (with_stk r (tick st)))%nat with true; [reflexivity|].
      symmetry. apply Nat.leb_le. exact Hd.
    - intros Hd Hl. replace (t2_max_depth <=? depth (with_stk r (tick st)))%nat with false.
      + rewrite Hl. reflexivity.
      + symmetry. apply Nat.leb_gt. exact Hd.
  Qed.

  (* an error inside a subroutine is the error of the caller *)
  Lemma callee_error_propagates st code o rest g v st1 body e s :
    pend st = O -> lex_num code = NotNum -> lex_op code = OpOk o rest ->
    do_op o (tick st) = PCall g v st1 -> (depth st1 < t2_max_depth)%nat ->
    lookup (if g then gsubrs else subrs) v = Some body ->
    call (enter st1) body = RErr e s ->
    go st code = RErr e s.
  Proof.
    intros Hp Hn Ho Hd Hdp Hl Hc. rewrite go_step. destruct code as [|b c]; [discriminate|].
    rewrite Hp, Hn, Ho. unfold run_op. rewrite Hd.
    replace (t2_max_depth <=? depth st1)%nat with false by (symmetry; apply Nat.leb_gt; exact Hdp).
    rewrite Hl, Hc. reflexivity.
  Qed.
End FAULTS.

(* ------------------------------------------------------------------ *)
(* Subroutine bias                                                     *)

Lemma subr_bias_spec n :
  (n < 1240 -> subr_bias n = 107) /\
  (1240 <= n < 33900 -> subr_bias n = 1131) /\
  (33900 <= n -> subr_bias n = 32768).
Proof.
  unfold subr_bias. destruct (n <? 1240) eqn:A; destruct (n <? 33900) eqn:B;
    rewrite ?Z.ltb_lt, ?Z.ltb_ge in *; repeat split; intros; try lia.
Qed.

Lemma lookup_some_iff t v :
  (exists body, lookup t v = Some body) <-> 0 <= v + subr_bias (t_size t) < t_size t.
Proof.
  unfold lookup.
  destruct ((0 <=? v + subr_bias (t_size t)) && (v + subr_bias (t_size t) <? t_size t)) eqn:E.
  - apply andb_true_iff in E. rewrite Z.leb_le, Z.ltb_lt in E. split; [intros _; lia|eauto].
  - apply andb_false_iff in E. rewrite Z.leb_gt, Z.ltb_ge in E.
    split; [intros [b Hb]; discriminate|lia].
Qed.

Lemma lookup_value t v :
  0 <= v + subr_bias (t_size t) < t_size t ->
  lookup t v = Some (assoc_z (v + subr_bias (t_size t)) (t_special t) (t_default t)).
Proof.
  intros H. unfold lookup.
  replace ((0 <=? v + subr_bias (t_size t)) && (v + subr_bias (t_size t) <? t_size t)) with true;
    [reflexivity|].
  symmetry. apply andb_true_iff. rewrite Z.leb_le, Z.ltb_lt. lia.
Qed.

(* code only runs to its end at an operator boundary (no mask data outstanding) *)
Lemma go_fell_pend subrs gsubrs call : forall n code st st',
  (length code <= n)%nat -> go subrs gsubrs call st code = RFell st' -> pend st' = O.
Proof.
  induction n; intros code st st' Hlen H; rewrite go_step in H.
  - destruct code; [|cbn in Hlen; lia]. destruct (pend st) eqn:E; inversion H; subst; assumption.
  - destruct code as [|b r].
    { destruct (pend st) eqn:E; inversion H; subst; assumption. }
    destruct (pend st) as [|p0].
    + set (st1 := tick st) in *. clearbody st1. clear st. rename st1 into st.
      destruct (lex_num (b :: r)) as [v rest| |] eqn:EN; try discriminate.
      * pose proof (lex_num_shorter _ _ _ EN) as Hs. unfold pushk in H.
        destruct (length (stk st) <? t2_max_stack)%nat; [|discriminate].
        eapply IHn; [|exact H]. cbn in *; lia.
      * destruct (lex_op (b :: r)) as [o rest| |] eqn:EO; try discriminate.
        pose proof (lex_op_shorter _ _ _ EO) as Hs. unfold run_op in H.
        destruct (do_op o st) as [st1|st1| |g v st1|e|]; try discriminate.
        -- eapply IHn; [|exact H]. cbn in *; lia.
        -- destruct (t2_max_depth <=? depth st1)%nat; [discriminate|].
           destruct (lookup (if g then gsubrs else subrs) v) as [body|]; [|discriminate].
           destruct (call (enter st1) body) as [s|s|s|e s|s|]; try discriminate.
           eapply IHn; [|exact H]. cbn in *; lia.
    + eapply IHn; [|exact H]. cbn in *; lia.
Qed.

Lemma exec_fell_pend subrs gsubrs fuel st code st' :
  exec subrs gsubrs fuel st code = RFell st' -> pend st' = O.
Proof.
  destruct fuel; cbn [exec]; [discriminate|]. apply go_fell_pend with (n := length code). lia.
Qed.

(* The single-fault classes, for a fault that follows a prefix [p] of the
   charstring which itself executes completely. *)
Lemma malformed_rejected_lemma dflt nom subrs gsubrs p st' :
  S_t2_state subrs gsubrs p = RFell st' ->
  (* nothing follows: the endchar is missing *)
  S_t2 dflt nom subrs gsubrs p = T2Err EIncomplete /\
  forall code,
  (* one more operand when 48 are on the stack *)
  (forall v rest, lex_num code = NumOk v rest -> (t2_max_stack <= length (stk st'))%nat ->
     S_t2 dflt nom subrs gsubrs (p ++ code) = T2Err EOverflow) /\
  (* an operand cut off by the end of the charstring *)
  (lex_num code = NumTrunc -> S_t2 dflt nom subrs gsubrs (p ++ code) = T2Err EIncomplete) /\
  (* a reserved operator *)
  (lex_num code = NotNum -> lex_op code = OpBad -> S_t2 dflt nom subrs gsubrs (p ++ code) = T2Err EBadOp) /\
  (* an operator with an illegal operand count (e.g. after dropping an operand of a
     path operator), a drawing operator before the first moveto, an arithmetic /
     storage / call operator with too few operands *)
  (forall o rest, lex_num code = NotNum -> lex_op code = OpOk o rest ->
     (count_legal o (length (stk st')) (wset st') = false \/
      (is_draw o = true /\ moved st' = false) \/
      (length (stk st') < arity o)%nat) ->
     exists e, S_t2 dflt nom subrs gsubrs (p ++ code) = T2Err e) /\
  (* a subroutine index outside the table *)
  (forall o rest v r, lex_num code = NotNum -> lex_op code = OpOk o rest ->
     (o = OCallsubr \/ o = OCallgsubr) -> stk st' = v :: r -> is_int v = true ->
     lookup (match o with OCallgsubr => gsubrs | _ => subrs end) (to_int v) = None ->
     S_t2 dflt nom subrs gsubrs (p ++ code) = T2Err EBadSubr).
Proof.
  intros Hp. unfold S_t2, S_t2_state in *.
  split; [rewrite Hp; reflexivity|].
  intros code. pose proof (exec_fell_pend _ _ _ _ _ _ Hp) as Hpend.
  assert (Hd0 : depth st' = O).
  { pose proof (exec_good subrs gsubrs t2_fuel init_state p inv_init) as G.
    rewrite Hp in G. cbn [good] in G. apply G. unfold t2_fuel, t2_max_depth. cbn. lia. }
  rewrite (exec_app _ _ _ _ _ _ code Hp). unfold t2_fuel. cbn [exec].
  repeat split.
  - intros v rest Hn Hl. rewrite (overflow_rejected _ _ _ _ _ v rest Hpend Hl Hn). reflexivity.
  - intros Hn. rewrite (truncated_operand_rejected _ _ _ _ _ Hpend Hn). reflexivity.
  - intros Hn Ho. rewrite (reserved_op_rejected _ _ _ _ _ Hpend Hn Ho). reflexivity.
  - intros o rest Hn Ho Hf.
    assert (He : exists e, do_op o (tick st') = PErr e).
    { destruct Hf as [Hf|[[Hf1 Hf2]|Hf]].
      - apply illegal_count_rejected; exact Hf.
      - apply draw_before_move_rejected; assumption.
      - exists EUnderflow. apply underflow_rejected; exact Hf. }
    destruct He as [e He]. exists e.
    rewrite (op_error_rejected _ _ _ _ _ o rest e Hpend Hn Ho He). reflexivity.
  - intros o rest v r Hn Ho Hc Hs Hi Hl.
    destruct (bad_call_rejected subrs gsubrs (exec subrs gsubrs t2_max_depth) st' code o rest v r
                Hpend Hn Ho Hc Hs Hi) as [_ Hb].
    unfold t2_max_depth in *. rewrite Hb; [reflexivity|lia|assumption].
Qed.

(* ------------------------------------------------------------------ *)
(* How much work a charstring can cause                                *)

Lemma assoc_len k l d m :
  (length d <= m)%nat -> (forall p, In p l -> (length (snd p) <= m)%nat) ->
  (length (assoc_z k l d) <= m)%nat.
Proof.
  intros Hd. induction l as [|[k' v] t IH]; intros Hl; cbn [assoc_z]; [exact Hd|].
  destruct (k =? k').
  - apply (Hl (k', v)). left; reflexivity.
  - apply IH. intros p Hp. apply Hl. right; exact Hp.
Qed.

Lemma tab_maxlen_ge t :
  (length (t_default t) <= tab_maxlen t)%nat /\
  (forall p, In p (t_special t) -> (length (snd p) <= tab_maxlen t)%nat).
Proof.
  unfold tab_maxlen. induction (t_special t) as [|q l IH]; cbn [fold_right].
  - split; [lia|intros p []].
  - destruct IH as [IH1 IH2]. split; [lia|].
    intros p [<-|Hp]; [lia|]. specialize (IH2 p Hp). lia.
Qed.

Lemma lookup_len t v body : lookup t v = Some body -> (length body <= tab_maxlen t)%nat.
Proof.
  unfold lookup. destruct (_ && _); [|discriminate]. intros H; inversion H; subst.
  destruct (tab_maxlen_ge t) as [H1 H2]. apply assoc_len; assumption.
Qed.

Section STEPS.
  Variable subrs gsubrs : subrtab.
  Variable call : state -> list N -> res.
  Variable d0 : nat.
  Variable M : nat.
  Hypothesis HM : (tab_maxlen subrs <= M)%nat /\ (tab_maxlen gsubrs <= M)%nat.

  Local Open Scope N_scope.
  Definition P : N := N.of_nat M + 1.
  Definition room (st : state) : N := P ^ N.of_nat (t2_max_depth - depth st).
  Definition sbound (st0 : state) (len : nat) (r : res) : Prop :=
    final_steps r <= nsteps st0 + N.of_nat len * room st0.

  Hypothesis Hcall : forall st body, Inv st -> (d0 <= depth st)%nat -> (length body <= M)%nat ->
    good st (call st body) /\ sbound st (length body) (call st body).

  Lemma room_pos st : 1 <= room st.
  Proof.
    unfold room, P.
    assert (H : (N.of_nat M + 1) ^ N.of_nat (t2_max_depth - depth st) <> 0) by (apply N.pow_nonzero; lia).
    lia.
  Qed.

  Lemma room_enter st : (depth st < t2_max_depth)%nat -> room st = P * room (enter st).
  Proof.
    intros H. unfold room, enter; sfields.
    replace (t2_max_depth - depth st)%nat with (S (t2_max_depth - S (depth st)))%nat by lia.
    rewrite Nat2N.inj_succ, N.pow_succ_r'. reflexivity.
  Qed.

  Lemma sbound_same a b len r :
    nsteps a = nsteps b -> depth a = depth b -> sbound a len r -> sbound b len r.
  Proof. unfold sbound, room. intros -> ->. auto. Qed.

  Lemma sbound_weaken st len len' extra r :
    final_steps r <= nsteps st + extra + N.of_nat len * room st ->
    extra + N.of_nat len * room st <= N.of_nat len' * room st ->
    sbound st len' r.
  Proof. unfold sbound. lia. Qed.

  Lemma go_steps : forall n code st,
    (length code <= n)%nat -> Inv st -> (d0 <= S (depth st))%nat ->
    sbound st (length code) (go subrs gsubrs call st code).
  Proof.
    assert (Hgood : forall st body, Inv st -> (d0 <= depth st)%nat -> (length body <= M)%nat ->
                    good st (call st body)) by (intros; apply Hcall; assumption).
    induction n; intros code st Hlen HI Hd; rewrite go_step.
    - destruct code; [|cbn in Hlen; lia]. unfold sbound. destruct (pend st); cbn; lia.
    - destruct code as [|b r]; [unfold sbound; destruct (pend st); cbn; lia|].
      pose proof (room_pos st) as HR.
      destruct (pend st) as [|p].
      + (* one step *)
        assert (Htick : forall len r0, (len < length (b :: r))%nat ->
                  sbound (tick st) len r0 -> sbound st (length (b :: r)) r0).
        { intros len r0 Hl Hs. unfold sbound in *. unfold room in *. sfields.
          set (X := P ^ N.of_nat (t2_max_depth - depth st)) in *.
          assert (N.of_nat len + 1 <= N.of_nat (length (b :: r))) by lia.
          nia. }
        assert (Herr : forall e, sbound st (length (b :: r)) (RErr e (tick st))).
        { intros e. unfold sbound. cbn [final_steps final_state]. sfields. cbn [length].
          rewrite Nat2N.inj_succ. nia. }
        pose proof (inv_tick st HI) as HIt.
        destruct (lex_num (b :: r)) as [v rest| |] eqn:EN.
        * pose proof (lex_num_shorter _ _ _ EN) as Hs. unfold pushk.
          destruct (length (stk (tick st)) <? t2_max_stack)%nat eqn:L; [|apply Herr].
          apply Nat.ltb_lt in L.
          apply Htick with (len := length rest); [exact Hs|].
          apply sbound_same with (a := with_stk (v :: stk (tick st)) (tick st)); [reflexivity|reflexivity|].
          apply IHn; [cbn in *; lia| |exact Hd].
          apply inv_with_stk; [assumption|cbn [length]; lia].
        * apply Herr.
        * destruct (lex_op (b :: r)) as [o rest| |] eqn:EO; [|apply Herr|apply Herr].
          pose proof (lex_op_shorter _ _ _ EO) as Hs. unfold run_op.
          pose proof (do_op_post o (tick st) HIt) as HP.
          destruct (do_op o (tick st)) as [st'|st'| |g v st'|e|]; cbn [op_post] in HP.
          -- destruct HP as (HI' & Hd' & Hn').
             apply Htick with (len := length rest); [exact Hs|].
             apply sbound_same with (a := st'); [assumption|assumption|].
             apply IHn; [cbn in *; lia|assumption|sfields; lia].
          -- destruct HP as (HI' & Hd' & Hn').
             unfold sbound. cbn [final_steps final_state]. rewrite Hn'. sfields. cbn [length].
             rewrite Nat2N.inj_succ. nia.
          -- unfold sbound. cbn [final_steps final_state]. sfields. cbn [length].
             rewrite Nat2N.inj_succ. nia.
          -- destruct HP as (HI' & Hd' & Hn').
             assert (Herr' : forall e, sbound st (length (b :: r)) (RErr e st')).
             { intros e. unfold sbound. cbn [final_steps final_state]. rewrite Hn'. sfields. cbn [length].
               rewrite Nat2N.inj_succ. nia. }
             destruct (t2_max_depth <=? depth st')%nat eqn:LD; [apply Herr'|].
             apply Nat.leb_gt in LD.
             destruct (lookup (if g then gsubrs else subrs) v) as [body|] eqn:EL; [|apply Herr'].
             assert (Hbl : (length body <= M)%nat).
             { apply lookup_len in EL. destruct g; lia. }
             assert (HD1 : (d0 <= depth (enter st'))%nat) by (unfold enter; sfields; lia).
             destruct (Hcall (enter st') body (inv_enter st' HI' LD) HD1 Hbl) as [HG HS].
             (* cost of the callee *)
             assert (Hcal : final_steps (call (enter st') body) <= nsteps st + room st).
             { unfold sbound in HS.
               assert (Er : room st = P * room (enter st')).
               { rewrite <- (room_enter st' LD). unfold room. rewrite Hd'. reflexivity. }
               assert (En : nsteps (enter st') = nsteps st + 1).
               { unfold enter; sfields. rewrite Hn'. reflexivity. }
               rewrite En in HS. rewrite Er.
               pose proof (room_pos (enter st')) as HR'.
               assert (Hb : N.of_nat (length body) <= N.of_nat M) by lia.
               unfold P. set (Y := room (enter st')) in *. nia. }
             destruct (call (enter st') body) as [s|s|s|e s|s|] eqn:EC; cbn [good] in HG.
             ++ unfold sbound. cbn [final_steps final_state] in *. cbn [length]. rewrite Nat2N.inj_succ. nia.
             ++ destruct HG as [HIs Hds].
                assert (Hs2 : sbound (leave s) (length rest) (go subrs gsubrs call (leave s) rest)).
                { apply IHn; [cbn in *; lia|apply inv_leave; assumption|].
                  unfold leave, enter in *; sfields; lia. }
                unfold sbound in *. cbn [final_steps final_state] in Hcal.
                assert (Er : room (leave s) = room st).
                { unfold room. unfold leave, enter in *; sfields. rewrite Hds, Hd'. cbn. reflexivity. }
                rewrite Er in Hs2.
                assert (En : nsteps (leave s) = nsteps s) by reflexivity. rewrite En in Hs2.
                assert (N.of_nat (length rest) + 1 <= N.of_nat (length (b :: r))) by lia.
                nia.
             ++ unfold sbound. cbn [final_steps final_state] in *. cbn [length]. rewrite Nat2N.inj_succ. nia.
             ++ unfold sbound. cbn [final_steps final_state] in *. cbn [length]. rewrite Nat2N.inj_succ. nia.
             ++ unfold sbound. cbn [final_steps final_state] in *. cbn [length]. rewrite Nat2N.inj_succ. nia.
             ++ contradiction.
          -- apply Herr.
          -- unfold sbound. cbn [final_steps final_state]. sfields. cbn [length].
             rewrite Nat2N.inj_succ. nia.
      + destruct (feed_mask_inv b p st HI) as [HI' Hd'].
        assert (Hs2 : sbound (feed_mask b p st) (length r) (go subrs gsubrs call (feed_mask b p st) r)).
        { apply IHn; [cbn in *; lia|assumption|lia]. }
        unfold sbound in *.
        assert (Er : room (feed_mask b p st) = room st) by (unfold room; rewrite Hd'; reflexivity).
        assert (En : nsteps (feed_mask b p st) = nsteps st) by (unfold feed_mask; destruct p; reflexivity).
        rewrite Er, En in Hs2. cbn [length]. rewrite Nat2N.inj_succ. nia.
  Qed.
End STEPS.

Lemma exec_steps subrs gsubrs M :
  (tab_maxlen subrs <= M)%nat /\ (tab_maxlen gsubrs <= M)%nat ->
  forall fuel st code,
    Inv st -> (S t2_max_depth <= depth st + fuel)%nat ->
    sbound M st (length code) (exec subrs gsubrs fuel st code).
Proof.
  intros HM. induction fuel; intros st code HI Hf.
  - exfalso. unfold Inv in HI. lia.
  - cbn [exec].
    apply go_steps with (d0 := (S t2_max_depth - fuel)%nat) (n := length code); auto; [|lia].
    intros st' body HI' Hd' Hb. split.
    + apply exec_good; [assumption|lia].
    + apply IHfuel; [assumption|lia].
Qed.

Lemma steps_bound_lemma subrs gsubrs code :
  (final_steps (S_t2_state subrs gsubrs code) <= t2_step_bound subrs gsubrs code)%N.
Proof.
  unfold S_t2_state, t2_step_bound.
  pose proof (exec_steps subrs gsubrs (Nat.max (tab_maxlen subrs) (tab_maxlen gsubrs))
                (conj (Nat.le_max_l _ _) (Nat.le_max_r _ _)) t2_fuel init_state code inv_init) as H.
  unfold sbound, room, P in H. cbn [nsteps depth init_state] in H.
  rewrite Nat.sub_0_r in H. apply H. unfold t2_fuel. cbn. lia.
Qed.
