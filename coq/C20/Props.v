(* C20/Props.v — the property theorems.  Nothing else.
   [fu] stands for names.FromUnicode(string(r)); no property of it is assumed.
   The model is the repaired code ([guard4 = true]); the _refuted witnesses for
   the code before the repair are in Examples.v. *)
From Coq Require Import List NArith Bool Arith Lia.
From Common Require Import Outcome.
From Gen Require Import C20.
From C20 Require Import Model Util Proofs Proofs_cff Proofs_ps.
Import ListNotations.

(* One non-empty name per glyph, pairwise distinct, glyph 0 = .notdef: for every
   glyph count, every list of existing names (missing, duplicate, of the wrong
   length), every cmap, every list of GSUB subtables and every behaviour of
   names.FromUnicode. *)
Theorem names_complete_unique :
  forall (fu : N -> name) n existing cmap gsub names,
    M_make_names fu true n existing cmap gsub = Ok names ->
    length names = n /\
    (forall nm, In nm names -> nm <> []) /\
    NoDup names /\
    nth_error names 0 = Some notdef.
Proof.
  intros fu n existing cmap gsub names H.
  destruct (make_names_ok fu n existing cmap gsub names H) as (H1 & H2 & H3 & H4 & _). auto.
Qed.
Print Assumptions names_complete_unique.

(* ... and the function does return (no index out of range) whenever the font
   has a glyph 0 and the GSUB subtables refer to existing glyphs with coverage
   indices inside their arrays.  Nothing is required of the cmap. *)
Theorem names_total :
  forall (fu : N -> name) n existing cmap gsub,
    0 < n ->
    (forall tables, gsub = Some tables -> forall t, In t tables -> wf_subtable n t) ->
    exists names, M_make_names fu true n existing cmap gsub = Ok names.
Proof. exact make_names_total. Qed.
Print Assumptions names_total.

(* Every existing unique name is kept (glyph 0 is always .notdef, so another
   glyph called .notdef is a duplicate). *)
Theorem existing_unique_names_kept :
  forall (fu : N -> name) n existing cmap gsub names i nm,
    M_make_names fu true n existing cmap gsub = Ok names ->
    nth_error (init_names n existing) i = Some nm -> nm <> [] -> i <> 0 -> nm <> notdef ->
    (forall j, j <> i -> nth_error (init_names n existing) j <> Some nm) ->
    nth_error names i = Some nm.
Proof. exact kept_unique. Qed.
Print Assumptions existing_unique_names_kept.

(* stronger: of several glyphs with the same name the first keeps it *)
Theorem existing_first_occurrence_kept :
  forall (fu : N -> name) n existing cmap gsub names i nm,
    M_make_names fu true n existing cmap gsub = Ok names ->
    nth_error (init_names n existing) i = Some nm -> nm <> [] -> i <> 0 -> nm <> notdef ->
    (forall j, j < i -> nth_error (init_names n existing) j <> Some nm) ->
    nth_error names i = Some nm.
Proof. exact kept_first. Qed.
Print Assumptions existing_first_occurrence_kept.

(* Pigeonhole: with fuel |used|+1 the numbering loops find an unused name.
   (a) the loop itself, for any injective numbering; (b) makeVariant; (c) the
   whole function never runs out of fuel and never reports an error. *)
Theorem variant_terminates :
  forall (f : N -> name) used k,
    (forall a b, f a = f b -> a = b) ->
    find_free f (S (length used)) used k <> OutOfFuel.
Proof. exact find_free_fuel. Qed.
Print Assumptions variant_terminates.

Theorem numberings_injective :
  (forall base a b, variant_name base a = variant_name base b -> a = b) /\
  (forall a b, orn_name a = orn_name b -> a = b) /\
  (forall base a b, alt_name base a = alt_name base b -> a = b).
Proof. exact (conj variant_name_inj (conj orn_name_inj alt_name_inj)). Qed.
Print Assumptions numberings_injective.

Theorem make_variant_returns_unused :
  forall used base,
    exists r, make_variant used base = Ok r /\ ~ In (fst r) used /\ snd r = fst r :: used.
Proof. exact make_variant_terminates. Qed.
Print Assumptions make_variant_returns_unused.

Theorem names_never_out_of_fuel :
  forall (fu : N -> name) n existing cmap gsub,
    M_make_names fu true n existing cmap gsub <> OutOfFuel /\
    M_make_names fu true n existing cmap gsub <> Err.
Proof. exact make_names_outcome. Qed.
Print Assumptions names_never_out_of_fuel.

(* Installing the result (EnsureGlyphNames) and asking again returns it, also
   when the cmap or GSUB changed in between. *)
Theorem names_idempotent :
  forall (fu : N -> name) n existing cmap gsub names cmap' gsub',
    M_make_names fu true n existing cmap gsub = Ok names ->
    M_make_names fu true n names cmap' gsub' = Ok names.
Proof. exact make_names_idempotent. Qed.
Print Assumptions names_idempotent.

(* The Go loop looks up every code point of the cmap's range; the model (and
   the case lines) carry the mapped code points only.  Same computation: in a
   state where glyph 0 has a name, the entries mapping to glyph 0 can be
   dropped from any entry list, in particular from the full range. *)
Theorem cmap_loop_skips_unmapped :
  forall (fu : N -> name) lookup lo cnt s,
    zero_named s ->
    ofold (cmap_step fu) (cmap_range_entries lookup lo cnt) s =
    ofold (cmap_step fu) (filter (fun e => negb (snd e =? 0)%N) (cmap_range_entries lookup lo cnt)) s.
Proof. exact cmap_range_loop. Qed.
Print Assumptions cmap_loop_skips_unmapped.

(* ---- converting a CID-keyed CFF font to a simple one (MakeSimple) ----
   [ft] = names.FromUnicode on the glyph text, [iv] = names.IsValid; both
   arbitrary.  Same clauses: one non-empty name per glyph, pairwise distinct,
   glyph 0 = .notdef (given that ".notdef" is a valid name), valid placeholders
   make every name valid. *)
Theorem cff_names_complete_unique :
  forall (ft : list N -> name) (iv : name -> bool) existing texts names,
    M_cff_make_names ft iv existing texts = Ok names ->
    length names = length existing /\
    (forall nm, In nm names -> nm <> []) /\
    NoDup names /\
    (iv notdef = true -> nth_error names 0 = Some notdef) /\
    ((forall c, iv (orn_name c) = true) -> forall nm, In nm names -> iv nm = true).
Proof.
  intros ft iv existing texts names H.
  destruct (cff_ok ft iv existing texts names H) as (H1 & H2 & H3 & H4 & _ & H6). auto.
Qed.
Print Assumptions cff_names_complete_unique.

(* it returns for every font with at least one glyph, and the .altN and orn
   loops never run out of fuel *)
Theorem cff_names_total :
  forall (ft : list N -> name) (iv : name -> bool) existing texts,
    existing <> [] -> exists names, M_cff_make_names ft iv existing texts = Ok names.
Proof. exact cff_total. Qed.
Print Assumptions cff_names_total.

Theorem cff_names_never_out_of_fuel :
  forall (ft : list N -> name) (iv : name -> bool) existing texts,
    M_cff_make_names ft iv existing texts <> OutOfFuel /\ M_cff_make_names ft iv existing texts <> Err.
Proof. exact cff_outcome. Qed.
Print Assumptions cff_names_never_out_of_fuel.

(* existing names are kept unless they are invalid or duplicate *)
Theorem cff_existing_unique_names_kept :
  forall (ft : list N -> name) (iv : name -> bool) existing texts names i nm,
    M_cff_make_names ft iv existing texts = Ok names ->
    nth_error existing i = Some nm -> nm <> [] -> iv nm = true -> i <> 0 -> nm <> notdef ->
    (forall j, j <> i -> nth_error existing j <> Some nm) ->
    nth_error names i = Some nm.
Proof. exact cff_kept_unique. Qed.
Print Assumptions cff_existing_unique_names_kept.

(* converting again (any glyph text) returns the same names *)
Theorem cff_names_idempotent :
  forall (ft : list N -> name) (iv : name -> bool) existing texts names texts',
    iv notdef = true -> (forall c, iv (orn_name c) = true) ->
    M_cff_make_names ft iv existing texts = Ok names ->
    M_cff_make_names ft iv names texts' = Ok names.
Proof. exact cff_idempotent. Qed.
Print Assumptions cff_names_idempotent.

(* The PostScript name: for the regular expression that is in font.go now,
   the result consists of PostScript regular characters only, for every family
   and sub-family string; in fact it is exactly the input with everything else
   removed.  The class is decided for all 256 byte values by computation
   (Proofs_ps.class_table) and for larger values by the bound on the ranges. *)
Theorem ps_name_charset :
  forall family subfamily c,
    In c (M_postscript_name sfnt_psNameRegexp family subfamily) -> S_ps_regular c = true.
Proof. exact ps_name_chars_regular. Qed.
Print Assumptions ps_name_charset.

Theorem ps_name_exact :
  forall family subfamily,
    M_postscript_name sfnt_psNameRegexp family subfamily =
    filter S_ps_regular (family ++ 45%N :: subfamily).
Proof. exact ps_name_is_regular_filter. Qed.
Print Assumptions ps_name_exact.

Theorem ps_class_all_bytes :
  forallb (fun c => Bool.eqb (ps_allowed sfnt_psNameRegexp c) (S_ps_regular c))
          (map N.of_nat (seq 0 256)) = true.
Proof. exact class_table. Qed.
Print Assumptions ps_class_all_bytes.

(* Translator tie: the format strings the model's orn_name / variant_name /
   alt_name implement are the ones in the Go source now. *)
Theorem format_strings_tie :
  sfnt_ornFormat = [111; 114; 110; 37; 48; 51; 100]%N /\       (* "orn%03d" *)
  cff_ornFormat = [111; 114; 110; 37; 48; 51; 100]%N /\
  sfnt_variantFormat = [37; 115; 46; 37; 100]%N /\             (* "%s.%d" *)
  cff_altFormat = [46; 97; 108; 116; 37; 100]%N.               (* ".alt%d" *)
Proof. repeat split; reflexivity. Qed.
Print Assumptions format_strings_tie.
