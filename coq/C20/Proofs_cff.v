(* C20/Proofs_cff.v — cff.Outlines.makeNames (MakeSimple): the same clauses
   as for MakeGlyphNames, for every behaviour of names.FromUnicode and
   names.IsValid. *)
From Coq Require Import List NArith Bool Arith Lia.
From Common Require Import Outcome.
From C20 Require Import Model Util Proofs.
Import ListNotations.

Section Cff.
  Variable from_text : list N -> name.
  Variable is_valid : name -> bool.

  (* ---- the first pass: invalid and duplicate names removed ---- *)
  Definition CP (names0 : list name) (k : nat) (s : st) : Prop :=
    length (fst s) = length names0 /\
    (forall i, k <= i -> nth_error (fst s) i = nth_error names0 i) /\
    (forall i nm, i < k -> nth_error (fst s) i = Some nm -> nm <> [] ->
       In nm (snd s) /\ nth_error names0 i = Some nm /\ is_valid nm = true) /\
    (forall i j nm, i < k -> j < k -> nth_error (fst s) i = Some nm -> nth_error (fst s) j = Some nm ->
       nm <> [] -> i = j) /\
    (forall u, In u (snd s) -> exists j, j < k /\ nth_error names0 j = Some u) /\
    (forall i nm, i < k -> nth_error names0 i = Some nm -> is_valid nm = true ->
       (forall j, j < i -> nth_error names0 j <> Some nm) -> nth_error (fst s) i = Some nm).

  Lemma cff_keep_step_good : forall names0 k s,
    CP names0 k s -> good (CP names0 (S k)) (cff_keep_step is_valid k s).
  Proof.
    intros names0 k [names used] (Hl & Hge & Hheld & Hinj & Hused & Hfirst). cbn [fst snd] in *.
    unfold cff_keep_step. eapply good_bind; [apply good_get|].
    intros nm _ Hnm. rewrite Nat2N.id in Hnm.
    pose proof (nth_error_lt _ _ _ Hnm) as Hlt.
    assert (H0 : nth_error names0 k = Some nm) by (rewrite <- Hge by lia; exact Hnm).
    destruct (negb (is_valid nm) || mem nm used) eqn:Ec; cbn [good]; unfold CP; cbn [fst snd].
    - (* invalid or duplicate: cleared *)
      unfold set. rewrite Nat2N.id.
      split; [rewrite set_nth_length; exact Hl|].
      split; [intros i Hi; rewrite set_nth_other by lia; apply Hge; lia|].
      split.
      { intros i x Hi Hx Hne. destruct (Nat.eq_dec k i) as [E|Hki]; [subst i|].
        - rewrite set_nth_same in Hx by exact Hlt. congruence.
        - rewrite set_nth_other in Hx by exact Hki. apply Hheld; [lia|exact Hx|exact Hne]. }
      split.
      { intros i j x Hi Hj Hxi Hxj Hne.
        destruct (Nat.eq_dec k i) as [E|Hki]; [subst i; rewrite set_nth_same in Hxi by exact Hlt; congruence|].
        destruct (Nat.eq_dec k j) as [E|Hkj]; [subst j; rewrite set_nth_same in Hxj by exact Hlt; congruence|].
        rewrite set_nth_other in Hxi by exact Hki. rewrite set_nth_other in Hxj by exact Hkj.
        apply (Hinj i j x); try assumption; lia. }
      split.
      { intros u Hu. destruct (Hused u Hu) as [j [Hj Hj0]]. exists j. split; [lia|exact Hj0]. }
      { intros i x Hi Hx Hv Hfst. destruct (Nat.eq_dec k i) as [E|Hki]; [subst i|].
        - exfalso. assert (x = nm) by congruence. subst x.
          apply orb_true_iff in Ec. destruct Ec as [Ec|Ec].
          + rewrite Hv in Ec. discriminate.
          + apply mem_In in Ec. destruct (Hused nm Ec) as [j [Hj Hj0]]. exact (Hfst j Hj Hj0).
        - rewrite set_nth_other by exact Hki. apply Hfirst; [lia|exact Hx|exact Hv|exact Hfst]. }
    - (* valid, first occurrence: recorded *)
      apply orb_false_iff in Ec. destruct Ec as [Ev Em].
      apply negb_false_iff in Ev. apply mem_false in Em.
      split; [exact Hl|].
      split; [intros i Hi; apply Hge; lia|].
      split.
      { intros i x Hi Hx Hne. destruct (Nat.eq_dec k i) as [E|Hki]; [subst i|].
        - assert (x = nm) by congruence. subst x. split; [left; reflexivity|]. split; [exact H0|exact Ev].
        - destruct (Hheld i x) as [Ha Hb]; [lia|exact Hx|exact Hne|]. split; [right; exact Ha|exact Hb]. }
      split.
      { intros i j x Hi Hj Hxi Hxj Hne.
        destruct (Nat.eq_dec k i) as [Hki|Hki]; destruct (Nat.eq_dec k j) as [Hkj|Hkj]; subst; try reflexivity.
        - exfalso. assert (x = nm) by congruence. subst x. apply Em.
          apply (Hheld j nm); [lia|exact Hxj|exact Hne].
        - exfalso. assert (x = nm) by congruence. subst x. apply Em.
          apply (Hheld i nm); [lia|exact Hxi|exact Hne].
        - apply (Hinj i j x); try assumption; lia. }
      split.
      { intros u [<-|Hu]; [exists k; split; [lia|exact H0]|].
        destruct (Hused u Hu) as [j [Hj Hj0]]. exists j. split; [lia|exact Hj0]. }
      { intros i x Hi Hx Hv Hfst. destruct (Nat.eq_dec k i) as [E|Hki]; [subst i|].
        - congruence.
        - apply Hfirst; [lia|exact Hx|exact Hv|exact Hfst]. }
  Qed.

  Lemma CP_init : forall names0, CP names0 0 (names0, []).
  Proof.
    intros names0. unfold CP. cbn [fst snd].
    split; [reflexivity|]. split; [reflexivity|].
    split; [intros; lia|]. split; [intros; lia|]. split; [intros u []|intros; lia].
  Qed.

  Lemma cff_keep_good : forall names0,
    good (CP names0 (length names0)) (ofold (cff_keep_step is_valid) (seq 0 (length names0)) (names0, [])).
  Proof.
    intros names0.
    apply (ofold_seq_good (cff_keep_step is_valid) (CP names0) (length names0) 0 (names0, [])).
    - intros i s _ H. apply cff_keep_step_good. exact H.
    - apply CP_init.
  Qed.

  Lemma cff_keep_not_panic : forall names0,
    ofold (cff_keep_step is_valid) (seq 0 (length names0)) (names0, []) <> Panic.
  Proof.
    intros names0.
    apply (ofold_seq_not_panic (cff_keep_step is_valid) (CP names0) (length names0) 0 (names0, [])).
    - intros i s _ H. apply cff_keep_step_good. exact H.
    - intros i [names used] Hi (Hl & _). cbn [fst] in Hl. unfold cff_keep_step.
      destruct (get_cases names (N.of_nat i)) as [[x [E _]]|[_ Hlen]].
      + rewrite E. cbn [obind]. destruct (negb (is_valid x) || mem x used); discriminate.
      + rewrite Nat2N.id in Hlen. lia.
    - apply CP_init.
  Qed.

  (* every name present is valid *)
  Definition all_valid (names : list name) : Prop :=
    forall i nm, nth_error names i = Some nm -> nm <> [] -> is_valid nm = true.

  Lemma CP_Inv : forall names0 s, CP names0 (length names0) s -> Inv (fst s) s /\ all_valid (fst s).
  Proof.
    intros names0 [names used] (Hl & _ & Hheld & Hinj & _). cbn [fst snd] in *.
    split; [split; [apply ext_refl|]; cbn [fst snd]; split|].
    - intros i nm Hi Hne. apply (Hheld i nm); [|exact Hi|exact Hne].
      rewrite <- Hl. exact (nth_error_lt _ _ _ Hi).
    - intros i j nm Hi Hj Hne. apply (Hinj i j nm); try assumption; rewrite <- Hl;
        eapply nth_error_lt; eassumption.
    - intros i nm Hi Hne. apply (Hheld i nm); [|exact Hi|exact Hne].
      rewrite <- Hl. exact (nth_error_lt _ _ _ Hi).
  Qed.

  (* ---- the text pass ---- *)
  Lemma alt_loop_fuel_find_free : forall fuel used base try,
    alt_loop is_valid fuel used base try = OutOfFuel ->
    find_free (alt_name base) fuel used try = OutOfFuel.
  Proof.
    intros fuel. induction fuel as [|fuel IH]; intros used base try H; cbn [alt_loop find_free] in *.
    - reflexivity.
    - destruct (negb (is_valid (alt_name base try))); [discriminate|].
      destruct (mem (alt_name base try) used); [|discriminate]. apply IH. exact H.
  Qed.

  Lemma alt_loop_spec : forall fuel used base try,
    good (fun r => match r with
                   | Some v => ~ In v used /\ is_valid v = true
                   | None => True
                   end) (alt_loop is_valid fuel used base try) \/
    alt_loop is_valid fuel used base try = OutOfFuel.
  Proof.
    intros fuel. induction fuel as [|fuel IH]; intros used base try; cbn [alt_loop].
    - right. reflexivity.
    - destruct (negb (is_valid (alt_name base try))) eqn:Ev; [left; exact I|].
      apply negb_false_iff in Ev.
      destruct (mem (alt_name base try) used) eqn:Em; [apply IH|].
      left. cbn. split; [apply mem_false; exact Em|exact Ev].
  Qed.

  (* the .altN loop terminates within |used|+1 rounds *)
  Lemma alt_loop_good : forall used base try,
    good (fun r => match r with
                   | Some v => ~ In v used /\ is_valid v = true
                   | None => True
                   end) (alt_loop is_valid (S (length used)) used base try).
  Proof.
    intros used base try. destruct (alt_loop_spec (S (length used)) used base try) as [H|H]; [exact H|].
    exfalso. apply alt_loop_fuel_find_free in H.
    exact (find_free_fuel (alt_name base) used try (alt_name_inj base) H).
  Qed.

  Lemma alt_loop_not_panic : forall fuel used base try, alt_loop is_valid fuel used base try <> Panic.
  Proof.
    intros fuel. induction fuel as [|fuel IH]; intros used base try; cbn [alt_loop]; [discriminate|].
    destruct (negb (is_valid (alt_name base try))); [discriminate|].
    destruct (mem (alt_name base try) used); [apply IH|discriminate].
  Qed.

  Definition InvV (b : list name) (s : st) : Prop := Inv b s /\ all_valid (fst s).

  Lemma all_valid_set : forall names i v,
    all_valid names -> is_valid v = true -> all_valid (set_nth i v names).
  Proof.
    intros names i v Ha Hv j nm Hj Hne. destruct (Nat.eq_dec i j) as [E|Hij]; [subst j|].
    - pose proof (nth_error_lt _ _ _ Hj) as Hlt. rewrite set_nth_length in Hlt.
      rewrite set_nth_same in Hj by exact Hlt. congruence.
    - rewrite set_nth_other in Hj by exact Hij. apply (Ha j); assumption.
  Qed.

  Lemma cff_text_step_good : forall b tx i s,
    InvV b s -> good (InvV b) (cff_text_step from_text is_valid tx i s).
  Proof.
    intros b tx i [names used] [HI HV]. unfold cff_text_step.
    eapply good_bind; [apply good_get|]. intros nm _ Hnm. rewrite Nat2N.id in Hnm.
    destruct (nonempty nm) eqn:En; [split; assumption|]. apply nonempty_false in En. subst nm.
    destruct (nonempty (nth i tx [])); cbn [negb]; [|split; assumption].
    eapply good_bind; [apply alt_loop_good|].
    intros [v|] _ Hv; [|split; assumption]. destruct Hv as [Hnot Hval].
    cbn [good]. unfold set. rewrite Nat2N.id. split.
    - apply Inv_assign; assumption.
    - cbn [fst] in *. apply all_valid_set; assumption.
  Qed.

  Lemma cff_text_step_not_panic : forall b tx i s,
    InvV b s -> i < length b -> cff_text_step from_text is_valid tx i s <> Panic.
  Proof.
    intros b tx i [names used] [HI _] Hi. pose proof (Inv_length b _ HI) as Hl. cbn [fst] in Hl.
    unfold cff_text_step.
    apply obind_not_panic; [apply get_in_range; rewrite Nat2N.id; lia|]. intros nm _.
    destruct (nonempty nm); [discriminate|].
    destruct (nonempty (nth i tx [])); cbn [negb]; [|discriminate].
    destruct (good_ok_ex _ _ (alt_loop_good used (from_text (nth i tx [])) 0%N)
                         (alt_loop_not_panic _ used _ 0%N)) as [r [E _]].
    rewrite E. cbn [obind]. destruct r; discriminate.
  Qed.

  (* ---- the placeholder pass keeps validity when the placeholders are valid ---- *)
  Lemma orn_step_valid : forall k sk,
    (forall c, is_valid (orn_name c) = true) ->
    all_valid (fst (fst sk)) -> good (fun sk' => all_valid (fst (fst sk'))) (orn_step k sk).
  Proof.
    intros k [[names used] c] Horn HV. cbn [fst] in HV. unfold orn_step.
    eapply good_bind; [apply good_get|]. intros nm _ _.
    destruct (nonempty nm); [exact HV|].
    eapply good_bind; [apply (find_free_good orn_name used c orn_name_inj)|].
    intros [v c'] _ [_ [j Hj]]. cbn [fst snd good] in *. unfold set.
    apply all_valid_set; [exact HV|]. rewrite Hj. apply Horn.
  Qed.

  Lemma orn_pass_valid : forall s,
    (forall c, is_valid (orn_name c) = true) ->
    all_valid (fst s) -> good all_valid (orn_pass s).
  Proof.
    intros s Horn HV. unfold orn_pass.
    eapply good_bind with (Q := fun sk => all_valid (fst (fst sk))).
    - apply ofold_good; [|exact HV]. intros x t _ Ht. apply orn_step_valid; assumption.
    - intros r _ Hr. exact Hr.
  Qed.

  (* ---- the whole function ---- *)
  Definition cff_names0 (existing : list name) : list name := set existing 0 notdef.

  Definition cff_result_ok (existing names : list name) : Prop :=
    length names = length existing /\
    (forall nm, In nm names -> nm <> []) /\
    NoDup names /\
    (is_valid notdef = true -> nth_error names 0 = Some notdef) /\
    (forall i nm, nth_error (cff_names0 existing) i = Some nm -> nm <> [] -> is_valid nm = true ->
       (forall j, j < i -> nth_error (cff_names0 existing) j <> Some nm) ->
       nth_error names i = Some nm) /\
    ((forall c, is_valid (orn_name c) = true) -> forall nm, In nm names -> is_valid nm = true).

  Lemma cff_names0_length : forall existing, length (cff_names0 existing) = length existing.
  Proof. intros. unfold cff_names0, set. apply set_nth_length. Qed.

  (* what the two first passes establish, shared by the lemmas below *)
  Definition mid (existing : list name) (texts : option (list (list N))) (s1 : st) : outcome st :=
    match texts with
    | Some tx => ofold (cff_text_step from_text is_valid tx) (seq 0 (length existing)) s1
    | None => Ok s1
    end.

  Lemma mid_good : forall existing texts s1,
    InvV (fst s1) s1 -> good (InvV (fst s1)) (mid existing texts s1).
  Proof.
    intros existing texts s1 H. unfold mid. destruct texts as [tx|]; [|exact H].
    apply ofold_good; [|exact H]. intros x t _ Ht. apply cff_text_step_good. exact Ht.
  Qed.

  Lemma cff_make_names_good : forall existing texts,
    good (cff_result_ok existing) (M_cff_make_names from_text is_valid existing texts).
  Proof.
    intros existing texts. unfold M_cff_make_names.
    destruct existing as [|e0 er] eqn:Eex; [exact I|]. rewrite <- Eex. cbv zeta.
    assert (Hpos : 0 < length existing) by (rewrite Eex; cbn; lia). clear Eex e0 er.
    change (set existing 0 notdef) with (cff_names0 existing).
    pose proof (cff_names0_length existing) as Hl0.
    rewrite <- Hl0 at 1.
    eapply good_bind; [apply cff_keep_good|].
    intros s1 _ HCP.
    destruct (CP_Inv _ _ HCP) as [HI1 HV1].
    destruct HCP as (Hl1 & _ & _ & _ & _ & Hfirst). rewrite Hl0 in Hfirst.
    assert (H00 : nth_error (cff_names0 existing) 0 = Some notdef).
    { unfold cff_names0, set. apply set_nth_same. exact Hpos. }
    fold (mid existing texts s1).
    eapply good_bind; [apply mid_good; split; assumption|].
    intros s2 _ [HI2 HV2].
    pose proof (orn_pass_good (fst s1) s2 HI2) as G1.
    destruct (orn_pass s2) as [names| | |] eqn:Eo; cbn [good] in *; try contradiction; try exact I.
    destruct G1 as [[Hlen Hext] [Hinj Hfill]]. rewrite <- Hlen in Hfill.
    split; [rewrite Hlen, Hl1; exact Hl0|].
    split; [apply filled_all_nonempty; exact Hfill|].
    split; [apply filled_inj_NoDup; assumption|].
    split.
    { intros Hnd. apply Hext; [|exact notdef_nonempty].
      apply Hfirst; [exact Hpos|exact H00|exact Hnd|intros j Hj; lia]. }
    split.
    { intros i nm Hi Hne Hv Hfst. apply Hext; [|exact Hne].
      apply Hfirst; [|exact Hi|exact Hv|exact Hfst].
      rewrite <- Hl0. exact (nth_error_lt _ _ _ Hi). }
    intros Horn nm Hin.
    pose proof (orn_pass_valid s2 Horn HV2) as G2. rewrite Eo in G2. cbn [good] in G2.
    apply In_nth_error in Hin. destruct Hin as [i Hi].
    apply (G2 i nm Hi). apply (filled_all_nonempty names Hfill). eapply nth_error_In. exact Hi.
  Qed.

  (* MakeSimple never indexes out of range on a font with a glyph 0 *)
  Lemma cff_make_names_not_panic : forall existing texts,
    existing <> [] -> M_cff_make_names from_text is_valid existing texts <> Panic.
  Proof.
    intros existing texts Hne. unfold M_cff_make_names.
    destruct existing as [|e0 er] eqn:Eex; [congruence|]. rewrite <- Eex. cbv zeta. clear Hne.
    assert (Hpos : 0 < length existing) by (rewrite Eex; cbn; lia). clear Eex e0 er.
    change (set existing 0 notdef) with (cff_names0 existing).
    pose proof (cff_names0_length existing) as Hl0.
    rewrite <- Hl0 at 1.
    destruct (good_ok_ex _ _ (cff_keep_good (cff_names0 existing)) (cff_keep_not_panic _)) as [s1 [E HCP]].
    rewrite E. cbn [obind].
    destruct (CP_Inv _ _ HCP) as [HI1 HV1].
    assert (Hl1 : length (fst s1) = length existing) by (destruct HCP as [H _]; rewrite H; exact Hl0).
    fold (mid existing texts s1).
    assert (N2 : mid existing texts s1 <> Panic).
    { unfold mid. destruct texts as [tx|]; [|discriminate].
      apply (ofold_not_panic (cff_text_step from_text is_valid tx) (InvV (fst s1))); [| |split; assumption].
      - intros x t _ Ht. apply cff_text_step_good. exact Ht.
      - intros x t Hx Ht. apply (cff_text_step_not_panic (fst s1)); [exact Ht|].
        apply in_seq in Hx. lia. }
    destruct (good_ok_ex _ _ (mid_good existing texts s1 (conj HI1 HV1)) N2) as [s2 [E2 [HI2 _]]].
    rewrite E2. cbn [obind]. apply (orn_pass_not_panic (fst s1)). exact HI2.
  Qed.

  (* ---- converting again changes nothing ---- *)
  Lemma ofold_const : forall {X S} (f : X -> S -> outcome S) xs s,
    (forall x, In x xs -> f x s = Ok s) -> ofold f xs s = Ok s.
  Proof.
    intros X S f xs s. induction xs as [|x r IH]; intros H; cbn [ofold]; [reflexivity|].
    rewrite (H x (or_introl eq_refl)). cbn [obind]. apply IH. intros y Hy. apply H. right. exact Hy.
  Qed.

  Lemma cff_make_names_fixpoint : forall (names : list name) texts,
    names <> [] -> (forall nm : name, In nm names -> nm <> [] /\ is_valid nm = true) -> NoDup names ->
    nth_error names 0 = Some notdef ->
    M_cff_make_names from_text is_valid names texts = Ok names.
  Proof.
    intros names texts Hnn Hall Hnd H0. unfold M_cff_make_names.
    destruct names as [|e0 er] eqn:Eex; [congruence|]. rewrite <- Eex in *. cbv zeta. clear Hnn.
    clear Eex e0 er.
    assert (Hinit : set names 0 notdef = names) by (unfold set; apply set_nth_id; exact H0).
    rewrite Hinit.
    destruct (good_ok_ex _ _ (cff_keep_good names) (cff_keep_not_panic names)) as [s1 [E HCP]].
    rewrite E. cbn [obind].
    destruct HCP as (Hl1 & _ & _ & _ & _ & Hfirst).
    assert (Hs1 : fst s1 = names).
    { apply nth_error_eq_ext. intros i. destruct (nth_error names i) as [nm|] eqn:Ei.
      - apply Hfirst; [exact (nth_error_lt _ _ _ Ei)|exact Ei|apply Hall; eapply nth_error_In; exact Ei|].
        intros j Hj Hjn. rewrite NoDup_nth_error in Hnd.
        assert (j = i); [|lia]. apply Hnd; [|congruence].
        pose proof (nth_error_lt _ _ _ Ei). lia.
      - apply nth_error_None. rewrite Hl1. apply nth_error_None. exact Ei. }
    assert (Hget : forall i, i < length names ->
              exists nm, get (fst s1) (N.of_nat i) = Ok nm /\ nonempty nm = true).
    { intros i Hi. rewrite Hs1. destruct (nth_error names i) as [nm|] eqn:Ei.
      - exists nm. split; [apply get_ok; rewrite Nat2N.id; exact Ei|].
        apply nonempty_true. apply Hall. eapply nth_error_In. exact Ei.
      - apply nth_error_None in Ei. lia. }
    assert (E2 : match texts with
                 | Some tx => ofold (cff_text_step from_text is_valid tx) (seq 0 (length names)) s1
                 | None => Ok s1 end = Ok s1).
    { destruct texts as [tx|]; [|reflexivity]. apply ofold_const. intros i Hi. apply in_seq in Hi.
      destruct s1 as [n1 u1]. unfold cff_text_step. destruct (Hget i) as [nm [Eg En]]; [lia|].
      cbn [fst] in Eg. rewrite Eg. cbn [obind]. rewrite En. reflexivity. }
    rewrite E2. cbn [obind]. unfold orn_pass.
    rewrite (ofold_const orn_step (seq 0 (length (fst s1))) (s1, 1%N)).
    - cbn [obind fst]. rewrite Hs1. reflexivity.
    - intros i Hi. apply in_seq in Hi. rewrite Hs1 in Hi.
      destruct s1 as [n1 u1]. unfold orn_step. destruct (Hget i) as [nm [Eg En]]; [lia|].
      cbn [fst] in Eg. rewrite Eg. cbn [obind]. rewrite En. reflexivity.
  Qed.
End Cff.

(* ---- the clauses, in the form Props.v states them ---- *)
Lemma cff_ok : forall ft iv existing texts names,
  M_cff_make_names ft iv existing texts = Ok names -> cff_result_ok iv existing names.
Proof. intros. eapply good_ok; [apply cff_make_names_good|eassumption]. Qed.

Lemma cff_total : forall ft iv existing texts,
  existing <> [] -> exists names, M_cff_make_names ft iv existing texts = Ok names.
Proof.
  intros ft iv existing texts Hne.
  destruct (good_ok_ex _ _ (cff_make_names_good ft iv existing texts)
                       (cff_make_names_not_panic ft iv existing texts Hne)) as [names [E _]].
  exists names. exact E.
Qed.

Lemma cff_kept_unique : forall ft iv existing texts names i nm,
  M_cff_make_names ft iv existing texts = Ok names ->
  nth_error existing i = Some nm -> nm <> [] -> iv nm = true -> i <> 0 -> nm <> notdef ->
  (forall j, j <> i -> nth_error existing j <> Some nm) ->
  nth_error names i = Some nm.
Proof.
  intros ft iv existing texts names i nm HM Hi Hne Hv Hi0 Hnd Huniq.
  destruct (cff_ok _ _ _ _ _ HM) as (_ & _ & _ & _ & Hk & _).
  assert (Hoth : forall j, j <> 0 -> nth_error (cff_names0 existing) j = nth_error existing j).
  { intros j Hj. unfold cff_names0, set. apply set_nth_other. cbn. lia. }
  apply Hk; [rewrite Hoth by exact Hi0; exact Hi|exact Hne|exact Hv|].
  intros j Hj Hjn. destruct (Nat.eq_dec j 0) as [E|Hj0]; [subst j|].
  - unfold cff_names0, set in Hjn. cbn [N.to_nat] in Hjn.
    pose proof (nth_error_lt _ _ _ Hjn) as Hlt. rewrite set_nth_length in Hlt.
    rewrite set_nth_same in Hjn by exact Hlt. congruence.
  - rewrite Hoth in Hjn by exact Hj0. apply (Huniq j); [lia|exact Hjn].
Qed.

Lemma cff_idempotent : forall ft iv existing texts names texts',
  iv notdef = true -> (forall c, iv (orn_name c) = true) ->
  M_cff_make_names ft iv existing texts = Ok names ->
  M_cff_make_names ft iv names texts' = Ok names.
Proof.
  intros ft iv existing texts names texts' Hnd Horn HM.
  destruct (cff_ok _ _ _ _ _ HM) as (Hl & Hne & Hdup & H0 & _ & Hval).
  apply cff_make_names_fixpoint.
  - intros E. subst names. specialize (H0 Hnd). discriminate.
  - intros nm Hin. split; [apply Hne; exact Hin|apply Hval; assumption].
  - exact Hdup.
  - apply H0. exact Hnd.
Qed.

Lemma cff_outcome : forall ft iv existing texts,
  M_cff_make_names ft iv existing texts <> OutOfFuel /\ M_cff_make_names ft iv existing texts <> Err.
Proof.
  intros. split; [eapply good_not_fuel|eapply good_not_err]; apply cff_make_names_good.
Qed.
