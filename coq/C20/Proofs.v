(* C20/Proofs.v — MakeGlyphNames (sfnt): the invariant carried through all
   passes, completeness/uniqueness, kept names, termination, totality,
   idempotence. *)
From Coq Require Import List NArith Bool Arith Lia.
From Common Require Import Outcome.
From C20 Require Import Model Util.
Import ListNotations.

(* names = b wherever b has a name *)
Definition ext (b names : list name) : Prop :=
  length names = length b /\
  forall i nm, nth_error b i = Some nm -> nm <> [] -> nth_error names i = Some nm.
(* every name handed out is recorded in used *)
Definition held (names used : list name) : Prop :=
  forall i nm, nth_error names i = Some nm -> nm <> [] -> In nm used.
(* no name is given to two glyphs *)
Definition inj_ne (names : list name) : Prop :=
  forall i j nm, nth_error names i = Some nm -> nth_error names j = Some nm -> nm <> [] -> i = j.

Definition Inv (b : list name) (s : st) : Prop :=
  ext b (fst s) /\ held (fst s) (snd s) /\ inj_ne (fst s).

Lemma ext_refl : forall b, ext b b.
Proof. intros b. split; auto. Qed.

Lemma Inv_length : forall b s, Inv b s -> length (fst s) = length b.
Proof. intros b s [[H _] _]. exact H. Qed.

(* the only way a pass changes the state: a glyph without a name gets a name
   that is not in used *)
Lemma Inv_assign : forall b names used i v,
  Inv b (names, used) -> nth_error names i = Some [] -> ~ In v used ->
  Inv b (set_nth i v names, v :: used).
Proof.
  intros b names used i v [[Hl He] [Hh Hi]] Hn Hv. cbn [fst snd] in *.
  pose proof (nth_error_lt _ _ _ Hn) as Hlt.
  split; [split|split]; cbn [fst snd].
  - rewrite set_nth_length. exact Hl.
  - intros j nm Hb Hne. destruct (Nat.eq_dec i j) as [E__|Hij]; [subst j|].
    + specialize (He i nm Hb Hne). congruence.
    + rewrite set_nth_other by exact Hij. apply He; assumption.
  - intros j nm Hj Hne. destruct (Nat.eq_dec i j) as [E__|Hij]; [subst j|].
    + rewrite set_nth_same in Hj by exact Hlt. injection Hj as ->. left. reflexivity.
    + rewrite set_nth_other in Hj by exact Hij. right. apply (Hh j); assumption.
  - intros j k nm Hj Hk Hne.
    destruct (Nat.eq_dec i j) as [Eij|Hij]; destruct (Nat.eq_dec i k) as [Eik|Hik].
    + congruence.
    + subst j. rewrite set_nth_same in Hj by exact Hlt. injection Hj as ->.
      rewrite set_nth_other in Hk by exact Hik. exfalso. apply Hv. apply (Hh k); assumption.
    + subst k. rewrite set_nth_same in Hk by exact Hlt. injection Hk as ->.
      rewrite set_nth_other in Hj by exact Hij. exfalso. apply Hv. apply (Hh j); assumption.
    + rewrite set_nth_other in Hj by exact Hij. rewrite set_nth_other in Hk by exact Hik.
      apply (Hi j k nm); assumption.
Qed.

Lemma good_ok_ex : forall {S} (P : S -> Prop) o, good P o -> o <> Panic -> exists s, o = Ok s /\ P s.
Proof. intros S P o H NP. destruct o; cbn in *; try contradiction; try congruence. eauto. Qed.

Lemma get_in_range : forall names g, N.to_nat g < length names -> get names g <> Panic.
Proof.
  intros names g H. destruct (get_cases names g) as [[x [E _]]|[_ Hl]]; [rewrite E; discriminate|lia].
Qed.

Lemma idx_in_range : forall {A} (l : list A) i, N.to_nat i < length l -> idx l i <> Panic.
Proof.
  intros A l i H. destruct (idx_cases l i) as [[x [E _]]|[_ Hl]]; [rewrite E; discriminate|lia].
Qed.

(* ---- glyphNames[newGid] = makeVariant(used, base) ---- *)
Lemma assign_variant_good : forall b newg base s,
  Inv b s -> nth_error (fst s) (N.to_nat newg) = Some [] -> good (Inv b) (assign_variant newg base s).
Proof.
  intros b newg base [names used] HI Hn. cbn [fst] in Hn. unfold assign_variant.
  eapply good_bind; [apply make_variant_good|].
  intros [nm u'] _ [Hu [Hnot _]]. cbn [fst snd] in *. subst u'.
  pose proof (nth_error_lt _ _ _ Hn) as Hlt.
  apply Nat.ltb_lt in Hlt. rewrite Hlt. cbn [good]. unfold set.
  apply Inv_assign; assumption.
Qed.

Lemma assign_variant_not_panic : forall newg base s,
  N.to_nat newg < length (fst s) -> assign_variant newg base s <> Panic.
Proof.
  intros newg base [names used] Hlt. cbn [fst] in Hlt. unfold assign_variant.
  destruct (good_ok_ex _ _ (make_variant_good used base) (make_variant_not_panic used base)) as [r [E _]].
  rewrite E. cbn [obind]. apply Nat.ltb_lt in Hlt. rewrite Hlt. discriminate.
Qed.

(* ---- the first pass (duplicates removed) ---- *)
Definition DP (names0 : list name) (k : nat) (s : st) : Prop :=
  length (fst s) = length names0 /\
  (forall i, k <= i -> nth_error (fst s) i = nth_error names0 i) /\
  (forall i nm, i < k -> nth_error (fst s) i = Some nm -> nm <> [] ->
     In nm (snd s) /\ nth_error names0 i = Some nm) /\
  (forall i j nm, i < k -> j < k -> nth_error (fst s) i = Some nm -> nth_error (fst s) j = Some nm ->
     nm <> [] -> i = j) /\
  (forall u, In u (snd s) -> exists j, j < k /\ nth_error names0 j = Some u) /\
  (forall i nm, i < k -> nth_error names0 i = Some nm ->
     (forall j, j < i -> nth_error names0 j <> Some nm) -> nth_error (fst s) i = Some nm).

Lemma dedup_step_good : forall names0 k s,
  DP names0 k s -> good (DP names0 (S k)) (dedup_step k s).
Proof.
  intros names0 k [names used] (Hl & Hge & Hheld & Hinj & Hused & Hfirst). cbn [fst snd] in *.
  unfold dedup_step. eapply good_bind; [apply good_get|].
  intros nm _ Hnm. rewrite Nat2N.id in Hnm.
  pose proof (nth_error_lt _ _ _ Hnm) as Hlt.
  assert (H0 : nth_error names0 k = Some nm) by (rewrite <- Hge by lia; exact Hnm).
  destruct (mem nm used) eqn:Em; cbn [good]; unfold DP; cbn [fst snd].
  - (* duplicate: cleared *)
    apply mem_In in Em. unfold set. rewrite Nat2N.id.
    split; [rewrite set_nth_length; exact Hl|].
    split; [intros i Hi; rewrite set_nth_other by lia; apply Hge; lia|].
    split.
    { intros i x Hi Hx Hne. destruct (Nat.eq_dec k i) as [E__|Hki]; [subst i|].
      - rewrite set_nth_same in Hx by exact Hlt. congruence.
      - rewrite set_nth_other in Hx by exact Hki. apply Hheld; [lia|exact Hx|exact Hne]. }
    split.
    { intros i j x Hi Hj Hxi Hxj Hne.
      destruct (Nat.eq_dec k i) as [E__|Hki]; [subst i|]; [rewrite set_nth_same in Hxi by exact Hlt; congruence|].
      destruct (Nat.eq_dec k j) as [E__|Hkj]; [subst j|]; [rewrite set_nth_same in Hxj by exact Hlt; congruence|].
      rewrite set_nth_other in Hxi by exact Hki. rewrite set_nth_other in Hxj by exact Hkj.
      apply (Hinj i j x); try assumption; lia. }
    split.
    { intros u Hu. destruct (Hused u Hu) as [j [Hj Hj0]]. exists j. split; [lia|exact Hj0]. }
    { intros i x Hi Hx Hfst. destruct (Nat.eq_dec k i) as [E__|Hki]; [subst i|].
      - exfalso. assert (x = nm) by congruence. subst x.
        destruct (Hused nm Em) as [j [Hj Hj0]]. exact (Hfst j Hj Hj0).
      - rewrite set_nth_other by exact Hki. apply Hfirst; [lia|exact Hx|exact Hfst]. }
  - (* first occurrence: recorded *)
    apply mem_false in Em.
    split; [exact Hl|].
    split; [intros i Hi; apply Hge; lia|].
    split.
    { intros i x Hi Hx Hne. destruct (Nat.eq_dec k i) as [E__|Hki]; [subst i|].
      - assert (x = nm) by congruence. subst x. split; [left; reflexivity|exact H0].
      - destruct (Hheld i x) as [Ha Hb]; [lia|exact Hx|exact Hne|]. split; [right; exact Ha|exact Hb]. }
    split.
    { intros i j x Hi Hj Hxi Hxj Hne.
      destruct (Nat.eq_dec k i) as [Hki|Hki]; destruct (Nat.eq_dec k j) as [Hkj|Hkj]; subst; try reflexivity.
      - exfalso. assert (x = nm) by congruence. subst x. apply Em.
        apply (Hheld j nm); [lia|exact Hxj|exact Hne].
      - exfalso. assert (x = nm) by congruence. subst x. apply Em.
        apply (Hheld i nm); [lia|exact Hxi|exact Hne].
      - apply (Hinj i j x); try assumption; lia. }
    split.
    { intros u [<-|Hu]; [exists k; split; [lia|exact H0]|].
      destruct (Hused u Hu) as [j [Hj Hj0]]. exists j. split; [lia|exact Hj0]. }
    { intros i x Hi Hx Hfst. destruct (Nat.eq_dec k i) as [E__|Hki]; [subst i|].
      - congruence.
      - apply Hfirst; [lia|exact Hx|exact Hfst]. }
Qed.

Lemma DP_init : forall names0, DP names0 0 (names0, []).
Proof.
  intros names0. unfold DP. cbn [fst snd].
  split; [reflexivity|]. split; [reflexivity|].
  split; [intros; lia|]. split; [intros; lia|]. split; [intros u []|intros; lia].
Qed.

Lemma dedup_good : forall names0,
  good (DP names0 (length names0)) (ofold dedup_step (seq 0 (length names0)) (names0, [])).
Proof.
  intros names0.
  apply (ofold_seq_good dedup_step (DP names0) (length names0) 0 (names0, [])).
  - intros i s _ H. apply dedup_step_good. exact H.
  - apply DP_init.
Qed.

Lemma dedup_not_panic : forall names0,
  ofold dedup_step (seq 0 (length names0)) (names0, []) <> Panic.
Proof.
  intros names0.
  apply (ofold_seq_not_panic dedup_step (DP names0) (length names0) 0 (names0, [])).
  - intros i s _ H. apply dedup_step_good. exact H.
  - intros i [names used] Hi (Hl & _). cbn [fst] in Hl. unfold dedup_step.
    destruct (get_cases names (N.of_nat i)) as [[x [E _]]|[_ Hlen]].
    + rewrite E. cbn [obind]. destruct (mem x used); discriminate.
    + rewrite Nat2N.id in Hlen. lia.
  - apply DP_init.
Qed.

Lemma DP_Inv : forall names0 s, DP names0 (length names0) s -> Inv (fst s) s.
Proof.
  intros names0 [names used] (Hl & _ & Hheld & Hinj & _). cbn [fst snd] in *.
  split; [apply ext_refl|]. cbn [fst snd]. split.
  - intros i nm Hi Hne. apply (Hheld i nm); [|exact Hi|exact Hne].
    rewrite <- Hl. exact (nth_error_lt _ _ _ Hi).
  - intros i j nm Hi Hj Hne. apply (Hinj i j nm); try assumption; rewrite <- Hl;
      eapply nth_error_lt; eassumption.
Qed.

(* ---- the cmap pass ---- *)
Lemma cmap_step_good : forall fu b e s, Inv b s -> good (Inv b) (cmap_step fu e s).
Proof.
  intros fu b [r g] [names used] HI. unfold cmap_step.
  destruct (length names <=? N.to_nat g); [exact HI|].
  eapply good_bind; [apply good_get|]. intros cur _ Hcur.
  destruct (nonempty cur) eqn:En; [exact HI|]. apply nonempty_false in En. subst cur.
  destruct (mem (fu r) used) eqn:Em; [exact HI|]. apply mem_false in Em.
  cbn [good]. unfold set. apply Inv_assign; assumption.
Qed.

Lemma cmap_step_not_panic : forall fu e s, cmap_step fu e s <> Panic.
Proof.
  intros fu [r g] [names used]. unfold cmap_step.
  destruct (length names <=? N.to_nat g) eqn:El; [discriminate|].
  apply Nat.leb_gt in El.
  destruct (get_cases names g) as [[x [E _]]|[_ Hl]]; [|lia].
  rewrite E. cbn [obind]. destruct (nonempty x); [discriminate|].
  destruct (mem (fu r) used); discriminate.
Qed.

(* ---- the GSUB pass ---- *)
Lemma g11_step_good : forall b delta orig s, Inv b s -> good (Inv b) (g11_step delta orig s).
Proof.
  intros b delta orig s HI. unfold g11_step.
  eapply good_bind; [apply good_get|]. intros o _ Ho.
  destruct (nonempty o); cbn [negb]; [|exact HI].
  eapply good_bind; [apply good_get|]. intros nw _ Hnw.
  destruct (nonempty nw) eqn:En; [exact HI|]. apply nonempty_false in En. subst nw.
  apply assign_variant_good; assumption.
Qed.

Lemma g12_step_good : forall b subst e s, Inv b s -> good (Inv b) (g12_step subst e s).
Proof.
  intros b subst e s HI. unfold g12_step.
  eapply good_bind; [apply good_idx|]. intros newg _ _.
  eapply good_bind; [apply good_get|]. intros o _ Ho.
  destruct (nonempty o); cbn [negb]; [|exact HI].
  eapply good_bind; [apply good_get|]. intros nw _ Hnw.
  destruct (nonempty nw) eqn:En; [exact HI|]. apply nonempty_false in En. subst nw.
  apply assign_variant_good; assumption.
Qed.

Lemma g31_alt_step_good : forall b orig newg s, Inv b s -> good (Inv b) (g31_alt_step orig newg s).
Proof.
  intros b orig newg s HI. unfold g31_alt_step.
  eapply good_bind; [apply good_get|]. intros nw _ Hnw.
  destruct (nonempty nw) eqn:En; [exact HI|]. apply nonempty_false in En. subst nw.
  eapply good_bind; [apply good_get|]. intros o _ _.
  apply assign_variant_good; assumption.
Qed.

Lemma g31_step_good : forall b alts e s, Inv b s -> good (Inv b) (g31_step alts e s).
Proof.
  intros b alts e s HI. unfold g31_step.
  eapply good_bind; [apply good_get|]. intros o _ _.
  destruct (nonempty o); cbn [negb]; [|exact HI].
  eapply good_bind; [apply good_idx|]. intros al _ _.
  apply ofold_good; [|exact HI]. intros x t _ Ht. apply g31_alt_step_good. exact Ht.
Qed.

Lemma collect_good : forall names ins, good (fun _ => True) (collect names ins).
Proof.
  intros names ins. induction ins as [|g r IH]; cbn [collect]; [exact I|].
  eapply good_bind; [apply good_get|]. intros nm _ _.
  destruct (nonempty nm); [|exact I].
  eapply good_bind; [exact IH|]. intros rest _ _. exact I.
Qed.

Lemma g41_lig_step_good : forall b first lig s, Inv b s -> good (Inv b) (g41_lig_step true first lig s).
Proof.
  intros b first lig s HI. unfold g41_lig_step.
  eapply good_bind; [apply good_get|]. intros cur _ Hcur.
  destruct (nonempty cur) eqn:En; [exact HI|]. apply nonempty_false in En. subst cur.
  eapply good_bind; [apply collect_good|]. intros c _ _.
  destruct c as [nn|]; [|exact HI].
  apply assign_variant_good; assumption.
Qed.

Lemma g41_step_good : forall b repl e s, Inv b s -> good (Inv b) (g41_step true repl e s).
Proof.
  intros b repl e s HI. unfold g41_step.
  eapply good_bind; [apply good_get|]. intros o _ _.
  destruct (nonempty o); cbn [negb]; [|exact HI].
  eapply good_bind; [apply good_idx|]. intros ligs _ _.
  apply ofold_good; [|exact HI]. intros x t _ Ht. apply g41_lig_step_good. exact Ht.
Qed.

Lemma subtable_step_good : forall b t s, Inv b s -> good (Inv b) (subtable_step true t s).
Proof.
  intros b t s HI. destruct t; cbn [subtable_step].
  - apply ofold_good; [|exact HI]. intros x u _ Hu. apply g11_step_good. exact Hu.
  - apply ofold_good; [|exact HI]. intros x u _ Hu. apply g12_step_good. exact Hu.
  - apply ofold_good; [|exact HI]. intros x u _ Hu. apply g31_step_good. exact Hu.
  - apply ofold_good; [|exact HI]. intros x u _ Hu. apply g41_step_good. exact Hu.
  - exact HI.
Qed.

(* ---- "referring to existing glyphs" ---- *)
Definition in_range (n : nat) (g : N) : Prop := N.to_nat g < n.

Definition wf_subtable (n : nat) (t : subtable) : Prop :=
  match t with
  | G11 cov delta =>
      forall g, In g cov -> in_range n g /\ in_range n ((g + delta) mod 65536)%N
  | G12 cov subst =>
      (forall e, In e cov -> in_range n (fst e) /\ N.to_nat (snd e) < length subst) /\
      (forall g, In g subst -> in_range n g)
  | G31 cov alts =>
      (forall e, In e cov -> in_range n (fst e) /\ N.to_nat (snd e) < length alts) /\
      (forall a g, In a alts -> In g a -> in_range n g)
  | G41 cov repl =>
      (forall e, In e cov -> in_range n (fst e) /\ N.to_nat (snd e) < length repl) /\
      (forall ls lg, In ls repl -> In lg ls ->
         in_range n (lig_out lg) /\ forall g, In g (lig_in lg) -> in_range n g)
  | GOther => True
  end.

Lemma g11_step_not_panic : forall b delta orig s,
  Inv b s -> in_range (length b) orig -> in_range (length b) ((orig + delta) mod 65536)%N ->
  g11_step delta orig s <> Panic.
Proof.
  intros b delta orig s HI Ho Hn. unfold in_range in *. rewrite <- (Inv_length b s HI) in Ho, Hn.
  unfold g11_step.
  apply obind_not_panic; [apply get_in_range; exact Ho|]. intros o _.
  destruct (nonempty o); cbn [negb]; [|discriminate].
  apply obind_not_panic; [apply get_in_range; exact Hn|]. intros nw _.
  destruct (nonempty nw); [discriminate|]. apply assign_variant_not_panic. exact Hn.
Qed.

Lemma g12_step_not_panic : forall b subst e s,
  Inv b s -> in_range (length b) (fst e) -> N.to_nat (snd e) < length subst ->
  (forall g, In g subst -> in_range (length b) g) ->
  g12_step subst e s <> Panic.
Proof.
  intros b subst e s HI Ho Hidx Hsub. unfold in_range in *. rewrite <- (Inv_length b s HI) in Ho.
  unfold g12_step.
  destruct (idx_cases subst (snd e)) as [[newg [E Hnth]]|[_ Hl]]; [|lia].
  rewrite E. cbn [obind].
  assert (Hn : N.to_nat newg < length (fst s)).
  { rewrite (Inv_length b s HI). apply Hsub. eapply nth_error_In. exact Hnth. }
  apply obind_not_panic; [apply get_in_range; exact Ho|]. intros o _.
  destruct (nonempty o); cbn [negb]; [|discriminate].
  apply obind_not_panic; [apply get_in_range; exact Hn|]. intros nw _.
  destruct (nonempty nw); [discriminate|]. apply assign_variant_not_panic. exact Hn.
Qed.

Lemma g31_alt_step_not_panic : forall b orig newg s,
  Inv b s -> in_range (length b) orig -> in_range (length b) newg ->
  g31_alt_step orig newg s <> Panic.
Proof.
  intros b orig newg s HI Ho Hn. unfold in_range in *. rewrite <- (Inv_length b s HI) in Ho, Hn.
  unfold g31_alt_step.
  apply obind_not_panic; [apply get_in_range; exact Hn|]. intros nw _.
  destruct (nonempty nw); [discriminate|].
  apply obind_not_panic; [apply get_in_range; exact Ho|]. intros o _.
  apply assign_variant_not_panic. exact Hn.
Qed.

Lemma g31_step_not_panic : forall b alts e s,
  Inv b s -> in_range (length b) (fst e) -> N.to_nat (snd e) < length alts ->
  (forall a g, In a alts -> In g a -> in_range (length b) g) ->
  g31_step alts e s <> Panic.
Proof.
  intros b alts e s HI Ho Hidx Halts. unfold g31_step.
  apply obind_not_panic.
  { apply get_in_range. rewrite (Inv_length b s HI). exact Ho. }
  intros o _. destruct (nonempty o); cbn [negb]; [|discriminate].
  destruct (idx_cases alts (snd e)) as [[al [E Hnth]]|[_ Hl]]; [|lia].
  rewrite E. cbn [obind].
  apply (ofold_not_panic (g31_alt_step (fst e)) (Inv b)); [| |exact HI].
  - intros x t _ Ht. apply g31_alt_step_good. exact Ht.
  - intros x t Hx Ht. apply (g31_alt_step_not_panic b); [exact Ht|exact Ho|].
    apply (Halts al x); [eapply nth_error_In; exact Hnth|exact Hx].
Qed.

Lemma collect_not_panic : forall names ins,
  (forall g, In g ins -> N.to_nat g < length names) -> collect names ins <> Panic.
Proof.
  intros names ins. induction ins as [|g r IH]; intros H; cbn [collect]; [discriminate|].
  apply obind_not_panic; [apply get_in_range; apply H; left; reflexivity|]. intros nm _.
  destruct (nonempty nm); [|discriminate].
  apply obind_not_panic; [apply IH; intros x Hx; apply H; right; exact Hx|].
  intros rest _. discriminate.
Qed.

Lemma g41_lig_step_not_panic : forall b first lig s,
  Inv b s -> in_range (length b) (lig_out lig) ->
  (forall g, In g (lig_in lig) -> in_range (length b) g) ->
  g41_lig_step true first lig s <> Panic.
Proof.
  intros b first lig s HI Ho Hin. unfold in_range in *. rewrite <- (Inv_length b s HI) in Ho.
  unfold g41_lig_step.
  apply obind_not_panic; [apply get_in_range; exact Ho|]. intros cur _.
  destruct (nonempty cur); [discriminate|].
  apply obind_not_panic.
  { apply collect_not_panic. intros g Hg. rewrite (Inv_length b s HI). apply Hin. exact Hg. }
  intros c _. destruct c as [nn|]; [|discriminate]. apply assign_variant_not_panic. exact Ho.
Qed.

Lemma g41_step_not_panic : forall b repl e s,
  Inv b s -> in_range (length b) (fst e) -> N.to_nat (snd e) < length repl ->
  (forall ls lg, In ls repl -> In lg ls ->
     in_range (length b) (lig_out lg) /\ forall g, In g (lig_in lg) -> in_range (length b) g) ->
  g41_step true repl e s <> Panic.
Proof.
  intros b repl e s HI Ho Hidx Hrepl. unfold g41_step.
  apply obind_not_panic.
  { apply get_in_range. rewrite (Inv_length b s HI). exact Ho. }
  intros o _. destruct (nonempty o); cbn [negb]; [|discriminate].
  destruct (idx_cases repl (snd e)) as [[ligs [E Hnth]]|[_ Hl]]; [|lia].
  rewrite E. cbn [obind].
  apply (ofold_not_panic (g41_lig_step true o) (Inv b)); [| |exact HI].
  - intros x t _ Ht. apply g41_lig_step_good. exact Ht.
  - intros x t Hx Ht.
    destruct (Hrepl ligs x) as [H1 H2]; [eapply nth_error_In; exact Hnth|exact Hx|].
    apply (g41_lig_step_not_panic b); assumption.
Qed.

Lemma subtable_step_not_panic : forall b t s,
  Inv b s -> wf_subtable (length b) t -> subtable_step true t s <> Panic.
Proof.
  intros b t s HI Hwf. destruct t; cbn [subtable_step wf_subtable] in *.
  - apply (ofold_not_panic (g11_step delta) (Inv b)); [| |exact HI].
    + intros x u _ Hu. apply g11_step_good. exact Hu.
    + intros x u Hx Hu. destruct (Hwf x Hx) as [H1 H2]. apply (g11_step_not_panic b); assumption.
  - destruct Hwf as [Hc Hs].
    apply (ofold_not_panic (g12_step subst) (Inv b)); [| |exact HI].
    + intros x u _ Hu. apply g12_step_good. exact Hu.
    + intros x u Hx Hu. destruct (Hc x Hx) as [H1 H2]. apply (g12_step_not_panic b); assumption.
  - destruct Hwf as [Hc Hs].
    apply (ofold_not_panic (g31_step alts) (Inv b)); [| |exact HI].
    + intros x u _ Hu. apply g31_step_good. exact Hu.
    + intros x u Hx Hu. destruct (Hc x Hx) as [H1 H2]. apply (g31_step_not_panic b); assumption.
  - destruct Hwf as [Hc Hs].
    apply (ofold_not_panic (g41_step true repl) (Inv b)); [| |exact HI].
    + intros x u _ Hu. apply g41_step_good. exact Hu.
    + intros x u Hx Hu. destruct (Hc x Hx) as [H1 H2]. apply (g41_step_not_panic b); assumption.
  - discriminate.
Qed.

(* ---- the placeholder pass ---- *)
Definition filled_below (k : nat) (names : list name) : Prop :=
  forall j, j < k -> exists nm, nth_error names j = Some nm /\ nm <> [].

Definition OP (b : list name) (k : nat) (sk : st * N) : Prop :=
  Inv b (fst sk) /\ filled_below k (fst (fst sk)).

Lemma orn_step_good : forall b k sk, OP b k sk -> good (OP b (S k)) (orn_step k sk).
Proof.
  intros b k [[names used] c] [HI Hf]. cbn [fst snd] in *. unfold orn_step.
  eapply good_bind; [apply good_get|]. intros nm _ Hnm. rewrite Nat2N.id in Hnm.
  destruct (nonempty nm) eqn:En.
  - cbn [good]. split; [exact HI|]. cbn [fst]. intros j Hj.
    destruct (Nat.eq_dec j k) as [E__|Hjk]; [subst k|].
    + exists nm. split; [exact Hnm|]. apply nonempty_true. exact En.
    + apply Hf. lia.
  - apply nonempty_false in En. subst nm.
    eapply good_bind; [apply (find_free_good orn_name used c orn_name_inj)|].
    intros [v c'] _ [Hnot [j Hj]]. cbn [fst snd good] in *.
    pose proof (nth_error_lt _ _ _ Hnm) as Hlt.
    split; cbn [fst].
    + unfold set. rewrite Nat2N.id. apply Inv_assign; assumption.
    + intros i Hi. unfold set. rewrite Nat2N.id. destruct (Nat.eq_dec k i) as [E__|Hki]; [subst i|].
      * exists v. split; [apply set_nth_same; exact Hlt|]. rewrite Hj. apply orn_name_nonempty.
      * rewrite set_nth_other by exact Hki. apply Hf. lia.
Qed.

Lemma orn_step_not_panic : forall b k sk, OP b k sk -> k < length b -> orn_step k sk <> Panic.
Proof.
  intros b k [[names used] c] [HI _] Hk. pose proof (Inv_length b _ HI) as Hl. cbn [fst] in Hl.
  unfold orn_step.
  apply obind_not_panic; [apply get_in_range; rewrite Nat2N.id; lia|]. intros nm _.
  destruct (nonempty nm); [discriminate|].
  destruct (good_ok_ex _ _ (find_free_good orn_name used c orn_name_inj)
                       (find_free_not_panic orn_name _ used c)) as [r [E _]].
  rewrite E. discriminate.
Qed.

Definition final_ok (b names : list name) : Prop :=
  ext b names /\ inj_ne names /\ filled_below (length b) names.

Lemma orn_pass_good : forall b s, Inv b s -> good (final_ok b) (orn_pass s).
Proof.
  intros b s HI. unfold orn_pass. rewrite (Inv_length b s HI).
  eapply good_bind.
  - apply (ofold_seq_good orn_step (OP b) (length b) 0 (s, 1%N)).
    + intros i sk _ H. apply orn_step_good. exact H.
    + split; [exact HI|]. intros j Hj. lia.
  - intros [s' c] _ [[He [_ Hi]] Hf]. cbn [fst snd good plus] in *.
    split; [exact He|]. split; [exact Hi|exact Hf].
Qed.

Lemma orn_pass_not_panic : forall b s, Inv b s -> orn_pass s <> Panic.
Proof.
  intros b s HI. unfold orn_pass. rewrite (Inv_length b s HI).
  apply obind_not_panic; [|intros; discriminate].
  apply (ofold_seq_not_panic orn_step (OP b) (length b) 0 (s, 1%N)).
  - intros i sk _ H. apply orn_step_good. exact H.
  - intros i sk Hi H. apply (orn_step_not_panic b); [exact H|lia].
  - split; [exact HI|]. intros j Hj. lia.
Qed.

(* ---- what a finished list of names looks like ---- *)
Lemma nth_error_eq_ext : forall {A} (l l' : list A),
  (forall i, nth_error l i = nth_error l' i) -> l = l'.
Proof.
  intros A l. induction l as [|x l IH]; intros [|y l'] H.
  - reflexivity.
  - specialize (H 0). discriminate.
  - specialize (H 0). discriminate.
  - pose proof (H 0) as H0. cbn in H0. injection H0 as ->. f_equal. apply IH.
    intros i. exact (H (S i)).
Qed.

Lemma filled_all_nonempty : forall names,
  filled_below (length names) names -> forall nm, In nm names -> nm <> [].
Proof.
  intros names Hf nm Hin. apply In_nth_error in Hin. destruct Hin as [i Hi].
  destruct (Hf i (nth_error_lt _ _ _ Hi)) as [x [Hx Hne]]. congruence.
Qed.

Lemma filled_inj_NoDup : forall names,
  filled_below (length names) names -> inj_ne names -> NoDup names.
Proof.
  intros names Hf Hi. apply NoDup_nth_error. intros i j Hlt Heq.
  destruct (Hf i Hlt) as [x [Hx Hne]]. rewrite Hx in Heq. symmetry in Heq.
  apply (Hi i j x); assumption.
Qed.

Lemma forallb_nonempty_filled : forall names,
  forallb nonempty names = true -> filled_below (length names) names.
Proof.
  intros names H j Hj. destruct (nth_error names j) as [x|] eqn:E.
  - exists x. split; [reflexivity|]. apply nonempty_true.
    rewrite forallb_forall in H. apply H. eapply nth_error_In. exact E.
  - apply nth_error_None in E. lia.
Qed.

(* ---- the whole function ---- *)
Definition names0_of (n : nat) (existing : list name) : list name :=
  set (init_names n existing) 0 notdef.

Lemma init_names_length : forall n existing, length (init_names n existing) = n.
Proof.
  intros n existing. unfold init_names. destruct (length existing =? n) eqn:E.
  - apply Nat.eqb_eq. exact E.
  - apply repeat_length.
Qed.

Lemma names0_length : forall n existing, length (names0_of n existing) = n.
Proof. intros. unfold names0_of, set. rewrite set_nth_length. apply init_names_length. Qed.

(* the statement about every returned list, in one piece *)
Definition result_ok (n : nat) (existing names : list name) : Prop :=
  length names = n /\
  (forall nm, In nm names -> nm <> []) /\
  NoDup names /\
  nth_error names 0 = Some notdef /\
  (forall i nm, nth_error (names0_of n existing) i = Some nm -> nm <> [] ->
     (forall j, j < i -> nth_error (names0_of n existing) j <> Some nm) ->
     nth_error names i = Some nm).

Lemma notdef_nonempty : notdef <> [].
Proof. discriminate. Qed.

Lemma make_names_good : forall fu n existing cmap gsub,
  good (result_ok n existing) (M_make_names fu true n existing cmap gsub).
Proof.
  intros fu n existing cmap gsub. unfold M_make_names.
  destruct n as [|n']; [exact I|]. cbv beta iota zeta.
  assert (Hn : 0 < S n') by lia. remember (S n') as n eqn:En. clear En n'.
  change (set (init_names n existing) 0 notdef) with (names0_of n existing).
  pose proof (names0_length n existing) as Hl0.
  replace (seq 0 n) with (seq 0 (length (names0_of n existing))) by (rewrite Hl0; reflexivity).
  eapply good_bind; [apply dedup_good|].
  intros s1 _ HDP.
  assert (H00 : nth_error (names0_of n existing) 0 = Some notdef).
  { unfold names0_of, set. apply set_nth_same. rewrite init_names_length. exact Hn. }
  pose proof (DP_Inv _ _ HDP) as HI1.
  destruct HDP as (Hl1 & _ & _ & _ & _ & Hfirst). rewrite Hl0 in Hfirst.
  assert (Hbase0 : nth_error (fst s1) 0 = Some notdef).
  { apply Hfirst; [exact Hn|exact H00|intros j Hj; lia]. }
  assert (Hfin : forall names, final_ok (fst s1) names -> result_ok n existing names).
  { intros names [[Hlen Hext] [Hinj Hfill]]. rewrite <- Hlen in Hfill.
    split; [rewrite Hlen, Hl1; exact Hl0|].
    split; [apply filled_all_nonempty; exact Hfill|].
    split; [apply filled_inj_NoDup; assumption|].
    split; [apply Hext; [exact Hbase0|exact notdef_nonempty]|].
    intros i nm Hi Hne Hfst. apply Hext; [|exact Hne].
    apply Hfirst; [|exact Hi|exact Hfst].
    rewrite <- Hl0. exact (nth_error_lt _ _ _ Hi). }
  destruct (forallb nonempty (fst s1)) eqn:Ec.
  - (* complete: the names are returned as they are *)
    cbn [good]. apply Hfin. destruct HI1 as [He [_ Hi]].
    split; [exact He|]. split; [exact Hi|]. apply forallb_nonempty_filled. exact Ec.
  - eapply good_bind with (Q := Inv (fst s1)).
    { destruct cmap as [entries|]; [|exact HI1].
      apply ofold_good; [|exact HI1]. intros x t _ Ht. apply cmap_step_good. exact Ht. }
    intros s2 _ HI2.
    eapply good_bind with (Q := Inv (fst s1)).
    { destruct gsub as [tables|]; [|exact HI2].
      apply ofold_good; [|exact HI2]. intros x t _ Ht. apply subtable_step_good. exact Ht. }
    intros s3 _ HI3.
    eapply good_weaken; [exact Hfin|]. apply orn_pass_good. exact HI3.
Qed.

Lemma make_names_not_panic : forall fu n existing cmap gsub,
  0 < n ->
  (forall tables, gsub = Some tables -> forall t, In t tables -> wf_subtable n t) ->
  M_make_names fu true n existing cmap gsub <> Panic.
Proof.
  intros fu n existing cmap gsub Hn Hwf. unfold M_make_names.
  destruct n as [|n']; [lia|]. cbv beta iota zeta.
  remember (S n') as n eqn:En. clear En n'.
  change (set (init_names n existing) 0 notdef) with (names0_of n existing).
  pose proof (names0_length n existing) as Hl0.
  replace (seq 0 n) with (seq 0 (length (names0_of n existing))) by (rewrite Hl0; reflexivity).
  destruct (good_ok_ex _ _ (dedup_good (names0_of n existing)) (dedup_not_panic _)) as [s1 [E HDP]].
  rewrite E. cbn [obind].
  pose proof (DP_Inv _ _ HDP) as HI1.
  assert (Hl1 : length (fst s1) = n) by (destruct HDP as [H _]; rewrite H; exact Hl0).
  destruct (forallb nonempty (fst s1)); [discriminate|].
  assert (G2 : good (Inv (fst s1)) (match cmap with
            | Some entries => ofold (cmap_step fu) entries s1 | None => Ok s1 end)).
  { destruct cmap as [entries|]; [|exact HI1].
    apply ofold_good; [|exact HI1]. intros x t _ Ht. apply cmap_step_good. exact Ht. }
  assert (N2 : match cmap with
            | Some entries => ofold (cmap_step fu) entries s1 | None => Ok s1 end <> Panic).
  { destruct cmap as [entries|]; [|discriminate].
    apply (ofold_not_panic (cmap_step fu) (Inv (fst s1))); [| |exact HI1].
    - intros x t _ Ht. apply cmap_step_good. exact Ht.
    - intros x t _ _. apply cmap_step_not_panic. }
  destruct (good_ok_ex _ _ G2 N2) as [s2 [E2 HI2]]. rewrite E2. cbn [obind].
  assert (G3 : good (Inv (fst s1)) (match gsub with
            | Some tables => ofold (subtable_step true) tables s2 | None => Ok s2 end)).
  { destruct gsub as [tables|]; [|exact HI2].
    apply ofold_good; [|exact HI2]. intros x t _ Ht. apply subtable_step_good. exact Ht. }
  assert (N3 : match gsub with
            | Some tables => ofold (subtable_step true) tables s2 | None => Ok s2 end <> Panic).
  { destruct gsub as [tables|]; [|discriminate].
    apply (ofold_not_panic (subtable_step true) (Inv (fst s1))); [| |exact HI2].
    - intros x t _ Ht. apply subtable_step_good. exact Ht.
    - intros x t Hx Ht. apply (subtable_step_not_panic (fst s1)); [exact Ht|].
      rewrite Hl1. apply (Hwf tables eq_refl). exact Hx. }
  destruct (good_ok_ex _ _ G3 N3) as [s3 [E3 HI3]]. rewrite E3. cbn [obind].
  apply (orn_pass_not_panic (fst s1)). exact HI3.
Qed.

(* installing the result and asking again *)
Lemma make_names_fixpoint : forall fu n (names : list name) cmap gsub,
  0 < n -> length names = n -> (forall nm : name, In nm names -> nm <> []) -> NoDup names ->
  nth_error names 0 = Some notdef ->
  M_make_names fu true n names cmap gsub = Ok names.
Proof.
  intros fu n names cmap gsub Hn Hlen Hne Hnd H0. unfold M_make_names.
  destruct n as [|n']; [lia|]. cbv beta iota zeta.
  remember (S n') as n eqn:En. clear En n'.
  assert (Hinit : set (init_names n names) 0 notdef = names).
  { unfold init_names. rewrite Hlen, Nat.eqb_refl. unfold set. apply set_nth_id. exact H0. }
  rewrite Hinit. rewrite <- Hlen.
  destruct (good_ok_ex _ _ (dedup_good names) (dedup_not_panic names)) as [s1 [E HDP]].
  rewrite E. cbn [obind].
  destruct HDP as (Hl1 & _ & _ & _ & _ & Hfirst).
  assert (Hs1 : fst s1 = names).
  { apply nth_error_eq_ext. intros i. destruct (nth_error names i) as [nm|] eqn:Ei.
    - apply Hfirst; [exact (nth_error_lt _ _ _ Ei)|exact Ei|].
      intros j Hj Hjn. rewrite NoDup_nth_error in Hnd.
      assert (j = i); [|lia]. apply Hnd; [|congruence].
      pose proof (nth_error_lt _ _ _ Ei). lia.
    - apply nth_error_None. rewrite Hl1. apply nth_error_None. exact Ei. }
  rewrite Hs1.
  assert (Hc : forallb nonempty names = true).
  { apply forallb_forall. intros x Hx. apply nonempty_true. apply Hne. exact Hx. }
  rewrite Hc. reflexivity.
Qed.

(* ---- the clauses, in the form Props.v states them ---- *)
Lemma names0_other : forall n existing i,
  i <> 0 -> nth_error (names0_of n existing) i = nth_error (init_names n existing) i.
Proof. intros n existing i Hi. unfold names0_of, set. apply set_nth_other. cbn. lia. Qed.

Lemma names0_zero : forall n existing x,
  nth_error (names0_of n existing) 0 = Some x -> x = notdef.
Proof.
  intros n existing x H. unfold names0_of, set in H. cbn [N.to_nat] in H.
  pose proof (nth_error_lt _ _ _ H) as Hlt. rewrite set_nth_length in Hlt.
  rewrite set_nth_same in H by exact Hlt. congruence.
Qed.

Lemma make_names_ok : forall fu n existing cmap gsub names,
  M_make_names fu true n existing cmap gsub = Ok names -> result_ok n existing names.
Proof. intros. eapply good_ok; [apply make_names_good|eassumption]. Qed.

(* the first glyph (other than glyph 0) that carries a given name keeps it *)
Lemma kept_first : forall fu n existing cmap gsub names i nm,
  M_make_names fu true n existing cmap gsub = Ok names ->
  nth_error (init_names n existing) i = Some nm -> nm <> [] -> i <> 0 -> nm <> notdef ->
  (forall j, j < i -> nth_error (init_names n existing) j <> Some nm) ->
  nth_error names i = Some nm.
Proof.
  intros fu n existing cmap gsub names i nm HM Hi Hne Hi0 Hnd Hfst.
  destruct (make_names_ok _ _ _ _ _ _ HM) as (_ & _ & _ & _ & Hk).
  apply Hk; [rewrite names0_other by exact Hi0; exact Hi|exact Hne|].
  intros j Hj Hjn. destruct (Nat.eq_dec j 0) as [->|Hj0].
  - apply names0_zero in Hjn. congruence.
  - rewrite names0_other in Hjn by exact Hj0. exact (Hfst j Hj Hjn).
Qed.

Lemma kept_unique : forall fu n existing cmap gsub names i nm,
  M_make_names fu true n existing cmap gsub = Ok names ->
  nth_error (init_names n existing) i = Some nm -> nm <> [] -> i <> 0 -> nm <> notdef ->
  (forall j, j <> i -> nth_error (init_names n existing) j <> Some nm) ->
  nth_error names i = Some nm.
Proof.
  intros fu n existing cmap gsub names i nm HM Hi Hne Hi0 Hnd Huniq.
  apply (kept_first fu n existing cmap gsub names i nm); try assumption.
  intros j Hj. apply Huniq. lia.
Qed.

Lemma make_names_total : forall fu n existing cmap gsub,
  0 < n ->
  (forall tables, gsub = Some tables -> forall t, In t tables -> wf_subtable n t) ->
  exists names, M_make_names fu true n existing cmap gsub = Ok names.
Proof.
  intros fu n existing cmap gsub Hn Hwf.
  destruct (good_ok_ex _ _ (make_names_good fu n existing cmap gsub)
                       (make_names_not_panic fu n existing cmap gsub Hn Hwf)) as [names [E _]].
  exists names. exact E.
Qed.

Lemma make_names_idempotent : forall fu n existing cmap gsub names cmap' gsub',
  M_make_names fu true n existing cmap gsub = Ok names ->
  M_make_names fu true n names cmap' gsub' = Ok names.
Proof.
  intros fu n existing cmap gsub names cmap' gsub' HM.
  destruct (make_names_ok _ _ _ _ _ _ HM) as (Hl & Hne & Hnd & H0 & _).
  apply make_names_fixpoint; try assumption.
  rewrite <- Hl. exact (nth_error_lt _ _ _ H0).
Qed.

Lemma make_names_outcome : forall fu n existing cmap gsub,
  M_make_names fu true n existing cmap gsub <> OutOfFuel /\
  M_make_names fu true n existing cmap gsub <> Err.
Proof.
  intros. split; [eapply good_not_fuel|eapply good_not_err]; apply make_names_good.
Qed.

Lemma make_variant_terminates : forall used base,
  exists r, make_variant used base = Ok r /\ ~ In (fst r) used /\ snd r = fst r :: used.
Proof.
  intros used base.
  destruct (good_ok_ex _ _ (make_variant_good used base) (make_variant_not_panic used base))
    as [r [E [H1 [H2 _]]]].
  exists r. auto.
Qed.

(* a decision procedure for wf_subtable (used by the examples) *)
Definition in_rangeb (n : nat) (g : N) : bool := N.to_nat g <? n.
Definition wf_subtableb (n : nat) (t : subtable) : bool :=
  match t with
  | G11 cov delta =>
      forallb (fun g => in_rangeb n g && in_rangeb n ((g + delta) mod 65536)%N) cov
  | G12 cov subst =>
      forallb (fun e => in_rangeb n (fst e) && (N.to_nat (snd e) <? length subst)) cov &&
      forallb (in_rangeb n) subst
  | G31 cov alts =>
      forallb (fun e => in_rangeb n (fst e) && (N.to_nat (snd e) <? length alts)) cov &&
      forallb (forallb (in_rangeb n)) alts
  | G41 cov repl =>
      forallb (fun e => in_rangeb n (fst e) && (N.to_nat (snd e) <? length repl)) cov &&
      forallb (forallb (fun lg => in_rangeb n (lig_out lg) && forallb (in_rangeb n) (lig_in lg))) repl
  | GOther => true
  end.

Lemma in_rangeb_ok : forall n g, in_rangeb n g = true -> in_range n g.
Proof. intros n g H. apply Nat.ltb_lt. exact H. Qed.

Lemma wf_subtableb_sound : forall n t, wf_subtableb n t = true -> wf_subtable n t.
Proof.
  intros n t H. destruct t; cbn [wf_subtableb wf_subtable] in *.
  - intros g Hg. rewrite forallb_forall in H. specialize (H g Hg).
    apply andb_true_iff in H. destruct H as [H1 H2]. split; apply in_rangeb_ok; assumption.
  - apply andb_true_iff in H. destruct H as [Hc Hs]. rewrite forallb_forall in Hc, Hs. split.
    + intros e He. specialize (Hc e He). apply andb_true_iff in Hc. destruct Hc as [H1 H2].
      split; [apply in_rangeb_ok; exact H1|apply Nat.ltb_lt; exact H2].
    + intros g Hg. apply in_rangeb_ok. apply Hs. exact Hg.
  - apply andb_true_iff in H. destruct H as [Hc Hs]. rewrite forallb_forall in Hc, Hs. split.
    + intros e He. specialize (Hc e He). apply andb_true_iff in Hc. destruct Hc as [H1 H2].
      split; [apply in_rangeb_ok; exact H1|apply Nat.ltb_lt; exact H2].
    + intros a g Ha Hg. specialize (Hs a Ha). rewrite forallb_forall in Hs.
      apply in_rangeb_ok. apply Hs. exact Hg.
  - apply andb_true_iff in H. destruct H as [Hc Hs]. rewrite forallb_forall in Hc, Hs. split.
    + intros e He. specialize (Hc e He). apply andb_true_iff in Hc. destruct Hc as [H1 H2].
      split; [apply in_rangeb_ok; exact H1|apply Nat.ltb_lt; exact H2].
    + intros ls lg Hls Hlg. specialize (Hs ls Hls). rewrite forallb_forall in Hs.
      specialize (Hs lg Hlg). apply andb_true_iff in Hs. destruct Hs as [H1 H2].
      split; [apply in_rangeb_ok; exact H1|].
      intros g Hg. rewrite forallb_forall in H2. apply in_rangeb_ok. apply H2. exact Hg.
  - exact I.
Qed.

(* ---- the cmap loop visits every code point of the range ----
   names.go walks r = a .. b and looks every r up; the case lines (and
   [M_make_names]) carry the mapped code points only.  Both are the same
   computation: a code point that maps to glyph 0 is skipped by the loop body,
   because glyph 0 has a name from the start. *)
Definition zero_named (s : st) : Prop := exists nm, nth_error (fst s) 0 = Some nm /\ nm <> [].

Lemma cmap_step_unmapped : forall fu r s, zero_named s -> cmap_step fu (r, 0%N) s = Ok s.
Proof.
  intros fu r [names used] [nm [H0 Hne]]. cbn [fst] in H0. unfold cmap_step.
  pose proof (nth_error_lt _ _ _ H0) as Hlt. cbn [N.to_nat].
  destruct (length names <=? 0) eqn:El; [reflexivity|].
  assert (Eg : get names 0%N = Ok nm) by (apply get_ok; exact H0).
  rewrite Eg. cbn [obind]. apply nonempty_true in Hne. rewrite Hne. reflexivity.
Qed.

Lemma cmap_step_zero_named : forall fu e s s',
  zero_named s -> cmap_step fu e s = Ok s' -> zero_named s'.
Proof.
  intros fu [r g] [names used] s' [nm [H0 Hne]] H. cbn [fst] in H0. unfold cmap_step in H.
  destruct (length names <=? N.to_nat g); [injection H as <-; exists nm; auto|].
  destruct (get_cases names g) as [[cur [E Hcur]]|[E _]]; rewrite E in H; cbn [obind] in H; [|discriminate].
  destruct (nonempty cur) eqn:En; [injection H as <-; exists nm; auto|].
  apply nonempty_false in En. subst cur.
  destruct (mem (fu r) used); injection H as <-; exists nm; cbn [fst]; [auto|].
  split; [|exact Hne]. unfold set. rewrite set_nth_other; [exact H0|].
  intros E0. rewrite E0 in Hcur. congruence.
Qed.

Lemma cmap_pass_skip_unmapped : forall fu entries s,
  zero_named s ->
  ofold (cmap_step fu) entries s =
  ofold (cmap_step fu) (filter (fun e => negb (snd e =? 0)%N) entries) s.
Proof.
  intros fu entries. induction entries as [|[r g] rest IH]; intros s Hz; cbn [ofold filter snd]; [reflexivity|].
  destruct (g =? 0)%N eqn:Eg; cbn [negb].
  - apply N.eqb_eq in Eg. subst g. rewrite cmap_step_unmapped by exact Hz. cbn [obind]. apply IH. exact Hz.
  - cbn [ofold]. destruct (cmap_step fu (r, g) s) as [s'| | |] eqn:E; cbn [obind]; try reflexivity.
    apply IH. eapply cmap_step_zero_named; eassumption.
Qed.

(* the entries the loop  for r := lo; r < lo+cnt; r++  produces *)
Definition cmap_range_entries (lookup : N -> N) (lo : N) (cnt : nat) : list (N * N) :=
  map (fun i => ((lo + N.of_nat i)%N, lookup (lo + N.of_nat i)%N)) (seq 0 cnt).

Lemma cmap_range_loop : forall fu lookup lo cnt s,
  zero_named s ->
  ofold (cmap_step fu) (cmap_range_entries lookup lo cnt) s =
  ofold (cmap_step fu) (filter (fun e => negb (snd e =? 0)%N) (cmap_range_entries lookup lo cnt)) s.
Proof. intros. apply cmap_pass_skip_unmapped. assumption. Qed.
