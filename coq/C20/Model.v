(* C20/Model.v — executable model of glyph-name generation.

   Mirrors (after fixes/C20-names-gsub-pass.diff and fixes/C20-cmap-gid-guard.diff):
     /repo/names.go        Font.MakeGlyphNames, makeVariant
     /repo/cff/convert.go  Outlines.makeNames  (used by MakeSimple)
     /repo/font.go         Font.PostScriptName (character class only)

   Conventions
   * a glyph name is a byte string [list N]; the empty list is Go's "" and
     means "no name";
   * Go maps that the code *iterates* (coverage tables) are strictly sorted
     association lists and are walked in increasing glyph id; the repaired Go
     code does the same through coverage.Table.Glyphs().  The unrepaired code
     ranged over the maps directly, which made the result depend on Go's
     random map order in every GSUB loop (1.1, 1.2, 3.1, 4.1): a name given to
     a glyph in one iteration is the precondition of a later iteration
     (chains a -> a+d -> a+2d, two covered glyphs sharing an output glyph,
     numbering of the ".N" suffixes).  The map [used] is only consulted by
     key, never iterated, so it is a plain list here.
   * the package seehuhn.de/go/postscript/type1/names is external: its
     functions are parameters ([from_unicode], [from_text], [is_valid]).
     No property of them is used by the sfnt model; the CFF model needs
     [is_valid ".notdef" = true] for the .notdef clause only.
   * slice indexing [glyphNames[gid]] with gid out of range is [Panic];
     the number loops run on fuel [S (length used)], computed by the model
     itself, and [OutOfFuel] is excluded by the pigeonhole theorems.
   * Go's [int] counters (try, k) would need 2^63 used names to wrap; they are
     unbounded [N] here. *)
From Coq Require Import List NArith Bool Arith Decimal.
From Common Require Import Outcome.
Import ListNotations.
Local Open Scope N_scope.

Definition name := list N.

Fixpoint name_eqb (a b : name) : bool :=
  match a, b with
  | [], [] => true
  | x :: a', y :: b' => (x =? y) && name_eqb a' b'
  | _, _ => false
  end.

Definition nonempty (a : name) : bool := match a with [] => false | _ => true end.

(* used[name] *)
Definition mem (x : name) (u : list name) : bool := existsb (name_eqb x) u.

(* ".notdef" *)
Definition notdef : name := [46; 110; 111; 116; 100; 101; 102].

(* ---- decimal formatting: %d, %03d ---- *)
Fixpoint uint_bytes (u : Decimal.uint) : list N :=
  match u with
  | Nil => []
  | D0 r => 48 :: uint_bytes r
  | D1 r => 49 :: uint_bytes r
  | D2 r => 50 :: uint_bytes r
  | D3 r => 51 :: uint_bytes r
  | D4 r => 52 :: uint_bytes r
  | D5 r => 53 :: uint_bytes r
  | D6 r => 54 :: uint_bytes r
  | D7 r => 55 :: uint_bytes r
  | D8 r => 56 :: uint_bytes r
  | D9 r => 57 :: uint_bytes r
  end.

(* fmt "%d" of a non-negative integer *)
Definition dec (k : N) : name := uint_bytes (N.to_uint k).
(* fmt "%03d" *)
Definition dec3 (k : N) : name :=
  let d := dec k in repeat 48 (3 - length d)%nat ++ d.

(* fmt.Sprintf("orn%03d", k) *)
Definition orn_name (k : N) : name := [111; 114; 110] ++ dec3 k.
(* fmt.Sprintf("%s.%d", basename, try) *)
Definition variant_name (base : name) (try : N) : name := base ++ 46 :: dec try.
(* baseName + "" for try = 0, baseName + fmt.Sprintf(".alt%d", try) otherwise *)
Definition alt_name (base : name) (try : N) : name :=
  if try =? 0 then base else base ++ [46; 97; 108; 116] ++ dec try.

(* the loop   for { name := f(k); k++; if !used[name] { ... break } }   *)
Fixpoint find_free (f : N -> name) (fuel : nat) (used : list name) (k : N)
  : outcome (name * N) :=
  match fuel with
  | O => OutOfFuel
  | S fu => if mem (f k) used then find_free f fu used (k + 1) else Ok (f k, k + 1)
  end.

(* makeVariant(used, basename): returns the name and the updated set *)
Definition make_variant (used : list name) (base : name) : outcome (name * list name) :=
  if mem base used
  then r <- find_free (variant_name base) (S (length used)) used 1 ;;
       Ok (fst r, fst r :: used)
  else Ok (base, base :: used).

(* ---- state: glyphNames and used ---- *)
Definition st := (list name * list name)%type.

Definition get (names : list name) (g : N) : outcome name :=
  match nth_error names (N.to_nat g) with Some x => Ok x | None => Panic end.

Fixpoint set_nth (i : nat) (v : name) (l : list name) : list name :=
  match l, i with
  | [], _ => []
  | _ :: r, O => v :: r
  | x :: r, S j => x :: set_nth j v r
  end.
Definition set (names : list name) (g : N) (v : name) : list name := set_nth (N.to_nat g) v names.

(* a Go loop whose body may `continue` (= return the state unchanged) *)
Fixpoint ofold {X S : Type} (f : X -> S -> outcome S) (xs : list X) (s : S) : outcome S :=
  match xs with
  | [] => Ok s
  | x :: r => s' <- f x s ;; ofold f r s'
  end.

(* names.go:75-82 — the first pass over the existing names *)
Definition dedup_step (i : nat) (s : st) : outcome st :=
  let '(names, used) := s in
  nm <- get names (N.of_nat i) ;;
  if mem nm used then Ok (set names (N.of_nat i) [], used) else Ok (names, nm :: used).

(* ---- GSUB subtables, as far as MakeGlyphNames looks at them ---- *)
Record ligature := { lig_in : list N; lig_out : N }.
Inductive subtable :=
| G11 (cov : list N) (delta : N)                          (* Gsub1_1: coverage.Set, Delta *)
| G12 (cov : list (N * N)) (subst : list N)               (* Gsub1_2 *)
| G31 (cov : list (N * N)) (alts : list (list N))         (* Gsub3_1 *)
| G41 (cov : list (N * N)) (repl : list (list ligature))  (* Gsub4_1 *)
| GOther.                                                 (* every other subtable type *)

Definition idx {A} (l : list A) (i : N) : outcome A :=
  match nth_error l (N.to_nat i) with Some x => Ok x | None => Panic end.

(* glyphNames[newGid] = makeVariant(used, base) *)
Definition assign_variant (newg : N) (base : name) (s : st) : outcome st :=
  let '(names, used) := s in
  r <- make_variant used base ;;
  if (N.to_nat newg <? length names)%nat then Ok (set names newg (fst r), snd r) else Panic.

Definition g11_step (delta : N) (orig : N) (s : st) : outcome st :=
  let newg := (orig + delta) mod 65536 in       (* glyph.ID is uint16 *)
  o <- get (fst s) orig ;;
  if negb (nonempty o) then Ok s else
  nw <- get (fst s) newg ;;
  if nonempty nw then Ok s else
  assign_variant newg o s.

Definition g12_step (subst : list N) (e : N * N) (s : st) : outcome st :=
  newg <- idx subst (snd e) ;;
  o <- get (fst s) (fst e) ;;
  if negb (nonempty o) then Ok s else
  nw <- get (fst s) newg ;;
  if nonempty nw then Ok s else
  assign_variant newg o s.

Definition g31_alt_step (orig : N) (newg : N) (s : st) : outcome st :=
  nw <- get (fst s) newg ;;
  if nonempty nw then Ok s else
  o <- get (fst s) orig ;;
  assign_variant newg o s.

Definition g31_step (alts : list (list N)) (e : N * N) (s : st) : outcome st :=
  o <- get (fst s) (fst e) ;;
  if negb (nonempty o) then Ok s else
  al <- idx alts (snd e) ;;
  ofold (g31_alt_step (fst e)) al s.

(* the inner loop over lig.In: None = `continue replLoop` *)
Fixpoint collect (names : list name) (ins : list N) : outcome (option (list name)) :=
  match ins with
  | [] => Ok (Some [])
  | g :: r =>
    nm <- get names g ;;
    if nonempty nm
    then rest <- collect names r ;;
         Ok (match rest with Some l => Some (nm :: l) | None => None end)
    else Ok None
  end.

(* strings.Join(nn, "_") *)
Fixpoint join_us (first : name) (rest : list name) : name :=
  match rest with
  | [] => first
  | x :: r => first ++ 95 :: join_us x r
  end.

(* [guard4 = true] is the repaired code (ligature outputs that already have a
   name are skipped); [guard4 = false] is the code before the repair, kept
   for the _refuted witnesses. *)
Definition g41_lig_step (guard4 : bool) (first : name) (lig : ligature) (s : st) : outcome st :=
  cur <- (if guard4 then get (fst s) (lig_out lig) else Ok []) ;;
  if nonempty cur then Ok s else
  c <- collect (fst s) (lig_in lig) ;;
  match c with
  | None => Ok s
  | Some nn => assign_variant (lig_out lig) (join_us first nn) s
  end.

Definition g41_step (guard4 : bool) (repl : list (list ligature)) (e : N * N) (s : st) : outcome st :=
  o <- get (fst s) (fst e) ;;
  if negb (nonempty o) then Ok s else
  ligs <- idx repl (snd e) ;;
  ofold (g41_lig_step guard4 o) ligs s.

Definition subtable_step (guard4 : bool) (t : subtable) (s : st) : outcome st :=
  match t with
  | G11 cov delta => ofold (g11_step delta) cov s
  | G12 cov subst => ofold (g12_step subst) cov s
  | G31 cov alts => ofold (g31_step alts) cov s
  | G41 cov repl => ofold (g41_step guard4 repl) cov s
  | GOther => Ok s
  end.

(* the final loop, with the running counter k in the state *)
Definition orn_step (i : nat) (sk : st * N) : outcome (st * N) :=
  let '((names, used), k) := sk in
  nm <- get names (N.of_nat i) ;;
  if nonempty nm then Ok sk else
  r <- find_free orn_name (S (length used)) used k ;;
  Ok ((set names (N.of_nat i) (fst r), fst r :: used), snd r).

Definition orn_pass (s : st) : outcome (list name) :=
  r <- ofold orn_step (seq 0 (length (fst s))) (s, 1) ;;
  Ok (fst (fst r)).

(* glyf.Outlines: the names are used only if there is one per glyph;
   cff.Outlines: one (possibly empty) name per glyph by construction *)
Definition init_names (n : nat) (existing : list name) : list name :=
  if (length existing =? n)%nat then existing else repeat [] n.

Section Sfnt.
  (* names.FromUnicode(string(r)) *)
  Variable from_unicode : N -> name.

  (* names.go:97-108.  One loop round for the code point r with gid =
     cmap.Lookup(r).  [M_make_names] takes the list of (r, gid) in increasing
     r.  The Go loop visits every r of the cmap's code range; code points
     that are not mapped give gid 0, glyph 0 has a name, and the round is a
     no-op (Proofs.cmap_pass_skip_unmapped: entries with gid 0 can be dropped
     from any entry list, in particular from the full range), so the case
     lines carry the mapped code points only. *)
  Definition cmap_step (e : N * N) (s : st) : outcome st :=
    let '(r, g) := e in
    let '(names, used) := s in
    if (length names <=? N.to_nat g)%nat then Ok s else     (* guard added by fixes/C20-cmap-gid-guard.diff *)
    cur <- get names g ;;
    if nonempty cur then Ok s else
    let nm := from_unicode r in
    if mem nm used then Ok s else Ok (set names g nm, nm :: used).

  Definition M_make_names (guard4 : bool) (n : nat) (existing : list name)
             (cmap : option (list (N * N))) (gsub : option (list subtable))
    : outcome (list name) :=
    match n with
    | O => Panic                                     (* glyphNames[0] = ".notdef" *)
    | S _ =>
      let names0 := set (init_names n existing) 0 notdef in
      s1 <- ofold dedup_step (seq 0 n) (names0, []) ;;
      if forallb nonempty (fst s1) then Ok (fst s1) else
      s2 <- match cmap with
            | Some entries => ofold cmap_step entries s1
            | None => Ok s1
            end ;;
      s3 <- match gsub with
            | Some tables => ofold (subtable_step guard4) tables s2
            | None => Ok s2
            end ;;
      orn_pass s3
    end.
End Sfnt.

(* ---- cff/convert.go: makeNames ---- *)
Section Cff.
  Variable from_text : list N -> name.     (* names.FromUnicode(text) *)
  Variable is_valid : name -> bool.        (* names.IsValid *)

  (* convert.go:50-58 *)
  Definition cff_keep_step (i : nat) (s : st) : outcome st :=
    let '(names, used) := s in
    nm <- get names (N.of_nat i) ;;
    if negb (is_valid nm) || mem nm used
    then Ok (set names (N.of_nat i) [], used)
    else Ok (names, nm :: used).

  (* convert.go:74-93; None = gave up (`break` on an invalid candidate) *)
  Fixpoint alt_loop (fuel : nat) (used : list name) (base : name) (try : N) : outcome (option name) :=
    match fuel with
    | O => OutOfFuel
    | S fu =>
      let nm := alt_name base try in
      if negb (is_valid nm) then Ok None
      else if mem nm used then alt_loop fu used base (try + 1)
      else Ok (Some nm)
    end.

  Definition cff_text_step (texts : list (list N)) (i : nat) (s : st) : outcome st :=
    let '(names, used) := s in
    nm <- get names (N.of_nat i) ;;
    if nonempty nm then Ok s else
    let t := nth i texts [] in               (* glyphText[gid]; "" when absent *)
    if negb (nonempty t) then Ok s else
    r <- alt_loop (S (length used)) used (from_text t) 0 ;;
    match r with
    | None => Ok s
    | Some v => Ok (set names (N.of_nat i) v, v :: used)
    end.

  Definition M_cff_make_names (existing : list name) (texts : option (list (list N)))
    : outcome (list name) :=
    match existing with
    | [] => Panic                                    (* o.Glyphs[0] *)
    | _ :: _ =>
      let n := length existing in
      let names0 := set existing 0 notdef in
      s1 <- ofold cff_keep_step (seq 0 n) (names0, []) ;;
      s2 <- match texts with
            | Some tx => ofold (cff_text_step tx) (seq 0 n) s1
            | None => Ok s1
            end ;;
      orn_pass s2
    end.
End Cff.

(* ---- font.go: PostScriptName ----
   re := regexp.MustCompile(`[^...]+`); re.ReplaceAllString(name, "")
   removes every character outside the class.  The class is parsed from the
   regular expression text the translator copies from font.go. *)

(* one class atom: a literal character, or backslash + punctuation *)
Definition cls_atom (l : list N) : option (N * list N) :=
  match l with
  | 92 :: c :: r =>
    if ((48 <=? c) && (c <=? 57)) || ((65 <=? c) && (c <=? 90)) || ((97 <=? c) && (c <=? 122)) || (128 <=? c)
    then None                                  (* \d, \w, \pL ...: not supported *)
    else Some (c, r)
  | 93 :: _ => None
  | 91 :: _ => None                            (* [:alpha:] etc.: not supported *)
  | c :: r => if 128 <=? c then None else Some (c, r)
  | [] => None
  end.

Fixpoint cls_items (fuel : nat) (l : list N) : option (list (N * N)) :=
  match fuel with
  | O => None
  | S fu =>
    match l with
    | [93; 43] => Some []                      (* "]+" closes the expression *)
    | _ =>
      match cls_atom l with
      | None => None
      | Some (a, r) =>
        match r with
        | 45 :: r' =>
          match r' with
          | 93 :: _ =>                          (* trailing '-' is a literal *)
            match cls_items fu r with Some t => Some ((a, a) :: t) | None => None end
          | _ =>
            match cls_atom r' with
            | None => None
            | Some (b, r'') =>
              match cls_items fu r'' with Some t => Some ((a, b) :: t) | None => None end
            end
          end
        | _ => match cls_items fu r with Some t => Some ((a, a) :: t) | None => None end
        end
      end
    end
  end.

(* `[^ items ]+`  ->  the ranges of the characters that are KEPT *)
Definition parse_negated_class (re : list N) : option (list (N * N)) :=
  match re with
  | 91 :: 94 :: r => cls_items (length r) r
  | _ => None
  end.

Definition in_ranges (rs : list (N * N)) (c : N) : bool :=
  existsb (fun ab => (fst ab <=? c) && (c <=? snd ab)) rs.

Definition ps_allowed (re : list N) (c : N) : bool :=
  match parse_negated_class re with
  | Some rs => in_ranges rs c
  | None => false
  end.

(* name := f.FamilyName + "-" + f.Subfamily(); return re.ReplaceAllString(name, "") *)
Definition ps_name_filter (re : list N) (s : list N) : list N := filter (ps_allowed re) s.
Definition M_postscript_name (re : list N) (family subfamily : list N) : list N :=
  ps_name_filter re (family ++ 45 :: subfamily).

(* Specification (PostScript Language Reference, 3.2.2 / 3.3.7; PDF 32000
   7.2.2): a regular character is a printable ASCII character other than white
   space and the delimiters ( ) < > [ ] { } / % *)
Definition S_ps_regular (c : N) : bool :=
  (33 <=? c) && (c <=? 126) &&
  negb (existsb (N.eqb c) [40; 41; 60; 62; 91; 93; 123; 125; 47; 37]).
