(* C20/Examples.v — non-vacuity: concrete fonts that meet every hypothesis of
   the theorems in Props.v, the spelled-out constants, and the _refuted
   witnesses for the code before fixes/C20-names-gsub-pass.diff. *)
From Coq Require Import List NArith Bool Arith Lia String Ascii.
From Common Require Import Outcome.
From Gen Require Import C20.
From C20 Require Import Model Util Proofs Proofs_cff Proofs_ps.
Import ListNotations.
Local Open Scope N_scope.

Fixpoint bs (s : string) : list N :=
  match s with EmptyString => [] | String a r => N_of_ascii a :: bs r end.

(* the byte constants of the model are the intended strings *)
Example ex_constants :
  notdef = bs ".notdef" /\ orn_name 7 = bs "orn007" /\ orn_name 123 = bs "orn123" /\
  orn_name 1234 = bs "orn1234" /\ variant_name (bs "A") 12 = bs "A.12" /\
  alt_name (bs "A") 0 = bs "A" /\ alt_name (bs "A") 3 = bs "A.alt3" /\
  join_us (bs "f") [bs "f"; bs "i"] = bs "f_f_i".
Proof. vm_compute. repeat split; reflexivity. Qed.

(* names.FromUnicode for the examples: 'A' -> "A", 'B' -> "B", ... *)
Definition fu_ex (r : N) : name := [r].

(* a font with 7 glyphs: two carry the same name, three have none; a cmap, and
   GSUB subtables of all four kinds *)
Definition ex_existing : list name := [[]; bs "A"; []; bs "A"; bs "x"; []; []].
Definition ex_cmap : option (list (N * N)) := Some [(65, 1); (66, 2); (67, 2); (68, 900)].
Definition ex_gsub : option (list subtable) :=
  Some [G11 [1; 2] 4;
        G12 [(1, 0)] [3];
        G31 [(4, 0)] [[3; 5]];
        G41 [(1, 0); (2, 1)] [[{| lig_in := [2]; lig_out := 6 |}; {| lig_in := []; lig_out := 0 |}];
                              [{| lig_in := [1; 4]; lig_out := 4 |}]];
        GOther].

Example ex_run :
  M_make_names fu_ex true 7 ex_existing ex_cmap ex_gsub =
  Ok [bs ".notdef"; bs "A"; bs "B"; bs "A.2"; bs "x"; bs "A.1"; bs "B.1"].
Proof. vm_compute. reflexivity. Qed.

Example ex_wf :
  forall tables, ex_gsub = Some tables -> forall t, In t tables -> wf_subtable 7 t.
Proof.
  intros tables E t Ht. injection E as <-. apply wf_subtableb_sound.
  assert (Hall : forallb (wf_subtableb 7) [G11 [1; 2] 4; G12 [(1, 0)] [3]; G31 [(4, 0)] [[3; 5]];
        G41 [(1, 0); (2, 1)] [[{| lig_in := [2]; lig_out := 6 |}; {| lig_in := []; lig_out := 0 |}];
                              [{| lig_in := [1; 4]; lig_out := 4 |}]]; GOther] = true)
    by (vm_compute; reflexivity).
  rewrite forallb_forall in Hall. apply Hall. exact Ht.
Qed.

(* existing_unique_names_kept is not vacuous: glyph 4 carries the unique name "x" *)
Example ex_kept_hyps :
  nth_error (init_names 7 ex_existing) 4 = Some (bs "x") /\ bs "x" <> [] /\ bs "x" <> notdef /\
  (forall j, (j <> 4)%nat -> nth_error (init_names 7 ex_existing) j <> Some (bs "x")).
Proof.
  split; [reflexivity|]. split; [discriminate|]. split; [discriminate|].
  intros j Hj. do 7 (destruct j as [|j]; [try (cbn; discriminate); try lia|]).
  cbn. destruct j; discriminate.
Qed.

(* the installed result is a fixed point *)
Example ex_idempotent :
  M_make_names fu_ex true 7 [bs ".notdef"; bs "A"; bs "B"; bs "A.2"; bs "x"; bs "A.1"; bs "B.1"] None None =
  Ok [bs ".notdef"; bs "A"; bs "B"; bs "A.2"; bs "x"; bs "A.1"; bs "B.1"].
Proof. vm_compute. reflexivity. Qed.

(* a TrueType names list of the wrong length is ignored *)
Example ex_short_list :
  M_make_names fu_ex true 3 [bs ".notdef"; bs "A"] (Some [(65, 2)]) None =
  Ok [bs ".notdef"; bs "orn001"; bs "A"].
Proof. vm_compute. reflexivity. Qed.

(* no glyphs, or a GSUB reference beyond the last glyph: the Go code indexes out of range *)
Example ex_panics :
  M_make_names fu_ex true 0 [] None None = Panic /\
  M_make_names fu_ex true 2 [[]; []] None (Some [G11 [1] 1]) = Ok [bs ".notdef"; bs "orn001"] /\
  M_make_names fu_ex true 3 [[]; []; bs "A"] None (Some [G11 [2] 1]) = Panic.
Proof. vm_compute. repeat split; reflexivity. Qed.

(* ---- the code before the repair ([guard4 = false]) ---- *)
(* a ligature output that already has a unique name loses it (glyph 2, "B"),
   and glyph 0 stops being .notdef *)
Definition old_existing : list name := [[]; bs "A"; bs "B"; []].
Definition old_gsub : option (list subtable) :=
  Some [G41 [(1, 0)] [[{| lig_in := [2]; lig_out := 2 |}; {| lig_in := []; lig_out := 0 |}]]].

Example existing_unique_names_kept_prefix_refuted :
  exists names,
    M_make_names fu_ex false 4 old_existing None old_gsub = Ok names /\
    nth_error (init_names 4 old_existing) 2 = Some (bs "B") /\
    (forall j, (j <> 2)%nat -> nth_error (init_names 4 old_existing) j <> Some (bs "B")) /\
    nth_error names 2 <> Some (bs "B") /\
    nth_error names 0 <> Some notdef.
Proof.
  exists [bs "A.1"; bs "A"; bs "A_B"; bs "orn001"].
  split; [vm_compute; reflexivity|]. split; [reflexivity|].
  split; [|split; cbn; discriminate].
  intros j Hj. do 4 (destruct j as [|j]; [try (cbn; discriminate); try lia|]).
  cbn. destruct j; discriminate.
Qed.

(* the repaired code on the same font *)
Example ex_repaired :
  M_make_names fu_ex true 4 old_existing None old_gsub =
  Ok [bs ".notdef"; bs "A"; bs "B"; bs "orn001"].
Proof. vm_compute. reflexivity. Qed.

(* ---- CFF MakeSimple ---- *)
(* names.IsValid, re-stated for the examples: 1..31 characters from
   [A-Za-z0-9._], not starting with a digit or '.', or ".notdef" *)
Definition iv_ex (nm : name) : bool :=
  name_eqb nm notdef ||
  match nm with
  | [] => false
  | c :: _ =>
    (List.length nm <=? 31)%nat && negb (((48 <=? c) && (c <=? 57)) || (c =? 46)) &&
    forallb (fun c => ((65 <=? c) && (c <=? 90)) || ((97 <=? c) && (c <=? 122)) ||
                      ((48 <=? c) && (c <=? 57)) || (c =? 46) || (c =? 95)) nm
  end.
Definition ft_ex (t : list N) : name := t.

Example ex_cff_run :
  M_cff_make_names ft_ex iv_ex [[]; bs "A"; bs "A"; bs "1x"; []; []; []]
                   (Some [[]; []; bs "A"; bs "A"; bs "A"; bs "%"; []]) =
  Ok [bs ".notdef"; bs "A"; bs "A.alt1"; bs "A.alt2"; bs "A.alt3"; bs "orn001"; bs "orn002"].
Proof. vm_compute. reflexivity. Qed.

(* hypotheses of cff_names_idempotent hold for this validity test (decided for
   the placeholders that occur; for all c it follows from the length of dec c) *)
Example ex_cff_valid_hyps :
  iv_ex notdef = true /\ forallb (fun c => iv_ex (orn_name (N.of_nat c))) (seq 0 2000) = true.
Proof. vm_compute. split; reflexivity. Qed.

Example ex_cff_idempotent :
  M_cff_make_names ft_ex iv_ex
    [bs ".notdef"; bs "A"; bs "A.alt1"; bs "A.alt2"; bs "A.alt3"; bs "orn001"; bs "orn002"] None =
  Ok [bs ".notdef"; bs "A"; bs "A.alt1"; bs "A.alt2"; bs "A.alt3"; bs "orn001"; bs "orn002"].
Proof. vm_compute. reflexivity. Qed.

(* with a validity test that rejects ".notdef", glyph 0 is not .notdef: the
   hypothesis of the .notdef clause is needed *)
Example cff_notdef_needs_valid_notdef :
  M_cff_make_names ft_ex (fun nm => negb (name_eqb nm notdef)) [[]; bs "A"] None =
  Ok [bs "orn001"; bs "A"].
Proof. vm_compute. reflexivity. Qed.

(* ---- PostScript name ---- *)
Example ex_regexp_parses :
  parse_negated_class sfnt_psNameRegexp =
  Some [(33, 36); (38, 39); (42, 46); (48, 59); (61, 61); (63, 90); (92, 92); (94, 122); (124, 124); (126, 126)].
Proof. vm_compute. reflexivity. Qed.

Example ex_psname :
  M_postscript_name sfnt_psNameRegexp (bs "Font (Beta) 100%") (bs "Semi Bold Italic") =
  bs "FontBeta100-SemiBoldItalic".
Proof. vm_compute. reflexivity. Qed.

(* an expression outside the supported fragment is rejected, not misread *)
Example ex_regexp_unsupported :
  parse_negated_class (bs "[^\w]+") = None /\ parse_negated_class (bs "[a-z]+") = None.
Proof. vm_compute. split; reflexivity. Qed.
