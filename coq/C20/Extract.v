From Coq Require Import Extraction ExtrOcamlBasic.
From Common Require Import Conv Outcome.
From Gen Require Import C20.
From C20 Require Import Model.
Extraction "c20_model.ml" conv_anchor M_make_names M_cff_make_names M_postscript_name
  ps_allowed S_ps_regular sfnt_psNameRegexp orn_name make_variant.
