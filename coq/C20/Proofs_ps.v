(* C20/Proofs_ps.v — the character class of PostScriptName, as parsed from the
   regular expression in font.go (Gen/C20.v), is exactly the set of PostScript
   regular characters. *)
From Coq Require Import List NArith Bool Arith Lia.
From Gen Require Import C20.
From C20 Require Import Model.
Import ListNotations.
Local Open Scope N_scope.

Definition RE := sfnt_psNameRegexp.

(* the expression is inside the supported fragment *)
Lemma re_parses : exists rs, parse_negated_class RE = Some rs /\ forallb (fun ab => snd ab <=? 126) rs = true.
Proof. eexists. split; [vm_compute; reflexivity|vm_compute; reflexivity]. Qed.

Lemma in_ranges_bound : forall rs m c,
  forallb (fun ab => snd ab <=? m) rs = true -> in_ranges rs c = true -> c <= m.
Proof.
  intros rs m c Hb Hin. unfold in_ranges in Hin. apply existsb_exists in Hin.
  destruct Hin as [[a b] [Hab Hc]]. rewrite forallb_forall in Hb. specialize (Hb _ Hab).
  cbn [fst snd] in *. apply andb_true_iff in Hc. destruct Hc as [_ Hc].
  apply N.leb_le in Hb, Hc. lia.
Qed.

Lemma allowed_is_ascii : forall c, ps_allowed RE c = true -> c <= 126.
Proof.
  intros c H. destruct re_parses as [rs [Hp Hb]]. unfold ps_allowed in H. rewrite Hp in H.
  eapply in_ranges_bound; eassumption.
Qed.

(* all 256 byte values, by computation *)
Lemma class_table :
  forallb (fun c => Bool.eqb (ps_allowed RE c) (S_ps_regular c)) (map N.of_nat (seq 0 256)) = true.
Proof. vm_compute. reflexivity. Qed.

Lemma regular_is_ascii : forall c, S_ps_regular c = true -> c <= 126.
Proof.
  intros c H. unfold S_ps_regular in H. apply andb_true_iff in H. destruct H as [H _].
  apply andb_true_iff in H. destruct H as [_ H]. apply N.leb_le in H. exact H.
Qed.

Lemma allowed_iff_regular : forall c, ps_allowed RE c = S_ps_regular c.
Proof.
  intros c. destruct (N.le_gt_cases c 255) as [Hle|Hgt].
  - pose proof class_table as T. rewrite forallb_forall in T.
    specialize (T c). apply Bool.eqb_prop. apply T.
    apply in_map_iff. exists (N.to_nat c). split; [apply N2Nat.id|]. apply in_seq. lia.
  - destruct (ps_allowed RE c) eqn:Ea; destruct (S_ps_regular c) eqn:Es; try reflexivity.
    + apply allowed_is_ascii in Ea. lia.
    + apply regular_is_ascii in Es. lia.
Qed.

Lemma filter_ext_eq : forall {A} (f g : A -> bool) l, (forall x, f x = g x) -> filter f l = filter g l.
Proof.
  intros A f g l H. induction l as [|x l IH]; cbn [filter]; [reflexivity|].
  rewrite H, IH. reflexivity.
Qed.

Lemma ps_name_is_regular_filter : forall family subfamily,
  M_postscript_name RE family subfamily = filter S_ps_regular (family ++ 45 :: subfamily).
Proof.
  intros. unfold M_postscript_name, ps_name_filter. apply filter_ext_eq. apply allowed_iff_regular.
Qed.

Lemma ps_name_chars_regular : forall family subfamily c,
  In c (M_postscript_name RE family subfamily) -> S_ps_regular c = true.
Proof.
  intros family subfamily c H. rewrite ps_name_is_regular_filter in H.
  apply filter_In in H. apply H.
Qed.
