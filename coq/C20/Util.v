(* C20/Util.v — generic lemmas: name equality, set_nth, the loop combinator
   [ofold], the outcome predicate [good], decimal formatting is injective,
   the pigeonhole argument for [find_free]. *)
From Coq Require Import List NArith Bool Arith Lia Decimal DecimalN FinFun.
From Common Require Import Outcome.
From C20 Require Import Model.
Import ListNotations.

(* ---- names ---- *)
Lemma name_eqb_eq : forall a b, name_eqb a b = true <-> a = b.
Proof.
  induction a as [|x a IH]; destruct b as [|y b]; cbn [name_eqb]; split; intros H;
    try reflexivity; try discriminate.
  - apply andb_true_iff in H. destruct H as [H1 H2].
    apply N.eqb_eq in H1. apply IH in H2. subst. reflexivity.
  - injection H as -> ->. apply andb_true_iff. split; [apply N.eqb_refl|]. apply IH. reflexivity.
Qed.

Lemma mem_In : forall x u, mem x u = true <-> In x u.
Proof.
  intros x u. unfold mem. rewrite existsb_exists. split.
  - intros [y [Hy He]]. apply name_eqb_eq in He. subst. exact Hy.
  - intros H. exists x. split; [exact H|]. apply name_eqb_eq. reflexivity.
Qed.

Lemma mem_false : forall x u, mem x u = false <-> ~ In x u.
Proof.
  intros x u. rewrite <- mem_In. destruct (mem x u); split; intros H; try reflexivity; try congruence.
Qed.

Lemma nonempty_true : forall a, nonempty a = true <-> a <> [].
Proof. destruct a; cbn; split; intros H; congruence. Qed.

Lemma nonempty_false : forall a, nonempty a = false <-> a = [].
Proof. destruct a; cbn; split; intros H; congruence. Qed.

Lemma name_dec : forall a b : name, a = b \/ a <> b.
Proof.
  intros a b. destruct (name_eqb a b) eqn:E.
  - left. apply name_eqb_eq. exact E.
  - right. intros H. apply name_eqb_eq in H. congruence.
Qed.

(* ---- set_nth ---- *)
Lemma set_nth_length : forall i v l, length (set_nth i v l) = length l.
Proof.
  induction i as [|i IH]; destruct l as [|x l]; cbn [set_nth length]; try reflexivity.
  rewrite IH. reflexivity.
Qed.

Lemma set_nth_same : forall i v l, i < length l -> nth_error (set_nth i v l) i = Some v.
Proof.
  induction i as [|i IH]; destruct l as [|x l]; cbn [set_nth length nth_error]; intros H; try lia.
  - reflexivity.
  - apply IH. lia.
Qed.

Lemma set_nth_other : forall i j v l, i <> j -> nth_error (set_nth i v l) j = nth_error l j.
Proof.
  induction i as [|i IH]; destruct l as [|x l]; destruct j as [|j]; cbn [set_nth nth_error];
    intros H; try reflexivity; try lia.
  apply IH. lia.
Qed.

Lemma set_nth_oob : forall i v l, length l <= i -> set_nth i v l = l.
Proof.
  induction i as [|i IH]; destruct l as [|x l]; cbn [set_nth length]; intros H; try reflexivity; try lia.
  rewrite IH by lia. reflexivity.
Qed.

Lemma set_nth_id : forall i v l, nth_error l i = Some v -> set_nth i v l = l.
Proof.
  induction i as [|i IH]; destruct l as [|x l]; cbn [set_nth nth_error]; intros H; try discriminate.
  - injection H as ->. reflexivity.
  - rewrite IH by exact H. reflexivity.
Qed.

Lemma nth_error_lt : forall {A} (l : list A) i x, nth_error l i = Some x -> i < length l.
Proof. intros A l i x H. apply nth_error_Some. congruence. Qed.

Lemma get_ok : forall names g x, get names g = Ok x <-> nth_error names (N.to_nat g) = Some x.
Proof.
  intros names g x. unfold get. destruct (nth_error names (N.to_nat g)); split; intros H;
    try discriminate; try congruence.
Qed.

Lemma get_cases : forall names g,
  (exists x, get names g = Ok x /\ nth_error names (N.to_nat g) = Some x) \/
  (get names g = Panic /\ length names <= N.to_nat g).
Proof.
  intros names g. unfold get. destruct (nth_error names (N.to_nat g)) eqn:E.
  - left. eauto.
  - right. split; [reflexivity|]. apply nth_error_None. exact E.
Qed.

Lemma idx_cases : forall {A} (l : list A) i,
  (exists x, idx l i = Ok x /\ nth_error l (N.to_nat i) = Some x) \/
  (idx l i = Panic /\ length l <= N.to_nat i).
Proof.
  intros A l i. unfold idx. destruct (nth_error l (N.to_nat i)) eqn:E.
  - left. eauto.
  - right. split; [reflexivity|]. apply nth_error_None. exact E.
Qed.

(* ---- outcomes ---- *)
(* the computation neither fails nor runs out of fuel; if it returns, P holds *)
Definition good {S} (P : S -> Prop) (o : outcome S) : Prop :=
  match o with Ok s => P s | Panic => True | Err => False | OutOfFuel => False end.

Lemma good_bind : forall {A B} (Q : A -> Prop) (P : B -> Prop) (x : outcome A) (f : A -> outcome B),
  good Q x -> (forall a, x = Ok a -> Q a -> good P (f a)) -> good P (obind x f).
Proof.
  intros A B Q P x f Hx Hf. destruct x; cbn in *; try contradiction; try exact I.
  apply Hf; [reflexivity|exact Hx].
Qed.

Lemma good_weaken : forall {S} (P Q : S -> Prop) o, (forall s, P s -> Q s) -> good P o -> good Q o.
Proof. intros S P Q o H. destruct o; cbn; auto. Qed.

Lemma good_ok : forall {S} (P : S -> Prop) o s, good P o -> o = Ok s -> P s.
Proof. intros S P o s H E. subst. exact H. Qed.

Lemma good_not_fuel : forall {S} (P : S -> Prop) o, good P o -> o <> OutOfFuel.
Proof. intros S P o H E. subst. exact H. Qed.

Lemma good_not_err : forall {S} (P : S -> Prop) o, good P o -> o <> Err.
Proof. intros S P o H E. subst. exact H. Qed.

Lemma good_get : forall names g, good (fun x => nth_error names (N.to_nat g) = Some x) (get names g).
Proof. intros names g. destruct (get_cases names g) as [[x [E H]]|[E _]]; rewrite E; cbn; auto. Qed.

Lemma good_idx : forall {A} (l : list A) i, good (fun x => nth_error l (N.to_nat i) = Some x) (idx l i).
Proof. intros A l i. destruct (idx_cases l i) as [[x [E H]]|[E _]]; rewrite E; cbn; auto. Qed.

(* ---- ofold ---- *)
Lemma ofold_good : forall {X S} (f : X -> S -> outcome S) (P : S -> Prop) xs s,
  (forall x s, In x xs -> P s -> good P (f x s)) -> P s -> good P (ofold f xs s).
Proof.
  intros X S f P xs. induction xs as [|x r IH]; intros s Hf Hs; cbn [ofold].
  - exact Hs.
  - apply good_bind with (Q := P).
    + apply Hf; [left; reflexivity|exact Hs].
    + intros a _ Ha. apply IH; [|exact Ha]. intros y t Hy. apply Hf. right. exact Hy.
Qed.

Lemma ofold_not_panic : forall {X S} (f : X -> S -> outcome S) (P : S -> Prop) xs s,
  (forall x s, In x xs -> P s -> good P (f x s)) ->
  (forall x s, In x xs -> P s -> f x s <> Panic) ->
  P s -> ofold f xs s <> Panic.
Proof.
  intros X S f P xs. induction xs as [|x r IH]; intros s Hg Hp Hs; cbn [ofold].
  - discriminate.
  - specialize (Hg x s (or_introl eq_refl) Hs) as G.
    specialize (Hp x s (or_introl eq_refl) Hs) as NP.
    destruct (f x s) as [s'| | |]; cbn in *; try contradiction; try congruence.
    apply IH; [| |exact G].
    + intros y t Hy. apply Hg. right. exact Hy.
    + intros y t Hy. apply Hp. right. exact Hy.
Qed.

(* a loop over consecutive indices with an invariant that depends on the index *)
Lemma ofold_seq_good : forall {S} (f : nat -> S -> outcome S) (P : nat -> S -> Prop) n a s,
  (forall i s, a <= i < a + n -> P i s -> good (P (Datatypes.S i)) (f i s)) ->
  P a s -> good (P (a + n)) (ofold f (seq a n) s).
Proof.
  intros S f P n. induction n as [|n IH]; intros a s Hf Hs; cbn [seq ofold].
  - rewrite Nat.add_0_r. exact Hs.
  - apply good_bind with (Q := P (Datatypes.S a)).
    + apply Hf; [lia|exact Hs].
    + intros t _ Ht. replace (a + Datatypes.S n) with (Datatypes.S a + n) by lia.
      apply IH; [|exact Ht]. intros i u Hi. apply Hf. lia.
Qed.

Lemma ofold_seq_not_panic : forall {S} (f : nat -> S -> outcome S) (P : nat -> S -> Prop) n a s,
  (forall i s, a <= i < a + n -> P i s -> good (P (Datatypes.S i)) (f i s)) ->
  (forall i s, a <= i < a + n -> P i s -> f i s <> Panic) ->
  P a s -> ofold f (seq a n) s <> Panic.
Proof.
  intros S f P n. induction n as [|n IH]; intros a s Hg Hp Hs; cbn [seq ofold].
  - discriminate.
  - assert (Hr : a <= a < a + Datatypes.S n) by lia.
    specialize (Hg a s Hr Hs) as G. specialize (Hp a s Hr Hs) as NP.
    destruct (f a s) as [s'| | |]; cbn in *; try contradiction; try congruence.
    apply IH with (a := Datatypes.S a); [| |exact G].
    + intros i u Hi. apply Hg. lia.
    + intros i u Hi. apply Hp. lia.
Qed.

(* ---- decimal formatting ---- *)
Local Open Scope N_scope.

Definition byte_digit (b : N) (u : Decimal.uint) : Decimal.uint :=
  match b with
  | 48 => D0 u | 49 => D1 u | 50 => D2 u | 51 => D3 u | 52 => D4 u
  | 53 => D5 u | 54 => D6 u | 55 => D7 u | 56 => D8 u | 57 => D9 u
  | _ => Nil
  end.
Fixpoint bytes_uint (l : list N) : Decimal.uint :=
  match l with [] => Nil | b :: r => byte_digit b (bytes_uint r) end.

Lemma bytes_uint_bytes : forall u, bytes_uint (uint_bytes u) = u.
Proof. induction u; cbn [uint_bytes bytes_uint byte_digit]; try rewrite IHu; reflexivity. Qed.

Definition undec (l : list N) : N := N.of_uint (bytes_uint l).

Lemma undec_dec : forall k, undec (dec k) = k.
Proof. intros k. unfold undec, dec. rewrite bytes_uint_bytes. apply DecimalN.Unsigned.of_to. Qed.

Lemma dec_inj : forall a b, dec a = dec b -> a = b.
Proof. intros a b H. rewrite <- (undec_dec a), <- (undec_dec b), H. reflexivity. Qed.

Lemma undec_zeros : forall m l, undec (repeat 48 m ++ l) = undec l.
Proof.
  induction m as [|m IH]; intros l; cbn [repeat app]; [reflexivity|].
  rewrite <- (IH l). unfold undec. cbn [bytes_uint byte_digit]. reflexivity.
Qed.

Lemma dec3_inj : forall a b, dec3 a = dec3 b -> a = b.
Proof.
  intros a b H. unfold dec3 in H.
  rewrite <- (undec_dec a), <- (undec_dec b).
  rewrite <- (undec_zeros (3 - length (dec a)) (dec a)), H, undec_zeros. reflexivity.
Qed.

Lemma orn_name_inj : forall a b, orn_name a = orn_name b -> a = b.
Proof. intros a b H. unfold orn_name in H. apply app_inv_head in H. apply dec3_inj. exact H. Qed.

Lemma variant_name_inj : forall base a b, variant_name base a = variant_name base b -> a = b.
Proof.
  intros base a b H. unfold variant_name in H. apply app_inv_head in H.
  injection H as H. apply dec_inj. exact H.
Qed.

Lemma alt_name_inj : forall base a b, alt_name base a = alt_name base b -> a = b.
Proof.
  intros base a b H. unfold alt_name in H.
  destruct (a =? 0) eqn:Ea; destruct (b =? 0) eqn:Eb.
  - apply N.eqb_eq in Ea, Eb. congruence.
  - exfalso. rewrite <- (app_nil_r base) in H at 1. apply app_inv_head in H. discriminate.
  - exfalso. rewrite <- (app_nil_r base) in H at 2. apply app_inv_head in H. discriminate.
  - apply app_inv_head in H. apply app_inv_head in H. apply dec_inj. exact H.
Qed.

Lemma orn_name_nonempty : forall k, orn_name k <> [].
Proof. intros k. unfold orn_name. discriminate. Qed.

Lemma variant_name_nonempty : forall base k, variant_name base k <> [].
Proof. intros base k. unfold variant_name. destruct base; discriminate. Qed.

(* ---- the pigeonhole argument ---- *)
Lemma find_free_out_of_fuel : forall f fuel used k,
  find_free f fuel used k = OutOfFuel ->
  forall j, (j < fuel)%nat -> In (f (k + N.of_nat j)) used.
Proof.
  intros f fuel. induction fuel as [|fuel IH]; intros used k H j Hj; [lia|].
  cbn [find_free] in H. destruct (mem (f k) used) eqn:E; [|discriminate].
  destruct j as [|j].
  - rewrite N.add_0_r. apply mem_In. exact E.
  - replace (k + N.of_nat (S j)) with (k + 1 + N.of_nat j) by lia.
    apply IH; [exact H|lia].
Qed.

(* `fuel |used|+1 suffices`: the candidates f k, f (k+1), ... are pairwise
   distinct, so |used|+1 of them cannot all be members of used *)
Lemma find_free_fuel : forall f used k,
  (forall a b, f a = f b -> a = b) ->
  find_free f (S (length used)) used k <> OutOfFuel.
Proof.
  intros f used k Hinj H.
  pose proof (find_free_out_of_fuel f _ used k H) as Hall.
  set (cands := map (fun j => f (k + N.of_nat j)) (seq 0 (S (length used)))).
  assert (Hnd : NoDup cands).
  { unfold cands. apply Injective_map_NoDup; [|apply seq_NoDup].
    intros a b Hab. apply Hinj in Hab. lia. }
  assert (Hincl : incl cands used).
  { intros x Hx. unfold cands in Hx. apply in_map_iff in Hx. destruct Hx as [j [<- Hj]].
    apply in_seq in Hj. apply Hall. lia. }
  pose proof (NoDup_incl_length Hnd Hincl) as Hlen.
  unfold cands in Hlen. rewrite map_length, seq_length in Hlen. lia.
Qed.

Lemma find_free_spec : forall f fuel used k,
  good (fun r => ~ In (fst r) used /\ exists j, fst r = f j) (find_free f fuel used k) \/
  find_free f fuel used k = OutOfFuel.
Proof.
  intros f fuel. induction fuel as [|fuel IH]; intros used k; cbn [find_free].
  - right. reflexivity.
  - destruct (mem (f k) used) eqn:E.
    + apply IH.
    + left. cbn. split; [apply mem_false; exact E|]. exists k. reflexivity.
Qed.

Lemma find_free_good : forall f used k,
  (forall a b, f a = f b -> a = b) ->
  good (fun r => ~ In (fst r) used /\ exists j, fst r = f j) (find_free f (S (length used)) used k).
Proof.
  intros f used k Hinj. destruct (find_free_spec f (S (length used)) used k) as [H|H]; [exact H|].
  exfalso. exact (find_free_fuel f used k Hinj H).
Qed.

Lemma find_free_not_panic : forall f fuel used k, find_free f fuel used k <> Panic.
Proof.
  intros f fuel. induction fuel as [|fuel IH]; intros used k; cbn [find_free]; [discriminate|].
  destruct (mem (f k) used); [apply IH|discriminate].
Qed.

(* makeVariant *)
Lemma make_variant_good : forall used base,
  good (fun r => snd r = fst r :: used /\ ~ In (fst r) used /\ (base <> [] -> fst r <> []))
       (make_variant used base).
Proof.
  intros used base. unfold make_variant. destruct (mem base used) eqn:E.
  - apply good_bind with (Q := fun r => ~ In (fst r) used /\ exists j, fst r = variant_name base j).
    + apply find_free_good. intros a b. apply variant_name_inj.
    + intros [nm k'] _ [Hn [j Hj]]. cbn [fst snd good] in *. split; [reflexivity|]. split; [exact Hn|].
      intros _. rewrite Hj. apply variant_name_nonempty.
  - cbn. split; [reflexivity|]. split; [apply mem_false; exact E|]. auto.
Qed.

Lemma make_variant_not_panic : forall used base, make_variant used base <> Panic.
Proof.
  intros used base. unfold make_variant. destruct (mem base used); [|discriminate].
  pose proof (find_free_not_panic (variant_name base) (S (length used)) used 1) as H.
  destruct (find_free (variant_name base) (S (length used)) used 1); cbn; congruence.
Qed.
