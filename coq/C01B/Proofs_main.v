(* C01B/Proofs_main.v — the file-level clauses of property C01, from
   file_cycle (Proofs_file.v), C01's theorems on the glue and C03's theorems
   on the container. *)
From Coq Require Import List NArith ZArith Bool Arith Lia Permutation.
From Coq Require Import ZifyBool ZifyNat ZifyN.
From Common Require Import Bytes Outcome.
From Gen Require Import Consts C03.
From C01 Require Import Str Model Spec Model2 Proofs Proofs_merge.
From C03 Require Model Spec Proofs_Read Proofs_Write Proofs_Layout Proofs_Order Props.
From C12 Require Model Model2 Model3 Util Proofs_tables.
From C01B Require Import Model Spec Proofs_container Proofs_tl Proofs_codecs Proofs_assemble Proofs_file.
Import ListNotations.
Local Open Scope Z_scope.

(* ================================================================== *)
(* (1) Read(Write(F)) = normalize F at the byte level                  *)

Theorem file_normal_form O F :
  file_domain O F ->
  exists b, M_font_write_bytes O F = Ok b /\ M_font_read_bytes O b = Ok (normalize F).
Proof.
  intros D. destruct (file_cycle O F D) as (b & [Hd _ Hw Hr]).
  exists b. split; [exact Hw|].
  unfold M_font_read_bytes. rewrite Hr. cbn [obind].
  destruct (write_read_normal F (fd_range O F D)) as (t & Ht & Hm).
  rewrite Hd in Ht. injection Ht as <-. exact Hm.
Qed.

(* ================================================================== *)
(* (2) byte fixed point                                                *)

Theorem file_second_generation O F :
  file_domain O F -> file_domain O (normalize F) ->
  exists b1 b2,
    M_font_write_bytes O F = Ok b1 /\ M_font_read_bytes O b1 = Ok (normalize F) /\
    M_font_write_bytes O (normalize F) = Ok b2 /\ M_font_read_bytes O b2 = Ok (normalize F) /\
    (forall F2, M_font_read_bytes O b2 = Ok F2 -> M_font_write_bytes O F2 = Ok b2).
Proof.
  intros D D1.
  destruct (file_normal_form O F D) as (b1 & Hw1 & Hr1).
  destruct (file_normal_form O (normalize F) D1) as (b2 & Hw2 & Hr2).
  rewrite (normalize_idem F (in_range_version F (fd_range O F D))) in Hr2.
  exists b1, b2. repeat split; try assumption.
  intros F2 H2. rewrite Hr2 in H2. injection H2 as <-. exact Hw2.
Qed.

(* the bytes do not depend on the order in which the Go map tableData is
   iterated by header.Write ... *)
Theorem file_table_order_irrelevant O F s ts ts' :
  file_domain O F -> M_file_tables O F = Ok (s, ts) -> Permutation ts ts' ->
  C03.Model.M_write s ts' = C03.Model.M_write s ts.
Proof.
  intros D Hft Hp. destruct (file_cycle O F D) as (b & [_ (s0 & ts0 & Hft0 & _ & Hmap & _) _ _]).
  rewrite Hft in Hft0. injection Hft0 as <- <-.
  symmetry. apply C03.Props.write_order_independent; assumption.
Qed.

(* ... nor on the order in which Font.Write ranges over glyf.Outlines.Tables:
   with the pass-through tables inserted in any other order the table map has
   the same entries *)
Lemma ex_find_perm nm ex ex' :
  NoDup (map fst ex) -> Permutation ex ex' -> ex_find nm ex = ex_find nm ex'.
Proof.
  intros Hn Hp.
  assert (Hn' : NoDup (map fst ex')) by (eapply Permutation_NoDup; [apply Permutation_map; exact Hp|exact Hn]).
  assert (Hc : forall l, NoDup (map fst l) -> forall d, ex_find nm l = Some d <-> In (nm, d) l).
  { intros l Hl d. unfold ex_find. split.
    - destruct (find _ l) as [e|] eqn:E; [|discriminate]. intros H. injection H as <-.
      apply find_some in E. destruct E as [Hin Heq]. destruct (name_eqb_spec (fst e) nm) as [<-|]; [|discriminate].
      now destruct e.
    - intros Hin. induction l as [|e l IH]; [contradiction|].
      cbn [map] in Hl. inversion Hl as [|? ? Hnin Hl']; subst. cbn [find].
      destruct Hin as [->|Hin]; [cbn [fst snd]; now rewrite name_eqb_refl|].
      destruct (name_eqb_spec (fst e) nm) as [E|E].
      + exfalso. apply Hnin. rewrite E. apply in_map_iff. exists (nm, d). auto.
      + now apply IH. }
  destruct (ex_find nm ex) as [d|] eqn:E.
  - apply (Hc ex Hn) in E. symmetry. apply (Hc ex' Hn'). eapply Permutation_in; eassumption.
  - destruct (ex_find nm ex') as [d'|] eqn:E'; [|reflexivity].
    apply (Hc ex' Hn') in E'. apply Permutation_sym in Hp.
    pose proof (Permutation_in _ Hp E') as Hin. apply (Hc ex Hn) in Hin. congruence.
Qed.

Lemma tl_wf_same_entries m m' :
  tl_wf m -> tl_wf m' -> (forall nm, tl_get nm m = tl_get nm m') -> Permutation m m'.
Proof.
  intros Hm Hm' Hg.
  assert (Hin : forall (a b : list C03.Model.table), tl_wf a -> tl_wf b ->
                 (forall nm, tl_get nm a = tl_get nm b) -> forall t, In t a -> In t b).
  { intros a b Ha Hb Hab [nm od] Hin.
    destruct Ha as [Hna Hfa]. pose proof Hfa as Hfa'. rewrite Forall_forall in Hfa'.
    destruct (Hfa' _ Hin) as [Hsome _]. cbn [snd] in Hsome. destruct od as [d|]; [|congruence].
    apply (tl_get_in a nm d (conj Hna Hfa)) in Hin. rewrite Hab in Hin. now apply (tl_get_in b nm d Hb). }
  apply NoDup_Permutation.
  - destruct Hm as [Hn _]. eapply NoDup_map_inv. exact Hn.
  - destruct Hm' as [Hn _]. eapply NoDup_map_inv. exact Hn.
  - intros t. split; [apply Hin; assumption|apply Hin; try assumption]. intros nm. symmetry. apply Hg.
Qed.

Theorem file_extras_order_irrelevant cff hhea hm cm os2 name post cffd gt maxp head gdef gsub gpos ex' s :
  extras_ok (g_extra gt) -> Permutation (g_extra gt) ex' ->
  C03.Model.M_write s (assemble cff hhea hm cm os2 name post cffd
                         (mkGlyfTables (g_glyf gt) (g_loca gt) (g_locafmt gt) ex') maxp head gdef gsub gpos)
  = C03.Model.M_write s (assemble cff hhea hm cm os2 name post cffd gt maxp head gdef gsub gpos).
Proof.
  intros Hex Hp.
  set (gt' := mkGlyfTables (g_glyf gt) (g_loca gt) (g_locafmt gt) ex').
  assert (Hex' : extras_ok (g_extra gt')).
  { destruct Hex as [Hn Hf]. split; cbn [g_extra gt'].
    - eapply Permutation_NoDup; [apply Permutation_map; exact Hp|exact Hn].
    - eapply Permutation_Forall; eassumption. }
  pose proof (assemble_wf cff hhea hm cm os2 name post cffd gt maxp head gdef gsub gpos Hex) as W.
  pose proof (assemble_wf cff hhea hm cm os2 name post cffd gt' maxp head gdef gsub gpos Hex') as W'.
  apply C03.Props.write_order_independent; [apply tl_wf_map_ok; exact W'|].
  apply tl_wf_same_entries; [exact W'|exact W|].
  intros nm. rewrite !tl_get_assemble. cbv zeta. destruct cff; [reflexivity|].
  replace (g_loca gt') with (g_loca gt) by reflexivity.
  replace (g_glyf gt') with (g_glyf gt) by reflexivity.
  f_equal. f_equal. f_equal. f_equal. f_equal.
  (* the fold over the pass-through tables *)
  set (acc := pick nm tag_loca _ _).
  destruct (in_dec (list_eq_dec N.eq_dec) nm pass_names) as [Hpn|Hpn].
  - (* one of the four names: the accumulator holds nothing under it *)
    assert (Eacc : acc = None).
    { unfold acc, pick, pick_opt, pass_names in *.
      destruct Hpn as [<-|[<-|[<-|[<-|[]]]]]; eval_names;
        repeat match goal with |- context [match ?od with Some _ => _ | None => _ end] => destruct od end; reflexivity. }
    rewrite Eacc, (fold_extras_find gt' Hex'), (fold_extras_find gt Hex).
    symmetry. apply ex_find_perm; [exact (proj1 Hex)|exact Hp].
  - rewrite (fold_extras_other gt' Hex' nm acc Hpn), (fold_extras_other gt Hex nm acc Hpn). reflexivity.
Qed.

(* ================================================================== *)
(* (3) every accepted byte string                                      *)

Lemma In_firstn {A} n : forall (l : list A) x, In x (firstn n l) -> In x l.
Proof. induction n as [|n IH]; intros [|a l] x H; cbn [firstn] in H; try contradiction. destruct H; [now left|right; now apply IH]. Qed.

Lemma slice_bytes b off len : Bytes b -> Bytes (C03.Model.slice_table b off len).
Proof.
  unfold Bytes, C12.Util.Bytes, C03.Model.slice_table. intros H.
  destruct (N.of_nat (length b) <=? off)%N; [constructor|].
  apply Forall_forall. intros x Hx. apply In_firstn in Hx.
  assert (Hs : forall n (l : list N) y, In y (skipn n l) -> In y l).
  { induction n as [|n IH]; intros [|a l] y Hy; cbn [skipn] in Hy; auto. right. now apply IH. }
  apply Hs in Hx. rewrite Forall_forall in H. now apply H.
Qed.

Lemma read_tables_bytes b s rt tg d :
  Bytes b -> C03.Model.M_read_tables b = Ok (s, rt) -> tb_get tg rt = Some d -> Bytes d.
Proof.
  intros Hb Hr Hg. unfold C03.Model.M_read_tables in Hr.
  apply obind_ok in Hr. destruct Hr as (r & _ & Hr). injection Hr as _ <-.
  unfold tb_get, tb_find in Hg.
  destruct (find _ _) as [e|] eqn:E; [|discriminate]. cbn [option_map snd] in Hg. injection Hg as <-.
  apply find_some in E. destruct E as [Hin _]. apply in_map_iff in Hin. destruct Hin as (t & <- & _).
  cbn [snd]. now apply slice_bytes.
Qed.

Lemma os2_project_decoded i : C12.Proofs_tables.os2_nf i -> os2_decoded (os2_project i) = true.
Proof.
  intros (_ & _ & Hreg & _ & _ & _ & _ & _ & _ & _ & Hca & Hxh & _ & _ & _ & _ & _ & _ & _ & Hpe).
  unfold os2_decoded, os2_project. cbn [o_regular o_bold o_italic o_perm o_cap o_xh].
  destruct (C12.Model2.os_regular i) eqn:Er.
  - destruct (Hreg eq_refl) as [-> ->]. cbn [orb andb negb]. lia.
  - cbn [andb negb]. lia.
Qed.

Lemma head_project_decoded i : C12.Proofs_tables.head_nf i -> head_decoded (head_project i) = true.
Proof.
  intros (Hrev & _ & Hc & Hm & _).
  unfold head_decoded, head_project. cbn [h_rev h_created h_modified].
  assert (Ht : forall g, C12.Proofs_tables.time_ok g -> time_representable (time_of_go g) = true).
  { intros g (_ & _ & Hne). unfold time_of_go, time_representable.
    destruct (C12.Model2.time_is_zero g); [reflexivity|].
    apply negb_true_iff, Z.eqb_neq. exact Hne. }
  rewrite (Ht _ Hc), (Ht _ Hm). unfold C12.Util.U32 in Hrev.
  apply andb_true_iff. split; [|reflexivity]. apply andb_true_iff. split; [|reflexivity]. now apply N.ltb_lt.
Qed.

Lemma opt_dec_ok {A} (od : option (list N)) (dec : list N -> outcome A) (v : option A) :
  opt_dec od dec = Ok v ->
  match v with Some a => exists d, od = Some d /\ dec d = Ok a | None => od = None end.
Proof.
  unfold opt_dec. destruct od as [d|]; [|intros H; injection H as <-; reflexivity].
  destruct (dec d) as [a| | |] eqn:E; cbn [omap obind]; intros H; try discriminate.
  injection H as <-. eauto.
Qed.

Theorem read_tables_decoded O b T :
  Bytes b -> M_font_read_tables O b = Ok T -> tables_decoded T = true.
Proof.
  intros Hb H. unfold M_font_read_tables in H.
  apply obind_ok in H. destruct H as ([s rt] & Hrd & H). cbn [fst snd] in H.
  destruct (negb _); [discriminate|].
  apply obind_ok in H. destruct H as (hd & Hhd & H).
  apply obind_ok in H. destruct H as (mx & _ & H).
  apply obind_ok in H. destruct H as (o2 & Ho2 & H).
  apply obind_ok in H. destruct H as (hm & _ & H).
  apply obind_ok in H. destruct H as (cm & _ & H).
  apply obind_ok in H. destruct H as (nm & _ & H).
  apply obind_ok in H. destruct H as (po & _ & H).
  apply obind_ok in H. destruct H as (ol & _ & H).
  apply obind_ok in H. destruct H as (gdef & _ & H).
  apply obind_ok in H. destruct H as (gsub & _ & H).
  apply obind_ok in H. destruct H as (gpos & _ & H).
  apply obind_ok in H. destruct H as (kern & _ & H).
  injection H as <-. unfold tables_decoded. cbn [t_o2 t_hd].
  apply andb_true_iff. split.
  - apply opt_dec_ok in Ho2. destruct o2 as [v|]; [|reflexivity].
    destruct Ho2 as (d & Hg & Hdec). unfold dec_os2 in Hdec.
    destruct (C12.Model2.M_os2_decode d) as [i| | |] eqn:Ei; cbn [omap obind] in Hdec; try discriminate.
    injection Hdec as <-. apply os2_project_decoded.
    apply (C12.Proofs_tables.os2_decode_nf d i); [|exact Ei].
    exact (read_tables_bytes b s rt _ d Hb Hrd Hg).
  - apply opt_dec_ok in Hhd. destruct hd as [[v fmt]|]; [|reflexivity]. cbn [option_map fst].
    destruct Hhd as (d & Hg & Hdec). unfold dec_head in Hdec.
    destruct (C12.Model2.M_head_decode d) as [i| | |] eqn:Ei; cbn [obind] in Hdec; try discriminate.
    injection Hdec as <- _. apply head_project_decoded.
    apply (C12.Proofs_tables.head_decode_nf d i); [|exact Ei].
    exact (read_tables_bytes b s rt _ d Hb Hrd Hg).
Qed.

Theorem file_accepts_fixed_point O b F0 :
  Bytes b -> M_font_read_bytes O b = Ok F0 ->
  bold_settled F0 = true -> underline_settled F0 = true -> file_domain O F0 ->
  exists b1,
    M_font_write_bytes O F0 = Ok b1 /\ M_font_read_bytes O b1 = Ok F0 /\
    (forall F1, M_font_read_bytes O b1 = Ok F1 -> M_font_write_bytes O F1 = Ok b1).
Proof.
  intros Hb Hr Hbold Hund D.
  unfold M_font_read_bytes in Hr. apply obind_ok in Hr. destruct Hr as (T & HT & Hm).
  pose proof (read_tables_decoded O b T Hb HT) as Hdec.
  destruct (read_fixed_point T F0 Hm Hdec Hbold Hund (fd_range O F0 D)) as (T' & Hc).
  destruct (file_cycle O F0 D) as (b1 & [Hd _ Hw Hrd]).
  exists b1. split; [exact Hw|].
  assert (Hr1 : M_font_read_bytes O b1 = Ok F0).
  { unfold M_font_read_bytes. rewrite Hrd. cbn [obind].
    unfold M_cycle in Hc. rewrite Hd in Hc. cbn [obind] in Hc. cbv zeta in Hc.
    destruct (M_read_merge (M_codec (M_write_tables F0 (ol_widths (f_outl F0)) (font_widths (f_outl F0)))))
      as [f1| | |]; cbn [obind] in Hc; try discriminate.
    now injection Hc as _ <-. }
  split; [exact Hr1|]. intros F1 H1. rewrite Hr1 in H1. injection H1 as <-. exact Hw.
Qed.

(* ================================================================== *)
(* (4) the written file is a well-formed container                     *)

Theorem file_container_wf O F b :
  file_domain O F -> M_font_write_bytes O F = Ok b ->
  C03.Spec.S_wf b /\ C03.Model.file_sum b = header_checksumMagic.
Proof.
  intros D Hw. destruct (file_cycle O F D) as (b' & [_ (s & ts & Hft & Hout & Hmap & Hsc & Hn & (hb & Hin & Hlen & _)) Hw' _]).
  rewrite Hw in Hw'. injection Hw' as <-.
  pose proof (fd_fits O F D s ts Hft) as Hfit.
  split.
  - exact (C03.Props.write_wf s ts b Hmap Hout Hn Hfit).
  - apply (C03.Props.whole_file_checksum s ts b Hmap Hout Hn Hfit).
    destruct (C03.Props.write_directory s ts b Hmap Hout Hn Hfit) as (_ & _ & Hperm).
    unfold C03.Model.has_head. apply existsb_exists.
    assert (Hp : In (C03.Model.tag_head, N.of_nat (length hb))
                    (map (fun r => (C03.Model.r_tag r, C03.Model.r_len r)) (C03.Model.dir_of b))).
    { eapply Permutation_in; [symmetry; exact Hperm|]. apply in_map_iff. exists (C03.Model.tag_head, hb). auto. }
    apply in_map_iff in Hp. destruct Hp as (r & Er & Hr). injection Er as Et El.
    exists r. split; [exact Hr|]. rewrite Et, El, Hlen. reflexivity.
Qed.

(* ================================================================== *)
(* (5) head.checkSumAdjustment                                         *)

(* The head table Read finds in the written file has the length of the table
   Font.Write encoded, equals it outside bytes 8..11 (which header.Write
   patches), decodes to the same head.Info (head.Read does not look at the
   field) - namely to M_codec's head value and the locaFormat written -, and
   these four bytes make the word sum of the whole file 0xB1B0AFBA. *)
Theorem file_head_adjustment O F b :
  file_domain O F -> M_font_write_bytes O F = Ok b ->
  exists written found,
    length written = 54%nat /\
    tb_get tag_head (rt_of b) = Some found /\ length found = length written /\
    C03.Model.clear_adj C03.Model.tag_head found = C03.Model.clear_adj C03.Model.tag_head written /\
    dec_head found = dec_head written /\
    (exists fmt, dec_head found =
       Ok (codec_head (mkHead (f_version F) (f_upm F) (f_ctime F) (f_mtime F) (f_bold F) (negb (f_angle F =? 0))), fmt)) /\
    C03.Model.file_sum b = header_checksumMagic.
Proof.
  intros D Hw. destruct (file_container_wf O F b D Hw) as [_ Hsum].
  destruct (file_cycle O F D) as (b' & [_ (s & ts & Hft & Hout & Hmap & Hsc & Hn & (hb & Hin & Hlen & (d' & Hg & Hl & Ha & Hd))) Hw' Hrd]).
  rewrite Hw in Hw'. injection Hw' as <-.
  exists hb, d'. repeat split; try assumption.
  (* what it decodes to: read off the decoded tables *)
  unfold M_font_read_tables in Hrd.
  apply obind_ok in Hrd. destruct Hrd as ([s' rt] & Hrt & Hrd). cbn [fst snd] in Hrd.
  assert (Ert : rt = rt_of b).
  { pose proof (fd_fits O F D s ts Hft) as Hfit.
    assert (Hp : Forall (fun t : C03.Model.table => forallb C03.Model.printable (fst t) = true) ts /\
                 (N.of_nat (length (C03.Model.M_filter ts)) <= header_maxTables)%N).
    { clear - Hft D. unfold M_file_tables in Hft.
      rewrite (dom_widths O F D) in Hft. cbn [obind fst snd] in Hft.
      destruct (dom_hmtx O F D) as (hhea & hm & Hhh & _).
      destruct (dom_maxp O F D) as (mxb & Hmx & _).
      assert (Hex : ol_cff (f_outl F) = false -> extras_ok (g_extra (q_glyf_enc O (f_outl F)))).
      { intros E. exact (proj1 (proj2 (proj2 (ok_glyf O F (fd_opaque O F D) E)))). }
      pose proof (file_tables_eq O F D hhea hm mxb Hhh Hmx) as Hft'.
      unfold M_file_tables in Hft'. rewrite (dom_widths O F D) in Hft'. cbn [obind fst snd] in Hft'.
      rewrite Hft' in Hft. injection Hft as _ <-.
      pose proof (A_wf O F hhea hm mxb Hex) as Hwf.
      split; [now apply tl_wf_printable|].
      pose proof (filter_length _ Hwf). pose proof (A_len O F hhea hm mxb Hex). unfold header_maxTables. lia. }
    destruct Hp as [Hp Hc].
    pose proof (proj1 (container_read s ts b Hmap Hout Hsc Hp Hc Hfit)) as Hr2.
    rewrite Hrt in Hr2. now injection Hr2. }
  subst rt.
  destruct (negb _); [discriminate|].
  apply obind_ok in Hrd. destruct Hrd as (hd & Hhd & Hrd).
  rewrite Hg in Hhd. unfold opt_dec in Hhd.
  destruct (dec_head d') as [[v fmt]| | |] eqn:Ed; cbn [omap obind] in Hhd; try discriminate.
  injection Hhd as <-. exists fmt.
  repeat (apply obind_ok in Hrd; destruct Hrd as (? & _ & Hrd)).
  apply (f_equal (fun o : outcome tables => match o with Ok t => t_hd t | _ => None end)) in Hrd.
  cbn [t_hd M_codec option_map fst M_write_tables] in Hrd.
  injection Hrd as ->. reflexivity.
Qed.
