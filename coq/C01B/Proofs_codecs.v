(* C01B/Proofs_codecs.v — the real codecs of C12 on C01's table values:
   decode (encode v) = M_codec's component of v, from C12's round-trip
   theorems (head_roundtrip, maxp_roundtrip, hmtx_roundtrip_glyph_counts,
   post_header_roundtrip) and, for OS/2 values that are not in C12's normal
   form (REGULAR together with BOLD/ITALIC, permission values outside 0..3,
   negative cap/x-height), by replaying C12's proof with its lemmas. *)
From Coq Require Import List NArith ZArith Bool Arith Lia.
From Coq Require Import ZifyBool ZifyNat ZifyN.
From Common Require Import Bytes Outcome.
From C01 Require Import Str Model Spec Model2.
From C03 Require Model.
From C12 Require Import Codec Util Proofs_hmtx Proofs_tables.
From C12 Require Model Model2 Model3 Props.
From C01B Require Import Model Spec.
Import ListNotations.
Ltac Zify.zify_post_hook ::= Z.div_mod_to_equations.
Local Open Scope Z_scope.

(* ================================================================== *)
(* head                                                                *)

Definition norm_time (t : option Z) : C12.Model2.gotime :=
  match codec_time t with
  | None => C12.Model2.mkTime C12.Model2.zero_unix 0
  | Some u => C12.Model2.mkTime u 0
  end.

Lemma zero1904_eq : zero1904 = Gen.C12.head_zeroTime.
Proof. reflexivity. Qed.

Lemma encode_time_norm t :
  time_rng t -> C12.Model2.M_encodeTime (go_time t) = C12.Model2.M_encodeTime (norm_time t).
Proof.
  intros Hr. destruct t as [u|]; [|reflexivity].
  destruct Hr as [Hi Hz]. unfold go_time, norm_time, codec_time.
  destruct (u - zero1904 =? 0) eqn:E.
  - assert (u = zero1904) by lia. subst u. vm_compute. reflexivity.
  - unfold C12.Model2.M_encodeTime, C12.Model2.time_is_zero. cbn [C12.Model2.t_sec C12.Model2.t_nsec].
    replace (u =? C12.Model2.zero_unix) with false by (symmetry; apply Z.eqb_neq; exact Hz).
    rewrite andb_false_r. cbn [andb]. reflexivity.
Qed.

Lemma norm_time_ok t : time_rng t -> time_ok (norm_time t).
Proof.
  intros Hr. unfold norm_time, codec_time, time_ok.
  destruct t as [u|].
  - destruct Hr as [Hi Hz]. destruct (u - zero1904 =? 0) eqn:E; cbn [C12.Model2.t_sec C12.Model2.t_nsec].
    + unfold C12.Model2.zero_unix, Gen.C12.head_zeroTime, C12.Util.I64. repeat split; lia.
    + split; [reflexivity|]. split; [exact Hi|]. unfold Gen.C12.head_zeroTime. unfold zero1904 in E. lia.
  - cbn [C12.Model2.t_sec C12.Model2.t_nsec].
    unfold C12.Model2.zero_unix, Gen.C12.head_zeroTime, C12.Util.I64. repeat split; lia.
Qed.

Lemma time_of_norm t : time_rng t -> time_of_go (norm_time t) = codec_time t.
Proof.
  intros Hr. unfold norm_time, time_of_go, codec_time. destruct t as [u|]; [|reflexivity].
  destruct Hr as [Hi Hz]. destruct (u - zero1904 =? 0); [reflexivity|].
  unfold C12.Model2.time_is_zero. cbn [C12.Model2.t_sec C12.Model2.t_nsec].
  replace (u =? C12.Model2.zero_unix) with false by (symmetry; apply Z.eqb_neq; exact Hz).
  reflexivity.
Qed.

Lemma head_codec h bbox fmt :
  head_rng h -> box_ok bbox -> I16 fmt ->
  dec_head (enc_head h bbox fmt) = Ok (codec_head h, fmt).
Proof.
  intros (Hrev & Hupm & Hc & Hm) Hb Hf.
  set (i0 := C12.Model2.mkHead (h_rev h) true true false (h_upm h) (norm_time (h_created h))
                               (norm_time (h_modified h)) bbox (h_bold h) (h_italic h) false false false 7 fmt).
  assert (Henc : enc_head h bbox fmt = C12.Model2.M_head_encode i0).
  { unfold enc_head, head_embed, C12.Model2.M_head_encode, i0.
    cbn [C12.Model2.hd_created C12.Model2.hd_modified C12.Model2.hd_revision C12.Model2.hd_upem
         C12.Model2.hd_bbox C12.Model2.hd_lowestppem C12.Model2.hd_locafmt].
    rewrite (encode_time_norm _ Hc), (encode_time_norm _ Hm). reflexivity. }
  assert (Hnf : head_nf i0).
  { unfold head_nf, i0. cbn [C12.Model2.hd_created C12.Model2.hd_modified C12.Model2.hd_revision C12.Model2.hd_upem
         C12.Model2.hd_bbox C12.Model2.hd_lowestppem C12.Model2.hd_locafmt].
    refine (conj Hrev (conj Hupm (conj (norm_time_ok _ Hc) (conj (norm_time_ok _ Hm) (conj Hb (conj _ Hf)))))).
    unfold C12.Util.U16. lia. }
  unfold dec_head. rewrite Henc, (C12.Props.head_roundtrip i0 Hnf). cbn [obind].
  unfold head_project, i0, codec_head.
  cbn [C12.Model2.hd_created C12.Model2.hd_modified C12.Model2.hd_revision C12.Model2.hd_upem
       C12.Model2.hd_bold C12.Model2.hd_italic C12.Model2.hd_locafmt].
  now rewrite (time_of_norm _ Hc), (time_of_norm _ Hm).
Qed.

Lemma enc_head_length h bbox fmt : length (enc_head h bbox fmt) = 54%nat.
Proof. unfold enc_head. now rewrite (C12.Props.head_has_headLength _). Qed.

(* head.Read does not look at checkSumAdjustment (bytes 8..11): two tables that
   agree outside this field decode alike *)
Lemma head_decode_ignores_adjustment d d' :
  length d' = length d ->
  C03.Model.clear_adj C03.Model.tag_head d' = C03.Model.clear_adj C03.Model.tag_head d ->
  C12.Model2.M_head_decode d' = C12.Model2.M_head_decode d.
Proof.
  intros Hl H. unfold C03.Model.clear_adj, C03.Model.clear_head, C03.Model.is_head in H.
  cbn [fst snd] in H. rewrite N.eqb_refl in H. cbn [andb] in H. rewrite Hl in H.
  destruct (12 <=? length d)%nat eqn:E; cbn [snd] in H; [|now rewrite H].
  apply Nat.leb_le in E.
  destruct d as [|a0 [|a1 [|a2 [|a3 [|a4 [|a5 [|a6 [|a7 [|a8 [|a9 [|a10 [|a11 r]]]]]]]]]]]]; cbn [length] in E; try lia.
  destruct d' as [|b0 [|b1 [|b2 [|b3 [|b4 [|b5 [|b6 [|b7 [|b8 [|b9 [|b10 [|b11 r']]]]]]]]]]]]; cbn [length] in Hl; try lia.
  unfold C03.Model.put32 in H. cbn [firstn skipn Nat.add app] in H.
  injection H as -> -> -> -> -> -> -> -> H.
  subst r'. unfold C12.Model2.M_head_decode. cbn [get32 oget]. reflexivity.
Qed.

(* ================================================================== *)
(* maxp                                                                *)

Lemma maxp_codec O (m : N * option N) :
  (1 <= fst m <= 65535)%N ->
  (forall id, snd m = Some id ->
     length (q_maxp_ttf O id) = 13%nat /\ Forall U16 (q_maxp_ttf O id) /\ q_maxp_id O (q_maxp_ttf O id) = id) ->
  exists b, enc_maxp O m = Ok b /\ dec_maxp O b = Ok m /\ b <> [].
Proof.
  intros Hn Hid. destruct m as [n oid]. cbn [fst snd] in *.
  assert (Hnf : maxp_nf (maxp_embed O (n, oid))).
  { unfold maxp_nf, maxp_embed. cbn [fst snd C12.Model2.mx_numglyphs C12.Model2.mx_ttf]. split; [lia|].
    destruct oid as [id|]; cbn [option_map]; [|exact I]. destruct (Hid id eq_refl) as (H1 & H2 & _). split; assumption. }
  destruct (C12.Props.maxp_roundtrip _ Hnf) as (b & He & Hd).
  exists b. split; [exact He|]. split.
  - unfold dec_maxp. rewrite Hd. cbn [omap obind]. unfold maxp_project, maxp_embed.
    cbn [fst snd C12.Model2.mx_numglyphs C12.Model2.mx_ttf]. rewrite N2Z.id. f_equal. f_equal.
    destruct oid as [id|]; cbn [option_map]; [|reflexivity]. destruct (Hid id eq_refl) as (_ & _ & H3). now rewrite H3.
  - intros ->. unfold enc_maxp, C12.Model2.M_maxp_encode in He.
    destruct (_ || _); [discriminate|]. destruct (C12.Model2.mx_ttf _); discriminate.
Qed.

(* ================================================================== *)
(* OS/2                                                                *)

Lemma os2_sel_agree o x : C12.Model2.os2_sel (os2_embed o x) = os2_sel o.
Proof.
  unfold C12.Model2.os2_sel, os2_sel, os2_embed.
  cbn [C12.Model2.os_regular C12.Model2.os_italic C12.Model2.os_bold C12.Model2.os_oblique].
  destruct (o_regular o), (o_italic o), (o_bold o), (o_oblique o); reflexivity.
Qed.

Lemma os2_sel_u16 o : U16 (os2_sel o).
Proof.
  unfold os2_sel, U16, C12.Util.U16.
  destruct (o_regular o), (o_italic o), (o_bold o), (o_oblique o); vm_compute; reflexivity.
Qed.

Lemma os2_sel_has o : C12.Model2.has (os2_sel o) 64 = negb (N.land (os2_sel o) 64 =? 0)%N /\
                      C12.Model2.has (os2_sel o) 512 = negb (N.land (os2_sel o) 512 =? 0)%N.
Proof. split; reflexivity. Qed.

Lemma os2_perm_agree p :
  let pb := C12.Model2.os2_permbits p false false in
  U16 pb /\
  (if C12.Model2.has pb 8 then 1 else if C12.Model2.has pb 4 then 2 else if C12.Model2.has pb 2 then 3 else 0)
    = os2_perm_of_bits (os2_permbits p) /\
  C12.Model2.has pb 256 = false /\ C12.Model2.has pb 512 = false.
Proof.
  unfold C12.Model2.os2_permbits, os2_permbits, os2_perm_of_bits, U16, C12.Util.U16.
  destruct (p =? 3); [vm_compute; repeat split; reflexivity|].
  destruct (p =? 2); [vm_compute; repeat split; reflexivity|].
  destruct (p =? 1); vm_compute; repeat split; reflexivity.
Qed.

Lemma os2_codec o x : os2_rng o x -> dec_os2 (enc_os2 o x) = Ok (codec_os2 o).
Proof.
  intros (Hwe & Hwi & Has & Hde & Hga & Hca & Hxh & Hfa & Hcp & Hav & Hfi & Hla & Hwa & Hwd).
  unfold I16, U16, U64 in *.
  destruct (os2_perm_agree (o_perm o)) as (PU & P1 & P2 & P3). cbv zeta in PU, P1, P2, P3.
  pose proof (os2_sel_u16 o) as SU. unfold U16 in SU.
  assert (Hf16 : C12.Util.U16 (Z.to_N (x_first x))) by (unfold C12.Util.U16; lia).
  assert (Hl16 : C12.Util.U16 (Z.to_N (x_last x))) by (unfold C12.Util.U16; lia).
  assert (Hlo : C12.Util.U32 (o_cpr o mod 4294967296)%N) by (unfold C12.Util.U32; lia).
  assert (Hhi : C12.Util.U32 (o_cpr o / 4294967296)%N) by (unfold C12.Util.U32, C12.Util.U64 in *; lia).
  assert (Hsub : Forall C12.Util.I16 (repeat 0 10)) by (repeat constructor; unfold C12.Util.I16; lia).
  unfold dec_os2, enc_os2, C12.Model2.M_os2_decode, C12.Model2.M_os2_encode.
  rewrite os2_sel_agree.
  unfold os2_embed.
  cbn [C12.Model2.os_weight C12.Model2.os_width C12.Model2.os_bold C12.Model2.os_italic C12.Model2.os_regular
       C12.Model2.os_oblique C12.Model2.os_first C12.Model2.os_last C12.Model2.os_ascent C12.Model2.os_descent
       C12.Model2.os_winascent C12.Model2.os_windescent C12.Model2.os_linegap C12.Model2.os_capheight
       C12.Model2.os_xheight C12.Model2.os_avg C12.Model2.os_sub C12.Model2.os_family C12.Model2.os_panose
       C12.Model2.os_vendor C12.Model2.os_ur C12.Model2.os_cpr C12.Model2.os_perm C12.Model2.os_nosub
       C12.Model2.os_onlybm].
  rt.
  change 10%nat with (length (repeat 0 10)) at 1. rewrite geti16s_puti16s by exact Hsub. cbn [oget]; cbv beta iota. rt.
  change 10%nat with (length (repeat 0%N 10)) at 1. rewrite getn_app. cbn [oget]; cbv beta iota.
  set (ur := C12.Model2.ur_bit57 [0; 0; 0; 0]%N (Z.to_N (x_last x) =? 65535)%N).
  assert (Hur : exists b, ur = [0; b; 0; 0]%N /\ C12.Util.U32 b /\
                 C12.Model2.ur_bit57 ur (Z.to_N (x_last x) =? 65535)%N = ur).
  { unfold ur, C12.Model2.ur_bit57. destruct (Z.to_N (x_last x) =? 65535)%N; eexists; (split; [reflexivity|]);
      (split; [unfold C12.Util.U32; vm_compute; reflexivity|reflexivity]). }
  destruct Hur as (ub & Eur & Hub & Hfix). rewrite Eur.
  assert (H0u : C12.Util.U32 0%N) by (unfold C12.Util.U32; lia).
  assert (Hfall : Forall C12.Util.U32 [0; ub; 0; 0]%N).
  { constructor; [exact H0u|]. constructor; [exact Hub|]. constructor; [exact H0u|]. constructor; [exact H0u|constructor]. }
  rewrite (get32s4_put [0; ub; 0; 0]%N _ 0%N ub 0%N 0%N eq_refl Hfall).
  cbn [oget]; cbv beta iota.
  change (C12.Model2.os2_vendor []) with [32; 32; 32; 32]%N.
  change 4%nat with (length [32; 32; 32; 32]%N) at 1. rewrite getn_app. cbn [oget]; cbv beta iota. rt.
  replace ((5 <? 4)%N) with false by reflexivity.
  replace ((4 <? 3)%N) with false by reflexivity.
  replace ((4 <=? 3)%N) with false by reflexivity.
  replace ((4 <? 2)%N) with false by reflexivity.
  cbv zeta. rewrite at_eof_puti16. rt.
  rewrite get32_put32. cbn [oget]; cbv beta iota. rt.
  cbn [omap obind]. f_equal.
  unfold os2_project, codec_os2.
  cbn [C12.Model2.os_weight C12.Model2.os_width C12.Model2.os_bold C12.Model2.os_italic C12.Model2.os_regular
       C12.Model2.os_oblique C12.Model2.os_ascent C12.Model2.os_descent C12.Model2.os_linegap
       C12.Model2.os_capheight C12.Model2.os_xheight C12.Model2.os_family C12.Model2.os_cpr C12.Model2.os_perm].
  rewrite P1.
  assert (Ecp : (o_cpr o / 4294967296 * 4294967296 + o_cpr o mod 4294967296)%N = o_cpr o) by lia.
  rewrite Ecp. reflexivity.
Qed.

Lemma enc_os2_nonempty o x : enc_os2 o x <> [].
Proof. unfold enc_os2, C12.Model2.M_os2_encode. discriminate. Qed.

(* ================================================================== *)
(* post                                                                *)

Lemma post_codec O (p : t_post) :
  I32 (p_angle p) -> I16 (p_upos p) -> I16 (p_uthick p) ->
  (let v := fst (q_post_tail O (p_names p)) in v = 65536%N \/ v = 131072%N \/ v = 196608%N) ->
  q_post_names O (fst (q_post_tail O (p_names p))) (snd (q_post_tail O (p_names p))) = Ok (p_names p) ->
  dec_post O (enc_post O p) = Ok p.
Proof.
  intros Ha Hu Ht Hv Hn. cbv zeta in Hv.
  assert (Hnf : post_nf (post_hdr_of p)) by (exact (conj Ha (conj Hu Ht))).
  assert (Hv32 : C12.Util.U32 (fst (q_post_tail O (p_names p)))).
  { unfold C12.Util.U32. destruct Hv as [-> | [-> | ->]]; lia. }
  unfold dec_post, enc_post.
  rewrite (C12.Props.post_header_roundtrip _ _ (snd (q_post_tail O (p_names p))) Hnf Hv32).
  assert (Hlen : length (C12.Model2.M_post_encode_header (fst (q_post_tail O (p_names p))) (post_hdr_of p)) = 32%nat)
    by reflexivity.
  assert (Hskip : skipn 32 (C12.Model2.M_post_encode_header (fst (q_post_tail O (p_names p))) (post_hdr_of p)
                            ++ snd (q_post_tail O (p_names p))) = snd (q_post_tail O (p_names p))).
  { rewrite <- Hlen at 1. rewrite skipn_app, skipn_all, Nat.sub_diag. reflexivity. }
  unfold post_result_of.
  destruct Hv as [E | [E | E]]; rewrite E in *; cbn [N.eqb Pos.eqb orb obind post_version fst snd];
    rewrite Hskip, Hn; cbn [obind]; destruct p; reflexivity.
Qed.

Lemma enc_post_nonempty O p : enc_post O p <> [].
Proof. unfold enc_post, C12.Model2.M_post_encode_header. discriminate. Qed.

(* ================================================================== *)
(* hhea + hmtx                                                         *)

Lemma fontbbox_loop_ok boxes : forall first bbox,
  Forall box_ok boxes -> box_ok bbox -> box_ok (C12.Model3.fontbbox_loop boxes first bbox).
Proof.
  induction boxes as [|g t IH]; intros first bbox Hf Hb; [exact Hb|].
  inversion Hf as [|? ? Hg Ht]; subst. cbn [C12.Model3.fontbbox_loop].
  destruct (C12.Model.rect_is_zero g); [now apply IH|].
  destruct first; [now apply IH|]. apply IH; [exact Ht|].
  unfold C12.Model3.rect_extend. destruct (C12.Model.rect_is_zero g); [exact Hb|].
  destruct (C12.Model.rect_is_zero bbox); [exact Hg|].
  destruct Hg as (G1 & G2 & G3 & G4). destruct Hb as (B1 & B2 & B3 & B4).
  unfold box_ok. cbn [C12.Model.llx C12.Model.lly C12.Model.urx C12.Model.ury].
  refine (conj _ (conj _ (conj _ _)));
    match goal with |- I16 (if ?c then _ else _) => destruct c end; assumption.
Qed.

Lemma fontbbox_ok boxes : Forall box_ok boxes -> box_ok (C12.Model3.M_fontbbox boxes).
Proof.
  intros H. apply fontbbox_loop_ok; [exact H|]. unfold box_ok, I16, C12.Util.I16. cbn. lia.
Qed.

Lemma hmtx_codec O (x : t_hmtx) (boxes : list C12.Model.rect) (n : nat) :
  length boxes = n -> (1 <= n)%nat -> (N.of_nat n <= 65535)%N ->
  Forall box_ok boxes ->
  I16 (x_asc x) -> I16 (x_desc x) -> I16 (x_gap x) ->
  I16 (fst (q_caret O (x_angle x))) -> I16 (snd (q_caret O (x_angle x))) ->
  q_angle O (fst (q_caret O (x_angle x))) (snd (q_caret O (x_angle x))) = x_angle x ->
  match x_widths x with Some ws => length ws = n /\ Forall I16 ws | None => True end ->
  exists hhea hm,
    enc_hmtx O x boxes = Ok (hhea, hm) /\ hhea <> [] /\
    (hm = None <-> x_widths x = None) /\ (forall d, hm = Some d -> d <> []) /\
    dec_hmtx O hhea hm = Ok x.
Proof.
  intros Hbl Hn1 Hn2 Hbx Ha Hd Hg Hr1 Hr2 Hang Hw.
  set (i := hinfo_of x boxes).
  set (rise := fst (q_caret O (x_angle x))). set (run := snd (q_caret O (x_angle x))).
  assert (Hok : hinfo_ok i rise run).
  { unfold hinfo_ok, i, hinfo_of. cbn [C12.Model.h_ascent C12.Model.h_descent C12.Model.h_linegap C12.Model.h_caretoffset].
    refine (conj Ha (conj Hd (conj Hg (conj _ (conj Hr1 Hr2))))). unfold C12.Util.I16; lia. }
  assert (Hls : C12.Model.M_lsbs i = Some (map C12.Model.llx boxes)) by reflexivity.
  assert (Hlsr : Forall C12.Util.I16 (map C12.Model.llx boxes)).
  { apply Forall_forall. intros z Hz. apply in_map_iff in Hz. destruct Hz as (r & <- & Hr).
    rewrite Forall_forall in Hbx. apply (Hbx r Hr). }
  destruct (x_widths x) as [ws|] eqn:Ew.
  - destruct Hw as [Hwl Hwr].
    assert (Hiw : C12.Model.h_widths i = Some ws) by (unfold i, hinfo_of; cbn; exact Ew).
    destruct (C12.Props.hmtx_roundtrip_glyph_counts i rise run ws (map C12.Model.llx boxes) Hiw Hls)
      as (hhea & hm & Henc & Hdec).
    + rewrite map_length. congruence.
    + lia.
    + rewrite Hwl. exact Hn2.
    + exact Hwr.
    + exact Hlsr.
    + exact Hok.
    + intros e He. unfold i, hinfo_of in He. cbn in He. injection He as <-. congruence.
    + exists hhea, (Some hm). split; [exact Henc|]. split; [|split; [|split]].
      * destruct (encode_shape i rise run ws (map C12.Model.llx boxes) Hiw Hls) as (a & b & c & d & _ & _ & _ & _ & Hs).
        { rewrite map_length. congruence. }
        { intros e He. unfold i, hinfo_of in He. cbn in He. injection He as <-. congruence. }
        fold i rise run in Henc. unfold enc_hmtx in Henc. fold i rise run in Henc.
        rewrite Hs in Henc. injection Henc as <- _. discriminate.
      * split; discriminate.
      * intros d Ed. injection Ed as <-.
        destruct (encode_shape i rise run ws (map C12.Model.llx boxes) Hiw Hls) as (a & b & c & d & _ & _ & _ & _ & Hs).
        { rewrite map_length. congruence. }
        { intros e He. unfold i, hinfo_of in He. cbn in He. injection He as <-. congruence. }
        unfold enc_hmtx in Henc. fold i rise run in Henc. rewrite Hs in Henc. injection Henc as _ <-.
        destruct ws as [|w ws']; [cbn in Hwl; lia|]. destruct boxes as [|b0 boxes']; [cbn in Hbl; lia|].
        cbn [map C12.Model.hmtx_bytes].
        destruct (C12.Model.M_numLong (w :: ws')); discriminate.
      * unfold dec_hmtx. rewrite Hdec. cbn [omap obind]. unfold hmtx_project.
        cbn [C12.Model.d_ascent C12.Model.d_descent C12.Model.d_linegap C12.Model.d_rise C12.Model.d_run C12.Model.d_widths].
        unfold i, hinfo_of. cbn [C12.Model.h_ascent C12.Model.h_descent C12.Model.h_linegap].
        fold rise run in Hang. rewrite Hang, <- Ew. clear. destruct x; reflexivity.
  - (* no advance widths: hhea only *)
    assert (Hiw : C12.Model.h_widths i = None) by (unfold i, hinfo_of; cbn; exact Ew).
    assert (Hb : exists b, C12.Model.M_minlsb i = Ok b).
    { unfold C12.Model.M_minlsb. rewrite Hls. unfold i, hinfo_of. cbn [C12.Model.h_extents].
      rewrite minlsb_ext_spec by (rewrite map_length; lia). eauto. }
    assert (Hc : C12.Model.M_minrsb i = Ok 0).
    { unfold C12.Model.M_minrsb. rewrite Hiw. unfold i, hinfo_of. cbn [C12.Model.h_extents]. reflexivity. }
    assert (Hx : exists d, C12.Model.M_xmaxext i = Ok d).
    { unfold C12.Model.M_xmaxext. rewrite Hls. unfold i, hinfo_of. cbn [C12.Model.h_extents].
      apply xmaxext_loop_ok. now rewrite map_length. }
    destruct Hb as [b Hb]. destruct Hx as [d Hx].
    eexists. exists None. split; [|split; [|split; [|split]]].
    + unfold enc_hmtx. fold i rise run. unfold C12.Model.M_hmtx_encode. rewrite Hb, Hc, Hx. cbn [obind]. rewrite Hiw. reflexivity.
    + unfold C12.Model.hhea_bytes. discriminate.
    + split; reflexivity.
    + intros ? ?; discriminate.
    + unfold dec_hmtx. rewrite hhea_decode_bytes by (try exact Hok; unfold C12.Util.U16; lia).
      unfold decode_tail. cbn [omap obind]. unfold hmtx_project.
      cbn [C12.Model.d_ascent C12.Model.d_descent C12.Model.d_linegap C12.Model.d_rise C12.Model.d_run C12.Model.d_widths].
      unfold i, hinfo_of. cbn [C12.Model.h_ascent C12.Model.h_descent C12.Model.h_linegap].
      fold rise run in Hang. rewrite Hang, <- Ew. clear. destruct x; reflexivity.
Qed.
