(* C01B/Proofs_tl.v — Font.Write's table map kept as a list (tl_set): lookup,
   invariants, and what C03's M_filter makes of it. *)
From Coq Require Import List NArith ZArith Bool Arith Lia Permutation.
From Common Require Import Bytes Outcome.
From C03 Require Import Model Spec Proofs_Read Proofs_Write.
From C01B Require Import Model.
Import ListNotations.
Local Open Scope N_scope.

Lemma name_eqb_spec a b : reflect (a = b) (name_eqb a b).
Proof.
  unfold name_eqb. revert b. induction a as [|x a IH]; intros [|y b]; cbn [length combine forallb Nat.eqb andb fst snd].
  - constructor; reflexivity.
  - constructor; discriminate.
  - constructor; discriminate.
  - destruct (Nat.eqb_spec (length a) (length b)) as [El|El].
    + specialize (IH b). rewrite El, Nat.eqb_refl in IH. cbn [andb] in IH.
      destruct (N.eqb_spec x y) as [->|Ne]; cbn [andb].
      * destruct IH as [->|Hne]; constructor; [reflexivity|congruence].
      * constructor; congruence.
    + cbn [andb]. constructor. intros E. apply El. congruence.
Qed.

Lemma name_eqb_refl a : name_eqb a a = true.
Proof. destruct (name_eqb_spec a a); congruence. Qed.

(* the data stored under a name *)
Definition tl_get (name : list N) (m : list table) : option (list N) :=
  match find (fun t : table => name_eqb (fst t) name) m with
  | Some t => snd t
  | None => None
  end.

Definition name_ok (nm : list N) : Prop := Forall is_byte nm /\ forallb printable nm = true.

(* distinct names, every entry has data, names are printable bytes *)
Definition tl_wf (m : list table) : Prop :=
  NoDup (map fst m) /\ Forall (fun t : table => snd t <> None /\ name_ok (fst t)) m.

Lemma tl_wf_nil : tl_wf [].
Proof. split; constructor. Qed.

Lemma tl_set_names m nm d :
  forall x, In x (map fst (tl_set m nm d)) <-> x = nm \/ (x <> nm /\ In x (map fst m)).
Proof.
  intros x. unfold tl_set. rewrite map_app, in_app_iff. cbn [map fst In]. split.
  - intros [H|[H|[]]]; [|now left].
    apply in_map_iff in H. destruct H as (t & <- & Ht). apply filter_In in Ht. destruct Ht as [Ht Hne].
    right. split; [|now apply in_map].
    destruct (name_eqb_spec (fst t) nm); [discriminate|assumption].
  - intros [->|[Hne H]]; [right; now left|]. left.
    apply in_map_iff in H. destruct H as (t & <- & Ht). apply in_map. apply filter_In. split; [assumption|].
    destruct (name_eqb_spec (fst t) nm); [contradiction|reflexivity].
Qed.

Lemma NoDup_map_filter {A B} (f : A -> B) (p : A -> bool) l : NoDup (map f l) -> NoDup (map f (filter p l)).
Proof.
  induction l as [|x l IH]; intros H; [constructor|]. cbn [map] in H. inversion H as [|? ? Hn H']; subst.
  cbn [filter]. destruct (p x); [|now apply IH]. cbn [map]. constructor; [|now apply IH].
  intros Hin. apply Hn. apply in_map_iff in Hin. destruct Hin as (y & E & Hy). apply filter_In in Hy.
  apply in_map_iff. exists y. tauto.
Qed.

Lemma NoDup_app_single {A} (l : list A) x : NoDup l -> ~ In x l -> NoDup (l ++ [x]).
Proof.
  induction l as [|y l IH]; intros Hn Hx; cbn [app]; [constructor; [intros []|constructor]|].
  inversion Hn as [|? ? Hy Hn']; subst. constructor.
  - rewrite in_app_iff. intros [H|[H|[]]]; [contradiction|]. subst. apply Hx. now left.
  - apply IH; [assumption|]. intros H. apply Hx. now right.
Qed.

Lemma tl_wf_set m nm d : tl_wf m -> name_ok nm -> tl_wf (tl_set m nm d).
Proof.
  intros [Hn Hf] Hok. split.
  - unfold tl_set. rewrite map_app. cbn [map fst].
    apply NoDup_app_single.
    + now apply NoDup_map_filter.
    + intros Hin. apply in_map_iff in Hin. destruct Hin as (t & E & Ht). apply filter_In in Ht.
      destruct Ht as [_ Hne]. rewrite <- E in Hne. now rewrite name_eqb_refl in Hne.
  - unfold tl_set. apply Forall_app. split.
    + rewrite Forall_forall in *. intros t Ht. apply filter_In in Ht. apply Hf. tauto.
    + constructor; [|constructor]. cbn [fst snd]. split; [discriminate|assumption].
Qed.

Lemma tl_get_nil nm : tl_get nm [] = None.
Proof. reflexivity. Qed.

Lemma find_app {A} (p : A -> bool) l1 l2 :
  find p (l1 ++ l2) = match find p l1 with Some x => Some x | None => find p l2 end.
Proof. induction l1 as [|x l IH]; cbn [app find]; [reflexivity|]. destruct (p x); [reflexivity|exact IH]. Qed.

Lemma find_filter_neg {A} (p q : A -> bool) l :
  (forall x, p x = true -> q x = true) -> find p (filter q l) = find p l.
Proof.
  intros H. induction l as [|x l IH]; [reflexivity|]. cbn [filter find].
  destruct (q x) eqn:Eq; cbn [find].
  - destruct (p x); [reflexivity|exact IH].
  - destruct (p x) eqn:Ep; [|exact IH]. apply H in Ep. congruence.
Qed.

Lemma find_filter_none {A} (p q : A -> bool) l :
  (forall x, p x = true -> q x = false) -> find p (filter q l) = None.
Proof.
  intros H. induction l as [|x l IH]; [reflexivity|]. cbn [filter].
  destruct (q x) eqn:Eq; [|exact IH]. cbn [find].
  destruct (p x) eqn:Ep; [|exact IH]. apply H in Ep. congruence.
Qed.

Lemma tl_get_set m nm nm' d :
  tl_get nm (tl_set m nm' d) = if name_eqb nm nm' then Some d else tl_get nm m.
Proof.
  unfold tl_get, tl_set. rewrite find_app.
  destruct (name_eqb_spec nm nm') as [->|Hne].
  - rewrite find_filter_none.
    + cbn [find fst snd]. now rewrite name_eqb_refl.
    + intros x Hx. destruct (name_eqb_spec (fst x) nm'); [reflexivity|discriminate].
  - rewrite find_filter_neg.
    + destruct (find _ m) as [t|]; [reflexivity|]. cbn [find fst].
      destruct (name_eqb_spec nm' nm); [congruence|reflexivity].
    + intros x Hx. destruct (name_eqb_spec (fst x) nm) as [E|]; [|discriminate].
      destruct (name_eqb_spec (fst x) nm'); [congruence|reflexivity].
Qed.

Lemma tl_get_set_tag m nm tag d :
  tl_get nm (tl_set_tag m tag d) = if name_eqb nm (be32 tag) then Some d else tl_get nm m.
Proof. apply tl_get_set. Qed.

Lemma tl_get_set_opt m nm tag od :
  tl_get nm (tl_set_opt m tag od) =
  match od with Some d => if name_eqb nm (be32 tag) then Some d else tl_get nm m | None => tl_get nm m end.
Proof. destruct od; [apply tl_get_set|reflexivity]. Qed.

(* the pass-through tables: the last entry under a name counts *)
Definition ex_get (nm : list N) (ex : list (list N * list N)) : option (list N) :=
  fold_left (fun acc e => if name_eqb nm (fst e) then Some (snd e) else acc) ex None.

Lemma tl_get_fold ex : forall m nm,
  tl_get nm (fold_left (fun m e => tl_set m (fst e) (snd e)) ex m) =
  fold_left (fun acc (e : list N * list N) => if name_eqb nm (fst e) then Some (snd e) else acc) ex (tl_get nm m).
Proof.
  induction ex as [|e ex IH]; intros m nm; [reflexivity|].
  cbn [fold_left]. rewrite IH, tl_get_set. reflexivity.
Qed.

Lemma fold_ex_none nm ex (acc : option (list N)) :
  ~ In nm (map fst ex) ->
  fold_left (fun acc (e : list N * list N) => if name_eqb nm (fst e) then Some (snd e) else acc) ex acc = acc.
Proof.
  revert acc. induction ex as [|e ex IH]; intros acc Hn; [reflexivity|].
  cbn [fold_left]. cbn [map] in Hn.
  destruct (name_eqb_spec nm (fst e)) as [E|E]; [exfalso; apply Hn; now left|].
  apply IH. intros H. apply Hn. now right.
Qed.

Lemma fold_ex_some nm ex : forall acc d,
  NoDup (map fst ex) -> In (nm, d) ex ->
  fold_left (fun acc (e : list N * list N) => if name_eqb nm (fst e) then Some (snd e) else acc) ex acc = Some d.
Proof.
  induction ex as [|e ex IH]; intros acc d Hn Hin; [contradiction|].
  cbn [map] in Hn. inversion Hn as [|? ? Hnin Hn']; subst.
  cbn [fold_left]. destruct Hin as [->|Hin].
  - cbn [fst snd]. rewrite name_eqb_refl. apply fold_ex_none. exact Hnin.
  - now apply IH.
Qed.

Lemma tl_wf_fold ex : forall m,
  tl_wf m -> Forall (fun e : list N * list N => name_ok (fst e)) ex ->
  tl_wf (fold_left (fun m e => tl_set m (fst e) (snd e)) ex m).
Proof.
  induction ex as [|e ex IH]; intros m Hm Hf; [exact Hm|].
  cbn [fold_left]. apply IH; [|now inversion Hf]. apply tl_wf_set; [exact Hm|now inversion Hf].
Qed.

(* ---- link with membership ---- *)

Lemma tl_get_in m nm d : tl_wf m -> (tl_get nm m = Some d <-> In (nm, Some d) m).
Proof.
  intros [Hn Hf]. unfold tl_get. split.
  - intros H. destruct (find _ m) as [t|] eqn:E; [|discriminate].
    apply find_some in E. destruct E as [Hin Heq].
    destruct (name_eqb_spec (fst t) nm) as [<-|]; [|discriminate].
    destruct t as [a b]. cbn [fst snd] in *. now subst b.
  - intros Hin. induction m as [|t m IH]; [contradiction|].
    cbn [map] in Hn. inversion Hn as [|? ? Hnin Hn']; subst.
    cbn [find]. destruct Hin as [->|Hin].
    + cbn [fst snd]. now rewrite name_eqb_refl.
    + destruct (name_eqb_spec (fst t) nm) as [E|E].
      * exfalso. apply Hnin. rewrite E. apply in_map_iff. exists (nm, Some d). auto.
      * apply IH; [assumption|now inversion Hf|assumption].
Qed.

Lemma tl_wf_map_ok m : tl_wf m -> map_ok m.
Proof.
  intros [Hn Hf]. split; [exact Hn|]. rewrite Forall_forall in *. intros t Ht. apply (Hf t Ht).
Qed.

Lemma tl_wf_printable m : tl_wf m -> Forall (fun t : table => forallb printable (fst t) = true) m.
Proof. intros [_ Hf]. rewrite Forall_forall in *. intros t Ht. apply (Hf t Ht). Qed.

Lemma rd32_be32_name tg : tg < 4294967296 -> rd32 (be32 tg) = tg.
Proof. apply rd32_be32. Qed.

Lemma be32_is_byte tg : Forall is_byte (be32 tg).
Proof.
  unfold be32, is_byte. repeat constructor; apply N.mod_lt; discriminate.
Qed.

(* M_filter of a well-formed list, by tag *)
Lemma filter_by_tag m tg d :
  tl_wf m -> tg < 4294967296 ->
  (In (tg, d) (M_filter m) <-> tl_get (be32 tg) m = Some d).
Proof.
  intros Hwf Htg. rewrite (tl_get_in m (be32 tg) d Hwf). split.
  - intros H. destruct (filter_in _ _ _ H) as (nm & Hin & Hl & ->).
    replace (be32 (rd32 nm)) with nm; [exact Hin|]. symmetry. apply be32_rd32; [exact Hl|].
    destruct Hwf as [_ Hf]. rewrite Forall_forall in Hf. apply (Hf _ Hin).
  - intros Hin. unfold M_filter. apply in_flat_map. exists (be32 tg, Some d). split; [exact Hin|].
    cbn [fst snd]. rewrite be32_length. cbn [Nat.eqb]. left. now rewrite rd32_be32.
Qed.

Lemma filter_tag_absent m tg :
  tl_wf m -> tg < 4294967296 -> tl_get (be32 tg) m = None -> ~ In tg (map fst (M_filter m)).
Proof.
  intros Hwf Htg Hnone Hin. apply in_map_iff in Hin. destruct Hin as ([t d] & E & Hin). cbn [fst] in E. subst t.
  apply (filter_by_tag m tg d Hwf Htg) in Hin. congruence.
Qed.

(* every entry of a well-formed list is written *)
Lemma filter_length m : tl_wf m -> (length (M_filter m) <= length m)%nat.
Proof.
  intros _. induction m as [|[nm od] m IH]; [constructor|].
  unfold M_filter. cbn [flat_map fst snd]. fold (M_filter m).
  destruct od as [d|]; [|cbn [app length]; lia].
  destruct (length nm =? 4)%nat; cbn [app length]; lia.
Qed.
