From Coq Require Import Extraction ExtrOcamlBasic.
From Common Require Import Conv.
From Gen Require Import Consts.
From C01 Require Import Str Model Spec Model2.
From C03 Require Model.
From C12 Require Model Model2 Model3.
From C01B Require Import Model.
Extraction Language OCaml.
Extraction "c01b_model.ml" conv_anchor
  M_font_write_bytes M_font_read_tables M_font_read_bytes M_file_tables M_file_cycle
  file_directory file_table normalize in_range choose_name
  C03.Model.container_ok C03.Model.file_sum C03.Model.M_read_tables
  tag_cvt tag_fpgm tag_prep tag_gasp tag_kern
  tag_hhea tag_hmtx tag_cmap tag_OS2 tag_name tag_post tag_CFF tag_glyf tag_loca tag_maxp tag_head
  tag_GDEF tag_GSUB tag_GPOS.
