(* C01B/Instances.v — two of the opaque codecs instantiated by the REAL models
   of the developments that own them, for a font whose character map is a
   given table of C09's model and whose glyphs are a given glyph list of C11's
   model.  C01's font record carries these data as identities; the codec
   built here encodes the real value (it does not look at the identity) and
   the decoder returns the identity view of what the real decoder delivers.
   With these, the laws ok_cmap and the decode clause of ok_glyf (Spec.v) are
   not hypotheses any more: Proofs_inst.v derives them from C09's
   table_roundtrip and C11's glyf_roundtrip.  Executable definitions only. *)
From Coq Require Import List NArith ZArith Bool.
From Common Require Import Bytes Outcome.
From C01 Require Import Str Model.
From C09 Require ModelT.
From C11 Require Model.
From C01B Require Import Model.
Import ListNotations.

Definition cmap_table : Type := list (C09.ModelT.key * list N).

(* cmap.Table.Encode / cmap.Decode *)
Definition with_cmap (O : opaque) (view : cmap_table -> cmapv) (t : cmap_table) : opaque :=
  mkOpaque (q_boxes O) (q_glyf_enc O) (q_glyf_dec O) (q_cff_enc O) (q_cff_dec O)
    (fun _ => match C09.ModelT.M_encode_table t with Ok b => b | _ => [] end)
    (fun b => omap view (C09.ModelT.M_decode_table_bytes b))
    (q_cmap_range O) (q_name_enc O) (q_name_dec O) (q_post_tail O) (q_post_names O)
    (q_maxp_ttf O) (q_maxp_id O) (q_caret O) (q_angle O)
    (q_gdef_enc O) (q_gdef_dec O) (q_gsub_enc O) (q_gsub_dec O) (q_gpos_enc O) (q_gpos_dec O)
    (q_kern_dec O).

(* glyf.Glyphs.Encode / glyf.Decode; the pass-through tables are handed on *)
Definition with_glyf (O : opaque) (view : C11.Model.glyphs -> list (N * list N) -> outl)
    (gg : C11.Model.glyphs) (extra : list (list N * list N)) : opaque :=
  mkOpaque (q_boxes O)
    (fun _ => match C11.Model.M_encode gg with
              | Ok e => mkGlyfTables (C11.Model.e_glyf e) (C11.Model.e_loca e) (C11.Model.e_fmt e) extra
              | _ => mkGlyfTables [] [] 0 []
              end)
    (fun g l f ex =>
       omap (fun gg' => view gg' ex)
            (C11.Model.M_decode {| C11.Model.e_glyf := g; C11.Model.e_loca := l; C11.Model.e_fmt := f |}))
    (q_cff_enc O) (q_cff_dec O) (q_cmap_enc O) (q_cmap_dec O)
    (q_cmap_range O) (q_name_enc O) (q_name_dec O) (q_post_tail O) (q_post_names O)
    (q_maxp_ttf O) (q_maxp_id O) (q_caret O) (q_angle O)
    (q_gdef_enc O) (q_gdef_dec O) (q_gsub_enc O) (q_gsub_dec O) (q_gpos_enc O) (q_gpos_dec O)
    (q_kern_dec O).
