(* C01B/Proofs_container.v — what C03's theorems give for a reader that looks
   tables up by tag: every table written comes back under its tag with its
   declared length and its bytes (head: up to the adjustment field), and no
   other tag is found.  Everything here is derived from C03's lemmas
   (write_read_exact, read_write_roundtrip_lemma, write_directory, write_wf). *)
From Coq Require Import List NArith ZArith Bool Arith Lia Permutation Sorted.
From Common Require Import Bytes Outcome.
From Gen Require Import Consts.
From C03 Require Import Model Spec Proofs_Sort Proofs_Parse Proofs_Read Proofs_Layout Proofs_Write.
From C01B Require Import Model.
Import ListNotations.
Local Open Scope N_scope.

Lemma find_unique {A} (key : A -> N) (l : list A) (x : A) :
  NoDup (map key l) -> In x l ->
  find (fun e => key e =? key x) l = Some x.
Proof.
  induction l as [|y l IH]; intros Hn Hin; [contradiction|].
  cbn [map] in Hn. inversion Hn as [|? ? Hnin Hn']; subst.
  cbn [find]. destruct Hin as [->|Hin].
  - now rewrite N.eqb_refl.
  - destruct (N.eqb_spec (key y) (key x)) as [E|E].
    + exfalso. apply Hnin. rewrite E. now apply in_map.
    + now apply IH.
Qed.

Lemma find_absent {A} (key : A -> N) (l : list A) (k : N) :
  ~ In k (map key l) -> find (fun e => key e =? k) l = None.
Proof.
  induction l as [|y l IH]; intros Hn; [reflexivity|].
  cbn [find]. destruct (N.eqb_spec (key y) k) as [E|E].
  - exfalso. apply Hn. left. exact E.
  - apply IH. intros H. apply Hn. now right.
Qed.

Lemma strongly_sorted_nodup (l : list rec) :
  StronglySorted (fun x y => r_tag x < r_tag y) l -> NoDup (map r_tag l).
Proof.
  induction 1 as [|x l Hs IH Hf]; cbn [map]; constructor; [|exact IH].
  intros Hin. apply in_map_iff in Hin. destruct Hin as (y & E & Hy).
  rewrite Forall_forall in Hf. specialize (Hf _ Hy). lia.
Qed.

(* the tables as sfnt.Read sees them *)
Definition rt_of (out : list N) : rtables :=
  map (fun t : toc_entry => (t, slice_table out (snd (fst t)) (snd t)))
      (toc_sorted (map toc_of (dir_of out))).

Definition rt_key (e : toc_entry * list N) : N := fst (fst (fst e)).

Lemma tb_find_eq tg rt :
  tb_find tg rt = match find (fun e => rt_key e =? tg) rt with
                  | Some e => Some (snd (fst e), snd e) | None => None end.
Proof. reflexivity. Qed.

Theorem container_read s ts out :
  map_ok ts -> M_write s ts = Ok out -> valid_scaler s = true ->
  Forall (fun t : table => forallb printable (fst t) = true) ts ->
  N.of_nat (length (M_filter ts)) <= header_maxTables ->
  file_size (M_filter ts) < 4294967296 ->
  M_read_tables out = Ok (s, rt_of out) /\
  (forall tg d, In (tg, d) (M_filter ts) ->
     exists d', tb_find tg (rt_of out) = Some (N.of_nat (length d), d') /\
                length d' = length d /\ clear_adj tg d' = clear_adj tg d) /\
  (forall tg, ~ In tg (map fst (M_filter ts)) -> tb_find tg (rt_of out) = None).
Proof.
  intros Hmap Hw Hs Hp Hn280 Hsize.
  assert (Hn : N.of_nat (length (M_filter ts)) < 4096) by (unfold header_maxTables in Hn280; lia).
  pose proof (write_read_exact s ts out Hmap Hw Hs Hp Hn280 Hn Hsize) as Hrd.
  pose proof (write_wf_core s ts out Hmap Hw Hn Hsize) as Hcore.
  pose proof (wf_core_full out Hcore) as Hwf.
  pose proof (strongly_sorted_nodup _ (wf_sorted out Hwf)) as Hnd.
  destruct (write_directory s ts out Hmap Hw Hn Hsize) as (_ & _ & Hperm).
  pose proof (filter_nodup ts Hmap) as Hfnd.
  (* keys of the table list = tags of the directory, without repetition *)
  assert (Hkeys : Permutation (map rt_key (rt_of out)) (map r_tag (dir_of out))).
  { unfold rt_of. rewrite map_map. unfold rt_key. cbn [fst].
    change (map (fun x : toc_entry => fst (fst x)) (toc_sorted (map toc_of (dir_of out))))
      with (map (fun x : toc_entry => fst (fst x)) (toc_sorted (map toc_of (dir_of out)))).
    unfold toc_sorted. rewrite (Permutation_map _ (isort_perm _ (map toc_of (dir_of out)))).
    rewrite map_map. unfold toc_of. cbn [fst]. reflexivity. }
  assert (Hrtnd : NoDup (map rt_key (rt_of out))).
  { eapply Permutation_NoDup; [symmetry; exact Hkeys|exact Hnd]. }
  assert (Htags : Permutation (map r_tag (dir_of out)) (map fst (M_filter ts))).
  { pose proof (Permutation_map fst Hperm) as H. rewrite !map_map in H. cbn [fst] in H. exact H. }
  split; [|split].
  - unfold M_read_tables. rewrite Hrd. cbn [obind fst snd]. reflexivity.
  - intros tg d Hin.
    destruct (read_write_roundtrip_lemma s ts out Hmap Hw Hs Hp Hn280 Hn Hsize) as (toc & Hrd' & _ & Htab).
    rewrite Hrd in Hrd'. injection Hrd' as <-.
    destruct (Htab tg d Hin) as (off & len & Hintoc & Hlen & Hadj).
    (* the declared length *)
    assert (Elen : len = N.of_nat (length d)).
    { apply in_map_iff in Hintoc. destruct Hintoc as (r & Er & Hr). unfold toc_of in Er.
      injection Er as Et Eo El.
      assert (Hpair : In (tg, len) (map (fun r => (r_tag r, r_len r)) (dir_of out))).
      { apply in_map_iff. exists r. split; [now rewrite Et, El|exact Hr]. }
      eapply Permutation_in in Hpair; [|exact Hperm].
      apply in_map_iff in Hpair. destruct Hpair as ([tg2 d2] & E2 & Hin2). cbn [fst snd] in E2.
      injection E2 as E2t E2l. subst tg2.
      assert (d2 = d).
      { clear - Hfnd Hin Hin2. induction (M_filter ts) as [|[t x] l IH]; [contradiction|].
        cbn [map fst] in Hfnd. inversion Hfnd as [|? ? Hnin Hn']; subst.
        destruct Hin as [E|Hin], Hin2 as [E2|Hin2].
        - congruence.
        - injection E as -> _. exfalso. apply Hnin. apply in_map_iff. exists (tg, d2). auto.
        - injection E2 as -> _. exfalso. apply Hnin. apply in_map_iff. exists (tg, d). auto.
        - now apply IH. }
      subst d2. now rewrite <- E2l. }
    set (e := ((tg, off, len), slice_table out off len) : toc_entry * list N).
    assert (Hine : In e (rt_of out)).
    { unfold rt_of. apply in_map_iff. exists (tg, off, len). split; [reflexivity|].
      unfold toc_sorted. eapply Permutation_in; [symmetry; apply isort_perm|exact Hintoc]. }
    exists (slice_table out off len). split; [|split; assumption].
    rewrite tb_find_eq. change tg with (rt_key e).
    rewrite (find_unique rt_key (rt_of out) e Hrtnd Hine). subst e. cbn [fst snd]. now rewrite Elen.
  - intros tg Hnin. rewrite tb_find_eq.
    rewrite (find_absent rt_key (rt_of out) tg); [reflexivity|].
    intros H. apply Hnin. eapply Permutation_in; [exact Htags|].
    eapply Permutation_in; [exact Hkeys|exact H].
Qed.

(* what comes back for a table other than head is the table itself *)
Lemma clear_adj_other tg d d' :
  tg <> Model.tag_head -> clear_adj tg d' = clear_adj tg d -> d' = d.
Proof.
  intros Hne H. unfold clear_adj, clear_head, is_head in H. cbn [fst snd] in H.
  destruct (N.eqb_spec tg Model.tag_head) as [E|E]; [contradiction|]. cbn [andb] in H. exact H.
Qed.
