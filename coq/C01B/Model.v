(* C01B/Model.v — the FILE-LEVEL composition of property C01.

   C01 models the font-level glue on decoded table VALUES (M_write_derive,
   M_codec, M_read_merge); C03 models the sfnt container on BYTES (M_write,
   M_read_dir, slice_table).  This file composes them, by import:

     M_font_write_bytes F  =  C03.M_write applied to the table map that Font.Write
                              (write.go:40-99) builds: C01's M_write_tables gives
                              the table values, the per-table encoders turn them
                              into bytes, the map insertions are replayed in the
                              order of the Go code (a later insertion under the
                              same name replaces the earlier one);
     M_font_read_bytes b   =  C01's M_read_merge applied to the table values that
                              sfnt.Read (read.go:62-292) decodes from the slices
                              C03's M_read_tables cuts out of b.

   The per-table codecs are of two kinds.

   REAL (imported models of property C12, with proved round trips):
     head       C12.Model2.M_head_encode / M_head_decode
     hhea+hmtx  C12.Model.M_hmtx_encode / M_hmtx_decode
     maxp       C12.Model2.M_maxp_encode / M_maxp_decode
     OS/2       C12.Model2.M_os2_encode / M_os2_decode
     post       C12.Model2.M_post_encode_header / M_post_decode_header (the 32-byte
                header; the glyph-name part behind it is opaque)
   The values Font.Write derives for them from the glyph data (FontBBox, hhea
   aggregates, xAvgCharWidth, first/last character, winAscent/winDescent,
   numberOfHMetrics) are computed by C12's and C01's own definitions
   (M_fontbbox, M_hmtx_encode, M_os2_derived).

   OPAQUE (record [opaque]: functions on C01's identities, their laws are the
   hypotheses [opaque_ok] of the theorems, each naming the theorem of the
   development that discharges it): cmap (C09), name (C14), post glyph names
   (C14), glyf/loca + pass-through tables (C11), CFF (C13), GDEF/GSUB/GPOS (C08),
   kern, the 13 maxp values of a TrueType font, and the two float conversions
   of hhea (caret slope rise/run <-> angle).  C01's font record carries these
   data as identities (N), which is why their codecs cannot be plugged in as
   they are.

   Executable definitions only. *)
From Coq Require Import List NArith ZArith Bool.
From Common Require Import Bytes Outcome.
From Gen Require Import Consts.
From C01 Require Import Str Model Spec Model2.
From C03 Require Model.
From C12 Require Codec Model Model2 Model3.
Import ListNotations.
Local Open Scope Z_scope.

(* ------------------------------------------------------------------ *)
(* tags that C01.Model2 does not name                                  *)

Definition tag_cvt : N := 1668707360.    (* "cvt " *)
Definition tag_fpgm : N := 1718642541.
Definition tag_prep : N := 1886545264.
Definition tag_gasp : N := 1734439792.
Definition tag_kern : N := 1801810542.

(* ------------------------------------------------------------------ *)
(* the opaque codecs                                                   *)

Record glyf_tables : Type := mkGlyfTables {
  g_glyf : list N;                          (* enc.GlyfData *)
  g_loca : list N;                          (* enc.LocaData *)
  g_locafmt : Z;                            (* enc.LocaFormat *)
  g_extra : list (list N * list N)          (* glyf.Outlines.Tables: name, data *)
}.

Record opaque : Type := mkOpaque {
  (* glyph data *)
  q_boxes : outl -> list C12.Model.rect;                   (* Font.GlyphBBoxes() *)
  q_glyf_enc : outl -> glyf_tables;
  q_glyf_dec : list N -> list N -> Z -> list (N * list N) -> outcome outl;
                                                            (* glyf, loca, locaFormat, the pass-through tables found *)
  q_cff_enc : t_cffinfo -> outl -> list N;
  q_cff_dec : list N -> outcome (t_cffinfo * outl);
  (* character map *)
  q_cmap_enc : cmapv -> list N;
  q_cmap_dec : list N -> outcome cmapv;
  q_cmap_range : cmapv -> option (Z * Z);                  (* GetBest().CodeRange() *)
  (* names *)
  q_name_enc : t_name -> list N;
  q_name_dec : list N -> outcome t_names;
  q_post_tail : option N -> N * list N;                    (* version, bytes behind the header *)
  q_post_names : N -> list N -> outcome (option N);
  (* maxp: the 13 uint16 values of a TTFInfo with a given identity *)
  q_maxp_ttf : N -> list N;
  q_maxp_id : list N -> N;
  (* hhea: caret slope from / to the angle (float code) *)
  q_caret : Z -> Z * Z;
  q_angle : Z -> Z -> Z;
  (* layout tables *)
  q_gdef_enc : N -> list N;  q_gdef_dec : list N -> outcome N;
  q_gsub_enc : N -> list N;  q_gsub_dec : list N -> outcome N;
  q_gpos_enc : N -> list N;  q_gpos_dec : list N -> outcome N;
  q_kern_dec : list N -> outcome N
}.

(* ------------------------------------------------------------------ *)
(* the real codecs, on C01's table values                              *)

(* time.Time <-> C01's option of Unix seconds.  A set time is "not the zero
   Time": any non-zero nanosecond part represents that (encodeTime looks at
   IsZero and Unix() only). *)
Definition go_time (t : option Z) : C12.Model2.gotime :=
  match t with
  | None => C12.Model2.mkTime C12.Model2.zero_unix 0
  | Some u => C12.Model2.mkTime u 1
  end.
Definition time_of_go (g : C12.Model2.gotime) : option Z :=
  if C12.Model2.time_is_zero g then None else Some (C12.Model2.t_sec g).

(* makeHead *)
Definition head_embed (h : t_head) (bbox : C12.Model.rect) (locafmt : Z) : C12.Model2.head_info :=
  C12.Model2.mkHead (h_rev h) true true false (h_upm h) (go_time (h_created h)) (go_time (h_modified h))
                    bbox (h_bold h) (h_italic h) false false false 7 locafmt.
Definition head_project (i : C12.Model2.head_info) : t_head :=
  mkHead (C12.Model2.hd_revision i) (C12.Model2.hd_upem i)
         (time_of_go (C12.Model2.hd_created i)) (time_of_go (C12.Model2.hd_modified i))
         (C12.Model2.hd_bold i) (C12.Model2.hd_italic i).

Definition enc_head (h : t_head) (bbox : C12.Model.rect) (locafmt : Z) : list N :=
  C12.Model2.M_head_encode (head_embed h bbox locafmt).
Definition dec_head (b : list N) : outcome (t_head * Z) :=
  i <- C12.Model2.M_head_decode b ;; Ok (head_project i, C12.Model2.hd_locafmt i).

(* makeOS2: everything Write does not set is zero *)
Definition os2_embed (o : t_os2) (x : os2x) : C12.Model2.os2_info :=
  C12.Model2.mkOs2 (o_weight o) (o_width o) (o_bold o) (o_italic o) (o_regular o) (o_oblique o)
    (Z.to_N (x_first x)) (Z.to_N (x_last x))
    (o_asc o) (o_desc o) (x_winasc x) (x_windesc x) (o_gap o) (o_cap o) (o_xh o) (x_avg x)
    (repeat 0 10) (o_fclass o) (repeat 0%N 10) [] [0; 0; 0; 0]%N (o_cpr o) (o_perm o) false false.
Definition os2_project (i : C12.Model2.os2_info) : t_os2 :=
  mkOs2 (C12.Model2.os_weight i) (C12.Model2.os_width i) (C12.Model2.os_bold i) (C12.Model2.os_italic i)
        (C12.Model2.os_regular i) (C12.Model2.os_oblique i)
        (C12.Model2.os_ascent i) (C12.Model2.os_descent i) (C12.Model2.os_linegap i)
        (C12.Model2.os_capheight i) (C12.Model2.os_xheight i) (C12.Model2.os_family i)
        (C12.Model2.os_cpr i) (C12.Model2.os_perm i).
Definition enc_os2 (o : t_os2) (x : os2x) : list N := C12.Model2.M_os2_encode (os2_embed o x).
Definition dec_os2 (b : list N) : outcome t_os2 := omap os2_project (C12.Model2.M_os2_decode b).

Section Codecs.
Variable O : opaque.

(* maxp *)
Definition maxp_embed (m : N * option N) : C12.Model2.maxp_info :=
  C12.Model2.mkMaxp (Z.of_N (fst m)) (option_map (q_maxp_ttf O) (snd m)).
Definition maxp_project (i : C12.Model2.maxp_info) : N * option N :=
  (Z.to_N (C12.Model2.mx_numglyphs i), option_map (q_maxp_id O) (C12.Model2.mx_ttf i)).
Definition enc_maxp (m : N * option N) : outcome (list N) := C12.Model2.M_maxp_encode (maxp_embed m).
Definition dec_maxp (b : list N) : outcome (N * option N) := omap maxp_project (C12.Model2.M_maxp_decode b).

(* makeHmtx: LSB is nil (Encode takes the xMin of the glyph boxes), CaretOffset 0 *)
Definition hinfo_of (x : t_hmtx) (boxes : list C12.Model.rect) : C12.Model.hinfo :=
  C12.Model.mkHinfo (x_widths x) (Some boxes) None (x_asc x) (x_desc x) (x_gap x) 0.
Definition enc_hmtx (x : t_hmtx) (boxes : list C12.Model.rect) : outcome (list N * option (list N)) :=
  C12.Model.M_hmtx_encode (hinfo_of x boxes) (fst (q_caret O (x_angle x))) (snd (q_caret O (x_angle x))).
Definition hmtx_project (d : C12.Model.dinfo) : t_hmtx :=
  mkHmtx (C12.Model.d_ascent d) (C12.Model.d_descent d) (C12.Model.d_linegap d)
         (q_angle O (C12.Model.d_rise d) (C12.Model.d_run d)) (C12.Model.d_widths d).
Definition dec_hmtx (hhea : list N) (hm : option (list N)) : outcome t_hmtx :=
  omap hmtx_project (C12.Model.M_hmtx_decode hhea hm).

(* makePost: header from C12, what follows (and the version it implies) opaque *)
Definition post_hdr_of (p : t_post) : C12.Model2.post_hdr :=
  C12.Model2.mkPost (p_angle p) (p_upos p) (p_uthick p) (p_fixed p).
Definition enc_post (p : t_post) : list N :=
  C12.Model2.M_post_encode_header (fst (q_post_tail O (p_names p))) (post_hdr_of p)
  ++ snd (q_post_tail O (p_names p)).
Definition post_version (r : C12.Model2.post_result) : N * C12.Model2.post_hdr :=
  match r with
  | C12.Model2.PostOk v h => (v, h)
  | C12.Model2.PostV2 h => (131072%N, h)
  end.
Definition dec_post (b : list N) : outcome t_post :=
  r <- C12.Model2.M_post_decode_header b ;;
  let vh := post_version r in
  nm <- q_post_names O (fst vh) (skipn 32 b) ;;
  Ok (mkPost (C12.Model2.po_italic (snd vh)) (C12.Model2.po_ulpos (snd vh))
             (C12.Model2.po_ulthick (snd vh)) (C12.Model2.po_fixed (snd vh)) nm).

(* ------------------------------------------------------------------ *)
(* Font.Write: the table map                                           *)

(* tableData[name] = data on a map kept as a list: the new entry replaces an
   entry of the same name *)
Definition name_eqb (a b : list N) : bool :=
  (length a =? length b)%nat && forallb (fun p : N * N => (fst p =? snd p)%N) (combine a b).
Definition tl_set (m : list C03.Model.table) (name : list N) (d : list N) : list C03.Model.table :=
  filter (fun t : C03.Model.table => negb (name_eqb (fst t) name)) m ++ [(name, Some d)].
Definition tl_set_tag (m : list C03.Model.table) (tag : N) (d : list N) := tl_set m (be32 tag) d.
Definition tl_set_opt (m : list C03.Model.table) (tag : N) (d : option (list N)) :=
  match d with Some x => tl_set_tag m tag x | None => m end.

Definition cmap_range (f : font) : option (Z * Z) :=
  match f_cmap f with Some c => q_cmap_range O c | None => None end.

(* write.go:40-99: the insertions into tableData, in the order of the
   statements (the encoded tables are the arguments) *)
Definition assemble (cff : bool) (hhea : list N) (hm cm : option (list N)) (os2 name post : list N)
    (cffd : option (list N)) (gt : glyf_tables) (maxp head : list N)
    (gdef gsub gpos : option (list N)) : list C03.Model.table :=
  let m1 := tl_set_tag [] tag_hhea hhea in
  let m2 := tl_set_opt m1 tag_hmtx hm in
  let m3 := tl_set_opt m2 tag_cmap cm in
  let m4 := tl_set_tag m3 tag_OS2 os2 in
  let m5 := tl_set_tag m4 tag_name name in
  let m6 := tl_set_tag m5 tag_post post in
  let m7 :=
    if cff then tl_set_opt m6 tag_CFF cffd
    else fold_left (fun m e => tl_set m (fst e) (snd e)) (g_extra gt)
                   (tl_set_tag (tl_set_tag m6 tag_glyf (g_glyf gt)) tag_loca (g_loca gt)) in
  let m8 := tl_set_tag m7 tag_maxp maxp in
  let m9 := tl_set_tag m8 tag_head head in
  let m10 := tl_set_opt m9 tag_GDEF gdef in
  let m11 := tl_set_opt m10 tag_GSUB gsub in
  tl_set_opt m11 tag_GPOS gpos.

Definition M_file_tables (F : font) : outcome (N * list C03.Model.table) :=
  hw <- write_widths (f_outl F) ;;
  let T := M_write_tables F (fst hw) (snd hw) in
  let o := f_outl F in
  let boxes := q_boxes O o in
  let bbox := C12.Model3.M_fontbbox boxes in
  let x := M_os2_derived (snd hw) (cmap_range F) (C12.Model.lly bbox) (C12.Model.ury bbox) in
  match t_hd T, t_hm T, t_maxp T, t_o2 T, t_po T with
  | Some hd, Some hm, Some mx, Some o2, Some po =>
    hh <- enc_hmtx hm boxes ;;
    mxb <- enc_maxp mx ;;
    let gt := q_glyf_enc O o in
    let locafmt := if ol_cff o then 0 else g_locafmt gt in
    Ok (if ol_cff o then header_scalerCFF else header_scalerTrueType,
        assemble (ol_cff o) (fst hh) (snd hh) (option_map (q_cmap_enc O) (t_cm T))
                 (enc_os2 o2 x) (q_name_enc O (M_write_name F)) (enc_post po)
                 (option_map (fun ci => q_cff_enc O ci o) (t_ci T)) gt mxb
                 (enc_head hd bbox locafmt)
                 (option_map (q_gdef_enc O) (t_gdef T)) (option_map (q_gsub_enc O) (t_gsub T))
                 (option_map (q_gpos_enc O) (t_gpos T)))
  | _, _, _, _, _ => Err      (* not reached: M_write_tables fills all five *)
  end.

Definition M_font_write_bytes (F : font) : outcome (list N) :=
  r <- M_file_tables F ;; C03.Model.M_write (fst r) (snd r).

(* ------------------------------------------------------------------ *)
(* sfnt.Read: from the directory to the decoded tables                 *)

Definition rtables := list (C03.Model.toc_entry * list N).

(* dir.Toc[name]: declared length and the bytes ReadTableBytes returns *)
Definition tb_find (tg : N) (rt : rtables) : option (N * list N) :=
  match find (fun e : C03.Model.toc_entry * list N => (fst (fst (fst e)) =? tg)%N) rt with
  | Some e => Some (snd (fst e), snd e)
  | None => None
  end.
Definition tb_get (tg : N) (rt : rtables) : option (list N) := option_map snd (tb_find tg rt).
(* dir.Has(name): present and not empty *)
Definition tb_has (tg : N) (rt : rtables) : bool :=
  match tb_find tg rt with Some (len, _) => negb (len =? 0)%N | None => false end.

Definition opt_dec {A} (d : option (list N)) (dec : list N -> outcome A) : outcome (option A) :=
  match d with Some b => omap Some (dec b) | None => Ok None end.
Definition has_dec {A} (tg : N) (rt : rtables) (dec : list N -> outcome A) : outcome (option A) :=
  if tb_has tg rt then opt_dec (tb_get tg rt) dec else Ok None.

(* the pass-through tables Read hands to glyf.Outlines.Tables *)
Definition read_extras (rt : rtables) : list (N * list N) :=
  flat_map (fun tg => if tb_has tg rt then match tb_get tg rt with Some d => [(tg, d)] | None => [] end else [])
           [tag_cvt; tag_fpgm; tag_prep; tag_gasp].

Definition M_font_read_tables (b : list N) : outcome tables :=
  r <- C03.Model.M_read_tables b ;;
  let scaler := fst r in
  let rt := snd r in
  if negb ((is_some (tb_get tag_glyf rt) && tb_has tag_loca rt) || tb_has tag_CFF rt) then Err
  else
    hd <- opt_dec (tb_get tag_head rt) dec_head ;;
    mx <- opt_dec (tb_get tag_maxp rt) dec_maxp ;;
    o2 <- opt_dec (tb_get tag_OS2 rt) dec_os2 ;;
    hm <- opt_dec (tb_get tag_hhea rt) (fun hh => dec_hmtx hh (tb_get tag_hmtx rt)) ;;
    cm <- opt_dec (tb_get tag_cmap rt) (q_cmap_dec O) ;;
    nm <- opt_dec (tb_get tag_name rt) (q_name_dec O) ;;
    po <- opt_dec (tb_get tag_post rt) dec_post ;;
    ol <- (if (scaler =? header_scalerCFF)%N then
             match tb_get tag_CFF rt with
             | Some d => c <- q_cff_dec O d ;; Ok (Some (fst c), snd c)
             | None => Err
             end
           else
             match hd, mx, tb_get tag_loca rt, tb_get tag_glyf rt with
             | Some h, Some _, Some loca, Some glyf =>
               o <- q_glyf_dec O glyf loca (snd h) (read_extras rt) ;; Ok (None, o)
             | _, _, _, _ => Err
             end) ;;
    gdef <- has_dec tag_GDEF rt (q_gdef_dec O) ;;
    gsub <- has_dec tag_GSUB rt (q_gsub_dec O) ;;
    gpos <- has_dec tag_GPOS rt (q_gpos_dec O) ;;
    kern <- (if tb_has tag_GPOS rt then Ok None else has_dec tag_kern rt (q_kern_dec O)) ;;
    Ok (mkTables (scaler =? header_scalerCFF)%N (option_map fst hd) hm mx o2 cm nm po
                 (fst ol) (snd ol) gdef gsub gpos kern).

Definition M_font_read_bytes (b : list N) : outcome font :=
  t <- M_font_read_tables b ;; M_read_merge t.

(* one cycle at the byte level *)
Definition M_file_cycle (F : font) : outcome (list N * font) :=
  b <- M_font_write_bytes F ;; f1 <- M_font_read_bytes b ;; Ok (b, f1).

End Codecs.

(* ------------------------------------------------------------------ *)
(* observation helpers for the correspondence (directory and tables of *)
(* a written file)                                                     *)

Definition file_directory (b : list N) : list (N * N * N * N) :=
  map (fun r => (C03.Model.r_tag r, C03.Model.r_sum r, C03.Model.r_off r, C03.Model.r_len r))
      (C03.Model.dir_of b).
Definition file_table (b : list N) (tg : N) : option (list N) :=
  match find (fun r => (C03.Model.r_tag r =? tg)%N) (C03.Model.dir_of b) with
  | Some r => Some (C03.Model.table_bytes b r)
  | None => None
  end.
