(* C01B/Proofs_file.v — the file-level cycle: for a font value in the file
   domain, Font.Write's bytes exist and sfnt.Read decodes from them exactly
   the tables M_codec (M_write_tables F ..) that C01's theorems speak about. *)
From Coq Require Import List NArith ZArith Bool Arith Lia Permutation.
From Coq Require Import ZifyBool ZifyNat ZifyN.
From Common Require Import Bytes Outcome.
From Gen Require Import Consts.
From C01 Require Import Str Model Spec Model2 Proofs.
From C03 Require Model Spec Proofs_Read Proofs_Write Proofs_Layout Props.
From C12 Require Model Model2 Model3 Util.
From C01B Require Import Model Spec Proofs_container Proofs_tl Proofs_codecs Proofs_assemble.
Import ListNotations.
Ltac Zify.zify_post_hook ::= Z.div_mod_to_equations.
Local Open Scope Z_scope.

Lemma wrap_i16_rng z : I16 (Model2.wrap_i16 z).
Proof. unfold Model2.wrap_i16, I16, C12.Util.I16. destruct (z mod 65536 <? 32768) eqn:E; lia. Qed.

Lemma char_index_rng c : 0 <= char_index c <= 65535.
Proof. unfold char_index. destruct (65535 <? c); lia. Qed.

Section Cycle.
Variable O : opaque.
Variable F : font.
Hypothesis D : file_domain O F.

Let o := f_outl F.
Let ws := font_widths o.
Let T := M_write_tables F (ol_widths o) ws.
Let boxes := q_boxes O o.
Let bbox := C12.Model3.M_fontbbox boxes.
Let x := M_os2_derived ws (cmap_range O F) (C12.Model.lly bbox) (C12.Model.ury bbox).
Let gt := q_glyf_enc O o.
Let locafmt := if ol_cff o then 0 else g_locafmt gt.

Let Hr := fd_range O F D.
Let V := fd_values O F D.
Let K := fd_opaque O F D.

Lemma dom_n1 : (1 <=? ol_n o)%N = true.
Proof. unfold in_range in Hr. fold o in Hr. now repeat (apply andb_prop in Hr as [Hr ?]). Qed.
Lemma dom_valid : valid_widths o = true.
Proof. unfold in_range in Hr. fold o in Hr. repeat (apply andb_prop in Hr as [Hr ?]). assumption. Qed.

Lemma dom_widths : write_widths o = Ok (ol_widths o, ws).
Proof. apply write_widths_in_range; [exact dom_n1|exact dom_valid]. Qed.

Lemma dom_bbox : box_ok bbox.
Proof. apply fontbbox_ok. exact (ok_boxes_rng O F K). Qed.

(* the five tables of C12 *)
Let hd := mkHead (f_version F) (f_upm F) (f_ctime F) (f_mtime F) (f_bold F) (negb (f_angle F =? 0)).
Let hmv := mkHmtx (f_asc F) (f_desc F) (f_gap F) (f_angle F) (ol_widths o).
Let o2 := mkOs2 (f_weight F) (f_width F) (f_bold F) (negb (f_angle F =? 0)) (f_regular F) (f_oblique F)
                (f_asc F) (f_desc F) (f_gap F) (f_cap F) (f_xh F)
                (if f_serif F then 768 else if f_script F then 2560 else 0) (f_cpr F) (f_perm F).
Let po := mkPost (f_angle F) (round16 (f_upos F)) (round16 (f_uthick F)) (is_fixed_pitch ws)
                 (if ol_cff o then None else ol_names o).

Lemma T_parts :
  t_hd T = Some hd /\ t_hm T = Some hmv /\ t_maxp T = Some (ol_n o, ol_maxp o) /\ t_o2 T = Some o2 /\
  t_po T = Some po /\ t_cm T = f_cmap F /\
  t_nm T = Some (mkNames (Some (M_write_name F)) 3 (Some (M_write_name F)) 3) /\
  t_ci T = (if ol_cff o then Some (cffinfo_of F ws) else None) /\
  t_ol T = o /\ t_gdef T = f_gdef F /\ t_gsub T = f_gsub F /\ t_gpos T = f_gpos F /\ t_kern T = None /\
  t_cff T = ol_cff o.
Proof. repeat split; reflexivity. Qed.

Lemma dom_hmtx :
  exists hhea hm,
    enc_hmtx O hmv boxes = Ok (hhea, hm) /\ hhea <> [] /\
    (hm = None <-> ol_widths o = None) /\ (forall d, hm = Some d -> d <> []) /\
    dec_hmtx O hhea hm = Ok hmv.
Proof.
  pose proof dom_n1 as Hn1. apply N.leb_le in Hn1.
  apply (hmtx_codec O hmv boxes (N.to_nat (ol_n o))); unfold hmv; cbn [x_asc x_desc x_gap x_angle x_widths].
  - exact (ok_boxes_len O F K).
  - lia.
  - rewrite N2Nat.id. exact (vr_glyphs F V).
  - exact (ok_boxes_rng O F K).
  - exact (vr_asc F V).
  - exact (vr_desc F V).
  - exact (vr_gap F V).
  - exact (proj1 (ok_caret_rng O F K)).
  - exact (proj2 (ok_caret_rng O F K)).
  - exact (ok_caret O F K).
  - pose proof dom_valid as Hv. unfold valid_widths in Hv. pose proof (vr_widths F V) as Hw.
    fold o in Hw. unfold font_widths in Hw.
    destruct (ol_widths o) as [w|]; [|exact I]. apply N.eqb_eq in Hv. split; [lia|exact Hw].
Qed.

Lemma dom_maxp :
  exists b, enc_maxp O (ol_n o, ol_maxp o) = Ok b /\ dec_maxp O b = Ok (ol_n o, ol_maxp o) /\ b <> [].
Proof.
  apply maxp_codec; cbn [fst snd].
  - pose proof dom_n1 as Hn1. apply N.leb_le in Hn1. pose proof (vr_glyphs F V). fold o in H. lia.
  - exact (ok_maxp O F K).
Qed.

Lemma dom_os2 : dec_os2 (enc_os2 o2 x) = Ok (codec_os2 o2).
Proof.
  apply os2_codec. unfold os2_rng, o2, x, M_os2_derived.
  cbn [o_weight o_width o_asc o_desc o_gap o_cap o_xh o_fclass o_cpr x_avg x_first x_last x_winasc x_windesc].
  pose proof dom_bbox as (B1 & B2 & B3 & B4).
  refine (conj (vr_weight F V) (conj (vr_width F V) (conj (vr_asc F V) (conj (vr_desc F V) (conj (vr_gap F V)
          (conj (vr_cap F V) (conj (vr_xh F V) (conj _ (conj (vr_cpr F V) (conj (wrap_i16_rng _)
          (conj _ (conj _ (conj B4 (wrap_i16_rng _)))))))))))))).
  - unfold I16, C12.Util.I16. destruct (f_serif F); [lia|]. destruct (f_script F); lia.
  - destruct (cmap_range O F) as [[lo hi]|]; [apply char_index_rng|lia].
  - destruct (cmap_range O F) as [[lo hi]|]; [apply char_index_rng|lia].
Qed.

Lemma dom_head : dec_head (enc_head hd bbox locafmt) = Ok (codec_head hd, locafmt).
Proof.
  apply head_codec.
  - exact (conj (vr_version F V) (conj (vr_upm F V) (conj (vr_ctime F V) (vr_mtime F V)))).
  - exact dom_bbox.
  - unfold locafmt. destruct (ol_cff o) eqn:E; [unfold I16, C12.Util.I16; lia|].
    exact (proj1 (ok_glyf O F K E)).
Qed.

Lemma dom_post : dec_post O (enc_post O po) = Ok po.
Proof.
  apply post_codec; unfold po; cbn [p_angle p_upos p_uthick p_names].
  - exact (vr_angle F V).
  - exact (vr_upos F V).
  - exact (vr_uthick F V).
  - exact (ok_post_ver O F K).
  - exact (ok_post O F K).
Qed.

(* ---- the table map ---- *)

Section WithTables.
Variables (hhea : list N) (hm : option (list N)) (mxb : list N).
Hypothesis Hhh : enc_hmtx O hmv boxes = Ok (hhea, hm).
Hypothesis Hmx : enc_maxp O (ol_n o, ol_maxp o) = Ok mxb.

Let cmb := option_map (q_cmap_enc O) (f_cmap F).
Let os2b := enc_os2 o2 x.
Let nameb := q_name_enc O (M_write_name F).
Let postb := enc_post O po.
Let cffb := option_map (fun ci => q_cff_enc O ci o) (if ol_cff o then Some (cffinfo_of F ws) else None).
Let headb := enc_head hd bbox locafmt.
Let gdefb := option_map (q_gdef_enc O) (f_gdef F).
Let gsubb := option_map (q_gsub_enc O) (f_gsub F).
Let gposb := option_map (q_gpos_enc O) (f_gpos F).
Let A := assemble (ol_cff o) hhea hm cmb os2b nameb postb cffb gt mxb headb gdefb gsubb gposb.
Let scaler := if ol_cff o then header_scalerCFF else header_scalerTrueType.

Lemma file_tables_eq : M_file_tables O F = Ok (scaler, A).
Proof.
  unfold M_file_tables. fold o. rewrite dom_widths. cbn [obind fst snd].
  fold ws T boxes bbox x.
  destruct T_parts as (E1 & E2 & E3 & E4 & E5 & E6 & E7 & E8 & E9 & E10 & E11 & E12 & E13 & E14).
  rewrite E1, E2, E3, E4, E5. rewrite Hhh. cbn [obind]. rewrite Hmx. cbn [obind fst snd].
  rewrite E6, E8, E10, E11, E12. reflexivity.
Qed.

Hypothesis Hex : ol_cff o = false -> extras_ok (g_extra gt).

(* a font with CFF outlines: the glyf tables are not looked at; make the
   hypothesis of the Assemble section unconditional *)
Let gt' := if ol_cff o then mkGlyfTables [] [] 0 [] else gt.
Lemma A_alt : A = assemble (ol_cff o) hhea hm cmb os2b nameb postb cffb gt' mxb headb gdefb gsubb gposb.
Proof. unfold A, gt', assemble. destruct (ol_cff o); reflexivity. Qed.
Lemma gt'_ok : extras_ok (g_extra gt').
Proof.
  unfold gt'. destruct (ol_cff o) eqn:E; [|now apply Hex].
  split; constructor.
Qed.

Lemma A_wf : tl_wf A.
Proof. rewrite A_alt. apply assemble_wf. exact gt'_ok. Qed.

Lemma A_len : (length A <= 18)%nat.
Proof. rewrite A_alt. apply assemble_length. exact gt'_ok. Qed.

Lemma A_get nm :
  tl_get nm A =
  pick_opt nm tag_GPOS gposb (pick_opt nm tag_GSUB gsubb (pick_opt nm tag_GDEF gdefb
    (pick nm tag_head headb (pick nm tag_maxp mxb
      (let r6 := pick nm tag_post postb (pick nm tag_name nameb (pick nm tag_OS2 os2b
                   (pick_opt nm tag_cmap cmb (pick_opt nm tag_hmtx hm (pick nm tag_hhea hhea None))))) in
       if ol_cff o then pick_opt nm tag_CFF cffb r6
       else fold_left (fun acc (e : list N * list N) => if name_eqb nm (fst e) then Some (snd e) else acc)
                      (g_extra gt) (pick nm tag_loca (g_loca gt) (pick nm tag_glyf (g_glyf gt) r6))))))).
Proof. unfold A. apply tl_get_assemble. Qed.

(* ---- the container ---- *)

Hypothesis Hfit : (C03.Spec.file_size (C03.Model.M_filter A) < 4294967296)%N.

Lemma pick_miss nm tg d rest : name_eqb nm (be32 tg) = false -> pick nm tg d rest = rest.
Proof. unfold pick. now intros ->. Qed.
Lemma pick_hit nm tg d rest : name_eqb nm (be32 tg) = true -> pick nm tg d rest = Some d.
Proof. unfold pick. now intros ->. Qed.
Lemma pick_opt_miss nm tg od rest : name_eqb nm (be32 tg) = false -> pick_opt nm tg od rest = rest.
Proof. unfold pick_opt, pick. intros ->. now destruct od. Qed.
Lemma pick_opt_hit nm tg od : name_eqb nm (be32 tg) = true -> pick_opt nm tg od None = od.
Proof. unfold pick_opt, pick. intros ->. now destruct od. Qed.

Ltac picks :=
  repeat match goal with
  | |- context [pick_opt ?nm ?tg ?od ?rest] => rewrite (pick_opt_miss nm tg od rest) by (vm_compute; reflexivity)
  | |- context [pick ?nm ?tg ?d ?rest] => rewrite (pick_miss nm tg d rest) by (vm_compute; reflexivity)
  | |- context [pick ?nm ?tg ?d ?rest] => rewrite (pick_hit nm tg d rest) by (vm_compute; reflexivity)
  | |- context [pick_opt ?nm ?tg ?od None] => rewrite (pick_opt_hit nm tg od) by (vm_compute; reflexivity)
  end.

Lemma G_hhea : tl_get (be32 tag_hhea) A = Some hhea.
Proof.
  rewrite A_get. cbv zeta. picks. destruct (ol_cff o) eqn:E; picks; [reflexivity|].
  rewrite (fold_extras_other gt (Hex eq_refl)) by (apply not_pass; vm_compute; reflexivity). picks. reflexivity.
Qed.

Lemma valid_scaler_ok : C03.Model.valid_scaler scaler = true.
Proof. unfold scaler. destruct (ol_cff o); reflexivity. Qed.

Lemma tag_lt_hhea : (tag_hhea < 4294967296)%N. Proof. reflexivity. Qed.

Lemma A_filter_nonempty : C03.Model.M_filter A <> [].
Proof.
  intros E. pose proof (proj2 (filter_by_tag A tag_hhea hhea A_wf tag_lt_hhea) G_hhea) as Hin.
  rewrite E in Hin. contradiction.
Qed.

Lemma write_exists : exists out, C03.Model.M_write scaler A = Ok out.
Proof. apply (proj2 (C03.Props.write_total scaler A)). exact A_filter_nonempty. Qed.

Variable out : list N.
Hypothesis Hout : C03.Model.M_write scaler A = Ok out.
Let rt := rt_of out.

Lemma A_count : (N.of_nat (length (C03.Model.M_filter A)) <= header_maxTables)%N.
Proof.
  pose proof (filter_length A A_wf). pose proof A_len. unfold header_maxTables. lia.
Qed.

Lemma container_facts :
  C03.Model.M_read_tables out = Ok (scaler, rt) /\
  (forall tg d, In (tg, d) (C03.Model.M_filter A) ->
     exists d', tb_find tg rt = Some (N.of_nat (length d), d') /\
                length d' = length d /\ C03.Model.clear_adj tg d' = C03.Model.clear_adj tg d) /\
  (forall tg, ~ In tg (map fst (C03.Model.M_filter A)) -> tb_find tg rt = None).
Proof.
  apply container_read.
  - apply tl_wf_map_ok. exact A_wf.
  - exact Hout.
  - exact valid_scaler_ok.
  - apply tl_wf_printable. exact A_wf.
  - exact A_count.
  - exact Hfit.
Qed.

Lemma rt_find tg : (tg < 4294967296)%N -> tg <> C03.Model.tag_head ->
  tb_find tg rt = option_map (fun d => (N.of_nat (length d), d)) (tl_get (be32 tg) A).
Proof.
  intros Hlt Hne. destruct container_facts as (_ & Hin & Hout').
  destruct (tl_get (be32 tg) A) as [d|] eqn:E; cbn [option_map].
  - apply (filter_by_tag A tg d A_wf Hlt) in E. destruct (Hin tg d E) as (d' & Hf & _ & Hadj).
    apply (clear_adj_other tg d d' Hne) in Hadj. now subst d'.
  - apply Hout'. now apply filter_tag_absent; [exact A_wf|exact Hlt|].
Qed.

Lemma rt_get tg : (tg < 4294967296)%N -> tg <> C03.Model.tag_head -> tb_get tg rt = tl_get (be32 tg) A.
Proof. intros Hlt Hne. unfold tb_get. rewrite (rt_find tg Hlt Hne). now destruct (tl_get (be32 tg) A). Qed.

Lemma rt_has tg : (tg < 4294967296)%N -> tg <> C03.Model.tag_head ->
  tb_has tg rt = match tl_get (be32 tg) A with Some (_ :: _) => true | _ => false end.
Proof.
  intros Hlt Hne. unfold tb_has. rewrite (rt_find tg Hlt Hne).
  destruct (tl_get (be32 tg) A) as [[|a d]|]; reflexivity.
Qed.

(* what is stored under each tag *)
Ltac get_std :=
  rewrite A_get; cbv zeta; picks; destruct (ol_cff o) eqn:E; picks;
  [ | try (rewrite (fold_extras_other gt (Hex eq_refl)) by (apply not_pass; vm_compute; reflexivity)); picks ];
  try reflexivity.

Lemma G_hmtx : tl_get (be32 tag_hmtx) A = hm. Proof. get_std. Qed.
Lemma G_cmap : tl_get (be32 tag_cmap) A = cmb. Proof. get_std. Qed.
Lemma G_os2 : tl_get (be32 tag_OS2) A = Some os2b. Proof. get_std. Qed.
Lemma G_name : tl_get (be32 tag_name) A = Some nameb. Proof. get_std. Qed.
Lemma G_post : tl_get (be32 tag_post) A = Some postb. Proof. get_std. Qed.
Lemma G_maxp : tl_get (be32 tag_maxp) A = Some mxb. Proof. get_std. Qed.
Lemma G_head : tl_get (be32 tag_head) A = Some headb. Proof. get_std. Qed.
Lemma G_gdef : tl_get (be32 tag_GDEF) A = gdefb. Proof. get_std. Qed.
Lemma G_gsub : tl_get (be32 tag_GSUB) A = gsubb. Proof. get_std. Qed.
Lemma G_gpos : tl_get (be32 tag_GPOS) A = gposb. Proof. get_std. Qed.
Lemma G_kern : tl_get (be32 tag_kern) A = None. Proof. get_std. Qed.
Lemma G_cff : tl_get (be32 tag_CFF) A = (if ol_cff o then cffb else None).
Proof. get_std. Qed.
Lemma G_glyf : tl_get (be32 tag_glyf) A = (if ol_cff o then None else Some (g_glyf gt)).
Proof. get_std. Qed.
Lemma G_loca : tl_get (be32 tag_loca) A = (if ol_cff o then None else Some (g_loca gt)).
Proof. get_std. Qed.

Lemma G_pass tg : In (be32 tg) pass_names -> ol_cff o = false ->
  tl_get (be32 tg) A = ex_find (be32 tg) (g_extra gt).
Proof.
  intros Hin E. rewrite A_get. cbv zeta. rewrite E.
  unfold pass_names in Hin. pose proof (Hex E) as Hex'.
  destruct Hin as [H|[H|[H|[H|[]]]]]; rewrite <- H; picks; now rewrite (fold_extras_find gt Hex').
Qed.

(* the head table as it comes back *)
Lemma rt_head :
  exists d', tb_get tag_head rt = Some d' /\
             C12.Model2.M_head_decode d' = C12.Model2.M_head_decode headb.
Proof.
  destruct container_facts as (_ & Hin & _).
  pose proof (proj2 (filter_by_tag A tag_head headb A_wf eq_refl) G_head) as Hf.
  destruct (Hin tag_head headb Hf) as (d' & Hfind & Hlen & Hadj).
  exists d'. split.
  - unfold tb_get. now rewrite Hfind.
  - apply head_decode_ignores_adjustment; [exact Hlen|exact Hadj].
Qed.

Lemma read_extras_eq : ol_cff o = false -> read_extras rt = extras_read (g_extra gt).
Proof.
  intros E. unfold read_extras, extras_read. cbn [flat_map].
  rewrite !rt_has, !rt_get by (first [reflexivity | discriminate]).
  rewrite !G_pass by (first [exact E | unfold pass_names; cbn; tauto]).
  repeat match goal with |- context [ex_find ?n ?l] => destruct (ex_find n l) as [[|? ?]|] end; reflexivity.
Qed.

(* ---- sfnt.Read on the written file ---- *)

Lemma read_back : M_font_read_tables O out = Ok (M_codec T).
Proof.
  unfold M_font_read_tables.
  destruct container_facts as (Hrd & _ & _). rewrite Hrd. cbn [obind fst snd]. fold rt.
  destruct rt_head as (hd' & Ghd & Ehd).
  destruct dom_hmtx as (hhea0 & hm0 & Hh0 & Hhne & Hhm & Hhmne & Hhdec).
  rewrite Hhh in Hh0. injection Hh0 as <- <-.
  destruct dom_maxp as (mxb0 & Hm0 & Hmdec & Hmne). rewrite Hmx in Hm0. injection Hm0 as <-.
  rewrite Ghd.
  rewrite !rt_has, !rt_get by (first [reflexivity | discriminate]).
  rewrite G_hhea, G_hmtx, G_cmap, G_os2, G_name, G_post, G_maxp, G_cff, G_glyf, G_loca.
  unfold opt_dec at 1. unfold dec_head at 1. rewrite Ehd. fold (dec_head headb). unfold headb. rewrite dom_head.
  cbn [omap obind]. unfold opt_dec at 1. rewrite Hmdec. cbn [omap obind].
  unfold opt_dec at 1. unfold os2b. rewrite dom_os2. cbn [omap obind].
  unfold opt_dec at 1. rewrite Hhdec. cbn [omap obind].
  (* cmap, name, post *)
  assert (Ecm : opt_dec cmb (q_cmap_dec O) = Ok (f_cmap F)).
  { unfold cmb, opt_dec. destruct (f_cmap F) as [c|] eqn:Ec; cbn [option_map]; [|reflexivity].
    now rewrite (ok_cmap O F K c Ec). }
  rewrite Ecm. cbn [obind].
  unfold opt_dec at 1. unfold nameb. rewrite (ok_name O F K). cbn [omap obind].
  unfold opt_dec at 1. unfold postb. rewrite dom_post. cbn [omap obind].
  (* layout tables *)
  assert (Egdef : forall (enc : N -> list N) (dec : list N -> outcome N) (v : option N) (tg : N),
             (forall g, v = Some g -> enc g <> [] /\ dec (enc g) = Ok g) ->
             (if match option_map enc v with Some (_ :: _) => true | _ => false end
              then opt_dec (option_map enc v) dec else Ok None) = Ok v).
  { intros enc dec v tg Hlaw. destruct v as [g|]; cbn [option_map]; [|reflexivity].
    destruct (Hlaw g eq_refl) as [Hne Hdec]. destruct (enc g) as [|a r] eqn:Ee; [contradiction|].
    unfold opt_dec. rewrite Hdec. reflexivity. }
  unfold has_dec. rewrite !rt_has, !rt_get by (first [reflexivity | discriminate]).
  rewrite G_gdef, G_gsub, G_gpos, G_kern.
  unfold gdefb, gsubb, gposb.
  rewrite (Egdef _ _ _ tag_GDEF (ok_gdef O F K)), (Egdef _ _ _ tag_GSUB (ok_gsub O F K)).
  (* the outline kind *)
  unfold M_codec. destruct T_parts as (E1 & E2 & E3 & E4 & E5 & E6 & E7 & E8 & E9 & E10 & E11 & E12 & E13 & E14).
  rewrite E1, E2, E3, E4, E5, E6, E7, E8, E9, E10, E11, E12, E13, E14. cbn [option_map].
  pose proof read_extras_eq as Hrex.
  unfold scaler, cffb. destruct (ol_cff o) eqn:Ecff.
  - (* CFF *)
    destruct (ok_cff O F K Ecff) as [Hcne Hcdec]. fold o ws in Hcne, Hcdec. cbn [option_map].
    destruct (q_cff_enc O (cffinfo_of F ws) o) as [|c0 cr] eqn:Ec; [contradiction|].
    cbn [is_some andb orb negb].
    replace (header_scalerCFF =? header_scalerCFF)%N with true by reflexivity.
    rewrite Hcdec. cbn [obind fst snd].
    assert (Egpos : (if match option_map (q_gpos_enc O) (f_gpos F) with Some (_ :: _) => true | _ => false end
                     then opt_dec (option_map (q_gpos_enc O) (f_gpos F)) (q_gpos_dec O) else Ok None) = Ok (f_gpos F))
      by (apply (Egdef _ _ _ tag_GPOS (ok_gpos O F K))).
    rewrite Egpos. cbn [obind].
    destruct (match option_map (q_gpos_enc O) (f_gpos F) with Some (_ :: _) => true | _ => false end); reflexivity.
  - (* TrueType *)
    destruct (ok_glyf O F K Ecff) as (Hfmt & Hlne & Hexok & Hgdec). fold o gt in Hfmt, Hlne, Hexok, Hgdec.
    destruct (g_loca gt) as [|l0 lr] eqn:El; [contradiction|].
    cbn [is_some andb orb negb].
    replace (header_scalerTrueType =? header_scalerCFF)%N with false by reflexivity.
    cbn [snd fst]. rewrite (Hrex eq_refl).
    change locafmt with (g_locafmt gt). rewrite Hgdec. cbn [obind fst snd].
    assert (Egpos : (if match option_map (q_gpos_enc O) (f_gpos F) with Some (_ :: _) => true | _ => false end
                     then opt_dec (option_map (q_gpos_enc O) (f_gpos F)) (q_gpos_dec O) else Ok None) = Ok (f_gpos F))
      by (apply (Egdef _ _ _ tag_GPOS (ok_gpos O F K))).
    rewrite Egpos. cbn [obind].
    destruct (match option_map (q_gpos_enc O) (f_gpos F) with Some (_ :: _) => true | _ => false end); reflexivity.
Qed.
End WithTables.
End Cycle.

(* ------------------------------------------------------------------ *)
(* the cycle, with all intermediate objects named                      *)

Record cycle_facts (O : opaque) (F : font) (b : list N) : Prop := mkCycleFacts {
  cf_derive : M_write_derive F = Ok (M_write_tables F (ol_widths (f_outl F)) (font_widths (f_outl F)));
  cf_tables : exists s ts, M_file_tables O F = Ok (s, ts) /\ C03.Model.M_write s ts = Ok b /\
                           C03.Spec.map_ok ts /\ C03.Model.valid_scaler s = true /\
                           (N.of_nat (length (C03.Model.M_filter ts)) < 4096)%N /\
                           (exists hb, In (C03.Model.tag_head, hb) (C03.Model.M_filter ts) /\ length hb = 54%nat /\
                              exists d', tb_get tag_head (rt_of b) = Some d' /\ length d' = length hb /\
                                         C03.Model.clear_adj C03.Model.tag_head d' = C03.Model.clear_adj C03.Model.tag_head hb /\
                                         dec_head d' = dec_head hb);
  cf_write : M_font_write_bytes O F = Ok b;
  cf_read : M_font_read_tables O b =
            Ok (M_codec (M_write_tables F (ol_widths (f_outl F)) (font_widths (f_outl F))))
}.

Theorem file_cycle O F : file_domain O F -> exists b, cycle_facts O F b.
Proof.
  intros D.
  destruct (dom_hmtx O F D) as (hhea & hm & Hhh & _).
  destruct (dom_maxp O F D) as (mxb & Hmx & _).
  assert (Hex : ol_cff (f_outl F) = false -> extras_ok (g_extra (q_glyf_enc O (f_outl F)))).
  { intros E. exact (proj1 (proj2 (proj2 (ok_glyf O F (fd_opaque O F D) E)))). }
  pose proof (file_tables_eq O F D hhea hm mxb Hhh Hmx) as Hft.
  pose proof (fd_fits O F D _ _ Hft) as Hfit.
  pose proof (A_wf O F hhea hm mxb Hex) as Hwf.
  pose proof (write_exists O F hhea hm mxb Hex Hfit) as (out & Hout).
  pose proof (G_head O F hhea hm mxb Hex Hfit out Hout) as HG.
  pose proof (container_facts O F hhea hm mxb Hex Hfit out Hout) as (_ & Hin & _).
  pose proof (proj2 (filter_by_tag _ tag_head _ Hwf eq_refl) HG) as Hf.
  exists out. constructor.
  - unfold M_write_derive. rewrite (dom_widths O F D). reflexivity.
  - eexists. eexists. split; [exact Hft|]. split; [exact Hout|].
    split; [apply tl_wf_map_ok; exact Hwf|].
    split; [exact (valid_scaler_ok O F hhea hm mxb Hex Hfit)|].
    split.
    + pose proof (A_count O F hhea hm mxb Hex Hfit) as Hc. unfold header_maxTables in Hc. lia.
    + eexists. split; [exact Hf|]. split; [apply enc_head_length|].
      destruct (Hin _ _ Hf) as (d' & Hfind & Hlen & Hadj).
      exists d'. split; [unfold tb_get; now rewrite Hfind|]. split; [exact Hlen|]. split; [exact Hadj|].
      unfold dec_head. now rewrite (head_decode_ignores_adjustment _ _ Hlen Hadj).
  - unfold M_font_write_bytes. rewrite Hft. cbn [obind fst snd]. exact Hout.
  - exact (read_back O F D hhea hm mxb Hhh Hmx Hex Hfit out Hout).
Qed.
