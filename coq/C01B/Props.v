(* C01B/Props.v — the FILE-LEVEL clauses of property C01 (whole-font write/read
   round trip, byte fixed point).  Statements only; proofs in Proofs_*.v.

   What is composed (nothing is copied: coq_deps C01, C03, C12)
     C01   font, tables, M_write_tables/M_write_derive, M_codec, M_read_merge, normalize,
           in_range, bold_settled, underline_settled, tables_decoded  (glue on table VALUES)
     C03   M_write, M_read_dir / M_read_tables, slice_table, S_wf, file_sum, clear_adj
           (container on BYTES) with write_read_exact, read_write_roundtrip, write_directory,
           write_wf, whole_file_checksum, write_order_independent, write_total
     C12   the byte codecs of head, hhea+hmtx, maxp, OS/2 and the post header with
           head_roundtrip, hmtx_roundtrip_glyph_counts, maxp_roundtrip, post_header_roundtrip,
           os2 (its lemmas; C01's fonts are not in C12's OS/2 normal form), head/os2_decode_nf
   Model.v: M_font_write_bytes = C03.M_write on the table map of write.go built from C01's
   table values by these codecs; M_font_read_bytes = C01.M_read_merge on the tables read.go
   decodes from the slices C03.M_read_tables delivers.

   INSTANTIATED by real codec models:  head, hhea+hmtx, maxp, OS/2, post header
       (real_*_codec below: decode (encode v) = M_codec's component of v, for every value
        in the range of the Go field types); and, for a font described by a cmap table of
       C09's model / a glyph list of C11's model, the cmap and glyf/loca codecs
       (Instances.v; inst_cmap_codec_law, inst_glyf_codec_law derive their laws from
       C09's table_roundtrip and C11's glyf_roundtrip)
   REMAIN HYPOTHESES (record [opaque], laws [opaque_ok O F], Spec.v), because C01's font
   record carries these data as identities (N), so the value-level codec models of the
   other developments cannot be applied to them as they are; each law names the theorem
   that discharges it for the real codec:
       cmap        C09 table_roundtrip (format4_roundtrip, format12_roundtrip)
       name        C14 name_roundtrip (+ x/text Choose: Section variable there as well)
       post names  C14 post_roundtrip
       glyf/loca   C11 glyf_roundtrip, loca_roundtrip; pass-through tables are byte strings
       CFF         C13/C13B/C04/C05
       GDEF/GSUB/GPOS   C08 (+C08B, C08C)
       maxp TTFInfo identity <-> its 13 values; hhea caret rise/run <-> angle (float code)
   Non-vacuity of all hypotheses: Examples.v (a TrueType and a CFF font with concrete
   opaque codecs). *)
From Coq Require Import List NArith ZArith Bool Permutation.
From Common Require Import Bytes Outcome.
From Gen Require Import Consts C03.
From C01 Require Import Str Model Spec Model2.
From C03 Require Model Spec.
From C12 Require Model Model2.
From C09 Require ModelT Proofs_Trt.
From C11 Require Model.
From C01B Require Import Model Spec Instances Proofs_container Proofs_codecs Proofs_file Proofs_main Proofs_inst.
Import ListNotations.
Local Open Scope Z_scope.

(* (1)  Read(Write(F)) = normalize F, through the bytes: for every font value in the file
   domain (C01's in_range; every field in the range of its Go type; the opaque codecs
   round-trip on the data of F; the file is below 4 GiB) Font.Write produces a file and
   sfnt.Read of that file returns exactly the normal form of F. *)
Theorem file_read_write_normal_form :
  forall (O : opaque) (F : font),
    file_domain O F ->
    exists b, M_font_write_bytes O F = Ok b /\ M_font_read_bytes O b = Ok (normalize F).
Proof. exact file_normal_form. Qed.
Print Assumptions file_read_write_normal_form.

(* (2a)  Byte fixed point: the re-read font F1 = normalize F is written to a file b2 that
   reads back as F1 again, and writing what was read from b2 gives b2 byte for byte
   (generation 2 = generation 3 = ...). *)
Theorem file_byte_fixed_point :
  forall (O : opaque) (F : font),
    file_domain O F -> file_domain O (normalize F) ->
    exists b1 b2,
      M_font_write_bytes O F = Ok b1 /\ M_font_read_bytes O b1 = Ok (normalize F) /\
      M_font_write_bytes O (normalize F) = Ok b2 /\ M_font_read_bytes O b2 = Ok (normalize F) /\
      (forall F2, M_font_read_bytes O b2 = Ok F2 -> M_font_write_bytes O F2 = Ok b2).
Proof. exact file_second_generation. Qed.
Print Assumptions file_byte_fixed_point.

(* (2b)  The bytes are a function of the font value: M_font_write_bytes is a Coq function
   of F (and of the codecs); the two Go map iterations on the way do not matter:
   header.Write may range over tableData in any order ... *)
Theorem file_write_table_order_irrelevant :
  forall (O : opaque) (F : font) (s : N) (ts ts' : list C03.Model.table),
    file_domain O F -> M_file_tables O F = Ok (s, ts) -> Permutation ts ts' ->
    C03.Model.M_write s ts' = C03.Model.M_write s ts.
Proof. exact file_table_order_irrelevant. Qed.
Print Assumptions file_write_table_order_irrelevant.

(* ... and Font.Write may range over glyf.Outlines.Tables in any order (for every choice
   of the other tables).  The third map iteration, inside name.Info.Encode, is C01's
   write_is_function_of_value / C14's name_roundtrip (for every order). *)
Theorem file_write_extras_order_irrelevant :
  forall (cff : bool) (hhea : list N) (hm cm : option (list N)) (os2 name post : list N)
         (cffd : option (list N)) (gt : glyf_tables) (maxp head : list N)
         (gdef gsub gpos : option (list N)) (ex' : list (list N * list N)) (s : N),
    extras_ok (g_extra gt) -> Permutation (g_extra gt) ex' ->
    C03.Model.M_write s (assemble cff hhea hm cm os2 name post cffd
                           (mkGlyfTables (g_glyf gt) (g_loca gt) (g_locafmt gt) ex') maxp head gdef gsub gpos)
    = C03.Model.M_write s (assemble cff hhea hm cm os2 name post cffd gt maxp head gdef gsub gpos).
Proof. exact file_extras_order_irrelevant. Qed.
Print Assumptions file_write_extras_order_irrelevant.

(* (3)  Every accepted byte string: if sfnt.Read accepts b (any byte string) and returns
   F0, then one write/read cycle is a fixed point at the value level and, from there on,
   at the byte level - under exactly the exclusions C01's read_write_read_fixed_point
   carries (the open findings bold_settled and underline_settled, and F0 in the domain).
   That the decoded OS/2 and head values are in the form C01 needs (tables_decoded) is
   PROVED here from C12's os2_decode_nf / head_decode_nf, not assumed. *)
Theorem file_accepts_fixed_point :
  forall (O : opaque) (b : list N) (F0 : font),
    Bytes b -> M_font_read_bytes O b = Ok F0 ->
    bold_settled F0 = true -> underline_settled F0 = true -> file_domain O F0 ->
    exists b1,
      M_font_write_bytes O F0 = Ok b1 /\ M_font_read_bytes O b1 = Ok F0 /\
      (forall F1, M_font_read_bytes O b1 = Ok F1 -> M_font_write_bytes O F1 = Ok b1).
Proof. exact Proofs_main.file_accepts_fixed_point. Qed.
Print Assumptions file_accepts_fixed_point.

Theorem read_tables_are_decoded_values :
  forall (O : opaque) (b : list N) (T : tables),
    Bytes b -> M_font_read_tables O b = Ok T -> tables_decoded T = true.
Proof. exact read_tables_decoded. Qed.
Print Assumptions read_tables_are_decoded_values.

(* (4)  The written file is a well-formed sfnt container in the sense of C03 (every clause
   of S_wf: directory, search fields, alignment, consecutive tables, zero padding,
   checksums) and its 32-bit word sum is 0xB1B0AFBA. *)
Theorem file_container_well_formed :
  forall (O : opaque) (F : font) (b : list N),
    file_domain O F -> M_font_write_bytes O F = Ok b ->
    C03.Spec.S_wf b /\ C03.Model.file_sum b = header_checksumMagic.
Proof. exact file_container_wf. Qed.
Print Assumptions file_container_well_formed.

(* (5)  head.checkSumAdjustment composes: the head table sfnt.Read finds in the written
   file has the 54 bytes Font.Write encoded except bytes 8..11 (which header.Write
   patches), head.Read gives the same value for both (M_codec's head value of F), and
   the patched field is what makes the file's word sum the magic number. *)
Theorem file_head_adjustment_composes :
  forall (O : opaque) (F : font) (b : list N),
    file_domain O F -> M_font_write_bytes O F = Ok b ->
    exists written found,
      length written = 54%nat /\
      tb_get tag_head (rt_of b) = Some found /\ length found = length written /\
      C03.Model.clear_adj C03.Model.tag_head found = C03.Model.clear_adj C03.Model.tag_head written /\
      dec_head found = dec_head written /\
      (exists fmt, dec_head found =
         Ok (codec_head (mkHead (f_version F) (f_upm F) (f_ctime F) (f_mtime F) (f_bold F)
                                (negb (f_angle F =? 0))), fmt)) /\
      C03.Model.file_sum b = header_checksumMagic.
Proof. exact file_head_adjustment. Qed.
Print Assumptions file_head_adjustment_composes.

Theorem head_read_ignores_adjustment :
  forall d d' : list N,
    length d' = length d ->
    C03.Model.clear_adj C03.Model.tag_head d' = C03.Model.clear_adj C03.Model.tag_head d ->
    C12.Model2.M_head_decode d' = C12.Model2.M_head_decode d.
Proof. exact head_decode_ignores_adjustment. Qed.
Print Assumptions head_read_ignores_adjustment.

(* ---- the codecs instantiated by the real models of C12 ---- *)

(* head: for every head value in the range of its Go types (32-bit revision, uint16
   unitsPerEm, int64 timestamps) with any Int16 bounding box and locaFormat: Read (Encode v)
   is M_codec's head value - the 1904 origin reads back as "unset" - and the locaFormat. *)
Theorem real_head_codec :
  forall (h : t_head) (bbox : C12.Model.rect) (fmt : Z),
    head_rng h -> box_ok bbox -> I16 fmt ->
    dec_head (enc_head h bbox fmt) = Ok (codec_head h, fmt).
Proof. exact head_codec. Qed.
Print Assumptions real_head_codec.

(* OS/2: for EVERY combination of the selection flags (also REGULAR with BOLD/ITALIC),
   every permission value and every cap/x height (also negative): Read (Encode v) is
   M_codec's OS/2 value. *)
Theorem real_os2_codec :
  forall (o : t_os2) (x : os2x), os2_rng o x -> dec_os2 (enc_os2 o x) = Ok (codec_os2 o).
Proof. exact os2_codec. Qed.
Print Assumptions real_os2_codec.

Theorem real_maxp_codec :
  forall (O : opaque) (m : N * option N),
    (1 <= fst m <= 65535)%N ->
    (forall id, snd m = Some id ->
       length (q_maxp_ttf O id) = 13%nat /\ Forall U16 (q_maxp_ttf O id) /\ q_maxp_id O (q_maxp_ttf O id) = id) ->
    exists b, enc_maxp O m = Ok b /\ dec_maxp O b = Ok m /\ b <> [].
Proof. exact maxp_codec. Qed.
Print Assumptions real_maxp_codec.

(* hhea + hmtx: with advance widths (one Int16 per glyph, 1..65535 glyphs) both tables are
   written and Decode returns ascent, descent, line gap and the widths; without (a TrueType
   font with nil Widths) only hhea is written and Decode returns no widths. *)
Theorem real_hmtx_codec :
  forall (O : opaque) (x : t_hmtx) (boxes : list C12.Model.rect) (n : nat),
    length boxes = n -> (1 <= n)%nat -> (N.of_nat n <= 65535)%N ->
    Forall box_ok boxes ->
    I16 (x_asc x) -> I16 (x_desc x) -> I16 (x_gap x) ->
    I16 (fst (q_caret O (x_angle x))) -> I16 (snd (q_caret O (x_angle x))) ->
    q_angle O (fst (q_caret O (x_angle x))) (snd (q_caret O (x_angle x))) = x_angle x ->
    match x_widths x with Some ws => length ws = n /\ Forall I16 ws | None => True end ->
    exists hhea hm,
      enc_hmtx O x boxes = Ok (hhea, hm) /\ hhea <> [] /\
      (hm = None <-> x_widths x = None) /\ (forall d, hm = Some d -> d <> []) /\
      dec_hmtx O hhea hm = Ok x.
Proof. exact hmtx_codec. Qed.
Print Assumptions real_hmtx_codec.

Theorem real_post_codec :
  forall (O : opaque) (p : t_post),
    I32 (p_angle p) -> I16 (p_upos p) -> I16 (p_uthick p) ->
    (let v := fst (q_post_tail O (p_names p)) in v = 65536%N \/ v = 131072%N \/ v = 196608%N) ->
    q_post_names O (fst (q_post_tail O (p_names p))) (snd (q_post_tail O (p_names p))) = Ok (p_names p) ->
    dec_post O (enc_post O p) = Ok p.
Proof. exact post_codec. Qed.
Print Assumptions real_post_codec.

(* ---- two opaque codecs instantiated by the real models that own them ---- *)

(* cmap: for a font whose character map is the table t of C09's model (sorted keys,
   subtables cmap.Decode can return), the codec "Encode t / Decode, then the identity
   view" satisfies the law ok_cmap - by C09's table_roundtrip. *)
Theorem inst_cmap_codec_law :
  forall (O : opaque) (view : cmap_table -> cmapv) (t : cmap_table) (c : cmapv),
    C09.Proofs_Trt.keys_sorted (map fst t) = true ->
    Forall C09.Proofs_Trt.wf_entry t ->
    (N.of_nat (length t) <= 65535)%N ->
    (4 + 8 * N.of_nat (length t) + N.of_nat (length (flat_map snd t)) < 4294967296)%N ->
    c = view t ->
    q_cmap_dec (with_cmap O view t) (q_cmap_enc (with_cmap O view t) c) = Ok c.
Proof. exact inst_cmap_law. Qed.
Print Assumptions inst_cmap_codec_law.

(* glyf/loca: for a font whose glyphs are the list gg of C11's model (nil, simple and
   composite glyphs in normal form, glyf table below 4 GiB) and whose pass-through tables
   are extra, the codec "Glyphs.Encode / glyf.Decode, then the identity view" satisfies
   the decode clause of ok_glyf - by C11's glyf_roundtrip. *)
Theorem inst_glyf_codec_law :
  forall (O : opaque) (view : C11.Model.glyphs -> list (N * list N) -> outl)
         (gg : C11.Model.glyphs) (extra : list (list N * list N)) (o : outl),
    gg <> [] -> forallb C11.Model.nf_glyph gg = true ->
    (C11.Model.len (C11.Model.enc_all 0 gg) < 4294967296)%N ->
    codec_outl o = view gg (extras_read extra) ->
    let O' := with_glyf O view gg extra in
    let gt := q_glyf_enc O' o in
    g_extra gt = extra /\
    q_glyf_dec O' (g_glyf gt) (g_loca gt) (g_locafmt gt) (extras_read (g_extra gt)) = Ok (codec_outl o).
Proof. exact inst_glyf_law. Qed.
Print Assumptions inst_glyf_codec_law.

(* ---- the container as sfnt.Read sees it ---- *)

(* every table written comes back under its tag with its declared length and its bytes
   (head: up to the adjustment field), and no other tag is found *)
Theorem container_lookup :
  forall (s : N) (ts : list C03.Model.table) (out : list N),
    C03.Spec.map_ok ts -> C03.Model.M_write s ts = Ok out -> C03.Model.valid_scaler s = true ->
    Forall (fun t : C03.Model.table => forallb C03.Model.printable (fst t) = true) ts ->
    (N.of_nat (length (C03.Model.M_filter ts)) <= header_maxTables)%N ->
    (C03.Spec.file_size (C03.Model.M_filter ts) < 4294967296)%N ->
    C03.Model.M_read_tables out = Ok (s, rt_of out) /\
    (forall tg d, In (tg, d) (C03.Model.M_filter ts) ->
       exists d', tb_find tg (rt_of out) = Some (N.of_nat (length d), d') /\
                  length d' = length d /\ C03.Model.clear_adj tg d' = C03.Model.clear_adj tg d) /\
    (forall tg, ~ In tg (map fst (C03.Model.M_filter ts)) -> tb_find tg (rt_of out) = None).
Proof. exact container_read. Qed.
Print Assumptions container_lookup.

(* ---- constants ---- *)

(* the tags of this development are those of C03 and of the Go source (scaler types are
   regenerated: Gen.Consts), and the zero of the head clock is the regenerated constant *)
Theorem model_constants_match :
  tag_head = C03.Model.tag_head /\ be32 tag_head = [104; 101; 97; 100]%N /\
  be32 tag_cvt = [99; 118; 116; 32]%N /\ be32 tag_fpgm = [102; 112; 103; 109]%N /\
  be32 tag_prep = [112; 114; 101; 112]%N /\ be32 tag_gasp = [103; 97; 115; 112]%N /\
  be32 tag_kern = [107; 101; 114; 110]%N /\
  C03.Model.valid_scaler header_scalerCFF = true /\ C03.Model.valid_scaler header_scalerTrueType = true /\
  zero1904 = Gen.C12.head_zeroTime.
Proof. repeat split; reflexivity. Qed.
Print Assumptions model_constants_match.
