(* C01B/Proofs_inst.v — the laws of the cmap and glyf codecs of Instances.v,
   from C09's table_roundtrip and C11's glyf_roundtrip. *)
From Coq Require Import List NArith ZArith Bool Lia.
From Common Require Import Bytes Outcome.
From C01 Require Import Str Model.
From C09 Require ModelT Proofs_Trt Props.
From C11 Require Model Props.
From C01B Require Import Model Spec Instances.
Import ListNotations.

Lemma inst_cmap_law (O : opaque) (view : cmap_table -> cmapv) (t : cmap_table) (c : cmapv) :
  C09.Proofs_Trt.keys_sorted (map fst t) = true ->
  Forall C09.Proofs_Trt.wf_entry t ->
  (N.of_nat (length t) <= 65535)%N ->
  (4 + 8 * N.of_nat (length t) + N.of_nat (length (flat_map snd t)) < 4294967296)%N ->
  c = view t ->
  q_cmap_dec (with_cmap O view t) (q_cmap_enc (with_cmap O view t) c) = Ok c.
Proof.
  intros H1 H2 H3 H4 ->.
  destruct (C09.Props.table_roundtrip t H1 H2 H3 H4) as (b & He & Hd & _).
  cbn [q_cmap_dec q_cmap_enc with_cmap]. rewrite He, Hd. reflexivity.
Qed.

Lemma inst_glyf_law (O : opaque) (view : C11.Model.glyphs -> list (N * list N) -> outl)
    (gg : C11.Model.glyphs) (extra : list (list N * list N)) (o : outl) :
  gg <> [] -> forallb C11.Model.nf_glyph gg = true ->
  (C11.Model.len (C11.Model.enc_all 0 gg) < 4294967296)%N ->
  codec_outl o = view gg (extras_read extra) ->
  let O' := with_glyf O view gg extra in
  let gt := q_glyf_enc O' o in
  g_extra gt = extra /\
  q_glyf_dec O' (g_glyf gt) (g_loca gt) (g_locafmt gt) (extras_read (g_extra gt)) = Ok (codec_outl o).
Proof.
  intros H1 H2 H3 Hv. cbv zeta.
  destruct (C11.Props.glyf_roundtrip gg H1 H2 H3) as (e & He & Hd).
  cbn [q_glyf_enc q_glyf_dec with_glyf]. rewrite He. cbn [g_glyf g_loca g_locafmt g_extra].
  split; [reflexivity|].
  destruct e as [g l f]. cbn [C11.Model.e_glyf C11.Model.e_loca C11.Model.e_fmt] in *.
  rewrite Hd. cbn [omap obind]. now rewrite Hv.
Qed.
