(* C01B/Spec.v — the domain of the file-level theorems: the ranges the byte
   formats impose on the values of a font (value_range), the laws of the
   opaque codecs for the data of one font (opaque_ok; every clause names the
   theorem of the development that discharges it for the real codec), and the
   size condition of the container (file_fits).  Propositions and the small
   functions they mention only. *)
From Coq Require Import List NArith ZArith Bool.
From Common Require Import Bytes Outcome.
From C01 Require Import Str Model Spec Model2.
From C03 Require Model Spec.
From C12 Require Codec Util Model Model2 Model3.
From C01B Require Import Model.
Import ListNotations.
Local Open Scope Z_scope.

Definition I16 := C12.Util.I16.
Definition I32 := C12.Util.I32.
Definition I64 := C12.Util.I64.
Definition U16 := C12.Util.U16.
Definition U32 := C12.Util.U32.
Definition U64 := C12.Util.U64.

(* a set timestamp: Unix seconds in int64; the instant whose Unix seconds are
   those of the zero time.Time reads back as "unset" (like 1904, it has no
   encoding of its own), so a value holding it is outside the domain *)
Definition time_rng (t : option Z) : Prop :=
  match t with Some u => I64 u /\ u <> C12.Model2.zero_unix | None => True end.

Definition box_ok (r : C12.Model.rect) : Prop :=
  I16 (C12.Model.llx r) /\ I16 (C12.Model.lly r) /\ I16 (C12.Model.urx r) /\ I16 (C12.Model.ury r).

(* the Go types of the fields: uint16 / int16 / uint32 / uint64 / int64 *)
Record value_range (F : font) : Prop := mkValueRange {
  vr_version : U32 (f_version F);
  vr_upm : U16 (f_upm F);
  vr_ctime : time_rng (f_ctime F);
  vr_mtime : time_rng (f_mtime F);
  vr_weight : U16 (f_weight F);
  vr_width : U16 (f_width F);
  vr_cpr : U64 (f_cpr F);
  vr_asc : I16 (f_asc F);
  vr_desc : I16 (f_desc F);
  vr_gap : I16 (f_gap F);
  vr_cap : I16 (f_cap F);
  vr_xh : I16 (f_xh F);
  vr_angle : I32 (f_angle F);                      (* post.italicAngle is a 16.16 int32 *)
  vr_upos : I16 (round16 (f_upos F));
  vr_uthick : I16 (round16 (f_uthick F));
  vr_glyphs : (ol_n (f_outl F) <= 65535)%N;        (* maxp.numGlyphs is a uint16 *)
  vr_widths : Forall I16 (font_widths (f_outl F))  (* funit.Int16 *)
}.

(* ranges of the table values the real codecs (C12) are applied to *)
Definition head_rng (h : t_head) : Prop :=
  U32 (h_rev h) /\ U16 (h_upm h) /\ time_rng (h_created h) /\ time_rng (h_modified h).

Definition os2_rng (o : t_os2) (x : os2x) : Prop :=
  U16 (o_weight o) /\ U16 (o_width o) /\
  I16 (o_asc o) /\ I16 (o_desc o) /\ I16 (o_gap o) /\ I16 (o_cap o) /\ I16 (o_xh o) /\
  I16 (o_fclass o) /\ U64 (o_cpr o) /\
  I16 (x_avg x) /\ (0 <= x_first x <= 65535) /\ (0 <= x_last x <= 65535) /\
  I16 (x_winasc x) /\ I16 (x_windesc x).

(* ---- pass-through tables ---- *)

Definition pass_names : list (list N) := [be32 tag_cvt; be32 tag_fpgm; be32 tag_prep; be32 tag_gasp].

(* glyf.Outlines.Tables holds (some of) the four tables sfnt.Read hands
   through, each under its own name *)
Definition extras_ok (ex : list (list N * list N)) : Prop :=
  NoDup (map fst ex) /\ Forall (fun e : list N * list N => In (fst e) pass_names) ex.

Definition ex_find (nm : list N) (ex : list (list N * list N)) : option (list N) :=
  match find (fun e : list N * list N => name_eqb (fst e) nm) ex with
  | Some e => Some (snd e)
  | None => None
  end.

(* what Read delivers of them: the non-empty ones (header.Info.Has), in the
   order of read.go *)
Definition extras_read (ex : list (list N * list N)) : list (N * list N) :=
  flat_map (fun tg => match ex_find (be32 tg) ex with
                      | Some (x :: d) => [(tg, x :: d)]
                      | _ => []
                      end)
           [tag_cvt; tag_fpgm; tag_prep; tag_gasp].

(* ---- the laws of the opaque codecs, for the data of one font ---- *)

Definition post_names_of (F : font) : option N :=
  if ol_cff (f_outl F) then None else ol_names (f_outl F).

Definition cffinfo_of (F : font) (ws : list Z) : t_cffinfo :=
  mkCffInfo (ps_name F) (full_name F) (f_family F) (weight_string (f_weight F))
            (version_string (f_version F)) (replace_copyright (f_copyright F))
            (f_trademark F) (f_angle F) (f_upos F) (f_uthick F) (is_fixed_pitch ws) false (f_upm F).

Record opaque_ok (O : opaque) (F : font) : Prop := mkOpaqueOk {
  (* Font.GlyphBBoxes(): one funit.Rect16 per glyph *)
  ok_boxes_len : length (q_boxes O (f_outl F)) = N.to_nat (ol_n (f_outl F));
  ok_boxes_rng : Forall box_ok (q_boxes O (f_outl F));
  (* hhea caret slope: int16 rise/run computed from the angle, and the angle
     recomputed from them (float code of hmtx.Encode / Decode and the
     rounding to the 16.16 grid in read.go; not modelled: oracle) *)
  ok_caret_rng : I16 (fst (q_caret O (f_angle F))) /\ I16 (snd (q_caret O (f_angle F)));
  ok_caret : q_angle O (fst (q_caret O (f_angle F))) (snd (q_caret O (f_angle F))) = f_angle F;
  (* maxp: the identity of a TTFInfo stands for its 13 uint16 values *)
  ok_maxp : forall id, ol_maxp (f_outl F) = Some id ->
      length (q_maxp_ttf O id) = 13%nat /\ Forall U16 (q_maxp_ttf O id) /\
      q_maxp_id O (q_maxp_ttf O id) = id;
  (* cmap.Table.Encode / cmap.Decode: C09 table_roundtrip (subtables: format4_roundtrip,
     format12_roundtrip); the derived data (GetBest, Lookup, standard ligatures) are
     functions of the decoded table *)
  ok_cmap : forall c, f_cmap F = Some c -> q_cmap_dec O (q_cmap_enc O c) = Ok c;
  (* name.Info.Encode / name.Decode and Tables.Choose: C14 name_roundtrip; the table
     is stored under "en" (Macintosh) and "en-US" (Windows), which Choose(AmericanEnglish)
     finds with confidence Exact *)
  ok_name : q_name_dec O (q_name_enc O (M_write_name F)) =
            Ok (mkNames (Some (M_write_name F)) 3 (Some (M_write_name F)) 3);
  (* post.Info.Encode / post.Read, the glyph names: C14 post_roundtrip *)
  ok_post_ver : let v := fst (q_post_tail O (post_names_of F)) in
                v = 65536%N \/ v = 131072%N \/ v = 196608%N;
  ok_post : q_post_names O (fst (q_post_tail O (post_names_of F))) (snd (q_post_tail O (post_names_of F)))
            = Ok (post_names_of F);
  (* cff.Font.Write / cff.Read: C13, C13B (assembly), C04/C05 (charstrings) *)
  ok_cff : ol_cff (f_outl F) = true ->
      let ci := cffinfo_of F (font_widths (f_outl F)) in
      q_cff_enc O ci (f_outl F) <> [] /\
      q_cff_dec O (q_cff_enc O ci (f_outl F)) = Ok (ci, codec_outl (f_outl F));
  (* glyf.Glyphs.Encode / glyf.Decode: C11 glyf_roundtrip, loca_roundtrip; the
     pass-through tables are byte strings *)
  ok_glyf : ol_cff (f_outl F) = false ->
      let gt := q_glyf_enc O (f_outl F) in
      I16 (g_locafmt gt) /\ g_loca gt <> [] /\ extras_ok (g_extra gt) /\
      q_glyf_dec O (g_glyf gt) (g_loca gt) (g_locafmt gt) (extras_read (g_extra gt))
        = Ok (codec_outl (f_outl F));
  (* gdef.Table.Encode / gdef.Read: C08 gdef_roundtrip *)
  ok_gdef : forall g, f_gdef F = Some g ->
      q_gdef_enc O g <> [] /\ q_gdef_dec O (q_gdef_enc O g) = Ok g;
  (* gtab.Info.Encode / gtab.Read: C08, C08B, C08C, C02B *)
  ok_gsub : forall g, f_gsub F = Some g ->
      q_gsub_enc O g <> [] /\ q_gsub_dec O (q_gsub_enc O g) = Ok g;
  ok_gpos : forall g, f_gpos F = Some g ->
      q_gpos_enc O g <> [] /\ q_gpos_dec O (q_gpos_enc O g) = Ok g
}.

(* the container: below 4 GiB (C03's hypothesis; offsets are uint32) *)
Definition file_fits (O : opaque) (F : font) : Prop :=
  forall s ts, M_file_tables O F = Ok (s, ts) ->
    (C03.Spec.file_size (C03.Model.M_filter ts) < 4294967296)%N.

(* the whole domain of one font value at the file level *)
Record file_domain (O : opaque) (F : font) : Prop := mkFileDomain {
  fd_range : in_range F = true;
  fd_values : value_range F;
  fd_opaque : opaque_ok O F;
  fd_fits : file_fits O F
}.

(* byte strings *)
Definition Bytes (b : list N) : Prop := C12.Util.Bytes b.
