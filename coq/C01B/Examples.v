(* C01B/Examples.v — non-vacuity: concrete opaque codecs and two concrete fonts
   (TrueType outlines with two pass-through tables and inconsistent style
   flags; CFF outlines with GSUB/GPOS) that satisfy every hypothesis of the
   theorems of Props.v, the cycle evaluated on them inside Coq (which also
   cross-checks the extraction on these inputs), and witnesses that two of the
   range conditions are needed. *)
From Coq Require Import List NArith ZArith Bool Lia.
From Common Require Import Bytes Outcome.
From Gen Require Import Consts C03.
From C01 Require Import Str Model Spec Model2.
From C03 Require Model Spec.
From C12 Require Model Model2 Util.
From C09 Require ModelT Proofs_Trt Examples.
From C11 Require Model Examples.
From C01B Require Import Model Spec Instances Proofs_main Props.
Import ListNotations.
Local Open Scope Z_scope.

(* ---- concrete codecs: they answer for the data of the font they are built for ---- *)

Definition ex_box : C12.Model.rect := C12.Model.mkRect 10 (-20) 500 700.

Definition ex_opaque (F : font) : opaque :=
  let o := f_outl F in
  mkOpaque
    (fun o' => C12.Model.mkRect 0 0 0 0 :: repeat ex_box (N.to_nat (ol_n o') - 1))
    (fun _ => mkGlyfTables [0; 1; 0; 0; 0; 0; 0; 0; 0; 0]%N [0; 0; 0; 5; 0; 5]%N 0
                           [(be32 tag_prep, [184; 1; 255]%N); (be32 tag_cvt, [0; 16; 0; 32; 7]%N)])
    (fun g l f ex => if (length g =? 10)%nat && (length l =? 6)%nat && (length ex =? 2)%nat
                     then Ok (codec_outl o) else Err)
    (fun _ _ => [1; 0; 4; 1]%N)
    (fun b => if (length b =? 4)%nat then Ok (cffinfo_of F (font_widths o), codec_outl o) else Err)
    (fun c => be32 (cm_id c))
    (fun b => match f_cmap F with Some c => if (rd32 b =? cm_id c)%N then Ok c else Err | None => Err end)
    (fun _ => Some (32, 255))
    (fun _ => [0; 0; 0; 1]%N)
    (fun _ => Ok (mkNames (Some (M_write_name F)) 3 (Some (M_write_name F)) 3))
    (fun nm => match nm with None => (196608%N, []) | Some _ => (131072%N, [0; 3; 0; 0; 0; 1; 0; 2]%N) end)
    (fun v _ => if (v =? 196608)%N then Ok None else Ok (post_names_of F))
    (fun _ => repeat 3%N 13)
    (fun _ => match ol_maxp o with Some id => id | None => 0%N end)
    (fun _ => (1, 0))
    (fun _ _ => f_angle F)
    (fun g => be32 g) (fun b => Ok (rd32 b))
    (fun g => be32 g) (fun b => Ok (rd32 b))
    (fun g => be32 g) (fun b => Ok (rd32 b))
    (fun b => Ok (rd32 b)).

(* ---- a TrueType font: REGULAR together with BOLD, slanted without ITALIC, a
   permission value outside 0..3, negative cap height, three glyphs ---- *)

Definition ex_outl_glyf : outl :=
  mkOutl false 77 3 [0; 700; 480] (Some [500; 600; 0]) (Some 5%N) (Some 9%N).

Definition ex_font_glyf : font :=
  mkFont [65; 98]%N 5 400 true true false false true true 3 65536 (Some 1700000000) None
         [100]%N [] [67]%N [] [] [] 7 1000 800 (-200) 90 (-5) 0 (-786432) (-6553600) 3276800
         ex_outl_glyf (Some (mkCmap 42 true 1 2 None)) (Some 11%N) None None.

Definition ex_font_cff : font :=
  mkFont [84; 101; 115; 116]%N 5 700 false true false false false false 0 131072 None (Some (-2082844800))
         [] [] [] [] [] [] 2 1000 750 (-250) 0 700 500 0 (-4915200) 1638400
         (mkOutl true 88 2 [0; 650] (Some [0; 555]) None None)
         (Some (mkCmap 43 true 1 0 None)) None (Some 21%N) (Some 22%N).

Ltac rng := unfold U32, U16, U64, I16, I32, I64, C12.Util.U32, C12.Util.U16, C12.Util.U64,
                   C12.Util.I16, C12.Util.I32, C12.Util.I64; cbn; lia.

Ltac values :=
  constructor; try rng; try exact I;
  try (cbn; split; [rng|discriminate]);
  try (cbn; repeat constructor; rng).

Lemma ex_values_glyf : value_range ex_font_glyf.
Proof. values. Qed.

Lemma ex_values_cff : value_range ex_font_cff.
Proof. values. Qed.

Ltac box := unfold box_ok, I16, C12.Util.I16; cbn; lia.

Lemma ex_opaque_glyf : opaque_ok (ex_opaque ex_font_glyf) ex_font_glyf.
Proof.
  constructor.
  - reflexivity.
  - cbn. repeat constructor; box.
  - split; rng.
  - reflexivity.
  - intros id H. injection H as <-. split; [reflexivity|]. split; [|reflexivity].
    cbn. repeat constructor; unfold U16, C12.Util.U16; lia.
  - intros c H. injection H as <-. reflexivity.
  - reflexivity.
  - vm_compute. auto.
  - reflexivity.
  - discriminate.
  - intros _. cbv zeta. split; [rng|]. split; [discriminate|]. split; [|reflexivity].
    split.
    + cbn. constructor; [|constructor; [|constructor]]; cbn; intuition discriminate.
    + cbn [g_extra q_glyf_enc ex_opaque]. constructor; [vm_compute; auto 10|]. constructor; [vm_compute; auto 10|constructor].
  - intros g H. injection H as <-. split; [discriminate|reflexivity].
  - discriminate.
  - discriminate.
Qed.

Lemma ex_opaque_cff : opaque_ok (ex_opaque ex_font_cff) ex_font_cff.
Proof.
  constructor.
  - reflexivity.
  - cbn. repeat constructor; box.
  - split; rng.
  - reflexivity.
  - discriminate.
  - intros c H. injection H as <-. reflexivity.
  - reflexivity.
  - vm_compute. auto.
  - reflexivity.
  - intros _. cbv zeta. split; [discriminate|reflexivity].
  - discriminate.
  - discriminate.
  - intros g H. injection H as <-. split; [discriminate|reflexivity].
  - intros g H. injection H as <-. split; [discriminate|reflexivity].
Qed.

Lemma ex_fits_glyf : file_fits (ex_opaque ex_font_glyf) ex_font_glyf.
Proof. intros s ts H. vm_compute in H. injection H as <- <-. vm_compute. reflexivity. Qed.

Lemma ex_fits_cff : file_fits (ex_opaque ex_font_cff) ex_font_cff.
Proof. intros s ts H. vm_compute in H. injection H as <- <-. vm_compute. reflexivity. Qed.

(* every hypothesis of file_read_write_normal_form holds for both fonts *)
Example ex_domain_glyf : file_domain (ex_opaque ex_font_glyf) ex_font_glyf.
Proof. constructor; [reflexivity|exact ex_values_glyf|exact ex_opaque_glyf|exact ex_fits_glyf]. Qed.

Example ex_domain_cff : file_domain (ex_opaque ex_font_cff) ex_font_cff.
Proof. constructor; [reflexivity|exact ex_values_cff|exact ex_opaque_cff|exact ex_fits_cff]. Qed.

(* the cycle, evaluated: the file exists, is accepted by C03's container
   checker, and reads back as the normal form - which differs from the value
   (the TrueType font is REGULAR and BOLD, slanted without ITALIC, has a
   permission value 7 and a negative cap height) *)
Example ex_cycle_glyf :
  exists b, M_font_write_bytes (ex_opaque ex_font_glyf) ex_font_glyf = Ok b /\
            length b = 536%nat /\ C03.Model.container_ok b = true /\
            M_font_read_bytes (ex_opaque ex_font_glyf) b = Ok (normalize ex_font_glyf) /\
            normalize ex_font_glyf <> ex_font_glyf.
Proof. eexists. split; [vm_compute; reflexivity|]. vm_compute. repeat split; try reflexivity. discriminate. Qed.

Example ex_cycle_cff :
  exists b, M_font_write_bytes (ex_opaque ex_font_cff) ex_font_cff = Ok b /\
            C03.Model.container_ok b = true /\
            M_font_read_bytes (ex_opaque ex_font_cff) b = Ok (normalize ex_font_cff).
Proof. eexists. split; [vm_compute; reflexivity|]. vm_compute. repeat split; reflexivity. Qed.

(* the written tables: 13 for the TrueType font (hhea hmtx cmap OS/2 name post
   glyf loca prep cvt maxp head GDEF), in the directory sorted by tag *)
Example ex_directory_glyf :
  match M_font_write_bytes (ex_opaque ex_font_glyf) ex_font_glyf with
  | Ok b => map (fun e => fst (fst (fst e))) (file_directory b)
  | _ => []
  end = [tag_GDEF; tag_OS2; tag_cmap; tag_cvt; tag_glyf; tag_head; tag_hhea; tag_hmtx; tag_loca;
         tag_maxp; tag_name; tag_post; tag_prep].
Proof. vm_compute. reflexivity. Qed.

(* the hypotheses of file_byte_fixed_point: the normal form is in the domain
   of the codecs built for it *)
Definition ex_norm_glyf : font := Eval vm_compute in normalize ex_font_glyf.
Lemma ex_norm_glyf_eq : ex_norm_glyf = normalize ex_font_glyf.
Proof. vm_compute. reflexivity. Qed.

Lemma ex_opaque_norm : opaque_ok (ex_opaque ex_norm_glyf) ex_norm_glyf.
Proof.
  constructor.
  - reflexivity.
  - cbn. repeat constructor; box.
  - split; rng.
  - reflexivity.
  - intros id H. injection H as <-. split; [reflexivity|]. split; [|reflexivity].
    cbn. repeat constructor; unfold U16, C12.Util.U16; lia.
  - intros c H. injection H as <-. reflexivity.
  - reflexivity.
  - vm_compute. auto.
  - reflexivity.
  - discriminate.
  - intros _. cbv zeta. split; [rng|]. split; [discriminate|]. split; [|reflexivity].
    split.
    + cbn. constructor; [|constructor; [|constructor]]; cbn; intuition discriminate.
    + cbn [g_extra q_glyf_enc ex_opaque]. constructor; [vm_compute; auto 10|]. constructor; [vm_compute; auto 10|constructor].
  - intros g H. injection H as <-. split; [discriminate|reflexivity].
  - discriminate.
  - discriminate.
Qed.

Example ex_domain_glyf_normal :
  file_domain (ex_opaque (normalize ex_font_glyf)) (normalize ex_font_glyf).
Proof.
  rewrite <- ex_norm_glyf_eq. constructor.
  - reflexivity.
  - values.
  - exact ex_opaque_norm.
  - intros s ts H. vm_compute in H. injection H as <- <-. vm_compute. reflexivity.
Qed.

(* the hypotheses of file_accepts_fixed_point on the file of the CFF font: a
   byte string, accepted, bold and underline settled, in the domain *)
Lemma bytes_of_check b : forallb (fun y => (y <? 256)%N) b = true -> Bytes b.
Proof.
  intros H. unfold Bytes, C12.Util.Bytes. apply Forall_forall. intros x Hx.
  rewrite forallb_forall in H. unfold C12.Util.U8. apply N.ltb_lt. now apply H.
Qed.

Example ex_accepts_cff :
  exists b F0,
    M_font_write_bytes (ex_opaque ex_font_cff) ex_font_cff = Ok b /\
    Bytes b /\ M_font_read_bytes (ex_opaque ex_font_cff) b = Ok F0 /\
    bold_settled F0 = true /\ underline_settled F0 = true /\ in_range F0 = true.
Proof.
  eexists. eexists. split; [vm_compute; reflexivity|].
  split; [apply bytes_of_check; vm_compute; reflexivity|].
  split; [vm_compute; reflexivity|]. vm_compute. repeat split; reflexivity.
Qed.

(* ---- the range conditions are needed ---- *)

(* a timestamp whose Unix seconds are those of Go's zero time.Time (year 1) is
   written as a number and read back as "unset": value_range excludes it
   (C01's model, which only knows the 1904 origin, keeps it) *)
Definition ex_font_year1 : font :=
  mkFont [84]%N 5 400 true false false false false false 0 65536 (Some (-62135596800)) (Some 1)
         [] [] [] [] [] [] 0 1000 750 (-250) 0 700 500 0 0 0
         (mkOutl true 88 2 [0; 650] (Some [0; 555]) None None) None None None None.

Example year1_timestamp_refuted :
  in_range ex_font_year1 = true /\
  exists b, M_font_write_bytes (ex_opaque ex_font_year1) ex_font_year1 = Ok b /\
            M_font_read_bytes (ex_opaque ex_font_year1) b <> Ok (normalize ex_font_year1).
Proof. split; [reflexivity|]. eexists. split; [vm_compute; reflexivity|]. vm_compute. discriminate. Qed.

(* an advance width outside int16 is truncated by funit.Int16(w): the widths
   do not come back *)
Definition ex_font_wide : font :=
  mkFont [84]%N 5 400 true false false false false false 0 65536 None (Some 1)
         [] [] [] [] [] [] 0 1000 750 (-250) 0 700 500 0 0 0
         (mkOutl false 88 2 [0; 650] (Some [0; 40000]) None None) None None None None.

Example wide_advance_refuted :
  in_range ex_font_wide = true /\
  exists b, M_font_write_bytes (ex_opaque ex_font_wide) ex_font_wide = Ok b /\
            M_font_read_bytes (ex_opaque ex_font_wide) b <> Ok (normalize ex_font_wide).
Proof. split; [reflexivity|]. eexists. split; [vm_compute; reflexivity|]. vm_compute. discriminate. Qed.

(* ---- the real cmap and glyf codecs (Instances.v) on C09's and C11's own example values ---- *)

Definition ex_cmap_view (t : cmap_table) : cmapv := mkCmap (N.of_nat (length t)) true 1 2 None.
Definition ex_glyf_view (gg : C11.Model.glyphs) (ex : list (N * list N)) : outl :=
  mkOutl false (N.of_nat (length gg)) (N.of_nat (length gg)) [] None None None.

Example ex_inst_cmap :
  let O := with_cmap (ex_opaque ex_font_glyf) ex_cmap_view C09.Examples.ex_t in
  q_cmap_dec O (q_cmap_enc O (ex_cmap_view C09.Examples.ex_t)) = Ok (ex_cmap_view C09.Examples.ex_t).
Proof.
  cbv zeta. apply inst_cmap_codec_law;
    [exact (proj1 C09.Examples.ex_t_hyps)|exact (proj2 C09.Examples.ex_t_hyps)
    |vm_compute; discriminate|vm_compute; reflexivity|reflexivity].
Qed.

Example ex_inst_glyf :
  let o := mkOutl false 8 8 [] None None None in
  let O := with_glyf (ex_opaque ex_font_glyf) ex_glyf_view C11.Examples.ex_gg [(be32 tag_cvt, [1; 2; 3]%N)] in
  let gt := q_glyf_enc O o in
  q_glyf_dec O (g_glyf gt) (g_loca gt) (g_locafmt gt) (extras_read (g_extra gt)) = Ok (codec_outl o).
Proof.
  cbv zeta. apply (inst_glyf_codec_law (ex_opaque ex_font_glyf) ex_glyf_view C11.Examples.ex_gg);
    [discriminate|exact C11.Examples.ex_nf|vm_compute; reflexivity|reflexivity].
Qed.
