(* C01B/Proofs_assemble.v — the table map Font.Write assembles: it is a
   well-formed map (distinct printable names), it has at most 18 entries, and
   what is stored under each tag sfnt.Read asks for. *)
From Coq Require Import List NArith ZArith Bool Arith Lia Permutation.
From Common Require Import Bytes Outcome.
From C01 Require Import Str Model Model2.
From C03 Require Import Model Spec Proofs_Read Proofs_Write.
From C01B Require Import Model Spec Proofs_tl.
Import ListNotations.
Local Open Scope N_scope.

Lemma name_ok_tag tg : forallb printable (be32 tg) = true -> name_ok (be32 tg).
Proof. intros H. split; [apply be32_is_byte|exact H]. Qed.

Ltac std_name := apply name_ok_tag; vm_compute; reflexivity.

Lemma pass_names_ok nm : In nm pass_names -> name_ok nm.
Proof.
  unfold pass_names. intros [<-|[<-|[<-|[<-|[]]]]]; std_name.
Qed.

Lemma extras_names_ok ex : extras_ok ex -> Forall (fun e : list N * list N => name_ok (fst e)) ex.
Proof.
  intros [_ Hf]. rewrite Forall_forall in *. intros e He. apply pass_names_ok. apply (Hf e He).
Qed.

Lemma tl_wf_set_opt m tg od : tl_wf m -> forallb printable (be32 tg) = true -> tl_wf (tl_set_opt m tg od).
Proof. intros Hm Hp. destruct od; [|exact Hm]. apply tl_wf_set; [exact Hm|now apply name_ok_tag]. Qed.

Lemma tl_wf_set_tag m tg d : tl_wf m -> forallb printable (be32 tg) = true -> tl_wf (tl_set_tag m tg d).
Proof. intros Hm Hp. apply tl_wf_set; [exact Hm|now apply name_ok_tag]. Qed.

Section Assemble.
Variables (cff : bool) (hhea : list N) (hm cm : option (list N)) (os2 name post : list N)
          (cffd : option (list N)) (gt : glyf_tables) (maxp head : list N) (gdef gsub gpos : option (list N)).
Hypothesis Hex : extras_ok (g_extra gt).

Let A := assemble cff hhea hm cm os2 name post cffd gt maxp head gdef gsub gpos.

Lemma assemble_wf : tl_wf A.
Proof.
  unfold A, assemble.
  repeat first [ apply tl_wf_set_opt; [|vm_compute; reflexivity]
               | apply tl_wf_set_tag; [|vm_compute; reflexivity] ].
  destruct cff.
  - repeat first [ apply tl_wf_set_opt; [|vm_compute; reflexivity]
                 | apply tl_wf_set_tag; [|vm_compute; reflexivity] ]. apply tl_wf_nil.
  - apply tl_wf_fold; [|now apply extras_names_ok].
    repeat first [ apply tl_wf_set_opt; [|vm_compute; reflexivity]
                 | apply tl_wf_set_tag; [|vm_compute; reflexivity] ]. apply tl_wf_nil.
Qed.

Lemma filter_len_le {X} (p : X -> bool) l : (length (filter p l) <= length l)%nat.
Proof. induction l as [|x l IH]; cbn [filter length]; [lia|]. destruct (p x); cbn [length]; lia. Qed.

Lemma tl_set_length m nm d : (length (tl_set m nm d) <= S (length m))%nat.
Proof.
  unfold tl_set. rewrite app_length. cbn [length].
  pose proof (filter_len_le (fun t : table => negb (name_eqb (fst t) nm)) m). lia.
Qed.
Lemma tl_set_opt_length m tg od : (length (tl_set_opt m tg od) <= S (length m))%nat.
Proof. destruct od; [apply tl_set_length|cbn; lia]. Qed.
Lemma tl_fold_length ex : forall m,
  (length (fold_left (fun m (e : list N * list N) => tl_set m (fst e) (snd e)) ex m) <= length m + length ex)%nat.
Proof.
  induction ex as [|e ex IH]; intros m; cbn [fold_left length]; [lia|].
  specialize (IH (tl_set m (fst e) (snd e))). pose proof (tl_set_length m (fst e) (snd e)). lia.
Qed.

Lemma extras_length : (length (g_extra gt) <= 4)%nat.
Proof.
  destruct Hex as [Hn Hf].
  rewrite <- (map_length fst). change 4%nat with (length pass_names).
  apply NoDup_incl_length; [exact Hn|].
  intros x Hx. apply in_map_iff in Hx. destruct Hx as (e & <- & He).
  rewrite Forall_forall in Hf. now apply Hf.
Qed.

Ltac count_step :=
  first [ eapply Nat.le_trans; [apply tl_set_opt_length|apply le_n_S]
        | eapply Nat.le_trans; [apply tl_set_length|apply le_n_S] ].

Lemma assemble_length : (length A <= 18)%nat.
Proof.
  unfold A, assemble, tl_set_tag. pose proof extras_length as He. destruct cff.
  - apply (Nat.le_trans _ 12); [|lia]. do 12 count_step. cbn. lia.
  - do 5 count_step.
    eapply Nat.le_trans; [apply tl_fold_length|].
    assert (H8 : (length (tl_set (tl_set (tl_set (tl_set (tl_set (tl_set_opt (tl_set_opt (tl_set [] (be32 tag_hhea) hhea)
                    tag_hmtx hm) tag_cmap cm) (be32 tag_OS2) os2) (be32 tag_name) name) (be32 tag_post) post)
                    (be32 tag_glyf) (g_glyf gt)) (be32 tag_loca) (g_loca gt)) <= 8)%nat).
    { do 8 count_step. cbn. lia. }
    lia.
Qed.

(* ---- lookup ---- *)

Definition pick (nm : list N) (tg : N) (d : list N) (rest : option (list N)) : option (list N) :=
  if name_eqb nm (be32 tg) then Some d else rest.
Definition pick_opt (nm : list N) (tg : N) (od : option (list N)) (rest : option (list N)) : option (list N) :=
  match od with Some d => pick nm tg d rest | None => rest end.

Lemma tl_get_assemble nm :
  tl_get nm A =
  pick_opt nm tag_GPOS gpos (pick_opt nm tag_GSUB gsub (pick_opt nm tag_GDEF gdef
    (pick nm tag_head head (pick nm tag_maxp maxp
      (let r6 := pick nm tag_post post (pick nm tag_name name (pick nm tag_OS2 os2
                   (pick_opt nm tag_cmap cm (pick_opt nm tag_hmtx hm (pick nm tag_hhea hhea None))))) in
       if cff then pick_opt nm tag_CFF cffd r6
       else fold_left (fun acc (e : list N * list N) => if name_eqb nm (fst e) then Some (snd e) else acc)
                      (g_extra gt) (pick nm tag_loca (g_loca gt) (pick nm tag_glyf (g_glyf gt) r6))))))).
Proof.
  unfold A, assemble, pick_opt, pick.
  rewrite !tl_get_set_opt, !tl_get_set_tag.
  destruct cff.
  - rewrite !tl_get_set_opt, !tl_get_set_tag, !tl_get_set_opt, !tl_get_set_tag, tl_get_nil. reflexivity.
  - rewrite tl_get_fold, !tl_get_set_tag, !tl_get_set_opt, !tl_get_set_tag, tl_get_nil. reflexivity.
Qed.

(* names other than the four pass-through names are not touched by the fold *)
Lemma fold_extras_other nm acc :
  ~ In nm pass_names ->
  fold_left (fun acc (e : list N * list N) => if name_eqb nm (fst e) then Some (snd e) else acc) (g_extra gt) acc = acc.
Proof.
  intros Hn. apply fold_ex_none. intros Hin. apply Hn.
  destruct Hex as [_ Hf]. apply in_map_iff in Hin. destruct Hin as (e & <- & He).
  rewrite Forall_forall in Hf. now apply Hf.
Qed.

Lemma fold_extras_find nm :
  fold_left (fun acc (e : list N * list N) => if name_eqb nm (fst e) then Some (snd e) else acc) (g_extra gt) None
  = ex_find nm (g_extra gt).
Proof.
  destruct Hex as [Hn _]. unfold ex_find.
  destruct (find (fun e : list N * list N => name_eqb (fst e) nm) (g_extra gt)) as [e|] eqn:E.
  - apply find_some in E. destruct E as [Hin Heq]. destruct (name_eqb_spec (fst e) nm) as [<-|]; [|discriminate].
    apply fold_ex_some; [exact Hn|]. now destruct e.
  - apply fold_ex_none. intros Hin. apply in_map_iff in Hin. destruct Hin as (e & <- & He).
    pose proof (find_none _ _ E e He) as Hne. cbn in Hne. now rewrite name_eqb_refl in Hne.
Qed.

End Assemble.

(* evaluation of the comparisons between standard names *)
Ltac eval_names :=
  repeat match goal with
  | |- context [name_eqb (be32 ?a) (be32 ?b)] =>
      let v := eval vm_compute in (name_eqb (be32 a) (be32 b)) in
      change (name_eqb (be32 a) (be32 b)) with v
  end; cbv beta iota.

Lemma not_pass tg : existsb (name_eqb (be32 tg)) pass_names = false -> ~ In (be32 tg) pass_names.
Proof.
  intros H Hin. assert (existsb (name_eqb (be32 tg)) pass_names = true).
  { apply existsb_exists. exists (be32 tg). split; [exact Hin|apply name_eqb_refl]. }
  congruence.
Qed.
