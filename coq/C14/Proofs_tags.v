(* C14/Proofs_tags.v — OpenType script/language tags survive the BCP 47
   private-use extension, for every pair of the regenerated tables, under the
   stated behaviour of golang.org/x/text/language. *)
From Coq Require Import List NArith ZArith Bool Arith Lia.
From Common Require Import Bytes Outcome.
From Gen Require Import C14.
From C14 Require Import Model ModelTags Proofs_post.
Import ListNotations.
Local Open Scope N_scope.

Lemma lookupS_unique {V} (l : list (list N * V)) k v :
  keys_unique l = true -> In (k, v) l -> lookupS k l = Some v.
Proof.
  induction l as [|[k' v'] r IH]; cbn [keys_unique lookupS]; [intros _ []|].
  rewrite andb_true_iff, negb_true_iff. intros [Hn Hu] [Hin|Hin].
  - injection Hin as -> ->. now rewrite list_eqb_refl.
  - destruct (list_eqb k' k) eqn:E.
    + apply list_eqb_eq in E. subst k'. exfalso.
      assert (existsb (fun e => list_eqb (fst e) k) r = true); [|congruence].
      apply existsb_exists. exists (k, v). split; [exact Hin|]. cbn [fst]. apply list_eqb_refl.
    + now apply IH.
Qed.

Lemma otf_all_ok_true :
  forallb (fun se => forallb (fun le => pair_check_e se le) otf_lang_entries) gtab_scriptBcp47 = true.
Proof. vm_compute. reflexivity. Qed.

Lemma otf_tables_unique :
  keys_unique gtab_scriptBcp47 = true /\ keys_unique gtab_langBcp47 = true /\
  lookupS [] gtab_langBcp47 = None.
Proof. vm_compute. repeat split; reflexivity. Qed.

Lemma forallb2_in {A B} (f : A -> B -> bool) (la : list A) (lb : list B) :
  forallb (fun a => forallb (fun b => f a b) lb) la = true ->
  forall a b, In a la -> In b lb -> f a b = true.
Proof.
  intros H a b Ha Hb. rewrite forallb_forall in H. specialize (H a Ha).
  rewrite forallb_forall in H. exact (H b Hb).
Qed.

Lemma pair_check_spec xtext script bs lang bl :
  xtext_spec xtext -> pair_check script bs lang bl = true ->
  exists ext, xtext (full_tag (tag_parts bs bl script lang)) = Some ext /\
              M_from_ext ext = Some (script, lang).
Proof.
  intros Hx Hall. unfold pair_check in Hall.
  set (p := tag_parts bs bl script lang) in *.
  rewrite !andb_true_iff in Hall. destruct Hall as [[Hpre Hpriv] Hfrom].
  exists ([120; 45] ++ lower (snd p)). split.
  - unfold full_tag. now apply Hx.
  - destruct (M_from_ext ([120; 45] ++ lower (snd p))) as [[s l]|]; [|discriminate].
    rewrite andb_true_iff in Hfrom. destruct Hfrom as [H1 H2].
    apply list_eqb_eq in H1, H2. now subst.
Qed.

Lemma all_pairs_checked script bs lang bl :
  In (script, bs) gtab_scriptBcp47 ->
  In (lang, bl) (([], und) :: gtab_langBcp47) ->
  pair_check script bs lang bl = true.
Proof.
  intros Hs Hl.
  exact (forallb2_in pair_check_e gtab_scriptBcp47 otf_lang_entries otf_all_ok_true
                     (script, bs) (lang, bl) Hs Hl).
Qed.

Lemma otf_pair_lemma xtext script bs lang bl :
  xtext_spec xtext ->
  In (script, bs) gtab_scriptBcp47 ->
  In (lang, bl) (([], und) :: gtab_langBcp47) ->
  exists ext, xtext (full_tag (tag_parts bs bl script lang)) = Some ext /\
              M_from_ext ext = Some (script, lang).
Proof.
  intros Hx Hs Hl. apply pair_check_spec; [exact Hx|]. now apply all_pairs_checked.
Qed.

Lemma otf_tag_roundtrip_lemma xtext script lang :
  xtext_spec xtext ->
  In script (map fst gtab_scriptBcp47) ->
  lang = [] \/ In lang (map fst gtab_langBcp47) ->
  exists p ext, M_otf_tag_string script lang = Some p /\
                xtext (full_tag p) = Some ext /\ M_from_ext ext = Some (script, lang).
Proof.
  intros Hx Hs Hl.
  destruct otf_tables_unique as (Us & Ul & Hnone).
  apply in_map_iff in Hs. destruct Hs as [[script' bs] [Es Hs]]. cbn [fst] in Es. subst script'.
  assert (Hls : lookupS script gtab_scriptBcp47 = Some bs) by now apply lookupS_unique.
  destruct Hl as [->|Hl].
  - assert (Htag : M_otf_tag_string script [] = Some (tag_parts bs und script [])).
    { unfold M_otf_tag_string. now rewrite Hls, Hnone. }
    destruct (otf_pair_lemma xtext script bs [] und Hx Hs (or_introl eq_refl)) as [ext [H1 H2]].
    eauto.
  - apply in_map_iff in Hl. destruct Hl as [[lang' bl] [El Hl]]. cbn [fst] in El. subst lang'.
    assert (Hll : lookupS lang gtab_langBcp47 = Some bl) by now apply lookupS_unique.
    assert (Htag : M_otf_tag_string script lang = Some (tag_parts bs bl script lang)).
    { unfold M_otf_tag_string. now rewrite Hls, Hll. }
    destruct (otf_pair_lemma xtext script bs lang bl Hx Hs (or_intror Hl)) as [ext [H1 H2]].
    eauto.
Qed.

(* the assumption about x/text is satisfiable: a function that splits at the
   first singleton "x" meets it (so the theorem is not vacuous) *)
Fixpoint find_x (pre_rev : list (list N)) (subs : list (list N)) : option (list (list N)) :=
  match subs with
  | [] => None
  | s :: r => if list_eqb (lower s) [120] then Some r else find_x (s :: pre_rev) r
  end.
Fixpoint join_dash (l : list (list N)) : list N :=
  match l with
  | [] => []
  | [s] => s
  | s :: r => s ++ ch_dash :: join_dash r
  end.
Definition xtext_ref (tag : list N) : option (list N) :=
  match find_x [] (split_dash tag) with
  | Some r => Some ([120; 45] ++ lower (join_dash r))
  | None => None
  end.

Lemma split_dash_app a b :
  split_dash (a ++ ch_dash :: b) = split_dash a ++ split_dash b.
Proof.
  induction a as [|c a IH]; cbn [app split_dash].
  - change (ch_dash =? ch_dash) with true. reflexivity.
  - destruct (c =? ch_dash) eqn:E; [cbn [app]; now rewrite IH|].
    rewrite IH. destruct (split_dash a) as [|h t] eqn:Ea; [|reflexivity].
    exfalso. clear -Ea. destruct a as [|x a]; cbn [split_dash] in Ea; [discriminate|].
    destruct (x =? ch_dash); [discriminate|]. destruct (split_dash a); discriminate.
Qed.

Lemma join_split s : join_dash (split_dash s) = s.
Proof.
  induction s as [|c s IH]; cbn [split_dash]; [reflexivity|].
  destruct (c =? ch_dash) eqn:E.
  - apply N.eqb_eq in E. subst c. cbn [join_dash].
    destruct (split_dash s) as [|h t] eqn:Es.
    + exfalso. clear -Es. destruct s as [|x s]; cbn [split_dash] in Es; [discriminate|].
      destruct (x =? ch_dash); [discriminate|]. destruct (split_dash s); discriminate.
    + cbn [app]. now rewrite IH.
  - destruct (split_dash s) as [|h t] eqn:Es.
    + exfalso. clear -Es. destruct s as [|x s]; cbn [split_dash] in Es; [discriminate|].
      destruct (x =? ch_dash); [discriminate|]. destruct (split_dash s); discriminate.
    + cbn [join_dash] in *. destruct t; cbn [app]; now rewrite IH.
Qed.

Lemma find_x_skip pre_rev subs rest :
  forallb (fun s => negb (list_eqb (lower s) [120])) subs = true ->
  find_x pre_rev (subs ++ [120] :: rest) = Some rest.
Proof.
  revert pre_rev. induction subs as [|s r IH]; intros pre_rev H; cbn [app find_x forallb] in *.
  - reflexivity.
  - apply andb_true_iff in H. destruct H as [H1 H2]. apply negb_true_iff in H1. rewrite H1.
    now apply IH.
Qed.

Lemma xtext_ref_meets_spec : xtext_spec xtext_ref.
Proof.
  intros pre rest Hpre _. unfold xtext_ref.
  change (pre ++ [45; 120; 45] ++ rest) with (pre ++ ch_dash :: ([120] ++ ch_dash :: rest)).
  rewrite split_dash_app, split_dash_app. change (split_dash [120]) with [[120]]. cbn [app].
  rewrite find_x_skip by exact Hpre. now rewrite join_split.
Qed.
