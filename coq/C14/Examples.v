(* C14/Examples.v — non-vacuity: concrete non-trivial values meet every
   hypothesis of the theorems in Props.v. *)
From Coq Require Import List NArith ZArith Bool Arith.
From Common Require Import Bytes Outcome.
From Gen Require Import Consts C14.
From C14 Require Import Model.
Import ListNotations.
Local Open Scope N_scope.

(* Mac Roman: "Ä€ﬁ" plus ASCII *)
Definition ex_mac : list N := [65; 196; 8364; 64257; 126].
Example ex_mac_in_repertoire : forallb mac_repertoire ex_mac = true.
Proof. vm_compute. reflexivity. Qed.
Example ex_mac_bytes : M_mac_encode ex_mac = [65; 128; 219; 222; 126].
Proof. vm_compute. reflexivity. Qed.
Example ex_mac_back : M_mac_decode (M_mac_encode ex_mac) = Ok ex_mac.
Proof. vm_compute. reflexivity. Qed.
Example ex_mac_not_in_repertoire : mac_repertoire 12354 = false /\ M_mac_enc1 12354 = 63.
Proof. vm_compute. split; reflexivity. Qed.

(* UTF-16: BMP, the last scalar before the surrogates, astral planes *)
Definition ex_u16 : list N := [65; 8364; 55295; 57344; 65533; 65536; 128512; 1114111].
Example ex_u16_scalars : forallb is_scalar ex_u16 = true.
Proof. vm_compute. reflexivity. Qed.
Example ex_u16_bytes :
  M_utf16_encode [65; 128512] = [0; 65; 216; 61; 222; 0].
Proof. vm_compute. reflexivity. Qed.
Example ex_u16_back : M_utf16_decode (M_utf16_encode ex_u16) = ex_u16.
Proof. vm_compute. reflexivity. Qed.
Example ex_u16_wellformed_bytes :
  wf_utf16be [0; 65; 216; 61; 222; 0] = true /\
  M_utf16_encode (M_utf16_decode [0; 65; 216; 61; 222; 0]) = [0; 65; 216; 61; 222; 0] /\
  wf_utf16be [216; 61; 0; 65] = false /\ wf_utf16be [0; 65; 7] = false.
Proof. vm_compute. repeat split; reflexivity. Qed.
(* ill-formed input: lone surrogates and an odd trailing byte *)
Example ex_u16_illformed :
  M_utf16_decode [216; 61; 0; 65; 222; 0; 7] = [65533; 65; 65533].
Proof. vm_compute. reflexivity. Qed.
(* a surrogate is not a scalar value: the hypothesis of utf16_roundtrip matters *)
Example ex_u16_surrogate_refuted :
  is_scalar 55296 = false /\ M_utf16_decode (M_utf16_encode [55296]) <> [55296].
Proof. vm_compute. split; [reflexivity|discriminate]. Qed.

(* ------------------------------------------------------------------ *)
(* post *)
From C14 Require Import Proofs_post Proofs_name1 Proofs_name2 Proofs_name3.
From Coq Require Import Lia.

Definition ex_hdr : post_hdr := mk_post_hdr (-589824) (-100) 50 true.
(* ".notdef", custom "foo", standard "A", custom "", custom "foo" again *)
Definition ex_names : list (list N) :=
  [[46; 110; 111; 116; 100; 101; 102]; [102; 111; 111]; [65]; []; [102; 111; 111]].
Example ex_hdr_ok : hdr_ok ex_hdr.
Proof. unfold hdr_ok, ex_hdr; cbn; lia. Qed.
Example ex_names_hyp :
  is_mac_roman ex_names = false /\
  Forall (fun nm => (length nm <= 255)%nat) ex_names /\ lenN ex_names <= 65535 /\
  nMac + count_custom ex_names <= 65536 /\ count_custom ex_names = 3.
Proof.
  split; [vm_compute; reflexivity|]. split; [repeat constructor; cbn; lia|].
  split; [vm_compute; discriminate|]. split; vm_compute; [discriminate|reflexivity].
Qed.
Example ex_post_format2 :
  M_post_read (M_post_encode ex_hdr (Some ex_names)) = Ok (ex_hdr, Some ex_names) /\
  rd32 (M_post_encode ex_hdr (Some ex_names)) = 131072.
Proof. vm_compute. split; reflexivity. Qed.
Example ex_post_format1 :
  is_mac_roman post_macRoman = true /\
  rd32 (M_post_encode ex_hdr (Some post_macRoman)) = 65536 /\
  M_post_read (M_post_encode ex_hdr (Some post_macRoman)) = Ok (ex_hdr, Some post_macRoman).
Proof. vm_compute. repeat split; reflexivity. Qed.
Example ex_post_format3 :
  M_post_read (M_post_encode ex_hdr None) = Ok (ex_hdr, None).
Proof. vm_compute. reflexivity. Qed.
Example ex_post_malformed :
  M_post_read [0; 2; 0; 0] = Err /\
  M_post_read (firstn 40 (M_post_encode ex_hdr (Some ex_names))) = Err.
Proof. vm_compute. split; reflexivity. Qed.

(* the index guard of post_roundtrip is needed (finding
   post-format2-index-exceeds-65535): 65279 non-standard names *)
Definition many_names : list (list N) := repeat [120; 120] (N.to_nat 65279).
Example post_index_overflow_refuted :
  (lenN many_names <=? 65535) = true /\
  (nMac + count_custom many_names <=? 65536) = false /\
  match M_post_read (M_post_encode ex_hdr (Some many_names)) with
  | Ok (_, Some l) => negb (list_list_eqb l many_names)
  | _ => true
  end = true.
Proof. vm_compute. repeat split; reflexivity. Qed.

(* ------------------------------------------------------------------ *)
(* name *)

Definition tag_en : list N := [101; 110].                      (* "en" *)
Definition tag_de : list N := [100; 101].                      (* "de" *)
Definition tag_enUS : list N := [101; 110; 45; 85; 83].        (* "en-US" *)
Definition tag_jaJP : list N := [106; 97; 45; 74; 80].         (* "ja-JP" *)
Definition ex_info : info :=
  mk_info [(tag_en, [(1, [70; 111; 111]); (300, [196; 8364])]); (tag_de, [(1, [70; 111; 111])])]
          [(tag_enUS, [(1, [70; 111; 111]); (2, [128512; 65]); (65535, [70; 111; 111])]);
           (tag_jaJP, [(4, [26085; 26412])])].

Example ex_info_wf : wf_info ex_info.
Proof.
  split; intros tag t H; cbn [ex_info i_mac i_win lookupB] in H.
  - destruct (list_eqb tag_en tag); [|destruct (list_eqb tag_de tag); [|discriminate]];
      injection H as <-; (split; [repeat constructor; cbn; intuition discriminate|]);
      intros id v Hin; cbn [In] in Hin;
      repeat (destruct Hin as [Hin|Hin]; [injection Hin as <- <-; split; [lia|vm_compute; reflexivity]|]);
      destruct Hin.
  - destruct (list_eqb tag_enUS tag); [|destruct (list_eqb tag_jaJP tag); [|discriminate]];
      injection H as <-; (split; [repeat constructor; cbn; intuition discriminate|]);
      intros id v Hin; cbn [In] in Hin;
      repeat (destruct Hin as [Hin|Hin]; [injection Hin as <- <-; split; [lia|vm_compute; reflexivity]|]);
      destruct Hin.
Qed.

Example ex_info_fits :
  (6 + 12 * name_num_records name_appleBCP name_msBCP 1 ex_info <=? 65535) = true /\
  (name_storage_len name_appleBCP name_msBCP 1 ex_info <=? 65535) = true /\
  name_num_records name_appleBCP name_msBCP 1 ex_info = 7 /\
  (* "Foo" (Mac, shared by three records), "Ä€", UTF-16 "Foo" (shared), the pair, the kanji *)
  name_storage_len name_appleBCP name_msBCP 1 ex_info = 3 + 2 + 6 + 6 + 4.
Proof. vm_compute. repeat split; reflexivity. Qed.

Example ex_info_roundtrip :
  M_name_decode (M_name_encode name_appleBCP name_msBCP 1 ex_info) = Ok ex_info.
Proof. vm_compute. reflexivity. Qed.

(* the same in the reverse iteration order of both maps: other bytes, same result *)
Example ex_info_roundtrip_rev :
  M_name_decode (M_name_encode (rev name_appleBCP) (rev name_msBCP) 1 ex_info) =
  Ok ex_info /\
  M_name_encode (rev name_appleBCP) (rev name_msBCP) 1 ex_info <>
  M_name_encode name_appleBCP name_msBCP 1 ex_info.
Proof. vm_compute. split; [reflexivity|discriminate]. Qed.

(* an unsupported tag is dropped; Windows encoding id 10 is not understood by Decode *)
Example ex_unsupported :
  M_name_decode (M_name_encode name_appleBCP name_msBCP 1
                   (mk_info [([120; 120], [(1, [65])])] [])) = Ok (mk_info [] []) /\
  M_name_decode (M_name_encode name_appleBCP name_msBCP 10
                   (mk_info [] [(tag_enUS, [(1, [65])])])) = Ok (mk_info [] []).
Proof. vm_compute. split; reflexivity. Qed.

(* malformed input *)
Example ex_name_malformed :
  M_name_decode [0; 0; 0; 1; 0; 18] = Err /\
  M_name_decode [0; 2; 0; 0; 0; 6] = Err /\
  M_name_decode [0; 1; 0; 0; 0; 6; 0] = Err /\
  M_name_decode [0; 1; 0; 0; 0; 8; 0; 0] = Ok (mk_info [] []).
Proof. vm_compute. repeat split; reflexivity. Qed.

(* The storage guard of name_roundtrip is needed (finding
   name-storage-exceeds-65535): two distinct strings of 32767 UTF-16 units
   and a third one, which is read back as "abb". *)
Definition big_info : info :=
  mk_info [] [(tag_enUS, [(1, repeat 97 (N.to_nat 32767)); (2, repeat 98 (N.to_nat 32767));
                          (4, [99; 99; 99])])].
Example name_storage_overflow_refuted :
  (6 + 12 * name_num_records name_appleBCP name_msBCP 1 big_info <=? 65535) = true /\
  (name_storage_len name_appleBCP name_msBCP 1 big_info <=? 65535) = false /\
  match M_name_decode (M_name_encode name_appleBCP name_msBCP 1 big_info) with
  | Ok out => list_eqb (tabs_get (i_win out) tag_enUS 4) [97; 98; 98]
  | _ => false
  end = true.
Proof. vm_compute. repeat split; reflexivity. Qed.

(* The record-area guard is needed (finding name-record-area-exceeds-65535):
   5461 records make Decode reject the table. *)
Definition many_info : info :=
  mk_info [] [(tag_enUS, map (fun i => (256 + N.of_nat i, [120])) (seq 0 (N.to_nat 5461)))].
Example name_record_area_overflow_refuted :
  (6 + 12 * name_num_records name_appleBCP name_msBCP 1 many_info <=? 65535) = false /\
  (name_storage_len name_appleBCP name_msBCP 1 many_info <=? 65535) = true /\
  M_name_decode (M_name_encode name_appleBCP name_msBCP 1 many_info) = Err.
Proof. vm_compute. repeat split; reflexivity. Qed.

(* ------------------------------------------------------------------ *)
(* script/language tags *)
From C14 Require Import ModelTags Proofs_tags.

(* ("lao ", "DEU ") -> "de-Laoo-x-lao-DEU"; x/text returns "x-lao-deu" *)
Example ex_otf_lao :
  M_otf_tag_string [108; 97; 111; 32] [68; 69; 85; 32] =
    Some ([100; 101; 45; 76; 97; 111; 111], [108; 97; 111; 45; 68; 69; 85]) /\
  xtext_ref (full_tag ([100; 101; 45; 76; 97; 111; 111], [108; 97; 111; 45; 68; 69; 85])) =
    Some [120; 45; 108; 97; 111; 45; 100; 101; 117] /\
  M_from_ext [120; 45; 108; 97; 111; 45; 100; 101; 117] = Some ([108; 97; 111; 32], [68; 69; 85; 32]).
Proof. vm_compute. repeat split; reflexivity. Qed.
(* default script and default language system *)
Example ex_otf_dflt :
  M_otf_pair [68; 70; 76; 84] [] = Some ([120; 45; 100; 102; 108; 116], ([68; 70; 76; 84], [])).
Proof. vm_compute. reflexivity. Qed.
(* unknown script: error *)
Example ex_otf_unknown : M_otf_pair [122; 122; 122; 122] [] = None.
Proof. vm_compute. reflexivity. Qed.
(* before the repair (the extension kept the padding of "lao ") the private-use
   part was not well-formed: the hypothesis of xtext_spec fails on it *)
Example ex_otf_untrimmed_refuted : priv_ok [108; 97; 111; 32] = false /\ priv_ok [108; 97; 111] = true.
Proof. vm_compute. split; reflexivity. Qed.
