From Coq Require Import Extraction ExtrOcamlBasic.
From Common Require Import Conv Outcome.
From Gen Require Import Consts C14.
From C14 Require Import Model ModelTags.
Extraction "c14_model.ml" conv_anchor
  M_mac_decode M_mac_encode M_utf16_encode M_utf16_decode S_utf16be
  M_post_encode M_post_read
  M_name_encode M_name_decode canon_info name_view name_appleBCP name_msBCP
  name_storage_len name_num_records M_otf_pair.
