(* C14/Props.v — the property theorems, stated against the tables the
   translator extracted from /repo on this run.  Nothing else. *)
From Coq Require Import List NArith ZArith Bool Arith Lia Permutation.
From Common Require Import Bytes Outcome.
From Gen Require Import Consts C14.
From C14 Require Import Model ModelTags Proofs_codecs Proofs_post Proofs_name1 Proofs_name2
     Proofs_name3 Proofs_name4 Proofs_lang Proofs_tags.
Import ListNotations.
Local Open Scope N_scope.

(* ------------------------------------------------------------------ *)
(* Mac Roman: the two tables mac.dec / mac.enc invert each other.
   (a) every byte decodes (no Panic) to a scalar value of the repertoire that
       encodes back to the byte; (b) every rune of the repertoire (ASCII and
       the 128 values of mac.dec) encodes to a byte that decodes back to it;
   (c), (d) the same for strings of any length. *)
Theorem macroman_inverse :
  (forall b, b < 256 ->
     exists r, M_mac_dec1 b = Ok r /\ is_scalar r = true /\ mac_repertoire r = true /\
               M_mac_enc1 r = b) /\
  (forall r, mac_repertoire r = true ->
     is_scalar r = true /\ M_mac_enc1 r < 256 /\ M_mac_dec1 (M_mac_enc1 r) = Ok r) /\
  (forall bs, bytes_ok bs = true ->
     exists s, M_mac_decode bs = Ok s /\ M_mac_encode s = bs /\ forallb mac_repertoire s = true) /\
  (forall s, forallb mac_repertoire s = true -> M_mac_decode (M_mac_encode s) = Ok s).
Proof.
  split; [exact mac_byte_inverse|]. split; [exact mac_rune_inverse|].
  split; [exact mac_encode_decode| exact mac_decode_encode].
Qed.
Print Assumptions macroman_inverse.

(* ------------------------------------------------------------------ *)
(* UTF-16BE: for every string of Unicode scalar values (any length) the
   encoder produces the encoding form defined by the Unicode standard and the
   decoder returns the string. *)
Theorem utf16_roundtrip :
  forall s, forallb is_scalar s = true ->
    M_utf16_encode s = S_utf16be s /\ M_utf16_decode (M_utf16_encode s) = s /\
    wf_utf16be (M_utf16_encode s) = true.
Proof.
  intros s H. split; [now apply utf16_encode_is_spec|].
  split; [now apply utf16_roundtrip_lemma | now apply utf16_encode_wellformed].
Qed.
Print Assumptions utf16_roundtrip.

(* The other direction: every well-formed UTF-16BE byte string (even length,
   surrogates properly paired) is returned unchanged by Decode then Encode. *)
Theorem utf16_inverse_on_bytes :
  forall b, wf_utf16be b = true -> M_utf16_encode (M_utf16_decode b) = b.
Proof. exact utf16_encode_decode. Qed.
Print Assumptions utf16_inverse_on_bytes.

(* utf16Decode is total and returns scalar values only, whatever the bytes. *)
Theorem utf16_decode_total : forall b, forallb is_scalar (M_utf16_decode b) = true.
Proof. exact utf16_decode_scalars. Qed.
Print Assumptions utf16_decode_total.

(* ------------------------------------------------------------------ *)
(* post table.  For every header and every glyph-name list that is nil
   (format 3), the standard Macintosh list (format 1), or any other list
   (format 2) of at most 65535 names of at most 255 bytes whose highest
   glyphNameIndex 258 + (number of non-standard names) - 1 fits 16 bits:
   Read returns exactly what was encoded, and the format is chosen as stated.
   [count_custom] counts the names not found in the standard table (with
   multiplicity: Encode does not share duplicates). *)
Theorem post_roundtrip :
  forall (h : post_hdr) (names : option (list (list N))),
    hdr_ok h ->
    match names with
    | None => True
    | Some l =>
        is_mac_roman l = true \/
        (Forall (fun nm => (length nm <= 255)%nat) l /\ lenN l <= 65535 /\
         nMac + count_custom l <= 65536)
    end ->
    M_post_read (M_post_encode h names) = Ok (h, names) /\
    rd32 (M_post_encode h names) =
      match names with
      | None => 196608
      | Some l => if is_mac_roman l then 65536 else 131072
      end /\
    (forall l, names = Some l -> is_mac_roman l = true -> l = post_macRoman).
Proof.
  intros h names Hh Hn. split; [now apply post_roundtrip_lemma|].
  split; [apply post_format_choice|].
  intros l _ H. now apply list_list_eqb_eq.
Qed.
Print Assumptions post_roundtrip.

(* post.Read never panics, whatever the bytes (this needs every Pascal string
   to fit parser.ReadBytes: 255 <= parser.bufferSize, re-checked against the
   regenerated constant). *)
Theorem post_read_total :
  forall data, bytes_ok data = true ->
    M_post_read data <> Panic /\ M_post_read data <> OutOfFuel.
Proof. exact post_read_total_lemma. Qed.
Print Assumptions post_read_total.

(* ------------------------------------------------------------------ *)
(* name table.  For every iteration order of the two Go maps (any
   permutations om, ow of the language tables), every Info whose tables are
   finite maps with 16-bit name ids, Macintosh strings in the Mac Roman
   repertoire and Windows strings of scalar values, Windows encoding id 1:
   if the record area and the string storage fit 16 bits (the two guards
   Encode lacks, see name_overflow_refuted) then Decode succeeds on Encode's
   output and returns, for every tag and name id, the string of the input when
   the tag belongs to the platform's language table and nothing otherwise. *)
Theorem name_roundtrip :
  forall (om ow : list (N * list N)) (inf : info),
    Permutation om name_appleBCP -> Permutation ow name_msBCP ->
    wf_info inf ->
    6 + 12 * name_num_records om ow 1 inf <= 65535 ->
    name_storage_len om ow 1 inf <= 65535 ->
    exists out,
      M_name_decode (M_name_encode om ow 1 inf) = Ok out /\
      (forall tag id, tabs_get (i_mac out) tag id =
                      if supported name_appleBCP tag then tabs_get (i_mac inf) tag id else []) /\
      (forall tag id, tabs_get (i_win out) tag id =
                      if supported name_msBCP tag then tabs_get (i_win inf) tag id else []).
Proof.
  intros om ow inf Pm Pw. apply name_roundtrip_lemma.
  - intros p. split; apply Permutation_in; [exact Pm | symmetry; exact Pm].
  - intros p. split; apply Permutation_in; [exact Pw | symmetry; exact Pw].
Qed.
Print Assumptions name_roundtrip.

(* Strings are shared by content: whatever the sizes and the iteration order,
   the storage area is the concatenation of pairwise distinct strings, its
   length is the sum of their lengths, and they are exactly the encodings of
   the records' strings. *)
Theorem name_strings_shared :
  forall om ow weid inf,
    let nb := fst (name_gen om ow weid inf) in
    NoDup (nb_chunks nb) /\
    nb_data nb = concat (rev (nb_chunks nb)) /\
    name_storage_len om ow weid inf = sum_len (nb_chunks nb) /\
    forall c, In c (nb_chunks nb) <->
      In c (map (fun s => M_mac_encode (snd (snd s))) (srcs om (i_mac inf))) \/
      In c (map (fun s => M_utf16_encode (snd (snd s))) (srcs ow (i_win inf))).
Proof. exact name_sharing_lemma. Qed.
Print Assumptions name_strings_shared.

(* name.Decode never panics, whatever the bytes. *)
Theorem name_decode_total :
  forall data, bytes_ok data = true ->
    M_name_decode data <> Panic /\ M_name_decode data <> OutOfFuel.
Proof. exact name_decode_total_lemma. Qed.
Print Assumptions name_decode_total.

(* ------------------------------------------------------------------ *)
(* Language-id tables: each is a bijection between its language ids and its
   tags (no two ids share a tag, no id has two tags), ids are 16-bit and tags
   are non-empty. *)
Theorem langid_tables_injective :
  (forall a b t, In (a, t) name_appleBCP -> In (b, t) name_appleBCP -> a = b) /\
  (forall a b t, In (a, t) name_msBCP -> In (b, t) name_msBCP -> a = b) /\
  (forall a t u, In (a, t) name_appleBCP -> In (a, u) name_appleBCP -> t = u) /\
  (forall a t u, In (a, t) name_msBCP -> In (a, u) name_msBCP -> t = u) /\
  lang_table_ok name_appleBCP = true /\ lang_table_ok name_msBCP = true.
Proof.
  destruct (bij_check_spec _ apple_bij) as [A1 A2].
  destruct (bij_check_spec _ ms_bij) as [M1 M2].
  repeat split; auto using apple_table_ok, ms_table_ok.
Qed.
Print Assumptions langid_tables_injective.

(* ------------------------------------------------------------------ *)
(* OpenType script/language tags <-> BCP 47.  golang.org/x/text/language is
   external; its assumed behaviour [xtext_spec] is a hypothesis (a tag whose
   part before "-x-" has no singleton x and whose private-use subtags are 1..8
   alphanumerics parses, and Extension('x') returns the lower-cased private-use
   part).  Under it, for every script of gtab.scriptBcp47 and every language
   of gtab.langBcp47 (or the default language system ""), the tag built by
   otfToBCP47 is mapped back by bcp47ToOtf to exactly the script and language
   it came from.  The hypothesis is satisfiable (xtext_ref), and the Go oracle
   observes it on every pair of the tables. *)
Theorem otf_tag_roundtrip :
  forall xtext, xtext_spec xtext ->
  forall script lang,
    In script (map fst gtab_scriptBcp47) ->
    lang = [] \/ In lang (map fst gtab_langBcp47) ->
    exists p ext, M_otf_tag_string script lang = Some p /\
                  xtext (full_tag p) = Some ext /\ M_from_ext ext = Some (script, lang).
Proof. intros. now apply otf_tag_roundtrip_lemma. Qed.
Print Assumptions otf_tag_roundtrip.

Theorem xtext_spec_satisfiable : xtext_spec xtext_ref.
Proof. exact xtext_ref_meets_spec. Qed.
Print Assumptions xtext_spec_satisfiable.
