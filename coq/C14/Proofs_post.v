(* C14/Proofs_post.v — post table formats 1/2/3: round trip and totality. *)
From Coq Require Import List NArith ZArith Bool Arith Lia.
From Coq Require Import ZifyBool ZifyNat ZifyN.
From Common Require Import Bytes Outcome.
From Gen Require Import Consts C14.
From C14 Require Import Model.
Import ListNotations.
Ltac Zify.zify_post_hook ::= Z.div_mod_to_equations.
Local Open Scope N_scope.

(* ------------------------------------------------------------------ *)
(* facts about the regenerated constants *)

Lemma nMac_small : nMac < 65536.
Proof. vm_compute. reflexivity. Qed.

Lemma nMac_length : nMac = N.of_nat (length post_macRoman).
Proof. reflexivity. Qed.

(* every Pascal string (length <= 255) fits parser.ReadBytes *)
Lemma bufsize_ok : (255 <= parser_bufferSize)%nat.
Proof. apply Nat.leb_le. vm_compute. reflexivity. Qed.

(* ------------------------------------------------------------------ *)
(* list equality *)

Lemma list_eqb_eq a b : list_eqb a b = true <-> a = b.
Proof.
  revert b. induction a as [|x a IH]; intros [|y b]; cbn [list_eqb]; split; intros H;
    try reflexivity; try discriminate.
  - rewrite andb_true_iff in H. destruct H as [H1 H2]. apply N.eqb_eq in H1. apply IH in H2. congruence.
  - injection H as -> ->. rewrite N.eqb_refl. cbn. now apply IH.
Qed.

Lemma list_eqb_refl a : list_eqb a a = true.
Proof. now apply list_eqb_eq. Qed.

Lemma list_eqb_neq a b : list_eqb a b = false <-> a <> b.
Proof.
  split; intros H.
  - intros ->. rewrite list_eqb_refl in H. discriminate.
  - destruct (list_eqb a b) eqn:E; [|reflexivity]. apply list_eqb_eq in E. contradiction.
Qed.

Lemma list_list_eqb_eq a b : list_list_eqb a b = true <-> a = b.
Proof.
  revert b. induction a as [|x a IH]; intros [|y b]; cbn [list_list_eqb]; split; intros H;
    try reflexivity; try discriminate.
  - rewrite andb_true_iff in H. destruct H as [H1 H2]. apply list_eqb_eq in H1. apply IH in H2. congruence.
  - injection H as -> ->. rewrite list_eqb_refl. cbn. now apply IH.
Qed.

(* ------------------------------------------------------------------ *)
(* find_last *)

Lemma find_last_spec name l i acc idx :
  find_last name l i acc = Some idx ->
  (acc = Some idx) \/ (i <= idx /\ nth_error l (N.to_nat (idx - i)) = Some name).
Proof.
  revert i acc. induction l as [|x l IH]; intros i acc H; cbn [find_last] in H.
  - now left.
  - apply IH in H. destruct H as [H|[H1 H2]].
    + destruct (list_eqb x name) eqn:E.
      * injection H as <-. right. split; [lia|]. replace (i - i) with 0 by lia.
        cbn. apply list_eqb_eq in E. now subst.
      * now left.
    + right. split; [lia|].
      replace (N.to_nat (idx - i)) with (S (N.to_nat (idx - (i + 1)))) by lia. exact H2.
Qed.

Lemma mac_index_spec name idx :
  mac_index name = Some idx -> idx < nMac /\ nth_error post_macRoman (N.to_nat idx) = Some name.
Proof.
  unfold mac_index. intros H. apply find_last_spec in H. destruct H as [H|[_ H]]; [discriminate|].
  rewrite N.sub_0_r in H. split; [|exact H].
  assert (Hlt : (N.to_nat idx < length post_macRoman)%nat) by (apply nth_error_Some; intros Hn; pose proof (eq_trans (eq_sym Hn) H) as Hc; discriminate Hc).
  rewrite nMac_length. lia.
Qed.

(* ------------------------------------------------------------------ *)
(* split_exact / Pascal strings *)

Lemma split_exact_app {A} (a b : list A) : split_exact (length a) (a ++ b) = Some (a, b).
Proof.
  induction a as [|x a IH]; cbn [length split_exact app]; [reflexivity|]. now rewrite IH.
Qed.

Lemma split_exact_spec {A} n (l a b : list A) :
  split_exact n l = Some (a, b) -> l = a ++ b /\ length a = n.
Proof.
  revert l a b. induction n as [|n IH]; intros l a b H; cbn [split_exact] in H.
  - injection H as <- <-. split; reflexivity.
  - destruct l as [|x r]; [discriminate|].
    destruct (split_exact n r) as [[a' b']|] eqn:E; [|discriminate].
    injection H as <- <-. apply IH in E. destruct E as [-> <-]. split; reflexivity.
Qed.

Lemma read_pstrings_count k bs ps :
  read_pstrings k bs = Ok ps -> length (fst ps) = k.
Proof.
  revert bs ps. induction k as [|k IH]; intros bs ps H; cbn [read_pstrings] in H.
  - injection H as <-. reflexivity.
  - destruct bs as [|l r]; [discriminate|].
    destruct (parser_bufferSize <? N.to_nat l)%nat; [discriminate|].
    destruct (split_exact (N.to_nat l) r) as [[nm r']|]; [|discriminate].
    destruct (read_pstrings k r') as [ps'| | |] eqn:E; cbn [obind] in H; try discriminate.
    injection H as <-. cbn [fst length]. f_equal. now apply (IH r').
Qed.

Lemma read_pstrings_no_panic k bs :
  bytes_ok bs = true -> read_pstrings k bs <> Panic /\ read_pstrings k bs <> OutOfFuel /\
  forall ps, read_pstrings k bs = Ok ps -> bytes_ok (snd ps) = true.
Proof.
  revert bs. induction k as [|k IH]; intros bs Hb; cbn [read_pstrings].
  - repeat split; try discriminate. intros ps H. injection H as <-. exact Hb.
  - destruct bs as [|l r]; [repeat split; discriminate|].
    unfold bytes_ok in Hb. cbn [forallb] in Hb. apply andb_true_iff in Hb. destruct Hb as [Hl Hr].
    unfold byte_ok in Hl. pose proof bufsize_ok as Hbuf.
    destruct (parser_bufferSize <? N.to_nat l)%nat eqn:E; [lia|].
    destruct (split_exact (N.to_nat l) r) as [[nm r']|] eqn:E2; [|repeat split; discriminate].
    apply split_exact_spec in E2. destruct E2 as [-> _].
    rewrite forallb_app in Hr. apply andb_true_iff in Hr. destruct Hr as [_ Hr'].
    destruct (IH r' Hr') as [H1 [H2 H3]].
    destruct (read_pstrings k r') as [ps'| | |] eqn:E3; cbn [obind];
      repeat split; try discriminate; try congruence.
    intros ps H. injection H as <-. cbn [snd]. now apply H3.
Qed.

(* ------------------------------------------------------------------ *)
(* format 2: the index/string loop *)

Fixpoint count_custom (l : list bstr) : N :=
  match l with
  | [] => 0
  | nm :: r => (match mac_index nm with Some _ => 0 | None => 1 end) + count_custom r
  end.

Lemma words_cons_be16 x rest : words_of_bytes (be16 x ++ rest) = (x mod 65536) :: words_of_bytes rest.
Proof. unfold be16. cbn [app words_of_bytes]. f_equal. lia. Qed.

Lemma enc_names_length l k : length (fst (enc_names l k)) = (2 * length l)%nat.
Proof.
  revert k. induction l as [|nm r IH]; intros k; cbn [enc_names]; [reflexivity|].
  destruct (mac_index nm).
  - specialize (IH k). destruct (enc_names r k) as [ib sd]. cbn [fst] in *.
    rewrite app_length, be16_length, IH. cbn [length]. lia.
  - specialize (IH (k + 1)). destruct (enc_names r (k + 1)) as [ib sd]. cbn [fst] in *.
    rewrite app_length, be16_length, IH. cbn [length]. lia.
Qed.

Lemma read_glyphs_enc_names l : forall k names_rev tail,
  Forall (fun nm => (length nm <= 255)%nat) l ->
  nMac + k + count_custom l <= 65536 ->
  read_glyphs (words_of_bytes (fst (enc_names l k))) names_rev k (snd (enc_names l k) ++ tail) = Ok l.
Proof.
  induction l as [|nm r IH]; intros k names_rev tail Hlen Hcnt; cbn [enc_names].
  - reflexivity.
  - inversion Hlen as [|? ? Hnm Hr]; subst. cbn [count_custom] in Hcnt.
    pose proof nMac_small as HnM.
    destruct (mac_index nm) as [idx|] eqn:Em.
    + apply mac_index_spec in Em. destruct Em as [Hidx Hnth].
      specialize (IH k names_rev tail Hr ltac:(lia)).
      destruct (enc_names r k) as [ib sd]. cbn [fst snd] in *.
      rewrite words_cons_be16. replace (idx mod 65536) with idx by lia.
      cbn [read_glyphs].
      destruct (idx <? nMac) eqn:E; [|lia].
      rewrite Hnth, IH. reflexivity.
    + specialize (IH (k + 1) (nm :: names_rev) tail Hr ltac:(lia)).
      destruct (enc_names r (k + 1)) as [ib sd]. cbn [fst snd] in *.
      rewrite words_cons_be16. replace ((nMac + k) mod 65536) with (nMac + k) by lia.
      cbn [read_glyphs].
      destruct (nMac + k <? nMac) eqn:E; [lia|].
      replace (nMac + k - nMac + 1 - k) with 1 by lia.
      change (N.to_nat 1) with 1%nat. cbn [read_pstrings app].
      pose proof bufsize_ok as Hbuf.
      assert (Hw : wrap8 (lenN nm) = lenN nm) by (unfold wrap8, lenN; lia).
      rewrite Hw.
      destruct (parser_bufferSize <? N.to_nat (lenN nm))%nat eqn:E2; [unfold lenN in E2; lia|].
      replace (N.to_nat (lenN nm)) with (length nm) by (unfold lenN; lia).
      rewrite <- app_assoc, split_exact_app. cbn [obind fst snd rev app].
      replace (N.to_nat (k + 1 - 1 - (nMac + k - nMac))) with 0%nat by lia.
      cbn [nth_error]. rewrite IH. reflexivity.
Qed.

(* ------------------------------------------------------------------ *)
(* header *)

Definition hdr_ok (h : post_hdr) : Prop :=
  (-2147483648 <= ph_italic h < 2147483648)%Z /\
  (-32768 <= ph_upos h < 32768)%Z /\ (-32768 <= ph_uthick h < 32768)%Z.

Lemma post_header_length v h : length (post_header_bytes v h) = 32%nat.
Proof. reflexivity. Qed.

Lemma skipn4 x r : skipn 4 (be32 x ++ r) = r.
Proof. reflexivity. Qed.
Lemma skipn8 x y r : skipn 8 (be32 x ++ be32 y ++ r) = r.
Proof. reflexivity. Qed.
Lemma skipn10 x y z r : skipn 10 (be32 x ++ be32 y ++ be16 z ++ r) = r.
Proof. reflexivity. Qed.
Lemma skipn12 x y z w r : skipn 12 (be32 x ++ be32 y ++ be16 z ++ be16 w ++ r) = r.
Proof. reflexivity. Qed.

Lemma parse_post_header v h rest :
  hdr_ok h -> parse_post_hdr (post_header_bytes v h ++ rest) = h.
Proof.
  intros [Hi [Hu Ht]]. destruct h as [it up ut fx]. cbn [ph_italic ph_upos ph_uthick ph_fixed] in *.
  unfold parse_post_hdr, post_header_bytes. cbn [ph_italic ph_upos ph_uthick ph_fixed].
  rewrite <- !app_assoc.
  rewrite skipn4, skipn8, skipn10, skipn12.
  rewrite !rd32_be32_app, !rd16_be16_app.
  f_equal.
  - rewrite N.mod_small by (unfold of_i32; lia). now apply to_i32_of_i32.
  - rewrite N.mod_small by apply of_i16_bound. now apply to_i16_of_i16.
  - rewrite N.mod_small by apply of_i16_bound. now apply to_i16_of_i16.
  - destruct fx; reflexivity.
Qed.

Lemma post_version_read v h rest : v < 4294967296 -> rd32 (post_header_bytes v h ++ rest) = v.
Proof.
  intros Hv. unfold post_header_bytes. rewrite <- !app_assoc. rewrite rd32_be32_app. lia.
Qed.

Lemma skipn_header v h rest : skipn 32 (post_header_bytes v h ++ rest) = rest.
Proof. reflexivity. Qed.

(* ------------------------------------------------------------------ *)
(* round trip *)

Definition post_names_ok (names : option (list bstr)) : Prop :=
  match names with
  | None => True
  | Some l =>
      is_mac_roman l = true \/
      (Forall (fun nm => (length nm <= 255)%nat) l /\ lenN l <= 65535 /\
       nMac + count_custom l <= 65536)
  end.

Lemma post_roundtrip_lemma h names :
  hdr_ok h -> post_names_ok names ->
  M_post_read (M_post_encode h names) = Ok (h, names).
Proof.
  intros Hh Hn. unfold M_post_encode, M_post_read.
  set (v := post_version names).
  assert (Hv : v < 4294967296).
  { subst v. unfold post_version. destruct names as [l|]; [destruct (is_mac_roman l)|]; lia. }
  rewrite app_length, post_header_length.
  destruct (32 + _ <? 32)%nat eqn:E; [lia|]. clear E.
  rewrite parse_post_header by assumption.
  rewrite post_version_read by assumption.
  destruct names as [l|].
  - subst v. cbn [post_version] in *.
    destruct (is_mac_roman l) eqn:Emr.
    + (* format 1 *)
      change (65536 =? 65536) with true. cbn iota.
      apply list_list_eqb_eq in Emr. now subst.
    + (* format 2 *)
      destruct Hn as [Hn|[Hlen [Hcnt Hidx]]]; [congruence|].
      change (131072 =? 65536) with false. change (131072 =? 131072) with true. cbn iota.
      rewrite skipn_header.
      pose proof (read_glyphs_enc_names l 0 [] [] Hlen ltac:(lia)) as Hrg.
      pose proof (enc_names_length l 0) as Hil.
      destruct (enc_names l 0) as [ib sd]. cbn [fst snd] in *.
      rewrite app_nil_r in Hrg.
      rewrite !app_length, be16_length.
      destruct (2 + _ <? 2)%nat eqn:E; [lia|]. clear E.
      rewrite rd16_be16_app. replace (lenN l mod 65536) with (lenN l) by lia.
      unfold be16. cbn [app skipn].
      unfold lenN at 1. rewrite app_length, Hil.
      destruct (N.of_nat (2 * length l + length sd) <? 2 * lenN l) eqn:E; [unfold lenN in E; lia|]. clear E.
      replace (N.to_nat (2 * lenN l)) with (length ib) by (unfold lenN; lia).
      rewrite firstn_app, Nat.sub_diag, firstn_all, firstn_O, app_nil_r.
      rewrite skipn_app, Nat.sub_diag, skipn_all. cbn [skipn app].
      rewrite Hrg. reflexivity.
  - (* format 3 *)
    subst v. reflexivity.
Qed.

(* which format is chosen *)
Lemma post_format_choice h names :
  rd32 (M_post_encode h names) =
  match names with
  | None => 196608
  | Some l => if is_mac_roman l then 65536 else 131072
  end.
Proof.
  unfold M_post_encode. rewrite post_version_read; [reflexivity|].
  unfold post_version. destruct names as [l|]; [destruct (is_mac_roman l)|]; lia.
Qed.

(* ------------------------------------------------------------------ *)
(* totality of Read *)

Lemma words_of_bytes_bound b : bytes_ok b = true -> Forall (fun w => w < 65536) (words_of_bytes b).
Proof.
  revert b. fix IH 1. intros [|x [|y rest]] H; cbn [words_of_bytes]; try constructor.
  - unfold bytes_ok in H. cbn [forallb] in H. rewrite !andb_true_iff in H.
    destruct H as [Hx [Hy _]]. unfold byte_ok in *. lia.
  - apply IH. unfold bytes_ok in *. cbn [forallb] in H. rewrite !andb_true_iff in H. tauto.
Qed.

Lemma read_glyphs_no_panic idxs : forall names_rev cnt bs,
  bytes_ok bs = true -> cnt = lenN names_rev ->
  read_glyphs idxs names_rev cnt bs <> Panic /\ read_glyphs idxs names_rev cnt bs <> OutOfFuel.
Proof.
  induction idxs as [|idx r IH]; intros names_rev cnt bs Hb Hc; cbn [read_glyphs].
  - split; discriminate.
  - destruct (idx <? nMac) eqn:E.
    + destruct (nth_error post_macRoman (N.to_nat idx)) as [nm|] eqn:En.
      * destruct (IH names_rev cnt bs Hb Hc) as [H1 H2].
        destruct (read_glyphs r names_rev cnt bs); cbn [obind]; split; congruence.
      * apply nth_error_None in En. rewrite nMac_length in E. lia.
    + destruct (read_pstrings_no_panic (N.to_nat (idx - nMac + 1 - cnt)) bs Hb) as [P1 [P2 P3]].
      destruct (read_pstrings (N.to_nat (idx - nMac + 1 - cnt)) bs) as [ps| | |] eqn:Ep;
        cbn [obind]; try (split; congruence).
      pose proof (read_pstrings_count _ _ _ Ep) as Hcount.
      set (names_rev' := rev (fst ps) ++ names_rev).
      set (cnt' := cnt + (idx - nMac + 1 - cnt)).
      assert (Hc' : cnt' = lenN names_rev').
      { subst cnt' names_rev'. unfold lenN in *. rewrite app_length, rev_length, Hcount. lia. }
      destruct (nth_error names_rev' (N.to_nat (cnt' - 1 - (idx - nMac)))) as [nm|] eqn:En.
      * destruct (IH names_rev' cnt' (snd ps) (P3 ps eq_refl) Hc') as [H1 H2].
        destruct (read_glyphs r names_rev' cnt' (snd ps)); cbn [obind]; split; congruence.
      * apply nth_error_None in En. unfold lenN in Hc'. subst cnt'. lia.
Qed.

Lemma bytes_ok_skipn n l : bytes_ok l = true -> bytes_ok (skipn n l) = true.
Proof.
  unfold bytes_ok. intros H. rewrite <- (firstn_skipn n l) in H.
  rewrite forallb_app in H. apply andb_true_iff in H. tauto.
Qed.

Lemma post_read_total_lemma data :
  bytes_ok data = true -> M_post_read data <> Panic /\ M_post_read data <> OutOfFuel.
Proof.
  intros Hb. unfold M_post_read.
  destruct (length data <? 32)%nat; [split; discriminate|].
  destruct (rd32 data =? 65536); [split; discriminate|].
  destruct (rd32 data =? 131072).
  - destruct (length (skipn 32 data) <? 2)%nat; [split; discriminate|].
    match goal with |- context [if ?c then Err else _] => destruct c end; [split; discriminate|].
    match goal with |- context [read_glyphs ?i [] 0 ?b] =>
      destruct (read_glyphs_no_panic i [] 0 b) as [H1 H2];
        [repeat apply bytes_ok_skipn; exact Hb | reflexivity |];
        destruct (read_glyphs i [] 0 b) end; cbn [obind]; split; congruence.
  - destruct ((rd32 data =? 196608) || (rd32 data =? 262144)); split; discriminate.
Qed.
