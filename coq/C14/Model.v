(* C14/Model.v — executable models for property C14 (names, glyph names and
   language tags survive their encodings).  Definitions only.

   Conventions: a byte string is [list N] (elements < 256); a Go string that
   holds text is modelled by the list of its runes as [[]rune(s)] yields them
   (Unicode scalar values; the UTF-8 layer of Go strings is not modelled, the
   harness converts); [M_x] mirrors Go code, [S_x] is written from the format
   specification. *)
From Coq Require Import List NArith ZArith Bool Arith Lia.
From Common Require Import Bytes Outcome.
From Gen Require Import Consts C14.
Import ListNotations.
Local Open Scope N_scope.

(* ------------------------------------------------------------------ *)
(* Generic helpers                                                     *)

Notation bstr := (list N) (only parsing).

Fixpoint list_eqb (a b : list N) : bool :=
  match a, b with
  | [], [] => true
  | x :: a', y :: b' => (x =? y) && list_eqb a' b'
  | _, _ => false
  end.

Fixpoint lookupN {V} (k : N) (l : list (N * V)) : option V :=
  match l with
  | [] => None
  | (k', v) :: r => if k' =? k then Some v else lookupN k r
  end.

Fixpoint lookupB {V} (k : bstr) (l : list (bstr * V)) : option V :=
  match l with
  | [] => None
  | (k', v) :: r => if list_eqb k' k then Some v else lookupB k r
  end.

Definition lenN {A} (l : list A) : N := N.of_nat (length l).

(* insertion sort; the sort used by Go (sort.Slice) is not stable, but every
   use below sorts records with pairwise distinct keys *)
Fixpoint insert {A} (leb : A -> A -> bool) (x : A) (l : list A) : list A :=
  match l with
  | [] => [x]
  | y :: r => if leb x y then x :: l else y :: insert leb x r
  end.
Fixpoint isort {A} (leb : A -> A -> bool) (l : list A) : list A :=
  match l with
  | [] => []
  | x :: r => insert leb x (isort leb r)
  end.

(* ------------------------------------------------------------------ *)
(* Unicode scalar values, string(rune) conversion                      *)

Definition is_surrogate (r : N) : bool := (55296 <=? r) && (r <? 57344).
Definition is_scalar (r : N) : bool := (r <? 1114112) && negb (is_surrogate r).
Definition replacement : N := 65533.
(* string([]rune{r}) followed by []rune(...): invalid runes become U+FFFD *)
Definition fix_rune (r : N) : N := if is_scalar r then r else replacement.

(* ------------------------------------------------------------------ *)
(* Mac Roman (mac/encoding.go) over the regenerated tables             *)

Definition M_mac_dec1 (c : N) : outcome N :=
  if c <? 128 then Ok c
  else match nth_error mac_dec (N.to_nat (c - 128)) with
       | Some r => Ok r
       | None => Panic                      (* dec[c-128] out of range *)
       end.

Fixpoint M_mac_decode (cc : list N) : outcome (list N) :=
  match cc with
  | [] => Ok []
  | c :: rest =>
      r <- M_mac_dec1 c ;;
      rs <- M_mac_decode rest ;;
      Ok (fix_rune r :: rs)
  end.

Definition M_mac_enc1 (r : N) : N :=
  if r <? 128 then r
  else match lookupN r mac_enc with
       | Some c => wrap8 c
       | None => 63                          (* '?' *)
       end.

Definition M_mac_encode (s : list N) : list N := map M_mac_enc1 s.

(* the repertoire of the codec: what Decode can produce *)
Definition mac_repertoire (r : N) : bool :=
  (r <? 128) || existsb (N.eqb r) mac_dec.

(* ------------------------------------------------------------------ *)
(* UTF-16BE                                                            *)

(* specification, from the Unicode standard (D91): a scalar value below
   0x10000 is one code unit, any other is a surrogate pair *)
Definition S_utf16_units (c : N) : list N :=
  if c <? 65536 then [c]
  else [55296 + (c - 65536) / 1024; 56320 + (c - 65536) mod 1024].
Definition S_utf16be (s : list N) : list N :=
  flat_map (fun c => flat_map (fun u => [u / 256; u mod 256]) (S_utf16_units c)) s.

(* unicode/utf16.Encode followed by the byte packing of utf16Encode *)
Definition M_utf16_units (r : N) : list N :=
  if ((r <? 55296) || ((57344 <=? r) && (r <? 65536))) then [r]
  else if ((65536 <=? r) && (r <=? 1114111)) then
         [55296 + ((r - 65536) / 1024) mod 1024; 56320 + (r - 65536) mod 1024]
  else [replacement].

Definition M_utf16_encode (s : list N) : list N :=
  flat_map (fun r => flat_map be16 (M_utf16_units r)) s.

(* the byte unpacking of utf16Decode: for i := 0; i+1 < len(buf); i += 2 *)
Fixpoint words_of_bytes (b : list N) : list N :=
  match b with
  | x :: y :: rest => (x * 256 + y) :: words_of_bytes rest
  | _ => []
  end.

(* unicode/utf16.Decode *)
Definition is_high (w : N) : bool := (55296 <=? w) && (w <? 56320).
Definition is_low (w : N) : bool := (56320 <=? w) && (w <? 57344).
Fixpoint utf16_decode_words (ws : list N) : list N :=
  match ws with
  | [] => []
  | w :: tl =>
      if is_high w then
        match tl with
        | l :: rest =>
            if is_low l then ((w - 55296) * 1024 + (l - 56320) + 65536) :: utf16_decode_words rest
            else replacement :: utf16_decode_words tl
        | [] => [replacement]
        end
      else if is_low w then replacement :: utf16_decode_words tl
      else w :: utf16_decode_words tl
  end.

Definition M_utf16_decode (b : list N) : list N :=
  map fix_rune (utf16_decode_words (words_of_bytes b)).

(* well-formed UTF-16 (Unicode D89/D91): 16-bit units, every high surrogate
   followed by a low one, no other surrogates *)
Fixpoint wf_utf16_words (ws : list N) : bool :=
  match ws with
  | [] => true
  | w :: tl =>
      if is_high w then
        match tl with
        | l :: rest => is_low l && wf_utf16_words rest
        | [] => false
        end
      else if is_low w then false
      else (w <? 65536) && wf_utf16_words tl
  end.
Definition wf_utf16be (b : list N) : bool :=
  bytes_ok b && Nat.even (length b) && wf_utf16_words (words_of_bytes b).

(* ------------------------------------------------------------------ *)
(* post table (post/post.go)                                           *)

Record post_hdr := mk_post_hdr {
  ph_italic : Z;      (* ItalicAngle as 16.16 fixed point (int32) *)
  ph_upos : Z;        (* int16 *)
  ph_uthick : Z;      (* int16 *)
  ph_fixed : bool }.

Definition nMac : N := lenN post_macRoman.

(* mac[name] of Encode: the map is filled in table order, so the last index
   holding the name wins *)
Fixpoint find_last (name : bstr) (l : list bstr) (i : N) (acc : option N) : option N :=
  match l with
  | [] => acc
  | x :: r => find_last name r (i + 1) (if list_eqb x name then Some i else acc)
  end.
Definition mac_index (name : bstr) : option N := find_last name post_macRoman 0 None.

(* isMacRoman *)
Fixpoint list_list_eqb (a b : list bstr) : bool :=
  match a, b with
  | [], [] => true
  | x :: a', y :: b' => list_eqb x y && list_list_eqb a' b'
  | _, _ => false
  end.
Definition is_mac_roman (names : list bstr) : bool := list_list_eqb names post_macRoman.

(* the loop over info.Names of format 2: index bytes and string data *)
Fixpoint enc_names (names : list bstr) (numStrings : N) : list N * list N :=
  match names with
  | [] => ([], [])
  | nm :: r =>
      match mac_index nm with
      | Some idx =>
          let '(ib, sd) := enc_names r numStrings in (be16 idx ++ ib, sd)
      | None =>
          let idx := nMac + numStrings in
          let '(ib, sd) := enc_names r (numStrings + 1) in
          (be16 idx ++ ib, wrap8 (lenN nm) :: nm ++ sd)
      end
  end.

Definition post_header_bytes (version : N) (h : post_hdr) : list N :=
  be32 version ++ be32 (of_i32 (ph_italic h)) ++ be16 (of_i16 (ph_upos h)) ++
  be16 (of_i16 (ph_uthick h)) ++ be32 (if ph_fixed h then 1 else 0) ++ repeat 0 16.

Definition post_version (names : option (list bstr)) : N :=
  match names with
  | None => 196608                                   (* 0x00030000 *)
  | Some l => if is_mac_roman l then 65536 else 131072
  end.

Definition M_post_encode (h : post_hdr) (names : option (list bstr)) : list N :=
  let version := post_version names in
  post_header_bytes version h ++
  match names with
  | Some l =>
      if version =? 131072 then
        let '(ib, sd) := enc_names l 0 in be16 (lenN l) ++ ib ++ sd
      else []
  | None => []
  end.

(* the first n elements and the rest; None when the list is shorter *)
Fixpoint split_exact {A} (n : nat) (l : list A) : option (list A * list A) :=
  match n with
  | O => Some ([], l)
  | S n' =>
      match l with
      | [] => None
      | x :: r =>
          match split_exact n' r with
          | Some (a, b) => Some (x :: a, b)
          | None => None
          end
      end
  end.

(* reading k Pascal strings (ReadUint8, ReadBytes); ReadBytes panics when the
   requested size exceeds parser.bufferSize *)
Fixpoint read_pstrings (k : nat) (bs : list N) : outcome (list bstr * list N) :=
  match k with
  | O => Ok ([], bs)
  | S k' =>
      match bs with
      | [] => Err
      | l :: r =>
          if (parser_bufferSize <? N.to_nat l)%nat then Panic
          else
            match split_exact (N.to_nat l) r with
            | None => Err
            | Some (nm, r') =>
                ps <- read_pstrings k' r' ;;
                Ok (nm :: fst ps, snd ps)
            end
      end
  end.

(* the loop over glyphNameIndex; [names_rev] holds the strings read so far in
   reverse order, [cnt] is their number *)
Fixpoint read_glyphs (idxs : list N) (names_rev : list bstr) (cnt : N) (bs : list N)
  : outcome (list bstr) :=
  match idxs with
  | [] => Ok []
  | idx :: r =>
      if idx <? nMac then
        match nth_error post_macRoman (N.to_nat idx) with
        | Some nm => rest <- read_glyphs r names_rev cnt bs ;; Ok (nm :: rest)
        | None => Panic
        end
      else
        let j := idx - nMac in
        let need := (j + 1) - cnt in
        ps <- read_pstrings (N.to_nat need) bs ;;
        let names_rev' := rev (fst ps) ++ names_rev in
        let cnt' := cnt + need in
        match nth_error names_rev' (N.to_nat (cnt' - 1 - j)) with
        | Some nm => rest <- read_glyphs r names_rev' cnt' (snd ps) ;; Ok (nm :: rest)
        | None => Panic
        end
  end.

Definition parse_post_hdr (data : list N) : post_hdr :=
  mk_post_hdr (to_i32 (rd32 (skipn 4 data))) (to_i16 (rd16 (skipn 8 data)))
              (to_i16 (rd16 (skipn 10 data))) (negb (rd32 (skipn 12 data) =? 0)).

Definition M_post_read (data : list N) : outcome (post_hdr * option (list bstr)) :=
  if (length data <? 32)%nat then Err
  else
    let h := parse_post_hdr data in
    let version := rd32 data in
    if version =? 65536 then Ok (h, Some post_macRoman)
    else if version =? 131072 then
      let rest := skipn 32 data in
      if (length rest <? 2)%nat then Err
      else
        let n := rd16 rest in
        let rest2 := skipn 2 rest in
        if (lenN rest2 <? 2 * n) then Err
        else
          let idxs := words_of_bytes (firstn (N.to_nat (2 * n)) rest2) in
          names <- read_glyphs idxs [] 0 (skipn (N.to_nat (2 * n)) rest2) ;;
          Ok (h, Some names)
    else if (version =? 196608) || (version =? 262144) then Ok (h, None)
    else Err.

(* ------------------------------------------------------------------ *)
(* name table (name/name.go)                                           *)

Notation table := (list (N * list N)) (only parsing).        (* nameID -> runes *)
Notation tables := (list (list N * list (N * list N))) (only parsing).     (* BCP 47 tag (bytes) -> table *)
Record info := mk_info { i_mac : tables; i_win : tables }.

Definition tget (t : table) (id : N) : list N :=
  match lookupN id t with Some v => v | None => [] end.
Definition tabs_get (tt : tables) (tag : bstr) (id : N) : list N :=
  match lookupB tag tt with Some t => tget t id | None => [] end.

(* Table.keys(): ids with a non-empty value, ascending *)
Definition nonempty {A} (l : list A) : bool := match l with [] => false | _ => true end.
Definition keys (t : table) : table :=
  isort (fun a b => fst a <=? fst b) (filter (fun e => nonempty (snd e)) t).

Record rec := mk_rec {
  r_plat : N; r_enc : N; r_lang : N; r_id : N; r_off : N; r_len : N }.

(* nameBuilder: data as reversed chunks, its length, and the content index *)
Record builder := mk_builder {
  nb_chunks : list bstr; nb_len : N; nb_idx : list (bstr * N) }.
Definition nb_empty : builder := mk_builder [] 0 [].
Definition nb_data (nb : builder) : list N := concat (rev (nb_chunks nb)).

Definition nb_add (nb : builder) (b : bstr) : builder * (N * N) :=
  match lookupB b (nb_idx nb) with
  | Some o => (nb, (o, wrap16 (lenN b)))
  | None =>
      let o := wrap16 (nb_len nb) in
      (mk_builder (b :: nb_chunks nb) (nb_len nb + lenN b) ((b, o) :: nb_idx nb),
       (o, wrap16 (lenN b)))
  end.

Fixpoint gen_table (plat enc lang : N) (codec : list N -> bstr) (t : table) (nb : builder)
  : builder * list rec :=
  match t with
  | [] => (nb, [])
  | (id, v) :: t' =>
      let '(nb1, (o, l)) := nb_add nb (codec v) in
      let '(nb2, rs) := gen_table plat enc lang codec t' nb1 in
      (nb2, mk_rec plat enc lang id o l :: rs)
  end.

(* for languageID, tag := range <table>: the iteration order of the Go map is
   a parameter ([order] lists the (languageID, tag) pairs in the order visited) *)
Fixpoint gen_langs (order : list (N * bstr)) (tt : tables) (plat enc : N)
         (codec : list N -> bstr) (nb : builder) : builder * list rec :=
  match order with
  | [] => (nb, [])
  | (lang, tag) :: o' =>
      match lookupB tag tt with
      | None => gen_langs o' tt plat enc codec nb
      | Some t =>
          let '(nb1, rs1) := gen_table plat enc lang codec (keys t) nb in
          let '(nb2, rs2) := gen_langs o' tt plat enc codec nb1 in
          (nb2, rs1 ++ rs2)
      end
  end.

Definition rec_leb (a b : rec) : bool :=
  if negb (r_plat a =? r_plat b) then r_plat a <? r_plat b
  else if negb (r_enc a =? r_enc b) then r_enc a <? r_enc b
  else if negb (r_lang a =? r_lang b) then r_lang a <? r_lang b
  else r_id a <=? r_id b.

Definition enc_rec (r : rec) : list N :=
  be16 (r_plat r) ++ be16 (r_enc r) ++ be16 (r_lang r) ++ be16 (r_id r) ++
  be16 (r_len r) ++ be16 (r_off r).

Definition name_gen (om ow : list (N * bstr)) (weid : N) (inf : info) : builder * list rec :=
  let '(nb1, r1) := gen_langs om (i_mac inf) 1 0 M_mac_encode nb_empty in
  let '(nb2, r2) := gen_langs ow (i_win inf) 3 weid M_utf16_encode nb1 in
  (nb2, r1 ++ r2).

Definition M_name_encode (om ow : list (N * bstr)) (weid : N) (inf : info) : list N :=
  let '(nb, rs) := name_gen om ow weid inf in
  let recs := isort rec_leb rs in
  let numRec := lenN recs in
  let startOfStrings := 6 + 12 * numRec in
  be16 0 ++ be16 numRec ++ be16 startOfStrings ++ flat_map enc_rec recs ++ nb_data nb.

(* the two quantities whose 16-bit truncation Encode does not guard *)
Definition name_storage_len (om ow : list (N * bstr)) (weid : N) (inf : info) : N :=
  nb_len (fst (name_gen om ow weid inf)).
Definition name_num_records (om ow : list (N * bstr)) (weid : N) (inf : info) : N :=
  lenN (snd (name_gen om ow weid inf)).

(* Table.set and the map of tables *)
Fixpoint tset (t : table) (id : N) (v : list N) : table :=
  match t with
  | [] => [(id, v)]
  | (i, x) :: r => if i =? id then (i, v) :: r else (i, x) :: tset r id v
  end.
Fixpoint tabs_set (tt : tables) (tag : bstr) (id : N) (v : list N) : tables :=
  match tt with
  | [] => [(tag, [(id, v)])]
  | (g, t) :: r =>
      if list_eqb g tag then (g, tset t id v) :: r else (g, t) :: tabs_set r tag id v
  end.

(* the record loop of Decode; [recs] is data[6+12*i:], [n] the number of
   records still to read *)
Fixpoint dec_loop (n : nat) (recs : list N) (data : list N) (storageOffset : N)
         (acc : info) : outcome info :=
  match n with
  | O => Ok acc
  | S n' =>
      match recs with
      | p0 :: p1 :: e0 :: e1 :: l0 :: l1 :: i0 :: i1 :: n0 :: n1 :: o0 :: o1 :: recs' =>
          let platformID := p0 * 256 + p1 in
          let encodingID := e0 * 256 + e1 in
          let languageID := l0 * 256 + l1 in
          let nameID := i0 * 256 + i1 in
          let nameLen := n0 * 256 + n1 in
          let nameOffset := o0 * 256 + o1 in
          let key :=
            if platformID =? 1 then match lookupN languageID name_appleBCP with Some k => k | None => [] end
            else if platformID =? 3 then match lookupN languageID name_msBCP with Some k => k | None => [] end
            else [] in
          if negb (nonempty key) then dec_loop n' recs' data storageOffset acc
          else if lenN data <? storageOffset + nameOffset + nameLen then Err
          else
            let nameBytes := sub data (N.to_nat (storageOffset + nameOffset)) (N.to_nat nameLen) in
            let val : outcome (list N) :=
              if (platformID =? 3) && (encodingID =? 1) then Ok (M_utf16_decode nameBytes)
              else if (platformID =? 1) && (encodingID =? 0) then M_mac_decode nameBytes
              else Ok [] in
            v <- val ;;
            if negb (nonempty v) then dec_loop n' recs' data storageOffset acc
            else if platformID =? 1 then
              dec_loop n' recs' data storageOffset
                       (mk_info (tabs_set (i_mac acc) key nameID v) (i_win acc))
            else
              dec_loop n' recs' data storageOffset
                       (mk_info (i_mac acc) (tabs_set (i_win acc) key nameID v))
      | _ => Panic                             (* data[pos+k] out of range *)
      end
  end.

Definition M_name_decode (data : list N) : outcome info :=
  let len := lenN data in
  if len <? 6 then Err
  else
    let version := rd16 data in
    let numRec := rd16 (skipn 2 data) in
    let storageOffset := rd16 (skipn 4 data) in
    if 1 <? version then Err
    else
      let endOfHeader := 6 + 12 * numRec in
      if len <? endOfHeader then Err
      else
        let eoh : outcome N :=
          if 0 <? version then
            if len <? endOfHeader + 2 then Err
            else
              match skipn (N.to_nat endOfHeader) data with
              | a :: b :: _ => Ok (endOfHeader + 2 + (a * 256 + b) * 4)
              | _ => Panic
              end
          else Ok endOfHeader in
        endOfHeader' <- eoh ;;
        if (storageOffset <? endOfHeader') || (len <? storageOffset) then Err
        else dec_loop (N.to_nat numRec) (skipn 6 data) data storageOffset (mk_info [] []).

(* canonical presentation of a decoded/encoded Info for comparison with the
   implementation: the tags of the language table in table order (first
   occurrence), each table sorted by name id, empty tables dropped *)
Fixpoint dedup (l : list bstr) (seen : list bstr) : list bstr :=
  match l with
  | [] => []
  | x :: r => if existsb (list_eqb x) seen then dedup r seen else x :: dedup r (x :: seen)
  end.
Definition canon_tables (tbl : list (N * bstr)) (tt : tables) : tables :=
  flat_map (fun tag =>
              match lookupB tag tt with
              | Some t => match keys t with [] => [] | k => [(tag, k)] end
              | None => []
              end) (dedup (map snd tbl) []).
Definition canon_info (i : info) : info :=
  mk_info (canon_tables name_appleBCP (i_mac i)) (canon_tables name_msBCP (i_win i)).

(* order-independent view of an encoded name table: header fields, total
   length, and for every record its fields and the bytes it designates *)
Fixpoint view_recs (n : nat) (recs data : list N) (storageOffset : N)
  : list (N * N * N * N * list N) :=
  match n with
  | O => []
  | S n' =>
      match recs with
      | p0 :: p1 :: e0 :: e1 :: l0 :: l1 :: i0 :: i1 :: n0 :: n1 :: o0 :: o1 :: recs' =>
          (p0 * 256 + p1, e0 * 256 + e1, l0 * 256 + l1, i0 * 256 + i1,
           sub data (N.to_nat (storageOffset + (o0 * 256 + o1))) (N.to_nat (n0 * 256 + n1)))
          :: view_recs n' recs' data storageOffset
      | _ => []
      end
  end.
Definition name_view (data : list N)
  : N * N * N * N * list (N * N * N * N * list N) :=
  (rd16 data, rd16 (skipn 2 data), rd16 (skipn 4 data), lenN data,
   view_recs (N.to_nat (rd16 (skipn 2 data))) (skipn 6 data) data (rd16 (skipn 4 data))).

(* ------------------------------------------------------------------ *)
(* language-id tables                                                  *)

Fixpoint injective_on_values (l : list (N * bstr)) : bool :=
  match l with
  | [] => true
  | (_, v) :: r => negb (existsb (fun e => list_eqb (snd e) v) r) && injective_on_values r
  end.

(* all pairs of distinct ids sharing a tag *)
Fixpoint collisions (l : list (N * bstr)) : list (N * N * bstr) :=
  match l with
  | [] => []
  | (k, v) :: r =>
      map (fun e => (k, fst e, v)) (filter (fun e => list_eqb (snd e) v) r) ++ collisions r
  end.
