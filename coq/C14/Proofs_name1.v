(* C14/Proofs_name1.v — name table, part 1: sorting, finite-map operations,
   the string builder and the record generation. *)
From Coq Require Import List NArith ZArith Bool Arith Lia Permutation.
From Coq Require Import ZifyBool ZifyNat ZifyN.
From Common Require Import Bytes Outcome.
From Gen Require Import Consts C14.
From C14 Require Import Model Proofs_codecs Proofs_post.
Import ListNotations.
Ltac Zify.zify_post_hook ::= Z.div_mod_to_equations.
Local Open Scope N_scope.

(* ------------------------------------------------------------------ *)
(* insertion sort is a permutation *)

Lemma insert_perm {A} (leb : A -> A -> bool) x l : Permutation (insert leb x l) (x :: l).
Proof.
  induction l as [|y r IH]; cbn [insert]; [reflexivity|].
  destruct (leb x y); [reflexivity|].
  rewrite IH. apply perm_swap.
Qed.

Lemma isort_perm {A} (leb : A -> A -> bool) l : Permutation (isort leb l) l.
Proof.
  induction l as [|x r IH]; cbn [isort]; [reflexivity|].
  rewrite insert_perm. now constructor.
Qed.

Lemma isort_in {A} (leb : A -> A -> bool) l x : In x (isort leb l) <-> In x l.
Proof. split; apply Permutation_in; [|symmetry]; apply isort_perm. Qed.

Lemma isort_length {A} (leb : A -> A -> bool) l : length (isort leb l) = length l.
Proof. apply Permutation_length, isort_perm. Qed.

(* ------------------------------------------------------------------ *)
(* association lists *)

Lemma lookupN_in {V} k (l : list (N * V)) v : lookupN k l = Some v -> In (k, v) l.
Proof.
  induction l as [|[k' v'] r IH]; cbn [lookupN]; [discriminate|].
  destruct (k' =? k) eqn:E.
  - intros H. injection H as <-. apply N.eqb_eq in E. subst. now left.
  - intros H. right. now apply IH.
Qed.

Lemma lookupN_nodup {V} k (l : list (N * V)) v :
  NoDup (map fst l) -> In (k, v) l -> lookupN k l = Some v.
Proof.
  induction l as [|[k' v'] r IH]; cbn [map fst lookupN]; [intros _ []|].
  intros Hnd [Hin|Hin].
  - injection Hin as -> ->. now rewrite N.eqb_refl.
  - inversion Hnd as [|? ? Hnotin Hnd']; subst.
    destruct (k' =? k) eqn:E.
    + apply N.eqb_eq in E. subst k'. exfalso. apply Hnotin.
      change k with (fst (k, v)). now apply in_map.
    + now apply IH.
Qed.

Lemma lookupB_in {V} k (l : list (list N * V)) v : lookupB k l = Some v -> In (k, v) l.
Proof.
  induction l as [|[k' v'] r IH]; cbn [lookupB]; [discriminate|].
  destruct (list_eqb k' k) eqn:E.
  - intros H. injection H as <-. apply list_eqb_eq in E. subst. now left.
  - intros H. right. now apply IH.
Qed.

(* Table.set / the map of tables, as finite maps *)
Lemma tget_tset t id v id' :
  tget (tset t id v) id' = if id =? id' then v else tget t id'.
Proof.
  unfold tget. induction t as [|[i x] r IH]; cbn [tset lookupN].
  - destruct (id =? id'); reflexivity.
  - destruct (i =? id) eqn:E.
    + apply N.eqb_eq in E. subst i. cbn [lookupN]. destruct (id =? id'); reflexivity.
    + cbn [lookupN]. destruct (i =? id') eqn:E2.
      * apply N.eqb_eq in E2. subst i. rewrite N.eqb_sym, E. reflexivity.
      * exact IH.
Qed.

Lemma tabs_get_set tt tag id v tag' id' :
  tabs_get (tabs_set tt tag id v) tag' id' =
  if list_eqb tag tag' && (id =? id') then v else tabs_get tt tag' id'.
Proof.
  unfold tabs_get. induction tt as [|[g t] r IH]; cbn [tabs_set lookupB].
  - destruct (list_eqb tag tag') eqn:E; cbn [andb].
    + unfold tget. cbn [lookupN]. destruct (id =? id'); reflexivity.
    + reflexivity.
  - destruct (list_eqb g tag) eqn:E.
    + apply list_eqb_eq in E. subst g. cbn [lookupB].
      destruct (list_eqb tag tag') eqn:E2; cbn [andb]; [|reflexivity].
      apply tget_tset.
    + cbn [lookupB]. destruct (list_eqb g tag') eqn:E2.
      * destruct (list_eqb tag tag') eqn:E3; cbn [andb]; [|reflexivity].
        apply list_eqb_eq in E2, E3. subst. rewrite list_eqb_refl in E. discriminate.
      * exact IH.
Qed.

(* keys: the entries with a non-empty value *)
Lemma keys_in t id v : In (id, v) (keys t) <-> In (id, v) t /\ v <> [].
Proof.
  unfold keys. rewrite isort_in, filter_In. cbn [snd]. unfold nonempty.
  destruct v; split; intros [H1 H2]; split; auto; try discriminate; try congruence.
Qed.

(* ------------------------------------------------------------------ *)
(* sub on concatenations *)

Lemma sub_app_l {A} (a b : list A) off n :
  (off + n <= length a)%nat -> sub (a ++ b) off n = sub a off n.
Proof.
  intros H. unfold sub. rewrite skipn_app.
  rewrite firstn_app. rewrite skipn_length.
  replace (n - (length a - off))%nat with 0%nat by lia. cbn [firstn]. now rewrite app_nil_r.
Qed.

Lemma sub_app_r {A} (a b : list A) off n :
  sub (a ++ b) (length a + off) n = sub b off n.
Proof.
  unfold sub. rewrite skipn_app. rewrite skipn_all2 by lia. cbn [app].
  now replace (length a + off - length a)%nat with off by lia.
Qed.

Lemma sub_exact {A} (a b : list A) : sub (a ++ b) (length a) (length b) = b.
Proof.
  replace (length a) with (length a + 0)%nat at 1 by lia. rewrite sub_app_r. apply sub_all.
Qed.

(* ------------------------------------------------------------------ *)
(* nameBuilder *)

Definition BI (nb : builder) : Prop :=
  nb_len nb = lenN (nb_data nb) /\ nb_len nb <= 65535 /\
  forall b o, lookupB b (nb_idx nb) = Some o ->
    o + lenN b <= nb_len nb /\ sub (nb_data nb) (N.to_nat o) (length b) = b.

Lemma BI_empty : BI nb_empty.
Proof. repeat split; cbn; try lia. all: discriminate. Qed.

Lemma nb_add_len nb b : nb_len nb <= nb_len (fst (nb_add nb b)).
Proof. unfold nb_add. destruct (lookupB b (nb_idx nb)); cbn [fst nb_len]; lia. Qed.

Lemma nb_add_spec nb b :
  BI nb -> nb_len (fst (nb_add nb b)) <= 65535 ->
  let '(nb', (o, l)) := nb_add nb b in
  BI nb' /\ l = lenN b /\ o + l <= nb_len nb' /\
  sub (nb_data nb') (N.to_nat o) (N.to_nat l) = b /\
  exists x, nb_data nb' = nb_data nb ++ x.
Proof.
  intros [Hlen [Hmax Hidx]] Hfin. unfold nb_add in *.
  destruct (lookupB b (nb_idx nb)) as [o|] eqn:El; cbn [fst nb_len] in *.
  - destruct (Hidx b o El) as [H1 H2].
    assert (Hw : wrap16 (lenN b) = lenN b) by (unfold wrap16; lia).
    rewrite Hw. repeat split; auto.
    + now apply Hidx.
    + now apply Hidx.
    + unfold lenN. now rewrite Nat2N.id.
    + exists []. now rewrite app_nil_r.
  - assert (Hw : wrap16 (nb_len nb) = nb_len nb) by (unfold wrap16; lia).
    assert (Hw2 : wrap16 (lenN b) = lenN b) by (unfold wrap16; lia).
    rewrite Hw, Hw2.
    assert (Hd : nb_data (mk_builder (b :: nb_chunks nb) (nb_len nb + lenN b) ((b, nb_len nb) :: nb_idx nb))
                 = nb_data nb ++ b).
    { unfold nb_data. cbn [nb_chunks rev]. rewrite concat_app. cbn [concat]. now rewrite app_nil_r. }
    assert (Hpos : N.to_nat (nb_len nb) = length (nb_data nb)) by (rewrite Hlen; unfold lenN; lia).
    repeat split; cbn [nb_len nb_idx]; auto.
    + rewrite Hd. unfold lenN in *. rewrite app_length. lia.
    + cbn [nb_idx lookupB] in H. destruct (list_eqb b b0) eqn:E.
      * injection H as <-. apply list_eqb_eq in E. subst b0. lia.
      * destruct (Hidx b0 o H). lia.
    + rewrite Hd. cbn [nb_idx lookupB] in H. destruct (list_eqb b b0) eqn:E.
      * injection H as <-. apply list_eqb_eq in E. subst b0. rewrite Hpos. apply sub_exact.
      * destruct (Hidx b0 o H) as [H1 H2]. rewrite sub_app_l; [exact H2|].
        unfold lenN in *. lia.
    + lia.
    + rewrite Hd, Hpos. unfold lenN. rewrite Nat2N.id. apply sub_exact.
    + exists b. exact Hd.
Qed.

(* ------------------------------------------------------------------ *)
(* record generation *)

(* record r designates, in storage D, the encoding of source entry e *)
Definition rec_src (D : list N) (codec : list N -> list N) (plat enc lang : N)
           (e : N * list N) (r : rec) : Prop :=
  r_plat r = plat /\ r_enc r = enc /\ r_lang r = lang /\ r_id r = fst e /\
  r_len r = lenN (codec (snd e)) /\ r_off r + r_len r <= lenN D /\
  sub D (N.to_nat (r_off r)) (N.to_nat (r_len r)) = codec (snd e).

Lemma rec_src_extend D X codec plat enc lang e r :
  rec_src D codec plat enc lang e r -> rec_src (D ++ X) codec plat enc lang e r.
Proof.
  unfold rec_src. intros (H1 & H2 & H3 & H4 & H5 & H6 & H7). repeat split; auto.
  - unfold lenN in *. rewrite app_length. lia.
  - rewrite sub_app_l; [exact H7|]. unfold lenN in *. lia.
Qed.

Lemma gen_table_len plat enc lang codec t nb :
  nb_len nb <= nb_len (fst (gen_table plat enc lang codec t nb)).
Proof.
  revert nb. induction t as [|[id v] t IH]; intros nb; cbn [gen_table fst]; [lia|].
  pose proof (nb_add_len nb (codec v)) as H1.
  destruct (nb_add nb (codec v)) as [nb1 [o l]]. cbn [fst] in H1.
  specialize (IH nb1). destruct (gen_table plat enc lang codec t nb1) as [nb2 rs]. cbn [fst] in *. lia.
Qed.

Lemma gen_table_spec plat enc lang codec t : forall nb,
  BI nb -> nb_len (fst (gen_table plat enc lang codec t nb)) <= 65535 ->
  let '(nb', rs) := gen_table plat enc lang codec t nb in
  BI nb' /\ (exists x, nb_data nb' = nb_data nb ++ x) /\
  Forall2 (fun r e => rec_src (nb_data nb') codec plat enc lang e r) rs t.
Proof.
  induction t as [|[id v] t IH]; intros nb Hbi Hfin; cbn [gen_table] in *.
  - split; [exact Hbi|]. split; [|constructor]. exists []. now rewrite app_nil_r.
  - pose proof (nb_add_spec nb (codec v) Hbi) as Hadd.
    pose proof (gen_table_len plat enc lang codec t (fst (nb_add nb (codec v)))) as Hmono.
    destruct (nb_add nb (codec v)) as [nb1 [o l]]. cbn [fst] in *.
    specialize (IH nb1).
    destruct (gen_table plat enc lang codec t nb1) as [nb2 rs]. cbn [fst] in *.
    destruct (Hadd ltac:(lia)) as (Hbi1 & Hl & Hol & Hsub & [x Hx]).
    destruct (IH Hbi1 Hfin) as (Hbi2 & [y Hy] & Hf).
    split; [exact Hbi2|]. split.
    + exists (x ++ y). now rewrite Hy, Hx, app_assoc.
    + constructor; [|exact Hf].
      rewrite Hy. apply rec_src_extend.
      destruct Hbi1 as [Hlen1 _].
      unfold rec_src. cbn [r_plat r_enc r_lang r_id r_len r_off fst snd].
      repeat split; auto. rewrite <- Hlen1. exact Hol.
Qed.

(* the source entries of one platform, in generation order *)
Definition srcs (order : list (N * list N)) (tt : tables) : list (N * (N * list N)) :=
  flat_map (fun p => match lookupB (snd p) tt with
                     | None => []
                     | Some t => map (fun e => (fst p, e)) (keys t)
                     end) order.

Lemma gen_langs_len order tt plat enc codec nb :
  nb_len nb <= nb_len (fst (gen_langs order tt plat enc codec nb)).
Proof.
  revert nb. induction order as [|[lang tag] o IH]; intros nb; cbn [gen_langs fst]; [lia|].
  destruct (lookupB tag tt) as [t|]; [|apply IH].
  pose proof (gen_table_len plat enc lang codec (keys t) nb) as H1.
  destruct (gen_table plat enc lang codec (keys t) nb) as [nb1 rs1]. cbn [fst] in H1.
  specialize (IH nb1). destruct (gen_langs o tt plat enc codec nb1) as [nb2 rs2]. cbn [fst] in *. lia.
Qed.

Lemma Forall2_impl_l {A B} (P Q : A -> B -> Prop) l1 l2 :
  (forall a b, P a b -> Q a b) -> Forall2 P l1 l2 -> Forall2 Q l1 l2.
Proof. intros H F. induction F; constructor; auto. Qed.

Lemma Forall2_map_r {A B C} (P : A -> C -> Prop) (f : B -> C) l1 l2 :
  Forall2 (fun a b => P a (f b)) l1 l2 -> Forall2 P l1 (map f l2).
Proof. intros F. induction F; cbn [map]; constructor; auto. Qed.

Lemma gen_langs_spec tt plat enc codec order : forall nb,
  BI nb -> nb_len (fst (gen_langs order tt plat enc codec nb)) <= 65535 ->
  let '(nb', rs) := gen_langs order tt plat enc codec nb in
  BI nb' /\ (exists x, nb_data nb' = nb_data nb ++ x) /\
  Forall2 (fun r s => rec_src (nb_data nb') codec plat enc (fst s) (snd s) r) rs (srcs order tt).
Proof.
  induction order as [|[lang tag] o IH]; intros nb Hbi Hfin; cbn [gen_langs srcs flat_map fst snd] in *.
  - split; [exact Hbi|]. split; [|constructor]. exists []. now rewrite app_nil_r.
  - fold (srcs o tt). destruct (lookupB tag tt) as [t|].
    + pose proof (gen_table_spec plat enc lang codec (keys t) nb Hbi) as Ht.
      pose proof (gen_langs_len o tt plat enc codec (fst (gen_table plat enc lang codec (keys t) nb))) as Hmono.
      destruct (gen_table plat enc lang codec (keys t) nb) as [nb1 rs1]. cbn [fst] in *.
      specialize (IH nb1).
      destruct (gen_langs o tt plat enc codec nb1) as [nb2 rs2]. cbn [fst] in *.
      destruct (Ht ltac:(lia)) as (Hbi1 & [x Hx] & Hf1).
      destruct (IH Hbi1 Hfin) as (Hbi2 & [y Hy] & Hf2).
      split; [exact Hbi2|]. split.
      * exists (x ++ y). now rewrite Hy, Hx, app_assoc.
      * apply Forall2_app; [|exact Hf2].
        apply Forall2_map_r. cbn [fst snd].
        eapply Forall2_impl_l; [|exact Hf1].
        intros r e Hr. rewrite Hy. now apply rec_src_extend.
    + cbn [app]. now apply IH.
Qed.

Lemma Forall2_in_l {A B} (P : A -> B -> Prop) l1 l2 a :
  Forall2 P l1 l2 -> In a l1 -> exists b, In b l2 /\ P a b.
Proof.
  intros F. induction F as [|x y l1 l2 Hp F IH]; [intros []|].
  intros [<-|Hin]; [exists y; split; [now left|auto]|].
  destruct (IH Hin) as [b [Hb Hpb]]. exists b. split; [now right|auto].
Qed.

Lemma Forall2_in_r {A B} (P : A -> B -> Prop) l1 l2 b :
  Forall2 P l1 l2 -> In b l2 -> exists a, In a l1 /\ P a b.
Proof.
  intros F. induction F as [|x y l1 l2 Hp F IH]; [intros []|].
  intros [<-|Hin]; [exists x; split; [now left|auto]|].
  destruct (IH Hin) as [a [Ha Hpa]]. exists a. split; [now right|auto].
Qed.

Lemma srcs_in order tt lang id v :
  In (lang, (id, v)) (srcs order tt) <->
  exists tag t, In (lang, tag) order /\ lookupB tag tt = Some t /\ In (id, v) t /\ v <> [].
Proof.
  unfold srcs. rewrite in_flat_map. split.
  - intros [[lang' tag] [Hin H]]. cbn [fst snd] in H.
    destruct (lookupB tag tt) as [t|] eqn:El; [|destruct H].
    apply in_map_iff in H. destruct H as [[id' v'] [Heq Hk]]. injection Heq as -> -> ->.
    apply keys_in in Hk. destruct Hk. exists tag, t. auto.
  - intros (tag & t & Hin & Hl & Ht & Hv). exists (lang, tag). split; [exact Hin|].
    cbn [fst snd]. rewrite Hl. apply in_map_iff. exists (id, v). split; [reflexivity|].
    apply keys_in. auto.
Qed.
