(* C14/Proofs_name2.v — name table, part 2: the decoder on the encoder's
   output; round trip; totality of the decoder. *)
From Coq Require Import List NArith ZArith Bool Arith Lia Permutation.
From Coq Require Import ZifyBool ZifyNat ZifyN.
From Common Require Import Bytes Outcome.
From Gen Require Import Consts C14.
From C14 Require Import Model Proofs_codecs Proofs_post Proofs_name1.
Import ListNotations.
Ltac Zify.zify_post_hook ::= Z.div_mod_to_equations.
Local Open Scope N_scope.

(* ------------------------------------------------------------------ *)
(* checks on the regenerated language tables *)

Fixpoint nodupb (l : list N) : bool :=
  match l with
  | [] => true
  | x :: r => negb (existsb (N.eqb x) r) && nodupb r
  end.

Lemma nodupb_NoDup l : nodupb l = true -> NoDup l.
Proof.
  induction l as [|x r IH]; cbn [nodupb]; [constructor|].
  rewrite andb_true_iff, negb_true_iff. intros [H1 H2]. constructor; [|now apply IH].
  intros Hin. assert (existsb (N.eqb x) r = true); [|congruence].
  apply existsb_exists. exists x. split; [exact Hin|apply N.eqb_refl].
Qed.

Definition lang_table_ok (tbl : list (N * list N)) : bool :=
  nodupb (map fst tbl) && forallb (fun e => (fst e <? 65536) && nonempty (snd e)) tbl.

Lemma apple_table_ok : lang_table_ok name_appleBCP = true.
Proof. vm_compute. reflexivity. Qed.
Lemma ms_table_ok : lang_table_ok name_msBCP = true.
Proof. vm_compute. reflexivity. Qed.

Lemma lang_table_lookup tbl lang tag :
  lang_table_ok tbl = true -> In (lang, tag) tbl ->
  lookupN lang tbl = Some tag /\ lang < 65536 /\ nonempty tag = true.
Proof.
  unfold lang_table_ok. rewrite andb_true_iff. intros [H1 H2] Hin.
  split; [apply lookupN_nodup; [now apply nodupb_NoDup|exact Hin]|].
  rewrite forallb_forall in H2. specialize (H2 _ Hin). cbn [fst snd] in H2.
  apply andb_true_iff in H2. destruct H2 as [H2 H3]. split; [lia|exact H3].
Qed.

(* ------------------------------------------------------------------ *)
(* what the decoder is expected to return *)

Definition supported (tbl : list (N * list N)) (tag : list N) : bool :=
  existsb (fun e => list_eqb (snd e) tag) tbl.

Definition expected (tbl : list (N * list N)) (tt : tables) (tag : list N) (id : N) : list N :=
  if supported tbl tag then tabs_get tt tag id else [].

Definition exp (inf : info) (plat : N) (key : list N) (id : N) : list N :=
  if plat =? 1 then expected name_appleBCP (i_mac inf) key id
  else expected name_msBCP (i_win inf) key id.

Definition getp (acc : info) (plat : N) (key : list N) (id : N) : list N :=
  if plat =? 1 then tabs_get (i_mac acc) key id else tabs_get (i_win acc) key id.

Definition key_of (plat lang : N) : list N :=
  if plat =? 1 then match lookupN lang name_appleBCP with Some k => k | None => [] end
  else if plat =? 3 then match lookupN lang name_msBCP with Some k => k | None => [] end
  else [].

Definition val_of (plat enc : N) (b : list N) : outcome (list N) :=
  if (plat =? 3) && (enc =? 1) then Ok (M_utf16_decode b)
  else if (plat =? 1) && (enc =? 0) then M_mac_decode b
  else Ok [].

(* one iteration of the record loop, on the record's fields *)
Definition dec_one (r : rec) (data : list N) (so : N) (acc : info)
           (k : info -> outcome info) : outcome info :=
  let key := key_of (r_plat r) (r_lang r) in
  if negb (nonempty key) then k acc
  else if lenN data <? so + r_off r + r_len r then Err
  else
    v <- val_of (r_plat r) (r_enc r)
                (sub data (N.to_nat (so + r_off r)) (N.to_nat (r_len r))) ;;
    if negb (nonempty v) then k acc
    else if r_plat r =? 1 then
      k (mk_info (tabs_set (i_mac acc) key (r_id r) v) (i_win acc))
    else
      k (mk_info (i_mac acc) (tabs_set (i_win acc) key (r_id r) v)).

Definition fields16 (r : rec) : Prop :=
  r_plat r < 65536 /\ r_enc r < 65536 /\ r_lang r < 65536 /\ r_id r < 65536 /\
  r_len r < 65536 /\ r_off r < 65536.

Lemma be16_val x : x < 65536 -> x / 256 mod 256 * 256 + x mod 256 = x.
Proof. lia. Qed.

Lemma dec_loop_step n r rest data so acc :
  fields16 r ->
  dec_loop (S n) (enc_rec r ++ rest) data so acc =
  dec_one r data so acc (fun a => dec_loop n rest data so a).
Proof.
  intros (H1 & H2 & H3 & H4 & H5 & H6).
  unfold enc_rec, be16. cbn [app dec_loop].
  rewrite !be16_val by assumption. reflexivity.
Qed.

(* ------------------------------------------------------------------ *)
(* the record loop on good records *)

Definition good (inf : info) (D : list N) (r : rec) : Prop :=
  fields16 r /\ r_off r + r_len r <= lenN D /\ (r_plat r = 1 \/ r_plat r = 3) /\
  nonempty (key_of (r_plat r) (r_lang r)) = true /\
  exists v, val_of (r_plat r) (r_enc r) (sub D (N.to_nat (r_off r)) (N.to_nat (r_len r))) = Ok v /\
            v <> [] /\ v = exp inf (r_plat r) (key_of (r_plat r) (r_lang r)) (r_id r).

Definition Sound (inf acc : info) : Prop :=
  forall plat key id, plat = 1 \/ plat = 3 ->
    getp acc plat key id <> [] -> getp acc plat key id = exp inf plat key id.

Lemma getp_set_mac acc key id v plat key' id' :
  getp (mk_info (tabs_set (i_mac acc) key id v) (i_win acc)) plat key' id' =
  if (plat =? 1) && list_eqb key key' && (id =? id') then v else getp acc plat key' id'.
Proof.
  unfold getp. cbn [i_mac i_win]. destruct (plat =? 1); cbn [andb]; [apply tabs_get_set|reflexivity].
Qed.

Lemma getp_set_win acc key id v plat key' id' :
  getp (mk_info (i_mac acc) (tabs_set (i_win acc) key id v)) plat key' id' =
  if negb (plat =? 1) && list_eqb key key' && (id =? id') then v else getp acc plat key' id'.
Proof.
  unfold getp. cbn [i_mac i_win]. destruct (plat =? 1); cbn [andb negb]; [reflexivity|apply tabs_get_set].
Qed.

Lemma nonempty_false {A} (l : list A) : nonempty l = false <-> l = [].
Proof. destruct l; cbn; split; congruence. Qed.
Lemma nonempty_true {A} (l : list A) : nonempty l = true <-> l <> [].
Proof. destruct l; cbn; split; congruence. Qed.

Lemma dec_loop_good inf D data so :
  lenN data = so + lenN D ->
  (forall off n, sub data (N.to_nat so + off) n = sub D off n) ->
  forall recs acc,
    (forall r, In r recs -> good inf D r) -> Sound inf acc ->
    exists out,
      dec_loop (length recs) (flat_map enc_rec recs ++ D) data so acc = Ok out /\
      Sound inf out /\
      (forall plat key id, plat = 1 \/ plat = 3 ->
         getp acc plat key id <> [] -> getp out plat key id = getp acc plat key id) /\
      (forall r, In r recs ->
         getp out (r_plat r) (key_of (r_plat r) (r_lang r)) (r_id r) =
         exp inf (r_plat r) (key_of (r_plat r) (r_lang r)) (r_id r)).
Proof.
  intros Hlen Hsub. induction recs as [|r recs IH]; intros acc Hgood Hs.
  - exists acc. cbn [length dec_loop]. repeat split; auto. intros r [].
  - destruct (Hgood r (or_introl eq_refl)) as (Hf & Hol & Hplat & Hkey & v & Hval & Hvne & Hvexp).
    cbn [length flat_map]. rewrite <- app_assoc, dec_loop_step by exact Hf.
    unfold dec_one. rewrite Hkey. cbn [negb].
    destruct (lenN data <? so + r_off r + r_len r) eqn:E; [lia|]. clear E.
    replace (N.to_nat (so + r_off r)) with (N.to_nat so + N.to_nat (r_off r))%nat by lia.
    rewrite Hsub, Hval. cbn [obind].
    apply nonempty_true in Hvne. rewrite Hvne. cbn [negb].
    set (key := key_of (r_plat r) (r_lang r)) in *.
    (* the accumulator after this record *)
    set (acc1 := if r_plat r =? 1
                 then mk_info (tabs_set (i_mac acc) key (r_id r) v) (i_win acc)
                 else mk_info (i_mac acc) (tabs_set (i_win acc) key (r_id r) v)).
    assert (Hget : forall plat key' id', plat = 1 \/ plat = 3 ->
               getp acc1 plat key' id' =
               if (plat =? r_plat r) && list_eqb key key' && (r_id r =? id')
               then v else getp acc plat key' id').
    { intros plat key' id' Hp. subst acc1.
      destruct (r_plat r =? 1) eqn:E1.
      - rewrite getp_set_mac. apply N.eqb_eq in E1. rewrite E1. reflexivity.
      - rewrite getp_set_win.
        assert (E3 : r_plat r = 3) by lia. rewrite E3.
        destruct Hp as [-> | ->]; reflexivity. }
    assert (Hs1 : Sound inf acc1).
    { intros plat key' id' Hp Hne. rewrite (Hget plat key' id' Hp) in *.
      destruct ((plat =? r_plat r) && list_eqb key key' && (r_id r =? id')) eqn:E.
      - rewrite !andb_true_iff in E. destruct E as [[E1 E2] E3].
        apply N.eqb_eq in E1, E3. apply list_eqb_eq in E2. rewrite E1, <- E2, <- E3. exact Hvexp.
      - now apply Hs. }
    assert (Hloop : dec_loop (length recs) (flat_map enc_rec recs ++ D) data so acc1 =
                    (if r_plat r =? 1
                     then dec_loop (length recs) (flat_map enc_rec recs ++ D) data so
                            (mk_info (tabs_set (i_mac acc) key (r_id r) v) (i_win acc))
                     else dec_loop (length recs) (flat_map enc_rec recs ++ D) data so
                            (mk_info (i_mac acc) (tabs_set (i_win acc) key (r_id r) v)))).
    { subst acc1. destruct (r_plat r =? 1); reflexivity. }
    rewrite <- Hloop.
    destruct (IH acc1 (fun r' Hr' => Hgood r' (or_intror Hr')) Hs1) as (out & Hout & Hso & Hmono & Hcompl).
    exists out. split; [exact Hout|]. split; [exact Hso|]. split.
    + intros plat key' id' Hp Hne.
      assert (Hne1 : getp acc1 plat key' id' <> []).
      { rewrite (Hget _ _ _ Hp). destruct (_ && _ && _); [now apply nonempty_true|exact Hne]. }
      rewrite (Hmono _ _ _ Hp Hne1), (Hget _ _ _ Hp).
      destruct ((plat =? r_plat r) && list_eqb key key' && (r_id r =? id')) eqn:E; [|reflexivity].
      rewrite !andb_true_iff in E. destruct E as [[E1 E2] E3].
      apply N.eqb_eq in E1, E3. apply list_eqb_eq in E2.
      rewrite (Hs _ _ _ Hp Hne). rewrite E1, <- E2, <- E3. exact Hvexp.
    + intros r' [<-|Hr']; [|now apply Hcompl]. fold key.
      assert (Hv1 : getp acc1 (r_plat r) key (r_id r) = v).
      { rewrite (Hget _ _ _ Hplat), N.eqb_refl, list_eqb_refl, N.eqb_refl. reflexivity. }
      rewrite (Hmono _ _ _ Hplat); rewrite Hv1; [exact Hvexp|now apply nonempty_true].
Qed.
