(* C14/Proofs_lang.v — the language-id tables are injective in both
   directions (finite computation on the regenerated tables). *)
From Coq Require Import List NArith ZArith Bool Arith Lia.
From Common Require Import Bytes Outcome.
From Gen Require Import C14.
From C14 Require Import Model Proofs_post Proofs_name2.
Import ListNotations.
Local Open Scope N_scope.

(* all pairs of entries: equal tags imply equal ids; equal ids imply equal tags *)
Definition bij_check (tbl : list (N * list N)) : bool :=
  forallb (fun p =>
    forallb (fun q =>
      (negb (list_eqb (snd p) (snd q)) || (fst p =? fst q)) &&
      (negb (fst p =? fst q) || list_eqb (snd p) (snd q))) tbl) tbl.

Lemma bij_check_spec tbl :
  bij_check tbl = true ->
  (forall a b t, In (a, t) tbl -> In (b, t) tbl -> a = b) /\
  (forall a t u, In (a, t) tbl -> In (a, u) tbl -> t = u).
Proof.
  unfold bij_check. rewrite forallb_forall. intros H. split.
  - intros a b t Ha Hb. specialize (H _ Ha). rewrite forallb_forall in H. specialize (H _ Hb).
    cbn [fst snd] in H. rewrite list_eqb_refl in H. cbn [negb orb] in H.
    apply andb_true_iff in H. destruct H as [H _]. now apply N.eqb_eq.
  - intros a t u Ht Hu. specialize (H _ Ht). rewrite forallb_forall in H. specialize (H _ Hu).
    cbn [fst snd] in H. rewrite N.eqb_refl in H. cbn [negb orb] in H.
    apply andb_true_iff in H. destruct H as [_ H]. now apply list_eqb_eq.
Qed.

Lemma apple_bij : bij_check name_appleBCP = true.
Proof. vm_compute. reflexivity. Qed.
Lemma ms_bij : bij_check name_msBCP = true.
Proof. vm_compute. reflexivity. Qed.

Lemma apple_no_collisions : collisions name_appleBCP = [].
Proof. vm_compute. reflexivity. Qed.
Lemma ms_no_collisions : collisions name_msBCP = [].
Proof. vm_compute. reflexivity. Qed.
