(* C14/ModelTags.v — OpenType script/language tags <-> BCP 47
   (opentype/gtab/locale.go: otfToBCP47, bcp47ToOtf through the private-use
   extension).  golang.org/x/text/language is external: the model builds the
   string handed to language.Parse and interprets the string returned by
   tag.Extension('x'); what x/text does in between is a parameter.
   Strings are byte lists. *)
From Coq Require Import List NArith Bool.
From Gen Require Import C14.
From C14 Require Import Model.
Import ListNotations.
Local Open Scope N_scope.

Definition ch_dash : N := 45.
Definition ch_space : N := 32.

Fixpoint lookupS {V} (k : list N) (l : list (list N * V)) : option V :=
  match l with
  | [] => None
  | (k', v) :: r => if list_eqb k' k then Some v else lookupS k r
  end.

(* strings.TrimRight(s, " ") *)
Fixpoint trim_right (s : list N) : list N :=
  match s with
  | [] => []
  | c :: r => match trim_right r with
              | [] => if c =? ch_space then [] else [c]
              | r' => c :: r'
              end
  end.

Definition lower1 (c : N) : N := if (65 <=? c) && (c <=? 90) then c + 32 else c.
Definition upper1 (c : N) : N := if (97 <=? c) && (c <=? 122) then c - 32 else c.
Definition lower (s : list N) : list N := map lower1 s.
Definition upper (s : list N) : list N := map upper1 s.

(* strings.Split(s, "-") *)
Fixpoint split_dash (s : list N) : list (list N) :=
  match s with
  | [] => [[]]
  | c :: r =>
      if c =? ch_dash then [] :: split_dash r
      else match split_dash r with
           | [] => [[c]]
           | h :: t => (c :: h) :: t
           end
  end.

Definition contains_dash (s : list N) : bool := existsb (N.eqb ch_dash) s.

Definition und : list N := [117; 110; 100].

(* the private-use part "-x-<script>[-<lang>]" without the leading "-x-" *)
Definition private_part (script lang : list N) : list N :=
  trim_right script ++
  match trim_right lang with [] => [] | l => ch_dash :: l end.

(* the string passed to language.Parse by otfToBCP47 (as the part before
   "-x-" and the private-use part); None = error return *)
Definition tag_parts (bcpScript bcpLang script lang : list N) : list N * list N :=
  (bcpLang ++ (if contains_dash bcpLang then [] else ch_dash :: bcpScript),
   private_part script lang).

Definition M_otf_tag_string (script lang : list N) : option (list N * list N) :=
  match lookupS script gtab_scriptBcp47 with
  | None => None
  | Some bcpScript =>
      let bl := match lookupS lang gtab_langBcp47 with
                | Some l => Some l
                | None => match lang with [] => Some und | _ => None end
                end in
      match bl with
      | None => None
      | Some bcpLang => Some (tag_parts bcpScript bcpLang script lang)
      end
  end.

Definition full_tag (p : list N * list N) : list N := fst p ++ [45; 120; 45] ++ snd p.

(* for len(s) < 4 { s += " " } *)
Definition pad4s (s : list N) : list N := s ++ repeat ch_space (4 - length s).

(* bcp47ToOtf on the string of the x extension ("x-..."); None = error return *)
Definition M_from_ext (ext : list N) : option (list N * list N) :=
  let m := split_dash ext in
  if (Nat.ltb (length m) 2 || Nat.ltb 3 (length m)) then None
  else
    let script0 := nth 1 m [] in
    let script := if list_eqb script0 [100; 102; 108; 116] then [68; 70; 76; 84] else script0 in
    let lang := if Nat.ltb 2 (length m) then pad4s (upper (nth 2 m [])) else [] in
    Some (pad4s script, lang).

(* what x/text is assumed to do (and is observed to do on every pair of the
   tables): a tag whose part before "-x-" contains no singleton "x" and whose
   private-use subtags are 1..8 alphanumerics parses, and its x extension is
   the lower-cased private-use part *)
Definition is_alnum (c : N) : bool :=
  ((48 <=? c) && (c <=? 57)) || ((65 <=? c) && (c <=? 90)) || ((97 <=? c) && (c <=? 122)).
Definition subtag_ok (s : list N) : bool :=
  Nat.leb 1 (length s) && Nat.leb (length s) 8 && forallb is_alnum s.
Definition priv_ok (rest : list N) : bool := forallb subtag_ok (split_dash rest).
Definition pre_ok (pre : list N) : bool :=
  forallb (fun s => negb (list_eqb (lower s) [120])) (split_dash pre).

Definition xtext_spec (xtext : list N -> option (list N)) : Prop :=
  forall pre rest, pre_ok pre = true -> priv_ok rest = true ->
    xtext (pre ++ [45; 120; 45] ++ rest) = Some ([120; 45] ++ lower rest).

(* prediction used for the correspondence: extension string and the pair
   recovered from it *)
Definition M_otf_pair (script lang : list N) : option (list N * (list N * list N)) :=
  match M_otf_tag_string script lang with
  | None => None
  | Some p =>
      let ext := [120; 45] ++ lower (snd p) in
      match M_from_ext ext with
      | Some sl => Some (ext, sl)
      | None => None
      end
  end.

(* the finite check behind otf_tag_roundtrip: every script entry with every
   language entry (and the default language system) *)
Definition pair_check (script bs lang bl : list N) : bool :=
  let p := tag_parts bs bl script lang in
  pre_ok (fst p) && priv_ok (snd p) &&
  match M_from_ext ([120; 45] ++ lower (snd p)) with
  | Some (s, l) => list_eqb s script && list_eqb l lang
  | None => false
  end.
Definition pair_check_e (se le : list N * list N) : bool :=
  pair_check (fst se) (snd se) (fst le) (snd le).
Definition otf_lang_entries : list (list N * list N) := ([], und) :: gtab_langBcp47.
Definition otf_all_ok : bool :=
  forallb (fun se => forallb (fun le => pair_check_e se le) otf_lang_entries) gtab_scriptBcp47.

Fixpoint keys_unique {V} (l : list (list N * V)) : bool :=
  match l with
  | [] => true
  | (k, _) :: r => negb (existsb (fun e => list_eqb (fst e) k) r) && keys_unique r
  end.
