(* C14/Proofs_name4.v — name table, part 4: Decode is total (never panics)
   on every byte string; strings are stored once per distinct content. *)
From Coq Require Import List NArith ZArith Bool Arith Lia Permutation.
From Coq Require Import ZifyBool ZifyNat ZifyN.
From Common Require Import Bytes Outcome.
From Gen Require Import Consts C14.
From C14 Require Import Model Proofs_codecs Proofs_post Proofs_name1 Proofs_name2.
Import ListNotations.
Ltac Zify.zify_post_hook ::= Z.div_mod_to_equations.
Local Open Scope N_scope.

Lemma bytes_ok_firstn n l : bytes_ok l = true -> bytes_ok (firstn n l) = true.
Proof.
  unfold bytes_ok. intros H. rewrite <- (firstn_skipn n l) in H.
  rewrite forallb_app in H. apply andb_true_iff in H. tauto.
Qed.

Lemma bytes_ok_sub l off n : bytes_ok l = true -> bytes_ok (sub l off n) = true.
Proof. intros H. unfold sub. now apply bytes_ok_firstn, bytes_ok_skipn. Qed.

Lemma mac_decode_total bs :
  bytes_ok bs = true -> M_mac_decode bs <> Panic /\ M_mac_decode bs <> OutOfFuel /\ M_mac_decode bs <> Err.
Proof.
  intros H. destruct (mac_decode_no_panic bs H) as [s ->]. repeat split; discriminate.
Qed.

Lemma dec_loop_total n : forall recs data so acc,
  bytes_ok data = true -> (12 * n <= length recs)%nat ->
  dec_loop n recs data so acc <> Panic /\ dec_loop n recs data so acc <> OutOfFuel.
Proof.
  induction n as [|n IH]; intros recs data so acc Hb Hl; cbn [dec_loop].
  - split; discriminate.
  - destruct recs as [|p0 [|p1 [|e0 [|e1 [|l0 [|l1 [|i0 [|i1 [|n0 [|n1 [|o0 [|o1 recs']]]]]]]]]]]];
      cbn [length] in Hl; try lia.
    assert (Hl' : (12 * n <= length recs')%nat) by lia.
    match goal with |- context [negb (nonempty ?k)] => destruct (negb (nonempty k)) end;
      [now apply IH|].
    match goal with |- context [if ?c then Err else _] => destruct c end; [split; discriminate|].
    match goal with |- context [obind ?v _] => assert (Hv : v <> Panic /\ v <> OutOfFuel) end.
    { destruct ((p0 * 256 + p1 =? 3) && (e0 * 256 + e1 =? 1)); [split; discriminate|].
      destruct ((p0 * 256 + p1 =? 1) && (e0 * 256 + e1 =? 0)); [|split; discriminate].
      match goal with |- context [M_mac_decode ?b] =>
        destruct (mac_decode_total b (bytes_ok_sub _ _ _ Hb)) as (H1 & H2 & _) end.
      now split. }
    match goal with |- context [obind ?v _] => destruct v as [val| | |] end; cbn [obind];
      try (split; discriminate); try (destruct Hv; congruence).
    destruct (negb (nonempty val)); [now apply IH|].
    destruct (p0 * 256 + p1 =? 1); now apply IH.
Qed.

Lemma name_decode_total_lemma data :
  bytes_ok data = true -> M_name_decode data <> Panic /\ M_name_decode data <> OutOfFuel.
Proof.
  intros Hb. unfold M_name_decode.
  destruct (lenN data <? 6) eqn:E6; [split; discriminate|].
  destruct (1 <? rd16 data); [split; discriminate|].
  set (nr := rd16 (skipn 2 data)).
  destruct (lenN data <? 6 + 12 * nr) eqn:Eh; [split; discriminate|].
  assert (Hloop : forall so, dec_loop (N.to_nat nr) (skipn 6 data) data so (mk_info [] []) <> Panic /\
                             dec_loop (N.to_nat nr) (skipn 6 data) data so (mk_info [] []) <> OutOfFuel).
  { intros so. apply dec_loop_total; [exact Hb|]. rewrite skipn_length. unfold lenN in *. lia. }
  destruct (0 <? rd16 data).
  - destruct (lenN data <? 6 + 12 * nr + 2) eqn:E2; [split; discriminate|].
    destruct (skipn (N.to_nat (6 + 12 * nr)) data) as [|a [|b rest]] eqn:Es.
    + exfalso. assert (length (skipn (N.to_nat (6 + 12 * nr)) data) = 0%nat) by now rewrite Es.
      rewrite skipn_length in H. unfold lenN in *. lia.
    + exfalso. assert (length (skipn (N.to_nat (6 + 12 * nr)) data) = 1%nat) by now rewrite Es.
      rewrite skipn_length in H. unfold lenN in *. lia.
    + cbn [obind]. match goal with |- context [if ?c then Err else _] => destruct c end;
        [split; discriminate|apply Hloop].
  - cbn [obind]. match goal with |- context [if ?c then Err else _] => destruct c end;
      [split; discriminate|apply Hloop].
Qed.

(* ------------------------------------------------------------------ *)
(* sharing: the storage area is the concatenation of pairwise distinct
   strings, each the encoding of some record, and every record's encoding is
   one of them; its length is the sum of their lengths (whatever the size) *)

Definition SI (nb : builder) : Prop :=
  NoDup (nb_chunks nb) /\
  (forall b, In b (nb_chunks nb) <-> exists o, lookupB b (nb_idx nb) = Some o) /\
  nb_len nb = lenN (nb_data nb).

Lemma SI_empty : SI nb_empty.
Proof.
  split; [constructor|]. split; [|reflexivity].
  intros b. cbn. split; [intros []|intros [o H]; discriminate].
Qed.

Lemma nb_add_SI nb b :
  SI nb -> SI (fst (nb_add nb b)) /\
           forall c, In c (nb_chunks (fst (nb_add nb b))) <-> In c (nb_chunks nb) \/ c = b.
Proof.
  intros (Hnd & Hidx & Hlen). unfold nb_add.
  destruct (lookupB b (nb_idx nb)) as [o|] eqn:El; cbn [fst].
  - split; [repeat split; auto; apply Hidx|].
    intros c. split; [auto|]. intros [H| ->]; [exact H|]. apply Hidx. eauto.
  - assert (Hnot : ~ In b (nb_chunks nb)).
    { intros Hin. apply Hidx in Hin. destruct Hin as [o Ho]. congruence. }
    split; [split; [|split]|].
    + cbn [nb_chunks]. now constructor.
    + intros c. cbn [nb_chunks nb_idx lookupB]. split.
      * intros [<-|Hin]; [rewrite list_eqb_refl; eauto|].
        destruct (list_eqb b c); [eauto|]. now apply Hidx.
      * destruct (list_eqb b c) eqn:E; [apply list_eqb_eq in E; now left|].
        intros H. right. now apply Hidx.
    + cbn [nb_len]. unfold nb_data in *. cbn [nb_chunks rev]. rewrite concat_app. cbn [concat].
      rewrite app_nil_r. unfold lenN in *. rewrite app_length. lia.
    + intros c. cbn [nb_chunks In]. split; intros [H|H]; auto.
Qed.

Lemma gen_table_SI plat enc lang codec t : forall nb,
  SI nb -> SI (fst (gen_table plat enc lang codec t nb)) /\
  forall c, In c (nb_chunks (fst (gen_table plat enc lang codec t nb))) <->
            In c (nb_chunks nb) \/ In c (map (fun e => codec (snd e)) t).
Proof.
  induction t as [|[id v] t IH]; intros nb Hsi; cbn [gen_table fst map In].
  - split; [exact Hsi|]. intros c. tauto.
  - destruct (nb_add_SI nb (codec v) Hsi) as [Hsi1 Hc1].
    destruct (nb_add nb (codec v)) as [nb1 [o l]]. cbn [fst] in *.
    destruct (IH nb1 Hsi1) as [Hsi2 Hc2].
    destruct (gen_table plat enc lang codec t nb1) as [nb2 rs]. cbn [fst snd] in *.
    split; [exact Hsi2|]. intros c. rewrite Hc2, Hc1. intuition congruence.
Qed.

Lemma gen_langs_SI tt plat enc codec order : forall nb,
  SI nb -> SI (fst (gen_langs order tt plat enc codec nb)) /\
  forall c, In c (nb_chunks (fst (gen_langs order tt plat enc codec nb))) <->
            In c (nb_chunks nb) \/ In c (map (fun s => codec (snd (snd s))) (srcs order tt)).
Proof.
  induction order as [|[lang tag] o IH]; intros nb Hsi; cbn [gen_langs srcs flat_map fst snd map In].
  - split; [exact Hsi|]. intros c. tauto.
  - fold (srcs o tt). destruct (lookupB tag tt) as [t|].
    + destruct (gen_table_SI plat enc lang codec (keys t) nb Hsi) as [Hsi1 Hc1].
      destruct (gen_table plat enc lang codec (keys t) nb) as [nb1 rs1]. cbn [fst] in *.
      destruct (IH nb1 Hsi1) as [Hsi2 Hc2].
      destruct (gen_langs o tt plat enc codec nb1) as [nb2 rs2]. cbn [fst] in *.
      split; [exact Hsi2|]. intros c. rewrite Hc2, Hc1, map_app, in_app_iff, map_map. cbn [snd].
      tauto.
    + cbn [app]. now apply IH.
Qed.

Fixpoint sum_len (l : list (list N)) : N :=
  match l with [] => 0 | x :: r => lenN x + sum_len r end.

Lemma concat_len l : lenN (concat l) = sum_len l.
Proof.
  induction l as [|x r IH]; cbn [concat sum_len]; [reflexivity|].
  unfold lenN in *. rewrite app_length. lia.
Qed.

Lemma sum_len_rev l : sum_len (rev l) = sum_len l.
Proof.
  induction l as [|x r IH]; cbn [rev sum_len]; [reflexivity|].
  assert (H : forall a b, sum_len (a ++ b) = sum_len a + sum_len b).
  { induction a as [|y a IHa]; intros b; cbn [app sum_len]; [lia|]. rewrite IHa. lia. }
  rewrite H, IH. cbn [sum_len]. lia.
Qed.

Lemma name_sharing_lemma om ow weid inf :
  let nb := fst (name_gen om ow weid inf) in
  NoDup (nb_chunks nb) /\
  nb_data nb = concat (rev (nb_chunks nb)) /\
  name_storage_len om ow weid inf = sum_len (nb_chunks nb) /\
  forall c, In c (nb_chunks nb) <->
    In c (map (fun s => M_mac_encode (snd (snd s))) (srcs om (i_mac inf))) \/
    In c (map (fun s => M_utf16_encode (snd (snd s))) (srcs ow (i_win inf))).
Proof.
  unfold name_storage_len, name_gen.
  destruct (gen_langs_SI (i_mac inf) 1 0 M_mac_encode om nb_empty SI_empty) as [Hsi1 Hc1].
  destruct (gen_langs om (i_mac inf) 1 0 M_mac_encode nb_empty) as [nb1 r1]. cbn [fst] in *.
  destruct (gen_langs_SI (i_win inf) 3 weid M_utf16_encode ow nb1 Hsi1) as [Hsi2 Hc2].
  destruct (gen_langs ow (i_win inf) 3 weid M_utf16_encode nb1) as [nb2 r2]. cbn [fst] in *.
  destruct Hsi2 as (Hnd & _ & Hlen).
  split; [exact Hnd|]. split; [reflexivity|]. split.
  - rewrite Hlen. unfold nb_data. now rewrite concat_len, sum_len_rev.
  - intros c. rewrite Hc2, Hc1. cbn [nb_chunks nb_empty In]. tauto.
Qed.
