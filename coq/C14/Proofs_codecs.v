(* C14/Proofs_codecs.v — Mac Roman (finite computation on the regenerated
   tables) and UTF-16BE (induction over the string). *)
From Coq Require Import List NArith ZArith Bool Arith Lia.
From Coq Require Import ZifyBool ZifyNat ZifyN.
From Common Require Import Bytes Outcome.
From Gen Require Import C14.
From C14 Require Import Model.
Import ListNotations.
Ltac Zify.zify_post_hook ::= Z.div_mod_to_equations.
Local Open Scope N_scope.

(* ------------------------------------------------------------------ *)
(* helpers *)

Lemma N_in_range (n : nat) (b : N) : b < N.of_nat n -> In b (map N.of_nat (seq 0 n)).
Proof.
  intros H. replace b with (N.of_nat (N.to_nat b)) by lia.
  apply in_map. apply in_seq. lia.
Qed.

Lemma scalar_spec c : is_scalar c = true <-> c < 1114112 /\ (c < 55296 \/ 57344 <= c).
Proof. unfold is_scalar, is_surrogate. lia. Qed.

Lemma fix_rune_scalar c : is_scalar c = true -> fix_rune c = c.
Proof. unfold fix_rune. intros ->. reflexivity. Qed.

Lemma map_fix_rune_scalars s : forallb is_scalar s = true -> map fix_rune s = s.
Proof.
  induction s as [|c s IH]; cbn [forallb map]; [reflexivity|].
  rewrite andb_true_iff. intros [Hc Hs]. now rewrite fix_rune_scalar, IH.
Qed.

(* ------------------------------------------------------------------ *)
(* Mac Roman *)

Definition all_bytes : list N := map N.of_nat (seq 0 256).

Definition chk_byte (b : N) : bool :=
  match M_mac_dec1 b with
  | Ok r => is_scalar r && mac_repertoire r && (M_mac_enc1 r =? b)
  | _ => false
  end.

Lemma chk_byte_all : forallb chk_byte all_bytes = true.
Proof. vm_compute. reflexivity. Qed.

Lemma mac_byte_inverse b :
  b < 256 -> exists r, M_mac_dec1 b = Ok r /\ is_scalar r = true /\
                       mac_repertoire r = true /\ M_mac_enc1 r = b.
Proof.
  intros Hb.
  pose proof (proj1 (forallb_forall chk_byte all_bytes) chk_byte_all b (N_in_range 256 b Hb)) as H.
  unfold chk_byte in H. destruct (M_mac_dec1 b) as [r| | |]; try discriminate.
  rewrite !andb_true_iff in H. destruct H as [[H1 H2] H3].
  exists r. repeat split; auto. now apply N.eqb_eq.
Qed.

Definition chk_rune (r : N) : bool :=
  is_scalar r && (M_mac_enc1 r <? 256) &&
  match M_mac_dec1 (M_mac_enc1 r) with Ok r' => r' =? r | _ => false end.

Lemma chk_rune_ascii : forallb chk_rune (map N.of_nat (seq 0 128)) = true.
Proof. vm_compute. reflexivity. Qed.
Lemma chk_rune_dec : forallb chk_rune mac_dec = true.
Proof. vm_compute. reflexivity. Qed.

Lemma mac_rune_inverse r :
  mac_repertoire r = true ->
  is_scalar r = true /\ M_mac_enc1 r < 256 /\ M_mac_dec1 (M_mac_enc1 r) = Ok r.
Proof.
  unfold mac_repertoire. rewrite orb_true_iff. intros H.
  assert (Hc : chk_rune r = true).
  { destruct H as [H|H].
    - apply (proj1 (forallb_forall chk_rune _) chk_rune_ascii). apply (N_in_range 128). lia.
    - apply existsb_exists in H. destruct H as [x [Hx Hr]]. apply N.eqb_eq in Hr. subst x.
      now apply (proj1 (forallb_forall chk_rune _) chk_rune_dec). }
  unfold chk_rune in Hc. rewrite !andb_true_iff in Hc. destruct Hc as [[H1 H2] H3].
  destruct (M_mac_dec1 (M_mac_enc1 r)) as [r'| | |]; try discriminate.
  apply N.eqb_eq in H3. subst r'. repeat split; auto. lia.
Qed.

(* strings *)
Lemma mac_decode_encode s :
  forallb mac_repertoire s = true -> M_mac_decode (M_mac_encode s) = Ok s.
Proof.
  induction s as [|r s IH]; cbn [forallb M_mac_encode map M_mac_decode]; [reflexivity|].
  rewrite andb_true_iff. intros [Hr Hs].
  destruct (mac_rune_inverse r Hr) as [Hsc [_ Hd]].
  rewrite Hd. cbn [obind]. fold (M_mac_encode s). rewrite (IH Hs). cbn [obind].
  now rewrite fix_rune_scalar.
Qed.

Lemma mac_encode_decode bs :
  bytes_ok bs = true ->
  exists s, M_mac_decode bs = Ok s /\ M_mac_encode s = bs /\ forallb mac_repertoire s = true.
Proof.
  induction bs as [|b bs IH]; cbn [bytes_ok forallb].
  - intros _. exists []. repeat split.
  - rewrite andb_true_iff. intros [Hb Hbs]. unfold byte_ok in Hb.
    destruct (mac_byte_inverse b ltac:(lia)) as [r [Hd [Hsc [Hrep He]]]].
    destruct (IH Hbs) as [s [Hs [Hes Hreps]]].
    exists (r :: s). cbn [M_mac_decode]. rewrite Hd. cbn [obind]. rewrite Hs. cbn [obind].
    rewrite fix_rune_scalar by assumption.
    repeat split.
    + cbn [M_mac_encode map]. fold (M_mac_encode s). now rewrite He, Hes.
    + cbn [forallb]. now rewrite Hrep, Hreps.
Qed.

Lemma mac_encode_bytes_ok s :
  forallb mac_repertoire s = true -> bytes_ok (M_mac_encode s) = true.
Proof.
  induction s as [|r s IH]; cbn [forallb M_mac_encode map bytes_ok]; [reflexivity|].
  rewrite andb_true_iff. intros [Hr Hs].
  destruct (mac_rune_inverse r Hr) as [_ [Hlt _]].
  apply andb_true_iff. split; [unfold byte_ok; lia| apply (IH Hs)].
Qed.

Lemma mac_encode_length s : length (M_mac_encode s) = length s.
Proof. apply map_length. Qed.

(* decoding never panics as long as the table has its 128 entries *)
Lemma mac_dec_table_length : length mac_dec = 128%nat.
Proof. vm_compute. reflexivity. Qed.

Lemma mac_decode_no_panic bs : bytes_ok bs = true -> exists s, M_mac_decode bs = Ok s.
Proof. intros H. destruct (mac_encode_decode bs H) as [s [Hs _]]. eauto. Qed.

(* ------------------------------------------------------------------ *)
(* UTF-16BE *)

Lemma units_model_spec c : is_scalar c = true -> M_utf16_units c = S_utf16_units c.
Proof.
  intros H. apply scalar_spec in H. unfold M_utf16_units, S_utf16_units.
  destruct ((c <? 55296) || ((57344 <=? c) && (c <? 65536))) eqn:E1.
  - destruct (c <? 65536) eqn:E2; [reflexivity|lia].
  - destruct ((65536 <=? c) && (c <=? 1114111)) eqn:E2; [|lia].
    destruct (c <? 65536) eqn:E3; [lia|].
    f_equal. f_equal. lia.
Qed.

Lemma units_bound c u : is_scalar c = true -> In u (S_utf16_units c) -> u < 65536.
Proof.
  intros H Hu. apply scalar_spec in H. unfold S_utf16_units in Hu.
  destruct (c <? 65536) eqn:E.
  - destruct Hu as [<-|[]]. lia.
  - destruct Hu as [<-|[<-|[]]]; lia.
Qed.

Lemma be16_spec u : u < 65536 -> be16 u = [u / 256; u mod 256].
Proof. intros H. unfold be16. f_equal. lia. Qed.

Lemma utf16_encode_is_spec s :
  forallb is_scalar s = true -> M_utf16_encode s = S_utf16be s.
Proof.
  induction s as [|c s IH]; cbn [forallb]; [reflexivity|].
  rewrite andb_true_iff. intros [Hc Hs].
  unfold M_utf16_encode, S_utf16be. cbn [flat_map].
  fold (M_utf16_encode s). fold (S_utf16be s). rewrite (IH Hs). f_equal.
  rewrite (units_model_spec c Hc).
  pose proof (units_bound c) as Hb. specialize (fun u => Hb u Hc).
  induction (S_utf16_units c) as [|u us IHu]; cbn [flat_map]; [reflexivity|].
  rewrite be16_spec by (apply Hb; now left). cbn [app]. do 2 f_equal.
  apply IHu. intros u' Hu'. apply Hb. now right.
Qed.

Lemma words_of_bytes_units us rest :
  words_of_bytes (flat_map be16 us ++ rest) = map (fun u => u mod 65536) us ++ words_of_bytes rest.
Proof.
  induction us as [|u us IH]; cbn [flat_map map app]; [reflexivity|].
  unfold be16 at 1. cbn [app words_of_bytes]. rewrite IH. f_equal. lia.
Qed.

Lemma decode_units c ws :
  is_scalar c = true ->
  utf16_decode_words (map (fun u => u mod 65536) (M_utf16_units c) ++ ws) = c :: utf16_decode_words ws.
Proof.
  intros H. apply scalar_spec in H. unfold M_utf16_units.
  destruct ((c <? 55296) || ((57344 <=? c) && (c <? 65536))) eqn:E1.
  - cbn [map app utf16_decode_words].
    assert (E: c mod 65536 = c) by lia. rewrite E.
    unfold is_high, is_low.
    destruct ((55296 <=? c) && (c <? 56320)) eqn:E2; [lia|].
    destruct ((56320 <=? c) && (c <? 57344)) eqn:E3; [lia|]. reflexivity.
  - destruct ((65536 <=? c) && (c <=? 1114111)) eqn:E2; [|lia].
    cbn [map app utf16_decode_words].
    set (w := (55296 + (c - 65536) / 1024 mod 1024) mod 65536).
    set (l := (56320 + (c - 65536) mod 1024) mod 65536).
    assert (Hw : 55296 <= w < 56320) by (subst w; lia).
    assert (Hl : 56320 <= l < 57344) by (subst l; lia).
    unfold is_high, is_low.
    destruct ((55296 <=? w) && (w <? 56320)) eqn:E3; [|lia].
    destruct ((56320 <=? l) && (l <? 57344)) eqn:E4; [|lia].
    f_equal. subst w l. lia.
Qed.

Lemma utf16_words_roundtrip s :
  forallb is_scalar s = true ->
  utf16_decode_words (words_of_bytes (M_utf16_encode s)) = s.
Proof.
  induction s as [|c s IH]; cbn [forallb]; [reflexivity|].
  rewrite andb_true_iff. intros [Hc Hs].
  unfold M_utf16_encode. cbn [flat_map]. fold (M_utf16_encode s).
  rewrite words_of_bytes_units, decode_units by assumption. now rewrite IH.
Qed.

Lemma utf16_roundtrip_lemma s :
  forallb is_scalar s = true -> M_utf16_decode (M_utf16_encode s) = s.
Proof.
  intros H. unfold M_utf16_decode. rewrite utf16_words_roundtrip by assumption.
  now apply map_fix_rune_scalars.
Qed.

(* the decoder only ever returns scalar values (so that string(...) is exact) *)
Lemma fix_rune_is_scalar r : is_scalar (fix_rune r) = true.
Proof. unfold fix_rune. destruct (is_scalar r) eqn:E; [assumption|reflexivity]. Qed.

Lemma utf16_decode_scalars b : forallb is_scalar (M_utf16_decode b) = true.
Proof.
  unfold M_utf16_decode. induction (utf16_decode_words (words_of_bytes b)) as [|r l IH];
    cbn [map forallb]; [reflexivity|]. now rewrite fix_rune_is_scalar, IH.
Qed.

(* lengths: a string of n scalar values takes between 2n and 4n bytes *)
Lemma utf16_units_length c : (1 <= length (M_utf16_units c) <= 2)%nat.
Proof.
  unfold M_utf16_units.
  destruct ((c <? 55296) || ((57344 <=? c) && (c <? 65536))); [cbn; lia|].
  destruct ((65536 <=? c) && (c <=? 1114111)); cbn; lia.
Qed.

Lemma utf16_encode_bytes_ok s : bytes_ok (M_utf16_encode s) = true.
Proof.
  unfold M_utf16_encode. induction s as [|c s IH]; cbn [flat_map]; [reflexivity|].
  unfold bytes_ok in *. rewrite forallb_app, IH, andb_true_r.
  induction (M_utf16_units c) as [|u us IHu]; cbn [flat_map]; [reflexivity|].
  rewrite forallb_app, IHu, andb_true_r. apply be16_bytes_ok.
Qed.

Lemma utf16_encode_nonempty c s : M_utf16_encode (c :: s) <> [].
Proof.
  unfold M_utf16_encode. cbn [flat_map]. pose proof (utf16_units_length c) as H.
  destruct (M_utf16_units c) as [|u us]; [cbn in H; lia|].
  cbn [flat_map]. unfold be16. discriminate.
Qed.

(* ------------------------------------------------------------------ *)
(* the other direction: well-formed UTF-16BE bytes survive Decode, Encode *)

Lemma words_bytes_inverse b :
  bytes_ok b = true -> Nat.even (length b) = true -> flat_map be16 (words_of_bytes b) = b.
Proof.
  revert b. fix IH 1. intros [|x [|y rest]] Hb He.
  - reflexivity.
  - discriminate.
  - cbn [words_of_bytes flat_map]. unfold bytes_ok in Hb. cbn [forallb] in Hb.
    rewrite !andb_true_iff in Hb. destruct Hb as [Hx [Hy Hr]]. unfold byte_ok in *.
    rewrite IH; [|exact Hr|exact He].
    unfold be16. cbn [app]. f_equal; [lia|]. f_equal. lia.
Qed.

Lemma encode_decoded_words n : forall ws,
  (length ws <= n)%nat -> wf_utf16_words ws = true ->
  flat_map (fun r => flat_map be16 (M_utf16_units r)) (map fix_rune (utf16_decode_words ws)) =
  flat_map be16 ws.
Proof.
  induction n as [|n IH]; intros ws Hn Hwf.
  - destruct ws; [reflexivity|cbn in Hn; lia].
  - destruct ws as [|w tl]; [reflexivity|].
    cbn [wf_utf16_words utf16_decode_words] in *. cbn [length] in Hn.
    destruct (is_high w) eqn:Eh.
    + destruct tl as [|l rest]; [discriminate|].
      apply andb_true_iff in Hwf. destruct Hwf as [El Hrest]. rewrite El.
      cbn [map flat_map length] in *.
      rewrite (IH rest) by (try lia; exact Hrest).
      unfold is_high, is_low in *.
      set (c := (w - 55296) * 1024 + (l - 56320) + 65536).
      assert (Hc : is_scalar c = true) by (apply scalar_spec; subst c; lia).
      rewrite fix_rune_scalar by exact Hc.
      unfold M_utf16_units.
      destruct ((c <? 55296) || ((57344 <=? c) && (c <? 65536))) eqn:E1; [subst c; lia|].
      destruct ((65536 <=? c) && (c <=? 1114111)) eqn:E2; [|subst c; lia].
      cbn [flat_map]. rewrite app_nil_r, <- app_assoc. f_equal; [f_equal|f_equal; f_equal]; subst c; lia.
    + destruct (is_low w) eqn:El; [discriminate|].
      apply andb_true_iff in Hwf. destruct Hwf as [Hw Htl].
      cbn [map flat_map]. rewrite (IH tl) by (try lia; exact Htl).
      unfold is_high, is_low in *.
      assert (Hc : is_scalar w = true) by (apply scalar_spec; lia).
      rewrite fix_rune_scalar by exact Hc.
      unfold M_utf16_units.
      destruct ((w <? 55296) || ((57344 <=? w) && (w <? 65536))) eqn:E1; [|lia].
      cbn [flat_map]. now rewrite app_nil_r.
Qed.

Lemma utf16_encode_decode b :
  wf_utf16be b = true -> M_utf16_encode (M_utf16_decode b) = b.
Proof.
  unfold wf_utf16be. rewrite !andb_true_iff. intros [[Hb He] Hw].
  unfold M_utf16_encode, M_utf16_decode.
  rewrite (encode_decoded_words (length (words_of_bytes b))) by (try lia; exact Hw).
  now apply words_bytes_inverse.
Qed.

(* and every encoder output is well-formed *)
Lemma wf_words_units c ws :
  is_scalar c = true -> wf_utf16_words ws = true ->
  wf_utf16_words (map (fun u => u mod 65536) (M_utf16_units c) ++ ws) = true.
Proof.
  intros H Hws. apply scalar_spec in H. unfold M_utf16_units.
  destruct ((c <? 55296) || ((57344 <=? c) && (c <? 65536))) eqn:E1.
  - cbn [map app wf_utf16_words].
    assert (E: c mod 65536 = c) by lia. rewrite E. unfold is_high, is_low.
    destruct ((55296 <=? c) && (c <? 56320)) eqn:E2; [lia|].
    destruct ((56320 <=? c) && (c <? 57344)) eqn:E3; [lia|].
    rewrite Hws. destruct (c <? 65536) eqn:E4; [reflexivity|lia].
  - destruct ((65536 <=? c) && (c <=? 1114111)) eqn:E2; [|lia].
    cbn [map app wf_utf16_words].
    set (w := (55296 + (c - 65536) / 1024 mod 1024) mod 65536).
    set (l := (56320 + (c - 65536) mod 1024) mod 65536).
    assert (Hw : 55296 <= w < 56320) by (subst w; lia).
    assert (Hl : 56320 <= l < 57344) by (subst l; lia).
    unfold is_high, is_low.
    destruct ((55296 <=? w) && (w <? 56320)) eqn:E3; [|lia].
    destruct ((56320 <=? l) && (l <? 57344)) eqn:E4; [|lia].
    exact Hws.
Qed.

Lemma utf16_encode_length_even s : Nat.even (length (M_utf16_encode s)) = true.
Proof.
  unfold M_utf16_encode. induction s as [|c s IH]; cbn [flat_map]; [reflexivity|].
  rewrite app_length.
  assert (H : Nat.even (length (flat_map be16 (M_utf16_units c))) = true).
  { induction (M_utf16_units c) as [|u us IHu]; cbn [flat_map]; [reflexivity|].
    rewrite app_length, be16_length. cbn [plus Nat.even]. exact IHu. }
  rewrite Nat.even_add, H, IH. reflexivity.
Qed.

Lemma utf16_encode_wellformed s :
  forallb is_scalar s = true -> wf_utf16be (M_utf16_encode s) = true.
Proof.
  intros Hs. unfold wf_utf16be.
  rewrite utf16_encode_bytes_ok, utf16_encode_length_even. cbn [andb].
  induction s as [|c s IH]; [reflexivity|].
  cbn [forallb] in Hs. apply andb_true_iff in Hs. destruct Hs as [Hc Hs].
  unfold M_utf16_encode. cbn [flat_map]. fold (M_utf16_encode s).
  rewrite words_of_bytes_units. apply wf_words_units; [exact Hc|now apply IH].
Qed.
