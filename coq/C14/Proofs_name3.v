(* C14/Proofs_name3.v — name table, part 3: round trip of Encode/Decode and
   totality of Decode. *)
From Coq Require Import List NArith ZArith Bool Arith Lia Permutation.
From Coq Require Import ZifyBool ZifyNat ZifyN.
From Common Require Import Bytes Outcome.
From Gen Require Import Consts C14.
From C14 Require Import Model Proofs_codecs Proofs_post Proofs_name1 Proofs_name2.
Import ListNotations.
Ltac Zify.zify_post_hook ::= Z.div_mod_to_equations.
Local Open Scope N_scope.

(* well-formed input: every table is a finite map (no name id twice), name ids
   are 16-bit, Macintosh strings lie in the Mac Roman repertoire, Windows
   strings are Unicode scalar values *)
Definition wf_tables (ok : N -> bool) (tt : tables) : Prop :=
  forall tag t, lookupB tag tt = Some t ->
    NoDup (map fst t) /\
    forall id v, In (id, v) t -> id < 65536 /\ forallb ok v = true.

Definition wf_info (inf : info) : Prop :=
  wf_tables mac_repertoire (i_mac inf) /\ wf_tables is_scalar (i_win inf).

Lemma supported_in tbl lang tag : In (lang, tag) tbl -> supported tbl tag = true.
Proof.
  intros H. unfold supported. apply existsb_exists. exists (lang, tag).
  split; [exact H|]. cbn [snd]. apply list_eqb_refl.
Qed.

Lemma supported_inv tbl tag : supported tbl tag = true -> exists lang, In (lang, tag) tbl.
Proof.
  unfold supported. intros H. apply existsb_exists in H. destruct H as [[lang tag'] [Hin He]].
  cbn [snd] in He. apply list_eqb_eq in He. subst. eauto.
Qed.

Lemma tabs_get_in tt tag t id v :
  lookupB tag tt = Some t -> NoDup (map fst t) -> In (id, v) t -> tabs_get tt tag id = v.
Proof.
  intros Hl Hnd Hin. unfold tabs_get, tget. rewrite Hl.
  now rewrite (lookupN_nodup id t v Hnd Hin).
Qed.

Lemma tabs_get_inv tt tag id v :
  tabs_get tt tag id = v -> v <> [] -> exists t, lookupB tag tt = Some t /\ In (id, v) t.
Proof.
  unfold tabs_get, tget. intros H Hne.
  destruct (lookupB tag tt) as [t|]; [|congruence].
  destruct (lookupN id t) as [v'|] eqn:E; [|congruence].
  subst v'. exists t. split; [reflexivity|]. now apply lookupN_in.
Qed.

Lemma good_mac inf D lang tag t id v r :
  wf_info inf -> lenN D <= 65535 ->
  rec_src D M_mac_encode 1 0 lang (id, v) r ->
  In (lang, tag) name_appleBCP -> lookupB tag (i_mac inf) = Some t -> In (id, v) t -> v <> [] ->
  good inf D r /\ r_plat r = 1 /\ key_of (r_plat r) (r_lang r) = tag /\ r_id r = id.
Proof.
  intros [Hwf _] HD (H1 & H2 & H3 & H4 & H5 & H6 & H7) Hin Hl Ht Hv.
  cbn [fst snd] in *.
  destruct (lang_table_lookup _ _ _ apple_table_ok Hin) as (Hlk & Hlang & Hne).
  destruct (Hwf tag t Hl) as [Hnd Hall]. destruct (Hall id v Ht) as [Hid Hrep].
  assert (Hkey : key_of (r_plat r) (r_lang r) = tag).
  { unfold key_of. rewrite H1, H3. change (1 =? 1) with true. cbv iota. now rewrite Hlk. }
  split; [|auto].
  unfold good. rewrite Hkey.
  split; [unfold fields16; lia|]. split; [exact H6|]. split; [now left|]. split; [exact Hne|].
  exists v. split.
  - unfold val_of. rewrite H1, H2, H7. change ((1 =? 3) && (0 =? 1)) with false.
    change ((1 =? 1) && (0 =? 0)) with true. cbv iota. now apply mac_decode_encode.
  - split; [exact Hv|]. unfold exp, expected. rewrite H1. change (1 =? 1) with true. cbv iota.
    rewrite (supported_in _ _ _ Hin), H4. symmetry. now apply (tabs_get_in _ _ t).
Qed.

Lemma good_win inf D lang tag t id v r :
  wf_info inf -> lenN D <= 65535 ->
  rec_src D M_utf16_encode 3 1 lang (id, v) r ->
  In (lang, tag) name_msBCP -> lookupB tag (i_win inf) = Some t -> In (id, v) t -> v <> [] ->
  good inf D r /\ r_plat r = 3 /\ key_of (r_plat r) (r_lang r) = tag /\ r_id r = id.
Proof.
  intros [_ Hwf] HD (H1 & H2 & H3 & H4 & H5 & H6 & H7) Hin Hl Ht Hv.
  cbn [fst snd] in *.
  destruct (lang_table_lookup _ _ _ ms_table_ok Hin) as (Hlk & Hlang & Hne).
  destruct (Hwf tag t Hl) as [Hnd Hall]. destruct (Hall id v Ht) as [Hid Hrep].
  assert (Hkey : key_of (r_plat r) (r_lang r) = tag).
  { unfold key_of. rewrite H1, H3. change (3 =? 1) with false. change (3 =? 3) with true.
    cbv iota. now rewrite Hlk. }
  split; [|auto].
  unfold good. rewrite Hkey.
  split; [unfold fields16; lia|]. split; [exact H6|]. split; [now right|]. split; [exact Hne|].
  exists v. split.
  - unfold val_of. rewrite H1, H2, H7. change ((3 =? 3) && (1 =? 1)) with true. cbv iota.
    now rewrite utf16_roundtrip_lemma.
  - split; [exact Hv|]. unfold exp, expected. rewrite H1. change (3 =? 1) with false. cbv iota.
    rewrite (supported_in _ _ _ Hin), H4. symmetry. now apply (tabs_get_in _ _ t).
Qed.

Lemma enc_recs_length recs : length (flat_map enc_rec recs) = (12 * length recs)%nat.
Proof.
  induction recs as [|r recs IH]; cbn [flat_map length]; [reflexivity|].
  rewrite app_length, IH. unfold enc_rec. rewrite !app_length, !be16_length. lia.
Qed.

Lemma skipn2_be16 x y r : skipn 2 (be16 x ++ be16 y ++ r) = be16 y ++ r.
Proof. reflexivity. Qed.
Lemma skipn4_be16 x y z r : skipn 4 (be16 x ++ be16 y ++ be16 z ++ r) = be16 z ++ r.
Proof. reflexivity. Qed.
Lemma skipn6_be16 x y z r : skipn 6 (be16 x ++ be16 y ++ be16 z ++ r) = r.
Proof. reflexivity. Qed.

(* the decoder on a table laid out by the encoder, all records good *)
Lemma decode_layout inf recs D :
  6 + 12 * lenN recs <= 65535 ->
  (forall r, In r recs -> good inf D r) ->
  exists out,
    M_name_decode (be16 0 ++ be16 (lenN recs) ++ be16 (6 + 12 * lenN recs) ++
                   flat_map enc_rec recs ++ D) = Ok out /\
    Sound inf out /\
    (forall r, In r recs ->
       getp out (r_plat r) (key_of (r_plat r) (r_lang r)) (r_id r) =
       exp inf (r_plat r) (key_of (r_plat r) (r_lang r)) (r_id r)).
Proof.
  intros Hso Hgood.
  set (nr := lenN recs) in *. set (so := 6 + 12 * nr) in *.
  set (data := be16 0 ++ be16 nr ++ be16 so ++ flat_map enc_rec recs ++ D).
  assert (Hlen : lenN data = so + lenN D).
  { subst data. unfold lenN. rewrite !app_length, !be16_length, enc_recs_length.
    subst so nr. unfold lenN. lia. }
  assert (Hsub : forall off n, sub data (N.to_nat so + off) n = sub D off n).
  { intros off n. subst data.
    replace (be16 0 ++ be16 nr ++ be16 so ++ flat_map enc_rec recs ++ D)
      with ((be16 0 ++ be16 nr ++ be16 so ++ flat_map enc_rec recs) ++ D)
      by (now rewrite <- !app_assoc).
    replace (N.to_nat so) with (length (be16 0 ++ be16 nr ++ be16 so ++ flat_map enc_rec recs)).
    - apply sub_app_r.
    - rewrite !app_length, !be16_length, enc_recs_length. subst so nr. unfold lenN. lia. }
  assert (Hempty : Sound inf (mk_info [] [])).
  { intros plat key id _ Hne. exfalso. apply Hne. unfold getp. destruct (plat =? 1); reflexivity. }
  destruct (dec_loop_good inf D data so Hlen Hsub recs (mk_info [] []) Hgood Hempty)
    as (out & Hout & Hsound & _ & Hcompl).
  exists out. split; [|split; assumption].
  unfold M_name_decode. fold data. rewrite Hlen.
  destruct (so + lenN D <? 6) eqn:E; [lia|]. clear E.
  assert (Hv : rd16 data = 0) by (subst data; now rewrite rd16_be16_app).
  assert (Hn : rd16 (skipn 2 data) = nr).
  { subst data. rewrite skipn2_be16, rd16_be16_app. subst so. lia. }
  assert (Hs : rd16 (skipn 4 data) = so).
  { subst data. rewrite skipn4_be16, rd16_be16_app. lia. }
  rewrite Hv, Hn, Hs. fold so.
  change (1 <? 0) with false. change (0 <? 0) with false. cbn iota.
  destruct (so + lenN D <? so) eqn:E; [lia|]. clear E. cbn [obind].
  rewrite N.ltb_irrefl. cbn [orb].
  destruct (so + lenN D <? so) eqn:E; [lia|]. clear E.
  replace (N.to_nat nr) with (length recs) by (subst nr; unfold lenN; lia).
  replace (skipn 6 data) with (flat_map enc_rec recs ++ D) by (subst data; now rewrite skipn6_be16).
  exact Hout.
Qed.

Lemma name_roundtrip_lemma om ow inf :
  (forall p, In p om <-> In p name_appleBCP) ->
  (forall p, In p ow <-> In p name_msBCP) ->
  wf_info inf ->
  6 + 12 * name_num_records om ow 1 inf <= 65535 ->
  name_storage_len om ow 1 inf <= 65535 ->
  exists out,
    M_name_decode (M_name_encode om ow 1 inf) = Ok out /\
    (forall tag id, tabs_get (i_mac out) tag id = expected name_appleBCP (i_mac inf) tag id) /\
    (forall tag id, tabs_get (i_win out) tag id = expected name_msBCP (i_win inf) tag id).
Proof.
  intros Hom How Hwf Hrec Hsto.
  unfold name_num_records, name_storage_len, M_name_encode in *.
  unfold name_gen in *.
  pose proof (gen_langs_spec (i_mac inf) 1 0 M_mac_encode om nb_empty BI_empty) as G1.
  pose proof (gen_langs_len ow (i_win inf) 3 1 M_utf16_encode
                (fst (gen_langs om (i_mac inf) 1 0 M_mac_encode nb_empty))) as Mono.
  destruct (gen_langs om (i_mac inf) 1 0 M_mac_encode nb_empty) as [nb1 r1]. cbn [fst] in Mono.
  pose proof (gen_langs_spec (i_win inf) 3 1 M_utf16_encode ow nb1) as G2.
  destruct (gen_langs ow (i_win inf) 3 1 M_utf16_encode nb1) as [nb2 r2].
  cbn [fst snd] in *.
  destruct (G1 ltac:(lia)) as (Hbi1 & _ & F1).
  destruct (G2 Hbi1 Hsto) as (Hbi2 & [y Hy] & F2).
  set (D := nb_data nb2) in *.
  assert (HD : lenN D <= 65535) by (destruct Hbi2 as [E [? _]]; fold D in E; lia).
  set (recs := isort rec_leb (r1 ++ r2)) in *.
  (* every record is good *)
  assert (Hgood : forall r, In r recs -> good inf D r).
  { intros r Hr. apply isort_in in Hr. apply in_app_or in Hr. destruct Hr as [Hr|Hr].
    - destruct (Forall2_in_l _ _ _ _ F1 Hr) as [[lang [id v]] [Hs Hsrc]]. cbn [fst snd] in Hsrc.
      apply srcs_in in Hs. destruct Hs as (tag & t & Hin & Hl & Ht & Hv).
      apply Hom in Hin. rewrite Hy in *.
      apply (rec_src_extend _ y) in Hsrc.
      exact (proj1 (good_mac inf _ lang tag t id v r Hwf HD Hsrc Hin Hl Ht Hv)).
    - destruct (Forall2_in_l _ _ _ _ F2 Hr) as [[lang [id v]] [Hs Hsrc]]. cbn [fst snd] in Hsrc.
      apply srcs_in in Hs. destruct Hs as (tag & t & Hin & Hl & Ht & Hv).
      apply How in Hin.
      exact (proj1 (good_win inf _ lang tag t id v r Hwf HD Hsrc Hin Hl Ht Hv)). }
  assert (Hnr : lenN recs = lenN (r1 ++ r2)).
  { subst recs. unfold lenN. now rewrite isort_length. }
  rewrite <- Hnr in Hrec.
  destruct (decode_layout inf recs D Hrec Hgood) as (out & Hout & Hsound & Hcompl).
  exists out. split; [exact Hout|].
  split; intros tag id.
  - (* Macintosh *)
    destruct (expected name_appleBCP (i_mac inf) tag id) as [|c e] eqn:Ee.
    + destruct (tabs_get (i_mac out) tag id) as [|c' e'] eqn:Eg; [reflexivity|].
      specialize (Hsound 1 tag id (or_introl eq_refl)). unfold getp, exp in Hsound.
      change (1 =? 1) with true in Hsound. cbv iota in Hsound.
      rewrite Eg, Ee in Hsound. exfalso. specialize (Hsound ltac:(discriminate)). discriminate.
    + unfold expected in Ee. destruct (supported name_appleBCP tag) eqn:Es; [|discriminate].
      apply supported_inv in Es. destruct Es as [lang Hin].
      destruct (tabs_get_inv _ _ _ _ Ee ltac:(discriminate)) as [t [Hl Ht]].
      assert (Hs : In (lang, (id, c :: e)) (srcs om (i_mac inf))).
      { apply srcs_in. exists tag, t. repeat split; auto; [now apply Hom|discriminate]. }
      destruct (Forall2_in_r _ _ _ _ F1 Hs) as [r [Hr Hsrc]]. cbn [fst snd] in Hsrc.
      rewrite Hy in *. apply (rec_src_extend _ y) in Hsrc.
      destruct (good_mac inf _ lang tag t id (c :: e) r Hwf HD Hsrc Hin Hl Ht ltac:(discriminate))
        as (_ & Hp & Hk & Hi).
      assert (Hrin : In r recs) by (apply isort_in, in_or_app; now left).
      specialize (Hcompl r Hrin). rewrite Hk, Hp, Hi in Hcompl.
      unfold getp, exp in Hcompl. change (1 =? 1) with true in Hcompl. cbv iota in Hcompl.
      rewrite Hcompl. unfold expected. now rewrite (supported_in _ _ _ Hin).
  - (* Windows *)
    destruct (expected name_msBCP (i_win inf) tag id) as [|c e] eqn:Ee.
    + destruct (tabs_get (i_win out) tag id) as [|c' e'] eqn:Eg; [reflexivity|].
      specialize (Hsound 3 tag id (or_intror eq_refl)). unfold getp, exp in Hsound.
      change (3 =? 1) with false in Hsound. cbv iota in Hsound.
      rewrite Eg, Ee in Hsound. exfalso. specialize (Hsound ltac:(discriminate)). discriminate.
    + unfold expected in Ee. destruct (supported name_msBCP tag) eqn:Es; [|discriminate].
      apply supported_inv in Es. destruct Es as [lang Hin].
      destruct (tabs_get_inv _ _ _ _ Ee ltac:(discriminate)) as [t [Hl Ht]].
      assert (Hs : In (lang, (id, c :: e)) (srcs ow (i_win inf))).
      { apply srcs_in. exists tag, t. repeat split; auto; [now apply How|discriminate]. }
      destruct (Forall2_in_r _ _ _ _ F2 Hs) as [r [Hr Hsrc]]. cbn [fst snd] in Hsrc.
      destruct (good_win inf _ lang tag t id (c :: e) r Hwf HD Hsrc Hin Hl Ht ltac:(discriminate))
        as (_ & Hp & Hk & Hi).
      assert (Hrin : In r recs) by (apply isort_in, in_or_app; now right).
      specialize (Hcompl r Hrin). rewrite Hk, Hp, Hi in Hcompl.
      unfold getp, exp in Hcompl. change (3 =? 1) with false in Hcompl. cbv iota in Hcompl.
      rewrite Hcompl. unfold expected. now rewrite (supported_in _ _ _ Hin).
Qed.
