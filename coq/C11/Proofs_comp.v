(* C11/Proofs_comp.v — Components / FixComponents. *)
From Coq Require Import List NArith ZArith Bool Arith Lia.
From Common Require Import Bytes Outcome.
From C11 Require Import Model.
Import ListNotations.
Local Open Scope N_scope.

Lemma components_fix_lemma f g :
  components (fix_components f g) = map f (components g).
Proof.
  destruct g as [[b [nc e|cs ins]]|]; cbn [fix_components components g_data]; try reflexivity.
  rewrite !map_map. reflexivity.
Qed.

Lemma fix_forget f g : forget_gids (fix_components f g) = forget_gids g.
Proof.
  unfold forget_gids.
  destruct g as [[b [nc e|cs ins]]|]; cbn [fix_components g_data g_box]; try reflexivity.
  rewrite map_map. reflexivity.
Qed.

Lemma fix_not_composite f g : is_composite g = false -> fix_components f g = g.
Proof.
  destruct g as [[b [nc e|cs ins]]|]; cbn [is_composite fix_components]; try reflexivity. discriminate.
Qed.

Lemma fix_id g : fix_components (fun x => x) g = g.
Proof.
  destruct g as [[b [nc e|cs ins]]|]; cbn [fix_components]; try reflexivity.
  do 3 f_equal. rewrite <- (map_id cs) at 2. apply map_ext. intros [? ? ?]; reflexivity.
Qed.

(* a glyph is determined by its component indices and everything else *)
Lemma glyph_determined g1 g2 :
  forget_gids g1 = forget_gids g2 -> components g1 = components g2 -> g1 = g2.
Proof.
  unfold forget_gids.
  destruct g1 as [[b1 [nc1 e1|cs1 ins1]]|], g2 as [[b2 [nc2 e2|cs2 ins2]]|];
    cbn [fix_components components g_data]; intros H1 H2; try congruence.
  injection H1 as -> Hcs ->. do 3 f_equal.
  revert cs2 Hcs H2. induction cs1 as [|[f1 i1 d1] cs1 IH]; intros [|[f2 i2 d2] cs2] Hcs H2;
    cbn [map c_flags c_gid c_data] in *; try congruence.
  injection Hcs as -> -> Hcs. injection H2 as -> H2. f_equal. apply IH; assumption.
Qed.
