(* C11/Proofs_size.v — Decode's result is never larger than its input
   (allocation linear in |glyf| + |loca|). *)
From Coq Require Import List NArith ZArith Bool Arith Lia.
From Coq Require Import ZifyBool ZifyNat ZifyN.
From Common Require Import Bytes Outcome.
From Gen Require Import C11.
From C11 Require Import Model Util Proofs_loca Proofs_pad Proofs_glyf Proofs_nf.
Import ListNotations.
Ltac Zify.zify_post_hook ::= Z.div_mod_to_equations.
Local Open Scope N_scope.

Lemma dec_comps_size fuel : forall data cs wh rest,
  dec_comps fuel data = Ok (cs, wh, rest) ->
  len (flat_map enc_component cs) + len rest = len data.
Proof.
  induction fuel as [|fuel IH]; intros data cs wh rest H; [discriminate|].
  cbn [dec_comps] in H.
  destruct (len data <? 4) eqn:E4; [discriminate|].
  remember (comp_skip (rd16 data)) as skip eqn:Hskip.
  remember (skipn 4 data) as d4 eqn:Hd4.
  assert (Hl4 : len d4 = len data - 4) by (subst d4; rewrite len_skipn; lia).
  destruct (len d4 <? skip) eqn:Es; [discriminate|].
  assert (Hc : forall f g, len (enc_component {| c_flags := f; c_gid := g;
                 c_data := firstn (N.to_nat skip) d4 |}) = 4 + skip).
  { intros f g. rewrite len_enc_component. cbn [c_data]. rewrite len_firstn by lia. lia. }
  assert (Hr : len (skipn (N.to_nat skip) d4) = len data - 4 - skip)
    by (rewrite len_skipn; lia).
  destruct (has (rd16 data) glyf_FlagMoreComponents).
  - destruct (dec_comps fuel (skipn (N.to_nat skip) d4)) as [[[cs' wh'] rest']| | |] eqn:Ed;
      cbn [obind] in H; try discriminate.
    injection H as <- <- <-. specialize (IH _ _ _ _ Ed).
    cbn [flat_map]. rewrite len_app, Hc. lia.
  - injection H as <- <- <-. cbn [flat_map]. rewrite len_app, Hc, len_nil. lia.
Qed.

Lemma decode_glyph_size data g : M_decode_glyph data = Ok g -> gsize g <= len data.
Proof.
  intros H. unfold M_decode_glyph in H.
  destruct (len data =? 0); [injection H as <-; cbn [gsize]; lia|].
  destruct (len data <? glyf_headerLen) eqn:E10; [discriminate|]. change glyf_headerLen with 10 in E10.
  match type of H with (obind ?x _ = _) => destruct x as [d| | |] eqn:Ed end; cbn [obind] in H; try discriminate.
  injection H as <-. cbn [gsize g_data]. rewrite len_app, len_enc_header.
  assert (Hs : len (skipn 10 data) = len data - 10) by (rewrite len_skipn; lia).
  destruct (0 <=? i16_at data 0)%Z.
  - destruct (M_remove_padding (i16_at data 0) (skipn 10 data)) as [e| | |] eqn:Er; cbn [obind] in Ed; try discriminate.
    injection Ed as <-. cbn [enc_body].
    destruct (remove_padding_result _ _ _ Er) as (p & Hp & _).
    rewrite Hp, len_app in Hs. lia.
  - unfold M_decode_composite in Ed.
    destruct (dec_comps (S (length (skipn 10 data))) (skipn 10 data)) as [[[cs wh] rest]| | |] eqn:Ec;
      cbn [obind] in Ed; try discriminate.
    pose proof (dec_comps_size _ _ _ _ _ Ec) as Hsz.
    remember (skipn 2 rest) as d2 eqn:Hd2.
    assert (Hd : len d2 = len rest - 2) by (subst d2; rewrite len_skipn; lia).
    injection Ed as <-. cbn [enc_body]. rewrite len_app, len_enc_ins.
    destruct (wh && (2 <=? len rest)) eqn:Ew.
    + apply andb_true_iff in Ew as [_ H2].
      destruct (rd16 rest <? len d2) eqn:EL.
      * rewrite len_firstn by lia. lia.
      * lia.
    + lia.
Qed.

Lemma slice_n_len {A} (data : list A) dlen lo hi d : slice_n data dlen lo hi = Ok d -> len d <= hi - lo.
Proof.
  unfold slice_n. destruct ((lo <=? hi) && (hi <=? dlen)); [|discriminate].
  intros H. injection H as <-. unfold len. rewrite firstn_length. lia.
Qed.

Lemma dec_glyphs_size glyf glen offs : forall prev gg,
  mono_from prev offs -> dec_glyphs glyf glen offs = Ok gg ->
  total_gsize gg + hd prev offs <= last offs prev /\ (length gg = length offs - 1)%nat.
Proof.
  induction offs as [|a r IH]; intros prev gg Hm H; cbn [dec_glyphs] in H.
  - injection H as <-. cbn. lia.
  - destruct r as [|b t]; [injection H as <-; cbn; lia|].
    destruct (slice_n glyf glen a b) as [d| | |] eqn:Es; cbn [obind] in H; try discriminate.
    destruct (M_decode_glyph d) as [g| | |] eqn:Eg; cbn [obind] in H; try discriminate.
    destruct (dec_glyphs glyf glen (b :: t)) as [gs| | |] eqn:Er; cbn [obind] in H; try discriminate.
    injection H as <-. destruct Hm as [Hpa Hm'].
    destruct (IH a gs Hm' eq_refl) as [IH1 IH2].
    pose proof (decode_glyph_size d g Eg) as Hg. pose proof (slice_n_len _ _ _ _ _ Es) as Hd.
    pose proof Hm' as [Hab _].
    change (last (a :: b :: t) prev) with (last (b :: t) prev).
    rewrite (last_indep t b prev a). cbn [hd] in *. cbn [total_gsize fold_right length] in *.
    fold (total_gsize gs). split; lia.
Qed.

Lemma all_le_last b offs : forall d, all_le b offs -> d <= b -> last offs d <= b.
Proof.
  induction offs as [|o r IH]; intros d H Hd; cbn [last]; [exact Hd|].
  inversion H as [|? ? Ho Hr]; subst. destruct r as [|o' r']; [exact Ho|]. apply IH; assumption.
Qed.

Lemma components_le_gsize g : 4 * ncomponents g <= gsize g.
Proof.
  unfold ncomponents, gsize. destruct g as [[bx [nc e|cs ins]]|]; cbn [components g_data enc_body];
    try (change (len (@nil N)) with 0; lia).
  rewrite len_map, !len_app.
  assert (H : 4 * len cs <= len (flat_map enc_component cs)).
  { induction cs as [|c cs IH]; cbn [flat_map]; [unfold len; cbn [length]; lia|].
    rewrite len_cons, len_app, len_enc_component. lia. }
  lia.
Qed.

Lemma decode_size e gg : M_decode e = Ok gg ->
  total_gsize gg <= len (e_glyf e) /\
  (2 * (length gg + 1) <= length (e_loca e))%nat.
Proof.
  intros H. unfold M_decode in H.
  destruct (M_decode_loca (e_fmt e) (e_loca e) (len (e_glyf e))) as [offs| | |] eqn:El; cbn [obind] in H; try discriminate.
  destruct (decode_loca_sound _ _ _ _ El) as [Hm Hl].
  destruct (dec_glyphs_size _ _ _ 0 _ Hm H) as [H1 H2].
  split.
  - pose proof (all_le_last _ offs 0 Hl ltac:(lia)). lia.
  - unfold M_decode_loca in El.
    destruct (e_fmt e =? 0)%Z.
    + destruct ((len (e_loca e) <? 4) || negb (len (e_loca e) mod 2 =? 0)) eqn:Ec; [discriminate|].
      apply dec_loca0_length in El. unfold len in Ec. lia.
    + destruct (e_fmt e =? 1)%Z; [|discriminate].
      destruct ((len (e_loca e) <? 8) || negb (len (e_loca e) mod 4 =? 0)) eqn:Ec; [discriminate|].
      apply dec_loca1_length in El. unfold len in Ec. lia.
Qed.
