(* C11/Proofs_total.v — the decoders never panic and never run out of fuel. *)
From Coq Require Import List NArith ZArith Bool Arith Lia.
From Coq Require Import ZifyBool ZifyNat ZifyN.
From Common Require Import Bytes Outcome.
From Gen Require Import C11.
From C11 Require Import Model Util Proofs_loca.
Import ListNotations.
Ltac Zify.zify_post_hook ::= Z.div_mod_to_equations.
Local Open Scope N_scope.

Definition safe {A} (x : outcome A) : Prop := x <> Panic /\ x <> OutOfFuel.

Lemma safe_ok {A} (a : A) : safe (Ok a).
Proof. split; discriminate. Qed.
Lemma safe_err {A} : safe (@Err A).
Proof. split; discriminate. Qed.

Lemma safe_bind {A B} (x : outcome A) (f : A -> outcome B) :
  safe x -> (forall a, x = Ok a -> safe (f a)) -> safe (obind x f).
Proof.
  intros [H1 H2] Hf. destruct x; cbn [obind]; try congruence.
  - apply Hf; reflexivity.
  - apply safe_err.
Qed.

Lemma get_safe buf i : i < len buf -> safe (get buf i).
Proof.
  unfold get, len. intros H.
  destruct (nth_error buf (N.to_nat i)) eqn:E; [apply safe_ok|].
  apply nth_error_None in E. lia.
Qed.

Lemma slice_n_safe {A} (data : list A) dlen lo hi : lo <= hi -> hi <= dlen -> safe (slice_n data dlen lo hi).
Proof.
  intros H1 H2. unfold slice_n.
  assert (E : (lo <=? hi) && (hi <=? dlen) = true) by lia. rewrite E. apply safe_ok.
Qed.

(* ---- SimpleGlyph.Decode ---- *)

Lemma read_u16s_safe n : forall buf, 2 * N.of_nat n <= len buf ->
  safe (read_u16s n buf) /\ forall r, read_u16s n buf = Ok r -> length r = n.
Proof.
  induction n as [|n IH]; intros buf H; cbn [read_u16s].
  - split; [apply safe_ok|]. intros r E. inversion E. reflexivity.
  - assert (H0 : safe (get buf 0)) by (apply get_safe; lia).
    assert (H1 : safe (get buf 1)) by (apply get_safe; lia).
    destruct (IH (skipn 2 buf)) as [IH1 IH2]; [rewrite len_skipn; lia|].
    split.
    + apply safe_bind; [exact H0|]. intros a _. apply safe_bind; [exact H1|]. intros b _.
      apply safe_bind; [exact IH1|]. intros r _. apply safe_ok.
    + intros r E.
      destruct (get buf 0); cbn [obind] in E; try discriminate.
      destruct (get buf 1); cbn [obind] in E; try discriminate.
      destruct (read_u16s n (skipn 2 buf)) as [r'| | |] eqn:E'; cbn [obind] in E; try discriminate.
      inversion E. cbn [length]. f_equal. apply IH2. reflexivity.
Qed.

Lemma dec_flags_safe l : forall i np, safe (dec_flags l i np).
Proof.
  induction l as [l IH] using list_len_ind. intros i np.
  destruct l as [|f l1]; cbn [dec_flags].
  - destruct (np <=? i); [apply safe_ok|apply safe_err].
  - destruct (np <=? i); [apply safe_ok|].
    destruct (has f glyf_flagRepeat).
    + destruct l1 as [|c l2]; [apply safe_err|].
      apply safe_bind; [apply IH; cbn; lia|]. intros; apply safe_ok.
    + apply safe_bind; [apply IH; cbn; lia|]. intros; apply safe_ok.
Qed.

Lemma dec_coords_safe short same ff : forall l x, safe (dec_coords short same ff l x).
Proof.
  induction ff as [|f ff IH]; intros l x; cbn [dec_coords]; [apply safe_ok|].
  destruct (has f short).
  - destruct l as [|d l']; [apply safe_err|].
    apply safe_bind; [apply IH|]. intros; apply safe_ok.
  - destruct (negb (has f same)).
    + destruct l as [|a [|b l']]; try apply safe_err.
      apply safe_bind; [apply IH|]. intros; apply safe_ok.
    + apply safe_bind; [apply IH|]. intros; apply safe_ok.
Qed.

Lemma mk_contours_safe endPts : forall start np pts, safe (mk_contours endPts start np pts).
Proof.
  induction endPts as [|e r IH]; intros start np pts; cbn [mk_contours]; [apply safe_ok|].
  destruct ((e + 1 <? start) || (np <? e + 1)) eqn:E; [apply safe_err|].
  apply safe_bind; [apply slice_n_safe; lia|]. intros pp _.
  apply safe_bind; [apply IH|]. intros; apply safe_ok.
Qed.

Lemma simple_decode_safe nc buf : safe (M_simple_decode nc buf).
Proof.
  unfold M_simple_decode.
  destruct ((nc <? 0)%Z || (len buf <? 2 * Z.to_N nc + 2)) eqn:E; [apply safe_err|].
  set (n := Z.to_N nc) in *.
  assert (Hlen : 2 * n + 2 <= len buf) by lia.
  destruct (read_u16s_safe (N.to_nat n) buf) as [Hs Hl]; [lia|].
  apply safe_bind; [exact Hs|]. intros endPts Eend. specialize (Hl _ Eend).
  set (buf1 := skipn (N.to_nat (2 * n)) buf).
  assert (Hlen1 : 2 <= len buf1) by (unfold buf1; rewrite len_skipn; lia).
  apply safe_bind.
  { destruct (0 <? n) eqn:En; [|apply safe_ok].
    destruct (nth_error endPts (N.to_nat (n - 1))) eqn:En2; [apply safe_ok|].
    apply nth_error_None in En2. lia. }
  intros np _.
  apply safe_bind; [apply get_safe; lia|]. intros a _.
  apply safe_bind; [apply get_safe; lia|]. intros b _.
  destruct (len buf1 <? 2 + (a * 256 + b)) eqn:Eil; [apply safe_err|].
  apply safe_bind; [unfold slice; apply slice_n_safe; lia|]. intros ins _.
  apply safe_bind; [apply dec_flags_safe|]. intros r _.
  destruct (negb (len (fst r) =? np)); [apply safe_err|].
  apply safe_bind; [apply dec_coords_safe|]. intros rx _.
  apply safe_bind; [apply dec_coords_safe|]. intros ry _.
  apply safe_bind; [apply mk_contours_safe|]. intros; apply safe_ok.
Qed.

(* ---- removePadding, decodeGlyphComposite, decodeGlyph ---- *)

Lemma walk_safe nc buf : (0 <= nc)%Z -> safe (walk nc buf) /\ forall p, walk nc buf = Ok p -> p <= len buf.
Proof.
  intros Hnc. unfold walk.
  assert (E0 : (nc <? 0)%Z = false) by lia. rewrite E0.
  set (n := Z.to_N nc).
  destruct (len buf <? 2 * n + 2) eqn:E; [split; [apply safe_err|discriminate]|].
  assert (Hnp : safe (num_points n buf)).
  { unfold num_points. destruct (0 <? n) eqn:En; [|apply safe_ok].
    apply safe_bind; [apply get_safe; lia|]. intros a _.
    apply safe_bind; [apply get_safe; lia|]. intros b _. apply safe_ok. }
  destruct (num_points n buf)
    as [np| | |]; cbn [obind]; try (destruct Hnp; congruence); [|split; [apply safe_err|discriminate]].
  assert (Ha : safe (get buf (2 * n))) by (apply get_safe; lia).
  destruct (get buf (2 * n)) as [a| | |]; cbn [obind]; try (destruct Ha; congruence); [|split; [apply safe_err|discriminate]].
  assert (Hb : safe (get buf (2 * n + 1))) by (apply get_safe; lia).
  destruct (get buf (2 * n + 1)) as [b| | |]; cbn [obind]; try (destruct Hb; congruence); [|split; [apply safe_err|discriminate]].
  destruct (flag_walk _ 0 np 0 0) as [[[i cb] used]|]; [|split; [apply safe_err|discriminate]].
  destruct (negb (i =? np) || (len buf <? 2 * n + 2 + (a * 256 + b) + used + cb)) eqn:E2;
    [split; [apply safe_err|discriminate]|].
  split; [apply safe_ok|]. intros p Hp. assert (p = 2 * n + 2 + (a * 256 + b) + used + cb) as -> by congruence. lia.
Qed.

Lemma remove_padding_safe nc buf : (0 <= nc)%Z -> safe (M_remove_padding nc buf).
Proof.
  intros Hnc. unfold M_remove_padding.
  destruct (walk_safe nc buf Hnc) as [Hs Hp].
  apply safe_bind; [exact Hs|]. intros p E. unfold slice. apply slice_n_safe; [lia|]. apply Hp, E.
Qed.

Lemma dec_comps_safe fuel : forall data, (length data < fuel)%nat -> safe (dec_comps fuel data).
Proof.
  induction fuel as [|fuel IH]; intros data Hf; [lia|].
  cbn [dec_comps].
  destruct (len data <? 4) eqn:E4; [apply safe_err|].
  set (skip := comp_skip (rd16 data)).
  destruct (len (skipn 4 data) <? skip) eqn:Es; [apply safe_err|].
  destruct (has (rd16 data) glyf_FlagMoreComponents); [|apply safe_ok].
  apply safe_bind.
  - apply IH. rewrite !skipn_length. unfold len in E4. lia.
  - intros [[cs wh] rest] _. apply safe_ok.
Qed.

Lemma decode_composite_safe data : safe (M_decode_composite data).
Proof.
  unfold M_decode_composite. apply safe_bind; [apply dec_comps_safe; lia|].
  intros [[cs wh] rest] _. apply safe_ok.
Qed.

Lemma decode_glyph_safe data : safe (M_decode_glyph data).
Proof.
  unfold M_decode_glyph.
  destruct (len data =? 0); [apply safe_ok|].
  destruct (len data <? glyf_headerLen); [apply safe_err|].
  apply safe_bind; [|intros; apply safe_ok].
  destruct (0 <=? i16_at data 0)%Z eqn:E.
  - apply safe_bind; [apply remove_padding_safe; lia|]. intros; apply safe_ok.
  - apply decode_composite_safe.
Qed.

(* ---- glyf.Decode ---- *)

Lemma dec_glyphs_safe glyf glen offs : forall prev,
  mono_from prev offs -> all_le glen offs -> safe (dec_glyphs glyf glen offs).
Proof.
  induction offs as [|a r IH]; intros prev Hm Hl; cbn [dec_glyphs]; [apply safe_ok|].
  destruct r as [|b t]; [apply safe_ok|].
  destruct Hm as [Hm1 Hm2]. inversion Hl as [|? ? Hl1 Hl2]; subst.
  pose proof Hm2 as Hm2'. destruct Hm2' as [Hab _]. inversion Hl2 as [|? ? Hb _]; subst.
  apply safe_bind; [apply slice_n_safe; assumption|]. intros d _.
  apply safe_bind; [apply decode_glyph_safe|]. intros g _.
  apply safe_bind; [exact (IH a Hm2 Hl2)|]. intros; apply safe_ok.
Qed.

Lemma decode_safe e : safe (M_decode e).
Proof.
  unfold M_decode.
  apply safe_bind; [apply decode_loca_no_panic|].
  intros offs E. apply decode_loca_sound in E as [Hm Hl].
  exact (dec_glyphs_safe _ _ _ 0 Hm Hl).
Qed.
