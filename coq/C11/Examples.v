(* C11/Examples.v — non-vacuity: concrete values meeting every hypothesis of
   the theorems in Props.v, and witnesses showing the hypotheses are needed. *)
From Coq Require Import List NArith ZArith Bool Arith.
From Common Require Import Bytes Outcome.
From Gen Require Import C11.
From C11 Require Import Model Spec.
Import ListNotations.
Local Open Scope N_scope.

(* ---- loca ---- *)

Example ex_loca_short :
  M_encode_loca [0; 12; 12; 65534] = Ok ([0;0; 0;6; 0;6; 127;255], 0%Z) /\
  M_decode_loca 0 [0;0; 0;6; 0;6; 127;255] 65534 = Ok [0; 12; 12; 65534].
Proof. vm_compute. split; reflexivity. Qed.

Example ex_loca_long :
  M_encode_loca [0; 12; 65536] = Ok ([0;0;0;0; 0;0;0;12; 0;1;0;0], 1%Z) /\
  M_decode_loca 1 [0;0;0;0; 0;0;0;12; 0;1;0;0] 65536 = Ok [0; 12; 65536].
Proof. vm_compute. split; reflexivity. Qed.

(* the hypotheses of loca_roundtrip_offsets are needed: odd offsets are lost
   in the short format, offsets of 2^32 and more in the long one *)
Example ex_loca_odd_refuted :
  exists loca, M_encode_loca [0; 3] = Ok (loca, 0%Z) /\ M_decode_loca 0 loca 3 = Ok [0; 2].
Proof. eexists. vm_compute. split; reflexivity. Qed.

Example ex_loca_wrap_refuted :
  exists loca, M_encode_loca [0; 4294967298] = Ok (loca, 1%Z) /\ M_decode_loca 1 loca 4294967298 = Ok [0; 2].
Proof. eexists. vm_compute. split; reflexivity. Qed.

(* ---- a simple glyph admitted by the specification ---- *)

(* one contour, four points: short positive x / long y; two points equal to
   the first, encoded by one flag byte with REPEAT and count 1; short negative
   x / long negative y, off curve *)
Definition ex_cs : list contour :=
  [[ {| px := 5; py := 300; on := true |}; {| px := 5; py := 300; on := true |};
     {| px := 5; py := 300; on := true |}; {| px := (-3); py := 40; on := false |} ]].
Definition ex_ins : bytes := [7; 8].
Definition ex_b : bytes :=
  [0;3;  0;2; 7;8;  19; 57;1; 2;  5; 8;  1;44; 254;252].

Example ex_encodes : EncodesI ex_cs ex_ins ex_b.
Proof.
  change ex_b with (flat_map be16 (end_pts 0 ex_cs) ++ be16 (len ex_ins) ++ ex_ins ++
                    [19; 57;1; 2] ++ [5; 8] ++ [1;44; 254;252]).
  apply (Enc_simple ex_cs ex_ins [19; 57; 57; 2]).
  - reflexivity.
  - repeat constructor; discriminate.
  - apply N.leb_le. reflexivity.
  - reflexivity.
  - repeat constructor.
  - apply FE_one; [reflexivity|reflexivity|].
    change [57; 57; 2] with (repeat 57 (S (N.to_nat 1)) ++ [2]).
    apply FE_rep; [reflexivity|reflexivity|reflexivity|].
    apply FE_one; [reflexivity|reflexivity|]. apply FE_nil.
  - reflexivity.
  - apply (CE_short_pos 1 4 19 _ 0%Z 5 _ _); [reflexivity|reflexivity|reflexivity|].
    apply (CE_same 1 4 57); [reflexivity|reflexivity|].
    apply (CE_same 1 4 57); [reflexivity|reflexivity|].
    apply (CE_short_neg 1 4 2 _ 5%Z 8 _ _); [reflexivity|reflexivity|reflexivity|].
    apply CE_nil.
  - apply (CE_long 2 5 19 [57; 57; 2] 0%Z 300%Z [300; 300; 40]%Z [254; 252]);
      [reflexivity|reflexivity|split; [discriminate|reflexivity]|].
    apply (CE_same 2 5 57); [reflexivity|reflexivity|].
    apply (CE_same 2 5 57); [reflexivity|reflexivity|].
    apply (CE_long 2 5 2 [] 300%Z (-260)%Z [] []);
      [reflexivity|reflexivity|split; [discriminate|reflexivity]|].
    apply CE_nil.
Qed.

(* the model of SimpleGlyph.Decode returns these contours (also by evaluation) *)
Example ex_simple_decode : M_simple_decode 1 ex_b = Ok (ex_cs, ex_ins).
Proof. vm_compute. reflexivity. Qed.

(* zero-contour glyph: no points, instructions kept (DESIGN 5.A-1 witness) *)
Example ex_simple_decode_zero : M_simple_decode 0 [0;2; 1;2] = Ok ([], [1; 2]).
Proof. vm_compute. reflexivity. Qed.

(* end points not increasing: rejected, no panic (DESIGN 5.A-2 witnesses) *)
Example ex_simple_decode_nonmono :
  M_simple_decode 2 [0;1; 0;0; 0;0; 49; 0] = Err /\
  M_simple_decode 2 [0;5; 0;0; 0;0; 49; 0] = Err /\
  M_simple_decode 3 [0;1; 0;0; 0;1; 0;0; 49; 49] = Err.
Proof. vm_compute. repeat split; reflexivity. Qed.

(* ---- glyph lists in normal form ---- *)

Definition ex_box : bbox := {| llx := (-3); lly := 40; urx := 5; ury := 300 |}.

Definition ex_simple : option glyph :=
  Some {| g_box := ex_box; g_data := Simple 1 ex_b |}.
Definition ex_zero : option glyph :=
  Some {| g_box := {| llx := 0; lly := 0; urx := 0; ury := 0 |}; g_data := Simple 0 [0;3; 9;9;9] |}.
(* two components: words + two-by-two (12 argument bytes), then bytes + scale
   with WE_HAVE_INSTRUCTIONS; three instruction bytes (odd: one byte of padding) *)
Definition ex_comp : option glyph :=
  Some {| g_box := {| llx := (-32768); lly := 32767; urx := 0; ury := (-1) |};
          g_data := Composite
            [ {| c_flags := 0x00A1; c_gid := 65535; c_data := [1;2;3;4; 5;6;7;8;9;10;11;12] |};
              {| c_flags := 0x0108; c_gid := 7; c_data := [1;2; 64;0] |} ]
            (Some [176; 1; 2]) |}.
(* WE_HAVE_INSTRUCTIONS set but no instructions (nil) *)
Definition ex_comp_noins : option glyph :=
  Some {| g_box := ex_box;
          g_data := Composite [ {| c_flags := 0x0100; c_gid := 3; c_data := [0; 0] |} ] None |}.
(* instructions present but empty (non-nil, length 0) *)
Definition ex_comp_emptyins : option glyph :=
  Some {| g_box := ex_box;
          g_data := Composite [ {| c_flags := 0x0140; c_gid := 3; c_data := [0;0; 1;1;2;2] |} ] (Some []) |}.

Definition ex_gg : glyphs := [None; ex_simple; ex_comp; None; ex_zero; ex_comp_noins; ex_comp_emptyins; None].

Example ex_nf : forallb nf_glyph ex_gg = true.
Proof. vm_compute. reflexivity. Qed.

Example ex_nf_each_kind :
  nf_glyph None = true /\ nf_glyph ex_simple = true /\ nf_glyph ex_zero = true /\
  nf_glyph ex_comp = true /\ nf_glyph ex_comp_noins = true /\ nf_glyph ex_comp_emptyins = true.
Proof. vm_compute. repeat split; reflexivity. Qed.

Example ex_roundtrip :
  match M_encode ex_gg with
  | Ok e => M_decode e = Ok ex_gg /\ e_fmt e = 0%Z /\ len (e_glyf e) = 120
  | _ => False
  end.
Proof. vm_compute. repeat split; reflexivity. Qed.

Example ex_tight_and_padded :
  walk 1 ex_b = Ok (len ex_b) /\ M_remove_padding 1 (ex_b ++ [0; 0; 0]) = Ok ex_b /\
  M_remove_padding 1 (ex_b ++ [255; 1]) = Ok ex_b.
Proof. vm_compute. repeat split; reflexivity. Qed.

(* ---- the hypotheses of glyf_roundtrip are needed ---- *)

(* the empty list does not come back: its one-entry loca table is rejected *)
Example ex_empty_refuted :
  match M_encode [] with Ok e => M_decode e = Err | _ => False end.
Proof. vm_compute. reflexivity. Qed.

(* instructions without WE_HAVE_INSTRUCTIONS are dropped *)
Definition ex_bad_ins : option glyph :=
  Some {| g_box := ex_box;
          g_data := Composite [ {| c_flags := 0; c_gid := 3; c_data := [0; 0] |} ] (Some [1; 2]) |}.
Example ex_bad_ins_refuted :
  nf_glyph ex_bad_ins = false /\
  match M_encode [ex_bad_ins] with
  | Ok e => exists g, M_decode e = Ok [g] /\ g <> ex_bad_ins
  | _ => False
  end.
Proof. split; [vm_compute; reflexivity|]. vm_compute. eexists. split; [reflexivity|discriminate]. Qed.

(* trailing bytes inside Encoded are stripped *)
Definition ex_untight : option glyph :=
  Some {| g_box := ex_box; g_data := Simple 1 (ex_b ++ [0]) |}.
Example ex_untight_refuted :
  nf_glyph ex_untight = false /\
  match M_encode [ex_untight] with
  | Ok e => M_decode e = Ok [ex_simple]
  | _ => False
  end.
Proof. split; vm_compute; reflexivity. Qed.

(* ---- Components / FixComponents ---- *)

Example ex_components :
  components ex_comp = [65535; 7] /\
  components (fix_components (map_lookup [(7, 70); (65535, 0)]) ex_comp) = [0; 70] /\
  fix_components (map_lookup [(7, 70)]) ex_simple = ex_simple /\
  fix_components (map_lookup [(7, 70)]) None = None.
Proof. vm_compute. repeat split; reflexivity. Qed.

(* ---- Decode on malformed input: errors, not panics ---- *)

Example ex_decode_malformed :
  M_decode {| e_glyf := [0;1;2]; e_loca := [0;0; 0;9]; e_fmt := 0 |} = Err /\
  M_decode {| e_glyf := [0;1;0;0;0;0;0;0;0;0; 0;0]; e_loca := [0;0; 0;6]; e_fmt := 0 |} = Err /\
  M_decode {| e_glyf := []; e_loca := [0;0; 0;0]; e_fmt := 2 |} = Err /\
  M_decode {| e_glyf := []; e_loca := [0;0; 0;0]; e_fmt := 0 |} = Ok [None].
Proof. vm_compute. repeat split; reflexivity. Qed.

(* ---- the two defects repaired by fixes/C11-simple-decode-guards.diff ---- *)

(* SimpleGlyph.Decode as it was before the fix: no guard for numContours = 0
   (endPtsOfContours[numContours-1]) and none on the contour end points
   (make([]Point, end-start), xx[j]). *)
Fixpoint mk_contours_before_fix (endPts : list N) (start np : N) (pts : list point) : outcome (list contour) :=
  match endPts with
  | [] => Ok []
  | e :: r =>
      pp <- slice_n pts np start (e + 1) ;;
      cs <- mk_contours_before_fix r (e + 1) np pts ;;
      Ok (pp :: cs)
  end.

Definition M_simple_decode_before_fix (nc : Z) (buf : bytes) : outcome (list contour * bytes) :=
  if (nc <? 0)%Z then Panic else              (* make([]uint16, numContours) *)
  if len buf <? 2 * Z.to_N nc + 2 then Err else
  let n := Z.to_N nc in
  endPts <- read_u16s (N.to_nat n) buf ;;
  let buf := skipn (N.to_nat (2 * n)) buf in
  np <- (if 0 <? n
         then match nth_error endPts (N.to_nat (n - 1)) with Some e => Ok (e + 1) | None => Panic end
         else Panic) ;;                        (* index -1 *)
  a <- get buf 0 ;; b <- get buf 1 ;;
  let il := a * 256 + b in
  if len buf <? 2 + il then Err else
  ins <- slice buf 2 (2 + il) ;;
  let buf := skipn (N.to_nat (2 + il)) buf in
  r <- dec_flags buf 0 np ;;
  let ff := fst r in
  if negb (len ff =? np) then Err else
  rx <- dec_coords glyf_flagXShortVec glyf_flagXSameOrPos ff (snd r) 0%Z ;;
  ry <- dec_coords glyf_flagYShortVec glyf_flagYSameOrPos ff (snd rx) 0%Z ;;
  cs <- mk_contours_before_fix endPts 0 np (mk_points (fst rx) (fst ry) ff) ;;
  Ok (cs, ins).

(* DESIGN 5.A-1 / 5.A-2: glyph records decodeGlyph accepts on which the
   unrepaired SimpleGlyph.Decode panics (replayed on the Go code: corpus/C11/01, 02) *)
Example simple_decode_total_refuted_before_fix :
  exists data nc e,
    M_decode_glyph data = Ok (Some {| g_box := {| llx := 0; lly := 0; urx := 0; ury := 0 |};
                                      g_data := Simple nc e |}) /\
    M_simple_decode_before_fix nc e = Panic /\ M_simple_decode nc e <> Panic.
Proof.
  exists [0;0; 0;0;0;0;0;0;0;0; 0;0], 0%Z, [0;0]. vm_compute. repeat split; try reflexivity. discriminate.
Qed.

Example simple_decode_total_refuted_before_fix_endpts :
  exists data nc e,
    M_decode_glyph data = Ok (Some {| g_box := {| llx := 0; lly := 0; urx := 0; ury := 0 |};
                                      g_data := Simple nc e |}) /\
    M_simple_decode_before_fix nc e = Panic /\ M_simple_decode nc e = Err.
Proof.
  exists [0;3; 0;0;0;0;0;0;0;0; 0;1; 0;0; 0;1; 0;0; 49; 49], 3%Z, [0;1; 0;0; 0;1; 0;0; 49; 49].
  vm_compute. repeat split; reflexivity.
Qed.

(* on well-formed descriptions the repaired and the unrepaired function agree *)
Example ex_before_fix_agrees : M_simple_decode_before_fix 1 ex_b = M_simple_decode 1 ex_b.
Proof. vm_compute. reflexivity. Qed.

(* ---- remaining hypotheses ---- *)

Example ex_bytes_ok : bytes_ok ex_b = true /\ nf_gdata (Simple (Z.of_N (len ex_cs)) ex_b) = true.
Proof. vm_compute. split; reflexivity. Qed.

Example ex_decoded_is_nf :
  match M_encode ex_gg with
  | Ok e => bytes_ok (e_glyf e) = true /\
            match M_decode e with Ok gg => forallb nf_glyph gg = true /\ total_gsize gg <= len (e_glyf e) | _ => False end
  | _ => False
  end.
Proof. vm_compute. repeat split; try reflexivity. discriminate. Qed.

(* The switch to the long loca format needs more than 65535 bytes of glyph
   data; evaluating that inside Coq overflows the stack of vm_compute, so the
   format boundary is exhibited on offsets (ex_loca_long above) and on real
   glyph sets by the correspondence run (sets of 65534, 65536, 131070 and
   131072 bytes in every tier). *)
