(* C11/Proofs_simple.v — SimpleGlyph.Decode reads every description the
   specification relation admits. *)
From Coq Require Import List NArith ZArith Bool Arith Lia.
From Coq Require Import ZifyBool ZifyNat ZifyN.
From Common Require Import Bytes Outcome.
From Gen Require Import C11.
From C11 Require Import Model Util Spec Proofs_pad Proofs_glyf.
Import ListNotations.
Ltac Zify.zify_post_hook ::= Z.div_mod_to_equations.
Local Open Scope N_scope.

(* the masks of the code are the bits of the specification *)
Lemma has_repeat f : has f glyf_flagRepeat = N.testbit f 3.
Proof. exact (has_pow2 f 3). Qed.
Lemma has_oncurve f : has f glyf_flagOnCurve = N.testbit f 0.
Proof. exact (has_pow2 f 0). Qed.
Lemma xshort_bit : glyf_flagXShortVec = 2 ^ 1. Proof. reflexivity. Qed.
Lemma xsame_bit : glyf_flagXSameOrPos = 2 ^ 4. Proof. reflexivity. Qed.
Lemma yshort_bit : glyf_flagYShortVec = 2 ^ 2. Proof. reflexivity. Qed.
Lemma ysame_bit : glyf_flagYSameOrPos = 2 ^ 5. Proof. reflexivity. Qed.

(* ---- end points ---- *)

Lemma read_u16s_enc l : forall rest, Forall (fun e => e < 65536) l ->
  read_u16s (length l) (flat_map be16 l ++ rest) = Ok l.
Proof.
  induction l as [|e l IH]; intros rest H; [reflexivity|].
  inversion H as [|? ? He Hl]; subst. cbn beta in He.
  cbn [length read_u16s flat_map]. rewrite <- app_assoc.
  change (be16 e ++ flat_map be16 l ++ rest) with ((e / 256) mod 256 :: e mod 256 :: (flat_map be16 l ++ rest)).
  rewrite get_0, get_1. cbn [obind skipn].
  rewrite (IH rest Hl). cbn [obind]. do 2 f_equal. lia.
Qed.

Lemma end_pts_length cs : forall start, length (end_pts start cs) = length cs.
Proof. induction cs as [|c r IH]; intros start; cbn [end_pts length]; [reflexivity|]. now rewrite IH. Qed.

Lemma len_concat_cons (c : contour) r : len (concat (c :: r)) = len c + len (concat r).
Proof. cbn [concat]. apply len_app. Qed.

Lemma end_pts_bound cs : forall start,
  Forall (fun c : contour => c <> []) cs ->
  Forall (fun e => e < start + len (concat cs)) (end_pts start cs).
Proof.
  induction cs as [|c r IH]; intros start H; cbn [end_pts]; [constructor|].
  inversion H as [|? ? Hc Hr]; subst.
  assert (Hl : 0 < len c) by (destruct c; [congruence|rewrite len_cons; lia]).
  rewrite len_concat_cons. constructor; [cbn beta; lia|].
  eapply Forall_impl; [|exact (IH (start + len c) Hr)]. cbn beta. intros; lia.
Qed.

Lemma end_pts_last cs : forall start, cs <> [] ->
  Forall (fun c : contour => c <> []) cs ->
  nth_error (end_pts start cs) (length cs - 1) = Some (start + len (concat cs) - 1).
Proof.
  induction cs as [|c r IH]; intros start Hne H; [congruence|].
  inversion H as [|? ? Hc Hr]; subst.
  rewrite len_concat_cons. cbn [end_pts length].
  destruct r as [|c' r'].
  - cbn [concat nth_error Nat.sub length end_pts]. rewrite len_nil. f_equal. lia.
  - replace (S (length (c' :: r')) - 1)%nat with (S (length (c' :: r') - 1)) by (cbn [length]; lia).
    cbn [nth_error]. rewrite IH by (try assumption; discriminate). f_equal. lia.
Qed.

(* ---- flags ---- *)

Lemma dec_flags_stop l i np : np <= i -> dec_flags l i np = Ok ([], l).
Proof.
  intros H. assert (E : (np <=? i) = true) by lia.
  destruct l; cbn [dec_flags]; rewrite E; reflexivity.
Qed.

Lemma dec_flags_enc fl fb : FlagsEnc fl fb ->
  forall i np rest, np = i + len fl -> dec_flags (fb ++ rest) i np = Ok (fl, rest).
Proof.
  induction 1 as [|f fl b Hf Hbit _ IH|f c fl b Hf Hc Hbit _ IH]; intros i np rest Hnp.
  - rewrite len_nil in Hnp. cbn [app]. apply dec_flags_stop. lia.
  - rewrite len_cons in Hnp. cbn [app dec_flags].
    assert (E : (np <=? i) = false) by lia. rewrite E, has_repeat, Hbit.
    rewrite (IH (i + 1) np rest) by lia. reflexivity.
  - rewrite len_app, len_repeat in Hnp. cbn [app dec_flags].
    assert (E : (np <=? i) = false) by lia. rewrite E, has_repeat, Hbit.
    assert (Hk : N.min c (np - i - 1) = c) by lia. rewrite Hk.
    rewrite (IH (i + 1 + c) np rest) by lia. reflexivity.
Qed.

(* ---- coordinates ---- *)

Lemma wrap_i16_id z : in16 z = true -> wrap_i16 z = z.
Proof. unfold in16, wrap_i16. intros H. apply to_i16_of_i16. lia. Qed.

Lemma dec_coords_enc sb mb fl x xs b : CoordEnc sb mb fl x xs b ->
  Forall (fun z => in16 z = true) xs ->
  forall rest, dec_coords (2 ^ sb) (2 ^ mb) fl (b ++ rest) x = Ok (xs, rest).
Proof.
  induction 1 as [x|f fl x d xs b Hs Hm Hd _ IH|f fl x d xs b Hs Hm Hd _ IH
                 |f fl x xs b Hs Hm _ IH|f fl x d xs b Hs Hm Hd _ IH];
    intros Hin rest; [reflexivity| | | |];
    inversion Hin as [|? ? Hx Hxs]; subst; cbn [dec_coords]; rewrite !has_pow2, Hs.
  - cbn [app]. rewrite Hm, (wrap_i16_id _ Hx), (IH Hxs rest). reflexivity.
  - cbn [app]. rewrite Hm, (wrap_i16_id _ Hx), (IH Hxs rest). reflexivity.
  - rewrite Hm. cbn [negb]. rewrite (IH Hxs rest). reflexivity.
  - rewrite Hm. cbn [negb]. rewrite <- app_assoc. unfold be16 at 1. cbn [app].
    assert (Hv : (of_i16 d / 256) mod 256 * 256 + of_i16 d mod 256 = of_i16 d)
      by (pose proof (of_i16_bound d); lia).
    rewrite Hv, to_i16_of_i16 by lia. rewrite (wrap_i16_id _ Hx), (IH Hxs rest). reflexivity.
Qed.

(* ---- points and contours ---- *)

Lemma mk_points_enc pts : forall fl,
  map on pts = map (fun f => N.testbit f 0) fl ->
  mk_points (map px pts) (map py pts) fl = pts.
Proof.
  induction pts as [|[x y o] pts IH]; intros [|f fl] H; cbn [map] in H; try discriminate; [reflexivity|].
  injection H as Ho Hr. cbn [map mk_points px py on] in *. rewrite has_oncurve, <- Ho, (IH fl Hr). reflexivity.
Qed.

Lemma mk_contours_enc cs : forall pre post,
  Forall (fun c : contour => c <> []) cs ->
  mk_contours (end_pts (len pre) cs) (len pre) (len (pre ++ concat cs ++ post)) (pre ++ concat cs ++ post) = Ok cs.
Proof.
  induction cs as [|c r IH]; intros pre post H; [reflexivity|].
  inversion H as [|? ? Hc Hr]; subst.
  assert (Hl : 0 < len c) by (destruct c; [congruence|rewrite len_cons; lia]).
  cbn [end_pts mk_contours concat]. rewrite <- app_assoc.
  replace (len pre + len c - 1 + 1) with (len pre + len c) by lia.
  assert (E : (len pre + len c <? len pre) || (len (pre ++ c ++ concat r ++ post) <? len pre + len c) = false)
    by (rewrite !len_app; lia).
  rewrite E. rewrite slice_n_mid. cbn [obind].
  specialize (IH (pre ++ c) post Hr). rewrite len_app, <- app_assoc in IH. rewrite IH. reflexivity.
Qed.

(* ---- the whole description ---- *)

Lemma simple_decode_spec_lemma cs ins b p :
  EncodesI cs ins b -> M_simple_decode (Z.of_N (len cs)) (b ++ p) = Ok (cs, ins).
Proof.
  intros H. destruct H as [cs ins fl fb xb yb Hnc Hne Htot Hil Hin Hfl Hon Hx Hy].
  set (pts := concat cs) in *.
  set (E := flat_map be16 (end_pts 0 cs)).
  assert (HlenE : len E = 2 * len cs).
  { unfold E. rewrite (Proofs_loca.len_flat_map_const _ 2) by reflexivity.
    unfold len. rewrite end_pts_length. reflexivity. }
  rewrite <- !app_assoc.
  set (tail := fb ++ xb ++ yb ++ p).
  unfold M_simple_decode. rewrite N2Z.id.
  match goal with |- (if ?c then _ else _) = _ =>
    assert (G : c = false) by (rewrite !len_app, len_be16, HlenE; lia); rewrite G; clear G end.
  (* endPtsOfContours *)
  assert (Hn : N.to_nat (len cs) = length (end_pts 0 cs)) by (rewrite end_pts_length; unfold len; lia).
  rewrite Hn. unfold E at 1.
  rewrite read_u16s_enc
    by (eapply Forall_impl; [|exact (end_pts_bound cs 0 Hne)]; cbn; intros; fold pts in H; lia).
  cbn [obind].
  assert (Hsk : skipn (N.to_nat (2 * len cs)) (E ++ be16 (len ins) ++ ins ++ tail) = be16 (len ins) ++ ins ++ tail)
    by (apply skipn_app_exact; unfold len in *; lia).
  rewrite Hsk.
  (* numPoints *)
  assert (Hnp : (if 0 <? len cs
                 then match nth_error (end_pts 0 cs) (N.to_nat (len cs - 1)) with
                      | Some e => Ok (e + 1) | None => Panic end
                 else Ok 0) = Ok (len pts)).
  { destruct (0 <? len cs) eqn:E0.
    - assert (Hcs : cs <> []) by (destruct cs; [discriminate E0|discriminate]).
      replace (N.to_nat (len cs - 1)) with (length cs - 1)%nat by (unfold len; lia).
      rewrite (end_pts_last cs 0 Hcs Hne). fold pts.
      assert (0 < len pts).
      { destruct cs as [|c r]; [congruence|]. inversion Hne; subst. unfold pts.
        rewrite len_concat_cons. destruct c; [congruence|rewrite len_cons; lia]. }
      f_equal. lia.
    - destruct cs; [reflexivity|]. rewrite len_cons in E0. lia. }
  rewrite Hnp. cbn [obind].
  (* instructions *)
  change (be16 (len ins) ++ ins ++ tail) with ((len ins / 256) mod 256 :: len ins mod 256 :: (ins ++ tail)).
  rewrite get_0, get_1. cbn [obind].
  assert (Hil2 : (len ins / 256) mod 256 * 256 + len ins mod 256 = len ins) by lia.
  rewrite Hil2.
  assert (G2 : (len ((len ins / 256) mod 256 :: len ins mod 256 :: ins ++ tail) <? 2 + len ins) = false)
    by (rewrite !len_cons, len_app; lia).
  rewrite G2.
  assert (Hsl : slice ((len ins / 256) mod 256 :: len ins mod 256 :: ins ++ tail) 2 (2 + len ins) = Ok ins).
  { unfold slice, slice_n.
    match goal with |- (if ?c then _ else _) = _ =>
      assert (G : c = true) by (rewrite !len_cons, len_app; lia); rewrite G; clear G end.
    change (N.to_nat 2) with 2%nat. cbn [skipn]. f_equal.
    apply firstn_app_exact. unfold len. lia. }
  rewrite Hsl. cbn [obind].
  assert (Hsk2 : skipn (N.to_nat (2 + len ins)) ((len ins / 256) mod 256 :: len ins mod 256 :: ins ++ tail) = tail).
  { replace (N.to_nat (2 + len ins)) with (S (S (length ins))) by (unfold len; lia).
    cbn [skipn]. apply skipn_app_exact. reflexivity. }
  rewrite Hsk2.
  (* flags *)
  assert (Hlfl : len fl = len pts).
  { unfold len. f_equal. apply (f_equal (@length bool)) in Hon. rewrite !map_length in Hon. lia. }
  unfold tail. rewrite (dec_flags_enc fl fb Hfl 0 (len pts)) by lia. cbn [obind fst snd].
  rewrite Hlfl, N.eqb_refl. cbn [negb].
  (* coordinates *)
  rewrite xshort_bit, xsame_bit, yshort_bit, ysame_bit.
  rewrite (dec_coords_enc _ _ _ _ _ _ Hx)
    by (apply Forall_map; eapply Forall_impl; [|exact Hin]; intros a [? ?]; assumption).
  cbn [obind fst snd].
  rewrite (dec_coords_enc _ _ _ _ _ _ Hy)
    by (apply Forall_map; eapply Forall_impl; [|exact Hin]; intros a [? ?]; assumption).
  cbn [obind fst snd].
  rewrite (mk_points_enc pts fl Hon).
  pose proof (mk_contours_enc cs [] [] Hne) as Hmk.
  cbn [app] in Hmk. rewrite app_nil_r in Hmk. change (len []) with 0 in Hmk. fold pts in Hmk.
  rewrite Hmk. reflexivity.
Qed.


(* a description the specification admits is tight: removePadding keeps all of it *)
Lemma flag_walk_enc fl fb : FlagsEnc fl fb ->
  forall i np cb u rest, np = i + len fl ->
  exists cb', flag_walk (fb ++ rest) i np cb u = Some (np, cb', u + len fb) /\
    cb' = cb + fold_right (fun f a => xbytes f + ybytes f + a) 0 fl.
Proof.
  induction 1 as [|f fl b Hf Hbit _ IH|f c fl b Hf Hc Hbit _ IH]; intros i np cb u rest Hnp.
  - rewrite len_nil in Hnp. subst np. cbn [app fold_right]. rewrite flag_walk_stop by lia.
    exists cb. split; [|lia]. replace (i + 0) with i by lia. replace (u + len (@nil N)) with u by (unfold len; cbn [length]; lia). reflexivity.
  - rewrite len_cons in Hnp. cbn [app flag_walk].
    assert (E : (np <=? i) = false) by lia. rewrite E, has_repeat, Hbit.
    destruct (IH (i + 1) np (cb + (xbytes f + ybytes f)) (u + 1) rest) as (cb' & H1 & H2); [lia|].
    exists cb'. rewrite H1. split; [rewrite len_cons; do 2 f_equal; lia|]. cbn [fold_right]. lia.
  - rewrite len_app, len_repeat in Hnp. cbn [app flag_walk].
    assert (E : (np <=? i) = false) by lia. rewrite E, has_repeat, Hbit.
    destruct (IH (i + (c + 1)) np (cb + (xbytes f + ybytes f) * (c + 1)) (u + 2) rest) as (cb' & H1 & H2); [lia|].
    exists cb'. rewrite H1. split; [rewrite !len_cons; do 2 f_equal; lia|].
    rewrite H2. rewrite fold_right_app.
    assert (Hrep : forall k a, fold_right (fun f0 a0 => xbytes f0 + ybytes f0 + a0) a (repeat f k) =
                   (xbytes f + ybytes f) * N.of_nat k + a).
    { induction k as [|k IHk]; intros a; cbn [repeat fold_right]; [lia|]. rewrite IHk. lia. }
    rewrite Hrep. lia.
Qed.

Lemma xbytes_spec f : xbytes f = if N.testbit f 1 then 1 else if N.testbit f 4 then 0 else 2.
Proof. unfold xbytes. rewrite xshort_bit, xsame_bit, !has_pow2. reflexivity. Qed.
Lemma ybytes_spec f : ybytes f = if N.testbit f 2 then 1 else if N.testbit f 5 then 0 else 2.
Proof. unfold ybytes. rewrite yshort_bit, ysame_bit, !has_pow2. reflexivity. Qed.

Lemma coord_len_x fl : forall x xs b, CoordEnc 1 4 fl x xs b ->
  len b = fold_right (fun f a => xbytes f + a) 0 fl.
Proof.
  intros x xs b H.
  induction H as [x|f fl x d xs b Hs Hm Hd _ IH|f fl x d xs b Hs Hm Hd _ IH
                 |f fl x xs b Hs Hm _ IH|f fl x d xs b Hs Hm Hd _ IH];
    cbn [fold_right]; rewrite ?len_cons, ?len_app, ?len_be16, ?xbytes_spec, ?Hs, ?Hm; try rewrite IH;
    try reflexivity; lia.
Qed.

Lemma coord_len_y fl : forall x xs b, CoordEnc 2 5 fl x xs b ->
  len b = fold_right (fun f a => ybytes f + a) 0 fl.
Proof.
  intros x xs b H.
  induction H as [x|f fl x d xs b Hs Hm Hd _ IH|f fl x d xs b Hs Hm Hd _ IH
                 |f fl x xs b Hs Hm _ IH|f fl x d xs b Hs Hm Hd _ IH];
    cbn [fold_right]; rewrite ?len_cons, ?len_app, ?len_be16, ?ybytes_spec, ?Hs, ?Hm; try rewrite IH;
    try reflexivity; lia.
Qed.

Lemma fold_sum_split fl :
  fold_right (fun f a => xbytes f + ybytes f + a) 0 fl =
  fold_right (fun f a => xbytes f + a) 0 fl + fold_right (fun f a => ybytes f + a) 0 fl.
Proof. induction fl as [|f fl IH]; cbn [fold_right]; lia. Qed.

(* bytes of the k-th entry of a uint16 array *)
Lemma get_be16s l : forall k e rest, nth_error l k = Some e ->
  get (flat_map be16 l ++ rest) (2 * N.of_nat k) = Ok ((e / 256) mod 256) /\
  get (flat_map be16 l ++ rest) (2 * N.of_nat k + 1) = Ok (e mod 256).
Proof.
  induction l as [|x l IH]; intros k e rest H; [destruct k; discriminate|].
  cbn [flat_map]. rewrite <- app_assoc.
  change (be16 x ++ flat_map be16 l ++ rest) with ((x / 256) mod 256 :: x mod 256 :: (flat_map be16 l ++ rest)).
  destruct k as [|k]; cbn [nth_error] in H.
  - injection H as ->. split; reflexivity.
  - destruct (IH k e rest H) as [H1 H2]. unfold get in *.
    replace (N.to_nat (2 * N.of_nat (S k))) with (S (S (N.to_nat (2 * N.of_nat k)))) by lia.
    replace (N.to_nat (2 * N.of_nat (S k) + 1)) with (S (S (N.to_nat (2 * N.of_nat k + 1)))) by lia.
    cbn [nth_error]. split; assumption.
Qed.

Lemma encodes_tight cs ins b :
  EncodesI cs ins b -> walk (Z.of_N (len cs)) b = Ok (len b).
Proof.
  intros H. destruct H as [cs ins fl fb xb yb Hnc Hne Htot Hil Hin Hfl Hon Hx Hy].
  set (pts := concat cs) in *.
  set (E := flat_map be16 (end_pts 0 cs)).
  assert (HlenE : len E = 2 * len cs).
  { unfold E. rewrite (Proofs_loca.len_flat_map_const _ 2) by reflexivity.
    unfold len. rewrite end_pts_length. reflexivity. }
  assert (Hlfl : len fl = len pts).
  { unfold len. f_equal. apply (f_equal (@length bool)) in Hon. rewrite !map_length in Hon. lia. }
  apply walk_ok_iff. rewrite N2Z.id.
  split; [lia|]. split; [rewrite !len_app, len_be16, HlenE; lia|].
  destruct (flag_walk_enc fl fb Hfl 0 (len pts) 0 0 (xb ++ yb)) as (cbv & Hw & Hcb); [lia|].
  exists (len pts), ((len ins / 256) mod 256), (len ins mod 256), cbv, (len fb).
  assert (Hil2 : (len ins / 256) mod 256 * 256 + len ins mod 256 = len ins) by lia.
  assert (Hget : forall k, k < 2 -> get (E ++ be16 (len ins) ++ ins ++ fb ++ xb ++ yb) (2 * len cs + k) =
            Ok (nth (N.to_nat k) (be16 (len ins)) 0)).
  { intros k Hk. unfold get.
    rewrite nth_error_app2 by (unfold len in *; lia).
    replace (N.to_nat (2 * len cs + k) - length E)%nat with (N.to_nat k) by (unfold len in *; lia).
    assert (k = 0 \/ k = 1) as [-> | ->] by lia; reflexivity. }
  split; [|split; [|split; [|split; [|split]]]].
  - (* numPoints *)
    unfold num_points. destruct (0 <? len cs) eqn:E0.
    + assert (Hcs : cs <> []) by (destruct cs; [discriminate E0|discriminate]).
      pose proof (end_pts_last cs 0 Hcs Hne) as Hlast. fold pts in Hlast.
      assert (Hpos : 0 < len pts).
      { destruct cs as [|c r]; [congruence|]. inversion Hne; subst. unfold pts.
        rewrite len_concat_cons. destruct c; [congruence|rewrite len_cons; lia]. }
      destruct (get_be16s _ _ _ (be16 (len ins) ++ ins ++ fb ++ xb ++ yb) Hlast) as [G1 G2].
      fold E in G1, G2.
      replace (2 * len cs - 2) with (2 * N.of_nat (length cs - 1)) by (unfold len in *; lia).
      replace (2 * len cs - 1) with (2 * N.of_nat (length cs - 1) + 1) by (unfold len in *; lia).
      rewrite G1, G2. cbn [obind]. f_equal. lia.
    + destruct cs; [|rewrite len_cons in E0; lia]. reflexivity.
  - rewrite <- (N.add_0_r (2 * len cs)). rewrite Hget by lia. reflexivity.
  - rewrite Hget by lia. reflexivity.
  - rewrite Hil2.
    replace (skipn (N.to_nat (2 * len cs + 2 + len ins)) (E ++ be16 (len ins) ++ ins ++ fb ++ xb ++ yb))
      with (fb ++ xb ++ yb).
    + exact Hw.
    + symmetry.
      replace (E ++ be16 (len ins) ++ ins ++ fb ++ xb ++ yb)
        with ((E ++ be16 (len ins) ++ ins) ++ (fb ++ xb ++ yb)) by (rewrite <- !app_assoc; reflexivity).
      apply skipn_app_exact. rewrite !app_length. cbn [be16 length]. unfold len in *. lia.
  - rewrite Hil2, !len_app, len_be16, HlenE, Hcb, fold_sum_split,
      (coord_len_x _ _ _ _ Hx), (coord_len_y _ _ _ _ Hy). lia.
  - lia.
Qed.
