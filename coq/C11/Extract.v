From Coq Require Import Extraction ExtrOcamlBasic.
From Common Require Import Conv.
From Gen Require Import C11.
From C11 Require Import Model.
Extraction "c11_model.ml" conv_anchor M_encode_loca M_decode_loca M_decode_glyph
  M_encode M_decode M_remove_padding M_simple_decode M_append M_encode_len
  components fix_components map_lookup nf_glyph.
