(* C11/Model.v — executable model of glyf/glyf.go, loca.go, simple.go,
   composite.go (go-sfnt).  Definitions only; proofs are in Proofs_*.v.

   Conventions: byte strings are [list N] (each < 256); Go [int] offsets are
   [N] without wrap (Go's int is 64 bit; glyf tables are far below 2^63);
   int16 values (numberOfContours, bounding boxes, coordinates) are [Z] with
   explicit wrap where Go truncates; [Panic] marks what would be an
   index-out-of-range / slice-bounds / negative-make panic in Go.

   The constants (glyfAlign, the short-loca threshold, header length, flag
   bits) come from Gen/C11.v, regenerated from the Go source on every run. *)
From Coq Require Import List NArith ZArith Bool Arith.
From Common Require Import Bytes Outcome.
From Gen Require Import C11.
Import ListNotations.
Local Open Scope N_scope.

Definition bytes := list N.
Definition len {A} (l : list A) : N := N.of_nat (length l).

(* checked indexing: Go's buf[i] *)
Definition get (buf : bytes) (i : N) : outcome N :=
  match nth_error buf (N.to_nat i) with Some x => Ok x | None => Panic end.

(* checked slicing: Go's data[lo:hi]; dlen = len(data), passed in where the
   caller already has it (it is only ever instantiated with [len data]) *)
Definition slice_n {A} (data : list A) (dlen lo hi : N) : outcome (list A) :=
  if (lo <=? hi) && (hi <=? dlen)
  then Ok (firstn (N.to_nat (hi - lo)) (skipn (N.to_nat lo) data))
  else Panic.
Definition slice {A} (data : list A) (lo hi : N) : outcome (list A) :=
  slice_n data (len data) lo hi.

(* flags&mask != 0 *)
Definition has (f m : N) : bool := negb (N.land f m =? 0).

(* ------------------------------------------------------------------ *)
(* loca.go                                                             *)

(* encodeLoca(offs): panics on an empty slice (offs[len(offs)-1]) *)
Definition M_encode_loca (offs : list N) : outcome (bytes * Z) :=
  match offs with
  | [] => Panic
  | _ =>
      if last offs 0 <=? glyf_shortLocaMax
      then Ok (flat_map (fun off => be16 (off / 2)) offs, 0%Z)
      else Ok (flat_map be32 offs, 1%Z)
  end.

Fixpoint dec_loca0 (l : bytes) (prev glen : N) : outcome (list N) :=
  match l with
  | a :: b :: r =>
      let pos := 2 * (a * 256 + b) in
      if (pos <? prev) || (glen <? pos) then Err
      else offs <- dec_loca0 r pos glen ;; Ok (pos :: offs)
  | _ => Ok []
  end.

Fixpoint dec_loca1 (l : bytes) (prev glen : N) : outcome (list N) :=
  match l with
  | a :: b :: c :: d :: r =>
      let pos := a * 16777216 + b * 65536 + c * 256 + d in
      if (pos <? prev) || (glen <? pos) then Err
      else offs <- dec_loca1 r pos glen ;; Ok (pos :: offs)
  | _ => Ok []
  end.

(* decodeLoca(enc): only len(enc.GlyfData) is used *)
Definition M_decode_loca (fmt : Z) (loca : bytes) (glen : N) : outcome (list N) :=
  let n := len loca in
  if (fmt =? 0)%Z then
    if (n <? 4) || negb (n mod 2 =? 0) then Err else dec_loca0 loca 0 glen
  else if (fmt =? 1)%Z then
    if (n <? 8) || negb (n mod 4 =? 0) then Err else dec_loca1 loca 0 glen
  else Err.

(* ------------------------------------------------------------------ *)
(* glyphs                                                              *)

Record bbox := { llx : Z; lly : Z; urx : Z; ury : Z }.          (* funit.Rect16 *)
Record component := { c_flags : N; c_gid : N; c_data : bytes }. (* GlyphComponent *)

Inductive gdata :=
| Simple (nc : Z) (enc : bytes)                        (* SimpleGlyph{NumContours, Encoded} *)
| Composite (comps : list component) (ins : option bytes). (* Instructions: None = nil slice *)

Record glyph := { g_box : bbox; g_data : gdata }.

(* a Glyphs slice; None = nil pointer *)
Definition glyphs := list (option glyph).

Definition enc_component (c : component) : bytes :=
  be16 (c_flags c) ++ be16 (c_gid c) ++ c_data c.

Definition enc_ins (ins : option bytes) : bytes :=
  match ins with
  | None => []
  | Some i => be16 (len i) ++ i       (* byte(L>>8), byte(L): truncated *)
  end.

Definition enc_body (d : gdata) : bytes :=
  match d with
  | Simple _ e => e
  | Composite cs ins => flat_map enc_component cs ++ enc_ins ins
  end.

Definition enc_numcont (d : gdata) : Z :=
  match d with Simple nc _ => nc | Composite _ _ => (-1)%Z end.

Definition enc_header (g : glyph) : bytes :=
  be16 (of_i16 (enc_numcont (g_data g))) ++
  be16 (of_i16 (llx (g_box g))) ++ be16 (of_i16 (lly (g_box g))) ++
  be16 (of_i16 (urx (g_box g))) ++ be16 (of_i16 (ury (g_box g))).

(* number of zero bytes "for len(buf)%glyfAlign != 0 { buf = append(buf, 0) }" adds *)
Definition pad_count (n : N) : nat :=
  N.to_nat ((glyf_glyfAlign - n mod glyf_glyfAlign) mod glyf_glyfAlign).

(* what Glyph.append(buf) adds to a buffer of length n *)
Definition enc_glyph_at (n : N) (g : option glyph) : bytes :=
  match g with
  | None => []
  | Some g =>
      let b := enc_header g ++ enc_body (g_data g) in
      b ++ repeat 0 (pad_count (n + len b))
  end.

(* Glyph.append(buf) *)
Definition M_append (buf : bytes) (g : option glyph) : bytes :=
  buf ++ enc_glyph_at (len buf) g.

(* Glyph.encodeLen() *)
Definition M_encode_len (g : option glyph) : N :=
  match g with
  | None => 0
  | Some g =>
      let total :=
        10 + match g_data g with
             | Simple _ e => len e
             | Composite cs ins =>
                 fold_left (fun t c => t + (4 + len (c_data c))) cs 0 +
                 match ins with None => 0 | Some i => 2 + len i end
             end in
      total + N.of_nat (pad_count total)
  end.

Fixpoint scan_offs (cur : N) (gg : glyphs) : list N :=
  cur :: match gg with
         | [] => []
         | g :: r => scan_offs (cur + M_encode_len g) r
         end.

Record encoded := { e_glyf : bytes; e_loca : bytes; e_fmt : Z }.

(* "for _, g := range gg { glyfData = g.append(glyfData) }" from a buffer of
   length n: the bytes added (Proofs_glyf.enc_all_fold: equal to folding M_append) *)
Fixpoint enc_all (n : N) (gg : glyphs) : bytes :=
  match gg with
  | [] => []
  | g :: r => let b := enc_glyph_at n g in b ++ enc_all (n + len b) r
  end.

(* Glyphs.Encode() *)
Definition M_encode (gg : glyphs) : outcome encoded :=
  let offs := scan_offs 0 gg in
  lf <- M_encode_loca offs ;;
  Ok {| e_glyf := enc_all 0 gg; e_loca := fst lf; e_fmt := snd lf |}.

(* ---- simple.go: removePadding ---- *)

Definition xbytes (f : N) : N :=
  if has f glyf_flagXShortVec then 1 else if has f glyf_flagXSameOrPos then 0 else 2.
Definition ybytes (f : N) : N :=
  if has f glyf_flagYShortVec then 1 else if has f glyf_flagYSameOrPos then 0 else 2.

(* the flag loop of removePadding, started at buf[pos:]; returns the final i,
   coordBytes and the number of flag bytes consumed; None = errInvalidGlyphData *)
Fixpoint flag_walk (l : bytes) (i np cb used : N) : option (N * N * N) :=
  if np <=? i then Some (i, cb, used) else
  match l with
  | [] => None
  | f :: l1 =>
      if has f glyf_flagRepeat then
        match l1 with
        | [] => None
        | c :: l2 =>
            let rep := c + 1 in
            flag_walk l2 (i + rep) np (cb + (xbytes f + ybytes f) * rep) (used + 2)
        end
      else flag_walk l1 (i + 1) np (cb + (xbytes f + ybytes f)) (used + 1)
  end.

(* numPoints as removePadding computes it (n = numContours >= 0) *)
Definition num_points (n : N) (buf : bytes) : outcome N :=
  if 0 <? n
  then a <- get buf (2 * n - 2) ;; b <- get buf (2 * n - 1) ;; Ok (a * 256 + b + 1)
  else Ok 0.

(* the position removePadding cuts at *)
Definition walk (nc : Z) (buf : bytes) : outcome N :=
  if (nc <? 0)%Z then Panic            (* buf[pos] with pos < 0 *)
  else
    let n := Z.to_N nc in
    if len buf <? 2 * n + 2 then Err else
    np <- num_points n buf ;;
    a <- get buf (2 * n) ;;
    b <- get buf (2 * n + 1) ;;
    let pos0 := 2 * n + 2 + (a * 256 + b) in
    match flag_walk (skipn (N.to_nat pos0) buf) 0 np 0 0 with
    | None => Err
    | Some (i, cb, used) =>
        let pos := pos0 + used + cb in
        if negb (i =? np) || (len buf <? pos) then Err else Ok pos
    end.

Definition M_remove_padding (nc : Z) (buf : bytes) : outcome bytes :=
  pos <- walk nc buf ;; slice buf 0 pos.

(* ---- composite.go: decodeGlyphComposite ---- *)

Definition comp_skip (flags : N) : N :=
  (if has flags glyf_FlagArg1And2AreWords then 4 else 2) +
  (if has flags glyf_FlagWeHaveAScale then 2
   else if has flags glyf_FlagWeHaveAnXAndYScale then 4
   else if has flags glyf_FlagWeHaveATwoByTwo then 8 else 0).

(* the component loop: components, weHaveInstructions, remaining data *)
Fixpoint dec_comps (fuel : nat) (data : bytes) : outcome (list component * bool * bytes) :=
  match fuel with
  | O => OutOfFuel
  | S fuel' =>
      if len data <? 4 then Err else
      let flags := rd16 data in
      let gid := rd16 (skipn 2 data) in
      let data := skipn 4 data in
      let skip := comp_skip flags in
      if len data <? skip then Err else
      let c := {| c_flags := flags; c_gid := gid; c_data := firstn (N.to_nat skip) data |} in
      let data := skipn (N.to_nat skip) data in
      let wh := has flags glyf_FlagWeHaveInstructions in
      if has flags glyf_FlagMoreComponents then
        r <- dec_comps fuel' data ;;
        let '(cs, wh', rest) := r in Ok (c :: cs, wh || wh', rest)
      else Ok ([c], wh, data)
  end.

Definition M_decode_composite (data : bytes) : outcome gdata :=
  r <- dec_comps (S (length data)) data ;;
  let '(cs, wh, rest) := r in
  let ins :=
    if wh && (2 <=? len rest) then
      let L := rd16 rest in
      let d := skipn 2 rest in
      Some (if L <? len d then firstn (N.to_nat L) d else d)
    else None in
  Ok (Composite cs ins).

(* ---- composite.go: decodeGlyph ---- *)

Definition i16_at (data : bytes) (off : nat) : Z := to_i16 (rd16 (skipn off data)).

Definition M_decode_glyph (data : bytes) : outcome (option glyph) :=
  if len data =? 0 then Ok None
  else if len data <? glyf_headerLen then Err
  else
    let numCont := i16_at data 0 in
    d <- (if (0 <=? numCont)%Z
          then e <- M_remove_padding numCont (skipn 10 data) ;; Ok (Simple numCont e)
          else M_decode_composite (skipn 10 data)) ;;
    Ok (Some {| g_box := {| llx := i16_at data 2; lly := i16_at data 4;
                            urx := i16_at data 6; ury := i16_at data 8 |};
                g_data := d |}).

(* ---- glyf.go: Decode ---- *)

Fixpoint dec_glyphs (glyf : bytes) (glen : N) (offs : list N) : outcome glyphs :=
  match offs with
  | a :: ((b :: _) as r) =>
      d <- slice_n glyf glen a b ;;
      g <- M_decode_glyph d ;;
      gs <- dec_glyphs glyf glen r ;;
      Ok (g :: gs)
  | _ => Ok []
  end.

Definition M_decode (e : encoded) : outcome glyphs :=
  let glen := len (e_glyf e) in
  offs <- M_decode_loca (e_fmt e) (e_loca e) glen ;;
  dec_glyphs (e_glyf e) glen offs.

(* ------------------------------------------------------------------ *)
(* simple.go: SimpleGlyph.Decode (with the guards of fixes/C11-simple-decode-guards.diff) *)

Record point := { px : Z; py : Z; on : bool }.
Notation contour := (list point) (only parsing).

Definition wrap_i16 (z : Z) : Z := to_i16 (of_i16 z).

Fixpoint read_u16s (n : nat) (buf : bytes) : outcome (list N) :=
  match n with
  | O => Ok []
  | S n' =>
      a <- get buf 0 ;; b <- get buf 1 ;;
      r <- read_u16s n' (skipn 2 buf) ;; Ok ((a * 256 + b) :: r)
  end.

(* flag expansion; unlike removePadding a repeat count running past numPoints
   is clipped ("for count > 0 && i < numPoints") *)
Fixpoint dec_flags (l : bytes) (i np : N) : outcome (list N * bytes) :=
  if np <=? i then Ok ([], l) else
  match l with
  | [] => Err
  | f :: l1 =>
      if has f glyf_flagRepeat then
        match l1 with
        | [] => Err
        | c :: l2 =>
            let k := N.min c (np - i - 1) in
            r <- dec_flags l2 (i + 1 + k) np ;;
            Ok (repeat f (S (N.to_nat k)) ++ fst r, snd r)
        end
      else r <- dec_flags l1 (i + 1) np ;; Ok (f :: fst r, snd r)
  end.

Fixpoint dec_coords (short same : N) (ff : list N) (l : bytes) (x : Z) : outcome (list Z * bytes) :=
  match ff with
  | [] => Ok ([], l)
  | f :: ff' =>
      if has f short then
        match l with
        | [] => Err
        | d :: l' =>
            let x' := wrap_i16 (if has f same then x + Z.of_N d else x - Z.of_N d)%Z in
            r <- dec_coords short same ff' l' x' ;; Ok (x' :: fst r, snd r)
        end
      else if negb (has f same) then
        match l with
        | a :: b :: l' =>
            let x' := wrap_i16 (x + to_i16 (a * 256 + b))%Z in
            r <- dec_coords short same ff' l' x' ;; Ok (x' :: fst r, snd r)
        | _ => Err
        end
      else r <- dec_coords short same ff' l x ;; Ok (x :: fst r, snd r)
  end.

Fixpoint mk_points (xx yy : list Z) (ff : list N) : list point :=
  match xx, yy, ff with
  | x :: xx', y :: yy', f :: ff' =>
      {| px := x; py := y; on := has f glyf_flagOnCurve |} :: mk_points xx' yy' ff'
  | _, _, _ => []
  end.

Fixpoint mk_contours (endPts : list N) (start np : N) (pts : list point) : outcome (list contour) :=
  match endPts with
  | [] => Ok []
  | e :: r =>
      let e1 := e + 1 in
      if (e1 <? start) || (np <? e1) then Err else
      pp <- slice_n pts np start e1 ;;          (* xx[j], yy[j], ff[j] for start <= j < end *)
      cs <- mk_contours r e1 np pts ;;
      Ok (pp :: cs)
  end.

Definition M_simple_decode (nc : Z) (buf : bytes) : outcome (list contour * bytes) :=
  if (nc <? 0)%Z || (len buf <? 2 * Z.to_N nc + 2) then Err else
  let n := Z.to_N nc in
  endPts <- read_u16s (N.to_nat n) buf ;;
  let buf := skipn (N.to_nat (2 * n)) buf in
  np <- (if 0 <? n
         then match nth_error endPts (N.to_nat (n - 1)) with
              | Some e => Ok (e + 1) | None => Panic end
         else Ok 0) ;;
  a <- get buf 0 ;; b <- get buf 1 ;;
  let il := a * 256 + b in
  if len buf <? 2 + il then Err else
  ins <- slice buf 2 (2 + il) ;;
  let buf := skipn (N.to_nat (2 + il)) buf in
  r <- dec_flags buf 0 np ;;
  let ff := fst r in
  if negb (len ff =? np) then Err else
  rx <- dec_coords glyf_flagXShortVec glyf_flagXSameOrPos ff (snd r) 0%Z ;;
  ry <- dec_coords glyf_flagYShortVec glyf_flagYSameOrPos ff (snd rx) 0%Z ;;
  cs <- mk_contours endPts 0 np (mk_points (fst rx) (fst ry) ff) ;;
  Ok (cs, ins).

(* ------------------------------------------------------------------ *)
(* composite.go: Components / FixComponents *)

Definition components (g : option glyph) : list N :=
  match g with
  | Some {| g_data := Composite cs _ |} => map c_gid cs
  | _ => []
  end.

(* newGid is a Go map: a missing key reads as 0 *)
Definition fix_components (f : N -> N) (g : option glyph) : option glyph :=
  match g with
  | Some {| g_box := b; g_data := Composite cs ins |} =>
      Some {| g_box := b;
              g_data := Composite (map (fun c => {| c_flags := c_flags c; c_gid := f (c_gid c);
                                                    c_data := c_data c |}) cs) ins |}
  | _ => g
  end.

Fixpoint map_lookup (m : list (N * N)) (k : N) : N :=
  match m with
  | [] => 0
  | (k', v) :: r => if k =? k' then v else map_lookup r k
  end.

(* ------------------------------------------------------------------ *)
(* normal forms (hypotheses of the round-trip theorem), boolean *)

Definition in16 (z : Z) : bool := ((-32768 <=? z) && (z <? 32768))%Z.

Definition nf_box (b : bbox) : bool := in16 (llx b) && in16 (lly b) && in16 (urx b) && in16 (ury b).

Definition tight (nc : Z) (e : bytes) : bool :=
  match walk nc e with Ok p => p =? len e | _ => false end.

Definition nf_component (c : component) : bool :=
  (c_flags c <? 65536) && (c_gid c <? 65536) && bytes_ok (c_data c) &&
  (len (c_data c) =? comp_skip (c_flags c)).

(* MORE_COMPONENTS is set on every component but the last *)
Fixpoint nf_more (cs : list component) : bool :=
  match cs with
  | [] => false
  | [c] => negb (has (c_flags c) glyf_FlagMoreComponents)
  | c :: r => has (c_flags c) glyf_FlagMoreComponents && nf_more r
  end.

Definition nf_gdata (d : gdata) : bool :=
  match d with
  | Simple nc e => (0 <=? nc)%Z && (nc <? 32768)%Z && bytes_ok e && tight nc e
  | Composite cs ins =>
      forallb nf_component cs && nf_more cs &&
      match ins with
      | None => true
      | Some i => existsb (fun c => has (c_flags c) glyf_FlagWeHaveInstructions) cs &&
                  (len i <? 65536) && bytes_ok i
      end
  end.

Definition nf_glyph (g : option glyph) : bool :=
  match g with
  | None => true
  | Some g => nf_box (g_box g) && nf_gdata (g_data g)
  end.

(* a glyph with every component index erased: what FixComponents must not touch *)
Definition forget_gids (g : option glyph) : option glyph := fix_components (fun _ => 0) g.

Definition is_composite (g : option glyph) : bool :=
  match g with Some {| g_data := Composite _ _ |} => true | _ => false end.

(* size of what Decode keeps of a glyph: header, body bytes, 4 bytes per
   component, instruction bytes - the unpadded length of its encoding.  Decode
   allocates one Glyph per non-nil entry and one GlyphComponent per component
   (everything else is sub-slices of the input). *)
Definition gsize (g : option glyph) : N :=
  match g with
  | None => 0
  | Some g => len (enc_header g ++ enc_body (g_data g))
  end.

Definition total_gsize (gg : glyphs) : N := fold_right (fun g a => gsize g + a) 0 gg.

Definition ncomponents (g : option glyph) : N := len (components g).
