(* C11/Spec.v — the simple-glyph description of the TrueType "glyf" table,
   transcribed from the OpenType specification ("Simple Glyph Description",
   "Simple Glyph Flags"), independently of the Go code and of Gen/C11.v:

     uint16 endPtsOfContours[numberOfContours]   last point of each contour, increasing
     uint16 instructionLength
     uint8  instructions[instructionLength]
     uint8  flags[variable]
     uint8 or int16 xCoordinates[variable]
     uint8 or int16 yCoordinates[variable]

   flag bits:  0 ON_CURVE_POINT   1 X_SHORT_VECTOR   2 Y_SHORT_VECTOR
               3 REPEAT_FLAG      4 X_IS_SAME_OR_POSITIVE_X_SHORT_VECTOR
               5 Y_IS_SAME_OR_POSITIVE_Y_SHORT_VECTOR     (6, 7: overlap / reserved)

   Every point may use any legal encoding; flags may or may not be merged into
   repeat runs.  Definitions only. *)
From Coq Require Import List NArith ZArith Bool.
From Common Require Import Bytes.
From C11 Require Import Model.
Import ListNotations.
Local Open Scope N_scope.

(* the flags array: "If [REPEAT_FLAG is] set, the next byte (read as unsigned)
   specifies the number of additional times this flag byte is to be repeated in
   the logical flags array" *)
Inductive FlagsEnc : list N -> bytes -> Prop :=
| FE_nil : FlagsEnc [] []
| FE_one f fl b :
    f < 256 -> N.testbit f 3 = false -> FlagsEnc fl b ->
    FlagsEnc (f :: fl) (f :: b)
| FE_rep f c fl b :
    f < 256 -> c < 256 -> N.testbit f 3 = true -> FlagsEnc fl b ->
    FlagsEnc (repeat f (S (N.to_nat c)) ++ fl) (f :: c :: b).

(* one coordinate array (sb = number of the *_SHORT_VECTOR bit, mb = number of
   the *_IS_SAME_OR_POSITIVE_* bit); coordinates are relative to the previous
   point, the first to (0,0):
     short, bit mb set    1 byte, positive delta
     short, bit mb clear  1 byte, negative delta
     not short, mb set    no bytes, same as the previous coordinate
     not short, mb clear  2 bytes, signed 16-bit delta *)
Inductive CoordEnc (sb mb : N) : list N -> Z -> list Z -> bytes -> Prop :=
| CE_nil x : CoordEnc sb mb [] x [] []
| CE_short_pos f fl x d xs b :
    N.testbit f sb = true -> N.testbit f mb = true -> d < 256 ->
    CoordEnc sb mb fl (x + Z.of_N d) xs b ->
    CoordEnc sb mb (f :: fl) x ((x + Z.of_N d)%Z :: xs) (d :: b)
| CE_short_neg f fl x d xs b :
    N.testbit f sb = true -> N.testbit f mb = false -> d < 256 ->
    CoordEnc sb mb fl (x - Z.of_N d) xs b ->
    CoordEnc sb mb (f :: fl) x ((x - Z.of_N d)%Z :: xs) (d :: b)
| CE_same f fl x xs b :
    N.testbit f sb = false -> N.testbit f mb = true ->
    CoordEnc sb mb fl x xs b ->
    CoordEnc sb mb (f :: fl) x (x :: xs) b
| CE_long f fl x d xs b :
    N.testbit f sb = false -> N.testbit f mb = false ->
    (-32768 <= d < 32768)%Z ->
    CoordEnc sb mb fl (x + d) xs b ->
    CoordEnc sb mb (f :: fl) x ((x + d)%Z :: xs) (be16 (of_i16 d) ++ b).

(* endPtsOfContours: index of the last point of each contour *)
Fixpoint end_pts (start : N) (cs : list contour) : list N :=
  match cs with
  | [] => []
  | c :: r => let e := start + len c in (e - 1) :: end_pts e r
  end.

Definition point_in16 (p : point) : Prop := in16 (px p) = true /\ in16 (py p) = true.

(* bytes b are a simple-glyph description of the contours cs with instructions ins *)
Inductive EncodesI : list contour -> bytes -> bytes -> Prop :=
| Enc_simple cs ins fl fb xb yb :
    len cs < 32768 ->                             (* numberOfContours is an int16 *)
    Forall (fun c => c <> []) cs ->               (* end points strictly increasing *)
    len (concat cs) <= 65536 ->                   (* end points are uint16 *)
    len ins < 65536 ->                            (* instructionLength is a uint16 *)
    Forall point_in16 (concat cs) ->              (* coordinates are int16 *)
    FlagsEnc fl fb ->
    map on (concat cs) = map (fun f => N.testbit f 0) fl ->
    CoordEnc 1 4 fl 0 (map px (concat cs)) xb ->
    CoordEnc 2 5 fl 0 (map py (concat cs)) yb ->
    EncodesI cs ins
      (flat_map be16 (end_pts 0 cs) ++ be16 (len ins) ++ ins ++ fb ++ xb ++ yb).

Definition Encodes (cs : list contour) (b : bytes) : Prop := exists ins, EncodesI cs ins b.
