(* C11/Proofs_nf.v — whatever Decode returns is in normal form (so it
   survives a further Encode/Decode round trip). *)
From Coq Require Import List NArith ZArith Bool Arith Lia.
From Coq Require Import ZifyBool ZifyNat ZifyN.
From Common Require Import Bytes Outcome.
From Gen Require Import C11.
From C11 Require Import Model Util Proofs_loca Proofs_pad Proofs_glyf.
Import ListNotations.
Ltac Zify.zify_post_hook ::= Z.div_mod_to_equations.
Local Open Scope N_scope.

Lemma rd16_lt l : bytes_ok l = true -> rd16 l < 65536.
Proof.
  destruct l as [|a [|b r]]; cbn [rd16]; try lia.
  rewrite !bytes_ok_cons. intros H. lia.
Qed.

Lemma to_i16_in16 x : x < 65536 -> in16 (to_i16 x) = true.
Proof. unfold in16, to_i16. intros H. destruct (x <? 32768) eqn:E; lia. Qed.

Lemma i16_at_in16 data off : bytes_ok data = true -> in16 (i16_at data off) = true.
Proof. intros H. unfold i16_at. apply to_i16_in16, rd16_lt, bytes_ok_skipn, H. Qed.

Lemma i16_at_lt data off : bytes_ok data = true -> (i16_at data off < 32768)%Z.
Proof. intros H. pose proof (i16_at_in16 data off H) as Hi. unfold in16 in Hi. lia. Qed.

Lemma remove_padding_nf nc buf e :
  bytes_ok buf = true -> (0 <= nc < 32768)%Z -> M_remove_padding nc buf = Ok e ->
  nf_gdata (Simple nc e) = true.
Proof.
  intros Hb Hnc H. destruct (remove_padding_result nc buf e H) as (p & -> & Hw).
  rewrite bytes_ok_app in Hb. apply andb_true_iff in Hb as [He _].
  cbn [nf_gdata]. unfold tight. rewrite Hw, He, N.eqb_refl.
  assert (E1 : (0 <=? nc)%Z = true) by lia. assert (E2 : (nc <? 32768)%Z = true) by lia.
  rewrite E1, E2. reflexivity.
Qed.

Lemma dec_comps_nf fuel : forall data cs wh rest,
  bytes_ok data = true -> dec_comps fuel data = Ok (cs, wh, rest) ->
  forallb nf_component cs = true /\ nf_more cs = true /\
  wh = existsb (fun c => has (c_flags c) glyf_FlagWeHaveInstructions) cs /\
  bytes_ok rest = true.
Proof.
  induction fuel as [|fuel IH]; intros data cs wh rest Hb H; [discriminate|].
  cbn [dec_comps] in H.
  destruct (len data <? 4) eqn:E4; [discriminate|].
  set (flags := rd16 data) in *. set (skip := comp_skip flags) in *.
  destruct (len (skipn 4 data) <? skip) eqn:Es; [discriminate|].
  set (c := {| c_flags := flags; c_gid := rd16 (skipn 2 data);
               c_data := firstn (N.to_nat skip) (skipn 4 data) |}) in *.
  assert (Hc : nf_component c = true).
  { unfold nf_component, c. cbn [c_flags c_gid c_data].
    pose proof (rd16_lt data Hb) as H1. fold flags in H1.
    pose proof (rd16_lt (skipn 2 data) (bytes_ok_skipn _ _ Hb)) as H2.
    rewrite bytes_ok_firstn by (apply bytes_ok_skipn, Hb).
    rewrite len_firstn by lia. fold skip. lia. }
  assert (Hrest : bytes_ok (skipn (N.to_nat skip) (skipn 4 data)) = true)
    by (apply bytes_ok_skipn, bytes_ok_skipn, Hb).
  destruct (has flags glyf_FlagMoreComponents) eqn:Em.
  - destruct (dec_comps fuel (skipn (N.to_nat skip) (skipn 4 data))) as [[[cs' wh'] rest']| | |] eqn:Ed;
      cbn [obind] in H; try discriminate.
    injection H as <- <- <-.
    destruct (IH _ _ _ _ Hrest Ed) as (H1 & H2 & H3 & H4).
    split; [cbn [forallb]; now rewrite Hc, H1|].
    split; [|split; [|exact H4]].
    + destruct cs' as [|c' cs'']; [discriminate H2|].
      change (nf_more (c :: c' :: cs'')) with (has (c_flags c) glyf_FlagMoreComponents && nf_more (c' :: cs'')).
      cbn [c c_flags]. now rewrite Em, H2.
    + cbn [existsb c c_flags]. now rewrite H3.
  - injection H as <- <- <-.
    split; [cbn [forallb]; now rewrite Hc|].
    split; [cbn [nf_more c c_flags]; now rewrite Em|].
    split; [cbn [existsb c c_flags]; now rewrite orb_false_r|exact Hrest].
Qed.

Lemma decode_composite_nf data d :
  bytes_ok data = true -> M_decode_composite data = Ok d -> nf_gdata d = true.
Proof.
  intros Hb H. unfold M_decode_composite in H.
  destruct (dec_comps (S (length data)) data) as [[[cs wh] rest]| | |] eqn:Ed; cbn [obind] in H; try discriminate.
  destruct (dec_comps_nf _ _ _ _ _ Hb Ed) as (H1 & H2 & H3 & H4).
  assert (Hd : bytes_ok (skipn 2 rest) = true) by (apply bytes_ok_skipn, H4).
  set (d2 := skipn 2 rest) in *.
  injection H as <-. cbn [nf_gdata]. rewrite H1, H2. cbn [andb].
  destruct (wh && (2 <=? len rest)) eqn:Ew; [|reflexivity].
  apply andb_true_iff in Ew as [Hwh Hlen]. rewrite <- H3, Hwh. cbn [andb].
  pose proof (rd16_lt rest H4) as HL.
  destruct (rd16 rest <? len d2) eqn:EL.
  - rewrite bytes_ok_firstn by exact Hd. rewrite len_firstn by lia. lia.
  - rewrite Hd. lia.
Qed.

Lemma decode_glyph_nf data g :
  bytes_ok data = true -> M_decode_glyph data = Ok g -> nf_glyph g = true.
Proof.
  intros Hb H. unfold M_decode_glyph in H.
  destruct (len data =? 0); [injection H as <-; reflexivity|].
  destruct (len data <? glyf_headerLen); [discriminate|].
  match type of H with (obind ?x _ = _) => destruct x as [d| | |] eqn:Ed end; cbn [obind] in H; try discriminate.
  injection H as <-. cbn [nf_glyph g_box g_data]. unfold nf_box. cbn [llx lly urx ury].
  rewrite !i16_at_in16 by exact Hb. cbn [andb].
  destruct (0 <=? i16_at data 0)%Z eqn:E0.
  - destruct (M_remove_padding (i16_at data 0) (skipn 10 data)) as [e| | |] eqn:Er; cbn [obind] in Ed; try discriminate.
    injection Ed as <-. eapply remove_padding_nf; [apply bytes_ok_skipn, Hb| |exact Er].
    pose proof (i16_at_lt data 0 Hb). lia.
  - eapply decode_composite_nf; [apply bytes_ok_skipn, Hb|exact Ed].
Qed.

Lemma slice_n_bytes_ok data dlen lo hi d :
  bytes_ok data = true -> slice_n data dlen lo hi = Ok d -> bytes_ok d = true.
Proof.
  unfold slice_n. intros Hb H. destruct ((lo <=? hi) && (hi <=? dlen)); [|discriminate].
  injection H as <-. apply bytes_ok_firstn, bytes_ok_skipn, Hb.
Qed.

Lemma dec_glyphs_nf glyf glen offs : forall gg,
  bytes_ok glyf = true -> dec_glyphs glyf glen offs = Ok gg -> forallb nf_glyph gg = true.
Proof.
  induction offs as [|a r IH]; intros gg Hb H; cbn [dec_glyphs] in H; [injection H as <-; reflexivity|].
  destruct r as [|b t]; [injection H as <-; reflexivity|].
  destruct (slice_n glyf glen a b) as [d| | |] eqn:Es; cbn [obind] in H; try discriminate.
  destruct (M_decode_glyph d) as [g| | |] eqn:Eg; cbn [obind] in H; try discriminate.
  destruct (dec_glyphs glyf glen (b :: t)) as [gs| | |] eqn:Er; cbn [obind] in H; try discriminate.
  injection H as <-. cbn [forallb].
  rewrite (decode_glyph_nf d g (slice_n_bytes_ok _ _ _ _ _ Hb Es) Eg).
  exact (IH gs Hb eq_refl).
Qed.

Lemma dec_loca0_length l : forall prev glen offs,
  dec_loca0 l prev glen = Ok offs -> (2 * length offs <= length l < 2 * length offs + 2)%nat.
Proof.
  induction l as [l IH] using list_len_ind. intros prev glen offs H.
  destruct l as [|a [|b r]]; cbn [dec_loca0] in H; try (injection H as <-; cbn [length]; lia).
  set (pos := 2 * (a * 256 + b)) in *.
  destruct ((pos <? prev) || (glen <? pos)); [discriminate|].
  destruct (dec_loca0 r pos glen) as [offs'| | |] eqn:E; cbn [obind] in H; try discriminate.
  injection H as <-. specialize (IH r ltac:(cbn [length]; lia) _ _ _ E). cbn [length]. lia.
Qed.

Lemma dec_loca1_length l : forall prev glen offs,
  dec_loca1 l prev glen = Ok offs -> (4 * length offs <= length l < 4 * length offs + 4)%nat.
Proof.
  induction l as [l IH] using list_len_ind. intros prev glen offs H.
  destruct l as [|a [|b [|c [|d r]]]]; cbn [dec_loca1] in H; try (injection H as <-; cbn [length]; lia).
  set (pos := a * 16777216 + b * 65536 + c * 256 + d) in *.
  destruct ((pos <? prev) || (glen <? pos)); [discriminate|].
  destruct (dec_loca1 r pos glen) as [offs'| | |] eqn:E; cbn [obind] in H; try discriminate.
  injection H as <-. specialize (IH r ltac:(cbn [length]; lia) _ _ _ E). cbn [length]. lia.
Qed.

Lemma decode_nf e gg :
  bytes_ok (e_glyf e) = true -> M_decode e = Ok gg -> forallb nf_glyph gg = true /\ gg <> [].
Proof.
  intros Hb H. unfold M_decode in H.
  destruct (M_decode_loca (e_fmt e) (e_loca e) (len (e_glyf e))) as [offs| | |] eqn:El; cbn [obind] in H; try discriminate.
  split; [exact (dec_glyphs_nf _ _ _ _ Hb H)|].
  (* decodeLoca returns at least two offsets *)
  assert (H2 : (2 <= length offs)%nat).
  { unfold M_decode_loca in El.
    destruct (e_fmt e =? 0)%Z.
    - destruct ((len (e_loca e) <? 4) || negb (len (e_loca e) mod 2 =? 0)) eqn:Ec; [discriminate|].
      apply dec_loca0_length in El. unfold len in Ec. lia.
    - destruct (e_fmt e =? 1)%Z; [|discriminate].
      destruct ((len (e_loca e) <? 8) || negb (len (e_loca e) mod 4 =? 0)) eqn:Ec; [discriminate|].
      apply dec_loca1_length in El. unfold len in Ec. lia. }
  destruct offs as [|a [|b t]]; try (cbn [length] in H2; lia).
  cbn [dec_glyphs] in H.
  repeat match type of H with
         | obind ?x _ = _ => destruct x; cbn [obind] in H; try discriminate
         end.
  injection H as <-. discriminate.
Qed.
