(* C11/Util.v — small list / length / bit lemmas used by the C11 proofs. *)
From Coq Require Import List NArith ZArith Bool Arith Lia.
From Coq Require Import ZifyBool ZifyNat ZifyN.
From Common Require Import Bytes Outcome.
From Gen Require Import C11.
From C11 Require Import Model.
Import ListNotations.
Ltac Zify.zify_post_hook ::= Z.div_mod_to_equations.
Local Open Scope N_scope.

Lemma len_nil {A} : len (@nil A) = 0.
Proof. reflexivity. Qed.

Lemma len_cons {A} (x : A) l : len (x :: l) = 1 + len l.
Proof. unfold len. cbn [length]. lia. Qed.

Lemma len_app {A} (a b : list A) : len (a ++ b) = len a + len b.
Proof. unfold len. rewrite app_length. lia. Qed.

Lemma len_repeat {A} (x : A) n : len (repeat x n) = N.of_nat n.
Proof. unfold len. now rewrite repeat_length. Qed.

Lemma len_be16 x : len (be16 x) = 2.
Proof. reflexivity. Qed.

Lemma len_be32 x : len (be32 x) = 4.
Proof. reflexivity. Qed.

Lemma len_firstn {A} (l : list A) n : N.of_nat n <= len l -> len (firstn n l) = N.of_nat n.
Proof. unfold len. intros H. rewrite firstn_length. lia. Qed.

Lemma len_skipn {A} (l : list A) n : len (skipn n l) = len l - N.of_nat n.
Proof. unfold len. rewrite skipn_length. lia. Qed.

Lemma len_map {A B} (f : A -> B) l : len (map f l) = len l.
Proof. unfold len. now rewrite map_length. Qed.

Lemma firstn_app_exact {A} (a b : list A) n : n = length a -> firstn n (a ++ b) = a.
Proof.
  intros ->. rewrite firstn_app, Nat.sub_diag, firstn_all. cbn [firstn]. apply app_nil_r.
Qed.

Lemma skipn_app_exact {A} (a b : list A) n : n = length a -> skipn n (a ++ b) = b.
Proof.
  intros ->. rewrite skipn_app, Nat.sub_diag, skipn_all. reflexivity.
Qed.

Lemma bytes_ok_app a b : bytes_ok (a ++ b) = bytes_ok a && bytes_ok b.
Proof. unfold bytes_ok. apply forallb_app. Qed.

Lemma bytes_ok_cons x l : bytes_ok (x :: l) = (x <? 256) && bytes_ok l.
Proof. reflexivity. Qed.

Lemma bytes_ok_repeat0 n : bytes_ok (repeat 0 n) = true.
Proof. induction n as [|n IH]; cbn [repeat]; [reflexivity|]. rewrite bytes_ok_cons, IH. reflexivity. Qed.

Lemma bytes_ok_firstn l n : bytes_ok l = true -> bytes_ok (firstn n l) = true.
Proof.
  revert n; induction l as [|x l IH]; intros [|n] H; cbn [firstn]; try reflexivity.
  rewrite bytes_ok_cons in *. apply andb_true_iff in H as [H1 H2]. now rewrite H1, IH.
Qed.

Lemma bytes_ok_skipn l n : bytes_ok l = true -> bytes_ok (skipn n l) = true.
Proof.
  revert n; induction l as [|x l IH]; intros [|n] H; cbn [skipn]; try assumption.
  rewrite bytes_ok_cons in H. apply andb_true_iff in H as [H1 H2]. now apply IH.
Qed.

(* rd16 of a be16-prefixed string, value in range *)
Lemma rd16_be16_app' x r : x < 65536 -> rd16 (be16 x ++ r) = x.
Proof. intros H. rewrite rd16_be16_app. apply N.mod_small; assumption. Qed.

(* ---- the one-bit masks: flags&m != 0 is a bit test ---- *)
Lemma has_pow2 f k : has f (2 ^ k) = N.testbit f k.
Proof.
  unfold has.
  destruct (N.testbit f k) eqn:E.
  - apply negb_true_iff, N.eqb_neq. intros H0.
    assert (Hb : N.testbit (N.land f (2 ^ k)) k = false) by (rewrite H0; apply N.bits_0).
    rewrite N.land_spec, E, N.pow2_bits_true in Hb. discriminate.
  - apply negb_false_iff, N.eqb_eq. apply N.bits_inj_0. intros m.
    rewrite N.land_spec. destruct (N.eq_dec m k) as [->|Hne].
    + rewrite E. reflexivity.
    + rewrite N.pow2_bits_false by congruence. apply andb_false_r.
Qed.

(* setting/clearing some other bit does not change a bit test *)
Lemma has_lor_other f k j : j <> k -> has (N.lor f (2 ^ j)) (2 ^ k) = has f (2 ^ k).
Proof.
  intros Hne. rewrite !has_pow2, N.lor_spec, N.pow2_bits_false by congruence. apply orb_false_r.
Qed.

(* glyfAlign: the proofs below are for the value the code has now *)
Lemma align2 : glyf_glyfAlign = 2.
Proof. reflexivity. Qed.

Lemma pad_count_spec n : pad_count n = N.to_nat (n mod 2).
Proof. unfold pad_count. rewrite align2. lia. Qed.

Lemma pad_count_even n : n mod 2 = 0 -> pad_count n = 0%nat.
Proof. intros H. rewrite pad_count_spec, H. reflexivity. Qed.

Lemma pad_count_add n m : n mod 2 = 0 -> pad_count (n + m) = pad_count m.
Proof. intros H. rewrite !pad_count_spec. f_equal. lia. Qed.

Lemma pad_count_total n : (n + N.of_nat (pad_count n)) mod 2 = 0.
Proof. rewrite pad_count_spec. lia. Qed.

(* outcome helpers *)
Lemma obind_ok_eq {A B} (x : outcome A) (f : A -> outcome B) a :
  x = Ok a -> obind x f = f a.
Proof. intros ->. reflexivity. Qed.

(* induction on the length of a list *)
Lemma list_len_ind {A} (P : list A -> Prop) :
  (forall l, (forall l', (length l' < length l)%nat -> P l') -> P l) -> forall l, P l.
Proof.
  intros H l. remember (length l) as n eqn:Hn. revert l Hn.
  induction n as [n IH] using lt_wf_ind. intros l ->. apply H.
  intros l' Hl. exact (IH (length l') Hl l' eq_refl).
Qed.

Lemma get_0 a l : get (a :: l) 0 = Ok a.
Proof. reflexivity. Qed.
Lemma get_1 a b l : get (a :: b :: l) 1 = Ok b.
Proof. reflexivity. Qed.
