(* C11/Proofs_loca.v — encodeLoca / decodeLoca. *)
From Coq Require Import List NArith ZArith Bool Arith Lia.
From Coq Require Import ZifyBool ZifyNat ZifyN.
From Common Require Import Bytes Outcome.
From Gen Require Import C11.
From C11 Require Import Model Util.
Import ListNotations.
Ltac Zify.zify_post_hook ::= Z.div_mod_to_equations.
Local Open Scope N_scope.

(* offsets non-decreasing, starting at or above prev *)
Fixpoint mono_from (prev : N) (offs : list N) : Prop :=
  match offs with
  | [] => True
  | o :: r => prev <= o /\ mono_from o r
  end.

Definition all_even (offs : list N) : Prop := Forall (fun o => o mod 2 = 0) offs.
Definition all_le (b : N) (offs : list N) : Prop := Forall (fun o => o <= b) offs.

Lemma shortLocaMax_val : glyf_shortLocaMax = 65535.
Proof. reflexivity. Qed.

Lemma last_indep {A} (l : list A) x d d' : last (x :: l) d = last (x :: l) d'.
Proof. revert x; induction l as [|y l IH]; intros x; cbn [last]; [reflexivity|apply IH]. Qed.

Lemma mono_from_le_last prev offs : mono_from prev offs -> prev <= last offs prev.
Proof.
  revert prev; induction offs as [|o r IH]; intros prev H.
  - cbn [last]. lia.
  - destruct H as [H1 H2]. specialize (IH o H2).
    destruct r as [|o' r'].
    + cbn [last]. lia.
    + change (last (o :: o' :: r') prev) with (last (o' :: r') prev).
      rewrite (last_indep r' o' prev o). lia.
Qed.

(* every element of a non-decreasing list is below its last element *)
Lemma mono_all_le_last prev offs :
  mono_from prev offs -> all_le (last offs prev) offs.
Proof.
  revert prev; induction offs as [|o r IH]; intros prev H; [constructor|].
  destruct H as [H1 H2]. specialize (IH o H2).
  pose proof (mono_from_le_last o r H2) as Hl.
  destruct r as [|o' r'].
  - cbn [last]. constructor; [lia|constructor].
  - change (last (o :: o' :: r') prev) with (last (o' :: r') prev).
    rewrite (last_indep r' o' prev o).
    constructor; [exact Hl|exact IH].
Qed.

Lemma all_le_weaken b b' offs : b <= b' -> all_le b offs -> all_le b' offs.
Proof. intros Hb H. eapply Forall_impl; [|exact H]. cbn; intros; lia. Qed.

Lemma dec_loca0_enc offs : forall prev glen,
  mono_from prev offs -> all_even offs -> all_le glen offs -> all_le 131070 offs ->
  dec_loca0 (flat_map (fun off => be16 (off / 2)) offs) prev glen = Ok offs.
Proof.
  induction offs as [|o r IH]; intros prev glen Hm He Hl Hs; [reflexivity|].
  destruct Hm as [Hm1 Hm2]. inversion He as [|? ? He1 He2]; subst.
  inversion Hl as [|? ? Hl1 Hl2]; subst. inversion Hs as [|? ? Hs1 Hs2]; subst.
  cbn [flat_map]. unfold be16 at 1. cbn [app dec_loca0].
  assert (Hpos : 2 * ((o / 2 / 256) mod 256 * 256 + (o / 2) mod 256) = o) by lia.
  rewrite Hpos.
  assert (Hc : (o <? prev) || (glen <? o) = false) by lia.
  rewrite Hc. rewrite (IH o glen Hm2 He2 Hl2 Hs2). reflexivity.
Qed.

Lemma dec_loca1_enc offs : forall prev glen,
  mono_from prev offs -> all_le glen offs -> all_le 4294967295 offs ->
  dec_loca1 (flat_map be32 offs) prev glen = Ok offs.
Proof.
  induction offs as [|o r IH]; intros prev glen Hm Hl Hs; [reflexivity|].
  destruct Hm as [Hm1 Hm2].
  inversion Hl as [|? ? Hl1 Hl2]; subst. inversion Hs as [|? ? Hs1 Hs2]; subst.
  cbn [flat_map]. unfold be32 at 1. cbn [app dec_loca1].
  assert (Hpos : (o / 16777216) mod 256 * 16777216 + (o / 65536) mod 256 * 65536 +
                 (o / 256) mod 256 * 256 + o mod 256 = o) by lia.
  rewrite Hpos.
  assert (Hc : (o <? prev) || (glen <? o) = false) by lia.
  rewrite Hc. rewrite (IH o glen Hm2 Hl2 Hs2). reflexivity.
Qed.

Lemma len_flat_map_const {A} (f : A -> bytes) k l :
  (forall x, len (f x) = k) -> len (flat_map f l) = k * len l.
Proof.
  intros Hf. induction l as [|x l IH]; [cbn; lia|].
  cbn [flat_map]. rewrite len_app, Hf, IH, len_cons. lia.
Qed.

(* encodeLoca never panics on a non-empty slice, and announces format 0
   exactly when the last offset is <= shortLocaMax *)
Lemma encode_loca_ok offs : offs <> [] ->
  exists loca fmt, M_encode_loca offs = Ok (loca, fmt) /\
    (fmt = 0%Z <-> last offs 0 <= glyf_shortLocaMax) /\ (fmt = 0%Z \/ fmt = 1%Z) /\
    len loca = (if (fmt =? 0)%Z then 2 else 4) * len offs.
Proof.
  intros Hne. destruct offs as [|o r]; [congruence|].
  unfold M_encode_loca.
  destruct (last (o :: r) 0 <=? glyf_shortLocaMax) eqn:E.
  - eexists _, _; split; [reflexivity|]. repeat split; try tauto; try lia.
    cbn [Z.eqb]. apply len_flat_map_const. reflexivity.
  - eexists _, _; split; [reflexivity|]. repeat split; try lia; try (right; reflexivity).
    cbn [Z.eqb]. apply len_flat_map_const. reflexivity.
Qed.

(* decodeLoca inverts encodeLoca on well-formed offsets *)
Lemma loca_roundtrip offs glen :
  (2 <= length offs)%nat ->
  mono_from 0 offs -> all_even offs -> last offs 0 <= glen -> last offs 0 < 4294967296 ->
  exists loca fmt, M_encode_loca offs = Ok (loca, fmt) /\
    M_decode_loca fmt loca glen = Ok offs.
Proof.
  intros Hlen Hm He Hl Hs.
  assert (Hne : offs <> []) by (destruct offs; cbn in Hlen; [lia|congruence]).
  pose proof (mono_all_le_last 0 offs Hm) as Hall.
  destruct offs as [|o r]; [congruence|].
  unfold M_encode_loca.
  destruct (last (o :: r) 0 <=? glyf_shortLocaMax) eqn:E.
  - eexists _, _; split; [reflexivity|].
    unfold M_decode_loca. cbn [Z.eqb].
    rewrite (len_flat_map_const _ 2) by reflexivity.
    assert (Hl2 : 2 <= len (o :: r)) by (unfold len; lia).
    assert (Hc : (2 * len (o :: r) <? 4) || negb ((2 * len (o :: r)) mod 2 =? 0) = false) by lia.
    rewrite Hc. apply dec_loca0_enc; try assumption.
    + eapply all_le_weaken; [|exact Hall]. exact Hl.
    + eapply all_le_weaken; [|exact Hall]. rewrite shortLocaMax_val in E. lia.
  - eexists _, _; split; [reflexivity|].
    unfold M_decode_loca. cbn [Z.eqb].
    rewrite (len_flat_map_const _ 4) by reflexivity.
    assert (Hl2 : 2 <= len (o :: r)) by (unfold len; lia).
    assert (Hc : (4 * len (o :: r) <? 8) || negb ((4 * len (o :: r)) mod 4 =? 0) = false) by lia.
    rewrite Hc. apply dec_loca1_enc; try assumption.
    + eapply all_le_weaken; [|exact Hall]. exact Hl.
    + eapply all_le_weaken; [|exact Hall]. lia.
Qed.

(* whatever decodeLoca accepts is non-decreasing and inside the glyf data
   (this is what makes the slicing in Decode safe) *)
Lemma dec_loca0_sound l : forall prev glen offs,
  dec_loca0 l prev glen = Ok offs -> mono_from prev offs /\ all_le glen offs /\ all_even offs.
Proof.
  induction l as [l IH] using list_len_ind.
  intros prev glen offs H.
  destruct l as [|a [|b r]]; cbn [dec_loca0] in H; try (inversion H; subst; repeat split; constructor).
  set (pos := 2 * (a * 256 + b)) in *.
  destruct ((pos <? prev) || (glen <? pos)) eqn:E; [discriminate|].
  destruct (dec_loca0 r pos glen) as [offs'| | |] eqn:E2; cbn [obind] in H; try discriminate.
  inversion H; subst. destruct (IH r ltac:(cbn; lia) _ _ _ E2) as (H1 & H2 & H3).
  split; [|split].
  - cbn [mono_from]. split; [lia|exact H1].
  - constructor; [lia|exact H2].
  - constructor; [unfold pos; lia|exact H3].
Qed.

Lemma dec_loca1_sound l : forall prev glen offs,
  dec_loca1 l prev glen = Ok offs -> mono_from prev offs /\ all_le glen offs.
Proof.
  induction l as [l IH] using list_len_ind.
  intros prev glen offs H.
  destruct l as [|a [|b [|c [|d r]]]]; cbn [dec_loca1] in H; try (inversion H; subst; repeat split; constructor).
  set (pos := a * 16777216 + b * 65536 + c * 256 + d) in *.
  destruct ((pos <? prev) || (glen <? pos)) eqn:E; [discriminate|].
  destruct (dec_loca1 r pos glen) as [offs'| | |] eqn:E2; cbn [obind] in H; try discriminate.
  inversion H; subst. destruct (IH r ltac:(cbn; lia) _ _ _ E2) as (H1 & H2).
  split.
  - cbn [mono_from]. split; [lia|exact H1].
  - constructor; [lia|exact H2].
Qed.

Lemma decode_loca_sound fmt loca glen offs :
  M_decode_loca fmt loca glen = Ok offs -> mono_from 0 offs /\ all_le glen offs.
Proof.
  unfold M_decode_loca. intros H.
  destruct (fmt =? 0)%Z.
  - destruct ((len loca <? 4) || negb (len loca mod 2 =? 0)); [discriminate|].
    apply dec_loca0_sound in H. tauto.
  - destruct (fmt =? 1)%Z; [|discriminate].
    destruct ((len loca <? 8) || negb (len loca mod 4 =? 0)); [discriminate|].
    now apply dec_loca1_sound in H.
Qed.

Lemma dec_loca0_no_panic l : forall prev glen, dec_loca0 l prev glen <> Panic /\ dec_loca0 l prev glen <> OutOfFuel.
Proof.
  induction l as [l IH] using list_len_ind.
  intros prev glen.
  destruct l as [|a [|b r]]; cbn [dec_loca0]; try (split; discriminate).
  destruct ((2 * (a * 256 + b) <? prev) || (glen <? 2 * (a * 256 + b))); [split; discriminate|].
  destruct (IH r ltac:(cbn; lia) (2 * (a * 256 + b)) glen) as [H1 H2].
  destruct (dec_loca0 r (2 * (a * 256 + b)) glen); cbn [obind]; try (split; discriminate); split; congruence.
Qed.

Lemma dec_loca1_no_panic l : forall prev glen, dec_loca1 l prev glen <> Panic /\ dec_loca1 l prev glen <> OutOfFuel.
Proof.
  induction l as [l IH] using list_len_ind.
  intros prev glen.
  destruct l as [|a [|b [|c [|d r]]]]; cbn [dec_loca1]; try (split; discriminate).
  set (pos := a * 16777216 + b * 65536 + c * 256 + d).
  destruct ((pos <? prev) || (glen <? pos)); [split; discriminate|].
  destruct (IH r ltac:(cbn; lia) pos glen) as [H1 H2].
  destruct (dec_loca1 r pos glen); cbn [obind]; try (split; discriminate); split; congruence.
Qed.

Lemma decode_loca_no_panic fmt loca glen :
  M_decode_loca fmt loca glen <> Panic /\ M_decode_loca fmt loca glen <> OutOfFuel.
Proof.
  unfold M_decode_loca.
  destruct (fmt =? 0)%Z.
  - destruct ((len loca <? 4) || negb (len loca mod 2 =? 0)); [split; discriminate|apply dec_loca0_no_panic].
  - destruct (fmt =? 1)%Z; [|split; discriminate].
    destruct ((len loca <? 8) || negb (len loca mod 4 =? 0)); [split; discriminate|apply dec_loca1_no_panic].
Qed.
