(* C11/Proofs_glyf.v — Glyphs.Encode followed by glyf.Decode. *)
From Coq Require Import List NArith ZArith Bool Arith Lia.
From Coq Require Import ZifyBool ZifyNat ZifyN.
From Common Require Import Bytes Outcome.
From Gen Require Import C11.
From C11 Require Import Model Util Proofs_loca Proofs_pad.
Import ListNotations.
Ltac Zify.zify_post_hook ::= Z.div_mod_to_equations.
Local Open Scope N_scope.

(* ---------- lengths ---------- *)

Lemma len_enc_header g : len (enc_header g) = 10.
Proof. reflexivity. Qed.

Lemma length_enc_header g : length (enc_header g) = 10%nat.
Proof. reflexivity. Qed.

Lemma len_enc_component c : len (enc_component c) = 4 + len (c_data c).
Proof. unfold enc_component. rewrite !len_app, !len_be16. lia. Qed.

Lemma fold_left_sum cs : forall a,
  fold_left (fun t c => t + (4 + len (c_data c))) cs a = a + len (flat_map enc_component cs).
Proof.
  induction cs as [|c cs IH]; intros a; cbn [fold_left flat_map].
  - rewrite len_nil. lia.
  - rewrite IH, len_app, len_enc_component. lia.
Qed.

Lemma len_enc_ins ins : len (enc_ins ins) = match ins with None => 0 | Some i => 2 + len i end.
Proof. destruct ins; cbn [enc_ins]; [rewrite len_app, len_be16|rewrite len_nil]; lia. Qed.

(* encodeLen agrees with what append writes, at every even buffer length *)
Lemma encode_len_eq n g : n mod 2 = 0 -> M_encode_len g = len (enc_glyph_at n g).
Proof.
  intros Hn. destruct g as [g|]; [|reflexivity].
  unfold M_encode_len, enc_glyph_at.
  rewrite len_app, len_repeat, (pad_count_add n) by exact Hn.
  rewrite len_app, len_enc_header.
  assert (Hb : len (enc_body (g_data g)) =
               match g_data g with
               | Simple _ e => len e
               | Composite cs ins =>
                   fold_left (fun t c => t + (4 + len (c_data c))) cs 0 +
                   match ins with None => 0 | Some i => 2 + len i end
               end).
  { destruct (g_data g) as [nc e|cs ins]; cbn [enc_body]; [reflexivity|].
    rewrite len_app, fold_left_sum, len_enc_ins. lia. }
  rewrite <- Hb. reflexivity.
Qed.

Lemma enc_glyph_even n g : n mod 2 = 0 -> (n + len (enc_glyph_at n g)) mod 2 = 0.
Proof.
  intros Hn. destruct g as [g|]; cbn [enc_glyph_at]; [|rewrite len_nil; lia].
  rewrite len_app, len_repeat.
  pose proof (pad_count_total (n + len (enc_header g ++ enc_body (g_data g)))). lia.
Qed.

(* M_encode's byte string is what folding append over the glyphs produces *)
Lemma enc_all_fold gg : forall buf, fold_left M_append gg buf = buf ++ enc_all (len buf) gg.
Proof.
  induction gg as [|g r IH]; intros buf; cbn [fold_left enc_all].
  - now rewrite app_nil_r.
  - rewrite IH. unfold M_append. rewrite len_app, <- app_assoc. reflexivity.
Qed.

(* ---------- offsets ---------- *)

Lemma scan_offs_hd cur gg : exists t, scan_offs cur gg = cur :: t.
Proof. destruct gg; cbn [scan_offs]; eauto. Qed.

Lemma scan_offs_length cur gg : length (scan_offs cur gg) = S (length gg).
Proof. revert cur; induction gg as [|g r IH]; intros cur; cbn [scan_offs length]; [reflexivity|]. now rewrite IH. Qed.

Lemma scan_offs_props gg : forall cur, cur mod 2 = 0 ->
  mono_from cur (scan_offs cur gg) /\ all_even (scan_offs cur gg) /\
  last (scan_offs cur gg) 0 = cur + len (enc_all cur gg).
Proof.
  induction gg as [|g r IH]; intros cur Hc; cbn [scan_offs enc_all].
  - cbn [mono_from last]. rewrite len_nil. repeat split; try lia. constructor; [exact Hc|constructor].
  - rewrite (encode_len_eq cur g Hc).
    destruct (IH (cur + len (enc_glyph_at cur g)) (enc_glyph_even cur g Hc)) as (H1 & H2 & H3).
    destruct (scan_offs_hd (cur + len (enc_glyph_at cur g)) r) as [t Ht].
    rewrite Ht in *. split; [|split].
    + cbn [mono_from] in *. repeat split; try lia; tauto.
    + constructor; assumption.
    + change (last (cur :: (cur + len (enc_glyph_at cur g)) :: t) 0)
        with (last ((cur + len (enc_glyph_at cur g)) :: t) 0).
      rewrite H3, len_app. lia.
Qed.

(* ---------- one glyph ---------- *)

Lemma i16_hd z r : in16 z = true -> to_i16 (rd16 (be16 (of_i16 z) ++ r)) = z.
Proof.
  unfold in16. intros H. rewrite rd16_be16_app.
  rewrite N.mod_small by apply of_i16_bound. apply to_i16_of_i16. lia.
Qed.

Lemma comp_skip_even f : comp_skip f mod 2 = 0.
Proof.
  unfold comp_skip.
  destruct (has f glyf_FlagArg1And2AreWords), (has f glyf_FlagWeHaveAScale),
    (has f glyf_FlagWeHaveAnXAndYScale), (has f glyf_FlagWeHaveATwoByTwo); reflexivity.
Qed.

Lemma len_comps_even cs : forallb nf_component cs = true -> len (flat_map enc_component cs) mod 2 = 0.
Proof.
  induction cs as [|c cs IH]; intros H; [reflexivity|].
  cbn [forallb] in H. apply andb_true_iff in H as [Hc Hr].
  cbn [flat_map]. rewrite len_app, len_enc_component.
  unfold nf_component in Hc. pose proof (comp_skip_even (c_flags c)). specialize (IH Hr). lia.
Qed.

(* the component loop reads back the components that were written *)
Lemma dec_comps_enc cs : forall rest fuel,
  forallb nf_component cs = true -> nf_more cs = true ->
  (length (flat_map enc_component cs ++ rest) < fuel)%nat ->
  dec_comps fuel (flat_map enc_component cs ++ rest) =
    Ok (cs, existsb (fun c => has (c_flags c) glyf_FlagWeHaveInstructions) cs, rest).
Proof.
  induction cs as [|c cs IH]; intros rest fuel Hnf Hmore Hfuel; [discriminate|].
  destruct fuel as [|fuel]; [lia|].
  cbn [forallb] in Hnf. apply andb_true_iff in Hnf as [Hc Hr].
  unfold nf_component in Hc.
  destruct c as [flags gid data]. cbn [c_flags c_gid c_data] in *.
  assert (Hflags : flags < 65536) by lia. assert (Hgid : gid < 65536) by lia.
  assert (Hdata : len data = comp_skip flags) by lia.
  cbn [flat_map]. unfold enc_component at 1. cbn [c_flags c_gid c_data].
  rewrite <- !app_assoc.
  set (tail := flat_map enc_component cs ++ rest).
  cbn [dec_comps].
  assert (E4 : (len (be16 flags ++ be16 gid ++ data ++ tail) <? 4) = false)
    by (rewrite !len_app, !len_be16; lia).
  rewrite E4.
  rewrite (rd16_be16_app' flags _ Hflags).
  assert (Hs2 : skipn 2 (be16 flags ++ be16 gid ++ data ++ tail) = be16 gid ++ data ++ tail) by reflexivity.
  assert (Hs4 : skipn 4 (be16 flags ++ be16 gid ++ data ++ tail) = data ++ tail) by reflexivity.
  rewrite Hs2, Hs4, (rd16_be16_app' gid _ Hgid).
  assert (Es : (len (data ++ tail) <? comp_skip flags) = false) by (rewrite len_app; lia).
  rewrite Es.
  rewrite firstn_app_exact by (unfold len in Hdata; lia).
  rewrite skipn_app_exact by (unfold len in Hdata; lia).
  destruct cs as [|c' cs'].
  - cbn [nf_more c_flags] in Hmore. apply negb_true_iff in Hmore. rewrite Hmore.
    cbn [existsb c_flags]. rewrite orb_false_r. unfold tail. reflexivity.
  - cbn [nf_more c_flags] in Hmore. apply andb_true_iff in Hmore as [Hm1 Hm2]. rewrite Hm1.
    unfold tail. rewrite IH; try assumption.
    + cbn [obind existsb c_flags]. reflexivity.
    + change (flat_map enc_component ({| c_flags := flags; c_gid := gid; c_data := data |} :: c' :: cs'))
        with (enc_component {| c_flags := flags; c_gid := gid; c_data := data |} ++ flat_map enc_component (c' :: cs')) in Hfuel.
      unfold enc_component at 1 in Hfuel. rewrite !app_length in Hfuel.
      cbn [be16 length c_flags c_gid c_data] in Hfuel. rewrite app_length. lia.
Qed.

Lemma decode_composite_enc cs ins pad :
  forallb nf_component cs = true -> nf_more cs = true ->
  match ins with
  | None => pad = []
  | Some i => existsb (fun c => has (c_flags c) glyf_FlagWeHaveInstructions) cs = true /\
              len i < 65536 /\ (pad = [] \/ pad = [0])
  end ->
  M_decode_composite (flat_map enc_component cs ++ enc_ins ins ++ pad) = Ok (Composite cs ins).
Proof.
  intros Hnf Hmore Hins. unfold M_decode_composite.
  rewrite dec_comps_enc by (try assumption; lia). cbn [obind].
  destruct ins as [i|].
  - destruct Hins as (Hwh & Hl & Hpad). rewrite Hwh. cbn [enc_ins]. rewrite <- app_assoc.
    assert (E2 : (2 <=? len (be16 (len i) ++ i ++ pad)) = true) by (rewrite len_app, len_be16; lia).
    rewrite E2. cbn [andb].
    rewrite (rd16_be16_app' (len i) _ Hl).
    assert (Hs : skipn 2 (be16 (len i) ++ i ++ pad) = i ++ pad) by reflexivity. rewrite Hs.
    do 2 f_equal. f_equal.
    destruct Hpad as [-> | ->].
    + rewrite app_nil_r. rewrite N.ltb_irrefl. reflexivity.
    + assert (E : (len i <? len (i ++ [0])) = true) by (rewrite len_app, len_cons, len_nil; lia).
      rewrite E. apply firstn_app_exact. unfold len. lia.
  - subst pad. cbn [enc_ins app]. rewrite len_nil. cbn [N.leb]. rewrite andb_false_r. reflexivity.
Qed.

Lemma repeat0_cases k : (k <= 1)%nat -> repeat 0 k = [] \/ repeat 0 k = [0].
Proof. intros H. destruct k as [|[|k]]; [left|right|lia]; reflexivity. Qed.

Lemma pad_count_le1 n : (pad_count n <= 1)%nat.
Proof. rewrite pad_count_spec. lia. Qed.

(* decodeGlyph inverts append for glyphs in normal form, wherever the glyph
   sits in the (even-length) buffer *)
Lemma decode_glyph_enc n g : n mod 2 = 0 -> nf_glyph g = true ->
  M_decode_glyph (enc_glyph_at n g) = Ok g.
Proof.
  intros Hn Hnf. destruct g as [g|]; [|reflexivity].
  cbn [nf_glyph] in Hnf. apply andb_true_iff in Hnf as [Hbox Hdata].
  unfold nf_box in Hbox. apply andb_true_iff in Hbox as [Hbox Hb4]. apply andb_true_iff in Hbox as [Hbox Hb3].
  apply andb_true_iff in Hbox as [Hb1 Hb2].
  unfold enc_glyph_at. set (body := enc_body (g_data g)).
  set (pad := repeat 0 (pad_count (n + len (enc_header g ++ body)))).
  unfold M_decode_glyph.
  assert (Hl : len ((enc_header g ++ body) ++ pad) = 10 + len body + len pad)
    by (rewrite !len_app, len_enc_header; lia).
  assert (E0 : (len ((enc_header g ++ body) ++ pad) =? 0) = false) by lia.
  assert (E1 : (len ((enc_header g ++ body) ++ pad) <? glyf_headerLen) = false)
    by (change glyf_headerLen with 10; lia).
  rewrite E0, E1.
  assert (Hsk : skipn 10 ((enc_header g ++ body) ++ pad) = body ++ pad).
  { rewrite <- app_assoc. apply skipn_app_exact. reflexivity. }
  rewrite Hsk.
  assert (Hnc : i16_at ((enc_header g ++ body) ++ pad) 0 = enc_numcont (g_data g) \/ True) by (right; exact I).
  clear Hnc.
  unfold i16_at. unfold enc_header. rewrite <- !app_assoc.
  set (tl := body ++ pad).
  (* the five header fields *)
  assert (F2 : skipn 2 (be16 (of_i16 (enc_numcont (g_data g))) ++ be16 (of_i16 (llx (g_box g))) ++
                 be16 (of_i16 (lly (g_box g))) ++ be16 (of_i16 (urx (g_box g))) ++
                 be16 (of_i16 (ury (g_box g))) ++ tl) =
               be16 (of_i16 (llx (g_box g))) ++ be16 (of_i16 (lly (g_box g))) ++
                 be16 (of_i16 (urx (g_box g))) ++ be16 (of_i16 (ury (g_box g))) ++ tl) by reflexivity.
  assert (F4 : skipn 4 (be16 (of_i16 (enc_numcont (g_data g))) ++ be16 (of_i16 (llx (g_box g))) ++
                 be16 (of_i16 (lly (g_box g))) ++ be16 (of_i16 (urx (g_box g))) ++
                 be16 (of_i16 (ury (g_box g))) ++ tl) =
               be16 (of_i16 (lly (g_box g))) ++
                 be16 (of_i16 (urx (g_box g))) ++ be16 (of_i16 (ury (g_box g))) ++ tl) by reflexivity.
  assert (F6 : skipn 6 (be16 (of_i16 (enc_numcont (g_data g))) ++ be16 (of_i16 (llx (g_box g))) ++
                 be16 (of_i16 (lly (g_box g))) ++ be16 (of_i16 (urx (g_box g))) ++
                 be16 (of_i16 (ury (g_box g))) ++ tl) =
                 be16 (of_i16 (urx (g_box g))) ++ be16 (of_i16 (ury (g_box g))) ++ tl) by reflexivity.
  assert (F8 : skipn 8 (be16 (of_i16 (enc_numcont (g_data g))) ++ be16 (of_i16 (llx (g_box g))) ++
                 be16 (of_i16 (lly (g_box g))) ++ be16 (of_i16 (urx (g_box g))) ++
                 be16 (of_i16 (ury (g_box g))) ++ tl) =
                 be16 (of_i16 (ury (g_box g))) ++ tl) by reflexivity.
  rewrite F2, F4, F6, F8. cbn [skipn].
  rewrite (i16_hd (llx (g_box g))), (i16_hd (lly (g_box g))), (i16_hd (urx (g_box g))), (i16_hd (ury (g_box g))) by assumption.
  destruct g as [[bx0 by0 bx1 by1] d]. cbn [g_data g_box llx lly urx ury] in *.
  destruct d as [nc e|cs ins]; cbn [enc_numcont nf_gdata enc_body] in *.
  - (* simple *)
    repeat (apply andb_true_iff in Hdata as [Hdata ?]).
    rewrite i16_hd by (unfold in16; lia).
    assert (E : (0 <=? nc)%Z = true) by lia. rewrite E.
    unfold tl, body.
    rewrite remove_padding_exact_lemma.
    + reflexivity.
    + unfold tight in *. destruct (walk nc e) as [p| | |]; try discriminate. f_equal. lia.
  - (* composite *)
    apply andb_true_iff in Hdata as [Hdata Hins]. apply andb_true_iff in Hdata as [Hcs Hmore].
    rewrite i16_hd by reflexivity. cbn [Z.leb Z.compare].
    unfold tl, body. rewrite <- app_assoc.
    rewrite decode_composite_enc; try assumption; [reflexivity|].
    destruct ins as [i|].
    + repeat (apply andb_true_iff in Hins as [Hins ?]).
      split; [assumption|]. split; [lia|]. apply repeat0_cases, pad_count_le1.
    + unfold pad. rewrite pad_count_even; [reflexivity|].
      rewrite len_app, len_enc_header. unfold body. rewrite len_app, len_enc_ins.
      pose proof (len_comps_even cs Hcs). lia.
Qed.

(* ---------- the glyph list ---------- *)

Lemma slice_n_mid {A} (pre d post : list A) :
  slice_n (pre ++ d ++ post) (len (pre ++ d ++ post)) (len pre) (len pre + len d) = Ok d.
Proof.
  unfold slice_n.
  assert (E : (len pre <=? len pre + len d) && (len pre + len d <=? len (pre ++ d ++ post)) = true)
    by (rewrite !len_app; lia).
  rewrite E. f_equal.
  rewrite skipn_app_exact by (unfold len; lia).
  apply firstn_app_exact. unfold len. lia.
Qed.

Lemma dec_glyphs_cons2 glyf glen a b t :
  dec_glyphs glyf glen (a :: b :: t) =
  (d <- slice_n glyf glen a b ;; g <- M_decode_glyph d ;;
   gs <- dec_glyphs glyf glen (b :: t) ;; Ok (g :: gs)).
Proof. reflexivity. Qed.

Lemma dec_glyphs_enc gg : forall pre,
  len pre mod 2 = 0 -> forallb nf_glyph gg = true ->
  dec_glyphs (pre ++ enc_all (len pre) gg) (len (pre ++ enc_all (len pre) gg)) (scan_offs (len pre) gg) = Ok gg.
Proof.
  induction gg as [|g r IH]; intros pre Hp Hnf; [reflexivity|].
  cbn [forallb] in Hnf. apply andb_true_iff in Hnf as [Hg Hr].
  cbn [scan_offs enc_all].
  rewrite (encode_len_eq (len pre) g Hp).
  set (d := enc_glyph_at (len pre) g).
  destruct (scan_offs_hd (len pre + len d) r) as [t Ht].
  pose proof (IH (pre ++ d)) as IH'. rewrite len_app in IH'.
  specialize (IH' (enc_glyph_even _ g Hp) Hr).
  rewrite Ht in *. rewrite dec_glyphs_cons2.
  rewrite slice_n_mid. cbn [obind].
  unfold d at 1. rewrite decode_glyph_enc by assumption. cbn [obind].
  rewrite <- app_assoc in IH'. rewrite IH'. reflexivity.
Qed.

(* Encode never fails; its loca table is well-formed and decodes to the
   offsets Encode computed *)
Lemma encode_total gg : exists e, M_encode gg = Ok e /\ e_glyf e = enc_all 0 gg.
Proof.
  unfold M_encode.
  destruct (scan_offs_hd 0 gg) as [t Ht].
  destruct (encode_loca_ok (scan_offs 0 gg)) as (loca & fmt & E & _); [rewrite Ht; discriminate|].
  rewrite E. cbn [obind fst snd]. eexists; split; reflexivity.
Qed.

Lemma loca_wf_lemma gg e :
  gg <> [] -> M_encode gg = Ok e -> len (e_glyf e) < 4294967296 ->
  let offs := scan_offs 0 gg in
  mono_from 0 offs /\ all_even offs /\ all_le (len (e_glyf e)) offs /\
  hd 0 offs = 0 /\ last offs 0 = len (e_glyf e) /\ length offs = S (length gg) /\
  (e_fmt e = 0%Z <-> len (e_glyf e) <= glyf_shortLocaMax) /\ (e_fmt e = 0%Z \/ e_fmt e = 1%Z) /\
  len (e_loca e) = (if (e_fmt e =? 0)%Z then 2 else 4) * (len gg + 1) /\
  M_decode_loca (e_fmt e) (e_loca e) (len (e_glyf e)) = Ok offs.
Proof.
  intros Hne He Hlt offs.
  destruct (scan_offs_props gg 0 eq_refl) as (Hm & Hev & Hlast). fold offs in Hm, Hev, Hlast.
  rewrite N.add_0_l in Hlast.
  unfold M_encode in He. fold offs in He.
  assert (Hlen : length offs = S (length gg)) by apply scan_offs_length.
  assert (Hne' : offs <> []) by (destruct offs; [discriminate Hlen|discriminate]).
  destruct (encode_loca_ok offs Hne') as (loca & fmt & E & Hf & Hf01 & Hll).
  rewrite E in He. cbn [obind fst snd] in He. injection He as <-. cbn [e_glyf e_loca e_fmt] in *.
  rewrite Hlast in Hf.
  assert (H2 : (2 <= length offs)%nat) by (destruct gg; [congruence|cbn [length] in Hlen; lia]).
  destruct (loca_roundtrip offs (len (enc_all 0 gg)) H2 Hm Hev) as (loca' & fmt' & E' & Hd); try lia.
  rewrite E in E'. injection E' as <- <-.
  pose proof (mono_all_le_last 0 offs Hm) as Hall.
  destruct (scan_offs_hd 0 gg) as [t Ht]. fold offs in Ht.
  repeat split; try assumption; try tauto.
  - rewrite <- Hlast. exact Hall.
  - rewrite Ht. reflexivity.
  - rewrite Hll. unfold len. rewrite Hlen. lia.
Qed.

Lemma glyf_roundtrip_lemma gg :
  gg <> [] -> forallb nf_glyph gg = true -> len (enc_all 0 gg) < 4294967296 ->
  exists e, M_encode gg = Ok e /\ M_decode e = Ok gg.
Proof.
  intros Hne Hnf Hlt.
  destruct (encode_total gg) as (e & He & Hg).
  exists e. split; [exact He|].
  rewrite <- Hg in Hlt.
  destruct (loca_wf_lemma gg e Hne He Hlt) as (_ & _ & _ & _ & _ & _ & _ & _ & _ & Hd).
  unfold M_decode. rewrite Hd. cbn [obind]. rewrite Hg.
  exact (dec_glyphs_enc gg [] eq_refl Hnf).
Qed.

(* what decodeGlyph returns is in normal form when the input consists of bytes *)
