(* C11/Props.v — the property theorems (TrueType glyph data), stated against
   the constants the translator extracted from glyf/*.go on this run
   (Gen/C11.v).  Nothing else. *)
From Coq Require Import List NArith ZArith Bool Arith Lia.
From Common Require Import Bytes Outcome.
From Gen Require Import C11.
From C11 Require Import Model Spec Util Proofs_loca Proofs_total Proofs_pad Proofs_glyf
  Proofs_comp Proofs_simple Proofs_nf Proofs_size.
Import ListNotations.
Local Open Scope N_scope.

(* ---- loca ---------------------------------------------------------- *)

(* For every non-empty glyph list (any glyphs, normal form or not) whose
   encoding stays below 2^32 bytes: Encode succeeds; the offsets it computes
   start at 0, are non-decreasing, even, inside the glyf data and end at
   |glyf|; there is one more offset than glyphs; the announced format is 0
   exactly when |glyf| <= the threshold in encodeLoca (0xFFFF), else 1; the
   loca table has 2 resp. 4 bytes per entry; decodeLoca reads the offsets back. *)
Theorem loca_wf : forall gg e,
  gg <> [] -> M_encode gg = Ok e -> len (e_glyf e) < 4294967296 ->
  let offs := scan_offs 0 gg in
  mono_from 0 offs /\ all_even offs /\ all_le (len (e_glyf e)) offs /\
  hd 0 offs = 0 /\ last offs 0 = len (e_glyf e) /\ length offs = S (length gg) /\
  (e_fmt e = 0%Z <-> len (e_glyf e) <= glyf_shortLocaMax) /\ (e_fmt e = 0%Z \/ e_fmt e = 1%Z) /\
  len (e_loca e) = (if (e_fmt e =? 0)%Z then 2 else 4) * (len gg + 1) /\
  M_decode_loca (e_fmt e) (e_loca e) (len (e_glyf e)) = Ok offs.
Proof. exact loca_wf_lemma. Qed.
Print Assumptions loca_wf.

(* decodeLoca inverts encodeLoca on every offset list that is non-decreasing,
   even, ends inside the glyf data and below 2^32. *)
Theorem loca_roundtrip_offsets : forall offs glen,
  (2 <= length offs)%nat ->
  mono_from 0 offs -> all_even offs -> last offs 0 <= glen -> last offs 0 < 4294967296 ->
  exists loca fmt, M_encode_loca offs = Ok (loca, fmt) /\
    M_decode_loca fmt loca glen = Ok offs.
Proof. exact loca_roundtrip. Qed.
Print Assumptions loca_roundtrip_offsets.

(* Encode is total (never panics), also on the empty list. *)
Theorem encode_total : forall gg, exists e, M_encode gg = Ok e.
Proof. intros gg. destruct (Proofs_glyf.encode_total gg) as (e & H & _). eauto. Qed.
Print Assumptions encode_total.

(* ---- removePadding ------------------------------------------------- *)

(* For every tight glyph description e (the walk over end points,
   instructions, flags and coordinate sizes ends exactly at |e|) and every
   trailing byte string p - zero padding in particular - removePadding
   returns e. *)
Theorem remove_padding_exact : forall nc e p,
  walk nc e = Ok (len e) -> M_remove_padding nc (e ++ p) = Ok e.
Proof. exact remove_padding_exact_lemma. Qed.
Print Assumptions remove_padding_exact.

(* Whatever removePadding returns is a prefix of its input, is tight, and is
   a fixed point. *)
Theorem remove_padding_idempotent : forall nc b e,
  M_remove_padding nc b = Ok e ->
  (exists p, b = e ++ p) /\ walk nc e = Ok (len e) /\ M_remove_padding nc e = Ok e.
Proof.
  intros nc b e H. destruct (remove_padding_result nc b e H) as (p & Hp & Hw).
  split; [eauto|]. split; [exact Hw|]. exact (remove_padding_idempotent_lemma nc b e H).
Qed.
Print Assumptions remove_padding_idempotent.

(* ---- round trip ---------------------------------------------------- *)

(* For every non-empty list mixing nil glyphs, simple glyphs in normal form
   and composite glyphs in normal form (nf_glyph, a boolean predicate:
   Examples.v has inhabitants of each kind), of any length and any total size
   below 2^32: Decode (Encode gg) = gg, bit for bit - bounding boxes,
   numberOfContours, contour bytes, component flags / indices / argument
   bytes, instructions (nil distinguished from empty); nil stays nil. *)
Theorem glyf_roundtrip : forall gg,
  gg <> [] -> forallb nf_glyph gg = true -> len (enc_all 0 gg) < 4294967296 ->
  exists e, M_encode gg = Ok e /\ M_decode e = Ok gg.
Proof. exact glyf_roundtrip_lemma. Qed.
Print Assumptions glyf_roundtrip.

(* One glyph, wherever it sits in an even-length buffer. *)
Theorem glyph_roundtrip : forall n g,
  n mod 2 = 0 -> nf_glyph g = true -> M_decode_glyph (enc_glyph_at n g) = Ok g.
Proof. exact decode_glyph_enc. Qed.
Print Assumptions glyph_roundtrip.

(* M_encode's glyf bytes are those produced by folding Glyph.append. *)
Theorem encode_is_append_fold : forall gg e,
  M_encode gg = Ok e -> e_glyf e = fold_left M_append gg [].
Proof.
  intros gg e H. destruct (Proofs_glyf.encode_total gg) as (e' & H' & Hg).
  rewrite H in H'. injection H' as <-. rewrite Hg, enc_all_fold. reflexivity.
Qed.
Print Assumptions encode_is_append_fold.

(* Whatever Decode returns (from byte strings) is a non-empty list of glyphs in
   normal form; hence every decoded glyph set survives a further
   Encode/Decode round trip unchanged. *)
Theorem decode_gives_normal_form : forall e gg,
  bytes_ok (e_glyf e) = true -> M_decode e = Ok gg ->
  forallb nf_glyph gg = true /\ gg <> [].
Proof. exact decode_nf. Qed.
Print Assumptions decode_gives_normal_form.

Theorem decode_encode_decode : forall e gg,
  bytes_ok (e_glyf e) = true -> M_decode e = Ok gg -> len (enc_all 0 gg) < 4294967296 ->
  exists e', M_encode gg = Ok e' /\ M_decode e' = Ok gg.
Proof.
  intros e gg Hb H Hlt. destruct (decode_nf e gg Hb H) as [Hnf Hne].
  exact (glyf_roundtrip_lemma gg Hne Hnf Hlt).
Qed.
Print Assumptions decode_encode_decode.

(* ---- SimpleGlyph.Decode against the specification ------------------ *)

(* For every byte string b that the TrueType simple-glyph format (Spec.v:
   EncodesI, any legal per-point encoding, flag repeats or not) admits as a
   description of contours cs with instructions ins, and every trailing p:
   SimpleGlyph.Decode returns exactly cs and ins. *)
Theorem simple_decode_spec : forall cs ins b p,
  EncodesI cs ins b -> M_simple_decode (Z.of_N (len cs)) (b ++ p) = Ok (cs, ins).
Proof. exact simple_decode_spec_lemma. Qed.
Print Assumptions simple_decode_spec.

Theorem simple_decode_spec_contours : forall cs b,
  Encodes cs b -> exists ins, M_simple_decode (Z.of_N (len cs)) b = Ok (cs, ins).
Proof.
  intros cs b [ins H]. exists ins. rewrite <- (app_nil_r b). now apply simple_decode_spec_lemma.
Qed.
Print Assumptions simple_decode_spec_contours.

(* A description admitted by the specification is in normal form: it is
   tight, so glyf_roundtrip applies to it. *)
Theorem spec_glyph_is_normal_form : forall cs ins b,
  EncodesI cs ins b -> bytes_ok b = true -> nf_gdata (Simple (Z.of_N (len cs)) b) = true.
Proof.
  intros cs ins b H Hb. pose proof (encodes_tight cs ins b H) as Ht.
  destruct H as [cs ins fl fb xb yb Hnc _ _ _ _ _ _ _ _].
  cbn [nf_gdata]. unfold tight. rewrite Ht, Hb, N.eqb_refl.
  rewrite !andb_true_r. apply andb_true_iff. split; lia.
Qed.
Print Assumptions spec_glyph_is_normal_form.

(* SimpleGlyph.Decode (with the guards of fixes/C11-simple-decode-guards.diff)
   never panics: for every numberOfContours and every byte string - in
   particular for everything decodeGlyph accepts. *)
Theorem simple_decode_total : forall nc buf,
  M_simple_decode nc buf <> Panic /\ M_simple_decode nc buf <> OutOfFuel.
Proof. exact simple_decode_safe. Qed.
Print Assumptions simple_decode_total.

(* ---- Components / FixComponents ------------------------------------ *)

(* The component list of the rewritten glyph is the image of the original
   one; everything except the indices is unchanged; glyphs without
   components (nil, simple) are returned as they are. *)
Theorem components_fix : forall f g,
  components (fix_components f g) = map f (components g) /\
  forget_gids (fix_components f g) = forget_gids g /\
  (is_composite g = false -> fix_components f g = g).
Proof.
  intros f g. split; [apply components_fix_lemma|]. split; [apply fix_forget|apply fix_not_composite].
Qed.
Print Assumptions components_fix.

(* "everything except the indices" is all there is: a glyph is determined by
   its component list and its index-erased form. *)
Theorem glyph_determined_by_components : forall g1 g2,
  forget_gids g1 = forget_gids g2 -> components g1 = components g2 -> g1 = g2.
Proof. exact glyph_determined. Qed.
Print Assumptions glyph_determined_by_components.

(* ---- totality (feeds C02) ------------------------------------------ *)

(* glyf.Decode never panics and never runs out of fuel, on arbitrary glyf
   bytes, loca bytes and format values. *)
Theorem glyf_decode_total : forall e,
  M_decode e <> Panic /\ M_decode e <> OutOfFuel.
Proof. exact decode_safe. Qed.
Print Assumptions glyf_decode_total.

Theorem decode_glyph_total : forall data,
  M_decode_glyph data <> Panic /\ M_decode_glyph data <> OutOfFuel.
Proof. exact decode_glyph_safe. Qed.
Print Assumptions decode_glyph_total.

(* every offset pair Decode slices with is in bounds *)
Theorem decode_loca_sound : forall fmt loca glen offs,
  M_decode_loca fmt loca glen = Ok offs -> mono_from 0 offs /\ all_le glen offs.
Proof. exact Proofs_loca.decode_loca_sound. Qed.
Print Assumptions decode_loca_sound.

(* allocation is linear in the input: Decode creates one Glyph per loca slot
   (at most |loca|/2 - 1) and one GlyphComponent per component; the unpadded
   encodings of all returned glyphs together fit into the glyf data, and each
   component accounts for at least 4 of those bytes.  Everything else in the
   result is a sub-slice of the input. *)
Theorem decode_size_linear : forall e gg,
  M_decode e = Ok gg ->
  total_gsize gg <= len (e_glyf e) /\
  (2 * (length gg + 1) <= length (e_loca e))%nat /\
  Forall (fun g => 4 * ncomponents g <= gsize g) gg.
Proof.
  intros e gg H. destruct (decode_size e gg H) as [H1 H2]. split; [exact H1|]. split; [exact H2|].
  apply Forall_forall. intros g _. apply components_le_gsize.
Qed.
Print Assumptions decode_size_linear.
