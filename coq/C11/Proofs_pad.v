(* C11/Proofs_pad.v — removePadding cuts exactly at the end of the glyph
   description: trailing bytes never matter, the result is a fixed point. *)
From Coq Require Import List NArith ZArith Bool Arith Lia.
From Coq Require Import ZifyBool ZifyNat ZifyN.
From Common Require Import Bytes Outcome.
From Gen Require Import C11.
From C11 Require Import Model Util.
Import ListNotations.
Ltac Zify.zify_post_hook ::= Z.div_mod_to_equations.
Local Open Scope N_scope.

Lemma flag_walk_stop l i np cb u : np <= i -> flag_walk l i np cb u = Some (i, cb, u).
Proof.
  intros H. assert (E : (np <=? i) = true) by lia.
  destruct l; cbn [flag_walk]; rewrite E; reflexivity.
Qed.

(* the flag loop reads a prefix l1 of its input, of length used'-used, and
   does not care what follows *)
Lemma flag_walk_consumes l : forall i np cb u i' cb' u',
  flag_walk l i np cb u = Some (i', cb', u') ->
  exists l1 l2, l = l1 ++ l2 /\ u' = u + len l1 /\
    forall rest, flag_walk (l1 ++ rest) i np cb u = Some (i', cb', u').
Proof.
  induction l as [l IH] using list_len_ind. intros i np cb u i' cb' u' H.
  destruct (np <=? i) eqn:E.
  - rewrite flag_walk_stop in H by lia. injection H as <- <- <-.
    exists [], l. split; [reflexivity|]. split; [rewrite len_nil; lia|].
    intros rest. apply flag_walk_stop. lia.
  - destruct l as [|f l1]; cbn [flag_walk] in H; rewrite E in H; [discriminate|].
    destruct (has f glyf_flagRepeat) eqn:Er.
    + destruct l1 as [|c l2]; [discriminate|].
      destruct (IH l2 ltac:(cbn; lia) _ _ _ _ _ _ _ H) as (a1 & a2 & -> & Hu & Hr).
      exists (f :: c :: a1), a2. split; [reflexivity|]. split; [rewrite !len_cons; lia|].
      intros rest. cbn [app flag_walk]. rewrite E, Er. apply Hr.
    + destruct (IH l1 ltac:(cbn; lia) _ _ _ _ _ _ _ H) as (a1 & a2 & -> & Hu & Hr).
      exists (f :: a1), a2. split; [reflexivity|]. split; [rewrite !len_cons; lia|].
      intros rest. cbn [app flag_walk]. rewrite E, Er. apply Hr.
Qed.

Lemma get_app1 e p i : i < len e -> get (e ++ p) i = get e i.
Proof. unfold get, len. intros H. rewrite nth_error_app1 by lia. reflexivity. Qed.

Lemma nth_error_firstn_lt {A} (l : list A) k i : (i < k)%nat -> nth_error (firstn k l) i = nth_error l i.
Proof.
  revert k i; induction l as [|x l IH]; intros k i H.
  - rewrite firstn_nil. reflexivity.
  - destruct k; [lia|]. destruct i; cbn [firstn nth_error]; [reflexivity|]. apply IH. lia.
Qed.

Lemma get_firstn b k i : (N.to_nat i < k)%nat -> get (firstn k b) i = get b i.
Proof. unfold get. intros H. rewrite nth_error_firstn_lt by exact H. reflexivity. Qed.

(* walk, taken apart *)
Lemma walk_ok_iff nc buf pos :
  walk nc buf = Ok pos <->
  (0 <= nc)%Z /\ 2 * Z.to_N nc + 2 <= len buf /\
  exists np a b cb used,
    num_points (Z.to_N nc) buf = Ok np /\
    get buf (2 * Z.to_N nc) = Ok a /\ get buf (2 * Z.to_N nc + 1) = Ok b /\
    flag_walk (skipn (N.to_nat (2 * Z.to_N nc + 2 + (a * 256 + b))) buf) 0 np 0 0 = Some (np, cb, used) /\
    pos = 2 * Z.to_N nc + 2 + (a * 256 + b) + used + cb /\ pos <= len buf.
Proof.
  unfold walk. set (n := Z.to_N nc). split.
  - intros H.
    destruct (nc <? 0)%Z eqn:E0; [discriminate|].
    destruct (len buf <? 2 * n + 2) eqn:E1; [discriminate|].
    destruct (num_points n buf) as [np| | |]; cbn [obind] in H; try discriminate.
    destruct (get buf (2 * n)) as [a| | |]; cbn [obind] in H; try discriminate.
    destruct (get buf (2 * n + 1)) as [b| | |]; cbn [obind] in H; try discriminate.
    destruct (flag_walk _ 0 np 0 0) as [[[i cb] used]|] eqn:Ef; [|discriminate].
    destruct (negb (i =? np) || (len buf <? 2 * n + 2 + (a * 256 + b) + used + cb)) eqn:E2; [discriminate|].
    assert (i = np) as -> by lia.
    split; [lia|]. split; [lia|].
    exists np, a, b, cb, used. repeat split; try reflexivity; try exact Ef.
    + congruence.
    + assert (pos = 2 * n + 2 + (a * 256 + b) + used + cb) as -> by congruence. lia.
  - intros (H0 & H1 & np & a & b & cb & used & Hnp & Ha & Hb & Hf & -> & Hle).
    assert (E0 : (nc <? 0)%Z = false) by lia. rewrite E0.
    assert (E1 : (len buf <? 2 * n + 2) = false) by lia. rewrite E1.
    rewrite Hnp, Ha, Hb. cbn [obind]. rewrite Hf.
    assert (E2 : negb (np =? np) || (len buf <? 2 * n + 2 + (a * 256 + b) + used + cb) = false) by lia.
    rewrite E2. reflexivity.
Qed.

Lemma num_points_app n e p : 2 * n + 2 <= len e -> num_points n (e ++ p) = num_points n e.
Proof.
  intros H. unfold num_points. destruct (0 <? n) eqn:E; [|reflexivity].
  rewrite !get_app1 by lia. reflexivity.
Qed.

Lemma num_points_firstn n b k : 2 * n + 2 <= N.of_nat k -> num_points n (firstn k b) = num_points n b.
Proof.
  intros H. unfold num_points. destruct (0 <? n) eqn:E; [|reflexivity].
  rewrite !get_firstn by lia. reflexivity.
Qed.

(* bytes after the cut do not matter *)
Lemma walk_app nc e p pos : walk nc e = Ok pos -> walk nc (e ++ p) = Ok pos.
Proof.
  intros H. apply walk_ok_iff in H as (H0 & H1 & np & a & b & cb & used & Hnp & Ha & Hb & Hf & -> & Hle).
  apply walk_ok_iff. set (n := Z.to_N nc) in *.
  split; [exact H0|]. split; [rewrite len_app; lia|].
  exists np, a, b, cb, used.
  rewrite num_points_app by lia. rewrite !get_app1 by lia.
  repeat split; try assumption; try reflexivity; [|rewrite len_app; lia].
  destruct (flag_walk_consumes _ _ _ _ _ _ _ _ Hf) as (l1 & l2 & Hl & Hu & Hr).
  rewrite skipn_app. rewrite Hl.
  replace (N.to_nat (2 * n + 2 + (a * 256 + b)) - length e)%nat with 0%nat by (unfold len in *; lia).
  cbn [skipn]. rewrite <- app_assoc. apply Hr.
Qed.

(* the cut-off string walks to its own end *)
Lemma walk_firstn nc b pos : walk nc b = Ok pos -> walk nc (firstn (N.to_nat pos) b) = Ok pos.
Proof.
  intros H. apply walk_ok_iff in H as (H0 & H1 & np & a & c & cb & used & Hnp & Ha & Hb & Hf & -> & Hle).
  apply walk_ok_iff. set (n := Z.to_N nc) in *.
  set (pos0 := 2 * n + 2 + (a * 256 + c)) in *.
  assert (Hlen : len (firstn (N.to_nat (pos0 + used + cb)) b) = pos0 + used + cb)
    by (rewrite len_firstn; lia).
  split; [exact H0|]. split; [rewrite Hlen; lia|].
  exists np, a, c, cb, used.
  rewrite num_points_firstn by lia. rewrite !get_firstn by lia.
  repeat split; try assumption; try reflexivity; [|rewrite Hlen; lia].
  destruct (flag_walk_consumes _ _ _ _ _ _ _ _ Hf) as (l1 & l2 & Hl & Hu & Hr).
  rewrite skipn_firstn_comm. fold pos0. rewrite Hl.
  rewrite firstn_app.
  rewrite firstn_all2 by (unfold len in Hu; lia).
  apply Hr.
Qed.

Lemma slice_prefix {A} (e p : list A) : slice (e ++ p) 0 (len e) = Ok e.
Proof.
  unfold slice, slice_n.
  assert (E : (0 <=? len e) && (len e <=? len (e ++ p)) = true) by (rewrite len_app; lia).
  rewrite E. cbn [N.to_nat skipn]. f_equal. apply firstn_app_exact. unfold len. lia.
Qed.

(* removePadding is exact: for every e the walk ends at |e|, and every p *)
Lemma remove_padding_exact_lemma nc e p :
  walk nc e = Ok (len e) -> M_remove_padding nc (e ++ p) = Ok e.
Proof.
  intros H. unfold M_remove_padding. rewrite (walk_app nc e p _ H). cbn [obind].
  apply slice_prefix.
Qed.

Lemma remove_padding_result nc b e :
  M_remove_padding nc b = Ok e ->
  exists p, b = e ++ p /\ walk nc e = Ok (len e).
Proof.
  unfold M_remove_padding. intros H.
  destruct (walk nc b) as [pos| | |] eqn:Ew; cbn [obind] in H; try discriminate.
  pose proof Ew as Ew'. apply walk_ok_iff in Ew' as (_ & _ & _ & _ & _ & _ & _ & _ & _ & _ & _ & _ & Hle).
  unfold slice, slice_n in H.
  assert (E : (0 <=? pos) && (pos <=? len b) = true) by lia. rewrite E in H.
  cbn [N.to_nat skipn] in H. rewrite N.sub_0_r in H. injection H as <-.
  exists (skipn (N.to_nat pos) b). split; [symmetry; apply firstn_skipn|].
  rewrite len_firstn by lia. rewrite N2Nat.id. apply walk_firstn. exact Ew.
Qed.

Lemma remove_padding_idempotent_lemma nc b e :
  M_remove_padding nc b = Ok e -> M_remove_padding nc e = Ok e.
Proof.
  intros H. apply remove_padding_result in H as (p & _ & Hw).
  rewrite <- (app_nil_r e) at 1. apply remove_padding_exact_lemma. exact Hw.
Qed.
