(* C18B/Proofs_Tight.v — every building block of the model is determined by
   what its accesses return and fails as soon as one of them fails; so is
   their composition. *)
From Coq Require Import List NArith ZArith Bool Arith Lia.
From Coq Require Import ZifyBool ZifyNat ZifyN.
From Common Require Import Bytes Outcome.
From Gen Require Import Consts.
From C03 Require Import Model.
From C18B Require Import Model Spec.
Import ListNotations.
Local Open Scope N_scope.

(* ---- small facts ---- *)

Lemma agree_on_app t1 t2 rd rd' : agree_on (t1 ++ t2) rd rd' <-> agree_on t1 rd rd' /\ agree_on t2 rd rd'.
Proof.
  unfold agree_on. split.
  - intros H. split; intros o n Hi; apply H; apply in_or_app; auto.
  - intros [H1 H2] o n Hi. apply in_app_or in Hi. destruct Hi; auto.
Qed.

Lemma agree_on_cons a t rd rd' :
  agree_on (a :: t) rd rd' <-> rd' (fst a) (snd a) = rd (fst a) (snd a) /\ agree_on t rd rd'.
Proof.
  unfold agree_on. destruct a as [o n]. cbn [fst snd]. split.
  - intros H. split; [apply H; now left|]. intros o' n' Hi. apply H. now right.
  - intros [H1 H2] o' n' [E|Hi]; [inversion E; subst; exact H1|auto].
Qed.

Lemma agree_on_nil rd rd' : agree_on [] rd rd'.
Proof. intros o n []. Qed.

Lemma hits_app fails t1 t2 : hits fails (t1 ++ t2) <-> hits fails t1 \/ hits fails t2.
Proof.
  unfold hits. split.
  - intros (o & n & Hi & Hf). apply in_app_or in Hi. destruct Hi; [left|right]; eauto.
  - intros [(o & n & Hi & Hf)|(o & n & Hi & Hf)]; exists o, n; split; auto; apply in_or_app; auto.
Qed.

Lemma hits_cons fails a t : hits fails (a :: t) <-> fails (fst a) (snd a) = true \/ hits fails t.
Proof.
  unfold hits. destruct a as [o n]. cbn [fst snd]. split.
  - intros (o' & n' & [E|Hi] & Hf); [inversion E; subst; now left|right; eauto].
  - intros [Hf|(o' & n' & Hi & Hf)]; [exists o, n; split; [now left|exact Hf]|exists o', n'; split; [now right|exact Hf]].
Qed.

Lemma hits_nil fails : ~ hits fails [].
Proof. intros (o & n & [] & _). Qed.

Lemma hits_dec fails t : hits fails t \/ ~ hits fails t.
Proof.
  induction t as [|a t IH]; [right; apply hits_nil|].
  destruct (fails (fst a) (snd a)) eqn:E; [left; apply hits_cons; now left|].
  destruct IH as [H|H]; [left; apply hits_cons; now right|right; intros Hc; apply hits_cons in Hc; destruct Hc; [congruence|auto]].
Qed.

(* a faulty reader agrees with the plain one on a footprint nothing of which fails *)
Lemma no_hit_agree fails t rd : ~ hits fails t -> agree_on t rd (faulty fails rd).
Proof.
  intros Hn o n Hi. unfold faulty. destruct (fails o n) eqn:E; [|reflexivity].
  exfalso. apply Hn. exists o, n. auto.
Qed.

(* ---- composition ---- *)

Lemma tight_ret {A} (r : outcome A) : tight (fret r).
Proof.
  split.
  - intros rd rd' _. reflexivity.
  - intros rd fails H. exfalso. exact (hits_nil _ H).
Qed.

Lemma fbind_eq {A B} (c : fcomp A) (f : A -> fcomp B) rd :
  fbind c f rd =
  match fst (c rd) with
  | Ok a => (fst (f a rd), snd (c rd) ++ snd (f a rd))
  | Err => (Err, snd (c rd))
  | Panic => (Panic, snd (c rd))
  | OutOfFuel => (OutOfFuel, snd (c rd))
  end.
Proof. reflexivity. Qed.

Lemma tight_bind {A B} (c : fcomp A) (f : A -> fcomp B) :
  tight c -> (forall a, tight (f a)) -> tight (fbind c f).
Proof.
  intros [Dc Fc] Hf. split.
  - intros rd rd' Ha. rewrite !fbind_eq in *.
    destruct (fst (c rd)) as [a| | |] eqn:Ec; cbn [snd] in Ha.
    + apply agree_on_app in Ha. destruct Ha as [H1 H2].
      rewrite (Dc rd rd' H1), Ec.
      destruct (Hf a) as [Df _]. now rewrite (Df rd rd' H2).
    + now rewrite (Dc rd rd' Ha), Ec.
    + now rewrite (Dc rd rd' Ha), Ec.
    + now rewrite (Dc rd rd' Ha), Ec.
  - intros rd fails Hh. rewrite fbind_eq in Hh.
    destruct (hits_dec fails (snd (c rd))) as [H1|H1].
    + rewrite fbind_eq, (Fc rd fails H1). reflexivity.
    + pose proof (Dc rd (faulty fails rd) (no_hit_agree _ _ _ H1)) as Eq.
      rewrite fbind_eq, Eq.
      destruct (fst (c rd)) as [a| | |] eqn:Ec; cbn [snd fst] in Hh |- *;
        try (exfalso; exact (H1 Hh)).
      apply hits_app in Hh. destruct Hh as [Hh|Hh]; [exfalso; exact (H1 Hh)|].
      destruct (Hf a) as [_ Ff]. apply (Ff rd fails Hh).
Qed.

Lemma tight_if {A} (b : bool) (c1 c2 : fcomp A) : tight c1 -> tight c2 -> tight (if b then c1 else c2).
Proof. destruct b; auto. Qed.

(* ---- section decoders ---- *)

Lemma run_sec_determined {A} (p : prog A) base len : determined (f_sdec base len p).
Proof.
  unfold determined, f_sdec. induction p as [r|o n k IH]; intros rd rd' Ha; cbn [run_sec] in *.
  - reflexivity.
  - destruct (len <=? o).
    + now apply IH.
    + cbn [snd] in Ha. apply agree_on_cons in Ha. cbn [fst snd] in Ha. destruct Ha as [E Ha].
      rewrite E.
      set (r := match rd (base + o) (N.min n (len - o)) with
                | RData d => if N.min n (len - o) <? n then REof d else RData d
                | x => x end) in *.
      now rewrite (IH r rd rd' Ha).
Qed.

Lemma run_sec_fault_strict {A} (p : prog A) base len : strict p -> fault_strict (f_sdec base len p).
Proof.
  unfold fault_strict, f_sdec. intros Hs. induction Hs as [r|o n k HF Hk IH]; intros rd fails Hh; cbn [run_sec] in *.
  - exfalso. exact (hits_nil _ Hh).
  - destruct (len <=? o).
    + now apply IH.
    + cbn [snd] in Hh. apply hits_cons in Hh. cbn [fst snd] in Hh.
      destruct (fails (base + o) (N.min n (len - o))) eqn:Ef.
      * assert (Er : faulty fails rd (base + o) (N.min n (len - o)) = RFail) by (unfold faulty; now rewrite Ef).
        rewrite Er, HF. reflexivity.
      * assert (Er : faulty fails rd (base + o) (N.min n (len - o)) = rd (base + o) (N.min n (len - o)))
          by (unfold faulty; now rewrite Ef).
        rewrite Er. destruct Hh as [Hh|Hh]; [discriminate|]. cbn [fst]. now apply IH.
Qed.

Lemma tight_sdec {A} (p : prog A) base len : strict p -> tight (f_sdec base len p).
Proof. intros Hs. split; [apply run_sec_determined|now apply run_sec_fault_strict]. Qed.

(* ---- ReadTableBytes ---- *)

Lemma read_all_sec_determined grow base len : forall fuel pos acc rd rd',
  agree_on (snd (read_all_sec fuel grow rd base len pos acc)) rd rd' ->
  read_all_sec fuel grow rd' base len pos acc = read_all_sec fuel grow rd base len pos acc.
Proof.
  induction fuel as [|f IH]; intros pos acc rd rd' Ha; cbn [read_all_sec] in *; [reflexivity|].
  destruct (len <=? pos); [reflexivity|].
  set (want := N.min (N.max 1 (grow pos)) (len - pos)) in *.
  destruct (rd (base + pos) want) as [d|d|] eqn:E; cbn [snd] in Ha;
    apply agree_on_cons in Ha; cbn [fst snd] in Ha; destruct Ha as [E' Ha]; rewrite E', E; try reflexivity.
  now rewrite (IH _ _ rd rd' Ha).
Qed.

Lemma read_all_sec_fault_strict grow base len : forall fuel pos acc rd fails,
  hits fails (snd (read_all_sec fuel grow rd base len pos acc)) ->
  fst (read_all_sec fuel grow (faulty fails rd) base len pos acc) = Err.
Proof.
  induction fuel as [|f IH]; intros pos acc rd fails Hh; cbn [read_all_sec] in *.
  - exfalso. exact (hits_nil _ Hh).
  - destruct (len <=? pos); [exfalso; exact (hits_nil _ Hh)|].
    set (want := N.min (N.max 1 (grow pos)) (len - pos)) in *.
    destruct (fails (base + pos) want) eqn:Ef.
    { assert (Er : faulty fails rd (base + pos) want = RFail) by (unfold faulty; now rewrite Ef).
      now rewrite Er. }
    assert (Er : faulty fails rd (base + pos) want = rd (base + pos) want) by (unfold faulty; now rewrite Ef).
    rewrite Er.
    destruct (rd (base + pos) want) as [d|d|] eqn:E; cbn [snd] in Hh;
      apply hits_cons in Hh; cbn [fst snd] in Hh; destruct Hh as [Hh|Hh]; try congruence;
      try (exfalso; exact (hits_nil _ Hh)).
    cbn [fst]. now apply IH.
Qed.

Lemma tight_bytes grow base len : tight (f_bytes grow base len).
Proof.
  split.
  - intros rd rd' Ha. unfold f_bytes in *. now apply read_all_sec_determined.
  - intros rd fails Hh. unfold f_bytes in *. now apply read_all_sec_fault_strict.
Qed.

(* ---- header.Read ---- *)

Definition ragree (t : fprint) (r r' : reader) : Prop := forall o n, In (o, n) t -> r' o n = r o n.

Lemma ragree_cons a t r r' : ragree (a :: t) r r' <-> r' (fst a) (snd a) = r (fst a) (snd a) /\ ragree t r r'.
Proof.
  unfold ragree. destruct a as [o n]. cbn [fst snd]. split.
  - intros H. split; [apply H; now left|]. intros o' n' Hi. apply H. now right.
  - intros [H1 H2] o' n' [E|Hi]; [inversion E; subst; exact H1|auto].
Qed.

Lemma ragree_app t1 t2 r r' : ragree (t1 ++ t2) r r' <-> ragree t1 r r' /\ ragree t2 r r'.
Proof.
  unfold ragree. split.
  - intros H. split; intros o n Hi; apply H; apply in_or_app; auto.
  - intros [H1 H2] o n Hi. apply in_app_or in Hi. destruct Hi; auto.
Qed.

Lemma entries_agree r r' : forall cnt i toc,
  ragree (entries_fp r cnt i toc) r r' ->
  rd_entries r' cnt i toc = rd_entries r cnt i toc /\ entries_fp r' cnt i toc = entries_fp r cnt i toc.
Proof.
  induction cnt as [|c IH]; intros i toc Ha; cbn [rd_entries entries_fp] in *; [auto|].
  apply ragree_cons in Ha. cbn [fst snd] in Ha. destruct Ha as [E Ha]. rewrite E.
  destruct (r (12 + i * 16) 16) as [e|]; [|auto].
  destruct (negb (forallb printable (firstn 4 e))); [auto|].
  destruct (existsb _ toc); [auto|].
  destruct (IH _ _ Ha) as [H1 H2]. rewrite H1, H2. auto.
Qed.

Lemma read_dir_agree r r' :
  ragree (dir_fp r) r r' -> M_read_dir_r r' = M_read_dir_r r /\ dir_fp r' = dir_fp r.
Proof.
  unfold dir_fp, M_read_dir_r. intros Ha.
  apply ragree_cons in Ha. cbn [fst snd] in Ha. destruct Ha as [E Ha]. rewrite E.
  destruct (r 0 6) as [h|]; [|auto].
  destruct (negb (valid_scaler (rd32 h))); [auto|].
  destruct (header_maxTables <? rd16 (skipn 4 h)); [auto|].
  apply ragree_app in Ha. destruct Ha as [Ha1 Ha2].
  destruct (entries_agree r r' _ _ _ Ha1) as [H1 H2]. rewrite H1, H2.
  destruct (rd_entries r (N.to_nat (rd16 (skipn 4 h))) 0 []) as [toc| | |]; cbn [obind]; auto.
  unfold probe_fp in *.
  destruct (isort cov_before _) as [|c0 cs]; [auto|].
  destruct (fst c0 <? 12); [auto|].
  destruct (overlaps (c0 :: cs)); [auto|].
  destruct (snd (last (c0 :: cs) c0) =? 0); [auto|].
  apply ragree_cons in Ha2. cbn [fst snd] in Ha2. destruct Ha2 as [E2 _]. rewrite E2. auto.
Qed.

(* the reader behind a faulty source, as header.Read sees it *)
Lemma to_c03_faulty fails rd o n :
  to_c03 (faulty fails rd) o n = if fails o n then None else to_c03 rd o n.
Proof. unfold to_c03, faulty. now destruct (fails o n). Qed.

Lemma entries_fault (r r' : reader) (fails : N -> N -> bool) : (forall o n, r' o n = if fails o n then None else r o n) ->
  forall cnt i toc, hits fails (entries_fp r cnt i toc) -> rd_entries r' cnt i toc = Err.
Proof.
  intros Hr. induction cnt as [|c IH]; intros i toc Hh; cbn [rd_entries entries_fp] in *.
  - exfalso. exact (hits_nil _ Hh).
  - apply hits_cons in Hh. cbn [fst snd] in Hh. rewrite Hr.
    destruct (fails (12 + i * 16) 16) eqn:Ef; [reflexivity|].
    destruct Hh as [Hh|Hh]; [discriminate|].
    destruct (r (12 + i * 16) 16) as [e|]; [|exfalso; exact (hits_nil _ Hh)].
    destruct (negb (forallb printable (firstn 4 e))); [reflexivity|].
    destruct (existsb _ toc); [reflexivity|].
    now apply IH.
Qed.

Lemma entries_nofault (r r' : reader) (fails : N -> N -> bool) : (forall o n, r' o n = if fails o n then None else r o n) ->
  forall cnt i toc, ~ hits fails (entries_fp r cnt i toc) -> rd_entries r' cnt i toc = rd_entries r cnt i toc.
Proof.
  intros Hr cnt i toc Hn. apply entries_agree. intros o n Hi. rewrite Hr.
  destruct (fails o n) eqn:Ef; [|reflexivity]. exfalso. apply Hn. exists o, n. auto.
Qed.

Lemma read_dir_fault (r r' : reader) (fails : N -> N -> bool) : (forall o n, r' o n = if fails o n then None else r o n) ->
  hits fails (dir_fp r) -> M_read_dir_r r' = Err.
Proof.
  intros Hr Hh. unfold dir_fp in Hh. unfold M_read_dir_r.
  apply hits_cons in Hh. cbn [fst snd] in Hh. rewrite Hr.
  destruct (fails 0 6) eqn:Ef; [reflexivity|].
  destruct Hh as [Hh|Hh]; [discriminate|].
  destruct (r 0 6) as [h|]; [|exfalso; exact (hits_nil _ Hh)].
  destruct (negb (valid_scaler (rd32 h))); [reflexivity|].
  destruct (header_maxTables <? rd16 (skipn 4 h)); [reflexivity|].
  destruct (hits_dec fails (entries_fp r (N.to_nat (rd16 (skipn 4 h))) 0 [])) as [H1|H1].
  - rewrite (entries_fault r r' fails Hr _ _ _ H1). reflexivity.
  - rewrite (entries_nofault r r' fails Hr _ _ _ H1).
    apply hits_app in Hh. destruct Hh as [Hh|Hh]; [exfalso; exact (H1 Hh)|].
    destruct (rd_entries r (N.to_nat (rd16 (skipn 4 h))) 0 []) as [toc| | |]; cbn [obind];
      try (exfalso; exact (hits_nil _ Hh)).
    unfold probe_fp in Hh.
    destruct (isort cov_before _) as [|c0 cs]; [reflexivity|].
    destruct (fst c0 <? 12); [reflexivity|].
    destruct (overlaps (c0 :: cs)); [reflexivity|].
    destruct (snd (last (c0 :: cs) c0) =? 0); [reflexivity|].
    apply hits_cons in Hh. cbn [fst snd] in Hh.
    destruct Hh as [Hh|Hh]; [|exfalso; exact (hits_nil _ Hh)].
    rewrite Hr, Hh. reflexivity.
Qed.

Lemma tight_header : tight f_header.
Proof.
  split.
  - intros rd rd' Ha. unfold f_header in *. cbn [snd] in Ha.
    assert (Hr : ragree (dir_fp (to_c03 rd)) (to_c03 rd) (to_c03 rd')).
    { intros o n Hi. unfold to_c03. now rewrite (Ha o n Hi). }
    destruct (read_dir_agree _ _ Hr) as [H1 H2]. now rewrite H1, H2.
  - intros rd fails Hh. unfold f_header in *. cbn [fst snd] in *.
    eapply read_dir_fault; [|exact Hh]. intros o n. apply to_c03_faulty.
Qed.

(* ---- the stages of sfnt.Read ---- *)

Section Stages.
  Variable D : decoders.
  Hypothesis HS : decoders_strict D.

  Lemma tight_opt_sdec {V} toc tag (dec : N -> prog V) :
    (forall l, strict (dec l)) -> tight (opt_sdec toc tag dec).
  Proof.
    intros Hs. unfold opt_sdec. destruct (tbl tag toc) as [[o l]|]; [|apply tight_ret].
    apply tight_bind; [now apply tight_sdec|intros; apply tight_ret].
  Qed.

  Lemma tight_opt_bytes toc tag : tight (opt_bytes D toc tag).
  Proof.
    unfold opt_bytes. destruct (tbl tag toc) as [[o l]|]; [|apply tight_ret].
    apply tight_bind; [apply tight_bytes|intros; apply tight_ret].
  Qed.

  Lemma tight_req_bytes toc tag : tight (req_bytes D toc tag).
  Proof. unfold req_bytes. destruct (tbl tag toc) as [[o l]|]; [apply tight_bytes|apply tight_ret]. Qed.

  Lemma tight_req_sdec {V} toc tag (dec : N -> prog V) :
    (forall l, strict (dec l)) -> tight (req_sdec toc tag dec).
  Proof.
    intros Hs. unfold req_sdec. destruct (tbl tag toc) as [[o l]|]; [now apply tight_sdec|apply tight_ret].
  Qed.

  Lemma tight_has_sdec toc tag dec : (forall l, strict (dec l)) -> tight (has_sdec toc tag dec).
  Proof. intros Hs. unfold has_sdec. apply tight_if; [now apply tight_req_sdec|apply tight_ret]. Qed.

  Lemma tight_extra toc tags : tight (extra_tables D toc tags).
  Proof.
    induction tags as [|t r IH]; cbn [extra_tables]; [apply tight_ret|].
    apply tight_if; [|exact IH]. apply tight_bind; [apply tight_req_bytes|intros; exact IH].
  Qed.

  Lemma tight_ignored {V} (x : outcome V) : tight (ignored x).
  Proof. apply tight_ret. Qed.

  Lemma tight_outlines s toc headv maxpv ng nw : tight (outlines D s toc headv maxpv ng nw).
  Proof.
    unfold outlines. apply tight_if; [|apply tight_if; [|apply tight_ret]].
    - apply tight_bind; [apply tight_req_sdec, (ds_cff D HS)|].
      intros ngl. repeat apply tight_if; apply tight_ret.
    - destruct headv as [lf|]; [|apply tight_ret]. destruct maxpv as [mg|]; [|apply tight_ret].
      apply tight_bind; [apply tight_req_bytes|intros loca].
      apply tight_bind; [apply tight_req_bytes|intros glyf].
      apply tight_bind; [apply tight_ret|intros ngl].
      apply tight_bind; [apply tight_extra|intros _].
      apply tight_if; apply tight_ret.
  Qed.

  Lemma tight_read_tables s toc : tight (read_tables D s toc).
  Proof.
    unfold read_tables. apply tight_if; [apply tight_ret|].
    apply tight_bind; [apply tight_opt_sdec, (ds_head D HS)|intros headv].
    apply tight_bind; [apply tight_opt_bytes|intros hhea].
    apply tight_bind; [apply tight_opt_sdec, (ds_maxp D HS)|intros maxpv].
    apply tight_bind; [apply tight_opt_sdec, (ds_os2 D HS)|intros _].
    apply tight_bind; [apply tight_opt_bytes|intros hmtx].
    apply tight_bind.
    { unfold st_hmtx_dec. destruct hhea; [|apply tight_ret].
      apply tight_bind; [apply tight_ret|intros; apply tight_ret]. }
    intros nwo.
    apply tight_bind; [apply tight_opt_bytes|intros cm].
    apply tight_bind.
    { unfold st_cmap_dec. destruct cm; [|apply tight_ret].
      apply tight_bind; [apply tight_ret|intros; apply tight_ignored]. }
    intros _.
    apply tight_bind; [apply tight_opt_bytes|intros nm].
    apply tight_bind; [unfold st_name_dec; destruct nm; apply tight_ret|intros _].
    apply tight_bind; [apply tight_opt_sdec, (ds_post D HS)|intros _].
    apply tight_bind; [apply tight_ret|intros cnt].
    apply tight_bind; [apply tight_outlines|intros ngl].
    apply tight_bind; [unfold st_name_version; destruct nm; [apply tight_ignored|apply tight_ret]|intros _].
    apply tight_bind; [apply tight_has_sdec, (ds_gdef D HS)|intros _].
    apply tight_bind.
    { unfold st_gsub. apply tight_if; [apply tight_req_sdec, (ds_gsub D HS)|].
      destruct cm; [apply tight_ignored|apply tight_ret]. }
    intros _.
    apply tight_bind.
    { unfold st_gpos. apply tight_if; [apply tight_req_sdec, (ds_gpos D HS)|].
      apply tight_if; [apply tight_req_sdec, (ds_kern D HS)|apply tight_ret]. }
    intros _. apply tight_ret.
  Qed.

  Lemma tight_sfnt_read_at : tight (M_sfnt_read_at D).
  Proof.
    unfold M_sfnt_read_at. apply tight_bind; [apply tight_header|].
    intros st. apply tight_read_tables.
  Qed.
End Stages.

(* "determined" needs no hypothesis on the decoders at all *)
Lemma determined_bind {A B} (c : fcomp A) (f : A -> fcomp B) :
  determined c -> (forall a, determined (f a)) -> determined (fbind c f).
Proof.
  intros Dc Hf rd rd' Ha. rewrite !fbind_eq in *.
  destruct (fst (c rd)) as [a| | |] eqn:Ec; cbn [snd] in Ha.
  - apply agree_on_app in Ha. destruct Ha as [H1 H2].
    rewrite (Dc rd rd' H1), Ec. now rewrite (Hf a rd rd' H2).
  - now rewrite (Dc rd rd' Ha), Ec.
  - now rewrite (Dc rd rd' Ha), Ec.
  - now rewrite (Dc rd rd' Ha), Ec.
Qed.
