(* C18B/Proofs_Concrete.v — the imported decoder models satisfy what the
   theorems assume of decoders (their totality is C12's / C11's theorem). *)
From Coq Require Import List NArith ZArith Bool Arith Lia.
From Common Require Import Bytes Outcome.
From C03 Require Import Model.
From C12 Require Model Model2 Props.
From C11 Require Model Props.
From C18B Require Import Model Spec Concrete.
Import ListNotations.

Lemma okerr_of_safe {A} (x : outcome A) : x <> Panic -> x <> OutOfFuel -> okerr x.
Proof. destruct x; intros H1 H2; [right; eauto|now left|congruence|congruence]. Qed.

Lemma okerr_omap {A B} (f : A -> B) (x : outcome A) : okerr x -> okerr (omap f x).
Proof. intros [->|(a & ->)]; [now left|right; eexists; reflexivity]. Qed.

Lemma c_head_strict l : strict (c_head l).
Proof. constructor; [reflexivity|]. intros x. destruct x; constructor. Qed.

Lemma c_head_total l : total (c_head l).
Proof.
  constructor. intros x. destruct x as [d|d|]; try constructor.
  destruct (C12.Props.head_decode_total d) as [H1 H2].
  destruct (C12.Model2.M_head_decode d) as [i| | |]; cbn [omap obind]; try constructor; congruence.
Qed.

Lemma c_hmtx_okerr h m : okerr (c_hmtx h m).
Proof.
  unfold c_hmtx. apply okerr_omap.
  destruct (C12.Props.hmtx_decode_total h m). now apply okerr_of_safe.
Qed.

Lemma c_glyf_okerr lf loca glyf : okerr (c_glyf lf loca glyf).
Proof.
  unfold c_glyf. apply okerr_omap.
  destruct (C11.Props.glyf_decode_total (C11.Model.Build_encoded glyf loca lf)). now apply okerr_of_safe.
Qed.

Lemma with_models_total D : decoders_total D -> decoders_total (with_models D).
Proof.
  intros H. destruct H. constructor; cbn; auto using c_head_total, c_hmtx_okerr, c_glyf_okerr.
Qed.

Lemma with_models_strict D : decoders_strict D -> decoders_strict (with_models D).
Proof. intros H. destruct H. constructor; cbn; auto using c_head_strict. Qed.
