(* C18B/Proofs_Bulk.v — the bulk read reports an error exactly when one of its
   ReadBytes calls failed (also the last one), then stops, and never reports
   the length asked for as read; link to C17's model of the same loop. *)
From Coq Require Import List NArith ZArith Bool Arith Lia.
From Coq Require Import ZifyBool ZifyNat ZifyN.
From Common Require Import Bytes Outcome.
From C18B Require Import Bulk.
Import ListNotations.
Local Open Scope N_scope.

(* ReadBytes' contract: k bytes and no error, or no bytes and an error *)
Definition rb_ok {St} (rb : St -> N -> St * N * bool) : Prop :=
  forall st k, (snd (rb st k) = false -> snd (fst (rb st k)) = k) /\
               (snd (rb st k) = true -> snd (fst (rb st k)) = 0).

Definition delivered (calls : list (N * bool)) : N :=
  fold_right (fun (c : N * bool) acc => (if snd c then 0 else fst c) + acc) 0 calls.

Lemma delivered_app a b : delivered (a ++ b) = delivered a + delivered b.
Proof. induction a as [|c a IH]; cbn [app delivered fold_right]; [reflexivity|]. fold (delivered (a ++ b)) (delivered a). lia. Qed.

Section Loop.
  Context {St : Type}.
  Variable bs : N.
  Variable rb : St -> N -> St * N * bool.
  Hypothesis Hbs : 0 < bs.
  Hypothesis Hrb : rb_ok rb.

  Lemma bulk_loop_spec : forall fuel st len_buf total calls,
    (N.to_nat len_buf < fuel)%nat ->
    let r := M_bulk_loop bs rb fuel st len_buf total calls in
    br_fuel r = true /\
    exists new, br_calls r = calls ++ new /\
      br_err r = existsb snd new /\
      br_total r = total + delivered new /\
      (br_err r = false -> br_total r = total + len_buf) /\
      (br_err r = true -> br_total r < total + len_buf) /\
      (forall pre c post, new = pre ++ c :: post -> snd c = true -> post = []) /\
      Forall (fun c : N * bool => 0 < fst c /\ fst c <= bs) new.
  Proof.
    induction fuel as [|f IH]; intros st len_buf total calls Hf; [lia|]. cbn [M_bulk_loop].
    destruct (N.eqb_spec len_buf 0) as [E|E].
    - cbn. split; [reflexivity|]. exists []. rewrite app_nil_r. cbn.
      repeat split; try lia; try discriminate; try constructor.
      intros pre c post H. destruct pre; discriminate.
    - set (k := N.min len_buf bs). destruct (Hrb st k) as [Hok Herr].
      destruct (rb st k) as [[st' l] err] eqn:Er. cbn [fst snd] in *.
      destruct err.
      + (* the call failed: no bytes, the loop ends with the error *)
        rewrite (Herr eq_refl). replace (N.min 0 len_buf) with 0 by lia.
        replace (0 <? len_buf - 0) with true by (symmetry; apply N.ltb_lt; lia). cbn [andb].
        cbn. split; [reflexivity|]. exists [(k, true)]. cbn.
        repeat split; try lia; try discriminate.
        * intros pre c post H _. destruct pre as [|x pre]; [now inversion H|].
          destruct pre; discriminate.
        * constructor; [cbn; unfold k; lia|constructor].
      + rewrite (Hok eq_refl). replace (N.min k len_buf) with k by (unfold k; lia).
        rewrite andb_false_r.
        destruct (IH st' (len_buf - k) (total + k) (calls ++ [(k, false)])) as (Hfu & new & Hc & He & Ht & H1 & H2 & H3 & H4);
          [unfold k; lia|].
        split; [exact Hfu|]. exists ((k, false) :: new). rewrite Hc, <- app_assoc. cbn [app].
        split; [reflexivity|]. split; [cbn; exact He|]. split.
        { rewrite Ht. cbn [delivered fold_right snd fst]. fold (delivered new). lia. }
        split; [intros H; rewrite (H1 H); unfold k; lia|].
        split; [intros H; specialize (H2 H); unfold k in *; lia|]. split.
        * intros pre c post H Hs. destruct pre as [|x pre].
          { inversion H; subst. discriminate. }
          inversion H; subst. eapply H3; eauto.
        * constructor; [cbn; unfold k; lia|exact H4].
  Qed.
End Loop.

Lemma bulk_read_spec {St} (bs : N) (rb : St -> N -> St * N * bool) (st : St) (want : N) :
  0 < bs -> rb_ok rb ->
  let r := M_bulk_read bs rb st want in
  br_fuel r = true /\
  br_err r = existsb snd (br_calls r) /\
  br_total r = delivered (br_calls r) /\
  (br_err r = false -> br_total r = want) /\
  (br_err r = true -> br_total r < want) /\
  (forall pre c post, br_calls r = pre ++ c :: post -> snd c = true -> post = []) /\
  Forall (fun c : N * bool => 0 < fst c /\ fst c <= bs) (br_calls r).
Proof.
  intros Hbs Hrb. unfold M_bulk_read.
  destruct (bulk_loop_spec bs rb Hbs Hrb (S (N.to_nat want)) st want 0 []) as (Hf & new & Hc & He & Ht & H1 & H2 & H3 & H4); [lia|].
  cbn [app] in Hc. cbv zeta. rewrite Hc. repeat split; auto; try lia.
Qed.

Lemma rb_recorded_ok : rb_ok rb_recorded.
Proof. intros st k. unfold rb_recorded. destruct st as [|[] r]; cbn; split; congruence. Qed.

(* ---- C17's model of Parser.Read is this loop over C17's ReadBytes ---- *)
From C17 Require Model.

Section C17.
  Variable bs : nat.
  Variable data : list N.

  Definition rb17 (s : C17.Model.pstate) (k : N) : C17.Model.pstate * N * bool :=
    match C17.Model.m_bytes bs data s (N.to_nat k) with
    | (Some b, s', _) => (s', N.of_nat (length b), false)
    | (None, s', _) => (s', 0, true)
    end.

  Lemma rb_loop_ok : forall fuel n s s',
    C17.Model.rb_loop bs data fuel n s = C17.Model.RbOk s' ->
    (C17.Model.p_pos s' + n <= length (C17.Model.p_buf s'))%nat.
  Proof.
    induction fuel as [|f IH]; intros n s s' H; cbn [C17.Model.rb_loop] in H.
    - destruct (Nat.leb_spec (C17.Model.p_pos s + n) (length (C17.Model.p_buf s))); [|discriminate].
      inversion H; subst. assumption.
    - destruct (Nat.leb_spec (C17.Model.p_pos s + n) (length (C17.Model.p_buf s))).
      + inversion H; subst. assumption.
      + destruct (C17.Model.u_read data (C17.Model.p_up s) _ (C17.Model.p_orc s)) as [got o'].
        destruct got; [discriminate|]. eapply IH. exact H.
  Qed.

  Lemma m_bytes_length s n b s' fu :
    C17.Model.m_bytes bs data s n = (Some b, s', fu) -> length b = n.
  Proof.
    unfold C17.Model.m_bytes. destruct (C17.Model.rb_loop bs data (S n) n s) as [s1|s1|] eqn:E; try discriminate.
    intros H. inversion H; subst. apply rb_loop_ok in E. apply sub_length. exact E.
  Qed.

  Lemma m_read_is_bulk_loop : forall fuel s k n b failed s' total calls,
    C17.Model.m_read bs data fuel s k = (n, b, failed, s', true) ->
    let r := M_bulk_loop (N.of_nat bs) rb17 fuel s (N.of_nat k) total calls in
    br_state r = s' /\ br_total r = total + N.of_nat n /\ br_err r = failed /\ br_fuel r = true.
  Proof.
    induction fuel as [|f IH]; intros s k n b failed s' total calls H; cbn [C17.Model.m_read] in H; [discriminate|].
    cbn [M_bulk_loop]. destruct (Nat.eqb_spec k 0) as [E|E].
    - subst k. inversion H; subst. cbn. repeat split; lia.
    - replace (N.of_nat k =? 0) with false by (symmetry; apply N.eqb_neq; lia).
      replace (N.min (N.of_nat k) (N.of_nat bs)) with (N.of_nat (Nat.min k bs)) by lia.
      destruct (C17.Model.m_bytes bs data s (Nat.min k bs)) as [[ob s1] fu] eqn:Eb.
      destruct ob as [c|].
      + pose proof (m_bytes_length _ _ _ _ _ Eb) as Hl.
        assert (Erb : rb17 s (N.of_nat (Nat.min k bs)) = (s1, N.of_nat (Nat.min k bs), false)).
        { unfold rb17. rewrite Nat2N.id, Eb, Hl. reflexivity. }
        cbv zeta. rewrite Erb. cbn [fst snd]. rewrite andb_false_r.
        replace (N.min (N.of_nat (Nat.min k bs)) (N.of_nat k)) with (N.of_nat (Nat.min k bs)) by lia.
        destruct (C17.Model.m_read bs data f s1 (k - Nat.min k bs)) as [[[[n1 r1] f1] s2] fu1] eqn:Er.
        inversion H; subst. apply andb_true_iff in H5. destruct H5 as [-> ->].
        replace (N.of_nat k - N.of_nat (Nat.min k bs)) with (N.of_nat (k - Nat.min k bs)) by lia.
        destruct (IH _ _ _ _ _ _ (total + N.of_nat (Nat.min k bs)) (calls ++ [(N.of_nat (Nat.min k bs), false)]) Er)
          as (H1 & H2 & H3 & H4).
        split; [exact H1|]. split; [rewrite H2; lia|]. split; assumption.
      + assert (Erb : rb17 s (N.of_nat (Nat.min k bs)) = (s1, 0, true)).
        { unfold rb17. rewrite Nat2N.id, Eb. reflexivity. }
        cbv zeta. rewrite Erb. cbn [fst snd]. inversion H; subst.
        replace (N.min 0 (N.of_nat k)) with 0 by lia.
        replace (0 <? N.of_nat k - 0) with true by (symmetry; apply N.ltb_lt; lia).
        cbn. repeat split; lia.
  Qed.
End C17.
