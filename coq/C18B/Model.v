(* C18B/Model.v — sfnt.Read (read.go) at the level of tables: which tables it
   asks the directory for, in which order, through which kind of reader, what
   becomes of a missing table, of a decoder's error and of a failing access.

   The per-table decoders are not modelled here: they are the fields of a
   record [decoders] (every theorem quantifies over all of them).
   * A decoder that read.go hands an io.SectionReader (head, maxp, OS/2, post,
     "CFF ", GDEF, GSUB, GPOS, kern) is a reading strategy [prog]: it asks for
     byte ranges of its section and continues with what it gets.
   * A decoder that read.go hands the table's bytes (hmtx+hhea, cmap, name,
     glyf+loca) is a function bytes -> outcome; read.go itself reads those
     bytes (Info.ReadTableBytes = io.ReadAll over a section reader).

   Every computation over the source returns, next to its outcome, the list of
   accesses (offset, length) it made to the underlying io.ReaderAt, in order:
   its FOOTPRINT.  Executable definitions only. *)
From Coq Require Import List NArith ZArith Bool Arith.
From Common Require Import Bytes Outcome.
From Gen Require Import Consts.
From C03 Require Import Model.
Import ListNotations.
Local Open Scope N_scope.

(* ------------------------------------------------------------------ *)
(* 1. Sources                                                          *)
(* ------------------------------------------------------------------ *)

(* One call ReadAt(p[:n], off) as the caller sees it:
   RData d : n bytes, nil error          REof d : fewer bytes and io.EOF
   RFail   : an error that is not EOF (whatever bytes came with it) *)
Inductive rres : Type := RData (d : list N) | REof (d : list N) | RFail.
Definition racc : Type := N -> N -> rres.

(* bytes.Reader.ReadAt *)
Definition plain_at (b : list N) : racc :=
  let L := N.of_nat (length b) in
  fun off n =>
    if L <=? off then REof []
    else if off + n <=? L then RData (sub b (N.to_nat off) (N.to_nat n))
    else REof (skipn (N.to_nat off) b).

(* the same source with some accesses failing *)
Definition faulty (fails : N -> N -> bool) (rd : racc) : racc :=
  fun off n => if fails off n then RFail else rd off n.

(* a single bad byte at offset k; every byte from offset k on is bad *)
Definition fails_at (k : N) : N -> N -> bool := fun off n => (off <=? k) && (k <? off + n).
Definition fails_ge (k : N) : N -> N -> bool := fun off n => (0 <? n) && (k <? off + n).
Definition no_fault : N -> N -> bool := fun _ _ => false.

(* a file given by its first bytes and its length, zero elsewhere (the driver
   of the correspondence hands the model the directory and the length only) *)
Definition sparse_file (pre : list N) (L : N) : list N :=
  firstn (N.to_nat L) pre ++ repeat 0 (N.to_nat L - length pre).

(* plain_at (sparse_file pre L) without building the file (Proofs_Trunc.sparse_at_plain) *)
Definition sparse_at (pre : list N) (L : N) : racc := fun off n =>
  if L <=? off then REof []
  else
    let m := if off + n <=? L then n else L - off in
    let d := sub pre (N.to_nat off) (N.to_nat m) in
    let d' := d ++ repeat 0 (N.to_nat m - length d) in
    if off + n <=? L then RData d' else REof d'.

(* header.Read's view of an io.ReaderAt: n bytes or an error (C03's reader) *)
Definition to_c03 (rd : racc) : reader :=
  fun off n => match rd off n with RData d => Some d | _ => None end.

(* a plain io.Reader as a sequence of events: each Read call delivers some
   bytes (possibly none) or fails; after the last event the reader reports EOF *)
Inductive sev : Type := SChunk (d : list N) | SFail.

(* io.ReadAll(r) *)
Fixpoint read_all_stream (evs : list sev) (acc : list N) : outcome (list N) :=
  match evs with
  | [] => Ok acc
  | SChunk d :: rest => read_all_stream rest (acc ++ d)
  | SFail :: _ => Err
  end.

Inductive source : Type := SrcAt (rd : racc) | SrcStream (evs : list sev).

(* ------------------------------------------------------------------ *)
(* 2. Computations with a footprint                                    *)
(* ------------------------------------------------------------------ *)

Definition fprint : Type := list (N * N).
Definition fcomp (A : Type) : Type := racc -> outcome A * fprint.

Definition fret {A} (r : outcome A) : fcomp A := fun _ => (r, []).

(* "x, err := c(); if err != nil { return nil, err }; ... f x" *)
Definition fbind {A B} (c : fcomp A) (f : A -> fcomp B) : fcomp B := fun rd =>
  let r := c rd in
  match fst r with
  | Ok a => let r2 := f a rd in (fst r2, snd r ++ snd r2)
  | Err => (Err, snd r)
  | Panic => (Panic, snd r)
  | OutOfFuel => (OutOfFuel, snd r)
  end.

(* ------------------------------------------------------------------ *)
(* 3. Section readers                                                  *)
(* ------------------------------------------------------------------ *)

(* A decoder reading from an io.SectionReader: a strategy asking for ranges
   (offset, length) of its section. *)
Inductive prog (A : Type) : Type :=
| Ret (r : outcome A)
| Rd (off n : N) (k : rres -> prog A).
Arguments Ret {A} r.
Arguments Rd {A} off n k.

(* io.SectionReader{r, base, base+len}: a request at or beyond the end of the
   section is answered with EOF without touching r; a request that passes the
   end is cut.  The footprint records the accesses to r (absolute offsets). *)
Fixpoint run_sec {A} (rd : racc) (base len : N) (p : prog A) : outcome A * fprint :=
  match p with
  | Ret r => (r, [])
  | Rd o n k =>
    if len <=? o then run_sec rd base len (k (REof []))
    else
      let n' := N.min n (len - o) in
      let r := match rd (base + o) n' with
               | RData d => if n' <? n then REof d else RData d
               | x => x
               end in
      let res := run_sec rd base len (k r) in
      (fst res, (base + o, n') :: snd res)
  end.

Definition f_sdec {A} (base len : N) (p : prog A) : fcomp A := fun rd => run_sec rd base len p.

(* Info.ReadTableBytes: io.ReadAll(io.NewSectionReader(r, base, len)).
   "for { n, err := r.Read(b[len(b):cap(b)]); b = b[:len(b)+n]; if err != nil
   { if err == EOF { err = nil }; return b, err }; grow if full }".
   [grow pos] is the free capacity when pos bytes have been read (512 at first,
   then whatever append allocates): any function; a request is at least one
   byte and at most what is left of the section. *)
Fixpoint read_all_sec (fuel : nat) (grow : N -> N) (rd : racc) (base len pos : N) (acc : list N)
  : outcome (list N) * fprint :=
  match fuel with
  | O => (OutOfFuel, [])
  | S f =>
    if len <=? pos then (Ok acc, [])                  (* SectionReader.Read: off >= limit -> EOF *)
    else
      let want := N.min (N.max 1 (grow pos)) (len - pos) in
      match rd (base + pos) want with
      | RData d =>
        let res := read_all_sec f grow rd base len (pos + want) (acc ++ d) in
        (fst res, (base + pos, want) :: snd res)
      | REof d => (Ok (acc ++ d), [(base + pos, want)])   (* n < len(p), io.EOF: ReadAll returns b, nil *)
      | RFail => (Err, [(base + pos, want)])
      end
  end.

Definition f_bytes (grow : N -> N) (base len : N) : fcomp (list N) := fun rd =>
  read_all_sec (S (N.to_nat len)) grow rd base len 0 [].

(* ------------------------------------------------------------------ *)
(* 4. header.Read with its footprint                                   *)
(* ------------------------------------------------------------------ *)

(* The accesses of header.Read (C03's M_read_dir_r): 6 bytes at 0; 16 bytes
   per directory entry until one cannot be read, has an unprintable name or
   repeats a name; then, if the sanity checks pass, the last byte of the table
   that ends last. *)
Fixpoint entries_fp (rd : reader) (cnt : nat) (i : N) (toc : list toc_entry) : fprint :=
  match cnt with
  | O => []
  | S c =>
    (12 + i * 16, 16) ::
    match rd (12 + i * 16) 16 with
    | None => []
    | Some e =>
      if negb (forallb printable (firstn 4 e)) then []
      else
        let tag := rd32 e in
        if existsb (fun t : toc_entry => fst (fst t) =? tag) toc then []
        else entries_fp rd c (i + 1) (toc ++ [(tag, rd32 (skipn 8 e), rd32 (skipn 12 e))])
    end
  end.

Definition probe_fp (toc : list toc_entry) : fprint :=
  match isort cov_before (map (fun t : toc_entry => (snd (fst t), wrap32 (snd (fst t) + snd t))) toc) with
  | [] => []
  | (c0 :: _) as cov =>
    if fst c0 <? 12 then []
    else if overlaps cov then []
    else
      let e := snd (last cov c0) in
      if e =? 0 then [] else [(e - 1, 1)]
  end.

Definition dir_fp (rd : reader) : fprint :=
  (0, 6) ::
  match rd 0 6 with
  | None => []
  | Some h =>
    let n := rd16 (skipn 4 h) in
    if negb (valid_scaler (rd32 h)) then []
    else if header_maxTables <? n then []
    else
      entries_fp rd (N.to_nat n) 0 [] ++
      match rd_entries rd (N.to_nat n) 0 [] with
      | Ok toc => probe_fp toc
      | _ => []
      end
  end.

Definition f_header : fcomp (N * list toc_entry) := fun rd =>
  (M_read_dir_r (to_c03 rd), dir_fp (to_c03 rd)).

(* ------------------------------------------------------------------ *)
(* 5. The directory as read.go uses it                                 *)
(* ------------------------------------------------------------------ *)

Definition tag4 (a b c d : N) : N := rd32 [a; b; c; d].
Definition tag_head : N := tag4 104 101 97 100.
Definition tag_hhea : N := tag4 104 104 101 97.
Definition tag_maxp : N := tag4 109 97 120 112.
Definition tag_OS2  : N := tag4 79 83 47 50.
Definition tag_hmtx : N := tag4 104 109 116 120.
Definition tag_cmap : N := tag4 99 109 97 112.
Definition tag_name : N := tag4 110 97 109 101.
Definition tag_post : N := tag4 112 111 115 116.
Definition tag_CFF  : N := tag4 67 70 70 32.
Definition tag_loca : N := tag4 108 111 99 97.
Definition tag_glyf : N := tag4 103 108 121 102.
Definition tag_cvt  : N := tag4 99 118 116 32.
Definition tag_fpgm : N := tag4 102 112 103 109.
Definition tag_prep : N := tag4 112 114 101 112.
Definition tag_gasp : N := tag4 103 97 115 112.
Definition tag_GDEF : N := tag4 71 68 69 70.
Definition tag_GSUB : N := tag4 71 83 85 66.
Definition tag_GPOS : N := tag4 71 80 79 83.
Definition tag_kern : N := tag4 107 101 114 110.

(* h.Toc[name] *)
Definition tbl (tag : N) (toc : list toc_entry) : option (N * N) :=
  match find (fun t : toc_entry => fst (fst t) =? tag) toc with
  | Some t => Some (snd (fst t), snd t)
  | None => None
  end.

(* Info.Has: present and not empty *)
Definition has (tag : N) (toc : list toc_entry) : bool :=
  match tbl tag toc with Some (_, l) => negb (l =? 0) | None => false end.
Definition present (tag : N) (toc : list toc_entry) : bool :=
  match tbl tag toc with Some _ => true | None => false end.

(* "_, hasGlyf := dir.Toc["glyf"]; if !(hasGlyf && dir.Has("loca") || dir.Has("CFF ")) { return nil, ... }" *)
Definition gate (toc : list toc_entry) : bool :=
  (present tag_glyf toc && has tag_loca toc) || has tag_CFF toc.

(* ------------------------------------------------------------------ *)
(* 6. The decoders                                                     *)
(* ------------------------------------------------------------------ *)

Record decoders : Type := mk_decoders {
  (* handed a section reader; the argument is the length of the section *)
  d_head : N -> prog Z;             (* head.Read: LocaFormat *)
  d_maxp : N -> prog N;             (* maxp.Read: NumGlyphs *)
  d_os2  : N -> prog unit;          (* os2.Read *)
  d_post : N -> prog unit;          (* post.Read *)
  d_cff  : N -> prog N;             (* cff.Read: len(Glyphs) *)
  d_gdef : N -> prog unit;          (* gdef.Read *)
  d_gsub : N -> prog unit;          (* gtab.Read(.., TypeGsub) *)
  d_gpos : N -> prog unit;          (* gtab.Read(.., TypeGpos) *)
  d_kern : N -> prog unit;          (* kern.Read *)
  (* handed the bytes *)
  d_hmtx : list N -> option (list N) -> outcome N;   (* hmtx.Decode(hhea, hmtx): len(Widths) *)
  d_cmap : list N -> outcome unit;                    (* cmap.Decode *)
  d_name : list N -> outcome unit;                    (* name.Decode *)
  d_glyf : Z -> list N -> list N -> outcome N;        (* glyf.Decode{LocaFormat, loca, glyf}: len(glyphs) *)
  (* errors read.go throws away *)
  d_getbest : list N -> outcome unit;                 (* cmapTable.GetBest() *)
  d_namever : list N -> outcome unit;                 (* head.VersionFromString(nameTable.Version) *)
  (* io.ReadAll's buffer growth *)
  d_grow : N -> N
}.

(* ------------------------------------------------------------------ *)
(* 7. sfnt.Read                                                        *)
(* ------------------------------------------------------------------ *)

Section Read.
  Variable D : decoders.

  (* "fd, err := dir.TableReader(rr, name); if err != nil && !header.IsMissing(err)
     { return nil, err }; if fd != nil { v, err = dec(fd); if err != nil {...} }" *)
  Definition opt_sdec {V} (toc : list toc_entry) (tag : N) (dec : N -> prog V) : fcomp (option V) :=
    match tbl tag toc with
    | None => fret (Ok None)
    | Some (o, l) => fbind (f_sdec o l (dec l)) (fun v => fret (Ok (Some v)))
    end.

  (* "data, err := dir.ReadTableBytes(rr, name); if err != nil && !header.IsMissing(err) {...}" *)
  Definition opt_bytes (toc : list toc_entry) (tag : N) : fcomp (option (list N)) :=
    match tbl tag toc with
    | None => fret (Ok None)
    | Some (o, l) => fbind (f_bytes (d_grow D) o l) (fun b => fret (Ok (Some b)))
    end.

  (* "data, err := dir.ReadTableBytes(rr, name); if err != nil { return nil, err }" *)
  Definition req_bytes (toc : list toc_entry) (tag : N) : fcomp (list N) :=
    match tbl tag toc with
    | None => fret Err
    | Some (o, l) => f_bytes (d_grow D) o l
    end.

  (* "fd, err := dir.TableReader(rr, name); if err != nil { return nil, err }; v, err := dec(fd)" *)
  Definition req_sdec {V} (toc : list toc_entry) (tag : N) (dec : N -> prog V) : fcomp V :=
    match tbl tag toc with
    | None => fret Err
    | Some (o, l) => f_sdec o l (dec l)
    end.

  (* "if dir.Has(name) { ...TableReader...; dec }" *)
  Definition has_sdec (toc : list toc_entry) (tag : N) (dec : N -> prog unit) : fcomp unit :=
    if has tag toc then req_sdec toc tag dec else fret (Ok tt).

  (* numGlyphs and len(hmtxInfo.Widths) after the fix-up *)
  Definition fix_counts (maxpv nwo : option N) : outcome (N * N) :=
    let ng := match maxpv with Some g => g | None => 0 end in
    match nwo with
    | Some nw =>
      if 0 <? nw then
        if ng =? 0 then Ok (nw, nw)
        else if ng <? nw then Ok (ng, ng)             (* hmtxInfo.Widths = hmtxInfo.Widths[:numGlyphs] *)
        else if negb (nw =? ng) then Err              (* "hmtx and maxp glyph count mismatch" *)
        else Ok (ng, nw)
      else Ok (ng, 0)
    | None => Ok (ng, 0)
    end.

  (* "for _, name := range []string{"cvt ", "fpgm", "prep", "gasp"} { if !dir.Has(name) { continue }; ReadTableBytes }" *)
  Fixpoint extra_tables (toc : list toc_entry) (tags : list N) : fcomp unit :=
    match tags with
    | [] => fret (Ok tt)
    | t :: rest =>
      if has t toc then fbind (req_bytes toc t) (fun _ => extra_tables toc rest)
      else extra_tables toc rest
    end.

  Definition tt_extra : list N := [tag_cvt; tag_fpgm; tag_prep; tag_gasp].

  (* "switch dir.ScalerType" *)
  Definition outlines (s : N) (toc : list toc_entry) (headv : option Z) (maxpv : option N)
             (ng nw : N) : fcomp N :=
    if s =? header_scalerCFF then
      fbind (req_sdec toc tag_CFF (d_cff D)) (fun ngl =>
        if negb (ng =? 0) && negb (ngl =? ng) then fret Err       (* "cff glyph count mismatch" *)
        else if ngl <? nw then fret Panic                          (* cffInfo.Glyphs[i], i < len(Widths) *)
        else fret (Ok ngl))
    else if (s =? header_scalerTrueType) || (s =? header_scalerApple) then
      match headv, maxpv with
      | None, _ => fret Err                                        (* ErrMissing{"head"} *)
      | Some _, None => fret Err                                   (* ErrMissing{"maxp"} *)
      | Some lf, Some _ =>
        fbind (req_bytes toc tag_loca) (fun loca =>
        fbind (req_bytes toc tag_glyf) (fun glyf =>
        fbind (fret (d_glyf D lf loca glyf)) (fun ngl =>
        fbind (extra_tables toc tt_extra) (fun _ =>
          if negb (ng =? 0) && negb (ngl =? ng) then fret Err     (* "ttf glyph count mismatch" *)
          else fret (Ok ngl)))))
      end
    else fret Panic.                                               (* panic("unexpected scaler type") *)

  (* an error that is thrown away: the call is made, its outcome is not looked at *)
  Definition ignored {V} (x : outcome V) : fcomp unit := fret (match x with _ => Ok tt end).

  (* "if hheaData != nil { hmtxInfo, err = hmtx.Decode(hheaData, hmtxData) }":
     without hhea the hmtx bytes have been read but are never decoded *)
  Definition st_hmtx_dec (hhea hmtx : option (list N)) : fcomp (option N) :=
    match hhea with
    | Some h => fbind (fret (d_hmtx D h hmtx)) (fun nw => fret (Ok (Some nw)))
    | None => fret (Ok None)
    end.

  (* "if cmapData != nil { cmapTable, err = cmap.Decode(cmapData); ...; cmapBest, _ = cmapTable.GetBest() }" *)
  Definition st_cmap_dec (cm : option (list N)) : fcomp unit :=
    match cm with
    | Some c => fbind (fret (d_cmap D c)) (fun _ => ignored (d_getbest D c))
    | None => fret (Ok tt)
    end.

  (* "if nameData != nil { nameInfo, err := name.Decode(nameData); ... }" *)
  Definition st_name_dec (nm : option (list N)) : fcomp unit :=
    match nm with
    | Some n => fret (d_name D n)
    | None => fret (Ok tt)
    end.

  (* getNameTableVersion(nameTable): a version string that does not parse is "not ok", not an error *)
  Definition st_name_version (nm : option (list N)) : fcomp unit :=
    match nm with
    | Some n => ignored (d_namever D n)
    | None => fret (Ok tt)
    end.

  (* "if dir.Has("GSUB") {...} else if !info.IsFixedPitch() { cmap, _ := info.CMapTable.GetBest(); ... }" *)
  Definition st_gsub (toc : list toc_entry) (cm : option (list N)) : fcomp unit :=
    if has tag_GSUB toc then req_sdec toc tag_GSUB (d_gsub D)
    else match cm with
         | Some c => ignored (d_getbest D c)
         | None => fret (Ok tt)
         end.

  (* "if dir.Has("GPOS") {...} else if dir.Has("kern") {...}" *)
  Definition st_gpos (toc : list toc_entry) : fcomp unit :=
    if has tag_GPOS toc then req_sdec toc tag_GPOS (d_gpos D)
    else if has tag_kern toc then req_sdec toc tag_kern (d_kern D)
    else fret (Ok tt).

  (* everything after header.Read *)
  Definition read_tables (s : N) (toc : list toc_entry) : fcomp N :=
    if negb (gate toc) then fret Err else
    fbind (opt_sdec toc tag_head (d_head D)) (fun headv =>
    fbind (opt_bytes toc tag_hhea) (fun hhea =>
    fbind (opt_sdec toc tag_maxp (d_maxp D)) (fun maxpv =>
    fbind (opt_sdec toc tag_OS2 (d_os2 D)) (fun _ =>
    fbind (opt_bytes toc tag_hmtx) (fun hmtx =>
    fbind (st_hmtx_dec hhea hmtx) (fun nwo =>
    fbind (opt_bytes toc tag_cmap) (fun cm =>
    fbind (st_cmap_dec cm) (fun _ =>
    fbind (opt_bytes toc tag_name) (fun nm =>
    fbind (st_name_dec nm) (fun _ =>
    fbind (opt_sdec toc tag_post (d_post D)) (fun _ =>
    fbind (fret (fix_counts maxpv nwo)) (fun cnt =>
    fbind (outlines s toc headv maxpv (fst cnt) (snd cnt)) (fun ngl =>
    fbind (st_name_version nm) (fun _ =>
    fbind (has_sdec toc tag_GDEF (d_gdef D)) (fun _ =>
    fbind (st_gsub toc cm) (fun _ =>
    fbind (st_gpos toc) (fun _ =>
    fret (Ok ngl)))))))))))))))))).

  (* sfnt.Read on an io.ReaderAt; the value returned is NumGlyphs() of the font *)
  Definition M_sfnt_read_at : fcomp N :=
    fbind f_header (fun st => read_tables (fst st) (snd st)).

  (* sfnt.Read: "rr, ok := r.(io.ReaderAt); if !ok { data, err := io.ReadAll(r); ...; rr = bytes.NewReader(data) }" *)
  Definition M_sfnt_read (src : source) : outcome N * fprint :=
    match src with
    | SrcAt rd => M_sfnt_read_at rd
    | SrcStream evs =>
      match read_all_stream evs [] with
      | Ok data => M_sfnt_read_at (plain_at data)
      | Err => (Err, [])
      | Panic => (Panic, [])
      | OutOfFuel => (OutOfFuel, [])
      end
    end.

  (* the two results of the Go function: the font pointer (None = nil) and err != nil *)
  Definition M_sfnt_read_go (src : source) : option N * bool :=
    match fst (M_sfnt_read src) with
    | Ok v => (Some v, false)                          (* return info, nil *)
    | _ => (None, true)                                (* return nil, err *)
    end.
End Read.

(* ------------------------------------------------------------------ *)
(* 8. read.go's table accesses in source order (compared with the list  *)
(*    regenerated from read.go in Tie.v, and with the footprint of the  *)
(*    model in Proofs_Sites.v)                                          *)
(* ------------------------------------------------------------------ *)

(* (tag, ReadTableBytes?, missing tolerated?, behind dir.Has?) *)
Definition site : Type := (N * bool * bool * bool)%type.
Definition model_sites : list site :=
  [ (tag_head, false, true, false); (tag_hhea, true, true, false); (tag_maxp, false, true, false);
    (tag_OS2, false, true, false); (tag_hmtx, true, true, false); (tag_cmap, true, true, false);
    (tag_name, true, true, false); (tag_post, false, true, false);
    (tag_CFF, false, false, false);
    (tag_loca, true, false, false); (tag_glyf, true, false, false);
    (tag_cvt, true, false, true); (tag_fpgm, true, false, true); (tag_prep, true, false, true);
    (tag_gasp, true, false, true);
    (tag_GDEF, false, false, true); (tag_GSUB, false, false, true); (tag_GPOS, false, false, true);
    (tag_kern, false, false, true) ].

(* the tables a font of the given scaler type cannot do without *)
Definition required_tables (s : N) : list N :=
  if s =? header_scalerCFF then [tag_CFF] else [tag_head; tag_maxp; tag_loca; tag_glyf].

(* ------------------------------------------------------------------ *)
(* 9. Decoders given by a recording (the correspondence hands the model *)
(*    the accesses each section decoder made and what it returned)      *)
(* ------------------------------------------------------------------ *)

Fixpoint replay {V} (accs : list (N * N)) (v : outcome V) : prog V :=
  match accs with
  | [] => Ret v
  | (o, n) :: rest => Rd o n (fun r => match r with RFail => Ret Err | _ => replay rest v end)
  end.

(* summary of a footprint: the bytes covered, as sorted disjoint intervals [lo, hi) *)
Fixpoint ins_iv (lo hi : N) (l : list (N * N)) : list (N * N) :=
  match l with
  | [] => [(lo, hi)]
  | (a, b) :: r =>
    if hi <? a then (lo, hi) :: l
    else if b <? lo then (a, b) :: ins_iv lo hi r
    else ins_iv (N.min lo a) (N.max hi b) r
  end.
Definition covered (t : fprint) : list (N * N) :=
  fold_left (fun acc a => if snd a =? 0 then acc else ins_iv (fst a) (fst a + snd a) acc) t [].

(* does some access of the footprint touch offset k ? *)
Definition touches (t : fprint) (k : N) : bool :=
  existsb (fun a : N * N => (fst a <=? k) && (k <? fst a + snd a)) t.

(* the tables in the order in which the footprint first enters them *)
Definition table_of (toc : list toc_entry) (off : N) : option N :=
  match find (fun t : toc_entry => (snd (fst t) <=? off) && (off <? snd (fst t) + snd t)) toc with
  | Some t => Some (fst (fst t))
  | None => None
  end.
Fixpoint first_touch (toc : list toc_entry) (t : fprint) (seen : list N) : list N :=
  match t with
  | [] => []
  | a :: r =>
    match table_of toc (fst a) with
    | Some tag => if existsb (N.eqb tag) seen then first_touch toc r seen
                  else tag :: first_touch toc r (tag :: seen)
    | None => first_touch toc r seen
    end
  end.
