(* C18B/Proofs_Trunc.v — the directory part of the footprint in closed form,
   truncated files, streams, sparse files. *)
From Coq Require Import List NArith ZArith Bool Arith Lia Permutation.
From Coq Require Import ZifyBool ZifyNat ZifyN.
From Common Require Import Bytes Outcome.
From Gen Require Import Consts.
From C03 Require Import Model Proofs_Sort Proofs_Read.
From C18 Require Import Proofs_Trunc.
From C18B Require Import Model Spec Proofs_Tight Proofs_Inv Proofs_Cover.
Import ListNotations.
Local Open Scope N_scope.

(* ---- the accesses of a header.Read that succeeds ---- *)

Definition entry_accesses (i : N) (cnt : nat) : fprint :=
  map (fun j => (12 + (i + N.of_nat j) * 16, 16)) (seq 0 cnt).

Lemma entries_fp_ok r : forall cnt i acc toc,
  rd_entries r cnt i acc = Ok toc ->
  entries_fp r cnt i acc = entry_accesses i cnt /\ length toc = (length acc + cnt)%nat.
Proof.
  induction cnt as [|c IH]; intros i acc toc H; cbn [rd_entries entries_fp] in *.
  - inversion H; subst. split; [reflexivity|lia].
  - destruct (r (12 + i * 16) 16) as [e|]; [|discriminate].
    destruct (negb (forallb printable (firstn 4 e))); [discriminate|].
    destruct (existsb _ acc); [discriminate|].
    destruct (IH _ _ _ H) as [H1 H2]. rewrite H1, H2, app_length. cbn [length]. split; [|lia].
    unfold entry_accesses. cbn [seq map]. f_equal; [f_equal; lia|].
    rewrite <- seq_shift, map_map. apply map_ext. intros j. f_equal. lia.
Qed.

Definition covf (t : toc_entry) : N * N := (snd (fst t), wrap32 (snd (fst t) + snd t)).

Lemma dir_fp_ok r s toc : M_read_dir_r r = Ok (s, toc) ->
  exists e, dir_fp r = (0, 6) :: entry_accesses 0 (length toc) ++ [(e - 1, 1)] /\
            e <> 0 /\ (exists x, r (e - 1) 1 = Some x) /\
            (exists c0 cs, isort cov_before (map covf toc) = c0 :: cs /\ e = snd (last (c0 :: cs) c0) /\
                           overlaps (c0 :: cs) = false /\ 12 <= fst c0).
Proof.
  intros H. destruct (read_dir_inv _ _ _ H) as (h & c0 & cs & x & E6 & -> & Ev & Em & Ee & Es & E12 & Eo & E0 & Ep).
  exists (snd (last (c0 :: cs) c0)). unfold dir_fp. rewrite E6, Ev, Em, Ee. cbn [negb].
  destruct (entries_fp_ok _ _ _ _ _ Ee) as [H1 H2]. cbn [length plus] in H2.
  rewrite H1, H2. unfold probe_fp. fold covf. change C18.Proofs_Trunc.covf with covf in Es.
  rewrite Es, E12, Eo, E0. split; [reflexivity|].
  apply N.eqb_neq in E0. apply N.ltb_ge in E12. split; [exact E0|]. split; [eauto|]. exists c0, cs. auto.
Qed.

(* without wrap-around the probe sits on the last byte of the table data *)
Lemma adjacent_last_max : forall (l : list (N * N)) d,
  Forall (fun c => fst c <= snd c) l -> overlaps l = false -> forall x, In x l -> snd x <= snd (last l d).
Proof.
  induction l as [|a l IH]; intros d Hw Ho x Hin; [destruct Hin|].
  destruct l as [|c r].
  - destruct Hin as [->|[]]. cbn [last]. lia.
  - change (last (a :: c :: r) d) with (last (c :: r) d).
    cbn [overlaps] in Ho. apply orb_false_iff in Ho. destruct Ho as [Ho1 Ho2].
    inversion Hw as [|? ? Hwa Hw']; subst.
    destruct Hin as [->|Hin]; [|now apply IH].
    assert (Hc : snd c <= snd (last (c :: r) d)) by (apply IH; [exact Hw'|exact Ho2|now left]).
    inversion Hw' as [|? ? Hwc _]; subst. apply N.ltb_ge in Ho1. lia.
Qed.

Lemma covf_nowrap toc : no_wrap toc ->
  map covf toc = map (fun t : toc_entry => (snd (fst t), snd (fst t) + snd t)) toc.
Proof.
  intros Hn. apply map_ext_in. intros t Ht. unfold no_wrap in Hn. rewrite Forall_forall in Hn.
  specialize (Hn t Ht). unfold covf, wrap32. f_equal. now apply N.mod_small.
Qed.

Lemma fold_max_in l : l <> [] -> In (fold_right N.max 0 l) l.
Proof.
  induction l as [|a l IH]; [congruence|]. intros _. cbn [fold_right].
  destruct l as [|b r]; [cbn [fold_right]; left; lia|].
  destruct (N.max_spec a (fold_right N.max 0 (b :: r))) as [[_ ->]|[_ ->]]; [right; apply IH; discriminate|now left].
Qed.

Lemma fold_max_ge l x : In x l -> x <= fold_right N.max 0 l.
Proof.
  induction l as [|a l IH]; [intros []|]. intros [->|H]; cbn [fold_right]; [lia|]. specialize (IH H). lia.
Qed.

Lemma probe_is_toc_end toc c0 cs : no_wrap toc ->
  isort cov_before (map covf toc) = c0 :: cs -> overlaps (c0 :: cs) = false ->
  snd (last (c0 :: cs) c0) = toc_end toc.
Proof.
  intros Hn Es Ho. rewrite (covf_nowrap _ Hn) in Es.
  set (cl := map (fun t : toc_entry => (snd (fst t), snd (fst t) + snd t)) toc) in *.
  pose proof (isort_perm cov_before cl) as Hp. rewrite Es in Hp.
  assert (Hw : Forall (fun c : N * N => fst c <= snd c) (c0 :: cs)).
  { apply Forall_forall. intros c Hc. apply (Permutation_in _ Hp) in Hc.
    unfold cl in Hc. apply in_map_iff in Hc. destruct Hc as (t & <- & _). cbn [fst snd]. lia. }
  assert (Hends : map snd cl = map (fun t : toc_entry => snd (fst t) + snd t) toc)
    by (unfold cl; rewrite map_map; reflexivity).
  unfold toc_end. rewrite <- Hends. apply N.le_antisymm.
  - apply fold_max_ge. apply in_map. eapply Permutation_in; [exact Hp|]. apply last_in. discriminate.
  - assert (Hne : map snd cl <> []).
    { intros E. apply map_eq_nil in E. rewrite E in Hp. apply Permutation_sym, Permutation_nil in Hp. discriminate. }
    pose proof (fold_max_in _ Hne) as Hi. apply in_map_iff in Hi. destruct Hi as (c & <- & Hc).
    apply adjacent_last_max; [exact Hw|exact Ho|]. eapply Permutation_in; [symmetry; exact Hp|exact Hc].
Qed.

Lemma dir_fp_closed r s toc : M_read_dir_r r = Ok (s, toc) -> no_wrap toc ->
  dir_fp r = (0, 6) :: entry_accesses 0 (length toc) ++ [(toc_end toc - 1, 1)] /\
  toc_end toc <> 0 /\ exists x, r (toc_end toc - 1) 1 = Some x.
Proof.
  intros H Hn. destruct (dir_fp_ok _ _ _ H) as (e & H1 & H2 & H3 & c0 & cs & Es & -> & Ho & _).
  rewrite (probe_is_toc_end toc c0 cs Hn Es Ho) in *. auto.
Qed.

(* ---- truncated files ---- *)

Lemma below_firstn b k : below (to_c03 (plain_at (firstn (N.to_nat k) b))) (to_c03 (plain_at b)).
Proof.
  intros off n x. unfold to_c03, plain_at. rewrite firstn_length.
  set (L := N.of_nat (length b)). set (L' := N.of_nat (Nat.min (N.to_nat k) (length b))).
  assert (HL : L' <= L) by (unfold L, L'; lia).
  destruct (N.leb_spec L' off); [discriminate|].
  destruct (N.leb_spec (off + n) L'); [|discriminate].
  destruct (N.leb_spec L off); [lia|]. destruct (N.leb_spec (off + n) L); [|lia].
  intros E. inversion E. f_equal. symmetry. apply sub_firstn. unfold L' in *. lia.
Qed.

Lemma truncated_dir_rejected b s toc k :
  M_read_dir_r (to_c03 (plain_at b)) = Ok (s, toc) -> no_wrap toc -> k < toc_end toc ->
  M_read_dir_r (to_c03 (plain_at (firstn (N.to_nat k) b))) = Err.
Proof.
  intros H Hn Hk. set (r' := to_c03 (plain_at (firstn (N.to_nat k) b))).
  destruct (read_dir_total r') as [([s' toc'] & Hok)|He]; [exfalso|exact He].
  pose proof (read_dir_mono _ _ _ (below_firstn b k) Hok) as Hfull.
  rewrite H in Hfull. inversion Hfull; subst s' toc'. clear Hfull.
  destruct (dir_fp_closed _ _ _ Hok Hn) as (_ & Hne & x & Hx).
  unfold r', to_c03, plain_at in Hx. rewrite firstn_length in Hx.
  destruct (N.leb_spec (N.of_nat (Nat.min (N.to_nat k) (length b))) (toc_end toc - 1)); [discriminate|]. lia.
Qed.

(* the other side: a file cut behind the directory and behind the end of the
   table data is read exactly like the whole file *)
Lemma plain_firstn_agree b k o n : o + n <= k -> o < k -> k <= N.of_nat (length b) ->
  plain_at (firstn (N.to_nat k) b) o n = plain_at b o n.
Proof.
  intros H1 H2 H3. rewrite !plain_at_inside; try (rewrite ?firstn_length; lia).
  f_equal. apply sub_firstn. lia.
Qed.

Lemma toc_end_ge toc tag o l : tbl tag toc = Some (o, l) -> o + l <= toc_end toc.
Proof.
  unfold tbl. destruct (find _ toc) as [t|] eqn:E; [|discriminate]. intros H. inversion H; subst.
  apply find_some in E. destruct E as [Hi _]. unfold toc_end. apply fold_max_ge.
  apply in_map_iff. exists t. auto.
Qed.

Lemma determined_sfnt_read_at D : determined (M_sfnt_read_at D).
Proof.
  unfold M_sfnt_read_at. apply determined_bind; [apply tight_header|]. intros st.
    (* determined needs nothing about the decoders *)
    unfold read_tables.
    assert (Hsd : forall V tag (dec : N -> prog V), determined (opt_sdec (snd st) tag dec)).
    { intros V tag dec. unfold opt_sdec. destruct (tbl tag (snd st)) as [[o l]|]; [|apply tight_ret].
      apply determined_bind; [apply run_sec_determined|intros; apply tight_ret]. }
    assert (Hob : forall tag, determined (opt_bytes D (snd st) tag)).
    { intros tag. unfold opt_bytes. destruct (tbl tag (snd st)) as [[o l]|]; [|apply tight_ret].
      apply determined_bind; [apply tight_bytes|intros; apply tight_ret]. }
    assert (Hrb : forall tag, determined (req_bytes D (snd st) tag)).
    { intros tag. unfold req_bytes. destruct (tbl tag (snd st)) as [[o l]|]; [apply tight_bytes|apply tight_ret]. }
    assert (Hrs : forall V tag (dec : N -> prog V), determined (req_sdec (snd st) tag dec)).
    { intros V tag dec. unfold req_sdec. destruct (tbl tag (snd st)) as [[o l]|]; [apply run_sec_determined|apply tight_ret]. }
    assert (Hex : forall tags, determined (extra_tables D (snd st) tags)).
    { induction tags as [|t r IH]; cbn [extra_tables]; [apply tight_ret|].
      destruct (has t (snd st)); [|exact IH]. apply determined_bind; [apply Hrb|intros; exact IH]. }
    destruct (negb (gate (snd st))); [apply tight_ret|].
    apply determined_bind; [apply Hsd|intros headv].
    apply determined_bind; [apply Hob|intros hhea].
    apply determined_bind; [apply Hsd|intros maxpv].
    apply determined_bind; [apply Hsd|intros _].
    apply determined_bind; [apply Hob|intros hmtx].
    apply determined_bind.
    { unfold st_hmtx_dec. destruct hhea; [|apply tight_ret].
      apply determined_bind; [apply tight_ret|intros; apply tight_ret]. }
    intros nwo.
    apply determined_bind; [apply Hob|intros cm].
    apply determined_bind.
    { unfold st_cmap_dec. destruct cm; [|apply tight_ret].
      apply determined_bind; [apply tight_ret|intros; apply tight_ret]. }
    intros _.
    apply determined_bind; [apply Hob|intros nm].
    apply determined_bind; [unfold st_name_dec; destruct nm; apply tight_ret|intros _].
    apply determined_bind; [apply Hsd|intros _].
    apply determined_bind; [apply tight_ret|intros cnt].
    apply determined_bind.
    { unfold outlines. destruct (fst st =? header_scalerCFF).
      - apply determined_bind; [apply Hrs|]. intros ngl.
        destruct (negb (fst cnt =? 0) && negb (ngl =? fst cnt)); [apply tight_ret|].
        destruct (ngl <? snd cnt); apply tight_ret.
      - destruct ((fst st =? header_scalerTrueType) || (fst st =? header_scalerApple)); [|apply tight_ret].
        destruct headv; [|apply tight_ret]. destruct maxpv; [|apply tight_ret].
        apply determined_bind; [apply Hrb|intros loca].
        apply determined_bind; [apply Hrb|intros glyf].
        apply determined_bind; [apply tight_ret|intros ngl].
        apply determined_bind; [apply Hex|intros _].
        destruct (negb (fst cnt =? 0) && negb (ngl =? fst cnt)); apply tight_ret. }
    intros ngl.
    apply determined_bind; [unfold st_name_version; destruct nm; apply tight_ret|intros _].
    apply determined_bind; [unfold has_sdec; destruct (has tag_GDEF (snd st)); [apply Hrs|apply tight_ret]|intros _].
    apply determined_bind.
    { unfold st_gsub. destruct (has tag_GSUB (snd st)); [apply Hrs|destruct cm; apply tight_ret]. }
    intros _.
    apply determined_bind; [|intros; apply tight_ret].
    unfold st_gpos. destruct (has tag_GPOS (snd st)); [apply Hrs|].
    destruct (has tag_kern (snd st)); [apply Hrs|apply tight_ret].
Qed.

Theorem padding_cut_same D b s toc k :
  M_read_dir_r (to_c03 (plain_at b)) = Ok (s, toc) -> no_wrap toc ->
  toc_end toc <= k -> 12 + 16 * N.of_nat (length toc) <= k -> k <= N.of_nat (length b) ->
  M_sfnt_read_at D (plain_at (firstn (N.to_nat k) b)) = M_sfnt_read_at D (plain_at b).
Proof.
  intros H Hn Hk Hd HL.
  pose proof (determined_sfnt_read_at D) as Hdet.
  apply Hdet. intros o n Hi.
  apply plain_firstn_agree; try exact HL.
  - (* every access ends at or before k *)
    unfold M_sfnt_read_at in Hi. rewrite fbind_eq in Hi. unfold f_header in Hi. cbn [fst snd] in Hi.
    rewrite H in Hi. cbn [fst snd] in Hi. apply in_app_or in Hi. destruct Hi as [Hi|Hi].
    + destruct (dir_fp_closed _ _ _ H Hn) as (E & Hne & _). rewrite E in Hi.
      destruct Hi as [Hi|Hi]; [apply pair_equal_spec in Hi; destruct Hi as [<- <-]; lia|]. apply in_app_or in Hi. destruct Hi as [Hi|Hi].
      * unfold entry_accesses in Hi. apply in_map_iff in Hi. destruct Hi as (j & Hj & Hs).
        apply in_seq in Hs. apply pair_equal_spec in Hj. destruct Hj as [<- <-]. lia.
      * destruct Hi as [Hi|[]]. apply pair_equal_spec in Hi. destruct Hi as [<- <-]. lia.
    + pose proof (fp_read_tables D toc s (plain_at b)) as Hall. rewrite Forall_forall in Hall.
      destruct (Hall _ Hi) as (tag & ot & lt & _ & Ht & Hin). apply toc_end_ge in Ht.
      unfold inside in Hin. cbn [fst snd] in Hin. lia.
  - unfold M_sfnt_read_at in Hi. rewrite fbind_eq in Hi. unfold f_header in Hi. cbn [fst snd] in Hi.
    rewrite H in Hi. cbn [fst snd] in Hi. apply in_app_or in Hi. destruct Hi as [Hi|Hi].
    + destruct (dir_fp_closed _ _ _ H Hn) as (E & Hne & _). rewrite E in Hi.
      destruct Hi as [Hi|Hi]; [apply pair_equal_spec in Hi; destruct Hi as [<- <-]; lia|]. apply in_app_or in Hi. destruct Hi as [Hi|Hi].
      * unfold entry_accesses in Hi. apply in_map_iff in Hi. destruct Hi as (j & Hj & Hs).
        apply in_seq in Hs. apply pair_equal_spec in Hj. destruct Hj as [<- <-]. lia.
      * destruct Hi as [Hi|[]]. apply pair_equal_spec in Hi. destruct Hi as [<- <-]. lia.
    + pose proof (fp_read_tables D toc s (plain_at b)) as Hall. rewrite Forall_forall in Hall.
      destruct (Hall _ Hi) as (tag & ot & lt & _ & Ht & Hin). apply toc_end_ge in Ht.
      unfold inside in Hin. cbn [fst snd] in Hin. lia.
Qed.

(* ---- streams ---- *)

Definition stream_data (evs : list sev) : list N :=
  concat (map (fun e => match e with SChunk d => d | SFail => [] end) evs).

Lemma read_all_stream_spec : forall evs acc,
  (In SFail evs -> read_all_stream evs acc = Err) /\
  (~ In SFail evs -> read_all_stream evs acc = Ok (acc ++ stream_data evs)).
Proof.
  induction evs as [|e evs IH]; intros acc; cbn [read_all_stream].
  - split; [intros []|]. intros _. unfold stream_data. cbn. now rewrite app_nil_r.
  - destruct e as [d|].
    + destruct (IH (acc ++ d)) as [H1 H2]. split.
      * intros [E|Hi]; [discriminate|auto].
      * intros Hn. rewrite H2 by (intros Hi; apply Hn; now right).
        unfold stream_data. cbn [map concat]. now rewrite app_assoc.
    + split; [reflexivity|]. intros Hn. exfalso. apply Hn. now left.
Qed.

(* ---- sparse files ---- *)

Lemma sub_app_zeros (pre : list N) c o m : (o + m <= length pre + c)%nat ->
  sub (pre ++ repeat 0 c) o m = sub pre o m ++ repeat 0 (m - length (sub pre o m)).
Proof.
  intros H. unfold sub. rewrite skipn_app, firstn_app. f_equal.
  rewrite skipn_length.
  assert (Hs : forall j d, skipn j (repeat (0 : N) d) = repeat 0 (d - j)%nat).
  { induction j as [|j IHj]; intros d; [now rewrite Nat.sub_0_r|].
    destruct d as [|d]; [reflexivity|]. cbn [repeat skipn]. apply IHj. }
  assert (Hf : forall i d, (i <= d)%nat -> firstn i (repeat (0 : N) d) = repeat 0 i).
  { induction i as [|i IHi]; intros d Hd; [reflexivity|].
    destruct d as [|d]; [lia|]. cbn [repeat firstn]. f_equal. apply IHi. lia. }
  rewrite Hs, Hf by lia. f_equal. rewrite firstn_length, skipn_length. lia.
Qed.

Lemma sparse_at_plain pre L : N.of_nat (length pre) <= L ->
  forall off n, sparse_at pre L off n = plain_at (sparse_file pre L) off n.
Proof.
  intros Hp off n. unfold sparse_at, plain_at, sparse_file.
  rewrite firstn_all2 by lia.
  rewrite app_length, repeat_length.
  replace (N.of_nat (length pre + (N.to_nat L - length pre))) with L by lia.
  destruct (N.leb_spec L off); [reflexivity|].
  destruct (N.leb_spec (off + n) L).
  - f_equal. symmetry. apply sub_app_zeros. lia.
  - f_equal. symmetry.
    replace (skipn (N.to_nat off) (pre ++ repeat 0 (N.to_nat L - length pre)))
      with (sub (pre ++ repeat 0 (N.to_nat L - length pre)) (N.to_nat off) (N.to_nat (L - off))).
    + apply sub_app_zeros. lia.
    + unfold sub. apply firstn_all2. rewrite skipn_length, app_length, repeat_length. lia.
Qed.
