From Coq Require Import Extraction ExtrOcamlBasic.
From Common Require Import Conv Outcome.
From Gen Require Import Consts.
From C03 Require Import Model.
From C18B Require Import Model Concrete Bulk.
Extraction "c18b_model.ml" conv_anchor M_sfnt_read_at M_sfnt_read M_sfnt_read_go faulty fails_at fails_ge no_fault
  sparse_at sparse_file plain_at to_c03 M_read_dir_r dir_fp replay covered first_touch touches
  model_sites required_tables with_models M_bulk_read rb_recorded parser_bufferSize.
