(* C18B/Props.v — part B of C18: propagation of errors, faults and truncation
   through sfnt.Read BEYOND the table directory.  Statements only; proofs in
   Proofs_*.v.

   The decoders of the individual tables are not modelled: every theorem
   quantifies over all of them (record [decoders]).  What is assumed of them
   is said in each statement:
     decoders_total  D : no decoder panics or loops (C02's property)
     decoders_strict D : a decoder handed a section reader returns an error at
                         once when a read fails (the harness checks this on
                         every consulted offset of every generated font)

   TOLERATED-ERROR SITES of read.go, as the code is (each one is in the model,
   and the harness checks for each that a fault / malformed table there is NOT
   an error):
     T1  head, hhea, maxp, OS/2, hmtx, cmap, name, post missing:
         `err != nil && !header.IsMissing(err)`  (model: opt_sdec / opt_bytes);
         head and maxp are required later for TrueType outlines only
     T2  `cmapBest, _ = cmapTable.GetBest()`         (model: d_getbest, ignored)
     T3  `cmap, _ := info.CMapTable.GetBest()` in the branch without GSUB
                                                      (model: d_getbest, ignored)
     T4  getNameTableVersion: a version string that does not parse is
         "not ok", the head table's revision is used  (model: d_namever, ignored)
     T5  hmtx present, hhea absent: the hmtx bytes are READ (a fault there is
         an error) but never decoded (malformed contents are not an error)
                                                      (model: st_hmtx_dec)
     T6  cvt, fpgm, prep, gasp, GDEF, GSUB, GPOS, kern of length zero: skipped
         by dir.Has, neither read nor decoded         (model: has / guarded)
     T7  kern present next to a non-empty GPOS: never looked at (model: st_gpos)
     T8  "CFF " in a font with a TrueType scaler type, glyf/loca/cvt/fpgm/prep/
         gasp in a font with scaler type OTTO: never looked at (outlines)
     T9  every table read.go has no name for (DSIG, vhea, ...), the bytes 6..11
         of the offset table, the checksums' correctness, the padding between
         and after the tables: never looked at       (consulted_inside)
     T10 io.EOF inside a table (a table that passes the end of the file can
         only get past header.Read through 32-bit wrap-around of offset +
         length): ReadTableBytes returns the shortened bytes without error
         (model: read_all_sec, REof; Examples.wrap_defeats_probe) *)
From Coq Require Import List NArith ZArith Bool Arith Lia.
From Common Require Import Bytes Outcome.
From Gen Require Import Consts.
From C03 Require Import Model.
From C18 Require Model.
From C18B Require Import Model Spec Proofs_Tight Proofs_Inv Proofs_Cover Proofs_Trunc Proofs_Sites Proofs_Props Tie.
From C18B Require Import Concrete Proofs_Concrete Bulk Proofs_Bulk.
From C17 Require Model.
Import ListNotations.
Local Open Scope N_scope.

(* 1. Errors propagate.  For every source and all decoders that do not panic:
   sfnt.Read returns a font or an error, never panics; it returns a font
   exactly under the conditions [read_ok] (header.Read succeeds; outline tables
   present; every table that is there is read and decoded without error;
   glyph counts agree); in particular it returns an error when header.Read
   does, when a required table is missing, or when a decoder or a table read
   that read.go does not deliberately tolerate returns an error ([must_fail]
   lists them site by site). *)
Theorem read_error_propagates : forall (D : decoders) (rd : racc), decoders_total D ->
  okerr (fst (M_sfnt_read_at D rd)) /\
  (forall v, fst (M_sfnt_read_at D rd) = Ok v <-> read_ok D rd v) /\
  (forall s toc, M_read_dir_r (to_c03 rd) = Ok (s, toc) -> must_fail D rd s toc ->
                 fst (M_sfnt_read_at D rd) = Err) /\
  (M_read_dir_r (to_c03 rd) = Err -> fst (M_sfnt_read_at D rd) = Err).
Proof. exact errors_propagate. Qed.
Print Assumptions read_error_propagates.

(* 2. Faults surface.  [snd (M_sfnt_read_at D rd)] is the list of accesses
   sfnt.Read makes on the fault-free source rd - the consulted byte ranges.
   For every set of bad offsets, a reader failing (not with EOF) on every
   access that touches a bad offset: if a bad offset lies in a consulted range
   the result is an error; if none does, outcome and accesses are exactly
   those of the fault-free run (so the set is tight). *)
Theorem read_fault_surfaces : forall (D : decoders) (rd : racc) (fails : N -> N -> bool) (bad : N -> Prop),
  decoders_strict D -> fails_is bad fails ->
  ((exists k, bad k /\ covers (snd (M_sfnt_read_at D rd)) k) ->
     fst (M_sfnt_read_at D (faulty fails rd)) = Err) /\
  ((forall k, bad k -> ~ covers (snd (M_sfnt_read_at D rd)) k) ->
     M_sfnt_read_at D (faulty fails rd) = M_sfnt_read_at D rd).
Proof. exact faults_surface. Qed.
Print Assumptions read_fault_surfaces.

(* the tight side holds for all decoders whatsoever *)
Theorem read_fault_elsewhere_harmless : forall (D : decoders) (rd : racc) (fails : N -> N -> bool) (bad : N -> Prop),
  fails_is bad fails ->
  (forall k, bad k -> ~ covers (snd (M_sfnt_read_at D rd)) k) ->
  M_sfnt_read_at D (faulty fails rd) = M_sfnt_read_at D rd.
Proof. exact faults_elsewhere. Qed.
Print Assumptions read_fault_elsewhere_harmless.

(* the two fault styles of the correspondence are such readers *)
Theorem fault_styles : forall k, fails_is (fun j => j = k) (fails_at k) /\ fails_is (fun j => k <= j) (fails_ge k).
Proof. intros k. split; [apply fails_at_is|apply fails_ge_is]. Qed.
Print Assumptions fault_styles.

(* 2b. The consulted ranges in closed form.  For a read that succeeds, the
   accesses are, in this order: header.Read's, then those of the sites of
   read.go that are active for this directory ([consulted]; the site list is
   Model.model_sites = the list regenerated from read.go, Tie.sites_match). *)
Theorem consulted_closed_form : forall (D : decoders) (rd : racc) (v s : N) (toc : list toc_entry),
  M_read_dir_r (to_c03 rd) = Ok (s, toc) -> fst (M_sfnt_read_at D rd) = Ok v ->
  snd (M_sfnt_read_at D rd) = consulted D rd s toc.
Proof. exact footprint_closed_form. Qed.
Print Assumptions consulted_closed_form.

(* header.Read's part, for a file without 32-bit wrap-around in its directory:
   bytes 0..5, the directory entries, the last byte of the table data *)
Theorem consulted_directory : forall (r : reader) (s : N) (toc : list toc_entry),
  M_read_dir_r r = Ok (s, toc) -> no_wrap toc ->
  dir_fp r = (0, 6) :: entry_accesses 0 (length toc) ++ [(toc_end toc - 1, 1)] /\
  toc_end toc <> 0 /\ exists x, r (toc_end toc - 1) 1 = Some x.
Proof. exact dir_fp_closed. Qed.
Print Assumptions consulted_directory.

(* ReadTableBytes reads its table from the first byte to the last, whatever
   the buffer growth; a section decoder stays inside its table; every access
   behind the directory lies inside a table that read.go names and the
   directory lists - for every source, successful or not *)
Theorem consulted_tables : forall (D : decoders) (b : list N) (toc : list toc_entry) (tag o l : N),
  tbl tag toc = Some (o, l) -> o + l <= N.of_nat (length b) ->
  forall k, covers (bytes_fp D (plain_at b) toc tag) k <-> o <= k /\ k < o + l.
Proof. exact bytes_fp_exact. Qed.
Print Assumptions consulted_tables.

Theorem consulted_inside : forall (D : decoders) (toc : list toc_entry) (s : N) (rd : racc),
  Forall (in_named_table toc) (snd (read_tables D s toc rd)).
Proof. intros D toc s rd. apply fp_read_tables. Qed.
Print Assumptions consulted_inside.

(* every byte of hhea, hmtx, cmap, name and - TrueType outlines - loca, glyf
   and the non-empty cvt, fpgm, prep, gasp is consulted by a read that succeeds *)
Theorem consulted_whole_tables : forall (D : decoders) (b : list N) (s : N) (toc : list toc_entry)
    (v tag o l k : N),
  M_read_dir_r (to_c03 (plain_at b)) = Ok (s, toc) -> no_wrap toc ->
  fst (M_sfnt_read_at D (plain_at b)) = Ok v ->
  In tag (fully_read s toc) -> tbl tag toc = Some (o, l) -> o <= k -> k < o + l ->
  covers (snd (M_sfnt_read_at D (plain_at b))) k.
Proof. exact fully_read_consulted. Qed.
Print Assumptions consulted_whole_tables.

(* 3. Truncation.  A file whose directory header.Read accepts (no wrap-around),
   cut at any k below the end of the table data - i.e. inside the data of some
   table of the directory or before it: sfnt.Read rejects the prefix read
   through a ReaderAt, the whole file behind a ReaderAt failing from offset k
   on, and the prefix delivered by a streaming reader in any chunking.
   Tight: cut at or after the end of the table data and of the directory
   (final padding only) the file is read exactly like the whole file. *)
Theorem truncation_inside_tables_rejected : forall (D : decoders) (b : list N) (s : N) (toc : list toc_entry) (k : N),
  M_read_dir_r (to_c03 (plain_at b)) = Ok (s, toc) -> no_wrap toc -> k < toc_end toc ->
  fst (M_sfnt_read_at D (plain_at (firstn (N.to_nat k) b))) = Err /\
  fst (M_sfnt_read_at D (faulty (fails_ge k) (plain_at b))) = Err /\
  (forall evs, ~ In SFail evs -> stream_data evs = firstn (N.to_nat k) b ->
               fst (M_sfnt_read D (SrcStream evs)) = Err).
Proof. exact truncation_rejected_gen. Qed.
Print Assumptions truncation_inside_tables_rejected.

Theorem truncation_of_padding_accepted : forall (D : decoders) (b : list N) (s : N) (toc : list toc_entry) (k : N),
  M_read_dir_r (to_c03 (plain_at b)) = Ok (s, toc) -> no_wrap toc ->
  toc_end toc <= k -> 12 + 16 * N.of_nat (length toc) <= k -> k <= N.of_nat (length b) ->
  M_sfnt_read_at D (plain_at (firstn (N.to_nat k) b)) = M_sfnt_read_at D (plain_at b).
Proof. exact padding_cut_same. Qed.
Print Assumptions truncation_of_padding_accepted.

(* composed with C18.truncation_rejected: the files header.Write produces *)
Theorem truncation_of_written_font_rejected : forall (D : decoders) (s : N) (ts : list table) (out : list N) (k : N),
  C03.Spec.map_ok ts -> M_write s ts = Ok out -> valid_scaler s = true ->
  Forall (fun t : table => forallb printable (fst t) = true) ts ->
  N.of_nat (length (M_filter ts)) <= header_maxTables ->
  C03.Spec.file_size (M_filter ts) < 4294967296 ->
  k < C18.Model.data_end out ->
  fst (M_sfnt_read_at D (plain_at (firstn (N.to_nat k) out))) = Err.
Proof. exact written_truncation. Qed.
Print Assumptions truncation_of_written_font_rejected.

(* streaming readers (io.ReadAll first): a read that fails anywhere - also
   behind the last byte - is an error; otherwise the bytes delivered, in
   whatever chunks, are read as a plain file *)
Theorem stream_fault_surfaces : forall (D : decoders) (evs : list sev),
  (In SFail evs -> fst (M_sfnt_read D (SrcStream evs)) = Err) /\
  (~ In SFail evs -> M_sfnt_read D (SrcStream evs) = M_sfnt_read_at D (plain_at (stream_data evs))).
Proof. exact stream_faults. Qed.
Print Assumptions stream_fault_surfaces.

(* 4. No partial success: the font pointer is nil exactly when the error is
   not (the return statements of read.go have this shape: Tie.returns_match). *)
Theorem no_partial_success : forall (D : decoders) (src : source),
  (snd (M_sfnt_read_go D src) = true <-> fst (M_sfnt_read_go D src) = None) /\
  (forall v, fst (M_sfnt_read_go D src) = Some v <-> fst (M_sfnt_read D src) = Ok v).
Proof. exact go_results. Qed.
Print Assumptions no_partial_success.

(* 5. What read.go tolerates (sites T2-T5, T7; T1, T6, T8 are clauses of
   read_ok; T9 is consulted_inside + read_fault_elsewhere_harmless). *)
Theorem tolerated_discarded_errors : forall (D : decoders) (g n : list N -> outcome unit) (rd : racc),
  M_sfnt_read_at (with_discarded D g n) rd = M_sfnt_read_at D rd.
Proof. exact discarded_errors_ignored. Qed.
Print Assumptions tolerated_discarded_errors.

Theorem tolerated_hmtx_without_hhea : forall (D : decoders) (h : list N -> option (list N) -> outcome N)
    (rd : racc) (s : N) (toc : list toc_entry),
  M_read_dir_r (to_c03 rd) = Ok (s, toc) -> tbl tag_hhea toc = None ->
  M_sfnt_read_at (with_hmtx D h) rd = M_sfnt_read_at D rd.
Proof. exact hmtx_without_hhea_ignored. Qed.
Print Assumptions tolerated_hmtx_without_hhea.

Theorem tolerated_kern_behind_gpos : forall (D : decoders) (kd : N -> prog unit) (rd : racc) (s : N) (toc : list toc_entry),
  M_read_dir_r (to_c03 rd) = Ok (s, toc) -> has tag_GPOS toc = true ->
  M_sfnt_read_at (with_kern D kd) rd = M_sfnt_read_at D rd.
Proof. exact kern_behind_gpos_ignored. Qed.
Print Assumptions tolerated_kern_behind_gpos.

(* 6. The tie to read.go: the regenerated site list, decoder order, discarded
   errors, return statements, scaler cases and steering conditions are those
   of the model. *)
Theorem model_matches_read_go :
  Gen.C18B.read_go_sites = model_sites /\
  Gen.C18B.read_go_decoders = model_decoders /\
  Gen.C18B.read_go_blank = model_blank /\
  forallb (fun p : bool * bool => xorb (fst p) (snd p)) Gen.C18B.read_go_returns = true /\
  Gen.C18B.read_go_conds = model_conds.
Proof.
  split; [exact sites_match|]. split; [exact decoders_match|]. split; [exact (proj1 blank_match)|].
  split; [exact (proj1 returns_match)|exact conds_match].
Qed.
Print Assumptions model_matches_read_go.

(* 7. Imported decoders.  with_models D is D with head.Read, hmtx.Decode and
   glyf.Decode replaced by the models of C12 and C11 (imported): they satisfy
   what the theorems above assume of decoders, so every theorem holds of the
   instance in which these three are what those developments prove things
   about (their totality is C12.head_decode_total, C12.hmtx_decode_total,
   C11.glyf_decode_total). *)
Theorem imported_decoders_admissible : forall D : decoders,
  (decoders_total D -> decoders_total (with_models D)) /\
  (decoders_strict D -> decoders_strict (with_models D)).
Proof. intros D. split; [apply with_models_total|apply with_models_strict]. Qed.
Print Assumptions imported_decoders_admissible.

(* 8. The bulk read of the parser (Parser.Read: CFF INDEX payloads, Private
   DICT), a loop of ReadBytes calls of at most bufferSize bytes.  For EVERY
   behaviour of ReadBytes within its contract (k bytes and no error, or no bytes
   and an error - whatever the kind of error), every buffer size and request:
   the error returned is "some ReadBytes call failed" - also when it was the
   last or only one; the count is the sum of the chunks delivered; without
   error the count is the length asked for, with an error it is smaller (the
   length asked for is never reported as read); no call is made after a failed
   one; every call asks for 1..bufferSize bytes. *)
Theorem bulk_read_error_propagates : forall (St : Type) (bs : N) (rb : St -> N -> St * N * bool) (st : St) (want : N),
  0 < bs -> rb_ok rb ->
  let r := M_bulk_read bs rb st want in
  br_fuel r = true /\
  br_err r = existsb snd (br_calls r) /\
  br_total r = delivered (br_calls r) /\
  (br_err r = false -> br_total r = want) /\
  (br_err r = true -> br_total r < want) /\
  (forall pre c post, br_calls r = pre ++ c :: post -> snd c = true -> post = []) /\
  Forall (fun c : N * bool => 0 < fst c /\ fst c <= bs) (br_calls r).
Proof. intros St bs rb st want. exact (bulk_read_spec bs rb st want). Qed.
Print Assumptions bulk_read_error_propagates.

(* C17's model of Parser.Read (m_read, proved there to be a plain byte view
   when the only failure is the end of the input) is this loop over C17's
   ReadBytes *)
Theorem bulk_read_is_c17_read : forall (bs : nat) (data : list N) (fuel : nat) (s : C17.Model.pstate) (k n : nat)
    (b : list N) (failed : bool) (s' : C17.Model.pstate) (total : N) (calls : list (N * bool)),
  C17.Model.m_read bs data fuel s k = (n, b, failed, s', true) ->
  let r := M_bulk_loop (N.of_nat bs) (rb17 bs data) fuel s (N.of_nat k) total calls in
  br_state r = s' /\ br_total r = total + N.of_nat n /\ br_err r = failed /\ br_fuel r = true.
Proof. exact m_read_is_bulk_loop. Qed.
Print Assumptions bulk_read_is_c17_read.

(* the sparse file the correspondence runs the model on is a plain file *)
Theorem sparse_is_plain : forall (pre : list N) (L : N), N.of_nat (length pre) <= L ->
  forall off n, sparse_at pre L off n = plain_at (sparse_file pre L) off n.
Proof. exact sparse_at_plain. Qed.
Print Assumptions sparse_is_plain.
