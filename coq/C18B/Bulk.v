(* C18B/Bulk.v — parser.Parser.Read: the bulk read used for CFF INDEX payloads
   and the Private DICT, a loop of ReadBytes calls of at most bufferSize bytes.

     total := 0
     for len(buf) > 0 {
         k := min(len(buf), bufferSize)
         tmp, err := p.ReadBytes(k)
         k = copy(buf, tmp)
         total += k
         buf = buf[k:]
         if len(buf) > 0 && err != nil { return total, err }
     }
     return total, nil

   ReadBytes is a function of a state (the parser with its source): any
   behaviour, in particular any kind of read error.  Executable definitions
   only; the statements are in Props.v (bulk_read_error_propagates). *)
From Coq Require Import List NArith ZArith Bool Arith.
From Common Require Import Bytes Outcome.
Import ListNotations.
Local Open Scope N_scope.

Section Bulk.
  Context {St : Type}.
  Variable bs : N.                              (* bufferSize *)
  (* ReadBytes(k): the state afterwards, len(tmp), err != nil *)
  Variable rb : St -> N -> St * N * bool.

  Record bulk_result : Type := mk_bulk {
    br_state : St;
    br_total : N;                               (* the count returned *)
    br_err : bool;                              (* err != nil *)
    br_calls : list (N * bool);                 (* ReadBytes calls made: k asked for, err != nil *)
    br_fuel : bool                              (* false: the model's fuel ran out *)
  }.

  Fixpoint M_bulk_loop (fuel : nat) (st : St) (len_buf total : N) (calls : list (N * bool)) : bulk_result :=
    match fuel with
    | O => mk_bulk st total false calls false
    | S f =>
      if len_buf =? 0 then mk_bulk st total false calls true            (* return total, nil *)
      else
        let k := N.min len_buf bs in
        let r := rb st k in
        let st' := fst (fst r) in let l := snd (fst r) in let err := snd r in
        let k' := N.min l len_buf in                                     (* k = copy(buf, tmp) *)
        let calls' := calls ++ [(k, err)] in
        if (0 <? len_buf - k') && err then mk_bulk st' (total + k') true calls' true
        else M_bulk_loop f st' (len_buf - k') (total + k') calls'
    end.

  (* Read(buf) with len(buf) = want *)
  Definition M_bulk_read (st : St) (want : N) : bulk_result :=
    M_bulk_loop (S (N.to_nat want)) st want 0 [].

  (* the loop without "k = copy(buf, tmp)": k keeps the size asked for
     (kept for the refutation example: Examples.bulk_drop_k_refuted) *)
  Fixpoint M_bulk_loop_dropk (fuel : nat) (st : St) (len_buf total : N) (calls : list (N * bool)) : bulk_result :=
    match fuel with
    | O => mk_bulk st total false calls false
    | S f =>
      if len_buf =? 0 then mk_bulk st total false calls true
      else
        let k := N.min len_buf bs in
        let r := rb st k in
        let st' := fst (fst r) in let err := snd r in
        let calls' := calls ++ [(k, err)] in
        if (0 <? len_buf - k) && err then mk_bulk st' (total + k) true calls' true
        else M_bulk_loop_dropk f st' (len_buf - k) (total + k) calls'
    end.
End Bulk.

(* ReadBytes given by a recording: the outcomes of the successive calls
   (true = error); calls beyond the recording succeed *)
Definition rb_recorded : list bool -> N -> list bool * N * bool := fun st k =>
  match st with
  | [] => ([], k, false)
  | false :: r => (r, k, false)
  | true :: r => (r, 0, true)
  end.
