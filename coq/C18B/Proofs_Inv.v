(* C18B/Proofs_Inv.v — what a successful sfnt.Read has seen (and conversely),
   and that sfnt.Read neither panics nor runs out of fuel. *)
From Coq Require Import List NArith ZArith Bool Arith Lia.
From Coq Require Import ZifyBool ZifyNat ZifyN.
From Common Require Import Bytes Outcome.
From Gen Require Import Consts.
From C03 Require Import Model.
From C18 Require Import Proofs_Trunc.
From C18B Require Import Model Spec Proofs_Tight.
Import ListNotations.
Local Open Scope N_scope.

Lemma fbind_fst {A B} (c : fcomp A) (f : A -> fcomp B) rd :
  fst (fbind c f rd) = obind (fst (c rd)) (fun a => fst (f a rd)).
Proof. rewrite fbind_eq. now destruct (fst (c rd)). Qed.

Lemma fbind_ok {A B} (c : fcomp A) (f : A -> fcomp B) rd b :
  fst (fbind c f rd) = Ok b <-> exists a, fst (c rd) = Ok a /\ fst (f a rd) = Ok b.
Proof.
  rewrite fbind_fst. split.
  - intros H. now apply obind_ok in H.
  - intros (a & H1 & H2). now rewrite H1.
Qed.

Lemma okerr_bind {A B} (c : fcomp A) (f : A -> fcomp B) rd :
  okerr (fst (c rd)) -> (forall a, okerr (fst (f a rd))) -> okerr (fst (fbind c f rd)).
Proof.
  intros H1 H2. rewrite fbind_fst. destruct H1 as [->|(a & ->)]; cbn [obind]; [now left|apply H2].
Qed.

Lemma okerr_ok {A} (a : A) : okerr (Ok a).
Proof. right. eauto. Qed.
Lemma okerr_err {A} : okerr (@Err A).
Proof. now left. Qed.

(* ---- the wrappers ---- *)

Section Wrappers.
  Variable D : decoders.
  Variable rd : racc.

  Lemma opt_sdec_ok {V} toc tag (dec : N -> prog V) v :
    fst (opt_sdec toc tag dec rd) = Ok v <-> opt_res (sdec_result rd toc tag dec) v.
  Proof.
    unfold opt_sdec, sdec_result, opt_res. destruct (tbl tag toc) as [[o l]|].
    - rewrite fbind_ok. unfold f_sdec, fret. cbn [fst]. split.
      + intros (a & H1 & H2). inversion H2. eauto.
      + intros (a & H1 & ->). eauto.
    - unfold fret. cbn [fst]. split; [now inversion 1|now intros ->].
  Qed.

  Lemma opt_bytes_ok toc tag v :
    fst (opt_bytes D toc tag rd) = Ok v <-> opt_res (bytes_result D rd toc tag) v.
  Proof.
    unfold opt_bytes, bytes_result, opt_res. destruct (tbl tag toc) as [[o l]|].
    - rewrite fbind_ok. unfold fret. cbn [fst]. split.
      + intros (a & H1 & H2). inversion H2. eauto.
      + intros (a & H1 & ->). eauto.
    - unfold fret. cbn [fst]. split; [now inversion 1|now intros ->].
  Qed.

  Lemma req_bytes_ok toc tag b :
    fst (req_bytes D toc tag rd) = Ok b <-> bytes_result D rd toc tag = Some (Ok b).
  Proof.
    unfold req_bytes, bytes_result. destruct (tbl tag toc) as [[o l]|].
    - split; [now intros ->|now inversion 1].
    - unfold fret. cbn [fst]. split; discriminate.
  Qed.

  Lemma req_sdec_ok {V} toc tag (dec : N -> prog V) v :
    fst (req_sdec toc tag dec rd) = Ok v <-> sdec_result rd toc tag dec = Some (Ok v).
  Proof.
    unfold req_sdec, sdec_result, f_sdec. destruct (tbl tag toc) as [[o l]|].
    - split; [now intros ->|now inversion 1].
    - unfold fret. cbn [fst]. split; discriminate.
  Qed.

  Lemma has_sdec_ok toc tag dec :
    (exists u, fst (has_sdec toc tag dec rd) = Ok u) <->
    (has tag toc = true -> exists u, sdec_result rd toc tag dec = Some (Ok u)).
  Proof.
    unfold has_sdec. destruct (has tag toc).
    - split.
      + intros (u & H) _. exists u. now apply req_sdec_ok.
      + intros H. destruct (H eq_refl) as (u & Hu). exists u. now apply req_sdec_ok.
    - split; [discriminate|]. intros _. exists tt. reflexivity.
  Qed.

  Lemma extra_ok toc : forall tags,
    (exists u, fst (extra_tables D toc tags rd) = Ok u) <->
    (forall t, In t tags -> has t toc = true -> exists b, bytes_result D rd toc t = Some (Ok b)).
  Proof.
    induction tags as [|t r IH]; cbn [extra_tables].
    - split; [intros _ t []|intros _; exists tt; reflexivity].
    - destruct (has t toc) eqn:Eh.
      + split.
        * intros (u & H). apply fbind_ok in H. destruct H as (b & H1 & H2).
          intros t' [<-|Hi] Hh; [exists b; now apply req_bytes_ok|].
          apply IH; eauto.
        * intros H. destruct (H t (or_introl eq_refl) Eh) as (b & Hb).
          assert (Hr : forall t', In t' r -> has t' toc = true -> exists b, bytes_result D rd toc t' = Some (Ok b))
            by (intros t' Hi; apply H; now right).
          apply IH in Hr. destruct Hr as (u & Hu). exists u. apply fbind_ok.
          exists b. split; [now apply req_bytes_ok|exact Hu].
      + rewrite IH. split.
        * intros H t' [<-|Hi] Hh; [congruence|now apply H].
        * intros H t' Hi. apply H. now right.
  Qed.
End Wrappers.

(* ---- glyph counts ---- *)

Lemma fix_counts_rel m w ng nw : fix_counts m w = Ok (ng, nw) -> nw = 0 \/ (nw = ng /\ ng <> 0).
Proof.
  unfold fix_counts. destruct w as [x|]; [|inversion 1; now left].
  destruct (N.ltb_spec 0 x) as [Hx|Hx]; [|inversion 1; now left].
  destruct (N.eqb_spec (match m with Some g => g | None => 0 end) 0) as [E|E].
  - inversion 1; subst. right. lia.
  - destruct (N.ltb_spec (match m with Some g => g | None => 0 end) x).
    + inversion 1; subst. right. lia.
    + destruct (N.eqb_spec x (match m with Some g => g | None => 0 end)); cbn [negb]; [|discriminate].
      inversion 1; subst. right. lia.
Qed.

Lemma counts_check ng v :
  (negb (ng =? 0) && negb (v =? ng)) = false <-> counts_agree ng v.
Proof.
  unfold counts_agree. destruct (N.eqb_spec ng 0), (N.eqb_spec v ng); cbn [negb andb]; split; intros H; auto; try lia; try discriminate.
Qed.

(* ---- outlines ---- *)

Section Outlines.
  Variable D : decoders.
  Variable rd : racc.

  Lemma outlines_inv s toc headv maxpv ng nw v :
    fst (outlines D s toc headv maxpv ng nw rd) = Ok v -> outlines_ok D rd s toc headv maxpv ng v.
  Proof.
    unfold outlines, outlines_ok. destruct (s =? header_scalerCFF).
    - intros H. apply fbind_ok in H. destruct H as (ngl & H1 & H2).
      apply req_sdec_ok in H1.
      destruct (negb (ng =? 0) && negb (ngl =? ng)) eqn:Ec; [discriminate|].
      destruct (ngl <? nw); [discriminate|]. inversion H2; subst.
      split; [exact H1|now apply counts_check].
    - unfold is_tt. destruct ((s =? header_scalerTrueType) || (s =? header_scalerApple)); [|discriminate].
      destruct headv as [lf|]; [|discriminate]. destruct maxpv as [mg|]; [|discriminate].
      intros H. split; [reflexivity|].
      apply fbind_ok in H. destruct H as (loca & H1 & H).
      apply fbind_ok in H. destruct H as (glyf & H2 & H).
      apply fbind_ok in H. destruct H as (ngl & H3 & H).
      apply fbind_ok in H. destruct H as (u & H4 & H).
      destruct (negb (ng =? 0) && negb (ngl =? ng)) eqn:Ec; [discriminate|].
      inversion H; subst. unfold fret in H3. cbn [fst] in H3.
      exists lf, mg, loca, glyf. repeat split; auto.
      + now apply req_bytes_ok.
      + now apply req_bytes_ok.
      + apply (extra_ok D rd toc tt_extra). eauto.
      + now apply counts_check.
  Qed.

  Lemma outlines_intro s toc headv maxpv ng nw v :
    valid_scaler s = true -> (nw = 0 \/ (nw = ng /\ ng <> 0)) ->
    outlines_ok D rd s toc headv maxpv ng v -> fst (outlines D s toc headv maxpv ng nw rd) = Ok v.
  Proof.
    unfold outlines, outlines_ok. intros Hv Hrel. destruct (s =? header_scalerCFF).
    - intros [H1 H2]. apply fbind_ok. exists v. split; [now apply req_sdec_ok|].
      apply counts_check in H2. rewrite H2.
      replace (v <? nw) with false; [reflexivity|].
      symmetry. apply N.ltb_ge. apply counts_check in H2. unfold counts_agree in H2. lia.
    - intros [Ht (lf & mg & loca & glyf & -> & -> & H1 & H2 & H3 & H4 & H5)].
      unfold is_tt in Ht. rewrite Ht.
      apply fbind_ok. exists loca. split; [now apply req_bytes_ok|].
      apply fbind_ok. exists glyf. split; [now apply req_bytes_ok|].
      apply fbind_ok. exists v. split; [exact H3|].
      apply (extra_ok D rd toc tt_extra) in H4. destruct H4 as (u & Hu).
      apply fbind_ok. exists u. split; [exact Hu|].
      apply counts_check in H5. now rewrite H5.
  Qed.
End Outlines.

(* ---- the whole function ---- *)

Lemma read_dir_valid r s toc : M_read_dir_r r = Ok (s, toc) -> valid_scaler s = true.
Proof.
  intros H. destruct (read_dir_inv _ _ _ H) as (h & c0 & cs & x & _ & -> & Hv & _). exact Hv.
Qed.

Section Whole.
  Variable D : decoders.
  Variable rd : racc.

  Lemma ignored_ok {V} (x : outcome V) : fst (ignored x rd) = Ok tt.
  Proof. reflexivity. Qed.

  Theorem read_ok_inv v : fst (M_sfnt_read_at D rd) = Ok v -> read_ok D rd v.
  Proof.
    unfold M_sfnt_read_at. intros H.
    apply fbind_ok in H. destruct H as ([s toc] & Hh & H). unfold f_header in Hh. cbn [fst snd] in Hh, H.
    unfold read_tables in H. destruct (gate toc) eqn:Eg; cbn [negb] in H; [|discriminate].
    apply fbind_ok in H. destruct H as (headv & Hhead & H). apply opt_sdec_ok in Hhead.
    apply fbind_ok in H. destruct H as (hhea & Hhhea & H). apply opt_bytes_ok in Hhhea.
    apply fbind_ok in H. destruct H as (maxpv & Hmaxp & H). apply opt_sdec_ok in Hmaxp.
    apply fbind_ok in H. destruct H as (u1 & Hos2 & H). apply opt_sdec_ok in Hos2.
    apply fbind_ok in H. destruct H as (hmtx & Hhmtx & H). apply opt_bytes_ok in Hhmtx.
    apply fbind_ok in H. destruct H as (nwo & Hdec & H).
    apply fbind_ok in H. destruct H as (cm & Hcm & H). apply opt_bytes_ok in Hcm.
    apply fbind_ok in H. destruct H as (u3 & Hcd & H).
    apply fbind_ok in H. destruct H as (nm & Hnm & H). apply opt_bytes_ok in Hnm.
    apply fbind_ok in H. destruct H as (u4 & Hnd & H).
    apply fbind_ok in H. destruct H as (u2 & Hpost & H). apply opt_sdec_ok in Hpost.
    apply fbind_ok in H. destruct H as ([ng nw] & Hcnt & H). unfold fret in Hcnt. cbn [fst snd] in Hcnt, H.
    apply fbind_ok in H. destruct H as (ngl & Hout & H). apply outlines_inv in Hout.
    apply fbind_ok in H. destruct H as (u5 & _ & H).
    apply fbind_ok in H. destruct H as (u6 & Hgdef & H).
    apply fbind_ok in H. destruct H as (u7 & Hgsub & H).
    apply fbind_ok in H. destruct H as (u8 & Hgpos & H).
    inversion H; subst ngl. clear H.
    eapply (read_ok_intro D rd v s toc headv hhea hmtx cm nm maxpv nwo u1 u2 ng nw); try eassumption.
    - unfold st_hmtx_dec in Hdec. destruct hhea as [h|].
      + apply fbind_ok in Hdec. destruct Hdec as (w & H1 & H2). unfold fret in *. cbn [fst] in *.
        inversion H2. eauto.
      + now inversion Hdec.
    - intros c ->. unfold st_cmap_dec in Hcd. apply fbind_ok in Hcd. destruct Hcd as (u & H1 & _). eauto.
    - intros n ->. unfold st_name_dec, fret in Hnd. cbn [fst] in Hnd. eauto.
    - apply (has_sdec_ok rd toc tag_GDEF (d_gdef D)). eauto.
    - intros Hs. unfold st_gsub in Hgsub. rewrite Hs in Hgsub. exists u7. now apply req_sdec_ok.
    - intros Hs. unfold st_gpos in Hgpos. rewrite Hs in Hgpos. exists u8. now apply req_sdec_ok.
    - intros Hp Hk. unfold st_gpos in Hgpos. rewrite Hp, Hk in Hgpos. exists u8. now apply req_sdec_ok.
  Qed.

  Theorem read_ok_intro_rev v : read_ok D rd v -> fst (M_sfnt_read_at D rd) = Ok v.
  Proof.
    intros [s toc headv hhea hmtx cm nm maxpv nwo u1 u2 ng nw
              Hh Hg Hhead Hhhea Hmaxp Hos2 Hhmtx Hdec Hcm Hcd Hnm Hnd Hpost Hcnt Hout Hgdef Hgsub Hgpos Hkern].
    unfold M_sfnt_read_at. apply fbind_ok. exists (s, toc). split; [exact Hh|]. cbn [fst snd].
    unfold read_tables. rewrite Hg. cbn [negb].
    apply fbind_ok. exists headv. split; [now apply opt_sdec_ok|].
    apply fbind_ok. exists hhea. split; [now apply opt_bytes_ok|].
    apply fbind_ok. exists maxpv. split; [now apply opt_sdec_ok|].
    apply fbind_ok. exists u1. split; [now apply opt_sdec_ok|].
    apply fbind_ok. exists hmtx. split; [now apply opt_bytes_ok|].
    apply fbind_ok. exists nwo. split.
    { unfold st_hmtx_dec. destruct hhea as [h|]; [|now subst].
      destruct Hdec as (w & H1 & ->). apply fbind_ok. exists w. split; [exact H1|reflexivity]. }
    apply fbind_ok. exists cm. split; [now apply opt_bytes_ok|].
    apply fbind_ok. exists tt. split.
    { unfold st_cmap_dec. destruct cm as [c|]; [|reflexivity].
      destruct (Hcd c eq_refl) as (u & Hu). apply fbind_ok. exists u. split; [exact Hu|reflexivity]. }
    apply fbind_ok. exists nm. split; [now apply opt_bytes_ok|].
    apply fbind_ok. exists tt. split.
    { unfold st_name_dec. destruct nm as [n|]; [|reflexivity].
      destruct (Hnd n eq_refl) as ([] & Hu). exact Hu. }
    apply fbind_ok. exists u2. split; [now apply opt_sdec_ok|].
    apply fbind_ok. exists (ng, nw). split; [exact Hcnt|]. cbn [fst snd].
    apply fbind_ok. exists v. split.
    { apply outlines_intro; [eapply read_dir_valid; eassumption|eapply fix_counts_rel; eassumption|exact Hout]. }
    apply fbind_ok. exists tt. split; [unfold st_name_version; now destruct nm|].
    apply (has_sdec_ok rd toc tag_GDEF (d_gdef D)) in Hgdef. destruct Hgdef as (u6 & Hu6).
    apply fbind_ok. exists u6. split; [exact Hu6|].
    apply fbind_ok. exists tt. split.
    { unfold st_gsub. destruct (has tag_GSUB toc).
      - destruct (Hgsub eq_refl) as ([] & Hu). now apply req_sdec_ok.
      - now destruct cm. }
    apply fbind_ok. exists tt. split; [|reflexivity].
    unfold st_gpos. destruct (has tag_GPOS toc).
    - destruct (Hgpos eq_refl) as ([] & Hu). now apply req_sdec_ok.
    - destruct (has tag_kern toc); [|reflexivity].
      destruct (Hkern eq_refl eq_refl) as ([] & Hu). now apply req_sdec_ok.
  Qed.
End Whole.

(* ---- neither Panic nor OutOfFuel ---- *)

Lemma run_sec_okerr {A} (p : prog A) rd base len : total p -> okerr (fst (run_sec rd base len p)).
Proof.
  intros Ht. induction Ht as [a| |o n k Hk IH]; cbn [run_sec fst].
  - apply okerr_ok.
  - apply okerr_err.
  - destruct (len <=? o); [apply IH|]. cbn [fst]. apply IH.
Qed.

Lemma read_all_sec_okerr grow rd base len : forall fuel pos acc,
  (N.to_nat (len - pos) < fuel)%nat -> okerr (fst (read_all_sec fuel grow rd base len pos acc)).
Proof.
  induction fuel as [|f IH]; intros pos acc Hf; [lia|]. cbn [read_all_sec].
  destruct (N.leb_spec len pos); [apply okerr_ok|].
  set (want := N.min (N.max 1 (grow pos)) (len - pos)).
  destruct (rd (base + pos) want); cbn [fst]; [|apply okerr_ok|apply okerr_err].
  apply IH. unfold want. lia.
Qed.

Lemma f_bytes_okerr grow rd base len : okerr (fst (f_bytes grow base len rd)).
Proof. unfold f_bytes. apply read_all_sec_okerr. lia. Qed.

Section Total.
  Variable D : decoders.
  Hypothesis HT : decoders_total D.
  Variable rd : racc.

  Lemma opt_sdec_okerr {V} toc tag (dec : N -> prog V) :
    (forall l, total (dec l)) -> okerr (fst (opt_sdec toc tag dec rd)).
  Proof.
    intros Ht. unfold opt_sdec. destruct (tbl tag toc) as [[o l]|]; [|apply okerr_ok].
    apply okerr_bind; [now apply run_sec_okerr|intros; apply okerr_ok].
  Qed.

  Lemma opt_bytes_okerr toc tag : okerr (fst (opt_bytes D toc tag rd)).
  Proof.
    unfold opt_bytes. destruct (tbl tag toc) as [[o l]|]; [|apply okerr_ok].
    apply okerr_bind; [apply f_bytes_okerr|intros; apply okerr_ok].
  Qed.

  Lemma req_bytes_okerr toc tag : okerr (fst (req_bytes D toc tag rd)).
  Proof. unfold req_bytes. destruct (tbl tag toc) as [[o l]|]; [apply f_bytes_okerr|apply okerr_err]. Qed.

  Lemma req_sdec_okerr {V} toc tag (dec : N -> prog V) :
    (forall l, total (dec l)) -> okerr (fst (req_sdec toc tag dec rd)).
  Proof.
    intros Ht. unfold req_sdec. destruct (tbl tag toc) as [[o l]|]; [now apply run_sec_okerr|apply okerr_err].
  Qed.

  Lemma extra_okerr toc tags : okerr (fst (extra_tables D toc tags rd)).
  Proof.
    induction tags as [|t r IH]; cbn [extra_tables]; [apply okerr_ok|].
    destruct (has t toc); [|exact IH]. apply okerr_bind; [apply req_bytes_okerr|intros; exact IH].
  Qed.

  Lemma outlines_okerr s toc headv maxpv ng nw :
    valid_scaler s = true -> (nw = 0 \/ (nw = ng /\ ng <> 0)) ->
    okerr (fst (outlines D s toc headv maxpv ng nw rd)).
  Proof.
    intros Hv Hrel. unfold outlines. destruct (s =? header_scalerCFF) eqn:Ec.
    - apply okerr_bind; [apply req_sdec_okerr, (dt_cff D HT)|]. intros ngl.
      destruct (negb (ng =? 0) && negb (ngl =? ng)) eqn:Ek; [apply okerr_err|].
      apply counts_check in Ek. unfold counts_agree in Ek.
      destruct (N.ltb_spec ngl nw); [lia|apply okerr_ok].
    - unfold valid_scaler in Hv. rewrite Ec in Hv.
      replace ((s =? header_scalerTrueType) || (s =? header_scalerApple)) with true
        by (destruct (s =? header_scalerTrueType), (s =? header_scalerApple); cbn in *; congruence).
      destruct headv; [|apply okerr_err]. destruct maxpv; [|apply okerr_err].
      apply okerr_bind; [apply req_bytes_okerr|intros loca].
      apply okerr_bind; [apply req_bytes_okerr|intros glyf].
      apply okerr_bind; [apply (dt_glyf D HT)|intros ngl].
      apply okerr_bind; [apply extra_okerr|intros _].
      destruct (negb (ng =? 0) && negb (ngl =? ng)); [apply okerr_err|apply okerr_ok].
  Qed.

  Theorem read_at_okerr : okerr (fst (M_sfnt_read_at D rd)).
  Proof.
    unfold M_sfnt_read_at. rewrite fbind_fst. unfold f_header. cbn [fst].
    destruct (read_dir_total (to_c03 rd)) as [([s toc] & E)|E]; rewrite E; cbn [obind fst snd]; [|apply okerr_err].
    pose proof (read_dir_valid _ _ _ E) as Hv.
    unfold read_tables. destruct (gate toc); cbn [negb]; [|apply okerr_err].
    apply okerr_bind; [apply opt_sdec_okerr, (dt_head D HT)|intros headv].
    apply okerr_bind; [apply opt_bytes_okerr|intros hhea].
    apply okerr_bind; [apply opt_sdec_okerr, (dt_maxp D HT)|intros maxpv].
    apply okerr_bind; [apply opt_sdec_okerr, (dt_os2 D HT)|intros _].
    apply okerr_bind; [apply opt_bytes_okerr|intros hmtx].
    apply okerr_bind.
    { unfold st_hmtx_dec. destruct hhea; [|apply okerr_ok].
      apply okerr_bind; [apply (dt_hmtx D HT)|intros; apply okerr_ok]. }
    intros nwo.
    apply okerr_bind; [apply opt_bytes_okerr|intros cm].
    apply okerr_bind.
    { unfold st_cmap_dec. destruct cm; [|apply okerr_ok].
      apply okerr_bind; [apply (dt_cmap D HT)|intros; apply okerr_ok]. }
    intros _.
    apply okerr_bind; [apply opt_bytes_okerr|intros nm].
    apply okerr_bind; [unfold st_name_dec; destruct nm; [apply (dt_name D HT)|apply okerr_ok]|intros _].
    apply okerr_bind; [apply opt_sdec_okerr, (dt_post D HT)|intros _].
    rewrite fbind_fst. unfold fret at 1. cbn [fst].
    destruct (fix_counts maxpv nwo) as [[ng nw]| | |] eqn:Ecnt; cbn [obind];
      try apply okerr_err;
      try (exfalso; unfold fix_counts in Ecnt;
           repeat match type of Ecnt with context [match ?x with _ => _ end] => destruct x end; discriminate).
    cbn [fst snd].
    apply okerr_bind; [apply outlines_okerr; [exact Hv|eapply fix_counts_rel; exact Ecnt]|intros ngl].
    apply okerr_bind; [unfold st_name_version; destruct nm; apply okerr_ok|intros _].
    apply okerr_bind.
    { unfold has_sdec. destruct (has tag_GDEF toc); [apply req_sdec_okerr, (dt_gdef D HT)|apply okerr_ok]. }
    intros _.
    apply okerr_bind.
    { unfold st_gsub. destruct (has tag_GSUB toc); [apply req_sdec_okerr, (dt_gsub D HT)|destruct cm; apply okerr_ok]. }
    intros _.
    apply okerr_bind; [|intros; apply okerr_ok].
    unfold st_gpos. destruct (has tag_GPOS toc); [apply req_sdec_okerr, (dt_gpos D HT)|].
    destruct (has tag_kern toc); [apply req_sdec_okerr, (dt_kern D HT)|apply okerr_ok].
  Qed.
End Total.
