(* C18B/Tie.v — the shape of read.go that the model mirrors, regenerated from
   the source on every run (coq/Gen/C18B.v, translators/gen/kind_c18b.go) and
   compared here with what Model.v says.  A change of read.go that adds,
   removes, reorders or re-guards a table access, a decoder call, a discarded
   error, a return statement or a condition steering the reading breaks one of
   these lemmas. *)
From Coq Require Import List NArith ZArith Bool String.
From Common Require Import Bytes Outcome.
From Gen Require Import Consts C18B.
From C03 Require Import Model.
From C18B Require Import Model.
Import ListNotations.

(* 1. the table accesses: tag, TableReader / ReadTableBytes, missing table
   tolerated (header.IsMissing) or not, behind dir.Has or not - in order *)
Lemma sites_match : read_go_sites = model_sites.
Proof. vm_compute. reflexivity. Qed.

(* 2. the decoders, in the order in which Read calls them *)
Definition model_decoders : list string :=
  ["head.Read"; "maxp.Read"; "os2.Read"; "hmtx.Decode"; "cmap.Decode"; "name.Decode"; "post.Read";
   "cff.Read"; "glyf.Decode"; "gdef.Read"; "gtab.Read"; "gtab.Read"; "kern.Read"]%string.
Lemma decoders_match : read_go_decoders = model_decoders.
Proof. reflexivity. Qed.

(* 3. the errors Read throws away: the two GetBest calls (d_getbest in the
   model); getNameTableVersion turns a parse error into "not ok" (d_namever) *)
Definition model_blank : list string := ["GetBest"; "GetBest"]%string.
Lemma blank_match : read_go_blank = model_blank /\ read_go_blank_namever = [] /\
                    read_go_conds_namever = ["err != nil"]%string.
Proof. repeat split; reflexivity. Qed.

(* 4. every return statement is "return nil, <something>" or "return <font>, nil";
   the only one of the second kind is the last *)
Lemma returns_match :
  forallb (fun p : bool * bool => xorb (fst p) (snd p)) read_go_returns = true /\
  forallb (fun p : bool * bool => fst p) (removelast read_go_returns) = true /\
  last read_go_returns (true, true) = (false, true).
Proof. repeat split; vm_compute; reflexivity. Qed.

(* 5. the scaler types of the two branches; the default branch panics *)
Lemma scaler_match :
  read_go_scaler = [["ScalerTypeCFF"]; ["ScalerTypeTrueType"; "ScalerTypeApple"]]%string.
Proof. reflexivity. Qed.

(* 6. the conditions that steer the reading, in source order *)
Definition model_conds : list string := [
    "!ok";
    "err != nil";
    "err != nil";
    "!(hasGlyf && dir.Has(""loca"") || dir.Has(""CFF ""))";
    "dir.Has(""CFF2"")";
    "err != nil && !header.IsMissing(err)";
    "headFd != nil";
    "err != nil";
    "err != nil && !header.IsMissing(err)";
    "err != nil && !header.IsMissing(err)";
    "maxpFd != nil";
    "err != nil";
    "err != nil && !header.IsMissing(err)";
    "os2Fd != nil";
    "err != nil";
    "err != nil && !header.IsMissing(err)";
    "hheaData != nil";
    "err != nil";
    "err != nil && !header.IsMissing(err)";
    "cmapData != nil";
    "err != nil";
    "err != nil && !header.IsMissing(err)";
    "nameData != nil";
    "err != nil";
    "err != nil && !header.IsMissing(err)";
    "postFd != nil";
    "err != nil";
    "hmtxInfo != nil && len(hmtxInfo.Widths) > 0";
    "numGlyphs == 0";
    "len(hmtxInfo.Widths) > numGlyphs";
    "len(hmtxInfo.Widths) != numGlyphs";
    "err != nil";
    "err != nil";
    "numGlyphs != 0 && len(cffInfo.Glyphs) != numGlyphs";
    "hmtxInfo != nil && len(hmtxInfo.Widths) > 0";
    "headInfo == nil";
    "maxpInfo == nil";
    "err != nil";
    "err != nil";
    "err != nil";
    "!dir.Has(name)";
    "err != nil";
    "numGlyphs != 0 && len(ttGlyphs) != numGlyphs";
    "hmtxInfo != nil && len(hmtxInfo.Widths) > 0";
    "hmtxInfo != nil";
    "hmtxInfo != nil";
    "dir.Has(""GDEF"")";
    "err != nil";
    "err != nil";
    "dir.Has(""GSUB"")";
    "err != nil";
    "err != nil";
    "dir.Has(""GPOS"")";
    "err != nil";
    "err != nil";
    "dir.Has(""kern"")";
    "err != nil";
    "err != nil"]%string.
Lemma conds_match : read_go_conds = model_conds.
Proof. reflexivity. Qed.
