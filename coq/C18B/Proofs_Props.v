(* C18B/Proofs_Props.v — the statements of Props.v assembled from the lemmas. *)
From Coq Require Import List NArith ZArith Bool Arith Lia.
From Coq Require Import ZifyBool ZifyNat ZifyN.
From Common Require Import Bytes Outcome.
From Gen Require Import Consts.
From C03 Require Import Model Spec Proofs_Write Proofs_Read.
From C03 Require Props.
From C18 Require Import Model Proofs_Trunc.
From C18 Require Props.
From C18B Require Import Model Spec Proofs_Tight Proofs_Inv Proofs_Cover Proofs_Trunc Proofs_Sites.
Import ListNotations.
Local Open Scope N_scope.

(* ---- 1. errors propagate ---- *)

Lemma opt_res_err {V} (r : option (outcome V)) v : opt_res r v -> r <> Some Err.
Proof. unfold opt_res. destruct r as [x|]; [|discriminate]. intros (a & -> & _). discriminate. Qed.

Lemma opt_res_some {V} (r : option (outcome V)) v a : opt_res r v -> r = Some (Ok a) -> v = Some a.
Proof. unfold opt_res. intros H ->. destruct H as (a' & E & ->). now inversion E. Qed.

Lemma tbl_present tag toc : present tag toc = false <-> tbl tag toc = None.
Proof. unfold present. destruct (tbl tag toc); split; congruence. Qed.

Lemma sdec_some_tbl {V} rd toc tag (dec : N -> prog V) x : sdec_result rd toc tag dec = Some x -> tbl tag toc <> None.
Proof. unfold sdec_result. destruct (tbl tag toc) as [[o l]|]; congruence. Qed.
Lemma bytes_some_tbl D rd toc tag x : bytes_result D rd toc tag = Some x -> tbl tag toc <> None.
Proof. unfold bytes_result. destruct (tbl tag toc) as [[o l]|]; congruence. Qed.

(* the conditions under which sfnt.Read must fail *)
Definition must_fail (D : decoders) (rd : racc) (s : N) (toc : list toc_entry) : Prop :=
  (exists t, In t (required_tables s) /\ present t toc = false) \/
  gate toc = false \/
  sdec_result rd toc tag_head (d_head D) = Some Err \/
  sdec_result rd toc tag_maxp (d_maxp D) = Some Err \/
  sdec_result rd toc tag_OS2 (d_os2 D) = Some Err \/
  sdec_result rd toc tag_post (d_post D) = Some Err \/
  bytes_result D rd toc tag_hhea = Some Err \/ bytes_result D rd toc tag_hmtx = Some Err \/
  bytes_result D rd toc tag_cmap = Some Err \/ bytes_result D rd toc tag_name = Some Err \/
  (exists h hm, bytes_result D rd toc tag_hhea = Some (Ok h) /\ opt_res (bytes_result D rd toc tag_hmtx) hm /\
                d_hmtx D h hm = Err) \/
  (exists c, bytes_result D rd toc tag_cmap = Some (Ok c) /\ d_cmap D c = Err) \/
  (exists n, bytes_result D rd toc tag_name = Some (Ok n) /\ d_name D n = Err) \/
  (s = header_scalerCFF /\ sdec_result rd toc tag_CFF (d_cff D) = Some Err) \/
  (s <> header_scalerCFF /\
     (bytes_result D rd toc tag_loca = Some Err \/ bytes_result D rd toc tag_glyf = Some Err \/
      (exists t, In t tt_extra /\ has t toc = true /\ bytes_result D rd toc t = Some Err) \/
      exists lf loca glyf, sdec_result rd toc tag_head (d_head D) = Some (Ok lf) /\
                           bytes_result D rd toc tag_loca = Some (Ok loca) /\
                           bytes_result D rd toc tag_glyf = Some (Ok glyf) /\
                           d_glyf D lf loca glyf = Err)) \/
  (has tag_GDEF toc = true /\ sdec_result rd toc tag_GDEF (d_gdef D) = Some Err) \/
  (has tag_GSUB toc = true /\ sdec_result rd toc tag_GSUB (d_gsub D) = Some Err) \/
  (has tag_GPOS toc = true /\ sdec_result rd toc tag_GPOS (d_gpos D) = Some Err) \/
  (has tag_GPOS toc = false /\ has tag_kern toc = true /\ sdec_result rd toc tag_kern (d_kern D) = Some Err).

Lemma some_ok_inj {V} (a b : V) : Some (Ok a) = Some (Ok b) -> a = b.
Proof. now inversion 1. Qed.

Lemma must_fail_not_ok D rd s toc v :
  M_read_dir_r (to_c03 rd) = Ok (s, toc) -> must_fail D rd s toc -> ~ read_ok D rd v.
Proof.
  intros Hh Hm Hok.
  destruct Hok as [s' toc' headv hhea hmtx cm nm maxpv nwo u1 u2 ng nw
                      Hh' Hg Hhead Hhhea Hmaxp Hos2 Hhmtx Hdec Hcm Hcd Hnm Hnd Hpost Hcnt Hout Hgdef Hgsub Hgpos Hkern].
  rewrite Hh in Hh'. inversion Hh'; subst s' toc'. clear Hh'.
  unfold must_fail in Hm.
  destruct Hm as [(t & Hi & Hp)|[Hm|[Hm|[Hm|[Hm|[Hm|[Hm|[Hm|[Hm|[Hm|[Hm|[Hm|[Hm|[Hm|[Hm|[Hm|[Hm|[Hm|Hm]]]]]]]]]]]]]]]]]].
  - (* a required table is missing *)
    apply tbl_present in Hp. unfold required_tables, outlines_ok in *.
    destruct (s =? header_scalerCFF).
    + destruct Hi as [<-|[]]. destruct Hout as [Hc _]. now apply sdec_some_tbl in Hc.
    + destruct Hout as [_ (lf & mg & loca & glyf & -> & -> & Hl & Hgl & _)].
      destruct Hi as [<-|[<-|[<-|[<-|[]]]]].
      * unfold opt_res, sdec_result in Hhead. rewrite Hp in Hhead. discriminate.
      * unfold opt_res, sdec_result in Hmaxp. rewrite Hp in Hmaxp. discriminate.
      * now apply bytes_some_tbl in Hl.
      * now apply bytes_some_tbl in Hgl.
  - congruence.
  - exact (opt_res_err _ _ Hhead Hm).
  - exact (opt_res_err _ _ Hmaxp Hm).
  - exact (opt_res_err _ _ Hos2 Hm).
  - exact (opt_res_err _ _ Hpost Hm).
  - exact (opt_res_err _ _ Hhhea Hm).
  - exact (opt_res_err _ _ Hhmtx Hm).
  - exact (opt_res_err _ _ Hcm Hm).
  - exact (opt_res_err _ _ Hnm Hm).
  - destruct Hm as (h & hm & H1 & H2 & H3).
    rewrite (opt_res_some _ _ _ Hhhea H1) in Hdec. destruct Hdec as (w & Hw & _).
    assert (hm = hmtx).
    { unfold opt_res in *. destruct (bytes_result D rd toc tag_hmtx) as [x|]; [|congruence].
      destruct H2 as (a & -> & ->). destruct Hhmtx as (a' & E & ->). now inversion E. }
    subst hm. congruence.
  - destruct Hm as (c & H1 & H2). destruct (Hcd c (opt_res_some _ _ _ Hcm H1)) as (u & Hu). congruence.
  - destruct Hm as (n & H1 & H2). destruct (Hnd n (opt_res_some _ _ _ Hnm H1)) as (u & Hu). congruence.
  - destruct Hm as [-> Hm]. unfold outlines_ok in Hout. rewrite N.eqb_refl in Hout. destruct Hout as [Hc _]. congruence.
  - destruct Hm as [Hs Hm]. unfold outlines_ok in Hout. apply N.eqb_neq in Hs. rewrite Hs in Hout.
    destruct Hout as [_ (lf & mg & loca & glyf & -> & -> & Hl & Hgl & Hd & Hx & _)].
    destruct Hm as [Hm|[Hm|[(t & Hi & Hhas & Hm)|(lf' & loca' & glyf' & H1 & H2 & H3 & H4)]]]; try congruence.
    + destruct (Hx t Hi Hhas) as (b & Hb). congruence.
    + rewrite H2 in Hl. rewrite H3 in Hgl. apply some_ok_inj in Hl, Hgl. subst loca' glyf'.
      pose proof (opt_res_some _ _ _ Hhead H1) as E. inversion E; subst lf'. congruence.
  - destruct Hm as [H1 H2]. destruct (Hgdef H1) as (u & Hu). congruence.
  - destruct Hm as [H1 H2]. destruct (Hgsub H1) as (u & Hu). congruence.
  - destruct Hm as [H1 H2]. destruct (Hgpos H1) as (u & Hu). congruence.
  - destruct Hm as (H1 & H2 & H3). destruct (Hkern H1 H2) as (u & Hu). congruence.
Qed.

Lemma errors_propagate D rd : decoders_total D ->
  okerr (fst (M_sfnt_read_at D rd)) /\
  (forall v, fst (M_sfnt_read_at D rd) = Ok v <-> read_ok D rd v) /\
  (forall s toc, M_read_dir_r (to_c03 rd) = Ok (s, toc) -> must_fail D rd s toc ->
                 fst (M_sfnt_read_at D rd) = Err) /\
  (M_read_dir_r (to_c03 rd) = Err -> fst (M_sfnt_read_at D rd) = Err).
Proof.
  intros HT. pose proof (read_at_okerr D HT rd) as Hoe. split; [exact Hoe|]. split; [|split].
  - intros v. split; [apply read_ok_inv|apply read_ok_intro_rev].
  - intros s toc Hh Hm. destruct Hoe as [E|(v & E)]; [exact E|].
    exfalso. apply (must_fail_not_ok D rd s toc v Hh Hm). now apply read_ok_inv.
  - intros He. unfold M_sfnt_read_at. rewrite fbind_fst. unfold f_header. cbn [fst]. now rewrite He.
Qed.

(* ---- 2. faults ---- *)

Lemma faults_surface D rd fails bad : decoders_strict D -> fails_is bad fails ->
  ((exists k, bad k /\ covers (snd (M_sfnt_read_at D rd)) k) -> fst (M_sfnt_read_at D (faulty fails rd)) = Err) /\
  ((forall k, bad k -> ~ covers (snd (M_sfnt_read_at D rd)) k) ->
     M_sfnt_read_at D (faulty fails rd) = M_sfnt_read_at D rd).
Proof.
  intros HS Hf. destruct (tight_sfnt_read_at D HS) as [Hd Hs]. split.
  - intros Hk. apply Hs. now apply (hits_covers bad fails).
  - intros Hn. apply Hd. apply no_hit_agree. intros Hh.
    apply (hits_covers bad fails _ Hf) in Hh. destruct Hh as (k & Hb & Hc). exact (Hn k Hb Hc).
Qed.

(* the tight side needs nothing about the decoders *)
Lemma faults_elsewhere D rd fails bad : fails_is bad fails ->
  (forall k, bad k -> ~ covers (snd (M_sfnt_read_at D rd)) k) ->
  M_sfnt_read_at D (faulty fails rd) = M_sfnt_read_at D rd.
Proof.
  intros Hf Hn. apply determined_sfnt_read_at. apply no_hit_agree. intros Hh.
  apply (hits_covers bad fails _ Hf) in Hh. destruct Hh as (k & Hb & Hc). exact (Hn k Hb Hc).
Qed.

(* ---- 3. truncation ---- *)

Lemma read_at_header_err D rd : M_read_dir_r (to_c03 rd) = Err -> fst (M_sfnt_read_at D rd) = Err.
Proof. intros He. unfold M_sfnt_read_at. rewrite fbind_fst. unfold f_header. cbn [fst]. now rewrite He. Qed.

Lemma truncation_rejected_gen D b s toc k :
  M_read_dir_r (to_c03 (plain_at b)) = Ok (s, toc) -> no_wrap toc -> k < toc_end toc ->
  fst (M_sfnt_read_at D (plain_at (firstn (N.to_nat k) b))) = Err /\
  fst (M_sfnt_read_at D (faulty (fails_ge k) (plain_at b))) = Err /\
  (forall evs, ~ In SFail evs -> stream_data evs = firstn (N.to_nat k) b ->
               fst (M_sfnt_read D (SrcStream evs)) = Err).
Proof.
  intros H Hn Hk.
  assert (H1 : fst (M_sfnt_read_at D (plain_at (firstn (N.to_nat k) b))) = Err)
    by (apply read_at_header_err; eapply truncated_dir_rejected; eassumption).
  split; [exact H1|]. split.
  - apply read_at_header_err.
    apply (read_dir_fault (to_c03 (plain_at b)) _ (fails_ge k)); [intros o n; apply to_c03_faulty|].
    destruct (dir_fp_closed _ _ _ H Hn) as (E & Hne & _). rewrite E.
    exists (toc_end toc - 1), 1. split; [right; apply in_or_app; right; now left|].
    unfold fails_ge. lia.
  - intros evs Hnf Hd. unfold M_sfnt_read.
    destruct (read_all_stream_spec evs []) as [_ H2]. rewrite (H2 Hnf). cbn [app]. now rewrite Hd.
Qed.

(* the reader of C03/C18 (read_at) and bytes.Reader as modelled here give
   header.Read the same answers *)
Lemma dir_fp_positive r : Forall (fun a : N * N => 0 < snd a) (dir_fp r).
Proof.
  assert (He : forall cnt i toc, Forall (fun a : N * N => 0 < snd a) (entries_fp r cnt i toc)).
  { induction cnt as [|c IH]; intros i toc; cbn [entries_fp]; [constructor|].
    constructor; [cbn [snd]; lia|].
    destruct (r (12 + i * 16) 16); [|constructor].
    destruct (negb _); [constructor|]. destruct (existsb _ toc); [constructor|]. apply IH. }
  unfold dir_fp. constructor; [cbn [snd]; lia|].
  destruct (r 0 6); [|constructor]. destruct (negb _); [constructor|].
  destruct (header_maxTables <? _); [constructor|].
  apply Forall_app. split; [apply He|].
  destruct (rd_entries _ _ _ _); try constructor. unfold probe_fp.
  destruct (isort _ _); [constructor|]. destruct (fst p <? 12); [constructor|].
  destruct (overlaps _); [constructor|]. destruct (_ =? 0); constructor; [cbn [snd]; lia|constructor].
Qed.

Lemma plain_is_read_at b : M_read_dir_r (to_c03 (plain_at b)) = M_read_dir b.
Proof.
  unfold M_read_dir. apply read_dir_agree. intros o n Hi.
  pose proof (dir_fp_positive (read_at b)) as Hp. rewrite Forall_forall in Hp. specialize (Hp _ Hi). cbn [snd] in Hp.
  unfold to_c03, plain_at, read_at.
  destruct (N.leb_spec (N.of_nat (length b)) o), (N.leb_spec (o + n) (N.of_nat (length b))); try reflexivity; lia.
Qed.

(* a font file written by header.Write (hypotheses of C18.truncation_rejected) *)
Lemma written_truncation D (s : N) (ts : list table) (out : list N) (k : N) :
  map_ok ts -> M_write s ts = Ok out -> valid_scaler s = true ->
  Forall (fun t : table => forallb printable (fst t) = true) ts ->
  N.of_nat (length (M_filter ts)) <= header_maxTables ->
  file_size (M_filter ts) < 4294967296 ->
  k < data_end out ->
  fst (M_sfnt_read_at D (plain_at (firstn (N.to_nat k) out))) = Err.
Proof.
  intros Hmap Hw Hs Hp Hn Hsz Hk. apply read_at_header_err. rewrite plain_is_read_at.
  exact (proj1 (C18.Props.truncation_rejected s ts out k Hmap Hw Hs Hp Hn Hsz Hk)).
Qed.

(* ---- streams ---- *)

Lemma stream_faults D evs :
  (In SFail evs -> fst (M_sfnt_read D (SrcStream evs)) = Err) /\
  (~ In SFail evs -> M_sfnt_read D (SrcStream evs) = M_sfnt_read_at D (plain_at (stream_data evs))).
Proof.
  unfold M_sfnt_read. destruct (read_all_stream_spec evs []) as [H1 H2]. split.
  - intros Hi. now rewrite (H1 Hi).
  - intros Hn. now rewrite (H2 Hn).
Qed.

(* ---- 4. no partial success ---- *)

Lemma go_results D src :
  (snd (M_sfnt_read_go D src) = true <-> fst (M_sfnt_read_go D src) = None) /\
  (forall v, fst (M_sfnt_read_go D src) = Some v <-> fst (M_sfnt_read D src) = Ok v).
Proof.
  unfold M_sfnt_read_go. destruct (fst (M_sfnt_read D src)); cbn [fst snd]; split; try split; try congruence; try discriminate.
  all: intros v; split; congruence.
Qed.
