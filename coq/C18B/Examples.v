(* C18B/Examples.v — the hypotheses of every theorem of Props.v are met by
   concrete, non-trivial values; witnesses of the refuted variants. *)
From Coq Require Import List NArith ZArith Bool Arith Lia.
From Common Require Import Bytes Outcome.
From Gen Require Import Consts.
From C03 Require Import Model.
From C18B Require Import Model Spec Proofs_Tight Proofs_Inv Proofs_Cover Proofs_Trunc Proofs_Sites Proofs_Props Props.
From C18B Require Import Bulk Proofs_Bulk.
Import ListNotations.
Local Open Scope N_scope.

Ltac splits := repeat match goal with |- _ /\ _ => split end.

(* decoders given by a recording are strict; total when the verdict is a value or an error *)
Lemma replay_strict {V} (accs : list (N * N)) (v : outcome V) : strict (replay accs v).
Proof.
  induction accs as [|[o n] r IH]; cbn [replay]; [constructor|].
  constructor; [reflexivity|]. intros x. destruct x; try exact IH. constructor.
Qed.
Lemma replay_total {V} (accs : list (N * N)) (v : outcome V) : okerr v -> total (replay accs v).
Proof.
  intros Hv. induction accs as [|[o n] r IH]; cbn [replay].
  - destruct Hv as [->|(a & ->)]; constructor.
  - constructor. intros x. destruct x; try exact IH. constructor.
Qed.

(* a CFF-outline file with three tables, written by C03's model of header.Write:
   "CFF " (5 bytes), maxp (6 bytes), DSIG (3 bytes, a table read.go has no name for) *)
Definition ex_tables : list table :=
  [ ([67; 70; 70; 32], Some [1; 0; 4; 1; 9]);
    ([109; 97; 120; 112], Some [0; 0; 80; 0; 0; 3]);
    ([68; 83; 73; 71], Some [7; 7; 7]) ].
Definition ex_file : list N :=
  match M_write header_scalerCFF ex_tables with Ok b => b | _ => [] end.

Example ex_file_length : length ex_file = 80%nat.
Proof. vm_compute. reflexivity. Qed.

(* decoders: cff.Read reads bytes 0..3 and the last byte and finds 3 glyphs,
   maxp.Read reads 6 bytes and says 3 glyphs; all others fail when called *)
Definition ex_D : decoders :=
  mk_decoders (fun _ => Ret Err) (fun _ => replay [(0, 6)] (Ok 3)) (fun _ => Ret Err) (fun _ => Ret Err)
              (fun _ => replay [(0, 4); (4, 1)] (Ok 3)) (fun _ => Ret Err) (fun _ => Ret Err) (fun _ => Ret Err)
              (fun _ => Ret Err) (fun _ _ => Err) (fun _ => Err) (fun _ => Err) (fun _ _ _ => Err)
              (fun _ => Err) (fun _ => Err) (fun _ => 512).

Lemma ex_D_strict : decoders_strict ex_D.
Proof. constructor; intros l; first [apply replay_strict|apply strict_ret]. Qed.
Lemma ex_D_total : decoders_total ex_D.
Proof.
  constructor; intros; first [apply replay_total; right; eexists; reflexivity|apply total_err|now left].
Qed.

(* the fault-free read: accepted, 3 glyphs; the accesses: 6 bytes, three
   directory entries, the last byte of the table data, maxp, "CFF " *)
Example ex_read :
  M_sfnt_read_at ex_D (plain_at ex_file) =
  (Ok 3, [(0, 6); (12, 16); (28, 16); (44, 16); (76, 1); (60, 6); (72, 4); (76, 1)]).
Proof. vm_compute. reflexivity. Qed.

Definition ex_toc : list toc_entry :=
  match M_read_dir_r (to_c03 (plain_at ex_file)) with Ok st => snd st | _ => [] end.
Example ex_dir : M_read_dir_r (to_c03 (plain_at ex_file)) = Ok (header_scalerCFF, ex_toc).
Proof. vm_compute. reflexivity. Qed.
Example ex_no_wrap : no_wrap ex_toc.
Proof.
  assert (E : ex_toc = [(1128678944, 72, 5); (1146308935, 68, 3); (1835104368, 60, 6)]) by (vm_compute; reflexivity).
  rewrite E. unfold no_wrap. repeat constructor.
Qed.
Example ex_toc_end : toc_end ex_toc = 77.
Proof. vm_compute. reflexivity. Qed.

(* read_error_propagates: its conclusion read_ok holds of the example ... *)
Example ex_read_ok : read_ok ex_D (plain_at ex_file) 3.
Proof. apply (read_error_propagates ex_D (plain_at ex_file) ex_D_total). vm_compute. reflexivity. Qed.

(* ... and must_fail of the same file without its "CFF " table (a required
   table is missing) and of the file whose cff.Read fails *)
Definition ex_file_nocff : list N :=
  match M_write header_scalerCFF (tl ex_tables ++ [([103; 108; 121; 102], Some [1]); ([108; 111; 99; 97], Some [0; 0])])
  with Ok b => b | _ => [] end.
Example ex_missing_required :
  fst (M_sfnt_read_at ex_D (plain_at ex_file_nocff)) = Err /\
  exists s toc, M_read_dir_r (to_c03 (plain_at ex_file_nocff)) = Ok (s, toc) /\ gate toc = true /\
                exists t, In t (required_tables s) /\ present t toc = false.
Proof.
  split; [vm_compute; reflexivity|].
  eexists. eexists. split; [vm_compute; reflexivity|]. split; [vm_compute; reflexivity|].
  exists tag_CFF. split; vm_compute; auto.
Qed.

Definition ex_D_badcff : decoders :=
  mk_decoders (d_head ex_D) (d_maxp ex_D) (d_os2 ex_D) (d_post ex_D) (fun _ => replay [(0, 4)] Err)
              (d_gdef ex_D) (d_gsub ex_D) (d_gpos ex_D) (d_kern ex_D) (d_hmtx ex_D) (d_cmap ex_D) (d_name ex_D)
              (d_glyf ex_D) (d_getbest ex_D) (d_namever ex_D) (d_grow ex_D).
Example ex_decoder_error :
  fst (M_sfnt_read_at ex_D_badcff (plain_at ex_file)) = Err /\
  sdec_result (plain_at ex_file) ex_toc tag_CFF (d_cff ex_D_badcff) = Some Err.
Proof. splits; vm_compute; reflexivity. Qed.

(* a decoder that panics makes Read panic: decoders_total is needed for "never Panic" *)
Definition ex_D_panic : decoders :=
  mk_decoders (d_head ex_D) (fun _ => Ret Panic) (d_os2 ex_D) (d_post ex_D) (d_cff ex_D)
              (d_gdef ex_D) (d_gsub ex_D) (d_gpos ex_D) (d_kern ex_D) (d_hmtx ex_D) (d_cmap ex_D) (d_name ex_D)
              (d_glyf ex_D) (d_getbest ex_D) (d_namever ex_D) (d_grow ex_D).
Example ex_total_needed : fst (M_sfnt_read_at ex_D_panic (plain_at ex_file)) = Panic.
Proof. vm_compute. reflexivity. Qed.

(* read_fault_surfaces: a bad byte at offset 74 (inside "CFF ", read by the decoder) is an
   error; at offset 7 or 11 (offset table: searchRange, rangeShift), 66 (padding behind
   maxp), 68 or 70 (DSIG), 77 (final padding) or behind the file it changes nothing *)
Example ex_fault_inside :
  (exists k, (fun j => j = 74) k /\ covers (snd (M_sfnt_read_at ex_D (plain_at ex_file))) k) /\
  fst (M_sfnt_read_at ex_D (faulty (fails_at 74) (plain_at ex_file))) = Err.
Proof.
  split; [|vm_compute; reflexivity]. exists 74. split; [reflexivity|].
  apply touches_covers. vm_compute. reflexivity.
Qed.
Example ex_fault_outside :
  forallb (fun k => negb (touches (snd (M_sfnt_read_at ex_D (plain_at ex_file))) k)) [7; 11; 66; 67; 68; 70; 77; 200] = true /\
  map (fun k => fst (M_sfnt_read_at ex_D (faulty (fails_at k) (plain_at ex_file)))) [7; 11; 66; 67; 68; 70; 77; 200]
  = repeat (Ok 3) 8.
Proof. splits; vm_compute; reflexivity. Qed.
Example ex_fault_every_consulted_byte :
  forallb (fun k => implb (touches (snd (M_sfnt_read_at ex_D (plain_at ex_file))) k)
                          (negb (is_ok (fst (M_sfnt_read_at ex_D (faulty (fails_at k) (plain_at ex_file)))))))
          (map N.of_nat (seq 0 90)) = true.
Proof. vm_compute. reflexivity. Qed.

(* a decoder that is not strict swallows the fault: decoders_strict is needed *)
Definition ex_D_lenient : decoders :=
  mk_decoders (d_head ex_D) (d_maxp ex_D) (d_os2 ex_D) (d_post ex_D) (fun _ => Rd 0 4 (fun _ => Ret (Ok 3)))
              (d_gdef ex_D) (d_gsub ex_D) (d_gpos ex_D) (d_kern ex_D) (d_hmtx ex_D) (d_cmap ex_D) (d_name ex_D)
              (d_glyf ex_D) (d_getbest ex_D) (d_namever ex_D) (d_grow ex_D).
Example ex_strict_needed :
  fst (M_sfnt_read_at ex_D_lenient (faulty (fails_at 74) (plain_at ex_file))) = Ok 3 /\
  touches (snd (M_sfnt_read_at ex_D_lenient (plain_at ex_file))) 74 = true.
Proof. splits; vm_compute; reflexivity. Qed.

(* consulted_closed_form on the example *)
Example ex_consulted :
  consulted ex_D (plain_at ex_file) header_scalerCFF ex_toc
  = [(0, 6); (12, 16); (28, 16); (44, 16); (76, 1); (60, 6); (72, 4); (76, 1)].
Proof. vm_compute. reflexivity. Qed.

(* truncation: every cut below the end of the table data (77) is rejected, by
   ReaderAt and by streaming reader; the cut at 77 (the final padding lost) is accepted *)
Example ex_truncation :
  forallb (fun k => negb (is_ok (fst (M_sfnt_read_at ex_D (plain_at (firstn k ex_file)))))) (seq 0 77) = true /\
  M_sfnt_read_at ex_D (plain_at (firstn 77 ex_file)) = M_sfnt_read_at ex_D (plain_at ex_file) /\
  fst (M_sfnt_read ex_D (SrcStream [SChunk (firstn 50 ex_file); SChunk (firstn 20 (skipn 50 ex_file))])) = Err /\
  fst (M_sfnt_read ex_D (SrcStream [SChunk (firstn 50 ex_file); SChunk (skipn 50 ex_file)])) = Ok 3 /\
  fst (M_sfnt_read ex_D (SrcStream [SChunk ex_file; SFail])) = Err.
Proof. splits; vm_compute; reflexivity. Qed.

(* T10 / why no_wrap is a hypothesis: a 44-byte file - a directory and nothing
   else - whose second entry wraps around 2^32 passes header.Read although the
   data of its first table (offset 44, 8 bytes) is missing; ReadTableBytes on
   that table returns no bytes and no error *)
Definition ex_wrap_file : list N :=
  be32 header_scalerTrueType ++ be16 2 ++ be16 32 ++ be16 1 ++ be16 0 ++
  [112; 114; 101; 112] ++ be32 0 ++ be32 44 ++ be32 8 ++
  [122; 122; 122; 122] ++ be32 0 ++ be32 4294967040 ++ be32 266.
Example wrap_defeats_probe :
  (exists toc, M_read_dir_r (to_c03 (plain_at ex_wrap_file)) = Ok (header_scalerTrueType, toc) /\
               ~ no_wrap toc /\ N.of_nat (length ex_wrap_file) < toc_end toc) /\
  f_bytes (fun _ => 512) 44 8 (plain_at ex_wrap_file) = (Ok [], [(44, 8)]).
Proof.
  split; [|vm_compute; reflexivity].
  eexists. split; [vm_compute; reflexivity|]. split.
  - unfold no_wrap. intros H. inversion H as [|? ? _ H2]; subst. inversion H2 as [|? ? H3 _]; subst.
    vm_compute in H3. discriminate.
  - vm_compute. reflexivity.
Qed.

(* no_partial_success, stream_fault_surfaces *)
Example ex_go_results :
  M_sfnt_read_go ex_D (SrcAt (plain_at ex_file)) = (Some 3, false) /\
  M_sfnt_read_go ex_D (SrcAt (faulty (fails_ge 74) (plain_at ex_file))) = (None, true) /\
  M_sfnt_read_go ex_D (SrcStream [SChunk ex_file; SFail]) = (None, true).
Proof. splits; vm_compute; reflexivity. Qed.

(* tolerated sites on a TrueType-outline directory: hmtx without hhea, kern behind GPOS *)
Definition ex_tt_tables : list table :=
  [ ([104; 101; 97; 100], Some [0; 1]); ([109; 97; 120; 112], Some [0; 0; 80; 0; 0; 1]);
    ([108; 111; 99; 97], Some [0; 0; 0; 1]); ([103; 108; 121; 102], Some [9; 9]);
    ([104; 109; 116; 120], Some [5; 5; 5]); ([107; 101; 114; 110], Some [8]);
    ([71; 80; 79; 83], Some [1; 2; 3; 4]) ].
Definition ex_tt_file : list N :=
  match M_write header_scalerTrueType ex_tt_tables with Ok b => b | _ => [] end.
Definition ex_tt_D : decoders :=
  mk_decoders (fun _ => replay [(0, 2)] (Ok 0%Z)) (fun _ => replay [(0, 6)] (Ok 1)) (fun _ => Ret Err) (fun _ => Ret Err)
              (fun _ => Ret Err) (fun _ => Ret Err) (fun _ => Ret Err) (fun _ => replay [(0, 4)] (Ok tt))
              (fun _ => Ret Err) (fun _ _ => Err) (fun _ => Err) (fun _ => Err) (fun _ _ _ => Ok 1)
              (fun _ => Err) (fun _ => Err) (fun _ => 2).
Example ex_tolerated :
  fst (M_sfnt_read_at ex_tt_D (plain_at ex_tt_file)) = Ok 1 /\
  (exists s toc, M_read_dir_r (to_c03 (plain_at ex_tt_file)) = Ok (s, toc) /\
                 tbl tag_hhea toc = None /\ tbl tag_hmtx toc <> None /\
                 has tag_GPOS toc = true /\ has tag_kern toc = true) /\
  (* the hmtx bytes are read (a fault there is an error) although never decoded *)
  touches (snd (M_sfnt_read_at ex_tt_D (plain_at ex_tt_file))) 137 = true /\
  (* the kern table is never touched *)
  touches (snd (M_sfnt_read_at ex_tt_D (plain_at ex_tt_file))) 148 = false.
Proof.
  split; [vm_compute; reflexivity|]. split; [|splits; vm_compute; reflexivity].
  eexists. eexists. split; [vm_compute; reflexivity|]. splits; vm_compute; congruence.
Qed.

(* sparse files: the directory of the example and its length describe a file
   on which the model answers as on the example (these decoders ignore contents) *)
Example ex_sparse :
  M_sfnt_read_at ex_D (sparse_at (firstn 60 ex_file) 80) = M_sfnt_read_at ex_D (plain_at ex_file).
Proof. vm_compute. reflexivity. Qed.

(* bulk_read_error_propagates: a request of 2500 bytes with 1024-byte chunks whose last
   ReadBytes call fails: error, 2048 bytes reported, three calls, none after the failure;
   the recorded ReadBytes obeys the contract *)
Example ex_bulk :
  rb_ok rb_recorded /\
  (let r := M_bulk_read 1024 rb_recorded [false; false; true] 2500 in
   (br_total r, br_err r, br_calls r)) = (2048, true, [(1024, false); (1024, false); (452, true)]) /\
  (let r := M_bulk_read 1024 rb_recorded [true] 10 in (br_total r, br_err r)) = (0, true) /\
  (let r := M_bulk_read 1024 rb_recorded [] 2500 in (br_total r, br_err r)) = (2500, false).
Proof. split; [apply rb_recorded_ok|]. splits; vm_compute; reflexivity. Qed.

(* the loop without "k = copy(buf, tmp)" (seed C18-h): when the failing call is the last
   or only one the error is lost and the full length is reported; an earlier failure is
   still reported - but with the bytes of the failed chunk counted *)
Example bulk_drop_k_refuted :
  (let r := M_bulk_loop_dropk 1024 rb_recorded 4000 [false; false; true] 2500 0 [] in
   (br_total r, br_err r)) = (2500, false) /\
  (let r := M_bulk_loop_dropk 1024 rb_recorded 4000 [true] 10 0 [] in (br_total r, br_err r)) = (10, false) /\
  (let r := M_bulk_loop_dropk 1024 rb_recorded 4000 [false; true; false] 2500 0 [] in
   (br_total r, br_err r)) = (2048, true).
Proof. splits; vm_compute; reflexivity. Qed.
