(* C18B/Proofs_Sites.v — the footprint of a successful sfnt.Read in closed
   form (site by site, in the order of read.go), and what read.go tolerates. *)
From Coq Require Import List NArith ZArith Bool Arith Lia.
From Coq Require Import ZifyBool ZifyNat ZifyN.
From Common Require Import Bytes Outcome.
From Gen Require Import Consts.
From C03 Require Import Model.
From C18B Require Import Model Spec Proofs_Tight Proofs_Inv Proofs_Cover Proofs_Trunc.
Import ListNotations.
Local Open Scope N_scope.

Lemma fbind_snd_ok {A B} (c : fcomp A) (f : A -> fcomp B) rd a :
  fst (c rd) = Ok a -> snd (fbind c f rd) = snd (c rd) ++ snd (f a rd).
Proof. intros H. rewrite fbind_eq, H. reflexivity. Qed.

Section Fp.
  Variable D : decoders.
  Variable rd : racc.

  Lemma opt_sdec_snd {V} toc tag (dec : N -> prog V) :
    snd (opt_sdec toc tag dec rd) = sdec_fp rd toc tag dec.
  Proof.
    unfold opt_sdec, sdec_fp. destruct (tbl tag toc) as [[o l]|]; [|reflexivity].
    rewrite fbind_eq. unfold f_sdec. destruct (fst (run_sec rd o l (dec l))); unfold fret; cbn [fst snd]; rewrite ?app_nil_r; reflexivity.
  Qed.

  Lemma opt_bytes_snd toc tag : snd (opt_bytes D toc tag rd) = bytes_fp D rd toc tag.
  Proof.
    unfold opt_bytes, bytes_fp. destruct (tbl tag toc) as [[o l]|]; [|reflexivity].
    rewrite fbind_eq. destruct (fst (f_bytes (d_grow D) o l rd)); unfold fret; cbn [fst snd]; rewrite ?app_nil_r; reflexivity.
  Qed.

  Lemma req_bytes_snd toc tag : snd (req_bytes D toc tag rd) = bytes_fp D rd toc tag.
  Proof. unfold req_bytes, bytes_fp. now destruct (tbl tag toc) as [[o l]|]. Qed.

  Lemma req_sdec_snd {V} toc tag (dec : N -> prog V) : snd (req_sdec toc tag dec rd) = sdec_fp rd toc tag dec.
  Proof. unfold req_sdec, sdec_fp, f_sdec. now destruct (tbl tag toc) as [[o l]|]. Qed.

  Lemma extra_snd toc : forall tags u, fst (extra_tables D toc tags rd) = Ok u ->
    snd (extra_tables D toc tags rd) = concat (map (fun t => guarded t toc (bytes_fp D rd toc t)) tags).
  Proof.
    induction tags as [|t r IH]; intros u H; cbn [extra_tables map concat] in *; [reflexivity|].
    unfold guarded at 1. destruct (has t toc).
    - apply fbind_ok in H. destruct H as (b & H1 & H2).
      rewrite (fbind_snd_ok _ _ _ _ H1), req_bytes_snd. f_equal. eapply IH; eassumption.
    - cbn [app]. eapply IH; eassumption.
  Qed.

  Theorem footprint_closed_form v s toc :
    M_read_dir_r (to_c03 rd) = Ok (s, toc) -> fst (M_sfnt_read_at D rd) = Ok v ->
    snd (M_sfnt_read_at D rd) = consulted D rd s toc.
  Proof.
    intros Hh H. unfold M_sfnt_read_at in *.
    assert (Hh' : fst (f_header rd) = Ok (s, toc)) by exact Hh.
    rewrite (fbind_snd_ok _ _ _ _ Hh'). apply fbind_ok in H. destruct H as (st & Hst & H).
    rewrite Hh' in Hst. inversion Hst; subst st. clear Hst. cbn [fst snd] in H |- *.
    unfold consulted. f_equal.
    unfold read_tables in *. destruct (gate toc); cbn [negb] in *; [|discriminate].
    apply fbind_ok in H. destruct H as (headv & E & H). rewrite (fbind_snd_ok _ _ _ _ E), opt_sdec_snd. f_equal.
    apply fbind_ok in H. destruct H as (hhea & E1 & H). rewrite (fbind_snd_ok _ _ _ _ E1), opt_bytes_snd. f_equal.
    apply fbind_ok in H. destruct H as (maxpv & E2 & H). rewrite (fbind_snd_ok _ _ _ _ E2), opt_sdec_snd. f_equal.
    apply fbind_ok in H. destruct H as (u1 & E3 & H). rewrite (fbind_snd_ok _ _ _ _ E3), opt_sdec_snd. f_equal.
    apply fbind_ok in H. destruct H as (hmtx & E4 & H). rewrite (fbind_snd_ok _ _ _ _ E4), opt_bytes_snd. f_equal.
    apply fbind_ok in H. destruct H as (nwo & E5 & H). rewrite (fbind_snd_ok _ _ _ _ E5).
    replace (snd (st_hmtx_dec D hhea hmtx rd)) with (@nil (N * N)).
    2:{ unfold st_hmtx_dec in *. destruct hhea; [|reflexivity].
        apply fbind_ok in E5. destruct E5 as (w & Ew & _). now rewrite (fbind_snd_ok _ _ _ _ Ew). }
    cbn [app].
    apply fbind_ok in H. destruct H as (cm & E6 & H). rewrite (fbind_snd_ok _ _ _ _ E6), opt_bytes_snd. f_equal.
    apply fbind_ok in H. destruct H as (u2 & E7 & H). rewrite (fbind_snd_ok _ _ _ _ E7).
    replace (snd (st_cmap_dec D cm rd)) with (@nil (N * N)).
    2:{ unfold st_cmap_dec in *. destruct cm; [|reflexivity].
        apply fbind_ok in E7. destruct E7 as (w & Ew & _). now rewrite (fbind_snd_ok _ _ _ _ Ew). }
    cbn [app].
    apply fbind_ok in H. destruct H as (nm & E8 & H). rewrite (fbind_snd_ok _ _ _ _ E8), opt_bytes_snd. f_equal.
    apply fbind_ok in H. destruct H as (u3 & E9 & H). rewrite (fbind_snd_ok _ _ _ _ E9).
    replace (snd (st_name_dec D nm rd)) with (@nil (N * N)) by (unfold st_name_dec; now destruct nm).
    cbn [app].
    apply fbind_ok in H. destruct H as (u4 & E10 & H). rewrite (fbind_snd_ok _ _ _ _ E10), opt_sdec_snd. f_equal.
    apply fbind_ok in H. destruct H as (cnt & E11 & H). rewrite (fbind_snd_ok _ _ _ _ E11).
    cbn [fret snd app].
    apply fbind_ok in H. destruct H as (ngl & E12 & H). rewrite (fbind_snd_ok _ _ _ _ E12). f_equal.
    { (* outlines *)
      unfold outlines in *. destruct (s =? header_scalerCFF).
      - apply fbind_ok in E12. destruct E12 as (g & Eg & E12). rewrite (fbind_snd_ok _ _ _ _ Eg), req_sdec_snd.
        destruct (negb (fst cnt =? 0) && negb (g =? fst cnt)); [discriminate|].
        destruct (g <? snd cnt); [discriminate|]. cbn [fret snd]. apply app_nil_r.
      - destruct ((s =? header_scalerTrueType) || (s =? header_scalerApple)); [|discriminate].
        destruct headv; [|discriminate]. destruct maxpv; [|discriminate].
        apply fbind_ok in E12. destruct E12 as (loca & El & E12). rewrite (fbind_snd_ok _ _ _ _ El), req_bytes_snd. f_equal.
        apply fbind_ok in E12. destruct E12 as (glyf & Eg & E12). rewrite (fbind_snd_ok _ _ _ _ Eg), req_bytes_snd. f_equal.
        apply fbind_ok in E12. destruct E12 as (g & Ed & E12). rewrite (fbind_snd_ok _ _ _ _ Ed). cbn [fret snd app].
        apply fbind_ok in E12. destruct E12 as (u & Ex & E12). rewrite (fbind_snd_ok _ _ _ _ Ex).
        rewrite (extra_snd _ _ _ Ex).
        destruct (negb (fst cnt =? 0) && negb (g =? fst cnt)); cbn [fret snd]; apply app_nil_r. }
    apply fbind_ok in H. destruct H as (u5 & E13 & H). rewrite (fbind_snd_ok _ _ _ _ E13).
    replace (snd (st_name_version D nm rd)) with (@nil (N * N)) by (unfold st_name_version; now destruct nm).
    cbn [app].
    apply fbind_ok in H. destruct H as (u6 & E14 & H). rewrite (fbind_snd_ok _ _ _ _ E14). f_equal.
    { unfold has_sdec, guarded. destruct (has tag_GDEF toc); [apply req_sdec_snd|reflexivity]. }
    apply fbind_ok in H. destruct H as (u7 & E15 & H). rewrite (fbind_snd_ok _ _ _ _ E15). f_equal.
    { unfold st_gsub, guarded. destruct (has tag_GSUB toc); [apply req_sdec_snd|now destruct cm]. }
    apply fbind_ok in H. destruct H as (u8 & E16 & H). rewrite (fbind_snd_ok _ _ _ _ E16).
    cbn [fret snd]. rewrite app_nil_r.
    unfold st_gpos, guarded. destruct (has tag_GPOS toc); [apply req_sdec_snd|].
    destruct (has tag_kern toc); [apply req_sdec_snd|reflexivity].
  Qed.
End Fp.

(* ReadTableBytes on a plain file reads the table from its first byte to its last *)
Lemma bytes_fp_exact D b toc tag o l : tbl tag toc = Some (o, l) -> o + l <= N.of_nat (length b) ->
  forall k, covers (bytes_fp D (plain_at b) toc tag) k <-> o <= k /\ k < o + l.
Proof.
  intros Ht Hin k. unfold bytes_fp. rewrite Ht. apply (f_bytes_plain (d_grow D) b o l Hin).
Qed.

(* a section decoder stays inside its table *)
Lemma sdec_fp_inside {V} rd toc tag (dec : N -> prog V) o l : tbl tag toc = Some (o, l) ->
  Forall (inside o l) (sdec_fp rd toc tag dec).
Proof. intros Ht. unfold sdec_fp. rewrite Ht. apply run_sec_inside. Qed.

(* the tables of an accepted plain file lie inside the file *)
Lemma tables_inside_file b s toc tag o l :
  M_read_dir_r (to_c03 (plain_at b)) = Ok (s, toc) -> no_wrap toc -> tbl tag toc = Some (o, l) ->
  o + l <= N.of_nat (length b).
Proof.
  intros H Hn Ht. apply toc_end_ge in Ht.
  destruct (dir_fp_closed _ _ _ H Hn) as (_ & Hne & x & Hx).
  unfold to_c03, plain_at in Hx.
  destruct (N.leb_spec (N.of_nat (length b)) (toc_end toc - 1)); [discriminate|]. lia.
Qed.

(* every byte of a fully read table is consulted *)
Theorem fully_read_consulted D b s toc v tag o l k :
  M_read_dir_r (to_c03 (plain_at b)) = Ok (s, toc) -> no_wrap toc ->
  fst (M_sfnt_read_at D (plain_at b)) = Ok v ->
  In tag (fully_read s toc) -> tbl tag toc = Some (o, l) -> o <= k -> k < o + l ->
  covers (snd (M_sfnt_read_at D (plain_at b))) k.
Proof.
  intros Hh Hn Hok Hin Ht H1 H2.
  rewrite (footprint_closed_form D _ v s toc Hh Hok).
  assert (Hc : covers (bytes_fp D (plain_at b) toc tag) k).
  { apply (bytes_fp_exact D b toc tag o l Ht); [eapply tables_inside_file; eassumption|lia]. }
  unfold consulted, fully_read in *. cbn [app In] in Hin.
  repeat rewrite covers_app.
  destruct Hin as [<-|[<-|[<-|[<-|Hin]]]]; try tauto.
  destruct (s =? header_scalerCFF); [destruct Hin|]. cbn [app In] in Hin.
  destruct Hin as [<-|[<-|Hin]]; repeat rewrite covers_app; try tauto.
  apply filter_In in Hin. destruct Hin as [Hi Hhas].
  do 9 right. left. do 2 right.
  unfold tt_extra in *. cbn [map concat]. repeat rewrite covers_app. unfold guarded.
  cbn [In] in Hi. destruct Hi as [<-|[<-|[<-|[<-|[]]]]]; rewrite Hhas; tauto.
Qed.

(* ---- what read.go tolerates ---- *)

(* the two GetBest errors and the version string that does not parse *)
Theorem discarded_errors_ignored D g n rd :
  M_sfnt_read_at (with_discarded D g n) rd = M_sfnt_read_at D rd.
Proof. destruct D. reflexivity. Qed.

(* an hmtx table without an hhea table is read but never decoded *)
Theorem hmtx_without_hhea_ignored D h rd s toc :
  M_read_dir_r (to_c03 rd) = Ok (s, toc) -> tbl tag_hhea toc = None ->
  M_sfnt_read_at (with_hmtx D h) rd = M_sfnt_read_at D rd.
Proof.
  intros Hh Ht. unfold M_sfnt_read_at. rewrite !fbind_eq. unfold f_header. cbn [fst snd]. rewrite Hh. cbn [fst snd].
  assert (E : read_tables (with_hmtx D h) s toc rd = read_tables D s toc rd).
  { destruct D. unfold read_tables, with_hmtx, opt_bytes, st_hmtx_dec, outlines, st_cmap_dec, st_name_dec,
      st_name_version, st_gsub, st_gpos, has_sdec, req_sdec, req_bytes. simpl.
    rewrite Ht. reflexivity. }
  now rewrite E.
Qed.

(* a kern table behind a GPOS table is never looked at *)
Theorem kern_behind_gpos_ignored D kd rd s toc :
  M_read_dir_r (to_c03 rd) = Ok (s, toc) -> has tag_GPOS toc = true ->
  M_sfnt_read_at (with_kern D kd) rd = M_sfnt_read_at D rd.
Proof.
  intros Hh Ht. unfold M_sfnt_read_at. rewrite !fbind_eq. unfold f_header. cbn [fst snd]. rewrite Hh. cbn [fst snd].
  assert (E : read_tables (with_kern D kd) s toc rd = read_tables D s toc rd).
  { destruct D. unfold read_tables, with_kern, st_gpos. simpl. rewrite Ht. reflexivity. }
  now rewrite E.
Qed.
