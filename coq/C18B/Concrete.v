(* C18B/Concrete.v — the instance of the model in which three of the decoders
   are not universally quantified but are the models other developments
   already have (imported, nothing copied):
     head.Read    = C12.Model2.M_head_decode behind one 54-byte read
                    (binary.Read -> io.ReadFull on the section reader)
     hmtx.Decode  = C12.Model.M_hmtx_decode
     glyf.Decode  = C11.Model.M_decode
   Executable definitions only. *)
From Coq Require Import List NArith ZArith Bool Arith.
From Common Require Import Bytes Outcome.
From C03 Require Import Model.
From C12 Require Model Model2.
From C11 Require Model.
From C18B Require Import Model.
Import ListNotations.
Local Open Scope N_scope.

(* head.Read(r): binary.Read(r, BigEndian, &binaryHead{}) asks for the 54 bytes
   of the structure; fewer bytes (a short table) or a read error is an error *)
Definition c_head : N -> prog Z := fun _ =>
  Rd 0 54 (fun r =>
    match r with
    | RData d => Ret (omap C12.Model2.hd_locafmt (C12.Model2.M_head_decode d))
    | REof _ => Ret Err                                (* io.ErrUnexpectedEOF *)
    | RFail => Ret Err
    end).

(* len(hmtxInfo.Widths) *)
Definition c_hmtx (hhea : list N) (hmtx : option (list N)) : outcome N :=
  omap (fun i => match C12.Model.d_widths i with Some w => N.of_nat (length w) | None => 0 end)
       (C12.Model.M_hmtx_decode hhea hmtx).

(* len(glyf.Decode(&glyf.Encoded{GlyfData, LocaData, LocaFormat})) *)
Definition c_glyf (lf : Z) (loca glyf : list N) : outcome N :=
  omap (fun gg : C11.Model.glyphs => N.of_nat (length gg))
       (C11.Model.M_decode (C11.Model.Build_encoded glyf loca lf)).

Definition with_models (D : decoders) : decoders :=
  mk_decoders c_head (d_maxp D) (d_os2 D) (d_post D) (d_cff D) (d_gdef D) (d_gsub D) (d_gpos D) (d_kern D)
              c_hmtx (d_cmap D) (d_name D) c_glyf (d_getbest D) (d_namever D) (d_grow D).
