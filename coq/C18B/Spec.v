(* C18B/Spec.v — the vocabulary of the statements.  Propositions only. *)
From Coq Require Import List NArith ZArith Bool Arith.
From Common Require Import Bytes Outcome.
From Gen Require Import Consts.
From C03 Require Import Model.
From C18B Require Import Model.
Import ListNotations.
Local Open Scope N_scope.

(* [fails] is the behaviour of a reader whose bad offsets are [bad]: an access
   fails iff it touches a bad offset *)
Definition fails_is (bad : N -> Prop) (fails : N -> N -> bool) : Prop :=
  forall off n, fails off n = true <-> exists j, off <= j /\ j < off + n /\ bad j.

(* rd' answers like rd on every access of the footprint t *)
Definition agree_on (t : fprint) (rd rd' : racc) : Prop :=
  forall o n, In (o, n) t -> rd' o n = rd o n.

(* some access of the footprint fails *)
Definition hits (fails : N -> N -> bool) (t : fprint) : Prop :=
  exists o n, In (o, n) t /\ fails o n = true.

(* offset k lies inside an access of the footprint *)
Definition covers (t : fprint) (k : N) : Prop :=
  exists o n, In (o, n) t /\ o <= k /\ k < o + n.

(* a computation is determined by what its accesses return ... *)
Definition determined {A} (c : fcomp A) : Prop :=
  forall rd rd', agree_on (snd (c rd)) rd rd' -> c rd' = c rd.
(* ... and returns an error as soon as one of them fails *)
Definition fault_strict {A} (c : fcomp A) : Prop :=
  forall rd fails, hits fails (snd (c rd)) -> fst (c (faulty fails rd)) = Err.
Definition tight {A} (c : fcomp A) : Prop := determined c /\ fault_strict c.

(* a section decoder returns an error at once when a read fails *)
Inductive strict {A} : prog A -> Prop :=
| strict_ret r : strict (Ret r)
| strict_rd o n k : k RFail = Ret Err -> (forall x, strict (k x)) -> strict (Rd o n k).

(* a decoder that neither panics nor loops: every leaf is a value or an error *)
Inductive total {A} : prog A -> Prop :=
| total_ok a : total (Ret (Ok a))
| total_err : total (Ret Err)
| total_rd o n k : (forall x, total (k x)) -> total (Rd o n k).

Definition okerr {A} (x : outcome A) : Prop := x = Err \/ exists a, x = Ok a.

Record decoders_strict (D : decoders) : Prop := mk_dstrict {
  ds_head : forall l, strict (d_head D l);
  ds_maxp : forall l, strict (d_maxp D l);
  ds_os2  : forall l, strict (d_os2 D l);
  ds_post : forall l, strict (d_post D l);
  ds_cff  : forall l, strict (d_cff D l);
  ds_gdef : forall l, strict (d_gdef D l);
  ds_gsub : forall l, strict (d_gsub D l);
  ds_gpos : forall l, strict (d_gpos D l);
  ds_kern : forall l, strict (d_kern D l)
}.

Record decoders_total (D : decoders) : Prop := mk_dtotal {
  dt_head : forall l, total (d_head D l);
  dt_maxp : forall l, total (d_maxp D l);
  dt_os2  : forall l, total (d_os2 D l);
  dt_post : forall l, total (d_post D l);
  dt_cff  : forall l, total (d_cff D l);
  dt_gdef : forall l, total (d_gdef D l);
  dt_gsub : forall l, total (d_gsub D l);
  dt_gpos : forall l, total (d_gpos D l);
  dt_kern : forall l, total (d_kern D l);
  dt_hmtx : forall h m, okerr (d_hmtx D h m);
  dt_cmap : forall c, okerr (d_cmap D c);
  dt_name : forall c, okerr (d_name D c);
  dt_glyf : forall lf l g, okerr (d_glyf D lf l g)
}.

(* the directory of a file header.Read accepts, without 32-bit wrap-around of
   offset + length (true of every file below 4 GiB whose tables lie inside it) *)
Definition no_wrap (toc : list toc_entry) : Prop :=
  Forall (fun t : toc_entry => snd (fst t) + snd t < 4294967296) toc.

(* end of the table data: the largest offset + length *)
Definition toc_end (toc : list toc_entry) : N :=
  fold_right N.max 0 (map (fun t : toc_entry => snd (fst t) + snd t) toc).

(* what a section decoder returns on this source for the table with this tag *)
Definition sdec_result {V} (rd : racc) (toc : list toc_entry) (tag : N) (dec : N -> prog V)
  : option (outcome V) :=
  match tbl tag toc with
  | Some (o, l) => Some (fst (run_sec rd o l (dec l)))
  | None => None
  end.

(* what Info.ReadTableBytes returns *)
Definition bytes_result (D : decoders) (rd : racc) (toc : list toc_entry) (tag : N)
  : option (outcome (list N)) :=
  match tbl tag toc with
  | Some (o, l) => Some (fst (f_bytes (d_grow D) o l rd))
  | None => None
  end.

Definition is_tt (s : N) : bool := (s =? header_scalerTrueType) || (s =? header_scalerApple).

(* ---- what a successful sfnt.Read has seen ---- *)

(* an optional table: absent, or present and read/decoded without error *)
Definition opt_res {V} (r : option (outcome V)) (v : option V) : Prop :=
  match r with
  | None => v = None
  | Some x => exists a, x = Ok a /\ v = Some a
  end.

Definition counts_agree (ng v : N) : Prop := ng = 0 \/ v = ng.

Definition outlines_ok (D : decoders) (rd : racc) (s : N) (toc : list toc_entry)
           (headv : option Z) (maxpv : option N) (ng : N) (v : N) : Prop :=
  if s =? header_scalerCFF then
    sdec_result rd toc tag_CFF (d_cff D) = Some (Ok v) /\ counts_agree ng v
  else
    is_tt s = true /\
    exists lf mg loca glyf,
      headv = Some lf /\ maxpv = Some mg /\
      bytes_result D rd toc tag_loca = Some (Ok loca) /\
      bytes_result D rd toc tag_glyf = Some (Ok glyf) /\
      d_glyf D lf loca glyf = Ok v /\
      (forall t, In t tt_extra -> has t toc = true -> exists b, bytes_result D rd toc t = Some (Ok b)) /\
      counts_agree ng v.

Inductive read_ok (D : decoders) (rd : racc) (v : N) : Prop :=
| read_ok_intro (s : N) (toc : list toc_entry) (headv : option Z)
    (hhea hmtx cm nm : option (list N)) (maxpv nwo : option N) (u1 u2 : option unit) (ng nw : N) :
    M_read_dir_r (to_c03 rd) = Ok (s, toc) ->
    gate toc = true ->
    opt_res (sdec_result rd toc tag_head (d_head D)) headv ->
    opt_res (bytes_result D rd toc tag_hhea) hhea ->
    opt_res (sdec_result rd toc tag_maxp (d_maxp D)) maxpv ->
    opt_res (sdec_result rd toc tag_OS2 (d_os2 D)) u1 ->
    opt_res (bytes_result D rd toc tag_hmtx) hmtx ->
    match hhea with
    | Some h => exists w, d_hmtx D h hmtx = Ok w /\ nwo = Some w
    | None => nwo = None
    end ->
    opt_res (bytes_result D rd toc tag_cmap) cm ->
    (forall c, cm = Some c -> exists u, d_cmap D c = Ok u) ->
    opt_res (bytes_result D rd toc tag_name) nm ->
    (forall n, nm = Some n -> exists u, d_name D n = Ok u) ->
    opt_res (sdec_result rd toc tag_post (d_post D)) u2 ->
    fix_counts maxpv nwo = Ok (ng, nw) ->
    outlines_ok D rd s toc headv maxpv ng v ->
    (has tag_GDEF toc = true -> exists u, sdec_result rd toc tag_GDEF (d_gdef D) = Some (Ok u)) ->
    (has tag_GSUB toc = true -> exists u, sdec_result rd toc tag_GSUB (d_gsub D) = Some (Ok u)) ->
    (has tag_GPOS toc = true -> exists u, sdec_result rd toc tag_GPOS (d_gpos D) = Some (Ok u)) ->
    (has tag_GPOS toc = false -> has tag_kern toc = true ->
       exists u, sdec_result rd toc tag_kern (d_kern D) = Some (Ok u)) ->
    read_ok D rd v.

(* ---- the consulted byte ranges, site by site ---- *)

(* the accesses a section decoder makes in the table with this tag *)
Definition sdec_fp {V} (rd : racc) (toc : list toc_entry) (tag : N) (dec : N -> prog V) : fprint :=
  match tbl tag toc with
  | Some (o, l) => snd (run_sec rd o l (dec l))
  | None => []
  end.

(* the accesses of Info.ReadTableBytes on the table with this tag *)
Definition bytes_fp (D : decoders) (rd : racc) (toc : list toc_entry) (tag : N) : fprint :=
  match tbl tag toc with
  | Some (o, l) => snd (f_bytes (d_grow D) o l rd)
  | None => []
  end.

Definition guarded (tag : N) (toc : list toc_entry) (t : fprint) : fprint :=
  if has tag toc then t else [].

(* the accesses of a sfnt.Read that succeeds, in order: header.Read, then the
   sites of read.go (model_sites) that are active for this directory *)
Definition consulted (D : decoders) (rd : racc) (s : N) (toc : list toc_entry) : fprint :=
  dir_fp (to_c03 rd) ++
  sdec_fp rd toc tag_head (d_head D) ++
  bytes_fp D rd toc tag_hhea ++
  sdec_fp rd toc tag_maxp (d_maxp D) ++
  sdec_fp rd toc tag_OS2 (d_os2 D) ++
  bytes_fp D rd toc tag_hmtx ++
  bytes_fp D rd toc tag_cmap ++
  bytes_fp D rd toc tag_name ++
  sdec_fp rd toc tag_post (d_post D) ++
  (if s =? header_scalerCFF then sdec_fp rd toc tag_CFF (d_cff D)
   else bytes_fp D rd toc tag_loca ++ bytes_fp D rd toc tag_glyf ++
        concat (map (fun t => guarded t toc (bytes_fp D rd toc t)) tt_extra)) ++
  guarded tag_GDEF toc (sdec_fp rd toc tag_GDEF (d_gdef D)) ++
  guarded tag_GSUB toc (sdec_fp rd toc tag_GSUB (d_gsub D)) ++
  (if has tag_GPOS toc then sdec_fp rd toc tag_GPOS (d_gpos D)
   else guarded tag_kern toc (sdec_fp rd toc tag_kern (d_kern D))).

(* the tables a successful sfnt.Read has read from the first byte to the last *)
Definition fully_read (s : N) (toc : list toc_entry) : list N :=
  [tag_hhea; tag_hmtx; tag_cmap; tag_name] ++
  (if s =? header_scalerCFF then [] else [tag_loca; tag_glyf] ++ filter (fun t => has t toc) tt_extra).

(* the two errors read.go throws away, replaced *)
Definition with_discarded (D : decoders) (g n : list N -> outcome unit) : decoders :=
  mk_decoders (d_head D) (d_maxp D) (d_os2 D) (d_post D) (d_cff D) (d_gdef D) (d_gsub D) (d_gpos D)
              (d_kern D) (d_hmtx D) (d_cmap D) (d_name D) (d_glyf D) g n (d_grow D).
Definition with_hmtx (D : decoders) (h : list N -> option (list N) -> outcome N) : decoders :=
  mk_decoders (d_head D) (d_maxp D) (d_os2 D) (d_post D) (d_cff D) (d_gdef D) (d_gsub D) (d_gpos D)
              (d_kern D) h (d_cmap D) (d_name D) (d_glyf D) (d_getbest D) (d_namever D) (d_grow D).
Definition with_kern (D : decoders) (k : N -> prog unit) : decoders :=
  mk_decoders (d_head D) (d_maxp D) (d_os2 D) (d_post D) (d_cff D) (d_gdef D) (d_gsub D) (d_gpos D)
              k (d_hmtx D) (d_cmap D) (d_name D) (d_glyf D) (d_getbest D) (d_namever D) (d_grow D).
