(* C18B/Proofs_Cover.v — which bytes the model reads: ReadTableBytes reads
   exactly its table, a section decoder stays inside its table, header.Read
   reads the directory and one byte; truncation; streams; the fault styles. *)
From Coq Require Import List NArith ZArith Bool Arith Lia Permutation.
From Coq Require Import ZifyBool ZifyNat ZifyN.
From Common Require Import Bytes Outcome.
From Gen Require Import Consts.
From C03 Require Import Model Proofs_Sort.
From C18 Require Import Proofs_Trunc.
From C18B Require Import Model Spec Proofs_Tight Proofs_Inv.
Import ListNotations.
Local Open Scope N_scope.

(* ---- the two fault styles ---- *)

Lemma fails_at_is k : fails_is (fun j => j = k) (fails_at k).
Proof.
  intros off n. unfold fails_at. split.
  - intros H. exists k. lia.
  - intros (j & H1 & H2 & ->). lia.
Qed.

Lemma fails_ge_is k : fails_is (fun j => k <= j) (fails_ge k).
Proof.
  intros off n. unfold fails_ge. split.
  - intros H. exists (N.max k off). lia.
  - intros (j & H1 & H2 & H3). lia.
Qed.

Lemma hits_covers bad fails t :
  fails_is bad fails -> (hits fails t <-> exists k, bad k /\ covers t k).
Proof.
  intros Hf. unfold hits, covers. split.
  - intros (o & n & Hi & H). apply Hf in H. destruct H as (j & H1 & H2 & H3). exists j. split; eauto 8.
  - intros (k & Hb & o & n & Hi & H1 & H2). exists o, n. split; [exact Hi|]. apply Hf. eauto.
Qed.

Lemma touches_covers t k : touches t k = true <-> covers t k.
Proof.
  unfold touches, covers. rewrite existsb_exists. split.
  - intros ([o n] & Hi & H). cbn [fst snd] in H. exists o, n. split; [exact Hi|lia].
  - intros (o & n & Hi & H). exists (o, n). split; [exact Hi|cbn [fst snd]; lia].
Qed.

(* ---- plain readers ---- *)

Lemma plain_at_inside b o n :
  o + n <= N.of_nat (length b) -> o < N.of_nat (length b) ->
  plain_at b o n = RData (sub b (N.to_nat o) (N.to_nat n)).
Proof.
  intros H1 H2. unfold plain_at.
  destruct (N.leb_spec (N.of_nat (length b)) o); [lia|].
  destruct (N.leb_spec (o + n) (N.of_nat (length b))); [reflexivity|lia].
Qed.

Lemma sub_firstn {A} (l : list A) k o n : (o + n <= k)%nat -> sub (firstn k l) o n = sub l o n.
Proof.
  intros H. destruct (Nat.le_gt_cases (length l) k) as [Hk|Hk].
  - now rewrite firstn_all2.
  - unfold sub. rewrite <- (firstn_skipn k l) at 2.
    rewrite skipn_app, firstn_app.
    replace (n - length (skipn o (firstn k l)))%nat with 0%nat.
    + cbn [firstn]. now rewrite app_nil_r.
    + rewrite skipn_length, firstn_length. lia.
Qed.

Lemma covers_cons a t k : covers (a :: t) k <-> (fst a <= k /\ k < fst a + snd a) \/ covers t k.
Proof.
  unfold covers. destruct a as [o n]. cbn [fst snd]. split.
  - intros (o' & n' & [E|Hi] & H); [inversion E; subst; now left|right; eauto].
  - intros [H|(o' & n' & Hi & H)]; [exists o, n; split; [now left|exact H]|exists o', n'; split; [now right|exact H]].
Qed.

Lemma covers_nil k : ~ covers [] k.
Proof. intros (o & n & [] & _). Qed.

Lemma covers_app t1 t2 k : covers (t1 ++ t2) k <-> covers t1 k \/ covers t2 k.
Proof.
  unfold covers. split.
  - intros (o & n & Hi & H). apply in_app_or in Hi. destruct Hi; [left|right]; eauto.
  - intros [(o & n & Hi & H)|(o & n & Hi & H)]; exists o, n; (split; [apply in_or_app; auto|exact H]).
Qed.

(* an access lies inside the range [o, o+l) and starts before its end *)
Definition inside (o l : N) (a : N * N) : Prop := o <= fst a /\ fst a < o + l /\ fst a + snd a <= o + l.

(* ---- ReadTableBytes on a table that lies inside the file ---- *)

Lemma read_all_plain grow b base len : base + len <= N.of_nat (length b) ->
  forall fuel pos, pos <= len -> (N.to_nat (len - pos) < fuel)%nat ->
  let res := read_all_sec fuel grow (plain_at b) base len pos (sub b (N.to_nat base) (N.to_nat pos)) in
  fst res = Ok (sub b (N.to_nat base) (N.to_nat len)) /\
  (forall k, covers (snd res) k <-> base + pos <= k /\ k < base + len) /\
  Forall (inside base len) (snd res).
Proof.
  intros Hin. induction fuel as [|f IH]; intros pos Hp Hf; [lia|]. cbn [read_all_sec].
  destruct (N.leb_spec len pos) as [Hl|Hl].
  - assert (pos = len) by lia. subst pos. cbn [fst snd]. split; [reflexivity|]. split; [|constructor].
    intros k. split; [intros H; exfalso; exact (covers_nil _ H)|lia].
  - set (want := N.min (N.max 1 (grow pos)) (len - pos)).
    assert (Hw : 1 <= want /\ want <= len - pos) by (unfold want; lia).
    rewrite plain_at_inside by lia.
    replace (N.to_nat (base + pos)) with (N.to_nat base + N.to_nat pos)%nat by lia.
    rewrite sub_app_adj.
    replace (N.to_nat pos + N.to_nat want)%nat with (N.to_nat (pos + want)) by lia.
    destruct (IH (pos + want)) as (H1 & H2 & H3); [lia|lia|].
    cbn [fst snd]. split; [exact H1|]. split.
    + intros k. rewrite covers_cons, H2. cbn [fst snd]. lia.
    + constructor; [unfold inside; cbn [fst snd]; lia|exact H3].
Qed.

Lemma f_bytes_plain grow b base len : base + len <= N.of_nat (length b) ->
  fst (f_bytes grow base len (plain_at b)) = Ok (sub b (N.to_nat base) (N.to_nat len)) /\
  (forall k, covers (snd (f_bytes grow base len (plain_at b))) k <-> base <= k /\ k < base + len) /\
  Forall (inside base len) (snd (f_bytes grow base len (plain_at b))).
Proof.
  intros Hin. unfold f_bytes.
  pose proof (read_all_plain grow b base len Hin (S (N.to_nat len)) 0) as H.
  change (sub b (N.to_nat base) (N.to_nat 0)) with (@nil N) in H.
  replace (base + 0) with base in H by lia. apply H; lia.
Qed.

(* whatever the source: the accesses of ReadTableBytes stay inside the table *)
Lemma read_all_inside grow rd base len : forall fuel pos acc,
  Forall (inside base len) (snd (read_all_sec fuel grow rd base len pos acc)).
Proof.
  induction fuel as [|f IH]; intros pos acc; cbn [read_all_sec]; [constructor|].
  destruct (N.leb_spec len pos); [constructor|].
  set (want := N.min (N.max 1 (grow pos)) (len - pos)).
  assert (Hi : inside base len (base + pos, want)) by (unfold inside, want; cbn [fst snd]; lia).
  destruct (rd (base + pos) want); cbn [snd]; constructor; auto.
Qed.

(* ... and so do those of a section decoder *)
Lemma run_sec_inside {A} (p : prog A) rd base len : Forall (inside base len) (snd (run_sec rd base len p)).
Proof.
  induction p as [r|o n k IH]; cbn [run_sec snd]; [constructor|].
  destruct (N.leb_spec len o); [apply IH|]. cbn [snd]. constructor; [|apply IH].
  unfold inside. cbn [fst snd]. lia.
Qed.

(* ---- every access behind the directory lies inside a table read.go names ---- *)

Definition site_tags : list N := map (fun x : site => fst (fst (fst x))) model_sites.

Definition in_named_table (toc : list toc_entry) (a : N * N) : Prop :=
  exists tag o l, In tag site_tags /\ tbl tag toc = Some (o, l) /\ inside o l a.

Definition fp_in (P : N * N -> Prop) {A} (c : fcomp A) : Prop := forall rd, Forall P (snd (c rd)).

Lemma fp_in_ret P {A} (r : outcome A) : fp_in P (fret r).
Proof. intros rd. constructor. Qed.

Lemma fp_in_bind P {A B} (c : fcomp A) (f : A -> fcomp B) :
  fp_in P c -> (forall a, fp_in P (f a)) -> fp_in P (fbind c f).
Proof.
  intros Hc Hf rd. rewrite fbind_eq. destruct (fst (c rd)); cbn [snd]; try apply Hc.
  apply Forall_app. split; [apply Hc|apply Hf].
Qed.

Lemma fp_in_if P {A} (b : bool) (c1 c2 : fcomp A) : fp_in P c1 -> fp_in P c2 -> fp_in P (if b then c1 else c2).
Proof. destruct b; auto. Qed.

Section InTables.
  Variable D : decoders.
  Variable toc : list toc_entry.
  Let P := in_named_table toc.

  Lemma named_weaken tag o l : In tag site_tags -> tbl tag toc = Some (o, l) ->
    forall t, Forall (inside o l) t -> Forall P t.
  Proof.
    intros Hi Ht t H. eapply Forall_impl; [|exact H]. intros a Ha. exists tag, o, l. auto.
  Qed.

  Lemma fp_req_sdec {V} tag (dec : N -> prog V) : In tag site_tags -> fp_in P (req_sdec toc tag dec).
  Proof.
    intros Hi rd. unfold req_sdec. destruct (tbl tag toc) as [[o l]|] eqn:E; [|constructor].
    eapply named_weaken; eauto. apply run_sec_inside.
  Qed.

  Lemma fp_opt_sdec {V} tag (dec : N -> prog V) : In tag site_tags -> fp_in P (opt_sdec toc tag dec).
  Proof.
    intros Hi. unfold opt_sdec. destruct (tbl tag toc) as [[o l]|] eqn:E; [|apply fp_in_ret].
    apply fp_in_bind; [|intros; apply fp_in_ret]. intros rd. eapply named_weaken; eauto. apply run_sec_inside.
  Qed.

  Lemma fp_req_bytes tag : In tag site_tags -> fp_in P (req_bytes D toc tag).
  Proof.
    intros Hi rd. unfold req_bytes. destruct (tbl tag toc) as [[o l]|] eqn:E; [|constructor].
    eapply named_weaken; eauto. apply read_all_inside.
  Qed.

  Lemma fp_opt_bytes tag : In tag site_tags -> fp_in P (opt_bytes D toc tag).
  Proof.
    intros Hi. unfold opt_bytes. destruct (tbl tag toc) as [[o l]|] eqn:E; [|apply fp_in_ret].
    apply fp_in_bind; [|intros; apply fp_in_ret]. intros rd. eapply named_weaken; eauto. apply read_all_inside.
  Qed.

  Ltac tag_in := unfold site_tags, model_sites; cbn [map fst In]; repeat (first [left; reflexivity|right]).

  Lemma fp_extra_gen tags : (forall t, In t tags -> In t site_tags) -> fp_in P (extra_tables D toc tags).
  Proof.
    induction tags as [|t r IH]; intros Hs; cbn [extra_tables]; [apply fp_in_ret|].
    assert (Hr : fp_in P (extra_tables D toc r)) by (apply IH; intros; apply Hs; now right).
    apply fp_in_if; [|exact Hr].
    apply fp_in_bind; [apply fp_req_bytes, Hs; now left|intros _; exact Hr].
  Qed.

  Lemma fp_extra : fp_in P (extra_tables D toc tt_extra).
  Proof.
    apply fp_extra_gen. unfold tt_extra, site_tags, model_sites. cbn [map fst In]. intros t. tauto.
  Qed.

  Lemma fp_read_tables s : fp_in P (read_tables D s toc).
  Proof.
    unfold read_tables. apply fp_in_if; [apply fp_in_ret|].
    apply fp_in_bind; [apply fp_opt_sdec; tag_in|intros headv].
    apply fp_in_bind; [apply fp_opt_bytes; tag_in|intros hhea].
    apply fp_in_bind; [apply fp_opt_sdec; tag_in|intros maxpv].
    apply fp_in_bind; [apply fp_opt_sdec; tag_in|intros _].
    apply fp_in_bind; [apply fp_opt_bytes; tag_in|intros hmtx].
    apply fp_in_bind.
    { unfold st_hmtx_dec. destruct hhea; [|apply fp_in_ret].
      apply fp_in_bind; [apply fp_in_ret|intros; apply fp_in_ret]. }
    intros nwo.
    apply fp_in_bind; [apply fp_opt_bytes; tag_in|intros cm].
    apply fp_in_bind.
    { unfold st_cmap_dec. destruct cm; [|apply fp_in_ret].
      apply fp_in_bind; [apply fp_in_ret|intros; apply fp_in_ret]. }
    intros _.
    apply fp_in_bind; [apply fp_opt_bytes; tag_in|intros nm].
    apply fp_in_bind; [unfold st_name_dec; destruct nm; apply fp_in_ret|intros _].
    apply fp_in_bind; [apply fp_opt_sdec; tag_in|intros _].
    apply fp_in_bind; [apply fp_in_ret|intros cnt].
    apply fp_in_bind.
    { unfold outlines. apply fp_in_if; [|apply fp_in_if; [|apply fp_in_ret]].
      - apply fp_in_bind; [apply fp_req_sdec; tag_in|]. intros ngl. repeat apply fp_in_if; apply fp_in_ret.
      - destruct headv; [|apply fp_in_ret]. destruct maxpv; [|apply fp_in_ret].
        apply fp_in_bind; [apply fp_req_bytes; tag_in|intros loca].
        apply fp_in_bind; [apply fp_req_bytes; tag_in|intros glyf].
        apply fp_in_bind; [apply fp_in_ret|intros ngl].
        apply fp_in_bind; [apply fp_extra|intros _].
        apply fp_in_if; apply fp_in_ret. }
    intros ngl.
    apply fp_in_bind; [unfold st_name_version; destruct nm; apply fp_in_ret|intros _].
    apply fp_in_bind; [unfold has_sdec; apply fp_in_if; [apply fp_req_sdec; tag_in|apply fp_in_ret]|intros _].
    apply fp_in_bind.
    { unfold st_gsub. apply fp_in_if; [apply fp_req_sdec; tag_in|destruct cm; apply fp_in_ret]. }
    intros _.
    apply fp_in_bind; [|intros; apply fp_in_ret].
    unfold st_gpos. apply fp_in_if; [apply fp_req_sdec; tag_in|].
    apply fp_in_if; [apply fp_req_sdec; tag_in|apply fp_in_ret].
  Qed.
End InTables.
