#!/usr/bin/env python3
"""Evaluate a seeded change in isolation (while /repo is busy):

    eval_seed.py <PID> <patch.diff> [--demo-dir DIR] [--tier quick] [--keep]

Builds /tmp/evalrepo-<n> = /repo HEAD + /repo's uncommitted changes + untracked
verif hook files + the patch, confirms that it compiles and that the existing
test suite passes, runs the demonstration (if given) with and without the
patch, then runs a copy of /verif (/tmp/evalverif-<n>) against that tree and
prints the check's output.  The final confirmation runs are done in /repo itself
(git -C /repo apply; ./check; git -C /repo apply -R).
"""
import argparse, os, shutil, subprocess, sys, tempfile

ENV = dict(os.environ, GOFLAGS="-mod=mod", GOPROXY="off", GOSUMDB="off", GOTOOLCHAIN="local")


def sh(cmd, cwd=None, env=None, check=False, timeout=3600):
    p = subprocess.run(cmd, cwd=cwd, env=env or ENV, shell=isinstance(cmd, str), timeout=timeout,
                       stdout=subprocess.PIPE, stderr=subprocess.STDOUT, text=True)
    if check and p.returncode != 0:
        print(p.stdout)
        raise SystemExit("command failed: %s" % cmd)
    return p.returncode, p.stdout


def main():
    ap = argparse.ArgumentParser()
    ap.add_argument("pid")
    ap.add_argument("patch")
    ap.add_argument("--demo-dir", help="directory tree with seed_demo* files to overlay on the repo")
    ap.add_argument("--demo-cmd", default="go test -vet=off -count=1 -run 'SeedDemo|Seed' ./...")
    ap.add_argument("--tier", default="quick")
    ap.add_argument("--tag", default=None)
    ap.add_argument("--keep", action="store_true")
    ap.add_argument("--also", nargs="*", default=[], help="further property ids to run")
    ap.add_argument("--skip-wt", nargs="*", default=[], help="files whose uncommitted /repo changes are NOT transplanted (seed made against HEAD)")
    args = ap.parse_args()
    tag = args.tag or ("%s-%d" % (args.pid.lower(), os.getpid()))
    repo = "/tmp/evalrepo-" + tag
    verif = "/tmp/evalverif-" + tag
    patch = os.path.abspath(args.patch)
    try:
        shutil.rmtree(repo, ignore_errors=True)
        sh("git -C /repo worktree prune")
        sh(["git", "-C", "/repo", "worktree", "add", "--detach", repo, "HEAD", "-q"], check=True)
        rc, diff = sh("git -C /repo diff -- . " + " ".join("':(exclude)%s'" % f for f in args.skip_wt))
        if os.environ.get("EVAL_NO_WT"):   # evaluate against /repo HEAD only (other people's uncommitted work is ignored)
            diff = ""
        if diff.strip():
            p = subprocess.run(["git", "apply"], cwd=repo, input=diff, text=True)
            if p.returncode != 0:
                raise SystemExit("could not transplant /repo's working-tree changes")
        rc, others = sh("git -C /repo ls-files --others --exclude-standard")
        for f in others.split():
            if "verif_hooks" in f and not os.environ.get("EVAL_NO_WT"):
                os.makedirs(os.path.dirname(os.path.join(repo, f)) or repo, exist_ok=True)
                shutil.copyfile(os.path.join("/repo", f), os.path.join(repo, f))
        # demo without the patch
        demo_before = None
        if args.demo_dir:
            sh(["rsync", "-a", "--include=*/", "--include=seed_demo*", "--include=seed_demo/**", "--exclude=*", args.demo_dir + "/", repo + "/"], check=True)
            demo_before = sh(args.demo_cmd, cwd=repo)
        rc, out = sh(["git", "apply", patch], cwd=repo)
        if rc != 0:
            print(out)
            raise SystemExit("patch does not apply to the current tree")
        rc, out = sh("go build ./... && go build -tags verif ./...", cwd=repo)
        print("BUILD rc=%d %s" % (rc, out[-800:] if rc else ""))
        if rc != 0:
            raise SystemExit("seeded change does not compile")
        # existing test suite (without the demo files)
        if args.demo_dir:
            sh("find . -name 'seed_demo*' -prune -exec mv {} {}.off \\;", cwd=repo)
        rc, out = sh("go test -vet=off -count=1 ./...", cwd=repo)
        fails = [l for l in out.splitlines() if l.startswith(("FAIL", "--- FAIL", "panic"))]
        print("EXISTING-TESTS rc=%d %s" % (rc, "; ".join(fails[:5])))
        if args.demo_dir:
            sh("find . -name 'seed_demo*.off' -prune | while read f; do mv \"$f\" \"${f%.off}\"; done", cwd=repo)
            demo_after = sh(args.demo_cmd, cwd=repo)
            print("DEMO without change: rc=%d ; with change: rc=%d" % (demo_before[0], demo_after[0]))
            if demo_after[0] != 0:
                print("  demo output (with change): " + " | ".join(demo_after[1].strip().splitlines()[-6:])[:600])
            # remove demo files again so that they do not influence the harness build
            sh("find . -name 'seed_demo*' -prune -exec rm -rf {} +", cwd=repo)
        # the checks, from a copy of /verif pointed at the tree
        shutil.rmtree(verif, ignore_errors=True)
        sh(["rsync", "-a", "--exclude=.git", "--exclude=replays", "--exclude=work/C*", "/verif/", verif + "/"], check=True)
        gm = os.path.join(verif, "harness", "go.mod")
        s = open(gm).read().replace("=> /repo", "=> " + repo)
        open(gm, "w").write(s)
        env = dict(ENV, VERIF_REPO=repo)
        for pid in [args.pid] + args.also:
            rc, out = sh(["./check", pid, "--tier", args.tier], cwd=verif, env=env, timeout=7200)
            print("CHECK %s rc=%d" % (pid, rc))
            print("\n".join("  " + l[:400] for l in out.strip().splitlines()[-12:]))
            for l in out.splitlines():
                if l.startswith("VIOLATION"):
                    rp = l.split("replay=")[1].split()[0]
                    try:
                        txt = open(os.path.join(verif, rp)).read()
                        print("  replay file %s: %s" % (rp, " ".join(txt.split())[:700]))
                    except OSError:
                        pass
    finally:
        if not args.keep:
            sh(["git", "-C", "/repo", "worktree", "remove", "--force", repo])
            shutil.rmtree(repo, ignore_errors=True)
            shutil.rmtree(verif, ignore_errors=True)
            sh("git -C /repo worktree prune")


if __name__ == "__main__":
    main()
