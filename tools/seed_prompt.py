#!/usr/bin/env python3
"""prints the prompt for a seeded-change sub-agent: seed_prompt.py C17 /tmp/seed-c17-a [variant-hint]"""
import json, sys
pid, wt = sys.argv[1], sys.argv[2]
hint = sys.argv[3] if len(sys.argv) > 3 else ""
for l in open('/verif/properties.jsonl'):
    p = json.loads(l)
    if p['id'] == pid:
        break
print(f"""You are testing a verification effort for the Go library seehuhn/go-sfnt (pure-Go reading/writing/subsetting of TrueType/OpenType/CFF fonts, with a GSUB/GPOS lookup engine). You work ONLY inside your own scratch git worktree of the repository: {wt} (a detached checkout; do not touch /repo, do not look at or use anything under /verif, do not create files outside {wt} except under /tmp/{wt.split('/')[-1]}-scratch which you must delete at the end). No network. Shell env for every go command: `export GOFLAGS=-mod=mod GOPROXY=off GOSUMDB=off GOTOOLCHAIN=local`.

The property under test (id {p['id']}): {p['title']}

Statement: {p['statement']}

Quantifier: {p['quantifier']['text']}

Relevant source files: {', '.join(p['anchors']['files'])}

Your task: make ONE realistic change to the library's non-test Go source in {wt} that BREAKS this property while (a) the repository still compiles (`go build ./...`, and also `go vet` is not required), (b) the whole existing test suite still passes unchanged: `cd {wt} && go test -vet=off -count=1 ./...` (takes a few seconds; do not edit, add to or delete existing test files or testdata), and (c) the change looks like something a developer could plausibly write (a refactoring slip, an off-by-one, a wrong variable, a dropped guard, a reordered statement, an optimisation that is wrong in a corner, two cooperating sites that each look fine alone). It must need something SPECIFIC to manifest - a particular boundary size, an unusual but legal input, a multi-step sequence of operations, a particular interleaving, a fault at a particular point - not something ordinary use exposes at once (if half of all inputs break, it is too blunt; aim for a corner that the existing tests do not reach). {hint}

Deliverables, all inside {wt}:
1. the source change itself (leave it applied in the worktree; do not commit);
2. `seed_demo_test.go` files (new test file(s), package-level placement of your choice, names starting with `seed_demo`) or a small program under `{wt}/seed_demo/` that FAILS with your change and PASSES without it - verify both directions yourself (NEVER use `git stash` (the stash is shared between all worktrees of the repository and other people are working in sibling worktrees): save your change with `git diff > /tmp/{wt.split("/")[-1]}-scratch/p.diff`, revert with `git apply -R`, re-apply with `git apply`) and say exactly which command you ran;
3. `SEED_NOTES.md`: which clause of the property the change breaks, what exactly is needed for it to manifest (input/sequence/boundary), why the existing tests do not notice, and the output of the demo with and without the change.
Finally print `git -C {wt} diff` (source change only, excluding the demo files) in your final message. Do not describe or guess how the property might be checked by anyone else; just produce the change and the demonstration.""")
