#!/usr/bin/env python3
"""Writes baseline_src.json: per property the sha256 of its anchored source files
in /repo as they are now.  Run on the UNCHANGED tree after every commit to /repo
(hooks, fix: commits).  ./check compares the tree it is run against with this
baseline; a difference makes the check run further generator seeds (it looks
harder at code that changed) and is never an alarm by itself.  A stale baseline
costs run time only."""
import json, os, sys, importlib.util, importlib.machinery
ROOT = os.path.dirname(os.path.dirname(os.path.abspath(__file__)))
spec = importlib.util.spec_from_loader("check", importlib.machinery.SourceFileLoader("check", os.path.join(ROOT, "check")))
chk = importlib.util.module_from_spec(spec)
spec.loader.exec_module(chk)
out = {}
for l in open(os.path.join(ROOT, "properties.jsonl")):
    p = json.loads(l)
    out[p["id"]] = chk.source_fingerprint(p["id"])
json.dump(out, open(os.path.join(ROOT, "baseline_src.json"), "w"), indent=1, sort_keys=True)
print("wrote baseline_src.json for", len(out), "properties at", os.popen("git -C /repo rev-parse --short HEAD").read().strip())
