#!/bin/sh
# seed_in.sh C04 g   : collect /tmp/seed-c04-g into seeded/C04-g, drop the worktree, evaluate in the background (log /tmp/evalg/C04-g.log)
set -e
P="$1"; L="$2"; p=$(echo "$P" | tr A-Z a-z); s="$P-$L"
cd /verif
sh tools/collect_seed.sh /tmp/seed-$p-$L $s >/dev/null
git -C /repo worktree remove --force /tmp/seed-$p-$L
mkdir -p /tmp/evalg
nohup python3 tools/eval_seed.py $P seeded/$s/patch.diff --demo-dir seeded/$s/demo --tag $s $3 $4 $5 > /tmp/evalg/$s.log 2>&1 &
echo "evaluating $s"
