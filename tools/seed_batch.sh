#!/bin/sh
# seed_batch.sh <letter> C04 C09 ...   collect /tmp/seed-cNN-<letter>, drop worktrees, evaluate 4 at a time (logs /tmp/eval<letter>/<id>.log)
L="$1"; shift
cd /verif
mkdir -p /tmp/eval$L
ids=""
for P in "$@"; do
  p=$(echo $P | tr A-Z a-z)
  if [ -d /tmp/seed-$p-$L ]; then
    sh tools/collect_seed.sh /tmp/seed-$p-$L $P-$L >/dev/null && git -C /repo worktree remove --force /tmp/seed-$p-$L
  fi
  ids="$ids $P-$L"
done
printf "%s\n" $ids | xargs -P 4 -I{} sh -c 'P=$(echo {} | cut -d- -f1); python3 tools/eval_seed.py $P seeded/{}/patch.diff --demo-dir seeded/{}/demo --tag {}x > /tmp/eval'$L'/{}.log 2>&1'
