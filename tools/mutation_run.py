#!/usr/bin/env python3
"""Mutation run: what do the checks notice?  (support tooling, not part of any check)

    tools/mutation_run.py --props C17,C03 [--max-per-file 30] [--workers 6] [--seed 1]

For every property given: the files named in its anchors are mutated with
tools/mutator (operator replacement, literal +-1, negated condition, statement
deletion) at points on lines that the property's harness run covers
(work/cov/<pid>/profile.txt from tools/coverage.py).  Each mutant is applied to a
scratch worktree of /repo; mutants that do not compile or that the repository's
own test suite kills are set aside; for the rest the property's quick check is
run from a scratch copy of /verif against the mutated tree.  Results go to
work/mut/results-<tag>.jsonl; survivors (tests pass, check exits 0) are the
interesting lines: each is either an equivalent mutant, code irrelevant to the
property, or a blind spot of the check.
"""
import argparse, json, os, random, re, shutil, subprocess, sys, threading, time, queue

ROOT = os.path.dirname(os.path.dirname(os.path.abspath(__file__)))
ENV = dict(os.environ, GOFLAGS="-mod=mod", GOPROXY="off", GOSUMDB="off", GOTOOLCHAIN="local")
MOD = "seehuhn.de/go/sfnt/"
BASE = "/tmp/mut"


def sh(cmd, cwd=None, env=None, timeout=3600):
    try:
        p = subprocess.run(cmd, cwd=cwd, env=env or ENV, shell=isinstance(cmd, str), timeout=timeout,
                           stdout=subprocess.PIPE, stderr=subprocess.STDOUT, text=True)
        return p.returncode, p.stdout
    except subprocess.TimeoutExpired as e:
        return 124, "timeout"


def covered_lines(pid):
    prof = os.path.join(ROOT, "work", "cov", pid, "profile.txt")
    cov = {}
    if not os.path.exists(prof):
        return cov
    for l in open(prof):
        m = re.match(r"(\S+):(\d+)\.\d+,(\d+)\.\d+ (\d+) (\d+)$", l.strip())
        if not m or not m.group(1).startswith(MOD) or int(m.group(5)) == 0:
            continue
        f = m.group(1)[len(MOD):]
        s = cov.setdefault(f, set())
        s.update(range(int(m.group(2)), int(m.group(3)) + 1))
    return cov


def main():
    ap = argparse.ArgumentParser()
    ap.add_argument("--props", required=True)
    ap.add_argument("--max-per-file", type=int, default=30)
    ap.add_argument("--workers", type=int, default=6)
    ap.add_argument("--seed", type=int, default=1)
    ap.add_argument("--tag", default=None)
    ap.add_argument("--files", default=None, help="comma list: restrict to these files")
    args = ap.parse_args()
    pids = args.props.split(",")
    tag = args.tag or "-".join(pids)
    rnd = random.Random(args.seed)
    mutator = os.path.join(BASE, "mutator")
    os.makedirs(BASE, exist_ok=True)
    rc, out = sh(["go", "build", "-o", mutator, "."], cwd=os.path.join(ROOT, "tools", "mutator"))
    if rc != 0:
        raise SystemExit(out)
    anchors = {}
    for l in open(os.path.join(ROOT, "properties.jsonl")):
        p = json.loads(l)
        anchors[p["id"]] = p["anchors"]["files"]
    # mutants: (file, idx, line, desc) -> [pids]
    mut = {}
    for pid in pids:
        cov = covered_lines(pid)
        for f in anchors[pid]:
            if args.files and f not in args.files.split(","):
                continue
            if f not in cov:
                continue
            rc, out = sh([mutator, "-list", os.path.join("/repo", f)])
            pts = []
            for l in out.splitlines():
                i, line, desc = l.split("\t")
                if int(line) in cov[f]:
                    pts.append((f, int(i), int(line), desc))
            rnd.shuffle(pts)
            for p in pts[:args.max_per_file]:
                mut.setdefault(p, []).append(pid)
    jobs = queue.Queue()
    for k, v in sorted(mut.items()):
        jobs.put((k, v))
    print("%d mutants for %s" % (jobs.qsize(), ",".join(pids)), flush=True)
    outdir = os.path.join(ROOT, "work", "mut")
    os.makedirs(outdir, exist_ok=True)
    resf = open(os.path.join(outdir, "results-%s.jsonl" % tag), "a")
    lock = threading.Lock()
    counts = {}

    def worker(i):
        wd = os.path.join(BASE, "w%d" % i)
        repo, verif = os.path.join(wd, "repo"), os.path.join(wd, "verif")
        sh(["git", "-C", "/repo", "worktree", "remove", "--force", repo])
        shutil.rmtree(wd, ignore_errors=True)
        os.makedirs(wd)
        sh("git -C /repo worktree prune")
        rc, out = sh(["git", "-C", "/repo", "worktree", "add", "--detach", repo, "HEAD", "-q"])
        if rc != 0:
            print(out)
            return
        sh(["rsync", "-a", "--exclude=.git", "--exclude=replays", "--exclude=work/cov", "--exclude=work/mut",
            "--exclude=work/C*", "--exclude=seeded", ROOT + "/", verif + "/"])
        gm = os.path.join(verif, "harness", "go.mod")
        open(gm, "w").write(open(gm).read().replace("=> /repo", "=> " + repo))
        env = dict(ENV, VERIF_REPO=repo, VERIF_NO_EVIDENCE="1", VERIF_NO_SEARCH="1")
        while True:
            try:
                (f, idx, line, desc), ps = jobs.get_nowait()
            except queue.Empty:
                break
            t0 = time.time()
            rec = {"file": f, "idx": idx, "line": line, "desc": desc, "props": ps}
            target = os.path.join(repo, f)
            rc, src = sh([mutator, "-apply", str(idx), os.path.join("/repo", f)])
            if rc != 0:
                rec["status"] = "mutator-error"
            else:
                open(target, "w").write(src)
                rc, out = sh("go build ./... && go build -tags verif ./...", cwd=repo)
                if rc != 0:
                    rec["status"] = "build-fail"
                else:
                    rc, out = sh("go test -vet=off -count=1 -timeout 120s ./...", cwd=repo, timeout=1500)
                    if rc != 0:
                        rec["status"] = "test-killed"
                    else:
                        rec["status"] = "survived"
                        rec["checks"] = {}
                        for pid in ps:
                            rc, out = sh(["./check", pid, "--tier", "quick"], cwd=verif, env=env, timeout=2400)
                            viol = [l for l in out.splitlines() if l.startswith("VIOLATION")]
                            kind = "none"
                            if viol:
                                kind = "nofail" if all("no-failing-input-found" in v for v in viol) else "concrete"
                            rec["checks"][pid] = {"rc": rc, "kind": kind}
                            if rc == 1 and viol:
                                rec["status"] = "check-killed"
                                break
                            if rc not in (0, 1):
                                rec["status"] = "check-error"
                                rec["detail"] = out[-400:]
                                break
                sh(["git", "checkout", "--", f], cwd=repo)
            rec["s"] = round(time.time() - t0, 1)
            with lock:
                counts[rec["status"]] = counts.get(rec["status"], 0) + 1
                resf.write(json.dumps(rec) + "\n")
                resf.flush()
                print("[w%d] %-13s %s:%d %s (%.0fs) %s" % (i, rec["status"], f, line, desc, rec["s"], counts), flush=True)
        sh(["git", "-C", "/repo", "worktree", "remove", "--force", repo])
        shutil.rmtree(wd, ignore_errors=True)

    ths = [threading.Thread(target=worker, args=(i,)) for i in range(args.workers)]
    for t in ths:
        t.start()
    for t in ths:
        t.join()
    sh("git -C /repo worktree prune")
    print("done:", counts)


if __name__ == "__main__":
    main()
