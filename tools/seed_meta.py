#!/usr/bin/env python3
"""seed_meta.py <seed-id> <property> <clause broken> <what it needs to manifest> <detection summary>"""
import json, sys, os
sid, pid, breaks, needs, detected = sys.argv[1:6]
d = os.path.join("/verif/seeded", sid)
meta = {
    "seed": sid, "property": pid,
    "breaks": breaks, "needs_to_manifest": needs,
    "confirmed": {
        "compiles": "go build ./... && go build -tags verif ./... in a scratch worktree (tools/eval_seed.py)",
        "existing_tests": "go test -vet=off -count=1 ./... passes with the change (demo files moved aside)",
        "demonstration": "demo fails with the change and passes without it (tools/eval_seed.py --demo-dir)",
    },
    "ran": "python3 tools/eval_seed.py %s seeded/%s/patch.diff --demo-dir seeded/%s/demo (isolated copy of /repo HEAD + working tree + patch; copy of /verif run against it)" % (pid, sid, sid),
    "detected": detected,
}
json.dump(meta, open(os.path.join(d, "meta.json"), "w"), indent=1)
print("wrote", os.path.join(d, "meta.json"))
