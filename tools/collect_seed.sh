#!/bin/sh
# collect_seed.sh <worktree> <seed-id>   e.g. /tmp/seed-c20-a C20-a
# stores patch.diff (source change only), the demonstration and notes under /verif/seeded/<seed-id>/
set -e
wt="$1"; id="$2"; d=/verif/seeded/$id
mkdir -p "$d/demo"
git -C "$wt" diff -- . ':(exclude)seed_demo*' ':(exclude)SEED_NOTES.md' > "$d/patch.diff"
(cd "$wt" && find . -name 'seed_demo*' -not -path './.git/*' | while read f; do mkdir -p "$d/demo/$(dirname "$f")"; cp -r "$f" "$d/demo/$f"; done)
[ -f "$wt/SEED_NOTES.md" ] && cp "$wt/SEED_NOTES.md" "$d/SEED_NOTES.md"
wc -l "$d/patch.diff"; find "$d/demo" -type f
