module verif/mutator

go 1.23
