// mutator: systematic small source changes for measuring what the checks notice
// (support tooling: not part of any check).
//
//	mutator -list FILE                 one line per mutation point: index, line, description
//	mutator -apply N FILE > OUT        FILE with mutation point N applied
//
// Operators: relational/arithmetic/logical operator replacement, integer literal
// +1, negated if-condition, deletion of a statement without declarations.
package main

import (
	"bytes"
	"flag"
	"fmt"
	"go/ast"
	"go/parser"
	"go/printer"
	"go/token"
	"os"
	"strconv"
)

type point struct {
	line  int
	desc  string
	apply func()
}

var swaps = map[token.Token][]token.Token{
	token.LSS: {token.LEQ}, token.LEQ: {token.LSS}, token.GTR: {token.GEQ}, token.GEQ: {token.GTR},
	token.EQL: {token.NEQ}, token.NEQ: {token.EQL},
	token.ADD: {token.SUB}, token.SUB: {token.ADD},
	token.LAND: {token.LOR}, token.LOR: {token.LAND},
	token.SHL: {token.SHR}, token.SHR: {token.SHL},
	token.AND: {token.OR}, token.OR: {token.AND},
}

func main() {
	list := flag.Bool("list", false, "list mutation points")
	apply := flag.Int("apply", -1, "apply mutation point N")
	flag.Parse()
	fn := flag.Arg(0)
	fset := token.NewFileSet()
	f, err := parser.ParseFile(fset, fn, nil, parser.ParseComments)
	if err != nil {
		fmt.Fprintln(os.Stderr, err)
		os.Exit(2)
	}
	var pts []point
	add := func(pos token.Pos, desc string, ap func()) {
		pts = append(pts, point{fset.Position(pos).Line, desc, ap})
	}
	for _, d := range f.Decls {
		fd, ok := d.(*ast.FuncDecl)
		if !ok || fd.Body == nil {
			continue
		}
		name := fd.Name.Name
		if name == "String" || name == "Error" || name == "GoString" {
			continue
		}
		ast.Inspect(fd.Body, func(n ast.Node) bool {
			switch x := n.(type) {
			case *ast.BinaryExpr:
				// string concatenation is not interesting
				if x.Op == token.ADD {
					if bl, ok := x.X.(*ast.BasicLit); ok && bl.Kind == token.STRING {
						return true
					}
					if bl, ok := x.Y.(*ast.BasicLit); ok && bl.Kind == token.STRING {
						return true
					}
				}
				for _, t := range swaps[x.Op] {
					from, to := x.Op, t
					add(x.OpPos, fmt.Sprintf("%s: %s -> %s", name, from, to), func() { x.Op = to })
				}
			case *ast.BasicLit:
				if x.Kind == token.INT {
					v, err := strconv.ParseInt(x.Value, 0, 64)
					if err == nil && v < 1<<40 {
						old := x.Value
						add(x.Pos(), fmt.Sprintf("%s: literal %s -> %d", name, old, v+1), func() { x.Value = strconv.FormatInt(v+1, 10) })
						if v > 0 {
							add(x.Pos(), fmt.Sprintf("%s: literal %s -> %d", name, old, v-1), func() { x.Value = strconv.FormatInt(v-1, 10) })
						}
					}
				}
			case *ast.IfStmt:
				add(x.Cond.Pos(), fmt.Sprintf("%s: negate if condition", name), func() {
					x.Cond = &ast.UnaryExpr{Op: token.NOT, X: &ast.ParenExpr{X: x.Cond}}
				})
			case *ast.BlockStmt:
				for i, s := range x.List {
					del := false
					what := ""
					switch st := s.(type) {
					case *ast.AssignStmt:
						if st.Tok != token.DEFINE {
							del, what = true, "assignment"
						}
					case *ast.IncDecStmt:
						del, what = true, "inc/dec"
					case *ast.ExprStmt:
						if ce, ok := st.X.(*ast.CallExpr); ok {
							if id, ok := ce.Fun.(*ast.Ident); ok && id.Name == "panic" {
								break
							}
						}
						del, what = true, "call"
					case *ast.BranchStmt:
						if st.Tok == token.CONTINUE || st.Tok == token.BREAK {
							del, what = true, st.Tok.String()
						}
					}
					if del {
						i := i
						add(s.Pos(), fmt.Sprintf("%s: delete %s statement", name, what), func() { x.List[i] = &ast.EmptyStmt{Semicolon: x.List[i].Pos(), Implicit: false} })
					}
				}
			case *ast.CaseClause:
				for i, s := range x.Body {
					if st, ok := s.(*ast.AssignStmt); ok && st.Tok != token.DEFINE {
						i := i
						add(s.Pos(), fmt.Sprintf("%s: delete assignment statement", name), func() { x.Body[i] = &ast.EmptyStmt{Semicolon: x.Body[i].Pos()} })
					}
				}
			}
			return true
		})
	}
	if *list {
		for i, p := range pts {
			fmt.Printf("%d\t%d\t%s\n", i, p.line, p.desc)
		}
		return
	}
	if *apply < 0 || *apply >= len(pts) {
		fmt.Fprintln(os.Stderr, "no such mutation point")
		os.Exit(2)
	}
	pts[*apply].apply()
	var buf bytes.Buffer
	if err := printer.Fprint(&buf, fset, f); err != nil {
		fmt.Fprintln(os.Stderr, err)
		os.Exit(2)
	}
	os.Stdout.Write(buf.Bytes())
}
