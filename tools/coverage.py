#!/usr/bin/env python3
"""Statement coverage of /repo's anchored source files under a property's
harness run (support for generator quality: code that no generated case reaches
cannot be tied to the model and a change there cannot be noticed).

    tools/coverage.py C11 [--tier quick] [--seed 1] [--parts]   -> work/cov/C11/uncovered.txt

Builds harness/<pid>/cmd (and the parts' harnesses) with `go build -cover
-coverpkg=seehuhn.de/go/sfnt/...`, runs the corpus and the generator exactly as
`./check` does, and lists the uncovered blocks of the files named in the
property's anchors (properties.jsonl).  Not part of any check.
"""
import argparse, json, os, re, shutil, subprocess, sys

ROOT = os.path.dirname(os.path.dirname(os.path.abspath(__file__)))
ENV = dict(os.environ, GOFLAGS="-mod=mod", GOPROXY="off", GOSUMDB="off", GOTOOLCHAIN="local", CGO_ENABLED="0")
MOD = "seehuhn.de/go/sfnt/"


def sh(cmd, **kw):
    p = subprocess.run(cmd, stdout=subprocess.PIPE, stderr=subprocess.STDOUT, text=True, **kw)
    return p.returncode, p.stdout


def main():
    ap = argparse.ArgumentParser()
    ap.add_argument("pid")
    ap.add_argument("--tier", default="quick")
    ap.add_argument("--seed", default="1")
    ap.add_argument("--all-files", action="store_true", help="report every non-test file of the module, not only the anchors")
    args = ap.parse_args()
    pid = args.pid
    anchors = None
    for l in open(os.path.join(ROOT, "properties.jsonl")):
        p = json.loads(l)
        if p["id"] == pid:
            anchors = p["anchors"]["files"]
    keys = [pid] + sorted(f[:-3] for f in os.listdir(os.path.join(ROOT, "props"))
                          if re.match(pid + r"[A-Z]+\.py$", f))
    out = os.path.join(ROOT, "work", "cov", pid)
    shutil.rmtree(out, ignore_errors=True)
    os.makedirs(os.path.join(out, "data"))
    for k in keys:
        exe = os.path.join(out, "vh-" + k)
        rc, o = sh(["go", "build", "-tags", "verif", "-cover", "-coverpkg=" + MOD + "...", "-o", exe, "./%s/cmd" % k.lower()],
                   cwd=os.path.join(ROOT, "harness"), env=ENV)
        if rc != 0:
            print(o)
            raise SystemExit("build failed for " + k)
        env = dict(ENV, GOCOVERDIR=os.path.join(out, "data"))
        corpus = os.path.join(ROOT, "corpus", k)
        if os.path.isdir(corpus):
            cf = os.path.join(out, k + "-corpus.txt")
            with open(cf, "w") as f:
                for fn in sorted(os.listdir(corpus)):
                    if fn.endswith(".txt"):
                        f.write(open(os.path.join(corpus, fn)).read().rstrip("\n") + "\n")
            if os.path.getsize(cf):
                sh([exe, "cases", cf, os.path.join(out, k + "-corpus")], env=env, timeout=3600)
        rc, o = sh([exe, "gen", os.path.join(out, k + "-gen"), args.seed, args.tier], env=env, timeout=7200)
        if rc != 0:
            print(o[-2000:])
    prof = os.path.join(out, "profile.txt")
    rc, o = sh(["go", "tool", "covdata", "textfmt", "-i=" + os.path.join(out, "data"), "-o=" + prof], env=ENV)
    if rc != 0:
        raise SystemExit(o)
    # profile lines: file:startLine.startCol,endLine.endCol numStmts count
    blocks = {}
    for l in open(prof):
        m = re.match(r"(\S+):(\d+)\.\d+,(\d+)\.\d+ (\d+) (\d+)$", l.strip())
        if not m or not m.group(1).startswith(MOD) or "verifharness" in m.group(1):
            continue
        f = m.group(1)[len(MOD):]
        key = (int(m.group(2)), int(m.group(3)), int(m.group(4)))
        d = blocks.setdefault(f, {})
        d[key] = max(d.get(key, 0), int(m.group(5)))
    files = sorted(blocks) if args.all_files else [f for f in anchors if f in blocks]
    rep = []
    tot_s = tot_c = 0
    for f in files:
        src = open(os.path.join("/repo", f)).read().splitlines()
        st = sum(k[2] for k in blocks[f])
        cv = sum(k[2] for k, c in blocks[f].items() if c > 0)
        tot_s += st
        tot_c += cv
        rep.append("== %s: %d/%d statements covered (%.1f%%)" % (f, cv, st, 100.0 * cv / max(st, 1)))
        # enclosing function of each uncovered block
        funcs = [(i + 1, re.match(r"func\s+(\([^)]*\)\s*)?([A-Za-z0-9_]+)", s)) for i, s in enumerate(src)]
        funcs = [(i, (m.group(1) or "").strip() + m.group(2)) for i, m in funcs if m]
        for (a, b, n), c in sorted(blocks[f].items()):
            if c == 0 and n > 0:
                fn = ""
                for i, name in funcs:
                    if i <= a:
                        fn = name
                rep.append("  %s:%d-%d (%d stmts) in %s | %s" % (f, a, b, n, fn, src[a - 1].strip()[:90]))
    rep.insert(0, "%s: anchored files %d/%d statements covered (%.1f%%), tier=%s seed=%s" %
               (pid, tot_c, tot_s, 100.0 * tot_c / max(tot_s, 1), args.tier, args.seed))
    open(os.path.join(out, "uncovered.txt"), "w").write("\n".join(rep) + "\n")
    print(rep[0])
    print("\n".join(r for r in rep if r.startswith("==")))
    shutil.rmtree(os.path.join(out, "data"), ignore_errors=True)
    for k in keys:
        os.remove(os.path.join(out, "vh-" + k))


if __name__ == "__main__":
    main()
