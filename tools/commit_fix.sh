#!/bin/sh
# usage: commit_fix.sh "<message starting with fix:>" <diff>...
# Stages exactly the given diff(s) (already applied to /repo's working tree) and commits them.
set -e
msg="$1"; shift
cd /repo
for d in "$@"; do
  git apply --cached "$d"
done
git commit -q -m "$msg"
git log --oneline -1
