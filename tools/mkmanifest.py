#!/usr/bin/env python3
"""Regenerates MANIFEST.json from props/*.py (one CONFIG per claimed property)
and tools/not_applicable.json."""
import importlib, json, os, re, sys
ROOT = os.path.dirname(os.path.dirname(os.path.abspath(__file__)))
sys.path.insert(0, os.path.join(ROOT, "props"))
ids = [json.loads(l)["id"] for l in open(os.path.join(ROOT, "properties.jsonl"))]
checks, claimed = [], set()
for f in sorted(os.listdir(os.path.join(ROOT, "props"))):
    if re.match(r"C\d+\.py$", f):
        pid = f[:-3]
        c = dict(importlib.import_module(pid).CONFIG)
        claimed.add(pid)
        # parts of the property (props/CNNx.py with part_of = CNN) extend its texts
        for g in sorted(os.listdir(os.path.join(ROOT, "props"))):
            if re.match(pid + r"[A-Z]+\.py$", g):
                pc = importlib.import_module(g[:-3]).CONFIG
                if pc.get("part_of") == pid:
                    c["level_text"] = c["level_text"] + " PART " + g[:-3] + ": " + pc.get("level_text", "")
                    c["level_note"] = c["level_note"] + " PART " + g[:-3] + ": " + pc.get("level_note", "")
        checks.append({
            "property_id": pid,
            "quick_cmd": "./check %s --tier quick" % pid,
            "thorough_cmd": "./check %s --tier thorough" % pid,
            "evidence_file": "/verif/evidence/%s.json" % pid,
            "replay_cmd_template": "./check %s --replay {path}" % pid,
            "engine": "coq-model+correspondence",
            "level_claimed": {"category": c.get("level", "proof"), "text": c["level_text"], "design_ref": c.get("design_ref", "DESIGN.md section 4, " + pid)},
            "level_note": c["level_note"],
            "technique": c.get("technique", "machine-checked proof in Coq 8.16.1 about an executable model; model tied to the code by differential correspondence (extracted model vs implementation) and a regenerating translator"),
        })
na_path = os.path.join(ROOT, "tools", "not_applicable.json")
na_reasons = json.load(open(na_path)) if os.path.exists(na_path) else {}
na = [{"property_id": i, "reason": na_reasons.get(i, "no check registered yet: model and proofs for this property are not built in this revision (see DESIGN.md section 4)")} for i in ids if i not in claimed]
hooks_path = os.path.join(ROOT, "tools", "hook_commits.json")
hook_commits = json.load(open(hooks_path)) if os.path.exists(hooks_path) else []
m = {
    "version": 1,
    "setup_cmd": "./check --setup",
    "hooks": {
        "guard": "verif",
        "enable": "go build -tags verif (the harness module /verif/harness replaces seehuhn.de/go/sfnt by /repo and is built with -tags verif on every check)",
        "baseline_off_cmd": "cd /repo && go test -mod=mod -vet=off -count=1 -timeout 25m ./...",
        "source_commits": hook_commits,
        "add_only": True,
    },
    "engines": [{
        "name": "coq-model+correspondence", "path": "/verif/check",
        "serves_properties": sorted(claimed),
        "kind_free_text": "Coq 8.16.1 development under /verif/coq (Model/Proofs/Props per property, Gen/ regenerated from the Go source on every run), model extracted to OCaml and compared with the Go implementation on generated and corpus inputs; property oracle in the Go harness searches for a failing input when a proof or the correspondence breaks",
    }],
    "checks": checks,
    "not_applicable": na,
    "notes": "See DESIGN.md. known_findings.json lists genuine defects (open / fixed).",
}
json.dump(m, open(os.path.join(ROOT, "MANIFEST.json"), "w"), indent=1)

# known_findings.json = merge of findings/Cxx.json (one list of entries per property)
fc_path = os.path.join(ROOT, "tools", "fix_commits.json")
fix_commits = json.load(open(fc_path)) if os.path.exists(fc_path) else {}
fd = os.path.join(ROOT, "findings")
allf = []
if os.path.isdir(fd):
    for f in sorted(os.listdir(fd)):
        if f.endswith(".json"):
            for e in json.load(open(os.path.join(fd, f))):
                # fixed findings name the fix: commit in /repo (tools/fix_commits.json)
                fx = os.path.basename(e.get("fix", "") or "")
                if e.get("status") == "fixed" and fx and fix_commits.get(fx):
                    e["commit"] = fix_commits[fx].split()[0]
                    e["fixed"] = "fixed: property=%s %s %s" % (e.get("property"), e["commit"], e.get("what", "")[:200])
                allf.append(e)
json.dump({
    "comment": "Genuine defects of seehuhn/go-sfnt found by the checks. status=open: recorded, not repaired (the check prints KNOWN-FINDING and exits 0 for exactly this signature); status=fixed: repaired by the named fix: commit in /repo (suppresses nothing: the violation is reported again if it returns). Assembled from findings/*.json by tools/mkmanifest.py; never written at run time.",
    "findings": allf,
}, open(os.path.join(ROOT, "known_findings.json"), "w"), indent=1)
print("MANIFEST.json: %d checks, %d not claimed" % (len(checks), len(na)))
