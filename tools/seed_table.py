#!/usr/bin/env python3
"""Rewrites section 9 of DESIGN.md (between the markers) from seeded/*/meta.json."""
import json, os, re
ROOT = os.path.dirname(os.path.dirname(os.path.abspath(__file__)))
rows = []
for d in sorted(os.listdir(os.path.join(ROOT, "seeded"))):
    p = os.path.join(ROOT, "seeded", d, "meta.json")
    if os.path.exists(p):
        m = json.load(open(p))
        rows.append(m)
out = ["<!-- SEED-TABLE-BEGIN -->", ""]
out.append("Each entry: `seeded/<id>/patch.diff` (the change), `demo/` (fails with the change, passes without), `meta.json`.")
out.append("All changes compile, pass the repository's own test suite, and were produced by fresh sub-agents that saw only the property text.")
out.append("")
missed_first = 0
for m in rows:
    det = m["detected"]
    low = det.lower()
    if "MISSED" in det or low.startswith("missed first") or low.startswith("missed") or "no-failing-input-found" in det.split("Strengthened")[0].split("Now")[0] and "first run" in det:
        missed_first += 1
    out.append("* **%s** (%s) — breaks: %s.  Needs: %s.  **Result:** %s" % (m["seed"], m["property"], m["breaks"], m["needs_to_manifest"], det))
out.append("")
out.append("%d seeded changes; %d of them were missed or only marginally caught by the first version of the check and led to the strengthenings described in their entries." % (len(rows), missed_first))
out.append("")
out.append("<!-- SEED-TABLE-END -->")
p = os.path.join(ROOT, "DESIGN.md")
s = open(p).read()
block = "\n".join(out)
if "<!-- SEED-TABLE-BEGIN -->" in s:
    s = re.sub(r"<!-- SEED-TABLE-BEGIN -->.*?<!-- SEED-TABLE-END -->", lambda _: block, s, flags=re.S)
else:
    s += "\n\n## 9. Seeded changes and which checks catch them\n\n" + block + "\n"
# section 10: genuine defects
kf = json.load(open(os.path.join(ROOT, "known_findings.json")))["findings"]
out = ["<!-- FINDINGS-BEGIN -->", ""]
out.append("Generated from `known_findings.json` (= merge of `findings/CNN.json`).  *fixed* = repaired by the named `fix:` commit in /repo (one minimal unguarded commit each; the check suppresses nothing for it and reports the violation again if it returns; the pre-fix witness is in `corpus/CNN/`).  *open* = recorded, not repaired, with the reason; the check prints `KNOWN-FINDING:` for exactly that signature and still exits 1 for any other violation.")
out.append("")
for st in ("open", "fixed"):
    out.append("**%s**" % st)
    out.append("")
    for e in kf:
        if e.get("status") != st:
            continue
        c = (" — commit " + e["commit"]) if e.get("commit") else ""
        out.append("* %s `%s`%s: %s" % (e["property"], e.get("signature", ""), c, " ".join(str(e.get("what", "")).split())[:600]))
    out.append("")
out.append("<!-- FINDINGS-END -->")
block = "\n".join(out)
if "<!-- FINDINGS-BEGIN -->" in s:
    s = re.sub(r"<!-- FINDINGS-BEGIN -->.*?<!-- FINDINGS-END -->", lambda _: block, s, flags=re.S)
else:
    s += "\n\n## 10. Genuine defects found (known findings)\n\n" + block + "\n"
open(p, "w").write(s)
print(len(rows), "seeds;", missed_first, "missed at first;", len(kf), "findings")
