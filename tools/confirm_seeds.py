#!/usr/bin/env python3
"""Final confirmation of the seeded changes against /repo itself:

    for every seeded/<id>:  git -C /repo apply patch.diff ; ./check <property> ; git -C /repo checkout -- .

Writes the outcome into seeded/<id>/meta.json ("confirmed_in_repo").  Refuses to
run when /repo has uncommitted changes to tracked files.
"""
import json, os, subprocess, sys, time

ROOT = os.path.dirname(os.path.dirname(os.path.abspath(__file__)))


ENV = dict(os.environ, VERIF_NO_EVIDENCE="1")  # evidence files must come from the unchanged tree


def sh(cmd, cwd=None, timeout=3600):
    p = subprocess.run(cmd, cwd=cwd, shell=isinstance(cmd, str), timeout=timeout, env=ENV,
                       stdout=subprocess.PIPE, stderr=subprocess.STDOUT, text=True)
    return p.returncode, p.stdout


def main():
    only = set(sys.argv[1:])
    rc, out = sh("git -C /repo status --porcelain --untracked-files=no")
    if out.strip():
        raise SystemExit("/repo has uncommitted changes to tracked files:\n" + out)
    head = sh("git -C /repo rev-parse --short HEAD")[1].strip()
    sd = os.path.join(ROOT, "seeded")
    for sid in sorted(os.listdir(sd)):
        if only and sid not in only:
            continue
        mp = os.path.join(sd, sid, "meta.json")
        patch = os.path.join(sd, sid, "patch.diff")
        if not (os.path.exists(mp) and os.path.exists(patch)):
            continue
        meta = json.load(open(mp))
        pid = meta["property"]
        rc, out = sh(["git", "-C", "/repo", "apply", "--check", patch])
        if rc != 0:
            meta["confirmed_in_repo"] = {"head": head, "applies": False,
                                         "note": "patch no longer applies to the final tree (a later fix: commit touched the same lines): " + out.strip()[:200]}
            json.dump(meta, open(mp, "w"), indent=1)
            print("%s: does not apply to %s" % (sid, head))
            continue
        sh(["git", "-C", "/repo", "apply", patch])
        t0 = time.time()
        try:
            rc, out = sh(["./check", pid, "--tier", "quick"], cwd=ROOT)
        finally:
            sh("git -C /repo checkout -- .")
        lines = [l for l in out.splitlines() if l.startswith(("VIOLATION", "BROKEN")) or " tier=" in l]
        meta["confirmed_in_repo"] = {"head": head, "applies": True, "check": "./check %s --tier quick" % pid,
                                     "exit": rc, "wall_s": round(time.time() - t0),
                                     "output": [l[:300] for l in lines[:6]]}
        json.dump(meta, open(mp, "w"), indent=1)
        print("%s: ./check %s -> exit %d (%ds) %s" % (sid, pid, rc, time.time() - t0,
                                                      "; ".join(l[:90] for l in lines if l.startswith("VIOLATION"))[:200]))
    rc, out = sh("git -C /repo status --porcelain --untracked-files=no")
    print("repo clean" if not out.strip() else "REPO NOT CLEAN:\n" + out)


if __name__ == "__main__":
    main()
