module verif/translators

go 1.23
