// Translator kinds added for part C17B (parser.Parser as generated Coq
// functions): a small imperative-to-functional translator for the method bodies
// of one struct type.
//
//	c17b_runtime  fixed text: the runtime the generated functions are written
//	              in (Go integer wrap-around, slices by value, errors, the
//	              scripted io.ReadSeeker, the control operators); not derived
//	              from the source
//	c17b_struct   the struct type `name` -> a Coq record `name` with one field
//	              g_<field> per Go field, in declaration order, and the setters
//	              set_g_<field>
//	c17b_methods  ALL functions of the package whose receiver is *name / name, and
//	              the receiver-less functions returning *name, in dependency order,
//	              each as `Definition name_<method> (fuel : nat) (st : name)
//	              (params) : mres name <results>`, plus the list of their names
//	              (name_methods : list string)
//
// Go fragment understood by c17b_methods (everything else makes the item fail,
// so that Gen/C17B.v loses every method and the proofs no longer compile):
//
//	types        int int64 (64 bit), int8..int32, uint8/byte..uint64, bool, error,
//	             []byte / []uintN (by value), the interface type of the reader
//	             field, *name (the threaded state)
//	expressions  integer literals and package constants; locals and parameters;
//	             recv.field; conversions T(e) between integer types (emitted as
//	             wrap_u / wrap_s where the value range is not contained); + - *
//	             (wrapped at the operand type), << >> by a constant, | & ^; the six
//	             comparisons on integers; err == nil, err != nil, err == io.EOF,
//	             err != io.EOF; && || ! (no panicking or calling operand on the
//	             right of && / ||); len(s); s[i], s[a:b], s[a:], s[:b] of a local
//	             slice or a slice field (bounds-checked, Panic outcome); nil,
//	             io.EOF, io.ErrUnexpectedEOF, io.SeekStart; recv.M(args) for a
//	             method of the same type with ONE result, provided the other
//	             operands of the expression read no field of recv;
//	             recv.<reader>.Size()
//	statements   x := e, x = e, x op= e, x++ / x-- (locals, parameters, recv.field,
//	             s[i] of a local slice); x := make([]T, e); k := copy(dst, src) /
//	             copy(dst, src) with dst a local slice or a slice field; v := &name{
//	             field: e, ...} (the state variable of a constructor); a, b :=
//	             recv.M(args) (also with _); n, err := recv.<reader>.Read(s[a:b])
//	             with s a slice field or local (the bytes delivered are written back
//	             into s); _, err := recv.<reader>.Seek(e, io.SeekStart); if / else
//	             if / else without init statement; `for cond { }` (fuelled, pure
//	             condition); `for i := range s { }` (structural); return ...;
//	             return recv.M(args); panic(...)
//	aliasing     slices are values with cap = len: a slice FIELD is only ever
//	             given make([]T, n) or nil (copy and Read write into it in
//	             place); a slice obtained from a method call or cut from a slice
//	             field (x := recv.f[a:b]) is a VALUE snapshot: using it after a
//	             later call on the same receiver or after a write to a slice
//	             field is refused, so is slicing it again and copying it to
//	             another variable; a []byte PARAMETER is an out-parameter: only
//	             len, copy(p, src), p[i] and p = p[e:] are understood and the
//	             caller-visible contents are appended to the results
//
// Not understood (examples): break / continue / goto / switch / defer / go,
// three-clause for loops, range with a value variable, closures, maps, strings,
// pointers other than the receiver, multiple state variables, recursion.
package main

import (
	"fmt"
	"go/ast"
	"go/token"
	"sort"
	"strings"
)

func init() {
	kinds["c17b_runtime"] = kindC17BRuntime
	kinds["c17b_struct"] = kindC17BStruct
	kinds["c17b_methods"] = kindC17BMethods
}

func kindC17BRuntime(root string, p *pkgInfo, it item) (string, error) {
	return c17bRuntimeText, nil
}

// ---------------------------------------------------------------- types

type c17bTy struct {
	k      string // "int", "bool", "err", "slice", "reader", "state", "untyped"
	bits   int
	signed bool
	elem   *c17bTy
}

func (t c17bTy) coq() string {
	switch t.k {
	case "int", "untyped":
		return "Z"
	case "bool":
		return "bool"
	case "err":
		return "gerr"
	case "slice":
		return "(list Z)"
	case "reader":
		return "reader"
	}
	return "?"
}

func (t c17bTy) zero() string {
	switch t.k {
	case "int", "untyped":
		return "0"
	case "bool":
		return "false"
	case "err":
		return "ENil"
	case "slice":
		return "[]"
	}
	return "?"
}

type c17bCtx struct {
	p          *pkgInfo
	structName string
	readerType string // name of the interface type of the reader field
	fields     []string
	fieldTy    map[string]c17bTy
}

func (c *c17bCtx) parseType(e ast.Expr) (c17bTy, error) {
	switch x := e.(type) {
	case *ast.Ident:
		switch x.Name {
		case "int", "int64":
			return c17bTy{k: "int", bits: 64, signed: true}, nil
		case "int32", "rune":
			return c17bTy{k: "int", bits: 32, signed: true}, nil
		case "int16":
			return c17bTy{k: "int", bits: 16, signed: true}, nil
		case "int8":
			return c17bTy{k: "int", bits: 8, signed: true}, nil
		case "uint64", "uint":
			return c17bTy{k: "int", bits: 64}, nil
		case "uint32":
			return c17bTy{k: "int", bits: 32}, nil
		case "uint16":
			return c17bTy{k: "int", bits: 16}, nil
		case "uint8", "byte":
			return c17bTy{k: "int", bits: 8}, nil
		case "bool":
			return c17bTy{k: "bool"}, nil
		case "error":
			return c17bTy{k: "err"}, nil
		}
		if x.Name == c.readerType && c.readerType != "" {
			return c17bTy{k: "reader"}, nil
		}
	case *ast.ArrayType:
		if x.Len == nil {
			el, err := c.parseType(x.Elt)
			if err == nil && el.k == "int" {
				return c17bTy{k: "slice", elem: &el}, nil
			}
		}
	case *ast.StarExpr:
		if id, ok := x.X.(*ast.Ident); ok && id.Name == c.structName {
			return c17bTy{k: "state"}, nil
		}
	}
	return c17bTy{}, fmt.Errorf("unsupported type %s", c.p.exprText(e))
}

func c17bFindStruct(p *pkgInfo, name string) (*ast.StructType, error) {
	for _, f := range p.files {
		for _, d := range f.Decls {
			gd, ok := d.(*ast.GenDecl)
			if !ok || gd.Tok != token.TYPE {
				continue
			}
			for _, s := range gd.Specs {
				ts := s.(*ast.TypeSpec)
				if ts.Name.Name != name {
					continue
				}
				st, ok := ts.Type.(*ast.StructType)
				if !ok {
					return nil, fmt.Errorf("%s is not a struct type", name)
				}
				return st, nil
			}
		}
	}
	return nil, fmt.Errorf("type %s not found", name)
}

// c17bIsReaderIface: an interface type embedding io.ReadSeeker and declaring
// Size() int64 (the shape the runtime's reader implements).
func c17bIsReaderIface(p *pkgInfo, name string) bool {
	for _, f := range p.files {
		for _, d := range f.Decls {
			gd, ok := d.(*ast.GenDecl)
			if !ok || gd.Tok != token.TYPE {
				continue
			}
			for _, s := range gd.Specs {
				ts := s.(*ast.TypeSpec)
				it, ok := ts.Type.(*ast.InterfaceType)
				if ts.Name.Name != name || !ok {
					continue
				}
				var parts []string
				for _, m := range it.Methods.List {
					txt := p.exprText(m.Type)
					for _, n := range m.Names {
						txt = n.Name + " " + txt
					}
					parts = append(parts, txt)
				}
				sort.Strings(parts)
				return strings.Join(parts, ";") == "Size func() int64;io.ReadSeeker"
			}
		}
	}
	return false
}

func c17bNewCtx(p *pkgInfo, name string) (*c17bCtx, error) {
	st, err := c17bFindStruct(p, name)
	if err != nil {
		return nil, err
	}
	c := &c17bCtx{p: p, structName: name, fieldTy: map[string]c17bTy{}}
	for _, f := range st.Fields.List {
		if len(f.Names) == 0 {
			return nil, fmt.Errorf("embedded field in %s", name)
		}
		if id, ok := f.Type.(*ast.Ident); ok && c17bIsReaderIface(p, id.Name) {
			if c.readerType != "" && c.readerType != id.Name {
				return nil, fmt.Errorf("two reader types")
			}
			c.readerType = id.Name
		}
		ty, err := c.parseType(f.Type)
		if err != nil {
			return nil, err
		}
		if ty.k == "state" {
			return nil, fmt.Errorf("recursive struct")
		}
		for _, n := range f.Names {
			c.fields = append(c.fields, n.Name)
			c.fieldTy[n.Name] = ty
		}
	}
	return c, nil
}

func kindC17BStruct(root string, p *pkgInfo, it item) (string, error) {
	c, err := c17bNewCtx(p, it.Name)
	if err != nil {
		return "", err
	}
	var b strings.Builder
	fmt.Fprintf(&b, "Record %s : Type := mk%s {", it.Name, it.Name)
	for i, f := range c.fields {
		if i > 0 {
			b.WriteString(";")
		}
		fmt.Fprintf(&b, " g_%s : %s", f, strings.Trim(c.fieldTy[f].coq(), "()"))
	}
	b.WriteString(" }.\n")
	for i, f := range c.fields {
		fmt.Fprintf(&b, "Definition set_g_%s (st : %s) (x : %s) : %s := mk%s", f, it.Name, strings.Trim(c.fieldTy[f].coq(), "()"), it.Name, it.Name)
		for j, g := range c.fields {
			if i == j {
				b.WriteString(" x")
			} else {
				fmt.Fprintf(&b, " (g_%s st)", g)
			}
		}
		b.WriteString(".\n")
	}
	return b.String(), nil
}

// ---------------------------------------------------------------- functions

type c17bSig struct {
	fd       *ast.FuncDecl
	name     string // Go name
	coq      string
	recv     string // receiver variable ("" for a constructor)
	params   []string
	ptys     []c17bTy
	results  []c17bTy // without the state
	retState bool     // constructor: the single result is the state
	outs     []string // slice parameters (out-parameters)
	calls    map[string]bool
}

type c17bVar struct {
	goName  string
	coq     string
	ty      c17bTy
	alias   bool // slice snapshot obtained from a method call
	invalid bool
	out     bool // slice parameter
}

type c17bTr struct {
	c      *c17bCtx
	sigs   map[string]*c17bSig
	sig    *c17bSig
	stVar  string
	scopes []map[string]*c17bVar
	order  []*c17bVar // visible declarations in order
	tmp    int
	pre    []string
	// set by the make([]T, n) statement for the assignment it performs
	fromMake bool
}

func (t *c17bTr) errf(n ast.Node, f string, a ...interface{}) error {
	pos := t.c.p.fset.Position(n.Pos())
	return fmt.Errorf("%s line %d: %s", t.sig.name, pos.Line, fmt.Sprintf(f, a...))
}

func (t *c17bTr) fresh() string {
	t.tmp++
	return fmt.Sprintf("t%d", t.tmp)
}

func (t *c17bTr) lookup(name string) *c17bVar {
	for i := len(t.scopes) - 1; i >= 0; i-- {
		if v, ok := t.scopes[i][name]; ok {
			return v
		}
	}
	return nil
}

func (t *c17bTr) push() { t.scopes = append(t.scopes, map[string]*c17bVar{}) }
func (t *c17bTr) pop() {
	top := t.scopes[len(t.scopes)-1]
	t.scopes = t.scopes[:len(t.scopes)-1]
	var keep []*c17bVar
	for _, v := range t.order {
		if top[v.goName] != v {
			keep = append(keep, v)
		}
	}
	t.order = keep
}

func (t *c17bTr) declare(name string, ty c17bTy) *c17bVar {
	coq := "v_" + name
	if t.lookup(name) != nil {
		t.tmp++
		coq = fmt.Sprintf("v_%s_%d", name, t.tmp)
	}
	v := &c17bVar{goName: name, coq: coq, ty: ty}
	t.scopes[len(t.scopes)-1][name] = v
	t.order = append(t.order, v)
	return v
}

// flush wraps inner into the pending bindings (outermost first) and clears them.
func (t *c17bTr) flush(inner string) string {
	pre := t.pre
	t.pre = nil
	return c17bWrap(pre, inner)
}

func c17bWrap(pre []string, inner string) string {
	s := inner
	for i := len(pre) - 1; i >= 0; i-- {
		s = pre[i] + "\n" + s + ")"
	}
	return s
}

func (t *c17bTr) invalidateAliases() {
	for _, v := range t.order {
		if v.alias {
			v.invalid = true
		}
	}
}

func c17bWrapInt(ty c17bTy, e string) string {
	if ty.k != "int" {
		return e
	}
	if ty.signed {
		return fmt.Sprintf("(wrap_s %d %s)", ty.bits, e)
	}
	return fmt.Sprintf("(wrap_u %d %s)", ty.bits, e)
}

// contained: every value of type a is a value of type b
func c17bContained(a, b c17bTy) bool {
	if a.k != "int" || b.k != "int" {
		return false
	}
	if a.signed == b.signed {
		return a.bits <= b.bits
	}
	return !a.signed && b.signed && a.bits < b.bits
}

func (t *c17bTr) isRecv(e ast.Expr) bool {
	id, ok := e.(*ast.Ident)
	return ok && t.stVar != "" && id.Name == t.stVar
}

// readerCall recognises recv.<readerfield>.<Method>(...)
func (t *c17bTr) readerCall(ce *ast.CallExpr) (string, bool) {
	se, ok := ce.Fun.(*ast.SelectorExpr)
	if !ok {
		return "", false
	}
	in, ok := se.X.(*ast.SelectorExpr)
	if !ok || !t.isRecv(in.X) {
		return "", false
	}
	if ty, ok := t.c.fieldTy[in.Sel.Name]; !ok || ty.k != "reader" {
		return "", false
	}
	return se.Sel.Name, true
}

func (t *c17bTr) readerField(ce *ast.CallExpr) string {
	return ce.Fun.(*ast.SelectorExpr).X.(*ast.SelectorExpr).Sel.Name
}

// methodCall recognises recv.M(...) for a method of the struct
func (t *c17bTr) methodCall(ce *ast.CallExpr) (*c17bSig, bool) {
	se, ok := ce.Fun.(*ast.SelectorExpr)
	if !ok || !t.isRecv(se.X) {
		return nil, false
	}
	s, ok := t.sigs[se.Sel.Name]
	if !ok || s.recv == "" {
		return nil, false
	}
	return s, true
}

func c17bReadsField(e ast.Expr, recv string) bool {
	found := false
	ast.Inspect(e, func(n ast.Node) bool {
		if ce, ok := n.(*ast.CallExpr); ok {
			// the receiver position of a method call is not a field read
			if se, ok := ce.Fun.(*ast.SelectorExpr); ok {
				if id, ok := se.X.(*ast.Ident); ok && id.Name == recv {
					for _, a := range ce.Args {
						if c17bReadsField(a, recv) {
							found = true
						}
					}
					return false
				}
			}
		}
		if se, ok := n.(*ast.SelectorExpr); ok {
			if id, ok := se.X.(*ast.Ident); ok && id.Name == recv {
				found = true
			}
		}
		return true
	})
	return found
}

func c17bHasMethodCall(e ast.Node, recv string) bool {
	found := false
	ast.Inspect(e, func(n ast.Node) bool {
		if ce, ok := n.(*ast.CallExpr); ok {
			if se, ok := ce.Fun.(*ast.SelectorExpr); ok {
				if id, ok := se.X.(*ast.Ident); ok && id.Name == recv {
					found = true
				}
				if in, ok := se.X.(*ast.SelectorExpr); ok {
					if id, ok := in.X.(*ast.Ident); ok && id.Name == recv {
						found = true // a call on a field of the receiver (the reader)
					}
				}
			}
		}
		return true
	})
	return found
}

// callArgs translates the arguments of a method call against its signature.
func (t *c17bTr) callArgs(ce *ast.CallExpr, s *c17bSig) (string, error) {
	if len(ce.Args) != len(s.params) {
		return "", t.errf(ce, "argument count of %s", s.name)
	}
	var parts []string
	for i, a := range ce.Args {
		if s.ptys[i].k == "slice" {
			// an out-parameter is handed over by value: a local slice variable only
			id, ok := a.(*ast.Ident)
			if !ok {
				return "", t.errf(a, "slice argument is not a variable")
			}
			_ = id
		}
		x, ty, err := t.expr(a, &s.ptys[i])
		if err != nil {
			return "", err
		}
		_ = ty
		parts = append(parts, x)
	}
	if len(parts) == 0 {
		return "", nil
	}
	return " " + strings.Join(parts, " "), nil
}

// sliceOperand: a local slice variable or a slice field, as a pure term
func (t *c17bTr) sliceOperand(e ast.Expr) (string, c17bTy, error) {
	switch x := e.(type) {
	case *ast.ParenExpr:
		return t.sliceOperand(x.X)
	case *ast.Ident:
		v := t.lookup(x.Name)
		if v == nil || v.ty.k != "slice" {
			return "", c17bTy{}, t.errf(e, "%s is not a local slice", x.Name)
		}
		if v.invalid {
			return "", c17bTy{}, t.errf(e, "slice %s (a snapshot of the receiver's buffer) is used after a later call on the receiver", x.Name)
		}
		return v.coq, v.ty, nil
	case *ast.SelectorExpr:
		if t.isRecv(x.X) {
			if ty, ok := t.c.fieldTy[x.Sel.Name]; ok && ty.k == "slice" {
				return fmt.Sprintf("(g_%s st)", x.Sel.Name), ty, nil
			}
		}
	}
	return "", c17bTy{}, t.errf(e, "unsupported slice operand %s", t.c.p.exprText(e))
}

// expr translates an expression; panicking / calling subexpressions are hoisted
// into t.pre in evaluation order.
func (t *c17bTr) expr(e ast.Expr, want *c17bTy) (string, c17bTy, error) {
	p := t.c.p
	switch x := e.(type) {
	case *ast.ParenExpr:
		return t.expr(x.X, want)
	case *ast.BasicLit:
		if x.Kind == token.INT || x.Kind == token.CHAR {
			v, err := p.evalInt(x, 0)
			if err != nil {
				return "", c17bTy{}, t.errf(e, "%v", err)
			}
			return c17bLit(v), c17bTy{k: "untyped"}, nil
		}
	case *ast.Ident:
		switch x.Name {
		case "true", "false":
			return x.Name, c17bTy{k: "bool"}, nil
		case "nil":
			if want == nil {
				return "", c17bTy{}, t.errf(e, "nil without a known type")
			}
			switch want.k {
			case "slice":
				return "[]", *want, nil
			case "err":
				return "ENil", *want, nil
			}
			return "", c17bTy{}, t.errf(e, "nil of unsupported type")
		}
		if v := t.lookup(x.Name); v != nil {
			if v.invalid {
				return "", c17bTy{}, t.errf(e, "slice %s (a snapshot of the receiver's buffer) is used after a later call on the receiver", x.Name)
			}
			if v.out {
				return "", c17bTy{}, t.errf(e, "slice parameter %s used as a value", x.Name)
			}
			return v.coq, v.ty, nil
		}
		if x.Name == t.stVar {
			return "", c17bTy{}, t.errf(e, "the receiver is used as a value")
		}
		if _, gd, _ := p.findValue(x.Name); gd != nil && gd.Tok == token.CONST {
			v, err := p.evalInt(x, 0)
			if err != nil {
				return "", c17bTy{}, t.errf(e, "%v", err)
			}
			return c17bLit(v), c17bTy{k: "untyped"}, nil
		}
		return "", c17bTy{}, t.errf(e, "unknown identifier %s", x.Name)
	case *ast.SelectorExpr:
		if t.isRecv(x.X) {
			ty, ok := t.c.fieldTy[x.Sel.Name]
			if !ok {
				return "", c17bTy{}, t.errf(e, "unknown field %s", x.Sel.Name)
			}
			if ty.k == "reader" {
				return "", c17bTy{}, t.errf(e, "the reader is used as a value")
			}
			return fmt.Sprintf("(g_%s st)", x.Sel.Name), ty, nil
		}
		switch p.exprText(x) {
		case "io.EOF":
			return "EEOF", c17bTy{k: "err"}, nil
		case "io.ErrUnexpectedEOF":
			return "EUnexpectedEOF", c17bTy{k: "err"}, nil
		case "io.SeekStart":
			return "0", c17bTy{k: "untyped"}, nil
		}
	case *ast.CallExpr:
		if id, ok := x.Fun.(*ast.Ident); ok && t.lookup(id.Name) == nil {
			switch id.Name {
			case "len":
				if len(x.Args) != 1 {
					break
				}
				if aid, ok := x.Args[0].(*ast.Ident); ok {
					if v := t.lookup(aid.Name); v != nil && v.out {
						return fmt.Sprintf("(zlen %s)", v.coq), c17bTy{k: "int", bits: 64, signed: true}, nil
					}
				}
				s, _, err := t.sliceOperand(x.Args[0])
				if err != nil {
					return "", c17bTy{}, err
				}
				return fmt.Sprintf("(zlen %s)", s), c17bTy{k: "int", bits: 64, signed: true}, nil
			}
			// conversion
			if ty, err := t.c.parseType(id); err == nil && ty.k == "int" && len(x.Args) == 1 {
				a, aty, err := t.expr(x.Args[0], &ty)
				if err != nil {
					return "", c17bTy{}, err
				}
				if aty.k != "int" && aty.k != "untyped" {
					return "", c17bTy{}, t.errf(e, "conversion of a non-integer")
				}
				if aty.k == "int" && c17bContained(aty, ty) {
					return a, ty, nil
				}
				return c17bWrapInt(ty, a), ty, nil
			}
		}
		if name, ok := t.readerCall(x); ok && name == "Size" && len(x.Args) == 0 {
			return fmt.Sprintf("(r_size (g_%s st))", t.readerField(x)), c17bTy{k: "int", bits: 64, signed: true}, nil
		}
		if s, ok := t.methodCall(x); ok {
			if len(s.results) != 1 || len(s.outs) != 0 || s.retState {
				return "", c17bTy{}, t.errf(e, "method %s in an expression does not have exactly one result", s.name)
			}
			args, err := t.callArgs(x, s)
			if err != nil {
				return "", c17bTy{}, err
			}
			t.invalidateAliases()
			tn := t.fresh()
			t.pre = append(t.pre, fmt.Sprintf("mbind (%s fuel st%s) (fun st %s =>", s.coq, args, tn))
			return tn, s.results[0], nil
		}
	case *ast.IndexExpr:
		if id, ok := x.X.(*ast.Ident); ok {
			if v := t.lookup(id.Name); v != nil && v.out {
				i, _, err := t.expr(x.Index, nil)
				if err != nil {
					return "", c17bTy{}, err
				}
				tn := t.fresh()
				t.pre = append(t.pre, fmt.Sprintf("pbind st (go_index %s %s) (fun %s =>", v.coq, i, tn))
				return tn, *v.ty.elem, nil
			}
		}
		s, sty, err := t.sliceOperand(x.X)
		if err != nil {
			return "", c17bTy{}, err
		}
		i, _, err := t.expr(x.Index, nil)
		if err != nil {
			return "", c17bTy{}, err
		}
		tn := t.fresh()
		t.pre = append(t.pre, fmt.Sprintf("pbind st (go_index %s %s) (fun %s =>", s, i, tn))
		return tn, *sty.elem, nil
	case *ast.SliceExpr:
		if x.Slice3 {
			break
		}
		s, sty, err := t.sliceOperand(x.X)
		if err != nil {
			return "", c17bTy{}, err
		}
		// slices are modelled with cap = len: true of make([]T, n) results (the only
		// values a slice field or local is ever given) but not of a snapshot
		if id, ok := x.X.(*ast.Ident); ok {
			if v := t.lookup(id.Name); v != nil && v.alias {
				return "", c17bTy{}, t.errf(e, "slice expression of %s, a snapshot whose capacity is not modelled", id.Name)
			}
		}
		lo, hi := "0", fmt.Sprintf("(zlen %s)", s)
		if x.Low != nil {
			if lo, _, err = t.expr(x.Low, nil); err != nil {
				return "", c17bTy{}, err
			}
		}
		if x.High != nil {
			if hi, _, err = t.expr(x.High, nil); err != nil {
				return "", c17bTy{}, err
			}
		}
		tn := t.fresh()
		t.pre = append(t.pre, fmt.Sprintf("pbind st (go_slice %s %s %s) (fun %s =>", s, lo, hi, tn))
		return tn, sty, nil
	case *ast.UnaryExpr:
		a, aty, err := t.expr(x.X, want)
		if err != nil {
			return "", c17bTy{}, err
		}
		switch x.Op {
		case token.NOT:
			if aty.k == "bool" {
				return fmt.Sprintf("(negb %s)", a), aty, nil
			}
		case token.SUB:
			if aty.k == "int" {
				return c17bWrapInt(aty, fmt.Sprintf("(- %s)", a)), aty, nil
			}
			if aty.k == "untyped" {
				return fmt.Sprintf("(- %s)", a), aty, nil
			}
		}
	case *ast.BinaryExpr:
		return t.binary(x, want)
	}
	return "", c17bTy{}, t.errf(e, "unsupported expression %s", p.exprText(e))
}

func c17bLit(v int64) string {
	if v < 0 {
		return fmt.Sprintf("(%d)", v)
	}
	return fmt.Sprintf("%d", v)
}

func (t *c17bTr) binary(x *ast.BinaryExpr, want *c17bTy) (string, c17bTy, error) {
	p := t.c.p
	boolTy := c17bTy{k: "bool"}
	switch x.Op {
	case token.LAND, token.LOR:
		a, aty, err := t.expr(x.X, &boolTy)
		if err != nil {
			return "", c17bTy{}, err
		}
		n := len(t.pre)
		b, bty, err := t.expr(x.Y, &boolTy)
		if err != nil {
			return "", c17bTy{}, err
		}
		if len(t.pre) != n {
			return "", c17bTy{}, t.errf(x, "the right operand of %s may panic or calls a method", x.Op)
		}
		if aty.k != "bool" || bty.k != "bool" {
			return "", c17bTy{}, t.errf(x, "non-boolean operand of %s", x.Op)
		}
		op := "&&"
		if x.Op == token.LOR {
			op = "||"
		}
		return fmt.Sprintf("(%s %s %s)%%bool", a, op, b), boolTy, nil
	}
	// a method call among the operands: the other operands must not read a field
	if t.stVar != "" && c17bHasMethodCall(x, t.stVar) && c17bReadsField(x, t.stVar) {
		return "", c17bTy{}, t.errf(x, "an expression both calls a method of the receiver and reads its fields (evaluation order)")
	}
	// error comparisons
	if x.Op == token.EQL || x.Op == token.NEQ {
		for _, pair := range [][2]ast.Expr{{x.X, x.Y}, {x.Y, x.X}} {
			txt := p.exprText(pair[1])
			if txt == "nil" || txt == "io.EOF" {
				errTy := c17bTy{k: "err"}
				a, aty, err := t.expr(pair[0], &errTy)
				if err != nil {
					return "", c17bTy{}, err
				}
				if aty.k != "err" {
					return "", c17bTy{}, t.errf(x, "comparison of a non-error with %s", txt)
				}
				f := "err_is_nil"
				if txt == "io.EOF" {
					f = "err_is_eof"
				}
				r := fmt.Sprintf("(%s %s)", f, a)
				if x.Op == token.NEQ {
					r = fmt.Sprintf("(negb %s)", r)
				}
				return r, boolTy, nil
			}
		}
	}
	a, aty, err := t.expr(x.X, want)
	if err != nil {
		return "", c17bTy{}, err
	}
	b, bty, err := t.expr(x.Y, want)
	if err != nil {
		return "", c17bTy{}, err
	}
	isInt := func(ty c17bTy) bool { return ty.k == "int" || ty.k == "untyped" }
	if !isInt(aty) || !isInt(bty) {
		return "", c17bTy{}, t.errf(x, "unsupported operand types of %s", x.Op)
	}
	switch x.Op {
	case token.SHL, token.SHR:
		// the shift count must be a constant; the result has the left type
		if bty.k != "untyped" {
			return "", c17bTy{}, t.errf(x, "shift by a non-constant")
		}
		if x.Op == token.SHL {
			r := fmt.Sprintf("(Z.shiftl %s %s)", a, b)
			if aty.k == "int" {
				r = c17bWrapInt(aty, r)
			}
			return r, aty, nil
		}
		return fmt.Sprintf("(Z.shiftr %s %s)", a, b), aty, nil
	}
	rty := aty
	if rty.k == "untyped" {
		rty = bty
	}
	if aty.k == "int" && bty.k == "int" && (aty.bits != bty.bits || aty.signed != bty.signed) {
		return "", c17bTy{}, t.errf(x, "operands of different integer types")
	}
	switch x.Op {
	case token.ADD, token.SUB, token.MUL:
		op := map[token.Token]string{token.ADD: "+", token.SUB: "-", token.MUL: "*"}[x.Op]
		r := fmt.Sprintf("(%s %s %s)", a, op, b)
		if rty.k == "int" {
			r = c17bWrapInt(rty, r)
		}
		return r, rty, nil
	case token.OR:
		return fmt.Sprintf("(Z.lor %s %s)", a, b), rty, nil
	case token.AND:
		return fmt.Sprintf("(Z.land %s %s)", a, b), rty, nil
	case token.XOR:
		return fmt.Sprintf("(Z.lxor %s %s)", a, b), rty, nil
	case token.LSS:
		return fmt.Sprintf("(%s <? %s)", a, b), boolTy, nil
	case token.GTR:
		return fmt.Sprintf("(%s >? %s)", a, b), boolTy, nil
	case token.LEQ:
		return fmt.Sprintf("(%s <=? %s)", a, b), boolTy, nil
	case token.GEQ:
		return fmt.Sprintf("(%s >=? %s)", a, b), boolTy, nil
	case token.EQL:
		return fmt.Sprintf("(%s =? %s)", a, b), boolTy, nil
	case token.NEQ:
		return fmt.Sprintf("(negb (%s =? %s))", a, b), boolTy, nil
	}
	return "", c17bTy{}, t.errf(x, "unsupported operator %s", x.Op)
}

// ---------------------------------------------------------------- statements

func c17bIsPanic(s ast.Stmt) bool {
	es, ok := s.(*ast.ExprStmt)
	if !ok {
		return false
	}
	ce, ok := es.X.(*ast.CallExpr)
	if !ok {
		return false
	}
	id, ok := ce.Fun.(*ast.Ident)
	return ok && id.Name == "panic"
}

func c17bAbrupt(list []ast.Stmt) bool {
	if len(list) == 0 {
		return false
	}
	switch s := list[len(list)-1].(type) {
	case *ast.ReturnStmt:
		return true
	case *ast.ExprStmt:
		return c17bIsPanic(s)
	case *ast.IfStmt:
		if s.Else == nil || !c17bAbrupt(s.Body.List) {
			return false
		}
		switch e := s.Else.(type) {
		case *ast.BlockStmt:
			return c17bAbrupt(e.List)
		case *ast.IfStmt:
			return c17bAbrupt([]ast.Stmt{e})
		}
	}
	return false
}

// carried: the variables visible now that the statements assign (in order of
// declaration); declarations inside the statements hide outer names.
func (t *c17bTr) carried(list []ast.Stmt) []*c17bVar {
	set := map[*c17bVar]bool{}
	var walk func(list []ast.Stmt, hidden map[string]bool)
	mark := func(e ast.Expr, hidden map[string]bool, reslice bool) {
		for {
			if ix, ok := e.(*ast.IndexExpr); ok {
				e = ix.X
				continue
			}
			break
		}
		if id, ok := e.(*ast.Ident); ok && !hidden[id.Name] {
			if v := t.lookup(id.Name); v != nil {
				set[v] = true
				if v.out && reslice {
					if o := t.lookup(id.Name + "·out"); o != nil {
						set[o] = true
					}
				}
			}
		}
	}
	walk = func(list []ast.Stmt, hidden map[string]bool) {
		h := map[string]bool{}
		for k := range hidden {
			h[k] = true
		}
		for _, st := range list {
			switch s := st.(type) {
			case *ast.AssignStmt:
				for _, r := range s.Rhs {
					if ce, ok := r.(*ast.CallExpr); ok {
						if id, ok := ce.Fun.(*ast.Ident); ok && id.Name == "copy" && len(ce.Args) == 2 {
							mark(ce.Args[0], h, false)
						}
					}
				}
				if s.Tok == token.DEFINE {
					// carried is only asked about nested blocks: a := there declares
					for _, l := range s.Lhs {
						if id, ok := l.(*ast.Ident); ok && id.Name != "_" {
							h[id.Name] = true
						}
					}
				} else {
					for _, l := range s.Lhs {
						_, isSlice := s.Rhs[0].(*ast.SliceExpr)
						mark(l, h, isSlice)
					}
				}
			case *ast.IncDecStmt:
				mark(s.X, h, false)
			case *ast.ExprStmt:
				if ce, ok := s.X.(*ast.CallExpr); ok {
					if id, ok := ce.Fun.(*ast.Ident); ok && id.Name == "copy" && len(ce.Args) == 2 {
						mark(ce.Args[0], h, false)
					}
				}
			case *ast.IfStmt:
				walk(s.Body.List, h)
				if s.Else != nil {
					switch e := s.Else.(type) {
					case *ast.BlockStmt:
						walk(e.List, h)
					case *ast.IfStmt:
						walk([]ast.Stmt{e}, h)
					}
				}
			case *ast.ForStmt:
				walk(s.Body.List, h)
			case *ast.RangeStmt:
				hh := map[string]bool{}
				for k := range h {
					hh[k] = true
				}
				if id, ok := s.Key.(*ast.Ident); ok {
					hh[id.Name] = true
				}
				walk(s.Body.List, hh)
			}
		}
	}
	walk(list, map[string]bool{})
	var out []*c17bVar
	for _, v := range t.order {
		if set[v] {
			out = append(out, v)
		}
	}
	return out
}

func c17bTuple(vs []*c17bVar) string {
	if len(vs) == 0 {
		return "tt"
	}
	var parts []string
	for _, v := range vs {
		parts = append(parts, v.coq)
	}
	if len(parts) == 1 {
		return parts[0]
	}
	return "(" + strings.Join(parts, ", ") + ")"
}

func c17bPat(vs []*c17bVar) string {
	if len(vs) == 0 {
		return "_"
	}
	if len(vs) == 1 {
		return vs[0].coq
	}
	return "'" + c17bTuple(vs)
}

// assignTo emits the binding of value val (of type vty) to the lvalue lhs.
func (t *c17bTr) assignTo(lhs ast.Expr, define bool, val string, vty c17bTy, alias bool) (string, error) {
	fromMake := t.fromMake
	t.fromMake = false
	switch l := lhs.(type) {
	case *ast.Ident:
		if l.Name == "_" {
			return "", nil
		}
		var v *c17bVar
		if define {
			if cur, ok := t.scopes[len(t.scopes)-1][l.Name]; ok {
				v = cur // re-assignment by := in the same scope
			} else {
				if vty.k == "untyped" {
					vty = c17bTy{k: "int", bits: 64, signed: true}
				}
				v = t.declare(l.Name, vty)
			}
		} else {
			v = t.lookup(l.Name)
			if v == nil {
				return "", t.errf(lhs, "assignment to unknown variable %s", l.Name)
			}
		}
		if v.out {
			return "", t.errf(lhs, "unsupported assignment to the slice parameter %s", l.Name)
		}
		if v.ty.k != vty.k && !(v.ty.k == "int" && vty.k == "untyped") {
			return "", t.errf(lhs, "type mismatch in the assignment to %s", l.Name)
		}
		v.alias = alias
		v.invalid = false
		return fmt.Sprintf("let %s := %s in", v.coq, val), nil
	case *ast.SelectorExpr:
		if define || !t.isRecv(l.X) {
			break
		}
		fty, ok := t.c.fieldTy[l.Sel.Name]
		if !ok || fty.k == "reader" {
			break
		}
		if fty.k != vty.k && !(fty.k == "int" && vty.k == "untyped") {
			return "", t.errf(lhs, "type mismatch in the assignment to field %s", l.Sel.Name)
		}
		if fty.k == "slice" {
			// only make([]T, n) results (cap = len) and nil are stored in a slice field
			if !fromMake && val != "[]" {
				return "", t.errf(lhs, "a slice field is assigned something else than make([]T, n) or nil")
			}
			t.invalidateAliases()
		}
		return fmt.Sprintf("let st := set_g_%s st %s in", l.Sel.Name, val), nil
	case *ast.IndexExpr:
		if define {
			break
		}
		id, ok := l.X.(*ast.Ident)
		if !ok {
			break
		}
		v := t.lookup(id.Name)
		if v == nil || v.ty.k != "slice" || v.out || v.alias {
			return "", t.errf(lhs, "element store into %s is not supported", id.Name)
		}
		i, _, err := t.expr(l.Index, nil)
		if err != nil {
			return "", err
		}
		tn := t.fresh()
		t.pre = append(t.pre, fmt.Sprintf("pbind st (go_store %s %s %s) (fun %s =>", v.coq, i, val, tn))
		return fmt.Sprintf("let %s := %s in", v.coq, tn), nil
	}
	return "", t.errf(lhs, "unsupported assignment target %s", t.c.p.exprText(lhs))
}

// simple translates a statement without control flow into binding lines
// (which may leave hoisted bindings open: the caller nests the rest inside).
// It returns the text to put in front of the rest.
func (t *c17bTr) simple(st ast.Stmt) (func(rest string) string, error) {
	p := t.c.p
	lines := func(ls ...string) func(string) string {
		pre := t.pre
		t.pre = nil
		var keep []string
		for _, l := range ls {
			if l != "" {
				keep = append(keep, l)
			}
		}
		return func(rest string) string {
			body := rest
			if len(keep) > 0 {
				body = strings.Join(keep, "\n") + "\n" + rest
			}
			return c17bWrap(pre, body)
		}
	}
	switch s := st.(type) {
	case *ast.IncDecStmt:
		a, aty, err := t.expr(s.X, nil)
		if err != nil {
			return nil, err
		}
		op := "+"
		if s.Tok == token.DEC {
			op = "-"
		}
		l, err := t.assignTo(s.X, false, c17bWrapInt(aty, fmt.Sprintf("(%s %s 1)", a, op)), aty, false)
		if err != nil {
			return nil, err
		}
		return lines(l), nil
	case *ast.ExprStmt:
		ce, ok := s.X.(*ast.CallExpr)
		if !ok {
			break
		}
		if id, ok := ce.Fun.(*ast.Ident); ok && id.Name == "copy" && t.lookup("copy") == nil {
			l, err := t.copyCall(ce, nil, false)
			if err != nil {
				return nil, err
			}
			return lines(l...), nil
		}
		if sig, ok := t.methodCall(ce); ok {
			args, err := t.callArgs(ce, sig)
			if err != nil {
				return nil, err
			}
			if len(sig.outs) > 0 {
				return nil, t.errf(st, "call of %s (slice parameter) as a statement", sig.name)
			}
			t.invalidateAliases()
			t.pre = append(t.pre, fmt.Sprintf("mbind (%s fuel st%s) (fun st _ =>", sig.coq, args))
			return lines(), nil
		}
	case *ast.AssignStmt:
		define := s.Tok == token.DEFINE
		// compound assignment
		if s.Tok != token.ASSIGN && s.Tok != token.DEFINE {
			ops := map[token.Token]token.Token{token.ADD_ASSIGN: token.ADD, token.SUB_ASSIGN: token.SUB, token.MUL_ASSIGN: token.MUL,
				token.OR_ASSIGN: token.OR, token.AND_ASSIGN: token.AND, token.XOR_ASSIGN: token.XOR, token.SHL_ASSIGN: token.SHL, token.SHR_ASSIGN: token.SHR}
			op, ok := ops[s.Tok]
			if !ok || len(s.Lhs) != 1 || len(s.Rhs) != 1 {
				return nil, t.errf(st, "unsupported assignment operator %s", s.Tok)
			}
			if _, isIdx := s.Lhs[0].(*ast.IndexExpr); isIdx {
				return nil, t.errf(st, "compound assignment to an element")
			}
			val, vty, err := t.binary(&ast.BinaryExpr{X: s.Lhs[0], Op: op, Y: s.Rhs[0], OpPos: s.TokPos}, nil)
			if err != nil {
				return nil, err
			}
			l, err := t.assignTo(s.Lhs[0], false, val, vty, false)
			if err != nil {
				return nil, err
			}
			return lines(l), nil
		}
		if len(s.Rhs) == 1 {
			if ce, ok := s.Rhs[0].(*ast.CallExpr); ok {
				// builtin copy / make
				if id, ok := ce.Fun.(*ast.Ident); ok && t.lookup(id.Name) == nil {
					switch id.Name {
					case "copy":
						if len(s.Lhs) != 1 {
							return nil, t.errf(st, "copy with %d results", len(s.Lhs))
						}
						l, err := t.copyCall(ce, s.Lhs[0], define)
						if err != nil {
							return nil, err
						}
						return lines(l...), nil
					case "make":
						if len(s.Lhs) != 1 || len(ce.Args) != 2 {
							return nil, t.errf(st, "unsupported make")
						}
						ty, err := t.c.parseType(ce.Args[0])
						if err != nil || ty.k != "slice" {
							return nil, t.errf(st, "make of something else than an integer slice")
						}
						n, _, err := t.expr(ce.Args[1], nil)
						if err != nil {
							return nil, err
						}
						tn := t.fresh()
						t.pre = append(t.pre, fmt.Sprintf("pbind st (go_make %s) (fun %s =>", n, tn))
						t.fromMake = true
						l, err := t.assignTo(s.Lhs[0], define, tn, ty, false)
						if err != nil {
							return nil, err
						}
						return lines(l), nil
					}
				}
				// calls on the reader
				if name, ok := t.readerCall(ce); ok && (name == "Read" || name == "Seek") {
					return t.readerStmt(s, ce, name, lines)
				}
				// a method with several results
				if sig, ok := t.methodCall(ce); ok && (len(s.Lhs) > 1 || len(sig.outs) > 0) {
					if len(s.Lhs) != len(sig.results) || sig.retState {
						return nil, t.errf(st, "result count of %s", sig.name)
					}
					if len(sig.outs) > 0 {
						return nil, t.errf(st, "call of %s (slice parameter) from another method", sig.name)
					}
					args, err := t.callArgs(ce, sig)
					if err != nil {
						return nil, err
					}
					t.invalidateAliases()
					var names []string
					var ls []string
					for i, l := range s.Lhs {
						tn := t.fresh()
						names = append(names, tn)
						a, err := t.assignTo(l, define, tn, sig.results[i], sig.results[i].k == "slice")
						if err != nil {
							return nil, err
						}
						ls = append(ls, a)
					}
					t.pre = append(t.pre, fmt.Sprintf("mbind (%s fuel st%s) (fun st '(%s) =>", sig.coq, args, strings.Join(names, ", ")))
					return lines(ls...), nil
				}
			}
			// the state variable of a constructor: v := &T{field: e}
			if ue, ok := s.Rhs[0].(*ast.UnaryExpr); ok && ue.Op == token.AND && define && len(s.Lhs) == 1 {
				cl, ok := ue.X.(*ast.CompositeLit)
				id, ok2 := s.Lhs[0].(*ast.Ident)
				if ok && ok2 && p.exprText(cl.Type) == t.c.structName {
					if t.stVar != "" {
						return nil, t.errf(st, "a second value of type %s", t.c.structName)
					}
					vals := map[string]string{}
					for _, el := range cl.Elts {
						kv, ok := el.(*ast.KeyValueExpr)
						if !ok {
							return nil, t.errf(st, "positional struct literal")
						}
						f := p.exprText(kv.Key)
						fty, ok := t.c.fieldTy[f]
						if !ok {
							return nil, t.errf(st, "unknown field %s", f)
						}
						var x string
						if fty.k == "reader" {
							vid, ok := kv.Value.(*ast.Ident)
							v := (*c17bVar)(nil)
							if ok {
								v = t.lookup(vid.Name)
							}
							if v == nil || v.ty.k != "reader" {
								return nil, t.errf(st, "the reader field is not initialised from a parameter")
							}
							x = v.coq
						} else {
							var xty c17bTy
							var err error
							x, xty, err = t.expr(kv.Value, &fty)
							if err != nil {
								return nil, err
							}
							_ = xty
						}
						vals[f] = x
					}
					var parts []string
					for _, f := range t.c.fields {
						if x, ok := vals[f]; ok {
							parts = append(parts, x)
						} else {
							z := t.c.fieldTy[f].zero()
							if z == "?" {
								return nil, t.errf(st, "field %s has no zero value in the model", f)
							}
							parts = append(parts, z)
						}
					}
					t.stVar = id.Name
					return lines(fmt.Sprintf("let st := mk%s %s in", t.c.structName, strings.Join(parts, " "))), nil
				}
			}
		}
		if len(s.Lhs) != len(s.Rhs) || len(s.Lhs) != 1 {
			return nil, t.errf(st, "unsupported assignment shape")
		}
		// out-parameter: p = p[e:]
		if id, ok := s.Lhs[0].(*ast.Ident); ok && !define {
			if v := t.lookup(id.Name); v != nil && v.out {
				se, ok := s.Rhs[0].(*ast.SliceExpr)
				if !ok || se.High != nil || se.Slice3 || se.Low == nil || p.exprText(se.X) != id.Name {
					return nil, t.errf(st, "the slice parameter %s is assigned something else than %s[e:]", id.Name, id.Name)
				}
				lo, _, err := t.expr(se.Low, nil)
				if err != nil {
					return nil, err
				}
				o := t.lookup(id.Name + "·out")
				tn := t.fresh()
				t.pre = append(t.pre, fmt.Sprintf("pbind st (go_slice %s %s (zlen %s)) (fun %s =>", v.coq, lo, v.coq, tn))
				return lines(
					fmt.Sprintf("let %s := %s ++ firstn (Z.to_nat %s) %s in", o.coq, o.coq, lo, v.coq),
					fmt.Sprintf("let %s := %s in", v.coq, tn)), nil
			}
		}
		var want *c17bTy
		if !define {
			if id, ok := s.Lhs[0].(*ast.Ident); ok {
				if v := t.lookup(id.Name); v != nil {
					want = &v.ty
				}
			} else if se, ok := s.Lhs[0].(*ast.SelectorExpr); ok && t.isRecv(se.X) {
				if fty, ok := t.c.fieldTy[se.Sel.Name]; ok {
					want = &fty
				}
			}
		}
		val, vty, err := t.expr(s.Rhs[0], want)
		if err != nil {
			return nil, err
		}
		alias := false
		if vty.k == "slice" {
			// a slice value is a snapshot: nil, or a slice expression of a receiver field
			// (refused once the field is written or a method is called afterwards)
			se, isSlice := s.Rhs[0].(*ast.SliceExpr)
			switch {
			case p.exprText(s.Rhs[0]) == "nil":
			case isSlice:
				fe, ok := se.X.(*ast.SelectorExpr)
				if !ok || !t.isRecv(fe.X) {
					return nil, t.errf(st, "a slice of a local slice is stored in a variable (aliasing)")
				}
				alias = true
			default:
				return nil, t.errf(st, "a slice is copied between variables (aliasing)")
			}
		}
		l, err := t.assignTo(s.Lhs[0], define, val, vty, alias)
		if err != nil {
			return nil, err
		}
		return lines(l), nil
	}
	return nil, t.errf(st, "unsupported statement")
}

// copyCall: [k :=] copy(dst, src)
func (t *c17bTr) copyCall(ce *ast.CallExpr, lhs ast.Expr, define bool) ([]string, error) {
	if len(ce.Args) != 2 {
		return nil, t.errf(ce, "copy with %d arguments", len(ce.Args))
	}
	// the source is evaluated first (it may be a slice expression of dst)
	src, sty, err := t.expr(ce.Args[1], nil)
	if err != nil {
		return nil, err
	}
	if sty.k != "slice" {
		return nil, t.errf(ce, "copy from a non-slice")
	}
	ta, tb := t.fresh(), t.fresh()
	var out []string
	switch d := ce.Args[0].(type) {
	case *ast.Ident:
		v := t.lookup(d.Name)
		if v == nil || v.ty.k != "slice" || v.alias {
			return nil, t.errf(ce, "copy into %s is not supported", d.Name)
		}
		out = append(out, fmt.Sprintf("let '(%s, %s) := go_copy %s %s in", ta, tb, v.coq, src),
			fmt.Sprintf("let %s := %s in", v.coq, ta))
	case *ast.SelectorExpr:
		fty, ok := t.c.fieldTy[d.Sel.Name]
		if !t.isRecv(d.X) || !ok || fty.k != "slice" {
			return nil, t.errf(ce, "copy into %s is not supported", t.c.p.exprText(d))
		}
		t.invalidateAliases()
		out = append(out, fmt.Sprintf("let '(%s, %s) := go_copy (g_%s st) %s in", ta, tb, d.Sel.Name, src),
			fmt.Sprintf("let st := set_g_%s st %s in", d.Sel.Name, ta))
	default:
		return nil, t.errf(ce, "copy into %s is not supported", t.c.p.exprText(ce.Args[0]))
	}
	if lhs != nil {
		l, err := t.assignTo(lhs, define, tb, c17bTy{k: "int", bits: 64, signed: true}, false)
		if err != nil {
			return nil, err
		}
		out = append(out, l)
	}
	return out, nil
}

// readerStmt: n, err := recv.r.Read(s[a:b])  /  _, err := recv.r.Seek(e, io.SeekStart)
func (t *c17bTr) readerStmt(s *ast.AssignStmt, ce *ast.CallExpr, name string, lines func(...string) func(string) string) (func(string) string, error) {
	define := s.Tok == token.DEFINE
	rf := t.readerField(ce)
	if len(s.Lhs) != 2 {
		return nil, t.errf(s, "%s with %d results", name, len(s.Lhs))
	}
	intTy := c17bTy{k: "int", bits: 64, signed: true}
	errTy := c17bTy{k: "err"}
	if name == "Seek" {
		if len(ce.Args) != 2 || t.c.p.exprText(ce.Args[1]) != "io.SeekStart" {
			return nil, t.errf(s, "Seek with a whence other than io.SeekStart")
		}
		off, oty, err := t.expr(ce.Args[0], &intTy)
		if err != nil {
			return nil, err
		}
		_ = oty
		ta, tb, tc := t.fresh(), t.fresh(), t.fresh()
		l1, err := t.assignTo(s.Lhs[0], define, ta, intTy, false)
		if err != nil {
			return nil, err
		}
		l2, err := t.assignTo(s.Lhs[1], define, tb, errTy, false)
		if err != nil {
			return nil, err
		}
		return lines(fmt.Sprintf("let '(%s, %s, %s) := r_seek (g_%s st) %s 0 in", ta, tb, tc, rf, off),
			fmt.Sprintf("let st := set_g_%s st %s in", rf, tc), l1, l2), nil
	}
	// Read: the argument is a slice expression of a slice field or local
	if len(ce.Args) != 1 {
		return nil, t.errf(s, "Read with %d arguments", len(ce.Args))
	}
	se, ok := ce.Args[0].(*ast.SliceExpr)
	if !ok || se.Slice3 {
		return nil, t.errf(s, "the argument of Read is not a slice expression s[a:b]")
	}
	base, _, err := t.sliceOperand(se.X)
	if err != nil {
		return nil, err
	}
	lo := "0"
	if se.Low != nil {
		if lo, _, err = t.expr(se.Low, nil); err != nil {
			return nil, err
		}
	}
	win, _, err := t.expr(se, nil) // bounds check; the window's length is the space
	if err != nil {
		return nil, err
	}
	t.invalidateAliases()
	ta, tb, tc := t.fresh(), t.fresh(), t.fresh()
	ls := []string{
		fmt.Sprintf("let '(%s, %s, %s) := r_read (g_%s st) (zlen %s) in", ta, tb, tc, rf, win),
		fmt.Sprintf("let st := set_g_%s st %s in", rf, tc),
	}
	// write the delivered bytes back into the base
	switch b := se.X.(type) {
	case *ast.SelectorExpr:
		ls = append(ls, fmt.Sprintf("let st := set_g_%s st (go_write %s %s %s) in", b.Sel.Name, base, lo, ta))
	case *ast.Ident:
		v := t.lookup(b.Name)
		if v.alias || v.out {
			return nil, t.errf(s, "Read into %s is not supported", b.Name)
		}
		ls = append(ls, fmt.Sprintf("let %s := go_write %s %s %s in", v.coq, base, lo, ta))
	default:
		return nil, t.errf(s, "Read into %s is not supported", t.c.p.exprText(se.X))
	}
	l1, err := t.assignTo(s.Lhs[0], define, fmt.Sprintf("(zlen %s)", ta), intTy, false)
	if err != nil {
		return nil, err
	}
	l2, err := t.assignTo(s.Lhs[1], define, tb, errTy, false)
	if err != nil {
		return nil, err
	}
	ls = append(ls, l1, l2)
	return lines(ls...), nil
}

func (t *c17bTr) retTuple(parts []string) string {
	for _, o := range t.sig.outs {
		v := t.lookup(o)
		ov := t.lookup(o + "·out")
		parts = append(parts, fmt.Sprintf("(%s ++ %s)", ov.coq, v.coq))
	}
	if len(parts) == 0 {
		return "tt"
	}
	if len(parts) == 1 {
		return parts[0]
	}
	return "(" + strings.Join(parts, ", ") + ")"
}

// stmts translates a statement list; k is the term for falling off its end
// ("" = must not happen).
func (t *c17bTr) stmts(list []ast.Stmt, k string) (string, error) {
	if len(list) == 0 {
		if k == "" {
			return "", fmt.Errorf("%s: control reaches the end of a block that must return", t.sig.name)
		}
		return k, nil
	}
	st, rest := list[0], list[1:]
	switch s := st.(type) {
	case *ast.ReturnStmt:
		if len(rest) > 0 {
			return "", t.errf(st, "statements after return")
		}
		if t.sig.retState {
			if len(s.Results) != 1 || !t.isRecv(s.Results[0]) {
				return "", t.errf(st, "the constructor does not return its state variable")
			}
			return "CRet st tt", nil
		}
		// return recv.M(args) with several results
		if len(s.Results) == 1 && len(t.sig.results) > 1 {
			ce, ok := s.Results[0].(*ast.CallExpr)
			if !ok {
				return "", t.errf(st, "unsupported return")
			}
			sig, ok := t.methodCall(ce)
			if !ok || len(sig.results) != len(t.sig.results) || len(sig.outs) > 0 || len(t.sig.outs) > 0 {
				return "", t.errf(st, "unsupported return")
			}
			args, err := t.callArgs(ce, sig)
			if err != nil {
				return "", err
			}
			tn := t.fresh()
			t.pre = append(t.pre, fmt.Sprintf("mbind (%s fuel st%s) (fun st %s =>", sig.coq, args, tn))
			return t.flush(fmt.Sprintf("CRet st %s", tn)), nil
		}
		if len(s.Results) != len(t.sig.results) {
			return "", t.errf(st, "return with %d results", len(s.Results))
		}
		var parts []string
		for i, r := range s.Results {
			x, xty, err := t.expr(r, &t.sig.results[i])
			if err != nil {
				return "", err
			}
			if xty.k != "untyped" && xty.k != t.sig.results[i].k {
				return "", t.errf(st, "result %d has the wrong type", i)
			}
			parts = append(parts, x)
		}
		return t.flush("CRet st " + t.retTuple(parts)), nil
	case *ast.ExprStmt:
		if c17bIsPanic(s) {
			if len(rest) > 0 {
				return "", t.errf(st, "statements after panic")
			}
			if t.stVar == "" {
				return "", t.errf(st, "panic before the state exists")
			}
			return "CPanic st", nil
		}
	case *ast.IfStmt:
		return t.ifStmt(s, rest, k)
	case *ast.ForStmt:
		if s.Init != nil || s.Post != nil || s.Cond == nil {
			return "", t.errf(st, "only `for cond { }` loops are understood")
		}
		if c17bHasMethodCall(s.Body, t.stVar) {
			t.invalidateAliases()
		}
		w := t.carried(s.Body.List)
		boolTy := c17bTy{k: "bool"}
		n := len(t.pre)
		c, cty, err := t.expr(s.Cond, &boolTy)
		if err != nil {
			return "", err
		}
		if len(t.pre) != n || cty.k != "bool" {
			return "", t.errf(st, "the loop condition may panic, calls a method or is not boolean")
		}
		t.push()
		body, err := t.stmts(s.Body.List, "CNorm st "+c17bTuple(w))
		t.pop()
		if err != nil {
			return "", err
		}
		if c17bHasMethodCall(s.Body, t.stVar) {
			t.invalidateAliases()
		}
		r, err := t.stmts(rest, k)
		if err != nil {
			return "", err
		}
		return fmt.Sprintf("cbind (loop_while fuel (fun st %s => %s) (fun st %s =>\n%s) st %s)\n(fun st %s =>\n%s)",
			c17bPat(w), c, c17bPat(w), body, c17bTuple(w), c17bPat(w), r), nil
	case *ast.RangeStmt:
		if s.Value != nil || s.Tok != token.DEFINE || s.Key == nil {
			return "", t.errf(st, "only `for i := range s { }` loops are understood")
		}
		kid, ok := s.Key.(*ast.Ident)
		if !ok || kid.Name == "_" {
			return "", t.errf(st, "unsupported range key")
		}
		x, xty, err := t.sliceOperand(s.X)
		if err != nil {
			return "", err
		}
		_ = xty
		if c17bHasMethodCall(s.Body, t.stVar) {
			t.invalidateAliases()
		}
		w := t.carried(s.Body.List)
		count := fmt.Sprintf("(Z.to_nat (zlen %s))", x)
		t.push()
		kv := t.declare(kid.Name, c17bTy{k: "int", bits: 64, signed: true})
		body, err := t.stmts(s.Body.List, "CNorm st "+c17bTuple(w))
		t.pop()
		if err != nil {
			return "", err
		}
		if c17bHasMethodCall(s.Body, t.stVar) {
			t.invalidateAliases()
		}
		r, err := t.stmts(rest, k)
		if err != nil {
			return "", err
		}
		return fmt.Sprintf("cbind (loop_range %s 0 (fun %s st %s =>\n%s) st %s)\n(fun st %s =>\n%s)",
			count, kv.coq, c17bPat(w), body, c17bTuple(w), c17bPat(w), r), nil
	case *ast.BlockStmt, *ast.SwitchStmt, *ast.BranchStmt, *ast.DeferStmt, *ast.GoStmt, *ast.DeclStmt,
		*ast.TypeSwitchStmt, *ast.SelectStmt, *ast.LabeledStmt, *ast.SendStmt:
		return "", t.errf(st, "unsupported statement")
	}
	f, err := t.simple(st)
	if err != nil {
		return "", err
	}
	r, err := t.stmts(rest, k)
	if err != nil {
		return "", err
	}
	return f(r), nil
}

func (t *c17bTr) block(list []ast.Stmt, k string) (string, error) {
	t.push()
	defer t.pop()
	return t.stmts(list, k)
}

func (t *c17bTr) ifStmt(s *ast.IfStmt, rest []ast.Stmt, k string) (string, error) {
	if s.Init != nil {
		return "", t.errf(s, "if with an init statement")
	}
	boolTy := c17bTy{k: "bool"}
	c, cty, err := t.expr(s.Cond, &boolTy)
	if err != nil {
		return "", err
	}
	if cty.k != "bool" {
		return "", t.errf(s, "non-boolean condition")
	}
	pre := t.pre
	t.pre = nil
	branches := func(kk string) (string, string, error) {
		// the alias state after the if is the union of both branches
		th, err := t.block(s.Body.List, kk)
		if err != nil {
			return "", "", err
		}
		el := kk
		switch e := s.Else.(type) {
		case nil:
			if kk == "" {
				return "", "", t.errf(s, "control reaches the end of a block that must return")
			}
		case *ast.BlockStmt:
			if el, err = t.block(e.List, kk); err != nil {
				return "", "", err
			}
		case *ast.IfStmt:
			if el, err = t.block([]ast.Stmt{e}, kk); err != nil {
				return "", "", err
			}
		default:
			return "", "", t.errf(s, "unsupported else")
		}
		return th, el, nil
	}
	var out string
	switch {
	case s.Else == nil && c17bAbrupt(s.Body.List):
		th, err := t.block(s.Body.List, "")
		if err != nil {
			return "", err
		}
		r, err := t.stmts(rest, k)
		if err != nil {
			return "", err
		}
		out = fmt.Sprintf("if %s then (\n%s) else\n%s", c, th, r)
	case len(rest) == 0:
		th, el, err := branches(k)
		if err != nil {
			return "", err
		}
		out = fmt.Sprintf("if %s then (\n%s) else (\n%s)", c, th, el)
	default:
		w := t.carried([]ast.Stmt{s})
		kk := "CNorm st " + c17bTuple(w)
		th, el, err := branches(kk)
		if err != nil {
			return "", err
		}
		r, err := t.stmts(rest, k)
		if err != nil {
			return "", err
		}
		out = fmt.Sprintf("cbind (if %s then (\n%s) else (\n%s))\n(fun st %s =>\n%s)", c, th, el, c17bPat(w), r)
	}
	return c17bWrap(pre, out), nil
}

// ---------------------------------------------------------------- driver

func c17bIndent(s string) string {
	// indentation by parenthesis depth (the text is a single Coq term)
	var b strings.Builder
	depth := 1
	for _, line := range strings.Split(s, "\n") {
		d := depth
		trim := strings.TrimSpace(line)
		// a line that starts by closing goes back first
		for _, ch := range trim {
			if ch == ')' {
				d--
			} else {
				break
			}
		}
		if d < 0 {
			d = 0
		}
		b.WriteString(strings.Repeat("  ", d))
		b.WriteString(trim)
		b.WriteString("\n")
		for _, ch := range trim {
			switch ch {
			case '(':
				depth++
			case ')':
				depth--
			}
		}
	}
	return strings.TrimRight(b.String(), "\n")
}

func kindC17BMethods(root string, p *pkgInfo, it item) (string, error) {
	c, err := c17bNewCtx(p, it.Name)
	if err != nil {
		return "", err
	}
	// collect
	sigs := map[string]*c17bSig{}
	var names []string
	for _, f := range p.files {
		for _, d := range f.Decls {
			fd, ok := d.(*ast.FuncDecl)
			if !ok || fd.Body == nil {
				continue
			}
			s := &c17bSig{fd: fd, name: fd.Name.Name, calls: map[string]bool{}}
			if fd.Recv != nil {
				if len(fd.Recv.List) != 1 {
					continue
				}
				rt := fd.Recv.List[0].Type
				if se, ok := rt.(*ast.StarExpr); ok {
					rt = se.X
				}
				id, ok := rt.(*ast.Ident)
				if !ok || id.Name != it.Name {
					continue
				}
				if len(fd.Recv.List[0].Names) != 1 {
					return "", fmt.Errorf("%s: unnamed receiver", fd.Name.Name)
				}
				if _, isPtr := fd.Recv.List[0].Type.(*ast.StarExpr); !isPtr {
					return "", fmt.Errorf("%s: value receiver", fd.Name.Name)
				}
				s.recv = fd.Recv.List[0].Names[0].Name
				s.coq = it.Name + "_" + fd.Name.Name
			} else {
				// a constructor: returns *T
				if fd.Type.Results == nil || len(fd.Type.Results.List) != 1 {
					continue
				}
				ty, err := c.parseType(fd.Type.Results.List[0].Type)
				if err != nil || ty.k != "state" {
					continue
				}
				s.retState = true
				s.coq = it.Name + "_" + fd.Name.Name
			}
			if fd.Type.TypeParams != nil {
				return "", fmt.Errorf("%s: type parameters", s.name)
			}
			if fd.Type.Params != nil {
				for _, f := range fd.Type.Params.List {
					ty, err := c.parseType(f.Type)
					if err != nil {
						return "", fmt.Errorf("%s: %v", s.name, err)
					}
					if ty.k == "state" {
						return "", fmt.Errorf("%s: a parameter of type *%s", s.name, it.Name)
					}
					if len(f.Names) == 0 {
						return "", fmt.Errorf("%s: unnamed parameter", s.name)
					}
					for _, n := range f.Names {
						s.params = append(s.params, n.Name)
						s.ptys = append(s.ptys, ty)
						if ty.k == "slice" {
							if ty.elem.bits != 8 || ty.elem.signed {
								return "", fmt.Errorf("%s: slice parameter of a type other than []byte", s.name)
							}
							s.outs = append(s.outs, n.Name)
						}
					}
				}
			}
			if fd.Type.Results != nil && !s.retState {
				for _, f := range fd.Type.Results.List {
					if len(f.Names) > 0 {
						return "", fmt.Errorf("%s: named results", s.name)
					}
					ty, err := c.parseType(f.Type)
					if err != nil {
						return "", fmt.Errorf("%s: %v", s.name, err)
					}
					if ty.k == "state" || ty.k == "reader" {
						return "", fmt.Errorf("%s: unsupported result type", s.name)
					}
					s.results = append(s.results, ty)
				}
			}
			if _, dup := sigs[s.name]; dup {
				return "", fmt.Errorf("two functions called %s", s.name)
			}
			sigs[s.name] = s
			names = append(names, s.name)
		}
	}
	if len(names) == 0 {
		return "", fmt.Errorf("no methods of %s found", it.Name)
	}
	// call graph (calls of methods of the struct on any identifier)
	for _, s := range sigs {
		ast.Inspect(s.fd.Body, func(n ast.Node) bool {
			if ce, ok := n.(*ast.CallExpr); ok {
				if se, ok := ce.Fun.(*ast.SelectorExpr); ok {
					if _, ok := se.X.(*ast.Ident); ok {
						if callee, ok := sigs[se.Sel.Name]; ok && callee.recv != "" {
							s.calls[se.Sel.Name] = true
						}
					}
				}
				if id, ok := ce.Fun.(*ast.Ident); ok {
					if callee, ok := sigs[id.Name]; ok && callee.recv == "" {
						s.calls[id.Name] = true
					}
				}
			}
			return true
		})
	}
	// dependency order (source order among independent ones); recursion fails
	var order []string
	state := map[string]int{}
	var visit func(n string) error
	visit = func(n string) error {
		switch state[n] {
		case 1:
			return fmt.Errorf("recursion through %s", n)
		case 2:
			return nil
		}
		state[n] = 1
		var cs []string
		for c := range sigs[n].calls {
			cs = append(cs, c)
		}
		sort.Strings(cs)
		for _, c := range cs {
			if err := visit(c); err != nil {
				return err
			}
		}
		state[n] = 2
		order = append(order, n)
		return nil
	}
	for _, n := range names {
		if err := visit(n); err != nil {
			return "", err
		}
	}
	var b strings.Builder
	for _, n := range order {
		s := sigs[n]
		t := &c17bTr{c: c, sigs: sigs, sig: s, stVar: s.recv}
		t.push()
		var params []string
		if s.recv != "" {
			params = append(params, fmt.Sprintf("(st : %s)", it.Name))
		}
		var initOuts []string
		for i, pn := range s.params {
			v := t.declare(pn, s.ptys[i])
			params = append(params, fmt.Sprintf("(%s : %s)", v.coq, strings.Trim(s.ptys[i].coq(), "()")))
			if s.ptys[i].k == "slice" {
				v.out = true
				o := t.declare(pn+"·out", s.ptys[i])
				o.coq = "o_" + pn
				initOuts = append(initOuts, fmt.Sprintf("let %s := [] in", o.coq))
			}
		}
		var rts []string
		for _, r := range s.results {
			rts = append(rts, strings.Trim(r.coq(), "()"))
		}
		for range s.outs {
			rts = append(rts, "list Z")
		}
		rt := "unit"
		if len(rts) > 0 {
			rt = strings.Join(rts, " * ")
		}
		k := ""
		if len(s.results) == 0 && !s.retState {
			k = "CRet st " + t.retTuple(nil)
		}
		body, err := t.stmts(s.fd.Body.List, k)
		if err != nil {
			return "", err
		}
		if len(initOuts) > 0 {
			body = strings.Join(initOuts, "\n") + "\n" + body
		}
		pos := p.fset.Position(s.fd.Pos())
		fmt.Fprintf(&b, "(* %s, line %d *)\n", s.name, pos.Line)
		fmt.Fprintf(&b, "Definition %s (fuel : nat) %s : mres %s (%s) :=\n  finish (\n%s)%%Z.\n\n",
			s.coq, strings.Join(params, " "), it.Name, rt, c17bIndent(body))
	}
	var quoted []string
	for _, n := range order {
		quoted = append(quoted, coqString(n))
	}
	fmt.Fprintf(&b, "Definition %s_methods : list string := [%s]%%string.\n", it.Name, strings.Join(quoted, "; "))
	return b.String(), nil
}

// ---------------------------------------------------------------- runtime text

const c17bRuntimeText = `(* ---- runtime of the translation (fixed text, not derived from the source):
   Go integer wrap-around, slices by value, errors, the scripted
   io.ReadSeeker the parser reads from, and the control operators the
   statement translation is written in. ---- *)

Inductive gerr : Type := ENil | EEOF | EUnexpectedEOF | EOther (code : Z).
Definition err_is_nil (e : gerr) : bool := match e with ENil => true | _ => false end.
Definition err_is_eof (e : gerr) : bool := match e with EEOF => true | _ => false end.

(* T(x) and arithmetic at a fixed width: two's complement *)
Definition wrap_u (bits z : Z) : Z := (z mod 2 ^ bits)%Z.
Definition wrap_s (bits z : Z) : Z := ((z + 2 ^ (bits - 1)) mod 2 ^ bits - 2 ^ (bits - 1))%Z.

(* slices by value; None = run-time panic (index / slice bounds out of range) *)
Definition zlen {A : Type} (l : list A) : Z := Z.of_nat (List.length l).
Definition go_slice {A : Type} (l : list A) (lo hi : Z) : option (list A) :=
  if ((0 <=? lo)%Z && (lo <=? hi)%Z && (hi <=? zlen l)%Z)%bool
  then Some (firstn (Z.to_nat (hi - lo)) (skipn (Z.to_nat lo) l)) else None.
Definition go_index (l : list Z) (i : Z) : option Z :=
  if (i <? 0)%Z then None else nth_error l (Z.to_nat i).
Fixpoint list_set (l : list Z) (n : nat) (v : Z) : option (list Z) :=
  match l, n with
  | [], _ => None
  | _ :: t, O => Some (v :: t)
  | x :: t, S n' => match list_set t n' v with Some t' => Some (x :: t') | None => None end
  end.
Definition go_store (l : list Z) (i v : Z) : option (list Z) :=
  if (i <? 0)%Z then None else list_set l (Z.to_nat i) v.
(* copy(dst, src): the new contents of dst and the count (memmove semantics:
   src is read before dst is written, so overlapping arguments are fine) *)
Definition go_copy (dst src : list Z) : list Z * Z :=
  let k := Nat.min (List.length dst) (List.length src) in
  (firstn k src ++ skipn k dst, Z.of_nat k).
(* a callee wrote w into l[lo:lo+len(w)] *)
Definition go_write (l : list Z) (lo : Z) (w : list Z) : list Z :=
  firstn (Z.to_nat lo) l ++ w ++ skipn (Z.to_nat lo + List.length w) l.
Definition go_make (n : Z) : option (list Z) :=
  if (0 <=? n)%Z then Some (repeat 0%Z (Z.to_nat n)) else None.

(* the underlying io.ReadSeeker + Size(): the input, the position, a script
   saying how each coming Read call behaves (after the script: full reads), a
   script saying which coming Seek calls fail, and the log of the calls made
   (most recent first) *)
Inductive rbeh : Type :=
| BFull                          (* as many bytes as fit and are left *)
| BShort (lim : Z) (eager : bool) (* at most lim bytes; lim <= 0: (0, nil); eager: io.EOF together with the last bytes *)
| BFail (lim : Z) (code : Z).    (* at most lim bytes together with a non-EOF error *)
Inductive rcall : Type := CRead (space : Z) | CSeek (off : Z).
Record reader : Type := mkR {
  r_data : list Z; r_pos : Z; r_script : list rbeh; r_seeks : list bool; r_log : list rcall }.

Definition r_read (r : reader) (space : Z) : list Z * gerr * reader :=
  let rem := Z.max 0 (zlen (r_data r) - r_pos r) in
  let '(b, script') := match r_script r with [] => (BFull, []) | b :: s => (b, s) end in
  let lim := match b with BFull => space | BShort l _ => Z.max 0 l | BFail l _ => Z.max 0 l end in
  let cnt := Z.min space (Z.min rem lim) in
  let got := if (cnt =? 0)%Z then [] else firstn (Z.to_nat cnt) (skipn (Z.to_nat (r_pos r)) (r_data r)) in
  let e := match b with
           | BFail _ c => EOther c
           | BFull => if (rem =? 0)%Z then EEOF else ENil
           | BShort _ eager =>
               if (lim =? 0)%Z then ENil
               else if (rem =? 0)%Z then EEOF
               else if (eager && (cnt =? rem)%Z)%bool then EEOF else ENil
           end in
  (got, e, mkR (r_data r) (r_pos r + cnt) script' (r_seeks r) (CRead space :: r_log r)).

(* Seek(off, whence): only io.SeekStart (0) is understood; a negative offset
   and a scripted failure leave the position where it was *)
Definition r_seek (r : reader) (off whence : Z) : Z * gerr * reader :=
  let '(f, seeks') := match r_seeks r with [] => (false, []) | f :: s => (f, s) end in
  if ((off <? 0)%Z || f || negb (whence =? 0)%Z)%bool
  then (0%Z, EOther 1, mkR (r_data r) (r_pos r) (r_script r) seeks' (CSeek off :: r_log r))
  else (off, ENil, mkR (r_data r) off (r_script r) seeks' (CSeek off :: r_log r)).
Definition r_size (r : reader) : Z := zlen (r_data r).

(* control: a block falls through (CNorm: state and the locals it assigned),
   returns, panics, or the fuel of a ` + "`for cond`" + ` loop ran out *)
Inductive ctl (St V T : Type) : Type :=
| CNorm (s : St) (v : V) | CRet (s : St) (t : T) | CPanic (s : St) | CFuel.
Arguments CNorm {St V T} s v.
Arguments CRet {St V T} s t.
Arguments CPanic {St V T} s.
Arguments CFuel {St V T}.
Inductive mres (St T : Type) : Type := MRet (s : St) (t : T) | MPanic (s : St) | MFuel.
Arguments MRet {St T} s t.
Arguments MPanic {St T} s.
Arguments MFuel {St T}.

Definition cbind {St V W T : Type} (c : ctl St V T) (k : St -> V -> ctl St W T) : ctl St W T :=
  match c with CNorm s v => k s v | CRet s t => CRet s t | CPanic s => CPanic s | CFuel => CFuel end.
Definition mbind {St V T A : Type} (m : mres St A) (k : St -> A -> ctl St V T) : ctl St V T :=
  match m with MRet s a => k s a | MPanic s => CPanic s | MFuel => CFuel end.
Definition pbind {St V T A : Type} (s : St) (o : option A) (k : A -> ctl St V T) : ctl St V T :=
  match o with Some a => k a | None => CPanic s end.
Definition finish {St T : Type} (c : ctl St Empty_set T) : mres St T :=
  match c with
  | CNorm _ v => match v with end
  | CRet s t => MRet s t | CPanic s => MPanic s | CFuel => MFuel
  end.
Fixpoint loop_while {St V T : Type} (fuel : nat) (cond : St -> V -> bool)
    (body : St -> V -> ctl St V T) (s : St) (v : V) : ctl St V T :=
  match fuel with
  | O => CFuel
  | S f =>
      if cond s v then
        match body s v with
        | CNorm s' v' => loop_while f cond body s' v'
        | other => other
        end
      else CNorm s v
  end.
Fixpoint loop_range {St V T : Type} (n : nat) (i : Z) (body : Z -> St -> V -> ctl St V T)
    (s : St) (v : V) : ctl St V T :=
  match n with
  | O => CNorm s v
  | S n' =>
      match body i s v with
      | CNorm s' v' => loop_range n' (i + 1)%Z body s' v'
      | other => other
      end
  end.
`
