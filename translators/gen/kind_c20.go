package main

// kind "strlit_call" (added for C20): the first string-literal argument of the
// n-th call (n = item.Op as decimal, default 0, in source order) of the
// function written item.Lhs (e.g. "regexp.MustCompile", "fmt.Sprintf") inside
// the function item.Name, emitted as a byte string `list N`.

import (
	"fmt"
	"go/ast"
	"go/token"
	"strconv"
	"strings"
)

func init() {
	kinds["strlit_call"] = func(root string, p *pkgInfo, it item) (string, error) {
		fd := p.findFunc(it.Name)
		if fd == nil {
			return "", fmt.Errorf("function not found")
		}
		want := 0
		if it.Op != "" {
			n, err := strconv.Atoi(it.Op)
			if err != nil {
				return "", fmt.Errorf("bad call index %q", it.Op)
			}
			want = n
		}
		var found []string
		ast.Inspect(fd, func(n ast.Node) bool {
			ce, ok := n.(*ast.CallExpr)
			if !ok || p.exprText(ce.Fun) != it.Lhs {
				return true
			}
			for _, a := range ce.Args {
				if bl, ok := a.(*ast.BasicLit); ok && bl.Kind == token.STRING {
					s, err := strconv.Unquote(bl.Value)
					if err == nil {
						found = append(found, s)
					}
					break
				}
			}
			return true
		})
		if want >= len(found) {
			return "", fmt.Errorf("call #%d of %s with a string literal not found (have %d)", want, it.Lhs, len(found))
		}
		s := found[want]
		parts := make([]string, len(s))
		for i := 0; i < len(s); i++ {
			parts[i] = fmt.Sprintf("%d%%N", s[i])
		}
		// the comment shows the literal with every character that could confuse
		// Coq's comment lexer replaced
		show := []byte(s)
		for i, c := range show {
			if c < 32 || c > 126 || c == '"' || c == '(' || c == ')' || c == '*' {
				show[i] = '?'
			}
		}
		return fmt.Sprintf("(* literal: %s *)\nDefinition %s : list N := [%s].\n", show, it.Coq, strings.Join(parts, "; ")), nil
	}
}
