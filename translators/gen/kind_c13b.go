package main

// Item kinds of part C13B (assembly of CFF fonts):
//
//	c13b_strbytes   a package-level []string as a list of byte strings
//	                (list (list N)); used for cff.stdStrings
//	c13b_decimal    a package-level untyped float constant (or an integer
//	                constant) as an exact decimal (neg, mantissa, exponent):
//	                value = +-mantissa * 10^exponent, mantissa without
//	                trailing zeros; only plain decimal literals are accepted
//	c13b_declist    a package-level composite literal of float / integer
//	                literals (matrix.Matrix{0.001, 0, ...}) as a list of such
//	                decimals
//	c13b_opset      the operators listed in the single `case` clause that
//	                returns true of a method `func (d dictOp) name() bool`
//	                (dictOp.isString), as a list of their numeric values
//	c13b_sortkey    the operators that sortedKeys moves to the front, with
//	                the keys they get: pairs (operator, key) from the
//	                `if op == X { return K }` chain of the function literal
//	                `conv` inside the named method
import (
	"fmt"
	"go/ast"
	"go/token"
	"strings"
)

// c13bDecimal parses a plain decimal literal such as 0.039625, -100, 50, 1e-3.
func c13bDecimal(neg bool, lit string) (string, error) {
	s := strings.ReplaceAll(lit, "_", "")
	exp := 0
	if i := strings.IndexAny(s, "eE"); i >= 0 {
		var e int
		if _, err := fmt.Sscanf(s[i+1:], "%d", &e); err != nil {
			return "", fmt.Errorf("bad exponent in %s", lit)
		}
		exp = e
		s = s[:i]
	}
	if strings.HasPrefix(s, "0x") || strings.HasPrefix(s, "0X") {
		return "", fmt.Errorf("hexadecimal literal %s not supported", lit)
	}
	if i := strings.IndexByte(s, '.'); i >= 0 {
		exp -= len(s) - i - 1
		s = s[:i] + s[i+1:]
	}
	s = strings.TrimLeft(s, "0")
	for _, c := range s {
		if c < '0' || c > '9' {
			return "", fmt.Errorf("unsupported literal %s", lit)
		}
	}
	for len(s) > 0 && s[len(s)-1] == '0' {
		s = s[:len(s)-1]
		exp++
	}
	if s == "" {
		return "(false, 0, 0)%Z", nil
	}
	b := "false"
	if neg {
		b = "true"
	}
	return fmt.Sprintf("(%s, %s, (%d))%%Z", b, s, exp), nil
}

func c13bDecimalExpr(p *pkgInfo, e ast.Expr) (string, error) {
	neg := false
	for {
		switch x := e.(type) {
		case *ast.ParenExpr:
			e = x.X
			continue
		case *ast.UnaryExpr:
			if x.Op == token.SUB {
				neg = !neg
				e = x.X
				continue
			}
			if x.Op == token.ADD {
				e = x.X
				continue
			}
		}
		break
	}
	bl, ok := e.(*ast.BasicLit)
	if !ok || (bl.Kind != token.FLOAT && bl.Kind != token.INT) {
		return "", fmt.Errorf("not a numeric literal: %s", p.exprText(e))
	}
	return c13bDecimal(neg, bl.Value)
}

func init() {
	kinds["c13b_strbytes"] = func(root string, p *pkgInfo, it item) (string, error) {
		names, err := c13StrList(p, it.Name)
		if err != nil {
			return "", err
		}
		parts := make([]string, len(names))
		for i, s := range names {
			bs := make([]string, len(s))
			for j := 0; j < len(s); j++ {
				bs[j] = fmt.Sprintf("%d", s[j])
			}
			parts[i] = "[" + strings.Join(bs, ";") + "]"
		}
		return fmt.Sprintf("Definition %s : list (list N) := [\n  %s]%%N.\n", it.Coq, strings.Join(parts, ";\n  ")), nil
	}

	kinds["c13b_decimal"] = func(root string, p *pkgInfo, it item) (string, error) {
		v, gd, _ := p.findValue(it.Name)
		if gd == nil || v == nil {
			return "", fmt.Errorf("not found")
		}
		d, err := c13bDecimalExpr(p, v)
		if err != nil {
			return "", err
		}
		return fmt.Sprintf("Definition %s : bool * Z * Z := %s.\n", it.Coq, d), nil
	}

	kinds["c13b_declist"] = func(root string, p *pkgInfo, it item) (string, error) {
		v, gd, _ := p.findValue(it.Name)
		if gd == nil || v == nil {
			return "", fmt.Errorf("not found")
		}
		cl, ok := v.(*ast.CompositeLit)
		if !ok {
			return "", fmt.Errorf("not a composite literal")
		}
		var parts []string
		for _, e := range cl.Elts {
			d, err := c13bDecimalExpr(p, e)
			if err != nil {
				return "", err
			}
			parts = append(parts, d)
		}
		return fmt.Sprintf("Definition %s : list (bool * Z * Z) := [%s].\n", it.Coq, strings.Join(parts, "; ")), nil
	}

	kinds["c13b_opset"] = func(root string, p *pkgInfo, it item) (string, error) {
		fd := c13FindMethod(p, it.Arg, it.Name)
		if fd == nil {
			return "", fmt.Errorf("method (%s).%s not found", it.Arg, it.Name)
		}
		var ops []string
		n := 0
		ast.Inspect(fd, func(nd ast.Node) bool {
			cc, ok := nd.(*ast.CaseClause)
			if !ok || len(cc.List) == 0 || len(cc.Body) != 1 {
				return true
			}
			rs, ok := cc.Body[0].(*ast.ReturnStmt)
			if !ok || len(rs.Results) != 1 || p.exprText(rs.Results[0]) != "true" {
				return true
			}
			n++
			for _, e := range cc.List {
				v, err := p.evalInt(e, 0)
				if err != nil {
					ops = nil
					n = 99
					return false
				}
				ops = append(ops, fmt.Sprintf("%d%%N", v))
			}
			return true
		})
		if n != 1 {
			return "", fmt.Errorf("expected exactly one `case ...: return true` clause of constants, found %d", n)
		}
		return fmt.Sprintf("Definition %s : list N := [%s].\n", it.Coq, strings.Join(ops, "; ")), nil
	}

	kinds["c13b_sortkey"] = func(root string, p *pkgInfo, it item) (string, error) {
		fd := c13FindMethod(p, it.Arg, it.Name)
		if fd == nil {
			return "", fmt.Errorf("method (%s).%s not found", it.Arg, it.Name)
		}
		// conv := func(op dictOp) int { if op == A { return K1 } else if op == B { return K2 }; return int(op) }
		var lit *ast.FuncLit
		ast.Inspect(fd, func(nd ast.Node) bool {
			as, ok := nd.(*ast.AssignStmt)
			if !ok || len(as.Lhs) != 1 || len(as.Rhs) != 1 {
				return true
			}
			if id, ok := as.Lhs[0].(*ast.Ident); ok && id.Name == "conv" {
				if fl, ok := as.Rhs[0].(*ast.FuncLit); ok {
					lit = fl
				}
			}
			return true
		})
		if lit == nil || len(lit.Body.List) != 2 {
			return "", fmt.Errorf("function literal conv with an if chain and a final return not found")
		}
		last, ok := lit.Body.List[1].(*ast.ReturnStmt)
		if !ok || len(last.Results) != 1 || p.exprText(last.Results[0]) != "int(op)" {
			return "", fmt.Errorf("conv does not end with `return int(op)`")
		}
		var pairs []string
		var st ast.Stmt = lit.Body.List[0]
		for st != nil {
			is, ok := st.(*ast.IfStmt)
			if !ok || is.Init != nil {
				return "", fmt.Errorf("unsupported statement in conv")
			}
			be, ok := is.Cond.(*ast.BinaryExpr)
			if !ok || be.Op != token.EQL || p.exprText(be.X) != "op" {
				return "", fmt.Errorf("unsupported condition %s", p.exprText(is.Cond))
			}
			opv, err := p.evalInt(be.Y, 0)
			if err != nil {
				return "", err
			}
			if len(is.Body.List) != 1 {
				return "", fmt.Errorf("unsupported branch in conv")
			}
			rs, ok := is.Body.List[0].(*ast.ReturnStmt)
			if !ok || len(rs.Results) != 1 {
				return "", fmt.Errorf("unsupported branch in conv")
			}
			kv, err := p.evalInt(rs.Results[0], 0)
			if err != nil {
				return "", err
			}
			pairs = append(pairs, fmt.Sprintf("(%d%%N, (%d)%%Z)", opv, kv))
			st = is.Else
		}
		return fmt.Sprintf("Definition %s : list (N * Z) := [%s].\n", it.Coq, strings.Join(pairs, "; ")), nil
	}
}
