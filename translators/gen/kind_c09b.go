// Translator kinds added for part C09B (the value level of the cmap package):
//
//	c09b_decoders   the package-level map literal `decoders` of cmap/subtable.go
//	                (format word -> decoder function) -> list (N * N): the function
//	                decodeFormat<n> is named by n, notImplemented by 255
//	c09b_lookup     the body of a Lookup method (a sequence of `x := e`,
//	                `if cond { return e }` and a final `return e`) as a Coq
//	                function of the rune, polymorphic in the three kinds of
//	                result: a literal (`ret`), an array element
//	                `recv.Data[e]` (`arrget`) and a Go map element `recv[e]`
//	                (`mapget`); conversions uint16/uint32/rune are emitted as
//	                the explicit modular arithmetic Go performs
//	c09b_coderange  the body of a CodeRange method (named results low, high;
//	                `return a, b`, bare `return`, `if len(recv) == 0 { return }`,
//	                assignments, one `for k := range recv { ... }` loop whose
//	                body consists of local definitions, assignments and
//	                `if cond { x = e }`) as a Coq function of the list of map
//	                keys in iteration order (fold_left over the list)
//	c09b_install    sfnt.(*Font).InstallCMap: recognises the shape "locals,
//	                one if on CodeRange, b := s.Encode(<lang>), f.CMapTable =
//	                cmap.Table{k1: b, k2: b}" (a FRESH map with exactly the
//	                listed keys, both holding the same slice) and emits the
//	                language argument and the number of keys; any other shape
//	                (e.g. storing into the existing map) loses the item
//	c09b_rangeloop  the loop over `a, b := <x>.CodeRange()` in a function: emits
//	                the width of the loop variable, 64 for
//	                `for c := int64(a); c <= int64(b); c++` (the body starting
//	                with `r := rune(c)`), 32 for `for r := a; r <= b; r++`
//	c09b_dec0mac    decodeFormat0: recognises the branch `if code2rune != nil`
//	                that returns the translated mapping
//	                `res[uint16(code2rune(c))] = glyph.ID(g)` for g != 0 as a
//	                Format4 -> emits true; without such a branch false
package main

import (
	"fmt"
	"go/ast"
	"go/token"
	"strconv"
	"strings"
)

func init() {
	kinds["c09b_decoders"] = kindC09BDecoders
	kinds["c09b_lookup"] = kindC09BLookup
	kinds["c09b_coderange"] = kindC09BCodeRange
	kinds["c09b_install"] = kindC09BInstall
	kinds["c09b_rangeloop"] = kindC09BRangeLoop
	kinds["c09b_dec0mac"] = kindC09BDec0Mac
}

func kindC09BDecoders(root string, p *pkgInfo, it item) (string, error) {
	v, gd, _ := p.findValue(it.Name)
	if gd == nil || v == nil {
		return "", fmt.Errorf("variable %s not found", it.Name)
	}
	cl, ok := v.(*ast.CompositeLit)
	if !ok {
		return "", fmt.Errorf("%s is not a composite literal", it.Name)
	}
	if _, ok := cl.Type.(*ast.MapType); !ok {
		return "", fmt.Errorf("%s is not a map literal", it.Name)
	}
	var parts, names []string
	seen := map[int64]bool{}
	for _, e := range cl.Elts {
		kv, ok := e.(*ast.KeyValueExpr)
		if !ok {
			return "", fmt.Errorf("element is not key: value")
		}
		k, err := p.evalInt(kv.Key, 0)
		if err != nil {
			return "", err
		}
		id, ok := kv.Value.(*ast.Ident)
		if !ok {
			return "", fmt.Errorf("decoder for format %d is not a function name", k)
		}
		if seen[k] {
			return "", fmt.Errorf("duplicate key %d", k)
		}
		seen[k] = true
		// the function is named by a number: decodeFormat<n> -> n, notImplemented -> 255
		var code int64
		switch {
		case id.Name == "notImplemented":
			// must be the function that refuses: `return nil, <error>`
			fd := p.findFunc(id.Name)
			if fd == nil || len(fd.Body.List) != 1 {
				return "", fmt.Errorf("notImplemented is not a single return")
			}
			rs, ok := fd.Body.List[0].(*ast.ReturnStmt)
			if !ok || len(rs.Results) != 2 || p.exprText(rs.Results[0]) != "nil" || p.exprText(rs.Results[1]) == "nil" {
				return "", fmt.Errorf("notImplemented does not return (nil, error)")
			}
			code = 255
		case strings.HasPrefix(id.Name, "decodeFormat"):
			n, err := strconv.ParseUint(strings.TrimPrefix(id.Name, "decodeFormat"), 10, 8)
			if err != nil || n >= 255 {
				return "", fmt.Errorf("decoder name %s not understood", id.Name)
			}
			if p.findFunc(id.Name) == nil {
				return "", fmt.Errorf("decoder %s not found", id.Name)
			}
			code = int64(n)
		default:
			return "", fmt.Errorf("decoder name %s not understood", id.Name)
		}
		parts = append(parts, fmt.Sprintf("(%d%%N, %d%%N)", k, code))
		names = append(names, fmt.Sprintf("%d: %s", k, id.Name))
	}
	return fmt.Sprintf("(* %s *)\nDefinition %s : list (N * N) := [%s].\n", strings.Join(names, ", "), it.Coq, strings.Join(parts, "; ")), nil
}

// ---- a small expression translator (integers are Z, conditions are bool) ----

type c09bEnv struct {
	p    *pkgInfo
	recv string          // receiver name
	vars map[string]bool // variables in scope
}

func (env *c09bEnv) convName(f ast.Expr) string {
	switch x := f.(type) {
	case *ast.Ident:
		return x.Name
	case *ast.SelectorExpr:
		return env.p.exprText(x)
	}
	return ""
}

func (env *c09bEnv) expr(e ast.Expr) (string, error) {
	p := env.p
	// a constant expression (1<<31 - 1, 0xFFFF, 'x')
	if !c09bMentionsVars(e, env.vars) {
		if v, err := p.evalInt(e, 0); err == nil {
			return fmt.Sprintf("(%d)", v), nil
		}
	}
	switch x := e.(type) {
	case *ast.ParenExpr:
		return env.expr(x.X)
	case *ast.Ident:
		switch x.Name {
		case "true", "false":
			return x.Name, nil
		}
		if env.vars[x.Name] {
			return "v_" + x.Name, nil
		}
		return "", fmt.Errorf("unknown identifier %s", x.Name)
	case *ast.CallExpr:
		name := env.convName(x.Fun)
		if name == "len" && len(x.Args) == 1 {
			if id, ok := x.Args[0].(*ast.Ident); ok && id.Name == env.recv {
				return "len_recv", nil
			}
			return "", fmt.Errorf("len of something else than the receiver")
		}
		if len(x.Args) != 1 {
			return "", fmt.Errorf("unsupported call %s", p.exprText(e))
		}
		a, err := env.expr(x.Args[0])
		if err != nil {
			return "", err
		}
		switch name {
		case "uint16", "glyph.ID":
			return fmt.Sprintf("(%s mod 65536)", a), nil
		case "uint32":
			return fmt.Sprintf("(%s mod 4294967296)", a), nil
		case "rune", "int32":
			return fmt.Sprintf("((%s + 2147483648) mod 4294967296 - 2147483648)", a), nil
		case "int", "int64":
			return a, nil
		case "uint8", "byte":
			return fmt.Sprintf("(%s mod 256)", a), nil
		}
		return "", fmt.Errorf("unsupported call %s", p.exprText(e))
	case *ast.UnaryExpr:
		a, err := env.expr(x.X)
		if err != nil {
			return "", err
		}
		switch x.Op {
		case token.NOT:
			return fmt.Sprintf("(negb %s)", a), nil
		case token.SUB:
			return fmt.Sprintf("(- %s)", a), nil
		}
	case *ast.BinaryExpr:
		a, err := env.expr(x.X)
		if err != nil {
			return "", err
		}
		b, err := env.expr(x.Y)
		if err != nil {
			return "", err
		}
		switch x.Op {
		case token.ADD:
			return fmt.Sprintf("(%s + %s)", a, b), nil
		case token.SUB:
			return fmt.Sprintf("(%s - %s)", a, b), nil
		case token.MUL:
			return fmt.Sprintf("(%s * %s)", a, b), nil
		case token.LSS:
			return fmt.Sprintf("(%s <? %s)", a, b), nil
		case token.GTR:
			return fmt.Sprintf("(%s >? %s)", a, b), nil
		case token.LEQ:
			return fmt.Sprintf("(%s <=? %s)", a, b), nil
		case token.GEQ:
			return fmt.Sprintf("(%s >=? %s)", a, b), nil
		case token.EQL:
			return fmt.Sprintf("(%s =? %s)", a, b), nil
		case token.NEQ:
			return fmt.Sprintf("(negb (%s =? %s))", a, b), nil
		case token.LOR:
			return fmt.Sprintf("(%s || %s)%%bool", a, b), nil
		case token.LAND:
			return fmt.Sprintf("(%s && %s)%%bool", a, b), nil
		}
	}
	return "", fmt.Errorf("unsupported expression %s", p.exprText(e))
}

func c09bMentionsVars(e ast.Expr, vars map[string]bool) bool {
	found := false
	ast.Inspect(e, func(n ast.Node) bool {
		switch x := n.(type) {
		case *ast.Ident:
			if vars[x.Name] || x.Name == "true" || x.Name == "false" {
				found = true
			}
		case *ast.CallExpr, *ast.IndexExpr:
			_ = x
			found = true
		}
		return true
	})
	return found
}

func c09bMethod(p *pkgInfo, name string) (*ast.FuncDecl, string, error) {
	fds := p.findFuncs(name)
	if len(fds) != 1 {
		return nil, "", fmt.Errorf("expected exactly one method %s, found %d", name, len(fds))
	}
	fd := fds[0]
	if fd.Recv == nil || len(fd.Recv.List) != 1 || len(fd.Recv.List[0].Names) != 1 {
		return nil, "", fmt.Errorf("%s has no named receiver", name)
	}
	return fd, fd.Recv.List[0].Names[0].Name, nil
}

// ---- Lookup ----

func kindC09BLookup(root string, p *pkgInfo, it item) (string, error) {
	fd, recv, err := c09bMethod(p, it.Name)
	if err != nil {
		return "", err
	}
	if fd.Type.Params == nil || len(fd.Type.Params.List) != 1 || len(fd.Type.Params.List[0].Names) != 1 ||
		p.exprText(fd.Type.Params.List[0].Type) != "rune" {
		return "", fmt.Errorf("%s does not take one rune", it.Name)
	}
	if fd.Type.Results == nil || len(fd.Type.Results.List) != 1 || len(fd.Type.Results.List[0].Names) != 0 {
		return "", fmt.Errorf("%s does not return one unnamed value", it.Name)
	}
	param := fd.Type.Params.List[0].Names[0].Name
	env := &c09bEnv{p: p, recv: recv, vars: map[string]bool{param: true}}

	ret := func(e ast.Expr) (string, error) {
		// strip glyph.ID(...) around an element access
		for {
			if pe, ok := e.(*ast.ParenExpr); ok {
				e = pe.X
				continue
			}
			if ce, ok := e.(*ast.CallExpr); ok && len(ce.Args) == 1 && env.convName(ce.Fun) == "glyph.ID" {
				if _, isIdx := c09bStripParen(ce.Args[0]).(*ast.IndexExpr); isIdx {
					e = ce.Args[0]
					continue
				}
			}
			break
		}
		if ix, ok := e.(*ast.IndexExpr); ok {
			idx, err := env.expr(ix.Index)
			if err != nil {
				return "", err
			}
			switch x := ix.X.(type) {
			case *ast.Ident:
				if x.Name == recv {
					return fmt.Sprintf("mapget %s", idx), nil
				}
			case *ast.SelectorExpr:
				if id, ok := x.X.(*ast.Ident); ok && id.Name == recv && x.Sel.Name == "Data" {
					return fmt.Sprintf("arrget %s", idx), nil
				}
			}
			return "", fmt.Errorf("unsupported element access %s", p.exprText(e))
		}
		v, err := p.evalInt(e, 0)
		if err != nil {
			return "", fmt.Errorf("unsupported result %s", p.exprText(e))
		}
		return fmt.Sprintf("ret (%d)", v), nil
	}

	var b strings.Builder
	closed := false
	depth := 0
	for i, st := range fd.Body.List {
		if closed {
			return "", fmt.Errorf("statement after the final return")
		}
		switch s := st.(type) {
		case *ast.AssignStmt:
			if s.Tok != token.DEFINE || len(s.Lhs) != 1 || len(s.Rhs) != 1 {
				return "", fmt.Errorf("unsupported assignment %d", i)
			}
			id, ok := s.Lhs[0].(*ast.Ident)
			if !ok {
				return "", fmt.Errorf("unsupported assignment %d", i)
			}
			e, err := env.expr(s.Rhs[0])
			if err != nil {
				return "", err
			}
			env.vars[id.Name] = true
			fmt.Fprintf(&b, "  let v_%s := %s in\n", id.Name, e)
		case *ast.IfStmt:
			if s.Init != nil || s.Else != nil || len(s.Body.List) != 1 {
				return "", fmt.Errorf("unsupported if statement %d", i)
			}
			rs, ok := s.Body.List[0].(*ast.ReturnStmt)
			if !ok || len(rs.Results) != 1 {
				return "", fmt.Errorf("if body %d is not a single return", i)
			}
			c, err := env.expr(s.Cond)
			if err != nil {
				return "", err
			}
			r, err := ret(rs.Results[0])
			if err != nil {
				return "", err
			}
			fmt.Fprintf(&b, "  if %s then %s else (\n", c, r)
			depth++
		case *ast.ReturnStmt:
			if len(s.Results) != 1 {
				return "", fmt.Errorf("return %d does not have one result", i)
			}
			r, err := ret(s.Results[0])
			if err != nil {
				return "", err
			}
			fmt.Fprintf(&b, "  %s", r)
			closed = true
		default:
			return "", fmt.Errorf("unsupported statement %d", i)
		}
	}
	if !closed {
		return "", fmt.Errorf("no final return")
	}
	b.WriteString(strings.Repeat(")", depth))
	return fmt.Sprintf("Definition %s {A : Type} (ret arrget mapget : Z -> A) (v_%s : Z) : A :=\n  (%s)%%Z.\n",
		it.Coq, param, strings.TrimLeft(b.String(), " ")), nil
}

func c09bStripParen(e ast.Expr) ast.Expr {
	for {
		pe, ok := e.(*ast.ParenExpr)
		if !ok {
			return e
		}
		e = pe.X
	}
}

// ---- CodeRange ----

func kindC09BCodeRange(root string, p *pkgInfo, it item) (string, error) {
	fd, recv, err := c09bMethod(p, it.Name)
	if err != nil {
		return "", err
	}
	if fd.Type.Params != nil && len(fd.Type.Params.List) != 0 {
		return "", fmt.Errorf("%s takes arguments", it.Name)
	}
	var results []string
	if fd.Type.Results != nil {
		for _, f := range fd.Type.Results.List {
			if p.exprText(f.Type) != "rune" {
				return "", fmt.Errorf("result type is not rune")
			}
			for _, n := range f.Names {
				results = append(results, n.Name)
			}
		}
	}
	if len(results) != 2 {
		return "", fmt.Errorf("%s does not have two named rune results", it.Name)
	}
	env := &c09bEnv{p: p, recv: recv, vars: map[string]bool{results[0]: true, results[1]: true}}
	order := append([]string(nil), results...) // declaration order of the variables

	tuple := func(vs []string) string {
		parts := make([]string, len(vs))
		for i, v := range vs {
			parts[i] = "v_" + v
		}
		if len(parts) == 1 {
			return parts[0]
		}
		return "(" + strings.Join(parts, ", ") + ")"
	}
	final := tuple(results)

	nCond := 0
	loops := 0
	// simple statements (no return): emits `let` lines
	var simple func(b *strings.Builder, st ast.Stmt, indent string, local map[string]bool) error
	simple = func(b *strings.Builder, st ast.Stmt, indent string, local map[string]bool) error {
		switch s := st.(type) {
		case *ast.AssignStmt:
			if len(s.Lhs) != 1 || len(s.Rhs) != 1 || (s.Tok != token.ASSIGN && s.Tok != token.DEFINE) {
				return fmt.Errorf("unsupported assignment %s", p.exprText(s.Lhs[0]))
			}
			id, ok := s.Lhs[0].(*ast.Ident)
			if !ok {
				return fmt.Errorf("unsupported assignment target %s", p.exprText(s.Lhs[0]))
			}
			e, err := env.expr(s.Rhs[0])
			if err != nil {
				return err
			}
			if s.Tok == token.DEFINE {
				if env.vars[id.Name] {
					return fmt.Errorf("%s is defined twice", id.Name)
				}
				env.vars[id.Name] = true
				if local != nil {
					local[id.Name] = true
				} else {
					order = append(order, id.Name)
				}
			} else if !env.vars[id.Name] {
				return fmt.Errorf("assignment to unknown variable %s", id.Name)
			}
			fmt.Fprintf(b, "%slet v_%s := %s in\n", indent, id.Name, e)
			return nil
		case *ast.IfStmt:
			if s.Init != nil || s.Else != nil {
				return fmt.Errorf("unsupported if statement")
			}
			c, err := env.expr(s.Cond)
			if err != nil {
				return err
			}
			nCond++
			cn := fmt.Sprintf("c_%d", nCond)
			fmt.Fprintf(b, "%slet %s := %s in\n", indent, cn, c)
			for _, bs := range s.Body.List {
				as, ok := bs.(*ast.AssignStmt)
				if !ok || as.Tok != token.ASSIGN || len(as.Lhs) != 1 || len(as.Rhs) != 1 {
					return fmt.Errorf("if body is not a list of assignments")
				}
				id, ok := as.Lhs[0].(*ast.Ident)
				if !ok || !env.vars[id.Name] {
					return fmt.Errorf("unsupported assignment target in if body")
				}
				e, err := env.expr(as.Rhs[0])
				if err != nil {
					return err
				}
				fmt.Fprintf(b, "%slet v_%s := if %s then %s else v_%s in\n", indent, id.Name, cn, e, id.Name)
			}
			return nil
		}
		return fmt.Errorf("unsupported statement in this position")
	}

	assigned := func(body *ast.BlockStmt) map[string]bool {
		m := map[string]bool{}
		ast.Inspect(body, func(n ast.Node) bool {
			if as, ok := n.(*ast.AssignStmt); ok && as.Tok == token.ASSIGN {
				for _, l := range as.Lhs {
					if id, ok := l.(*ast.Ident); ok {
						m[id.Name] = true
					}
				}
			}
			return true
		})
		return m
	}

	var b strings.Builder
	fmt.Fprintf(&b, "  let len_recv := Z.of_nat (List.length keys) in\n")
	fmt.Fprintf(&b, "  let v_%s := 0 in\n  let v_%s := 0 in\n", results[0], results[1])
	depth := 0
	closed := false
	retExpr := func(rs *ast.ReturnStmt) (string, error) {
		switch len(rs.Results) {
		case 0:
			return final, nil
		case 2:
			a, err := env.expr(rs.Results[0])
			if err != nil {
				return "", err
			}
			c, err := env.expr(rs.Results[1])
			if err != nil {
				return "", err
			}
			return fmt.Sprintf("(%s, %s)", a, c), nil
		}
		return "", fmt.Errorf("return with %d results", len(rs.Results))
	}
	for i, st := range fd.Body.List {
		if closed {
			return "", fmt.Errorf("statement after the final return")
		}
		switch s := st.(type) {
		case *ast.ReturnStmt:
			r, err := retExpr(s)
			if err != nil {
				return "", err
			}
			fmt.Fprintf(&b, "  %s", r)
			closed = true
		case *ast.IfStmt:
			// `if cond { return ... }` or `if cond { assignments }`
			if len(s.Body.List) == 1 {
				if rs, ok := s.Body.List[0].(*ast.ReturnStmt); ok {
					if s.Init != nil || s.Else != nil {
						return "", fmt.Errorf("unsupported if statement %d", i)
					}
					c, err := env.expr(s.Cond)
					if err != nil {
						return "", err
					}
					r, err := retExpr(rs)
					if err != nil {
						return "", err
					}
					fmt.Fprintf(&b, "  if %s then %s else (\n", c, r)
					depth++
					continue
				}
			}
			if err := simple(&b, s, "  ", nil); err != nil {
				return "", err
			}
		case *ast.AssignStmt:
			if err := simple(&b, s, "  ", nil); err != nil {
				return "", err
			}
		case *ast.RangeStmt:
			loops++
			if loops > 1 {
				return "", fmt.Errorf("more than one loop")
			}
			if s.Tok != token.DEFINE || s.Value != nil {
				return "", fmt.Errorf("the loop does not range over the keys only")
			}
			kid, ok := s.Key.(*ast.Ident)
			if !ok {
				return "", fmt.Errorf("loop key is not an identifier")
			}
			if x, ok := s.X.(*ast.Ident); !ok || x.Name != recv {
				return "", fmt.Errorf("the loop does not range over the receiver")
			}
			asg := assigned(s.Body)
			var state []string
			for _, v := range order {
				if asg[v] {
					state = append(state, v)
				}
			}
			for v := range asg {
				if !env.vars[v] {
					return "", fmt.Errorf("loop assigns unknown variable %s", v)
				}
			}
			if len(state) == 0 {
				return "", fmt.Errorf("loop without effect")
			}
			if env.vars[kid.Name] {
				return "", fmt.Errorf("loop key shadows %s", kid.Name)
			}
			env.vars[kid.Name] = true
			local := map[string]bool{kid.Name: true}
			fmt.Fprintf(&b, "  let '%s := fold_left (fun st v_%s =>\n      let '%s := st in\n", tuple(state), kid.Name, tuple(state))
			for _, bs := range s.Body.List {
				if err := simple(&b, bs, "      ", local); err != nil {
					return "", err
				}
			}
			fmt.Fprintf(&b, "      %s) keys %s in\n", tuple(state), tuple(state))
			for v := range local {
				delete(env.vars, v)
			}
		default:
			return "", fmt.Errorf("unsupported statement %d", i)
		}
	}
	if !closed {
		return "", fmt.Errorf("no final return")
	}
	b.WriteString(strings.Repeat(")", depth))
	return fmt.Sprintf("Definition %s (keys : list Z) : Z * Z :=\n  (%s)%%Z.\n",
		it.Coq, strings.TrimLeft(b.String(), " ")), nil
}

// ---- InstallCMap ----

func kindC09BInstall(root string, p *pkgInfo, it item) (string, error) {
	fds := p.findFuncs(it.Name)
	if len(fds) != 1 {
		return "", fmt.Errorf("expected exactly one function %s, found %d", it.Name, len(fds))
	}
	fd := fds[0]
	if fd.Recv == nil || len(fd.Recv.List) != 1 || len(fd.Recv.List[0].Names) != 1 {
		return "", fmt.Errorf("no named receiver")
	}
	recv := fd.Recv.List[0].Names[0].Name
	if fd.Type.Params == nil || len(fd.Type.Params.List) != 1 || len(fd.Type.Params.List[0].Names) != 1 {
		return "", fmt.Errorf("expected one parameter")
	}
	sub := fd.Type.Params.List[0].Names[0].Name
	var lang *int64
	encVar := ""
	nKeys := -1
	nIf := 0
	for i, st := range fd.Body.List {
		switch s := st.(type) {
		case *ast.AssignStmt:
			if len(s.Lhs) != 1 || len(s.Rhs) != 1 {
				return "", fmt.Errorf("unsupported assignment %d", i)
			}
			if s.Tok == token.DEFINE {
				id, ok := s.Lhs[0].(*ast.Ident)
				if !ok {
					return "", fmt.Errorf("unsupported definition %d", i)
				}
				if ce, ok := s.Rhs[0].(*ast.CallExpr); ok && p.exprText(ce.Fun) == sub+".Encode" {
					if len(ce.Args) != 1 || encVar != "" {
						return "", fmt.Errorf("unexpected Encode call")
					}
					v, err := p.evalInt(ce.Args[0], 0)
					if err != nil {
						return "", err
					}
					lang = &v
					encVar = id.Name
					continue
				}
				// an integer local (encoding ids)
				if ce, ok := s.Rhs[0].(*ast.CallExpr); ok && len(ce.Args) == 1 {
					if _, err := p.evalInt(ce.Args[0], 0); err == nil {
						continue
					}
				}
				if _, err := p.evalInt(s.Rhs[0], 0); err == nil {
					continue
				}
				return "", fmt.Errorf("unsupported definition of %s", id.Name)
			}
			if s.Tok != token.ASSIGN || p.exprText(s.Lhs[0]) != recv+".CMapTable" {
				return "", fmt.Errorf("statement %d stores into %s: not a replacement of %s.CMapTable", i, p.exprText(s.Lhs[0]), recv)
			}
			cl, ok := s.Rhs[0].(*ast.CompositeLit)
			if !ok || p.exprText(cl.Type) != "cmap.Table" {
				return "", fmt.Errorf("%s.CMapTable is not assigned a cmap.Table literal", recv)
			}
			if nKeys >= 0 {
				return "", fmt.Errorf("%s.CMapTable is assigned twice", recv)
			}
			for _, e := range cl.Elts {
				kv, ok := e.(*ast.KeyValueExpr)
				if !ok {
					return "", fmt.Errorf("table literal element is not key: value")
				}
				id, ok := kv.Value.(*ast.Ident)
				if !ok || encVar == "" || id.Name != encVar {
					return "", fmt.Errorf("a table entry does not hold the encoded subtable")
				}
			}
			nKeys = len(cl.Elts)
		case *ast.IfStmt:
			nIf++
			if nIf > 1 || s.Else != nil {
				return "", fmt.Errorf("unexpected if statement")
			}
			for _, bs := range s.Body.List {
				as, ok := bs.(*ast.AssignStmt)
				if !ok || as.Tok != token.ASSIGN || len(as.Lhs) != 1 {
					return "", fmt.Errorf("unexpected statement in the if body")
				}
				if _, ok := as.Lhs[0].(*ast.Ident); !ok {
					return "", fmt.Errorf("the if body stores into %s", p.exprText(as.Lhs[0]))
				}
			}
		default:
			return "", fmt.Errorf("unsupported statement %d", i)
		}
	}
	if lang == nil || nKeys < 0 {
		return "", fmt.Errorf("InstallCMap: shape not recognised")
	}
	return fmt.Sprintf("Definition %s_lang : N := %d%%N.\nDefinition %s_entries : nat := %d%%nat.\n", it.Coq, *lang, it.Coq, nKeys), nil
}

// ---- the loops over CodeRange ----

func kindC09BRangeLoop(root string, p *pkgInfo, it item) (string, error) {
	fds := p.findFuncs(it.Name)
	if len(fds) != 1 {
		return "", fmt.Errorf("expected exactly one function %s, found %d", it.Name, len(fds))
	}
	var widths []int
	var bad error
	ast.Inspect(fds[0], func(n ast.Node) bool {
		blk, ok := n.(*ast.BlockStmt)
		if !ok {
			return true
		}
		for i, st := range blk.List {
			as, ok := st.(*ast.AssignStmt)
			if !ok || as.Tok != token.DEFINE || len(as.Lhs) != 2 || len(as.Rhs) != 1 {
				continue
			}
			ce, ok := as.Rhs[0].(*ast.CallExpr)
			if !ok {
				continue
			}
			se, ok := ce.Fun.(*ast.SelectorExpr)
			if !ok || se.Sel.Name != "CodeRange" {
				continue
			}
			a, b := p.exprText(as.Lhs[0]), p.exprText(as.Lhs[1])
			// the next for statement of the block is the loop
			var loop *ast.ForStmt
			for _, st2 := range blk.List[i+1:] {
				if fs, ok := st2.(*ast.ForStmt); ok {
					loop = fs
					break
				}
			}
			if loop == nil || loop.Init == nil || loop.Cond == nil || loop.Post == nil {
				bad = fmt.Errorf("no counting loop after %s, %s := CodeRange()", a, b)
				continue
			}
			init, ok1 := loop.Init.(*ast.AssignStmt)
			cond, ok2 := loop.Cond.(*ast.BinaryExpr)
			post, ok3 := loop.Post.(*ast.IncDecStmt)
			if !ok1 || !ok2 || !ok3 || init.Tok != token.DEFINE || len(init.Lhs) != 1 || cond.Op != token.LEQ || post.Tok != token.INC {
				bad = fmt.Errorf("loop shape not recognised")
				continue
			}
			v := p.exprText(init.Lhs[0])
			if p.exprText(cond.X) != v || p.exprText(post.X) != v {
				bad = fmt.Errorf("loop shape not recognised")
				continue
			}
			switch {
			case p.exprText(init.Rhs[0]) == a && p.exprText(cond.Y) == b:
				widths = append(widths, 32)
			case p.exprText(init.Rhs[0]) == "int64("+a+")" && p.exprText(cond.Y) == "int64("+b+")":
				// the rune handed to Lookup must be rune(<loop variable>)
				okBody := false
				if len(loop.Body.List) > 0 {
					if d, ok := loop.Body.List[0].(*ast.AssignStmt); ok && d.Tok == token.DEFINE && len(d.Rhs) == 1 &&
						p.exprText(d.Rhs[0]) == "rune("+v+")" {
						okBody = true
					}
				}
				if !okBody {
					bad = fmt.Errorf("the loop body does not start with r := rune(%s)", v)
					continue
				}
				widths = append(widths, 64)
			default:
				bad = fmt.Errorf("loop bounds are not %s and %s", a, b)
			}
		}
		return true
	})
	if bad != nil {
		return "", bad
	}
	if len(widths) != 1 {
		return "", fmt.Errorf("expected exactly one loop over CodeRange, found %d", len(widths))
	}
	return fmt.Sprintf("Definition %s : N := %d%%N.\n", it.Coq, widths[0]), nil
}

// ---- decodeFormat0 with a code2rune function ----

func kindC09BDec0Mac(root string, p *pkgInfo, it item) (string, error) {
	fds := p.findFuncs(it.Name)
	if len(fds) != 1 {
		return "", fmt.Errorf("expected exactly one function %s, found %d", it.Name, len(fds))
	}
	fd := fds[0]
	if fd.Type.Params == nil || len(fd.Type.Params.List) != 2 || len(fd.Type.Params.List[1].Names) != 1 {
		return "", fmt.Errorf("%s does not take (data, code2rune)", it.Name)
	}
	c2r := fd.Type.Params.List[1].Names[0].Name
	found := 0
	used := false
	var bad error
	ast.Inspect(fd.Body, func(n ast.Node) bool {
		if id, ok := n.(*ast.Ident); ok && id.Name == c2r {
			used = true
		}
		is, ok := n.(*ast.IfStmt)
		if !ok || p.exprText(is.Cond) != c2r+" != nil" {
			return true
		}
		// res := Format4{}; for c, g := range data { if g != 0 { res[uint16(code2rune(c))] = glyph.ID(g) } }; return res, nil
		if is.Else != nil || len(is.Body.List) != 3 {
			bad = fmt.Errorf("branch on %s has an unexpected shape", c2r)
			return false
		}
		def, ok1 := is.Body.List[0].(*ast.AssignStmt)
		loop, ok2 := is.Body.List[1].(*ast.RangeStmt)
		ret, ok3 := is.Body.List[2].(*ast.ReturnStmt)
		if !ok1 || !ok2 || !ok3 || def.Tok != token.DEFINE || len(def.Lhs) != 1 || p.exprText(def.Rhs[0]) != "Format4{}" ||
			len(ret.Results) != 2 || p.exprText(ret.Results[0]) != p.exprText(def.Lhs[0]) || p.exprText(ret.Results[1]) != "nil" {
			bad = fmt.Errorf("branch on %s has an unexpected shape", c2r)
			return false
		}
		res := p.exprText(def.Lhs[0])
		if loop.Key == nil || loop.Value == nil || p.exprText(loop.X) != fd.Type.Params.List[0].Names[0].Name || len(loop.Body.List) != 1 {
			bad = fmt.Errorf("the loop does not range over the data")
			return false
		}
		c, g := p.exprText(loop.Key), p.exprText(loop.Value)
		inner, ok := loop.Body.List[0].(*ast.IfStmt)
		if !ok || p.exprText(inner.Cond) != g+" != 0" || inner.Else != nil || len(inner.Body.List) != 1 {
			bad = fmt.Errorf("the loop body is not `if %s != 0 { ... }`", g)
			return false
		}
		st, ok := inner.Body.List[0].(*ast.AssignStmt)
		if !ok || st.Tok != token.ASSIGN || len(st.Lhs) != 1 ||
			p.exprText(st.Lhs[0]) != fmt.Sprintf("%s[uint16(%s(%s))]", res, c2r, c) ||
			p.exprText(st.Rhs[0]) != fmt.Sprintf("glyph.ID(%s)", g) {
			bad = fmt.Errorf("the store is not %s[uint16(%s(%s))] = glyph.ID(%s)", res, c2r, c, g)
			return false
		}
		found++
		return false
	})
	if bad != nil {
		return "", bad
	}
	switch {
	case found == 1:
		return fmt.Sprintf("Definition %s : bool := true.\n", it.Coq), nil
	case found == 0 && !c09bUsesCode2rune(fd, c2r):
		return fmt.Sprintf("Definition %s : bool := false.\n", it.Coq), nil
	}
	_ = used
	return "", fmt.Errorf("%s uses %s in a way that is not recognised", it.Name, c2r)
}

// c09bUsesCode2rune: is code2rune CALLED anywhere in the function?
func c09bUsesCode2rune(fd *ast.FuncDecl, c2r string) bool {
	called := false
	ast.Inspect(fd.Body, func(n ast.Node) bool {
		if ce, ok := n.(*ast.CallExpr); ok {
			if id, ok := ce.Fun.(*ast.Ident); ok && id.Name == c2r {
				called = true
			}
		}
		return true
	})
	return called
}
